#!/usr/bin/env python3
"""Run the repository's pinned test suite (guard OFF: no -tags verif) and
compare with the stable_pass list of /root/.vp/BASELINE.json.
Exit 0 iff every stable_pass test passes."""
import json, os, subprocess, sys

def main():
    repo = os.environ.get("VERIF_REPO", "/repo")
    base = json.load(open("/root/.vp/BASELINE.json"))
    want = set(base["stable_pass"])
    env = dict(os.environ, GOFLAGS="-mod=mod", GOPROXY="off", GOSUMDB="off", GOTOOLCHAIN="local")
    p = subprocess.run(["go", "test", "-json", "-vet=off", "-count=1", "-timeout", "25m", "./..."],
                       cwd=repo, env=env, stdout=subprocess.PIPE, stderr=subprocess.STDOUT, text=True, errors="replace")
    passed, failed = set(), set()
    for line in p.stdout.splitlines():
        line = line.strip()
        if not line.startswith("{"):
            continue
        try:
            ev = json.loads(line)
        except Exception:
            continue
        a, pkg, t = ev.get("Action"), ev.get("Package", ""), ev.get("Test")
        if t is None or a not in ("pass", "fail"):
            continue
        (passed if a == "pass" else failed).add(pkg + "::" + t)
    passed -= failed
    missing = sorted(want - passed)
    print("baseline: stable_pass=%d passed_now=%d missing=%d" % (len(want), len(passed & want), len(missing)))
    for m in missing[:40]:
        print("  NOT PASSING:", m)
    sys.exit(1 if missing else 0)

if __name__ == "__main__":
    main()
