#!/bin/bash
# tools/seedtest.sh <ID> '<demo command using $TREE>' [extra check ids...]
# Confirms a seeded defect (from /tmp/mut_out/<ID>) and runs our check(s) against it.
# 1. changed scratch tree /tmp/m_<ID>: builds, baseline passes, demo FAILS
# 2. pristine /repo: demo PASSES
# 3. patch applied to /repo: ./check <ID> must exit 1 with a VIOLATION line; patch reverted afterwards
set -u
ID=$1; DEMO=$2; shift 2; EXTRA="$@"
export GOFLAGS=-mod=mod GOPROXY=off GOSUMDB=off GOTOOLCHAIN=local
OUT=/verif/seeded${ROUND:-}/$ID; mkdir -p $OUT
M=/tmp/mut_out${ROUND:-}/$ID
res() { echo "$1" | tee -a $OUT/confirm.log; }
: > $OUT/confirm.log
git -C /repo diff --quiet || { echo "/repo is dirty"; exit 2; }
# 1
(cd /tmp/m${ROUND:-}_$ID && go build ./... ) && res "changed tree builds: yes" || res "changed tree builds: NO"
b=$(VERIF_REPO=/tmp/m${ROUND:-}_$ID python3 /verif/lib/baseline.py | head -1); res "baseline on changed tree: $b"
TREE=/tmp/m${ROUND:-}_$ID; (eval "$DEMO") > $OUT/demo_changed.txt 2>&1; rc1=$?; res "demo on changed tree: exit $rc1 (expected non-zero)"
# 2
TREE=/repo; (eval "$DEMO") > $OUT/demo_pristine.txt 2>&1; rc2=$?; res "demo on pristine /repo: exit $rc2 (expected 0)"
git -C /repo status --short | grep -v '^??' | head -3
# 3
git -C /repo apply $M/patch.diff || { res "patch does not apply to /repo"; exit 2; }
for c in $ID $EXTRA; do
  (cd /verif && timeout 3000 ./check $c) > $OUT/check_$c.txt 2>&1; rc=$?
  res "./check $c on seeded tree: exit $rc; $(grep -c '^VIOLATION' $OUT/check_$c.txt) VIOLATION line(s): $(grep '^VIOLATION' $OUT/check_$c.txt | head -1)"
  rp=$(grep '^VIOLATION' $OUT/check_$c.txt | head -1 | sed 's/.*replay=\([^ ]*\).*/\1/'); [ -n "$rp" ] && [ -f "$rp" ] && cp $rp $OUT/replay_$c.json
done
git -C /repo checkout -- . ; git -C /repo status --short | grep -v '^??' | head -3
cp $M/patch.diff $M/meta.json $OUT/ 2>/dev/null; cp -r $M/demo $OUT/ 2>/dev/null; cp $M/*.go $M/*.sh $M/RUN.md $OUT/ 2>/dev/null
# leave evidence of the clean tree again
(cd /verif && ./check $ID > /dev/null 2>&1; echo "check $ID back on clean tree: exit $?" | tee -a $OUT/confirm.log)
