#!/bin/bash
# tools/mkwt.sh <id>  : development worktrees /tmp/v_<id> (verif, branch b-<id>) and /tmp/r_<id> (repo, branch hook-<id>)
set -e
id=$1
git -C /verif worktree add -q /tmp/v_$id -b b-$id
git -C /repo worktree add -q /tmp/r_$id -b hook-$id
(cd /tmp/v_$id && VERIF_REPO=/tmp/r_$id ./setup.sh >/dev/null 2>&1)
echo "/tmp/v_$id /tmp/r_$id ready"
