#!/bin/bash
# usage: goal.sh <file.v> <line>   -- print the proof state after <line> (run from rocq/)
f=$1; n=$2; t=$(mktemp -d); b=$(basename $f .v)
head -n $n $f > $t/Tmp_$b.v; echo "Show. " >> $t/Tmp_$b.v
coqc -Q . Verif $t/Tmp_$b.v 2>&1 | tail -${3:-40}; rm -rf $t
