#!/bin/bash
# tools/mergefix.sh <id>  (e.g. c07): cherry-pick the fix commits of hook-<id> onto /repo main, merge b-<id> into /verif main
# (evidence conflicts: theirs), rewrite the commit hashes in known_findings.d/<ID>.json to the cherry-picked ones.
set -u
id=$1; ID=$(echo $id | tr a-z A-Z)
cd /repo || exit 2
git diff --quiet || { echo "/repo dirty"; exit 2; }
declare -A map
for c in $(git rev-list --reverse main..hook-$id); do
  subj=$(git log -1 --format=%s $c)
  old=$(git rev-parse --short $c)
  git cherry-pick $c >/dev/null 2>&1 || { echo "cherry-pick of $old failed: $subj"; git cherry-pick --abort; exit 3; }
  new=$(git rev-parse --short HEAD)
  echo "$old -> $new  $subj"
  map[$old]=$new
done
cd /verif || exit 2
git merge --no-edit -q b-$id >/dev/null 2>&1
for f in $(git diff --name-only --diff-filter=U); do
  case $f in evidence/*) git checkout --theirs $f; git add $f;; rocq/Gen/*) git checkout --ours $f; git add $f;; *) echo "CONFLICT $f"; exit 4;; esac
done
git diff --cached --quiet || git commit -qm "merge $ID fix round"
for old in "${!map[@]}"; do sed -i "s/$old/${map[$old]}/g" known_findings.d/$ID.json props.d/$ID.json; done
git add -A; git commit -qm "$ID: fixed-entry hashes as on /repo main" >/dev/null
echo merged $ID
