#!/bin/bash
# tools/seedextra.sh <ROUND> <ID> <check ids...>: apply seeded<ROUND>/<ID>/patch.diff to /repo, run the given checks, revert
R=$1; ID=$2; shift 2
OUT=/verif/seeded$R/$ID
git -C /repo diff --quiet || { echo "/repo dirty"; exit 2; }
git -C /repo apply $OUT/patch.diff || exit 2
for c in "$@"; do
  (cd /verif && timeout 3000 ./check $c) > $OUT/check_$c.txt 2>&1; rc=$?
  echo "cross-check: ./check $c on seeded$R/$ID tree: exit $rc; $(grep '^VIOLATION' $OUT/check_$c.txt | head -1)" | tee -a $OUT/confirm.log
  rp=$(grep '^VIOLATION' $OUT/check_$c.txt | head -1 | sed 's/.*replay=\([^ ]*\).*/\1/'); [ -n "$rp" ] && [ -f "$rp" ] && cp $rp $OUT/replay_$c.json
done
git -C /repo checkout -- .
for c in "$@"; do (cd /verif && ./check $c >/dev/null 2>&1; echo "check $c back on clean tree: exit $?"); done
