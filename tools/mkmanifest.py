#!/usr/bin/env python3
"""Regenerate MANIFEST.json from props.json (the per-property configuration used by ./check)."""
import json, os, subprocess
ROOT = os.path.dirname(os.path.dirname(os.path.abspath(__file__)))
import glob
props = json.load(open(os.path.join(ROOT, "props.json")))
for f in sorted(glob.glob(os.path.join(ROOT, "props.d", "*.json"))):
    props.update(json.load(open(f)))
allp = [json.loads(l) for l in open(os.path.join(ROOT, "properties.jsonl"))]
hooks = json.load(open(os.path.join(ROOT, "hooks.json")))
checks, na = [], []
for p in allp:
    pid = p["id"]
    c = props.get(pid)
    if not c or c.get("disabled"):
        na.append({"property_id": pid, "reason": (c or {}).get("disabled", "check not built yet in this round; design in DESIGN.md §4 " + pid)})
        continue
    checks.append({
        "property_id": pid,
        "quick_cmd": "./check %s --tier quick" % pid,
        "thorough_cmd": "./check %s --tier thorough" % pid,
        "evidence_file": "/verif/evidence/%s.json" % pid,
        "replay_cmd_template": "./check %s --replay {path}" % pid,
        "engine": "rocq",
        "level_claimed": {"category": "proof", "text": c["level_text"], "design_ref": c.get("design_ref", "DESIGN.md §4 " + pid)},
        "level_note": c["level_note"],
        "technique": c.get("technique", "machine-checked proof in Coq 8.16 over an executable Gallina model; model tied to /repo by differential correspondence through the extracted OCaml model" + ("; tables regenerated from source by translator" if c.get("gen") else "")),
    })
m = {
    "version": 1,
    "setup_cmd": "./setup.sh",
    "hooks": hooks,
    "engines": [{"name": "rocq", "path": "/verif/rocq", "serves_properties": [c["property_id"] for c in checks],
                 "kind_free_text": "Coq 8.16.1 development (Lib/ Model/ Proofs/ Properties/ Gen/), extraction to OCaml (bin/modelrun_*), Go harnesses (harness/), Go translator (translator/), driver ./check"}],
    "checks": checks,
    "not_applicable": na,
    "notes": "Every check: regenerate tables from /repo, rebuild the Coq obligations (full .vo), extract the model, build the Go harness against /repo's working tree with -tags verif, run correspondence + search, write evidence. See DESIGN.md.",
}
json.dump(m, open(os.path.join(ROOT, "MANIFEST.json"), "w"), indent=1)
print("MANIFEST.json: %d checks, %d not_applicable" % (len(checks), len(na)))
