#!/bin/bash
# tools/seedall.sh: apply every kept seeded patch (3 rounds x 20 properties) to /repo in turn, run the property's own check,
# revert; writes work/seedmatrix.txt (one line per patch).  A patch that no longer applies (the code it touched was
# repaired since) is tried with its hand-ported variant patch_ported.diff if present.
cd /verif; out=work/seedmatrix.txt; [ -n "${SEEDDIRS:-}" ] || : > $out
git -C /repo diff --quiet || { echo "/repo dirty"; exit 2; }
for d in ${SEEDDIRS:-seeded seeded2 seeded3 seeded4 seeded5 seeded6 seeded7}; do
  for i in $(seq -w 1 20); do
    ID=C$i; P=/verif/$d/$ID/patch.diff
    [ -f /verif/$d/$ID/patch_ported.diff ] && ! git -C /repo apply --check $P 2>/dev/null && P=/verif/$d/$ID/patch_ported.diff
    [ -d /verif/$d/$ID ] || continue
    [ -f $P ] || { echo "$d $ID no-patch" >> $out; continue; }
    if ! git -C /repo apply --check $P 2>/dev/null; then echo "$d $ID patch-no-longer-applies" >> $out; continue; fi
    git -C /repo apply $P
    ./check $ID > work/seedall_$ID.log 2>&1; rc=$?
    v=$(grep '^VIOLATION' work/seedall_$ID.log | head -1)
    git -C /repo checkout -- .
    echo "$d $ID exit=$rc $v" >> $out
  done
done
# leave clean evidence
for i in $(seq -w 1 20); do ./check C$i > /dev/null 2>&1 || echo "C$i not clean after revert" >> $out; done
