#!/bin/bash
# tools/seedrecheck.sh <ID> [check ids...]: re-run check(s) with /verif/seeded/<ID>/patch.diff applied to /repo (reverted afterwards)
set -u
ID=$1; shift; CH="${@:-$ID}"
OUT=/verif/seeded${ROUND:-}/$ID
git -C /repo diff --quiet || { echo "/repo is dirty"; exit 2; }
git -C /repo apply $OUT/patch.diff || exit 2
for c in $CH; do
  (cd /verif && timeout 3000 ./check $c) > $OUT/check_$c.txt 2>&1; rc=$?
  echo "re-check after strengthening: ./check $c on seeded tree: exit $rc; $(grep '^VIOLATION' $OUT/check_$c.txt | head -1)" | tee -a $OUT/confirm.log
  rp=$(grep '^VIOLATION' $OUT/check_$c.txt | head -1 | sed 's/.*replay=\([^ ]*\).*/\1/'); [ -n "$rp" ] && [ -f "$rp" ] && cp $rp $OUT/replay_$c.json
done
git -C /repo checkout -- .
(cd /verif && ./check $ID > /dev/null 2>&1; echo "check $ID back on clean tree: exit $?" | tee -a $OUT/confirm.log)
