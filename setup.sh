#!/bin/bash
# Build the framework from files on disk only (offline). Idempotent.
set -e
cd "$(dirname "$0")"
export GOFLAGS=-mod=mod GOPROXY=off GOSUMDB=off GOTOOLCHAIN=local CGO_ENABLED=0
mkdir -p bin work evidence/replay
if ls translator/*.go >/dev/null 2>&1; then
  (cd translator && go build -o ../bin/translator . && ../bin/translator -repo /repo -out ../rocq/Gen)
fi
python3 -c "import importlib.machinery,importlib.util;l=importlib.machinery.SourceFileLoader('chk','./check');s=importlib.util.spec_from_loader('chk',l);m=importlib.util.module_from_spec(s);l.exec_module(m);m.regen_coqproject()"
(cd rocq && coq_makefile -f _CoqProject -o Makefile && timeout 3000 make -j16 -k) || echo "setup: some Coq obligations failed (reported per check)"
(cd harness && go build -tags verif ./... ) || echo "setup: harness build failed (reported per check)"
echo setup done
