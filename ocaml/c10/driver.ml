open Model
open Wire
open Fnum
open Regex_wire

let res_with f = function
  | Ok x -> "ok " ^ f x
  | Err m -> "err " ^ hex_of_bytes m
  | Panic -> "panic"
  | Unmod -> "unmod"
let res_bytes = res_with hex_of_bytes
let res_z = res_with string_of_z

let handle = function
  | ["substr"; c; s; p] ->
      let s = bytes_of_hex s and p = fnum_of_bits p in
      res_bytes (if bool_of_string c then substr_chars s p else substr_bytes s p)
  | ["substrlen"; c; s; p; l] ->
      let s = bytes_of_hex s and p = fnum_of_bits p and l = fnum_of_bits l in
      res_bytes (if bool_of_string c then substr_len_chars s p l else substr_len_bytes s p l)
  | ["int"; x] -> "ok " ^ string_of_fnum (builtin_int (fnum_of_bits x))
  | ["index"; c; s; t] -> res_z (builtin_index (bool_of_string c) (bytes_of_hex s) (bytes_of_hex t))
  | ["length"; c; s] -> "ok " ^ string_of_z (builtin_length (bool_of_string c) (bytes_of_hex s))
  (* match <chars> <regex-ast> <s>  ->  ok RSTART RLENGTH *)
  | ["match"; c; r; s] ->
      res_with (fun (a, b) -> string_of_z a ^ " " ^ string_of_z b)
        (match_re (re_of_wire r) (bool_of_string c) (bytes_of_hex s))
  (* sub <global> <regex-ast> <repl> <src>  ->  ok count out *)
  | ["sub"; g; r; repl; s] ->
      res_with (fun (out, n) -> string_of_z n ^ " " ^ hex_of_bytes out)
        (sub_re (re_of_wire r) (bool_of_string g) (bytes_of_hex repl) (bytes_of_hex s))
  (* split <sepIsRegex> <sep> <regex-ast of sep> <s>  ->  ok n key=value ... *)
  | ["split"; isre; sep; r; s] ->
      res_with (fun (n, arr) ->
          String.concat " " (string_of_z n :: List.map (fun (k, v) -> string_of_z k ^ "=" ^ hex_of_bytes v) arr))
        (split_re (re_of_wire r) (bytes_of_hex sep) (bool_of_string isre) (bytes_of_hex s))
  (* findall <regex-ast> <s>: the engine alone (Lib/Regex.all_matches), for the trusted-base self check *)
  | ["findall"; r; s] ->
      String.concat " " (List.map (fun (a, b) -> string_of_z a ^ "," ^ string_of_z b)
        (all_matches (re_of_wire r) (bytes_of_hex s))) ^ ";"
  | ["upper"; s] -> res_bytes (builtin_toupper (bytes_of_hex s))
  | ["lower"; s] -> res_bytes (builtin_tolower (bytes_of_hex s))
  | op :: _ -> "driver-error unknown-op " ^ op
  | [] -> "driver-error empty"

let () = serve handle
