open Model
open Wire
open Fnum

let res_bytes = function
  | Ok b -> "ok " ^ hex_of_bytes b
  | Err m -> "err " ^ hex_of_bytes m
  | Panic -> "panic"
  | Unmod -> "unmod"
let res_z = function
  | Ok z -> "ok " ^ string_of_z z
  | Err m -> "err " ^ hex_of_bytes m
  | Panic -> "panic"
  | Unmod -> "unmod"

let handle = function
  | ["substr"; c; s; p] ->
      let s = bytes_of_hex s and p = fnum_of_bits p in
      res_bytes (if bool_of_string c then substr_chars s p else substr_bytes s p)
  | ["substrlen"; c; s; p; l] ->
      let s = bytes_of_hex s and p = fnum_of_bits p and l = fnum_of_bits l in
      res_bytes (if bool_of_string c then substr_len_chars s p l else substr_len_bytes s p l)
  | ["int"; x] -> "ok " ^ string_of_fnum (builtin_int (fnum_of_bits x))
  | ["index"; c; s; t] -> res_z (builtin_index (bool_of_string c) (bytes_of_hex s) (bytes_of_hex t))
  | ["length"; c; s] -> "ok " ^ string_of_z (builtin_length (bool_of_string c) (bytes_of_hex s))
  | op :: _ -> "driver-error unknown-op " ^ op
  | [] -> "driver-error empty"

let () = serve handle
