(* C20 model runner: one request per line (fields separated by one space)
     print <sexp>          the program dump of parser.VerifC20ParsePrint  -> hex of the model's Program.String()
     lexas <sexp>          does the model's text lex back (under the parser's protocol) to the printer's tokens: 1 | 0
     fits <sexp>           fitsb of every expression of the program in its context -> ok=.. fail=.. out=.. argfalseonly=..
     num <bits>            NumExpr.String()                               -> hex
     quote <hex>           strconv.Quote                                  -> hex
     fregex <hex>          formatRegex                                    -> hex
     lex <hex>             lexer.Scan until EOF / ILLEGAL                 -> <end> <token> <token> ...
     regex <0|1> <hex>     lexer.ScanRegex after DIV (0) / DIV_ASSIGN (1) -> ok <hex regex> <lex answer for the rest> | err *)
open Model
open Wire
open Sexp

let bfn_names = [
  "atan2", FAtan2; "close", FClose; "cos", FCos; "exp", FExp; "fflush", FFflush; "gsub", FGsub;
  "index", FIndex; "int", FInt; "length", FLength; "log", FLog; "match", FMatch; "rand", FRand;
  "sin", FSin; "split", FSplit; "sprintf", FSprintf; "sqrt", FSqrt; "srand", FSrand; "sub", FSub;
  "substr", FSubstr; "system", FSystem; "tolower", FTolower; "toupper", FToupper ]
let string_of_bfn f = fst (List.find (fun (_, g) -> g = f) bfn_names)

let binop_of = function
  | "add" -> BAdd | "sub" -> BSub | "mul" -> BMul | "div" -> BDiv | "mod" -> BMod | "pow" -> BPow
  | "eq" -> BEq | "ne" -> BNe | "lt" -> BLt | "le" -> BLe | "gt" -> BGt | "ge" -> BGe
  | "match" -> BMatch | "notmatch" -> BNotMatch | "and" -> BAnd | "or" -> BOr | "concat" -> BConcat
  | s -> failwith ("binop " ^ s)
let unop_of = function "not" -> UNot | "add" -> UPlus | "sub" -> UMinus | s -> failwith ("unop " ^ s)
let incop_of = function "incr" -> IIncr | "decr" -> IDecr | s -> failwith ("incop " ^ s)
let redir_of = function "none" -> RNone | "gt" -> RGreater | "append" -> RAppend | "pipe" -> RPipe | s -> failwith ("redir " ^ s)

let rec expr_of (s : sexp) : expr =
  match s with
  | List [Atom "num"; Atom bits] -> ENum (fmt_num (of_bits (z_of_string bits)))
  | List [Atom "str"; Atom h] -> EStr (bytes_of_hex h)
  | List [Atom "strregex"; Atom h] -> EStrRegex (bytes_of_hex h)
  | List [Atom "regex"; Atom h] -> ERegex (bytes_of_hex h)
  | List [Atom "field"; x] -> EField (expr_of x)
  | List [Atom "namedfield"; x] -> ENamedField (expr_of x)
  | List [Atom "var"; Atom h] -> EVar (bytes_of_hex h)
  | List (Atom "index" :: Atom h :: idx) -> EIndex (bytes_of_hex h, List.map expr_of idx)
  | List (Atom "in" :: Atom h :: idx) -> EIn (List.map expr_of idx, bytes_of_hex h)
  | List [Atom "unary"; Atom op; x] -> EUnary (unop_of op, expr_of x)
  | List [Atom "binary"; Atom op; l; r] -> EBinary (binop_of op, expr_of l, expr_of r)
  | List [Atom "cond"; c; t; f] -> ECond (expr_of c, expr_of t, expr_of f)
  | List [Atom "assign"; l; r] -> EAssign (expr_of l, expr_of r)
  | List [Atom "augassign"; Atom op; l; r] -> EAugAssign (binop_of op, expr_of l, expr_of r)
  | List [Atom "incr"; Atom op; Atom pre; x] -> EIncr (incop_of op, pre = "1", expr_of x)
  | List (Atom "call" :: Atom f :: args) -> ECall (List.assoc f bfn_names, List.map expr_of args)
  | List (Atom "usercall" :: Atom h :: args) -> EUserCall (bytes_of_hex h, List.map expr_of args)
  | List (Atom "multi" :: es) -> EMulti (List.map expr_of es)
  | List [Atom "getline"; c; t; f] -> EGetline (opt_of c, opt_of t, opt_of f)
  | List [Atom "group"; x] -> EGroup (expr_of x)
  | _ -> failwith ("expr " ^ to_string s)
and opt_of = function Atom "nil" -> None | s -> Some (expr_of s)

let rec stmt_of (s : sexp) : stmt =
  match s with
  | List (Atom "print" :: Atom rd :: dest :: args) -> SPrint (false, List.map expr_of args, redir_of rd, opt_of dest)
  | List (Atom "printf" :: Atom rd :: dest :: args) -> SPrint (true, List.map expr_of args, redir_of rd, opt_of dest)
  | List [Atom "expr"; e] -> SExpr (expr_of e)
  | List [Atom "if"; c; b; e] -> SIf (expr_of c, stmts_of b, stmts_of e)
  | List [Atom "for"; pre; c; post; b] -> SFor (ostmt_of pre, opt_of c, ostmt_of post, stmts_of b)
  | List [Atom "forin"; Atom v; Atom a; b] -> SForIn (bytes_of_hex v, bytes_of_hex a, stmts_of b)
  | List [Atom "while"; c; b] -> SWhile (expr_of c, stmts_of b)
  | List [Atom "dowhile"; b; c] -> SDo (stmts_of b, expr_of c)
  | List [Atom "break"] -> SBreak
  | List [Atom "continue"] -> SContinue
  | List [Atom "next"] -> SNext
  | List [Atom "nextfile"] -> SNextfile
  | List [Atom "exit"; e] -> SExit (opt_of e)
  | List (Atom "delete" :: Atom a :: idx) -> SDelete (bytes_of_hex a, List.map expr_of idx)
  | List [Atom "return"; e] -> SReturn (opt_of e)
  | List [Atom "block"; b] -> SBlock (stmts_of b)
  | _ -> failwith ("stmt " ^ to_string s)
and stmts_of = function List l -> List.map stmt_of l | Atom a -> failwith ("stmts " ^ a)
and ostmt_of = function Atom "nil" -> None | s -> Some (stmt_of s)

let program_of (s : sexp) : program =
  match s with
  | List [Atom "program"; List (Atom "begin" :: bs); List (Atom "actions" :: acts); List (Atom "end" :: es);
          List (Atom "functions" :: fs)] ->
      { p_begin = List.map stmts_of bs;
        p_actions = List.map (function
          | List [Atom "action"; List pats; body] ->
              { a_pattern = List.map expr_of pats;
                a_body = (match body with Atom "nil" -> None | b -> Some (stmts_of b)) }
          | x -> failwith ("action " ^ to_string x)) acts;
        p_end = List.map stmts_of es;
        p_funcs = List.map (function
          | List [Atom "func"; Atom n; List ps; body] ->
              { f_name = bytes_of_hex n;
                f_params = List.map (function Atom h -> bytes_of_hex h | _ -> failwith "param") ps;
                f_body = stmts_of body }
          | x -> failwith ("func " ^ to_string x)) fs }
  | _ -> failwith "program"

(* ---- does every expression the parser built respect C04's table (fitsb), in its context ---- *)
let rec in_fragment (e : expr) : bool =
  match e with
  | ENum _ | EStr _ | EStrRegex _ | ERegex _ | EVar _ -> true
  | EField i -> in_fragment i
  | ENamedField _ | ECall _ | EMulti _ | EGetline _ -> false
  | EIndex (_, l) | EIn (l, _) | EUserCall (_, l) -> List.for_all in_fragment l
  | EUnary (_, v) -> in_fragment v
  | EBinary (_, l, r) | EAssign (l, r) | EAugAssign (_, l, r) -> in_fragment l && in_fragment r
  | ECond (c, t, f) -> in_fragment c && in_fragment t && in_fragment f
  | EIncr (_, _, x) | EGroup x -> in_fragment x

type fstat = { mutable ok : int; mutable fail : int; mutable out : int; mutable arg_false_only : int }

let fits_program (p : program) : string =
  let st = { ok = 0; fail = 0; out = 0; arg_false_only = 0 } in
  let plain e =
    if not (in_fragment e) then st.out <- st.out + 1
    else if fitsb false O e then st.ok <- st.ok + 1 else st.fail <- st.fail + 1 in
  let arg e =
    if not (in_fragment e) then st.out <- st.out + 1
    else if fitsb true O e then st.ok <- st.ok + 1
    else if fitsb false O e then st.arg_false_only <- st.arg_false_only + 1
    else st.fail <- st.fail + 1 in
  let opt f = function Some e -> f e | None -> () in
  let rec stmt s =
    match s with
    | SPrint (_, args, _, dest) -> List.iter arg args; opt plain dest
    | SExpr e -> plain e
    | SIf (c, b, e) -> plain c; List.iter stmt b; List.iter stmt e
    | SFor (pre, c, post, b) -> opt stmt pre; opt plain c; opt stmt post; List.iter stmt b
    | SForIn (_, _, b) -> List.iter stmt b
    | SWhile (c, b) -> plain c; List.iter stmt b
    | SDo (b, c) -> List.iter stmt b; plain c
    | SBreak | SContinue | SNext | SNextfile -> ()
    | SExit e | SReturn e -> opt plain e
    | SDelete (_, idx) -> List.iter plain idx
    | SBlock b -> List.iter stmt b in
  List.iter (List.iter stmt) p.p_begin;
  List.iter (fun a -> List.iter plain a.a_pattern; (match a.a_body with Some b -> List.iter stmt b | None -> ())) p.p_actions;
  List.iter (List.iter stmt) p.p_end;
  List.iter (fun f -> List.iter stmt f.f_body) p.p_funcs;
  Printf.sprintf "ok=%d fail=%d out=%d argfalseonly=%d" st.ok st.fail st.out st.arg_false_only

let tok_word (t : tok) : string =
  match t with
  | TNewline -> "NL" | TAdd -> "+" | TAddAssign -> "+=" | TAnd -> "&&" | TAppend -> ">>" | TAssign -> "="
  | TAt -> "@" | TColon -> ":" | TComma -> "," | TDecr -> "--" | TDiv -> "/" | TDivAssign -> "/="
  | TDollar -> "$" | TEquals -> "==" | TGte -> ">=" | TGreater -> ">" | TIncr -> "++" | TLBrace -> "{"
  | TLBracket -> "[" | TLess -> "<" | TLParen false -> "(" | TLParen true -> "_(" | TLte -> "<="
  | TMatch -> "~" | TMod -> "%" | TModAssign -> "%=" | TMul -> "*" | TMulAssign -> "*="
  | TNotMatch -> "!~" | TNot -> "!" | TNotEquals -> "!=" | TOr -> "||" | TPipe -> "|" | TPow -> "^"
  | TPowAssign -> "^=" | TQuestion -> "?" | TRBrace -> "}" | TRBracket -> "]" | TRParen -> ")"
  | TSemicolon -> ";" | TSub -> "-" | TSubAssign -> "-="
  | TGetline -> "k:54" | TIn -> "k:56" | TPrint -> "k:59" | TPrintf -> "k:60"
  | TFunc f -> "f:" ^ string_of_bfn f
  | TName s -> "n:" ^ hex_of_bytes s
  | TNumber s -> "d:" ^ hex_of_bytes s
  | TString s -> "s:" ^ hex_of_bytes s
  | TRegex s -> "r:" ^ hex_of_bytes s
  | TOther k -> "k:" ^ string_of_z k

let rest_of_line (line : string) : string =
  match String.index_opt line ' ' with
  | Some i -> String.sub line (i + 1) (String.length line - i - 1)
  | None -> ""

let lex_words (bs : z list) : string =
  let (ts, c) = scan_all (nat_of_int (List.length bs + 2)) bs in
  String.concat " " ((match int_of_z c with 0 -> "eof" | 1 -> "illegal" | 2 -> "unmod" | _ -> "fuel") :: List.map tok_word ts)

let handle_line (line : string) : string =
  let cmd = match String.index_opt line ' ' with Some i -> String.sub line 0 i | None -> line in
  let arg = rest_of_line line in
  match cmd with
  | "print" -> hex_of_bytes (program_string (program_of (Sexp.parse arg)))
  | "lexas" ->
      let ps = pprogram (program_of (Sexp.parse arg)) in
      if lex_as false (toks ps) (render ps) then "1" else "0"
  | "fits" -> fits_program (program_of (Sexp.parse arg))
  | "num" -> hex_of_bytes (fmt_num (of_bits (z_of_string arg)))
  | "quote" -> hex_of_bytes (quote (bytes_of_hex arg))
  | "fregex" -> hex_of_bytes (format_regex (bytes_of_hex arg))
  | "lex" -> lex_words (bytes_of_hex arg)
  | "regex" ->
      (match split_ws arg with
       | [eq; h] ->
           (match scan_regex (eq = "1") (bytes_of_hex h) with
            | Some (r, rest) -> "ok " ^ hex_of_bytes r ^ " " ^ lex_words rest
            | None -> "err")
       | _ -> failwith "regex args")
  | _ -> failwith ("bad command " ^ cmd)

let () =
  try
    while true do
      let line = input_line stdin in
      let ans = try handle_line line with
        | Failure m -> "driver-error " ^ m
        | Not_found -> "driver-error not-found"
        | Invalid_argument m -> "driver-error " ^ m
        | Stack_overflow -> "driver-error stack-overflow" in
      print_string ans; print_char '\n'
    done
  with End_of_file -> ()
