(* modelrun for C14: line protocol between harness/c14 and the extracted Model/Reuse.v.
   Self-contained (ocaml/common/wire.ml is not used: the extracted model defines a type `string`). *)
module BZ = Z
module M = Model

(* ---- Coq Z / nat / string <-> OCaml ---- *)
let rec pos_of_bz (n : BZ.t) : M.positive =
  if BZ.equal n BZ.one then M.XH
  else if BZ.is_even n then M.XO (pos_of_bz (BZ.shift_right n 1))
  else M.XI (pos_of_bz (BZ.shift_right n 1))
let z_of_bz (n : BZ.t) : M.z =
  let s = BZ.sign n in
  if s = 0 then M.Z0 else if s > 0 then M.Zpos (pos_of_bz n) else M.Zneg (pos_of_bz (BZ.neg n))
let rec bz_of_pos = function
  | M.XH -> BZ.one
  | M.XO p -> BZ.shift_left (bz_of_pos p) 1
  | M.XI p -> BZ.succ (BZ.shift_left (bz_of_pos p) 1)
let bz_of_z = function M.Z0 -> BZ.zero | M.Zpos p -> bz_of_pos p | M.Zneg p -> BZ.neg (bz_of_pos p)
let z_of_str (s : String.t) = z_of_bz (BZ.of_string s)
let str_of_z z = BZ.to_string (bz_of_z z)
let z_of_int n = z_of_bz (BZ.of_int n)
let int_of_z z = BZ.to_int (bz_of_z z)

let coq_of_char (c : char) : M.ascii =
  let n = Char.code c in
  let b i = (n lsr i) land 1 = 1 in
  M.Ascii (b 0, b 1, b 2, b 3, b 4, b 5, b 6, b 7)
let char_of_coq (a : M.ascii) : char =
  match a with
  | M.Ascii (b0, b1, b2, b3, b4, b5, b6, b7) ->
    let v b i = if b then 1 lsl i else 0 in
    Char.chr (v b0 0 + v b1 1 + v b2 2 + v b3 3 + v b4 4 + v b5 5 + v b6 6 + v b7 7)
let coq_of_string (s : String.t) : M.string =
  let r = ref M.EmptyString in
  for i = String.length s - 1 downto 0 do r := M.String (coq_of_char s.[i], !r) done; !r
let string_of_coq (s : M.string) : String.t =
  let b = Buffer.create 16 in
  let rec go = function M.EmptyString -> () | M.String (a, r) -> Buffer.add_char b (char_of_coq a); go r in
  go s; Buffer.contents b

let bytes_of_hex (s : String.t) : M.z list =
  if s = "-" then [] else begin
    let n = String.length s / 2 in
    let rec go i acc = if i < 0 then acc
      else go (i - 1) (z_of_int (int_of_string ("0x" ^ String.sub s (2 * i) 2)) :: acc) in
    go (n - 1) []
  end
let hex_of_bytes (l : M.z list) : String.t =
  if l = [] then "-" else begin
    let b = Buffer.create 64 in
    List.iter (fun z ->
      let v = int_of_z z in
      if v < 0 || v > 255 then Buffer.add_string b (Printf.sprintf "<%d>" v)
      else Buffer.add_string b (Printf.sprintf "%02x" v)) l;
    Buffer.contents b
  end

(* ---- token stream ---- *)
exception Bad of String.t
type toks = { a : String.t array; mutable i : int }
let next t = if t.i >= Array.length t.a then raise (Bad "eof") else (let x = t.a.(t.i) in t.i <- t.i + 1; x)
let tail (s : String.t) = String.sub s 1 (String.length s - 1)

let rec rd_val t : M.val0 =
  let x = next t in
  if x = "" then raise (Bad "empty token") else
  match x.[0] with
  | 'n' -> M.VNil
  | 'b' -> M.VB (x = "b1")
  | 'i' -> M.VI (z_of_str (tail x))
  | 'f' -> M.VF (z_of_str (tail x))
  | 's' -> M.VS (bytes_of_hex (tail x))
  | 'o' -> M.VO (bytes_of_hex (tail x))
  | 'l' -> let k = int_of_string (tail x) in M.VL (List.init k (fun _ -> rd_val t))
  | 'm' -> let k = int_of_string (tail x) in
           M.VM (List.init k (fun _ -> let key = bytes_of_hex (next t) in let v = rd_val t in (key, v)))
  | _ -> raise (Bad ("val token " ^ x))

let rec wr_val b (v : M.val0) =
  let add s = Buffer.add_char b ' '; Buffer.add_string b s in
  match v with
  | M.VNil -> add "n"
  | M.VB x -> add (if x then "b1" else "b0")
  | M.VI z -> add ("i" ^ str_of_z z)
  | M.VF z -> add ("f" ^ str_of_z z)
  | M.VS s -> add ("s" ^ hex_of_bytes s)
  | M.VO s -> add ("o" ^ hex_of_bytes s)
  | M.VL l -> add ("l" ^ string_of_int (List.length l)); List.iter (wr_val b) l
  | M.VM m -> add ("m" ^ string_of_int (List.length m));
              List.iter (fun (k, v) -> add (hex_of_bytes k); wr_val b v) m

let rd_bool t = (next t = "b1")
let rd_int t = z_of_str (tail (next t))
let rd_hex t = bytes_of_hex (next t)
let rd_opt t = match next t with "N" -> None | "S" -> Some (rd_val t) | x -> raise (Bad ("opt " ^ x))
let rd_list t f = let k = int_of_string (next t) in List.init k (fun _ -> f t)

(* a state: <k> name val ... ; fields not mentioned read as VNil *)
let rd_state t : M.state =
  let k = int_of_string (next t) in
  let tbl = Hashtbl.create 128 in
  for _ = 1 to k do
    let name = next t in
    let v = rd_val t in
    Hashtbl.replace tbl name v
  done;
  fun f -> match Hashtbl.find_opt tbl (string_of_coq f) with Some v -> v | None -> M.VNil

let wr_state b (s : M.state) =
  let fl = M.model_fields in
  Buffer.add_string b (string_of_int (List.length fl));
  List.iter (fun f -> Buffer.add_char b ' '; Buffer.add_string b (string_of_coq f); wr_val b (s f)) fl

let rd_env t : M.envt =
  let r = rd_val t in let sh = rd_val t in let o = rd_val t in let z = rd_val t in let w = rd_bool t in
  { M.e_rand1 = r; e_shell = sh; e_openFile = o; e_zeroBuf = z; e_windows = w }
let rd_pc t : M.progconst =
  let a = rd_val t in let b = rd_val t in let c = rd_val t in let d = rd_val t in let e = rd_val t in
  let f = rd_val t in let g = rd_val t in
  { M.pc_program = a; pc_functions = b; pc_nums = c; pc_strs = d; pc_regexes = e;
    pc_scalarIndexes = f; pc_arrayIndexes = g }
let rd_entry t : M.entry =
  match next t with
  | "x" -> M.EExec
  | "c" -> let b = rd_bool t in let cv = rd_val t in let dv = rd_val t in M.ECtx (b, cv, dv)
  | x -> raise (Bad ("entry " ^ x))
let rd_cfg t : M.config =
  let varsOdd = rd_bool t in let environOdd = rd_bool t in
  let inputMode = rd_int t in let inSep = rd_int t in let inComment = rd_int t in let inHeader = rd_bool t in
  let outputMode = rd_int t in let outSep = rd_int t in
  let openFile = rd_opt t in
  let argv0 = rd_hex t in let args = rd_list t rd_hex in
  let noArgVars = rd_bool t in
  let vars = rd_list t (fun t -> let k = rd_hex t in let v = rd_hex t in (k, v)) in
  let chars = rd_bool t in
  let environ = rd_list t (fun t -> let k = rd_hex t in let v = rd_hex t in (k, v)) in
  let shell = rd_opt t in
  let noExec = rd_bool t in let noFileWrites = rd_bool t in let noFileReads = rd_bool t in
  let stdin = rd_val t in let output = rd_val t in let error = rd_val t in
  let funcs = rd_val t in
  let newline = rd_int t in
  { M.c_varsOdd = varsOdd; c_environOdd = environOdd; c_inputMode = inputMode; c_inSep = inSep;
    c_inComment = inComment; c_inHeader = inHeader; c_outputMode = outputMode; c_outSep = outSep;
    c_openFile = openFile; c_argv0 = argv0; c_args = args; c_noArgVars = noArgVars; c_vars = vars;
    c_chars = chars; c_environ = environ; c_shell = shell; c_noExec = noExec;
    c_noFileWrites = noFileWrites; c_noFileReads = noFileReads; c_stdin = stdin; c_output = output;
    c_error = error; c_funcs = funcs; c_newline = newline }

let err_code = function
  | M.EVarsOdd -> "varsodd" | M.EEnvironOdd -> "environodd" | M.EInCfgDefault -> "incfgdefault"
  | M.EOutCfgDefault -> "outcfgdefault" | M.ECsvSeparator -> "csvsep" | M.ENewlineMode -> "newline"
  | M.EVar _ -> "var" | M.EUnmodelled -> "unmod"

let names l = String.concat " " (List.map string_of_coq l)
let ok_state s = let b = Buffer.create 4096 in Buffer.add_string b "ok "; wr_state b s; Buffer.contents b

let handle (line : String.t) : String.t =
  let a = Array.of_list (List.filter (fun x -> x <> "") (String.split_on_char ' ' line)) in
  let t = { a; i = 0 } in
  match next t with
  | "nilsens" -> "ok " ^ names M.nil_tested
  | "fields" -> "ok " ^ names M.model_fields
  | "runmutable" -> "ok " ^ names M.run_mutable
  | "obs" -> let en = rd_entry t in "ok " ^ names (M.obs_fields en)
  | "new" -> let e = rd_env t in let pc = rd_pc t in ok_state (M.m_newInterp e pc)
  | "resetcore" -> ok_state (M.m_resetCore (rd_state t))
  | "resetvars" -> ok_state (M.m_resetVars (rd_state t))
  | "resetrand" -> let e = rd_env t in ok_state (M.m_resetRand e (rd_state t))
  | "prologue" -> let en = rd_entry t in ok_state (M.m_prologue en (rd_state t))
  | "setcfg" ->
      let e = rd_env t in let c = rd_cfg t in let s = rd_state t in
      (match M.m_setExecuteConfig M.set_vars_exec e c s with
       | (_, Some M.EUnmodelled) -> "unmod"
       | (s', Some err) -> let b = Buffer.create 4096 in
                           Buffer.add_string b ("err " ^ err_code err ^ " "); wr_state b s'; Buffer.contents b
       | (s', None) -> ok_state s')
  | "predict" ->
      let e = rd_env t in let pc = rd_pc t in let en = rd_entry t in let c = rd_cfg t in
      let rv = rd_bool t in let rr = rd_bool t in let g = rd_state t in
      (match M.predict_diff M.set_vars_exec e pc en c rv rr g with
       | M.PDiff l -> String.trim ("ok " ^ names l)
       | M.PError -> "none"
       | M.PUnmodelled -> "unmod")
  | op -> "driver-error unknown-op " ^ op

let () =
  try
    while true do
      let line = input_line stdin in
      let ans = try handle line with
        | Bad m -> "driver-error " ^ m
        | Failure m -> "driver-error " ^ m
        | Not_found -> "driver-error not-found"
        | Invalid_argument m -> "driver-error " ^ m in
      print_string ans; print_char '\n'
    done
  with End_of_file -> ()
