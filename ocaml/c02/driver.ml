open Model
type string = Stdlib.String.t
open Wire
open Sexp

(* C02 model runner.
   verify <compiled dump> <resolver tables dump>
     -> "ok units=U instrs=I words=W" when the decoder accepts every unit, re-encoding the decoded
        code gives back exactly the input words, the verifier accepts the program and every
        table index is inside its table; otherwise "fail <stage> <unit>".
   rs <hex>  -> outcome of the one-byte RS branch of setSpecial: ok | error | panic
   fields <ops> -> ops = space separated R:n:d G:n N F:i M:0|1 ; "ok" or "panic" (CSV-mode field slices) *)

let atoms_z = function
  | List l -> List.map (function Atom a -> z_of_string a | _ -> failwith "atom") l
  | Atom _ -> failwith "list"

let count p l = List.length (List.filter p l)

let limits_of (tables : sexp) (nnums : int) (nstrs : int) (nregexes : int) : limits =
  match tables with
  | List [Atom "tables"; List (Atom "vars" :: vars); List (Atom "funcs" :: funcs)] ->
      let is_glob ty = function
        | List [Atom f; _; Atom sc; _; Atom t] -> f = "-" && sc = "3" && t = ty
        | _ -> failwith "var entry" in
      let natives = count (function List [_; Atom n; _; _] -> n = "1" | _ -> failwith "func entry") funcs in
      program_limits (z_of_int (count (is_glob "1") vars)) (z_of_int (count (is_glob "2") vars))
        (z_of_int nnums) (z_of_int nstrs) (z_of_int nregexes) (z_of_int natives)
  | _ -> failwith "tables dump"

let parse_compiled (s : sexp) : wprogram * int * int * int =
  match s with
  | List [Atom "compiled"; List [Atom "begin"; bg]; List (Atom "actions" :: acts); List [Atom "end"; en];
          List (Atom "functions" :: fs); List (Atom "nums" :: ns); List (Atom "strs" :: ss); List (Atom "regexes" :: rs)] ->
      let funcs = List.map (function
        | List [Atom "cfunc"; _; Atom nsc; Atom narr; _; body] -> ((z_of_string nsc, z_of_string narr), atoms_z body)
        | _ -> failwith "cfunc") fs in
      let actions = List.map (function
        | List [Atom "caction"; List pats; body] ->
            (List.map atoms_z pats, (match body with Atom "nil" -> None | w -> Some (atoms_z w)))
        | _ -> failwith "caction") acts in
      ({ w_funcs = funcs; w_begin = atoms_z bg; w_actions = actions; w_end = atoms_z en },
       List.length ns, List.length ss, List.length rs)
  | _ -> failwith "compiled dump"

(* the units of a program with their names, for diagnostics *)
let units (w : wprogram) : (string * z list) list =
  List.mapi (fun i ((_, _), b) -> (Printf.sprintf "func:%d" i, b)) w.w_funcs
  @ [("begin", w.w_begin)]
  @ List.concat (List.mapi (fun i (pats, body) ->
      List.mapi (fun j p -> (Printf.sprintf "pattern:%d.%d" i j, p)) pats
      @ (match body with None -> [] | Some b -> [(Printf.sprintf "action:%d" i, b)])) w.w_actions)
  @ [("end", w.w_end)]

let first_fail (f : 'a -> bool) (l : (string * 'a) list) : string =
  match List.find_opt (fun (_, x) -> not (f x)) l with Some (n, _) -> n | None -> "?"

let verify (compiled : string) (tables : string) : string =
  let (w, nn, ns, nr) = parse_compiled (parse compiled) in
  let lim = limits_of (parse tables) nn ns nr in
  let us = units w in
  match decode_program w with
  | None -> "fail decode " ^ first_fail (fun ws -> decode ws <> None) us
  | Some cp ->
      (* round trip: re-encoding the decoded code gives the words back *)
      let rt = List.for_all (fun (_, ws) -> match decode ws with Some c -> enc_raw c = ws | None -> false) us in
      if not rt then "fail roundtrip " ^ first_fail (fun ws -> match decode ws with Some c -> enc_raw c = ws | None -> false) us
      else if not (check_program cp) then begin
        let ft = ftable_of cp.c_funcs in
        let named =
          List.mapi (fun i f -> (Printf.sprintf "func:%d" i, fun () -> check_func ft f)) cp.c_funcs
          @ [("begin", fun () -> check_code ft Z0 false Z0 Z0 cp.c_begin)]
          @ List.concat (List.mapi (fun i (pats, body) ->
              List.mapi (fun j p -> (Printf.sprintf "pattern:%d.%d" i j, fun () -> check_code ft Z0 false Z0 (z_of_int 1) p)) pats
              @ (match body with None -> [] | Some b -> [(Printf.sprintf "action:%d" i, fun () -> check_code ft Z0 false Z0 Z0 b)])) cp.c_actions)
          @ [("end", fun () -> check_code ft Z0 false Z0 Z0 cp.c_end)] in
        "fail stack " ^ first_fail (fun f -> f ()) named
      end
      else if not (check_program_limits lim cp) then "fail limits"
      else begin
        let ninstr = List.fold_left (fun a (_, ws) -> a + (match decode ws with Some c -> List.length c | None -> 0)) 0 us in
        let nwords = List.fold_left (fun a (_, ws) -> a + List.length ws) 0 us in
        (* opcode numbers used (first word of every instruction), for the coverage histogram *)
        let ops = List.sort_uniq compare (List.concat (List.map (fun (_, ws) ->
          match decode ws with
          | Some c ->
              let rec go c ws acc = (match c, ws with
                | i :: c', w :: _ ->
                    let n = List.length (enc_raw [i]) in
                    let rec drop k l = if k = 0 then l else (match l with [] -> [] | _ :: t -> drop (k - 1) t) in
                    go c' (drop n ws) (int_of_z w :: acc)
                | _, _ -> acc) in
              go c ws []
          | None -> []) us)) in
        Printf.sprintf "ok units=%d instrs=%d words=%d ops=%s" (List.length us) ninstr nwords
          (String.concat "," (List.map string_of_int ops))
      end

let handle = function
  | ["verify"; compiled; tables] -> verify compiled tables
  | ["rs"; h] -> (match set_rs_short (bytes_of_hex h) with RsOk -> "ok" | RsError -> "error" | RsPanic -> "panic")
  | ["fields"; ops] ->
      let op_of w =
        if w = "N" then ONF
        else match String.split_on_char ':' w with
          | ["R"; n; d] -> ORecord (z_of_string n, z_of_string d)
          | ["M"; b] -> OSetMode (b = "1")
          | ["G"; n] -> OGetlineVar (z_of_string n)
          | ["F"; i] -> OField (z_of_string i)
          | _ -> failwith ("bad op " ^ w) in
      (match f_run fs_init (List.map op_of (split_ws ops)) with Some _ -> "ok" | None -> "panic")
  | op :: _ -> "driver-error unknown-op " ^ op
  | [] -> "driver-error empty"

let () = serve_tabs handle
