(* statement skeleton dump (interp/verif_c18.go) <-> Model.program with unit payload *)
open Model
type string = Stdlib.String.t
open Wire
open Sexp

let zs = z_of_string
let mkp l c = { pline = zs l; pcol = zs c }

let kind_of = function
  | "print" -> KPrint | "printf" -> KPrintf | "expr" -> KExpr | "delete" -> KDelete
  | "break" -> KBreak | "continue" -> KContinue | "next" -> KNext | "nextfile" -> KNextfile
  | "exit" -> KExit | "return" -> KReturn | s -> failwith ("kind " ^ s)
let kind_name = function
  | KPrint -> "print" | KPrintf -> "printf" | KExpr -> "expr" | KDelete -> "delete"
  | KBreak -> "break" | KContinue -> "continue" | KNext -> "next" | KNextfile -> "nextfile"
  | KExit -> "exit" | KReturn -> "return"

let rec stmt (s : sexp) : unit cstmt =
  match s with
  | List [Atom "cover"; Atom m; Atom i] -> SCover ((if m = "count" then MCount else MSet), zs i)
  | List [Atom "if"; Atom a; Atom b; Atom c; Atom d; Atom e; Atom f; List body; List els] ->
      SIf ((), mkp a b, mkp c d, mkp e f, List.map stmt body, List.map stmt els)
  | List [Atom "for"; Atom a; Atom b; Atom c; Atom d; Atom e; Atom f; List body] ->
      SFor (None, None, None, mkp a b, mkp c d, mkp e f, List.map stmt body)
  | List [Atom "forin"; Atom a; Atom b; Atom c; Atom d; Atom e; Atom f; List body] ->
      SForIn ((), mkp a b, mkp c d, mkp e f, List.map stmt body)
  | List [Atom "while"; Atom a; Atom b; Atom c; Atom d; Atom e; Atom f; List body] ->
      SWhile ((), mkp a b, mkp c d, mkp e f, List.map stmt body)
  | List [Atom "dowhile"; Atom a; Atom b; Atom e; Atom f; List body] ->
      SDoWhile ((), mkp a b, mkp e f, List.map stmt body)
  | List [Atom "block"; Atom a; Atom b; Atom e; Atom f; List body] ->
      SBlock (mkp a b, mkp e f, List.map stmt body)
  | List [Atom k; Atom a; Atom b; Atom e; Atom f] -> SSimple (kind_of k, (), mkp a b, mkp e f)
  | _ -> failwith ("stmt " ^ to_string s)

let stmts = function List l -> List.map stmt l | Atom a -> failwith ("stmts " ^ a)

let rec units n = if n <= 0 then [] else () :: units (n - 1)

let program (s : sexp) : unit program =
  match s with
  | List [Atom "prog"; List (Atom "begin" :: bg); List (Atom "actions" :: acts);
          List (Atom "end" :: en); List (Atom "funcs" :: fs)] ->
      { p_begin = List.map stmts bg;
        p_actions = List.map (function
          | List [Atom "action"; Atom n; Atom "nil"] -> { a_pat = units (int_of_string n); a_body = None }
          | List [Atom "action"; Atom n; body] -> { a_pat = units (int_of_string n); a_body = Some (stmts body) }
          | x -> failwith ("action " ^ to_string x)) acts;
        p_end = List.map stmts en;
        p_funcs = List.map stmts fs }
  | _ -> failwith "prog"

let a z = Atom (string_of_z z)
let pp (p : pos) = [a p.pline; a p.pcol]

let rec out_stmt (s : unit cstmt) : sexp =
  match s with
  | SSimple (k, (), st, en) -> List (Atom (kind_name k) :: pp st @ pp en)
  | SIf ((), st, bs, en, body, els) -> List (Atom "if" :: pp st @ pp bs @ pp en @ [out_list body; out_list els])
  | SFor (_, _, _, st, bs, en, body) -> List (Atom "for" :: pp st @ pp bs @ pp en @ [out_list body])
  | SForIn ((), st, bs, en, body) -> List (Atom "forin" :: pp st @ pp bs @ pp en @ [out_list body])
  | SWhile ((), st, bs, en, body) -> List (Atom "while" :: pp st @ pp bs @ pp en @ [out_list body])
  | SDoWhile ((), st, en, body) -> List (Atom "dowhile" :: pp st @ pp en @ [out_list body])
  | SBlock (st, en, body) -> List (Atom "block" :: pp st @ pp en @ [out_list body])
  | SCover (m, i) -> List [Atom "cover"; Atom (match m with MCount -> "count" | MSet -> "set"); a i]
and out_list l = List (List.map out_stmt l)

let out_program (p : unit program) : sexp =
  List [Atom "prog"; List (Atom "begin" :: List.map out_list p.p_begin);
        List (Atom "actions" :: List.map (fun ac ->
          List [Atom "action"; Atom (string_of_int (List.length ac.a_pat));
                (match ac.a_body with None -> Atom "nil" | Some l -> out_list l)]) p.p_actions);
        List (Atom "end" :: List.map out_list p.p_end);
        List (Atom "funcs" :: List.map out_list p.p_funcs)]

let files (s : sexp) : ftable =
  match s with
  | List (Atom "files" :: fs) ->
      List.map (function List [Atom p; Atom n] -> (bytes_of_hex p, zs n) | _ -> failwith "file") fs
  | _ -> failwith "files"

let out_files (t : ftable) : sexp =
  List (Atom "files" :: List.map (fun (p, n) -> List [Atom (hex_of_bytes p); a n]) t)

let out_blocks (bl : block list) : sexp =
  List (Atom "blocks" :: List.map (fun b ->
    List (Atom (hex_of_bytes b.b_path) :: pp b.b_start @ pp b.b_end @ [a b.b_num])) bl)
