open Model
type string = Stdlib.String.t
open Wire
open Sexp

let mode_of = function "count" -> MCount | "set" -> MSet | s -> failwith ("mode " ^ s)

(* toAbsolutePath = filepath.Abs for the clean names the harness uses: absolute stays, else cwd/name *)
let abs_path (cwd : Model.z list) (p : Model.z list) : Model.z list =
  match p with
  | c :: _ when int_of_z c = 47 -> p
  | _ -> cwd @ [z_of_int 47] @ p

let rec pairs = function
  | p :: c :: t -> (bytes_of_hex p, bytes_of_hex c) :: pairs t
  | [] -> []
  | _ -> failwith "addfiles: odd"

let handle = function
  | ["annotate"; m; fs; skel] ->
      let (p, bl) = annotate (Conv.files (parse fs)) (mode_of m) (Conv.program (parse skel)) in
      to_string (Conv.out_program p) ^ "\t" ^ to_string (Conv.out_blocks bl)
  | "addfiles" :: rest ->
      let (t, src) = List.fold_left (fun st (p, c) -> add_file st p c) ([], []) (pairs rest) in
      to_string (Conv.out_files t) ^ "\t" ^ hex_of_bytes src
  | ["fileline"; fs; line] ->
      let (p, l) = file_line (Conv.files (parse fs)) (z_of_string line) in
      hex_of_bytes p ^ " " ^ string_of_z l
  | ["profile"; m; app; existed; old; cwd; fs; skel; counts] ->
      (* counts: "line:col:n" for the start position of every statement that began n > 0 times *)
      let tbl = Hashtbl.create 64 in
      List.iter (fun w -> match String.split_on_char ':' w with
        | [l; c; n] -> Hashtbl.replace tbl (l, c) (z_of_string n)
        | _ -> failwith "count") (split_ws counts);
      let md = mode_of m in
      let (p, bl) = annotate (Conv.files (parse fs)) md (Conv.program (parse skel)) in
      (* the __COVER array the theorems predict from the begin counts: count mode n, set mode 1,
         key absent when the guarded statement never began *)
      let data = List.concat_map (fun (i, (ps : pos)) ->
        match Hashtbl.find_opt tbl (string_of_z ps.pline, string_of_z ps.pcol) with
        | Some n when int_of_z n > 0 -> [(i, (match md with MCount -> n | MSet -> z_of_int 1))]
        | _ -> []) (marks_of (tagged_prog p)) in
      hex_of_bytes (write_profile md (bool_of_string app) (bool_of_string existed) (bytes_of_hex old)
                      (abs_path (bytes_of_hex cwd)) bl data)
  | op :: _ -> "driver-error unknown-op " ^ op
  | [] -> "driver-error empty"

let () = serve_tabs handle
