(* resolved-AST dump (parser/verif_dump.go) -> Model.program *)
open Model
type string = Stdlib.String.t
open Wire
open Sexp

exception Unsupported of string
let unsupported s = raise (Unsupported s)

let scope_of = function "1" -> SLocal | "2" -> SSpecial | "3" -> SGlobal | s -> unsupported ("scope " ^ s)
let zs = z_of_string

(* function table of the dump: name -> (index, array flags) *)
type finfo = { fidx : int; flags : bool list }
let ftab : (string, finfo) Hashtbl.t = Hashtbl.create 16

let arith_of = function
  | "add" -> AAdd | "sub" -> ASub | "mul" -> AMul | "div" -> ADiv | "pow" -> APow | "mod" -> AMod
  | s -> unsupported ("arith " ^ s)
let cmp_of = function
  | "eq" -> CEq | "ne" -> CNe | "lt" -> CLt | "le" -> CLe | "gt" -> CGt | "ge" -> CGe
  | s -> unsupported ("cmp " ^ s)

let rec exprs_of_list = function [] -> Enil | e :: t -> Econs (e, exprs_of_list t)

let builtin_of name nargs =
  match name, nargs with
  | "atan2", _ -> BAtan2 | "close", _ -> BClose | "cos", _ -> BCos | "exp", _ -> BExp
  | "fflush", 0 -> BFflushAll | "fflush", _ -> BFflush
  | "index", _ -> BIndex | "int", _ -> BInt | "log", _ -> BLog | "match", _ -> BMatchFn
  | "rand", _ -> BRand | "sin", _ -> BSin | "sqrt", _ -> BSqrt
  | "srand", 0 -> BSrand | "srand", _ -> BSrandSeed
  | "substr", 2 -> BSubstr | "substr", _ -> BSubstrLength
  | "system", _ -> BSystem | "tolower", _ -> BTolower | "toupper", _ -> BToupper
  | "length", 0 -> BLength | "length", _ -> BLengthArg
  | s, _ -> unsupported ("builtin " ^ s)

let rec expr (s : sexp) : expr =
  match s with
  | List [Atom "num"; Atom b] -> ENum (zs b)
  | List [Atom "str"; Atom h; Atom _] -> EStr (bytes_of_hex h)
  | List [Atom "regex"; Atom h] -> ERegex (bytes_of_hex h)
  | List [Atom "field"; e] -> EField (expr e)
  | List [Atom "namedfield"; e] -> ENamedField (expr e)
  | List [Atom "var"; _; Atom sc; Atom i; _] -> EVar (scope_of sc, zs i)
  | List (Atom "index" :: _ :: Atom sc :: Atom i :: _ :: idx) -> EIndex (scope_of sc, zs i, exprs_of_list (List.map expr idx))
  | List (Atom "in" :: _ :: Atom sc :: Atom i :: _ :: idx) -> EIn (exprs_of_list (List.map expr idx), scope_of sc, zs i)
  | List [Atom "unary"; Atom op; e] ->
      EUnary ((match op with "sub" -> UNeg | "not" -> UNot | "add" -> UPlus | s -> unsupported ("unary " ^ s)), expr e)
  | List [Atom "binary"; Atom op; l; r] ->
      (match op with
       | "and" -> EAnd (expr l, expr r)
       | "or" -> EOr (expr l, expr r)
       | "concat" -> EConcat (expr l, expr r)
       | "match" -> EBin (BMatch, expr l, expr r)
       | "notmatch" -> EBin (BNotMatch, expr l, expr r)
       | "add" | "sub" | "mul" | "div" | "pow" | "mod" -> EBin (BArith (arith_of op), expr l, expr r)
       | _ -> EBin (BCmp (cmp_of op), expr l, expr r))
  | List [Atom "cond"; c; t; f] -> ECond (expr c, expr t, expr f)
  | List [Atom "assign"; l; r] -> EAssign (lval l, expr r)
  | List [Atom "augassign"; Atom op; l; r] -> EAugAssign (lval l, arith_of op, expr r)
  | List [Atom "incr"; Atom op; Atom pre; e] -> EIncr (lval e, (op = "decr"), (pre = "1"))
  | List [Atom "group"; e] -> EGroup (expr e)
  | List (Atom "call" :: Atom name :: args) -> call name args
  | List (Atom "usercall" :: Atom name :: Atom native :: Atom idx :: args) ->
      if native = "1" then ENativeCall (zs idx, exprs_of_list (List.map expr args))
      else begin
        let fi = try Hashtbl.find ftab name with Not_found -> unsupported "call of unknown function" in
        if fi.fidx <> int_of_string idx then unsupported "function index mismatch";
        let nsc = List.length (List.filter (fun b -> not b) fi.flags) in
        let rec go args flags =
          match args, flags with
          | [], _ -> Anil
          | a :: at, fl :: ft ->
              if fl then (match a with
                          | List [Atom "var"; _; Atom sc; Atom i; _] -> AconsA (scope_of sc, zs i, go at ft)
                          | _ -> unsupported "array argument is not a variable")
              else AconsS (expr a, go at ft)
          | _ :: _, [] -> unsupported "more arguments than parameters" in
        EUserCall (zs idx, z_of_int nsc, go args fi.flags)
      end
  | List [Atom "getline"; cmd; tgt; file] ->
      let r, src = (match cmd, file with
        | Atom "nil", Atom "nil" -> RNone, ENum Z0
        | c, Atom "nil" -> RPipe, expr c
        | Atom "nil", f -> RLess, expr f
        | _ -> unsupported "getline with both command and file") in
      (match tgt with
       | Atom "nil" -> EGetline (r, src)
       | t -> EGetlineLv (r, src, lval t))
  | _ -> unsupported ("expr " ^ (match s with List (Atom a :: _) -> a | _ -> "?"))

and lval (s : sexp) : lval =
  match s with
  | List [Atom "var"; _; Atom sc; Atom i; _] -> LVar (scope_of sc, zs i)
  | List [Atom "field"; e] -> LField (expr e)
  | List (Atom "index" :: _ :: Atom sc :: Atom i :: _ :: idx) -> LIndex (scope_of sc, zs i, exprs_of_list (List.map expr idx))
  | _ -> unsupported "lvalue"

and call name args =
  let n = List.length args in
  match name, args with
  | "split", [s; List [Atom "var"; _; Atom sc; Atom i; _]] -> ESplit (expr s, scope_of sc, zs i)
  | "split", [s; List [Atom "var"; _; Atom sc; Atom i; _]; sep] ->
      let isre = (match sep with List [Atom "str"; _; Atom "1"] -> true | _ -> false) in
      ESplitSep (expr s, scope_of sc, zs i, expr sep, isre)
  | ("sub" | "gsub"), [re; repl] -> ESubLv ((name = "gsub"), expr re, expr repl, LField (ENum Z0))
  | ("sub" | "gsub"), [re; repl; tgt] ->
      (match tgt with
       | List [Atom "var"; _; Atom sc; Atom i; _] -> ESubVar ((name = "gsub"), expr re, expr repl, scope_of sc, zs i)
       | _ -> ESubLv ((name = "gsub"), expr re, expr repl, lval tgt))
  | "length", [List [Atom "var"; _; Atom sc; Atom i; Atom "2"]] -> ELengthArray (scope_of sc, zs i)
  | "sprintf", _ -> ESprintf (exprs_of_list (List.map expr args))
  | _ -> ECall (builtin_of name n, exprs_of_list (List.map expr args))

let redir_of = function
  | "none" -> RNone | "gt" -> RGreater | "append" -> RAppend | "pipe" -> RPipe
  | s -> unsupported ("redirect " ^ s)

let oexpr = function Atom "nil" -> OEnone | e -> OEsome (expr e)

let rec stmt (s : sexp) : stmt =
  match s with
  | List (Atom "print" :: Atom r :: dest :: args) ->
      SPrint (redir_of r, (match dest with Atom "nil" -> ENum Z0 | d -> expr d), exprs_of_list (List.map expr args))
  | List (Atom "printf" :: Atom r :: dest :: args) ->
      SPrintf (redir_of r, (match dest with Atom "nil" -> ENum Z0 | d -> expr d), exprs_of_list (List.map expr args))
  | List [Atom "expr"; e] -> SExpr (expr e)
  | List [Atom "if"; c; List b; List e] -> SIf (expr c, stmts b, stmts e)
  | List [Atom "for"; pre; c; post; List b] -> SFor (ostmt pre, oexpr c, ostmt post, stmts b)
  | List [Atom "forin"; _; Atom vsc; Atom vi; _; _; Atom asc; Atom ai; _; List b] ->
      SForIn (scope_of vsc, zs vi, scope_of asc, zs ai, stmts b)
  | List [Atom "while"; c; List b] -> SWhile (expr c, stmts b)
  | List [Atom "dowhile"; List b; c] -> SDoWhile (stmts b, expr c)
  | List [Atom "break"] -> SBreak
  | List [Atom "continue"] -> SContinue
  | List [Atom "next"] -> SNext
  | List [Atom "nextfile"] -> SNextfile
  | List [Atom "exit"; e] -> SExit (oexpr e)
  | List [Atom "return"; e] -> SReturn (oexpr e)
  | List [Atom "delete"; _; Atom sc; Atom i; _] -> SDeleteAll (scope_of sc, zs i)
  | List (Atom "delete" :: _ :: Atom sc :: Atom i :: _ :: idx) -> SDelete (scope_of sc, zs i, exprs_of_list (List.map expr idx))
  | List [Atom "block"; List b] -> SBlock (stmts b)
  | _ -> unsupported ("stmt " ^ (match s with List (Atom a :: _) -> a | _ -> "?"))

and stmts (l : sexp list) : stmts =
  match l with [] -> Snil | s :: t -> let s' = stmt s in Scons (s', stmts t)

and ostmt = function Atom "nil" -> OSnone | s -> OSsome (stmt s)

let list_of = function List l -> l | Atom _ -> failwith "expected list"

let program (s : sexp) : program =
  match s with
  | List [Atom "program"; List (Atom "begin" :: bs); List (Atom "actions" :: acts); List (Atom "end" :: es); List (Atom "functions" :: fs)] ->
      Hashtbl.reset ftab;
      List.iteri (fun i f ->
        match f with
        | List [Atom "func"; Atom name; List params; _] ->
            let flags = List.map (function List [_; Atom a; _] -> a = "1" | _ -> failwith "param") params in
            Hashtbl.replace ftab name { fidx = i; flags }
        | _ -> failwith "func") fs;
      let funcs = List.map (function
        | List [Atom "func"; Atom name; _; List body] ->
            let fi = Hashtbl.find ftab name in
            let nsc = List.length (List.filter (fun b -> not b) fi.flags) in
            { f_nscalars = z_of_int nsc; f_narrays = z_of_int (List.length fi.flags - nsc); f_body = stmts body }
        | _ -> failwith "func") fs in
      { p_begin = List.map (fun b -> stmts (list_of b)) bs;
        p_actions = List.map (function
          | List [Atom "action"; List pats; body] ->
              (List.map expr pats, (match body with Atom "nil" -> None | List b -> Some (stmts b) | _ -> failwith "action body"))
          | _ -> failwith "action") acts;
        p_end = List.map (fun b -> stmts (list_of b)) es;
        p_funcs = funcs }
  | _ -> failwith "program"
