open Model
type string = Stdlib.String.t
open Wire
open Sexp

let words (l : z list) : string = String.concat " " (List.map string_of_z l)
let hexes (l : z list list) : string = String.concat " " (List.map hex_of_bytes l)

(* canonical text of an encoded program; the compiled dump of the implementation is rendered the same way *)
let render_model (e : eprogram) : string =
  let b = Buffer.create 256 in
  List.iter (fun ((nsc, narr), body) ->
    Buffer.add_string b (Printf.sprintf "F %s %s [%s];" (string_of_z nsc) (string_of_z narr) (words body))) e.e_funcs;
  Buffer.add_string b (Printf.sprintf "B [%s];" (words e.e_begin));
  List.iter (fun (pats, body) ->
    Buffer.add_string b "A";
    List.iter (fun p -> Buffer.add_string b (Printf.sprintf " P [%s]" (words p))) pats;
    (match body with None -> Buffer.add_string b " nil;" | Some w -> Buffer.add_string b (Printf.sprintf " [%s];" (words w)))) e.e_actions;
  Buffer.add_string b (Printf.sprintf "E [%s];" (words e.e_end));
  Buffer.add_string b (Printf.sprintf "N %s;" (words e.e_pools.pl_nums));
  Buffer.add_string b (Printf.sprintf "S %s;" (hexes e.e_pools.pl_strs));
  Buffer.add_string b (Printf.sprintf "R %s;" (hexes e.e_pools.pl_regexes));
  Buffer.contents b

let atoms = function List l -> String.concat " " (List.map (function Atom a -> a | _ -> failwith "atom") l) | Atom _ -> failwith "list"

let strip_regex_flags (h : string) : string =
  (* Regexp.String() is "(?s:" ^ re ^ ")" : 283f733a ... 29 *)
  let n = String.length h in
  if n >= 10 && String.sub h 0 8 = "283f733a" && String.sub h (n - 2) 2 = "29" then
    (if n = 10 then "-" else String.sub h 8 (n - 10))
  else h

let render_impl (s : sexp) : string =
  match s with
  | List [Atom "compiled"; List [Atom "begin"; bg]; List (Atom "actions" :: acts); List [Atom "end"; en];
          List (Atom "functions" :: fs); List (Atom "nums" :: ns); List (Atom "strs" :: ss); List (Atom "regexes" :: rs)] ->
      let b = Buffer.create 256 in
      List.iter (function
        | List [Atom "cfunc"; _; Atom nsc; Atom narr; _; body] ->
            Buffer.add_string b (Printf.sprintf "F %s %s [%s];" nsc narr (atoms body))
        | _ -> failwith "cfunc") fs;
      Buffer.add_string b (Printf.sprintf "B [%s];" (atoms bg));
      List.iter (function
        | List [Atom "caction"; List pats; body] ->
            Buffer.add_string b "A";
            List.iter (fun p -> Buffer.add_string b (Printf.sprintf " P [%s]" (atoms p))) pats;
            (match body with Atom "nil" -> Buffer.add_string b " nil;" | w -> Buffer.add_string b (Printf.sprintf " [%s];" (atoms w)))
        | _ -> failwith "caction") acts;
      Buffer.add_string b (Printf.sprintf "E [%s];" (atoms en));
      let at = List.map (function Atom a -> a | _ -> failwith "atom") in
      Buffer.add_string b (Printf.sprintf "N %s;" (String.concat " " (at ns)));
      Buffer.add_string b (Printf.sprintf "S %s;" (String.concat " " (at ss)));
      Buffer.add_string b (Printf.sprintf "R %s;" (String.concat " " (List.map strip_regex_flags (at rs))));
      Buffer.contents b
  | _ -> failwith "compiled dump"

(* ---- execution on the integer fragment (Model/ExecToy.v) ---- *)
let fuel_cache : (int, nat) Hashtbl.t = Hashtbl.create 7
let nat_of_int_tr (n : int) : nat =
  match Hashtbl.find_opt fuel_cache n with
  | Some f -> f
  | None ->
      let r = ref O in
      for _ = 1 to n do r := S !r done;
      Hashtbl.replace fuel_cache n !r; !r

let zs sep l = String.concat sep (List.map string_of_z l)

let render_state (k : string) (s : cst) : string =
  if s.c_unmod then "unmod executed-outside-fragment"
  else Printf.sprintf "%s status=%s out=%s" k (string_of_z s.c_exit) (String.concat ";" (List.rev_map (zs ",") s.c_out))

let render_end = function
  (* running off the end and `exit` are one outcome: the implementation does not tell them apart either *)
  | TDone s -> render_state "end" s
  | TExit s -> render_state "end" s
  | TErr (e, s) -> if string_of_z e = "99" then "unmod inexact-division-or-power" else render_state ("err:" ^ string_of_z e) s
  | TBad w -> "bad:" ^ string_of_z w

let handle = function
  | ["exec"; ast; fuel] ->
      (try
        let p = Conv.program (parse ast) in
        if not (toy_fragment_ok p) then "unmod outside-fragment"
        else
          let f = nat_of_int_tr (int_of_string fuel) in
          Printf.sprintf "ast=[%s] vm=[%s]" (render_end (toy_ast_run f p)) (render_end (toy_vm_run f p))
       with Conv.Unsupported m -> "unmod " ^ m)
  | ["compile"; ast] ->
      (try render_model (encode_program (comp_program (Conv.program (parse ast))))
       with Conv.Unsupported m -> "unmod " ^ m)
  | ["render"; compiled] -> render_impl (parse compiled)
  | op :: _ -> "driver-error unknown-op " ^ op
  | [] -> "driver-error empty"

let () = serve_tabs handle
