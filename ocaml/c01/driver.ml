open Model
type string = Stdlib.String.t
open Wire
open Sexp

let words (l : z list) : string = String.concat " " (List.map string_of_z l)
let hexes (l : z list list) : string = String.concat " " (List.map hex_of_bytes l)

(* canonical text of an encoded program; the compiled dump of the implementation is rendered the same way *)
let render_model (e : eprogram) : string =
  let b = Buffer.create 256 in
  List.iter (fun ((nsc, narr), body) ->
    Buffer.add_string b (Printf.sprintf "F %s %s [%s];" (string_of_z nsc) (string_of_z narr) (words body))) e.e_funcs;
  Buffer.add_string b (Printf.sprintf "B [%s];" (words e.e_begin));
  List.iter (fun (pats, body) ->
    Buffer.add_string b "A";
    List.iter (fun p -> Buffer.add_string b (Printf.sprintf " P [%s]" (words p))) pats;
    (match body with None -> Buffer.add_string b " nil;" | Some w -> Buffer.add_string b (Printf.sprintf " [%s];" (words w)))) e.e_actions;
  Buffer.add_string b (Printf.sprintf "E [%s];" (words e.e_end));
  Buffer.add_string b (Printf.sprintf "N %s;" (words e.e_pools.pl_nums));
  Buffer.add_string b (Printf.sprintf "S %s;" (hexes e.e_pools.pl_strs));
  Buffer.add_string b (Printf.sprintf "R %s;" (hexes e.e_pools.pl_regexes));
  Buffer.contents b

let atoms = function List l -> String.concat " " (List.map (function Atom a -> a | _ -> failwith "atom") l) | Atom _ -> failwith "list"

let strip_regex_flags (h : string) : string =
  (* Regexp.String() is "(?s:" ^ re ^ ")" : 283f733a ... 29 *)
  let n = String.length h in
  if n >= 10 && String.sub h 0 8 = "283f733a" && String.sub h (n - 2) 2 = "29" then
    (if n = 10 then "-" else String.sub h 8 (n - 10))
  else h

let render_impl (s : sexp) : string =
  match s with
  | List [Atom "compiled"; List [Atom "begin"; bg]; List (Atom "actions" :: acts); List [Atom "end"; en];
          List (Atom "functions" :: fs); List (Atom "nums" :: ns); List (Atom "strs" :: ss); List (Atom "regexes" :: rs)] ->
      let b = Buffer.create 256 in
      List.iter (function
        | List [Atom "cfunc"; _; Atom nsc; Atom narr; _; body] ->
            Buffer.add_string b (Printf.sprintf "F %s %s [%s];" nsc narr (atoms body))
        | _ -> failwith "cfunc") fs;
      Buffer.add_string b (Printf.sprintf "B [%s];" (atoms bg));
      List.iter (function
        | List [Atom "caction"; List pats; body] ->
            Buffer.add_string b "A";
            List.iter (fun p -> Buffer.add_string b (Printf.sprintf " P [%s]" (atoms p))) pats;
            (match body with Atom "nil" -> Buffer.add_string b " nil;" | w -> Buffer.add_string b (Printf.sprintf " [%s];" (atoms w)))
        | _ -> failwith "caction") acts;
      Buffer.add_string b (Printf.sprintf "E [%s];" (atoms en));
      let at = List.map (function Atom a -> a | _ -> failwith "atom") in
      Buffer.add_string b (Printf.sprintf "N %s;" (String.concat " " (at ns)));
      Buffer.add_string b (Printf.sprintf "S %s;" (String.concat " " (at ss)));
      Buffer.add_string b (Printf.sprintf "R %s;" (String.concat " " (List.map strip_regex_flags (at rs))));
      Buffer.contents b
  | _ -> failwith "compiled dump"

let handle = function
  | ["compile"; ast] ->
      (try render_model (encode_program (comp_program (Conv.program (parse ast))))
       with Conv.Unsupported m -> "unmod " ^ m)
  | ["render"; compiled] -> render_impl (parse compiled)
  | op :: _ -> "driver-error unknown-op " ^ op
  | [] -> "driver-error empty"

let () = serve_tabs handle
