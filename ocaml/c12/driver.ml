(* C12 model runner.  One request line per case:
     run <flags> <starts> <stdin_records> <args> <recs> <opens> <history>
   flags   = 4 chars 0/1: noExec noFileWrites noFileReads noArgVars
   starts  = 0/1: does cmd.Start() succeed
   args    = comma-separated hex names (the operands), "_" for none
   recs    = comma-separated hex:count (records per file name), "_" for none
   opens   = string over o/n/f: answer of the k-th call of the open function, "_" for none
   history = ;-separated requests: w<hex> a<hex> p<hex> r<hex> c<hex> s<hex> x<hex> f<hex> M G v<i>:<hex> k<n>
   Answer: ;-separated  <effects>/<outcome>  per executed request
   effects = ,-separated  O<r|t|a><hex>  S<hex>  R<f|c|n><hex>  U<o|e|i|m>  C<f|c|n><hex>
   outcome = c0 c- c+ (continue: no value, -1, >=0) | s<error tag> | fuel *)
open Model
open Wire

let split c s = if s = "_" || s = "" then [] else String.split_on_char c s
let tl1 s = String.sub s 1 (String.length s - 1)

let kind_c = function KFile -> "f" | KCmd -> "c" | KNull -> "n"
let flag_c = function ORead -> "r" | OTrunc -> "t" | OAppend -> "a"
let std_c = function StdOut -> "o" | StdErr -> "e" | StdIn -> "i" | StdInMain -> "m"
let eff_s = function
  | CallOpenFile (n, f) -> "O" ^ flag_c f ^ hex_of_bytes n
  | StartProcess n -> "S" ^ hex_of_bytes n
  | Reuse (n, k) -> "R" ^ kind_c k ^ hex_of_bytes n
  | UseStd w -> "U" ^ std_c w
  | CloseStream (n, k) -> "C" ^ kind_c k ^ hex_of_bytes n
let err_s = function
  | ENoFileWrites -> "nofilewrites" | ENoExecPipeOut -> "noexec-pipeout" | ENoFileReads -> "nofilereads"
  | ENoExecPipeIn -> "noexec-pipein" | ENoExecSystem -> "noexec-system" | EWriteToReader -> "write-to-reader"
  | EReadFromWriter -> "read-from-writer" | ERedirect -> "redirect" | EOpen -> "open" | EArgcTooLarge -> "argc"
let out_s = function
  | Continue RNone -> "c0" | Continue RNeg1 -> "c-" | Continue RNonNeg -> "c+"
  | Stop e -> "s" ^ err_s e | Fuel -> "fuel"

let req_of s =
  match s.[0] with
  | 'w' -> OpenWrite (bytes_of_hex (tl1 s))
  | 'a' -> OpenAppend (bytes_of_hex (tl1 s))
  | 'p' -> PipeTo (bytes_of_hex (tl1 s))
  | 'r' -> ReadFile (bytes_of_hex (tl1 s))
  | 'c' -> ReadCmd (bytes_of_hex (tl1 s))
  | 's' -> System (bytes_of_hex (tl1 s))
  | 'x' -> Close (bytes_of_hex (tl1 s))
  | 'M' -> NextLine ViaMain
  | 'G' -> NextLine ViaGetline
  | 'v' -> (match String.split_on_char ':' (tl1 s) with
            | [i; h] -> SetArgv (z_of_string i, bytes_of_hex h)
            | _ -> failwith "bad v")
  | 'k' -> SetArgc (z_of_string (tl1 s))
  | 'f' -> Fflush (bytes_of_hex (tl1 s))
  | _ -> failwith ("bad request " ^ s)

let handle = function
  | ["run"; fl; st; sr; args; recs; opens; hist] ->
      let b i = fl.[i] = '1' in
      let c = { noExec = b 0; noFileWrites = b 1; noFileReads = b 2; noArgVars = b 3 } in
      let args = List.map bytes_of_hex (split ',' args) in
      let recs = List.map (fun x -> match String.split_on_char ':' x with
        | [h; n] -> (bytes_of_hex h, nat_of_int (int_of_string n)) | _ -> failwith "bad recs") (split ',' recs) in
      let opens = if opens = "_" then [] else
        List.init (String.length opens) (fun i -> match opens.[i] with
          | 'o' -> OsOk | 'n' -> OsNotExist | _ -> OsFail) in
      let e = env_of_tables opens recs (st = "1") in
      let s = init_state args (nat_of_int (int_of_string sr)) in
      let h = List.map req_of (split ';' hist) in
      let log = run_log c e s h in
      let one (effs, o) = String.concat "," (List.map eff_s effs) ^ "/" ^ out_s o in
      if log = [] then "_" else String.concat ";" (List.map one log)
  | op :: _ -> "driver-error unknown-op " ^ op
  | [] -> "driver-error empty"

let () = serve handle
