(* C17 model runner.  Requests (space separated fields, lists comma separated, "-" = empty):
     call <views> <namehex> <params> <variadic> <results> <outs> <args>
     run  <views> <funcs> <awkdefined> <namehex> <args>
     conv <views> <ty> <arg>
     sort <names>
   views  = P<hex>/<bits> (parseFloatPrefix)  Q<hex>/<bits|_> (parseFloat)  M<bits>/<hex> (CONVFMT form)
   ty     = b i i8 i16 i32 i64 u u8 u16 u32 u64 f32 f64 s e o  |  [ty]   each optionally followed by '
   arg    = U | N<bits> | S<hex> | Z<hex>
   out    = <ty>=<data>,  data = B0 B1 I<dec> U<dec> F<bits> S<hex> Y<hex> N E- E<id> O
   funcs  = name~nil | name~nonfunc | name~func~params~variadic~results~outs   separated by | *)
open Model
open Wire
open Fnum

exception Unmodelled

let tbl_prefix : (string, fnum) Hashtbl.t = Hashtbl.create 16
let tbl_pfloat : (string, fnum option) Hashtbl.t = Hashtbl.create 16
let tbl_fmt : (string, z list) Hashtbl.t = Hashtbl.create 16

let p_float (s : z list) = try Hashtbl.find tbl_pfloat (hex_of_bytes s) with Not_found -> raise Unmodelled
let p_prefix (s : z list) = try Hashtbl.find tbl_prefix (hex_of_bytes s) with Not_found -> raise Unmodelled
let f_fmt (x : fnum) = try Hashtbl.find tbl_fmt (string_of_fnum x) with Not_found -> raise Unmodelled

let split c s = if s = "-" then [] else String.split_on_char c s

let load_views (s : string) =
  Hashtbl.reset tbl_prefix; Hashtbl.reset tbl_pfloat; Hashtbl.reset tbl_fmt;
  List.iter (fun v ->
    let body = String.sub v 1 (String.length v - 1) in
    match v.[0], String.split_on_char '/' body with
    | 'P', [h; b] -> Hashtbl.replace tbl_prefix (hex_of_bytes (bytes_of_hex h)) (fnum_of_bits b)
    | 'Q', [h; b] -> Hashtbl.replace tbl_pfloat (hex_of_bytes (bytes_of_hex h))
                       (if b = "_" then None else Some (fnum_of_bits b))
    | 'M', [b; h] -> Hashtbl.replace tbl_fmt (string_of_fnum (fnum_of_bits b)) (bytes_of_hex h)
    | _ -> failwith ("bad view " ^ v)) (split ',' s)

(* ---- types ---- *)
let parse_ty (s : string) : ty =
  let n = String.length s in
  let pos = ref 0 in
  let prime () = if !pos < n && s.[!pos] = '\'' then (incr pos; true) else false in
  let rec go () : ty =
    if !pos < n && s.[!pos] = '[' then begin
      incr pos;
      let e = go () in
      if !pos >= n || s.[!pos] <> ']' then failwith ("bad type " ^ s);
      incr pos;
      let d = prime () in TSlice (e, d)
    end else begin
      let st = !pos in
      while !pos < n && (match s.[!pos] with 'a'..'z' | '0'..'9' -> true | _ -> false) do incr pos done;
      let w = String.sub s st (!pos - st) in
      let d = prime () in
      match w with
      | "b" -> TBool d
      | "i" -> TInt (WP, d) | "i8" -> TInt (W8, d) | "i16" -> TInt (W16, d)
      | "i32" -> TInt (W32, d) | "i64" -> TInt (W64, d)
      | "u" -> TUint (WP, d) | "u8" -> TUint (W8, d) | "u16" -> TUint (W16, d)
      | "u32" -> TUint (W32, d) | "u64" -> TUint (W64, d)
      | "f32" -> TFloat32 d | "f64" -> TFloat64 d
      | "s" -> TString d
      | "e" -> TError
      | "o" -> TOther
      | _ -> failwith ("bad type " ^ s)
    end in
  let t = go () in
  if !pos <> n then failwith ("bad type " ^ s);
  t

(* rendering: the kind only (received values are compared by kind and data) *)
let wname = function W8 -> "8" | W16 -> "16" | W32 -> "32" | W64 -> "64" | WP -> ""
let rec kind_str (t : ty) : string =
  match t with
  | TBool _ -> "b" | TInt (w, _) -> "i" ^ wname w | TUint (w, _) -> "u" ^ wname w
  | TFloat32 _ -> "f32" | TFloat64 _ -> "f64" | TString _ -> "s"
  | TSlice (e, _) -> "[" ^ kind_str e ^ "]" | TError -> "e" | TOther -> "o"

let parse_data (s : string) : gdata =
  let body = String.sub s 1 (String.length s - 1) in
  match s.[0] with
  | 'B' -> DBool (body = "1")
  | 'I' -> DInt (z_of_string body)
  | 'U' -> DUint (z_of_string body)
  | 'F' -> DFloat (fnum_of_bits body)
  | 'S' -> DStr (bytes_of_hex body)
  | 'Y' -> DBytes (bytes_of_hex body)
  | 'N' -> DNilSlice
  | 'E' -> if body = "-" then DErrNil else DErr (z_of_string body)
  | 'O' -> DOpaque
  | _ -> failwith ("bad data " ^ s)

let parse_gval (s : string) : gval =
  match String.index_opt s '=' with
  | None -> failwith ("bad gval " ^ s)
  | Some i -> { gty = parse_ty (String.sub s 0 i);
                gdat = parse_data (String.sub s (i + 1) (String.length s - i - 1)) }

let str_data = function
  | DBool b -> if b then "B1" else "B0"
  | DInt z -> "I" ^ string_of_z z
  | DUint z -> "U" ^ string_of_z z
  | DFloat x -> "F" ^ string_of_fnum x
  | DStr s -> "S" ^ hex_of_bytes s
  | DBytes s -> "Y" ^ hex_of_bytes s
  | DNilSlice -> "N"
  | DErrNil -> "E-"
  | DErr id -> "E" ^ string_of_z id
  | DOpaque -> "O"

let str_gval (g : gval) = kind_str g.gty ^ "=" ^ str_data g.gdat
let str_recv (l : gval list) = if l = [] then "-" else String.concat "," (List.map str_gval l)

let parse_arg (s : string) : value =
  let body = String.sub s 1 (String.length s - 1) in
  match s.[0] with
  | 'U' -> VNull
  | 'N' -> VNum (fnum_of_bits body)
  | 'S' -> VStr (bytes_of_hex body)
  | 'Z' -> VNumStr (bytes_of_hex body)
  | _ -> failwith ("bad arg " ^ s)

let str_value = function
  | VNull -> "null"
  | VNum x -> "n" ^ string_of_fnum x
  | VStr s -> "s" ^ hex_of_bytes s
  | VNumStr s -> "z" ^ hex_of_bytes s

let str_pk = function
  | PkArgType -> "argtype" | PkArgSlice -> "argslice" | PkRetType -> "rettype" | PkRetSlice -> "retslice"
  | PkNumOut -> "numout" | PkCallAssign -> "callassign" | PkCallArity -> "callarity"
  | PkNilType -> "niltype" | PkNonFunc -> "nonfunc" | PkElem -> "elem" | PkIndex -> "index"
  | PkIsNil -> "isnil" | PkIllTyped -> "illtyped" | PkConvert -> "convert"

let str_setup = function
  | EKeyword -> "keyword" | ENotFunc -> "notfunc" | EParam i -> "param:" ^ string_of_z i
  | EReturn -> "return" | EFirstReturn -> "firstreturn" | ESecondNotError -> "seconderror"
  | ETooManyResults -> "toomanyresults"

let parse_func params variadic results outs : fval =
  let outs = List.map parse_gval (split ',' outs) in
  FFunc ({ params = List.map parse_ty (split ',' params);
           variadic = bool_of_string variadic;
           results = List.map parse_ty (split ',' results) },
         (fun _ -> outs))

let parse_funcs (s : string) : (z list * fval) list =
  List.map (fun f ->
    match String.split_on_char '~' f with
    | [n; "nil"] -> (bytes_of_hex n, FNil)
    | [n; "nonfunc"] -> (bytes_of_hex n, FNonFunc)
    | [n; "func"; p; v; r; o] -> (bytes_of_hex n, parse_func p v r o)
    | _ -> failwith ("bad func " ^ f)) (split '|' s)

(* what the three observer functions (string, float64, bool) receive for the result r *)
let observe (r : value) : string =
  let one t = match to_native p_float p_prefix f_fmt r t with
    | NOk g -> str_data g.gdat
    | NPanic k -> "panic-" ^ str_pk k in
  one (TString false) ^ "/" ^ one (TFloat64 false) ^ "/" ^ one (TBool false)

let str_outcome = function
  | OParseError PUndefined -> "parse-error undefined"
  | OParseError PTooMany -> "parse-error toomany"
  | OParseError PNotFunc -> "parse-error notfunc"
  | OSetupError (n, e) -> "setup-error " ^ hex_of_bytes n ^ " " ^ str_setup e
  | OAwkFunc -> "awkfunc"
  | ORunError (id, recv) -> "run-error " ^ string_of_z id ^ " " ^ str_recv recv
  | OValue (v, recv) -> "ok " ^ str_recv recv ^ " " ^ str_value v ^ " " ^ observe v
  | OPanic k -> "panic " ^ str_pk k

let handle = function
  | ["call"; views; name; params; variadic; results; outs; args] ->
      load_views views;
      let name = bytes_of_hex name in
      let f = parse_func params variadic results outs in
      let args = List.map parse_arg (split ',' args) in
      (match init_native_funcs [(name, f)] with
       | NPanic k -> "panic " ^ str_pk k
       | NOk (Inl (_, e)) -> "setup-error " ^ str_setup e
       | NOk (Inr tbl) ->
           (match call_native p_float p_prefix f_fmt tbl Z0 args with
            | NPanic k -> "panic " ^ str_pk k
            | NOk (CValue (v, recv)) -> "ok " ^ str_recv recv ^ " " ^ str_value v
            | NOk (CError (id, recv)) -> "run-error " ^ string_of_z id ^ " " ^ str_recv recv))
  | ["run"; views; funcs; awkdef; name; args] ->
      load_views views;
      let funcs = parse_funcs funcs in
      let awkdef = List.map bytes_of_hex (split ',' awkdef) in
      let args = List.map parse_arg (split ',' args) in
      (* the two maps are walked in unrelated orders: give the model two different ones *)
      str_outcome (run p_float p_prefix f_fmt funcs (List.rev funcs) awkdef (bytes_of_hex name) args)
  | ["hist"; views; funcs; awkdef; name; args; maps] ->
      (* ParseProgram with funcs, New, then one Execute per map (maps separated by ^) *)
      load_views views;
      let funcs = parse_funcs funcs in
      let awkdef = List.map bytes_of_hex (split ',' awkdef) in
      let args = List.map parse_arg (split ',' args) in
      let maps = List.mapi (fun i m -> let l = parse_funcs m in if i mod 2 = 0 then List.rev l else l)
                   (String.split_on_char '^' maps) in
      (match run_history p_float p_prefix f_fmt funcs awkdef (bytes_of_hex name) args maps with
       | Inl o -> "parse " ^ str_outcome o
       | Inr os -> "steps " ^ String.concat " ; " (List.map str_outcome os))
  | ["conv"; views; t; a] ->
      load_views views;
      (match to_native p_float p_prefix f_fmt (parse_arg a) (parse_ty t) with
       | NOk g -> "ok " ^ str_gval g
       | NPanic k -> "panic " ^ str_pk k)
  | ["sort"; names] ->
      let l = sort_names (List.map bytes_of_hex (split ',' names)) in
      "ok " ^ (if l = [] then "-" else String.concat "," (List.map hex_of_bytes l))
  | op :: _ -> "driver-error unknown-op " ^ op
  | [] -> "driver-error empty"

let () = serve (fun l -> try handle l with Unmodelled -> "unmod")
