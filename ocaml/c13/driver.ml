open Model
open Wire

(* request (one line, blank separated):
   run MODE CAP LIMIT FCAP  NC (id sink append stdout echo drain closes exkind excode)*  NB id*  NF (id hex)*  NO op*
   op: P dk id np hex.. / R dk id hex / C id | F id(-1 = all) | S id | G id | K id | I | X code | E | W id *)

let default_spec = { c_sink = None; c_append = []; c_stdout = []; c_echo = false; c_drain = false; c_closes = false; c_exit = Exited Z0 }

let handle toks =
  match toks with
  | "run" :: rest ->
    let q = ref rest in
    let next () = match !q with x :: r -> q := r; x | [] -> failwith "short request" in
    let nexti () = int_of_string (next ()) in
    let mode = next () in
    let cap = nexti () in
    let limit = nexti () in
    let fcap = nexti () in
    let nc = nexti () in
    let specs = ref [] in
    for _ = 1 to nc do
      let id = nexti () in
      let sink = nexti () in
      let app = bytes_of_hex (next ()) in
      let out = bytes_of_hex (next ()) in
      let echo = bool_of_string (next ()) in
      let drain = bool_of_string (next ()) in
      let closes = bool_of_string (next ()) in
      let k = next () in
      let code = z_of_string (next ()) in
      let ex = match k with "e" -> Exited code | "s" -> Signaled code | "c" -> CoreDumped code | _ -> WaitIOErr in
      specs := (id, { c_sink = (if sink < 0 then None else Some (z_of_int sink)); c_append = app; c_stdout = out;
                      c_echo = echo; c_drain = drain; c_closes = closes; c_exit = ex }) :: !specs
    done;
    let nb = nexti () in
    let bad = ref [] in
    for _ = 1 to nb do bad := nexti () :: !bad done;
    let nf = nexti () in
    let fs = ref [] in
    for _ = 1 to nf do
      let id = nexti () in
      let b = bytes_of_hex (next ()) in
      fs := !fs @ [ (z_of_int id, b) ]
    done;
    (* one or more runs on the same interpreter: groups of NO followed by that many ops, until the tokens end *)
    let parse_ops () =
      let no = nexti () in
      let ops = ref [] in
      for _ = 1 to no do
        let dest_of dk id = match dk with
          | "o" -> DStdout | "d" -> DDash | "v" -> DDevStdout
          | "t" -> DRedir (RTrunc, id) | "a" -> DRedir (RAppend, id) | "p" -> DRedir (RPipe, id)
          | _ -> failwith "bad dest" in
        let o = match next () with
          | "P" ->
            let dk = next () in
            let id = z_of_int (nexti ()) in
            let np = nexti () in
            let ps = ref [] in
            for _ = 1 to np do ps := !ps @ [ bytes_of_hex (next ()) ] done;
            Print (dest_of dk id, !ps)
          | "R" ->
            let dk = next () in
            let id = z_of_int (nexti ()) in
            PrintRec (dest_of dk id, bytes_of_hex (next ()))
          | "C" -> Close (z_of_int (nexti ()))
          | "F" -> let i = nexti () in Fflush (if i < 0 then None else Some (z_of_int i))
          | "S" -> System (z_of_int (nexti ()))
          | "G" -> GetlineFile (z_of_int (nexti ()))
          | "K" -> GetlineCmd (z_of_int (nexti ()))
          | "I" -> GetlineStdin
          | "X" -> Exit (z_of_string (next ()))
          | "E" -> RuntimeError
          | "W" -> AwaitFile (z_of_int (nexti ()))
          | t -> failwith ("bad op " ^ t) in
        ops := !ops @ [ o ]
      done;
      !ops in
    let progs = ref [ parse_ops () ] in
    while !q <> [] do progs := !progs @ [ parse_ops () ] done;
    let spec n = let i = int_of_z n in (try List.assoc i !specs with Not_found -> default_spec) in
    let env = { e_spec = spec; e_bad = (fun n -> List.mem (int_of_z n) !bad);
                e_mode = (match mode with "osfile" -> OsFile | "unbuf" -> Unbuf | _ -> Buf (nat_of_int cap));
                e_fcap = nat_of_int fcap } in
    let lim = if limit < 0 then None else Some (nat_of_int limit) in
    let s0 = init_state !fs lim in
    let results = run_many env s0 lim !progs in
    if List.exists (fun (s, _) -> s.st_unmod) results then "unmod" else begin
      let one (s, r) =
        let res = match r with RStatus c -> "s:" ^ string_of_z c | RError -> "e" in
        let files = List.sort compare (List.map (fun (n, b) -> (int_of_z n, b)) s.st_fs) in
        let fss = if files = [] then "-" else
            String.concat "," (List.map (fun (n, b) -> string_of_int n ^ ":" ^ hex_of_bytes b) files) in
        let obs = List.rev_map (function ORet v -> "r:" ^ string_of_z v | OLine l -> "l:" ^ hex_of_bytes l) s.st_obs in
        let obss = if obs = [] then "-" else String.concat "," obs in
        Printf.sprintf "ok res=%s out=%s fs=%s obs=%s" res (hex_of_bytes s.st_sink.sk_data) fss obss in
      String.concat " ;; " (List.map one results)
    end
  | op :: _ -> "driver-error unknown-op " ^ op
  | [] -> "driver-error empty"

let () = serve handle
