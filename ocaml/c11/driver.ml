(* C11 model runner: one request per line, one answer per line.
   Request:  run <noargvars 0|1> <mode 0|44|9> <fuel> A <n> <hex>*n  I <n> <hex>*n
             F <n> (<hexname> <k> <hex>*k)*n  C <n> (<hexcmd> <k> <hex>*k)*n  G <n> <hex>*n  <program>
   Program:  B <block> RULES <n> (<pat> <body>)*n E <block> FUNCS <n> (<hexlocal> <block>)*n
   Answer:   ok <status> <events> | err <events> | unmod | fuel          events = ev|ev|... or "-"   *)
open Model
open Wire

exception Parse of string

let toks : string array ref = ref [||]
let pos = ref 0
let peek () = if !pos < Array.length !toks then !toks.(!pos) else raise (Parse "eof")
let next () = let t = peek () in incr pos; t
let expect s = let t = next () in if t <> s then raise (Parse ("expected " ^ s ^ " got " ^ t))
let p_int () = int_of_string (next ())
let p_z () = z_of_string (next ())
let p_hex () = bytes_of_hex (next ())
let rec p_n n f = if n <= 0 then [] else let x = f () in x :: p_n (n - 1) f
let p_list f = let n = p_int () in p_n n f

let p_src () = match next () with
  | "m" -> SMain | "f" -> SFile (p_hex ()) | "c" -> SCmd (p_hex ())
  | t -> raise (Parse ("src " ^ t))
let p_tgt () = match next () with
  | "l" -> TLine | "v" -> TVar (p_hex ()) | "d" -> TField (p_z ())
  | t -> raise (Parse ("tgt " ^ t))

let rec p_cond () = match next () with
  | "t" -> CTrue
  | "nr" -> CNReq (p_z ())
  | "nrmod" -> let m = p_z () in let r = p_z () in CNRmod (m, r)
  | "fnr" -> CFNReq (p_z ())
  | "nf" -> CNFeq (p_z ())
  | "has" -> CHas (p_z ())
  | "ret" -> CRetPos
  | "veq" -> let a = p_hex () in let b = p_hex () in CVarEq (a, b)
  | "not" -> CNot (p_cond ())
  | "and" -> let a = p_cond () in let b = p_cond () in CAnd (a, b)
  | "or" -> let a = p_cond () in let b = p_cond () in COr (a, b)
  | t -> raise (Parse ("cond " ^ t))

let rec p_block () =
  expect "{";
  let rec go acc = if peek () = "}" then (ignore (next ()); List.rev acc) else let s = p_stmt () in go (s :: acc) in
  go []
and p_names () =
  expect "(";
  let rec go acc = if peek () = ")" then (ignore (next ()); List.rev acc) else let s = p_hex () in go (s :: acc) in
  go []
and p_stmt () = match next () with
  | "T" -> let tag = p_z () in let names = p_names () in STrace (tag, names)
  | "G" -> let s = p_src () in let t = p_tgt () in SGetline (s, t)
  | "CL" -> SClose (p_hex ())
  | "IF" -> let c = p_cond () in let a = p_block () in let b = p_block () in SIf (c, a, b)
  | "W" -> let s = p_src () in let t = p_tgt () in let b = p_block () in SWhileGet (s, t, b)
  | "R" -> let n = p_z () in let b = p_block () in SRepeat (n, b)
  | "CALL" -> SCall (nat_of_int (p_int ()))
  | "N" -> SNext
  | "NF" -> SNextfile
  | "X" -> SExit (Some (p_z ()))
  | "XN" -> SExit None
  | "SNR" -> SSetNR (p_z ())
  | "SFNR" -> SSetFNR (p_z ())
  | "SARGC" -> SSetArgc (p_z ())
  | "SARGV" -> let i = p_z () in let v = p_hex () in SSetArgv (i, v)
  | "DARGV" -> SDelArgv (p_z ())
  | "SV" -> let a = p_hex () in let b = p_hex () in SSetVar (a, b)
  | "SL" -> SSetLine (p_hex ())
  | t -> raise (Parse ("stmt " ^ t))

let p_pattern () = let pre = p_block () in let c = p_cond () in { p_pre = pre; p_cond = c }
let p_rule () =
  let pat = match next () with
    | "pn" -> SPNone
    | "pe" -> SPExpr (p_pattern ())
    | "pr" -> let a = p_pattern () in let b = p_pattern () in SPRange (a, b)
    | t -> raise (Parse ("pat " ^ t)) in
  let body = match next () with
    | "nb" -> None
    | "b" -> Some (p_block ())
    | t -> raise (Parse ("body " ^ t)) in
  { sr_pat = pat; sr_body = body }

let p_prog () =
  expect "B"; let b = p_block () in
  expect "RULES"; let rules = p_list p_rule in
  expect "E"; let e = p_block () in
  expect "FUNCS"; let funcs = p_list (fun () -> let l = p_hex () in let b = p_block () in (l, b)) in
  { sp_begin = b; sp_rules = rules; sp_end = e; sp_funcs = funcs }

(* input mode: 0 = default, else the separator byte of CSV (44) / TSV (9) *)
let p_mode () = let m = p_int () in if m = 0 then None else Some (z_of_int m)
let p_named () = let name = p_hex () in let recs = p_list p_hex in (name, recs)

let show_ev = function
  | OTrace (tag, nr, fnr, fname, line, nf, ret, vals, flds) ->
      String.concat "," ["T"; string_of_z tag; string_of_z nr; string_of_z fnr; hex_of_bytes fname; hex_of_bytes line;
                         string_of_z nf; string_of_z ret;
                         (if vals = [] then "-" else String.concat ":" (List.map hex_of_bytes vals));
                         (if flds = [] then "-" else String.concat "/" (List.map hex_of_bytes flds))]
  | OPrint line -> "P," ^ hex_of_bytes line

let show_out (s : st) =
  match List.rev s.out with
  | [] -> "-"
  | l -> String.concat "|" (List.map show_ev l)

let show_fin = function
  | FFuel -> "fuel"
  | FUnmod -> "unmod"
  | FOk (_, s) -> "ok " ^ string_of_z s.status ^ " " ^ show_out s
  | FErr (_, s) -> "err " ^ show_out s

(* hist <fuel> G <n> <hex>*n <program> K <k> (<noargvars> A .. I .. F .. C ..)*k
   answer: the k answers of script_history, separated by " ;; " *)
let handle_hist rest =
  toks := Array.of_list rest; pos := 0;
  try
    let fuel = p_int () in
    expect "G"; let globals = p_list p_hex in
    let prog = p_prog () in
    expect "K";
    let runs = p_list (fun () ->
      let nav = next () = "1" in
      let mode = p_mode () in
      expect "A"; let args = p_list p_hex in
      expect "I"; let stdin_recs = p_list p_hex in
      expect "F"; let files = p_list p_named in
      expect "C"; let cmds = p_list p_named in
      (({ fs = files; cmds = cmds; globals = globals; noargvars = nav; imode = mode }, args), stdin_recs)) in
    String.concat " ;; " (List.map show_fin (script_history prog (nat_of_int fuel) runs))
  with Parse m -> "driver-error parse " ^ m

let handle = function
  | "hist" :: rest -> handle_hist rest
  | "run" :: rest ->
      toks := Array.of_list rest; pos := 0;
      (try
        let nav = next () = "1" in
        let mode = p_mode () in
        let fuel = p_int () in
        expect "A"; let args = p_list p_hex in
        expect "I"; let stdin_recs = p_list p_hex in
        expect "F"; let files = p_list p_named in
        expect "C"; let cmds = p_list p_named in
        expect "G"; let globals = p_list p_hex in
        let prog = p_prog () in
        let e = { fs = files; cmds = cmds; globals = globals; noargvars = nav; imode = mode } in
        match script_exec e prog (nat_of_int fuel) args stdin_recs with
        | FFuel -> "fuel"
        | FUnmod -> "unmod"
        | FOk (_, s) -> "ok " ^ string_of_z s.status ^ " " ^ show_out s
        | FErr (_, s) -> "err " ^ show_out s
      with Parse m -> "driver-error parse " ^ m)
  | ["rstep"; a; b; f] ->
      let (m, f') = range_step (bool_of_string a) (bool_of_string b) (bool_of_string f) in
      "ok " ^ string_of_bool m ^ " " ^ string_of_bool f'
  | op :: _ -> "driver-error unknown-op " ^ op
  | [] -> "driver-error empty"

let () = serve handle
