(* C15 model runner.  One request per line, fields separated by TAB:

     run <compiled> <natives> <mode> <lines> <fuel>

   <compiled>  S-expression of parser.Program.VerifDumpCompiled()
   <natives>   "cancel cancelfail fail rec": indexes of the harness's native functions (-1: absent)
   <mode>      exec (Execute) | bg (ExecuteContext(context.Background())) |
               live (ExecuteContext, cancellable context, nobody cancels from outside) |
               pre (ExecuteContext, context already cancelled / past its deadline)
   <lines>     number of input records (record i is the text of the number i)
   <fuel>      bound on recursion of the model's evaluator

   Answer: res=<status:N|err:K|ctx|sentinel|stuck|fuel> closed=<0|1> ops=<ctxOps> cops=<ctxOps when the
   script cancelled|-> out=<line;line..> rec=<v,v..> arrs=<[k:v,..][..]> clock=<n> done=<t|->
   (everything before clock= is observable on the implementation and compared verbatim). *)
open Model
type string = Stdlib.String.t
open Wire
open Sexp

let ints = function
  | List l -> List.map (function Atom a -> z_of_string a | _ -> failwith "atom") l
  | Atom _ -> failwith "list"

exception Unmod of string

(* unary fuel is immutable: built once per value and shared by all requests *)
let fuel_cache : (int, nat) Hashtbl.t = Hashtbl.create 7
let nat_of_int_tr (n : int) : nat =
  match Hashtbl.find_opt fuel_cache n with
  | Some f -> f
  | None ->
      let r = ref O in
      for _ = 1 to n do r := S !r done;
      Hashtbl.replace fuel_cache n !r; !r

let code_of (nums : pools) (what : string) (s : sexp) : code =
  match decode_code nums (ints s) with
  | None -> raise (Unmod ("decode " ^ what))
  | Some c -> if code_ok c then c else raise (Unmod ("fragment " ^ what))

let program_of (s : sexp) : cprogram =
  match s with
  | List [Atom "compiled"; List [Atom "begin"; bg]; List (Atom "actions" :: acts); List [Atom "end"; en];
          List (Atom "functions" :: fs); List (Atom "nums" :: ns); List (Atom "strs" :: ss); List (Atom "regexes" :: _)] ->
      let nums = pool_of (List.map (function Atom a -> z_of_string a | _ -> failwith "num") ns)
                         (List.map (function Atom a -> bytes_of_hex a | _ -> failwith "str") ss) in
      let funcs = List.map (function
        | List [Atom "cfunc"; _; Atom nsc; Atom narr; _; body] ->
            { cf_nscalars = z_of_string nsc; cf_narrays = z_of_string narr; cf_body = code_of nums "function" body }
        | _ -> failwith "cfunc") fs in
      let actions = List.map (function
        | List [Atom "caction"; List pats; body] ->
            (List.map (code_of nums "pattern") pats,
             (match body with Atom "nil" -> None | w -> Some (code_of nums "body" w)))
        | _ -> failwith "caction") acts in
      { c_begin = code_of nums "begin" bg; c_actions = actions; c_end = code_of nums "end" en; c_funcs = funcs }
  | _ -> failwith "compiled dump"

let zs sep l = String.concat sep (List.map string_of_z l)

let render_arr (a : (z * z) list) : string =
  let l = List.sort (fun (k1, _) (k2, _) -> BZ.compare (bz_of_z k1) (bz_of_z k2)) a in
  "[" ^ String.concat "," (List.map (fun (k, v) -> string_of_z k ^ ":" ^ string_of_z v) l) ^ "]"

(* arrays never touched at the end of the table are not listed *)
let trim_empty (l : (z * z) list list) : (z * z) list list =
  List.rev (let rec drop = function [] :: t -> drop t | x -> x in drop (List.rev l))

let handle = function
  | ["run"; compiled; natives; mode; lines; fuel] ->
      (try
        let cp = program_of (parse compiled) in
        let nv = match List.map z_of_string (split_ws natives) with
          | [a; b; c; d] -> { n_cancel = a; n_cancelfail = b; n_fail = c; n_rec = d }
          | _ -> failwith "natives" in
        let cs0 = match mode with
          | "exec" -> cs_execute (z_of_int 0)
          | "bg" -> cs_execute_context false None
          | "live" -> cs_execute_context true None
          | "pre" -> cs_execute_context true (Some (z_of_int 0))
          | _ -> failwith "mode" in
        let r = toy_run nv (nat_of_int_tr (int_of_string fuel)) cp (z_of_string lines) cs0 in
        let st = match r.tr_state with Some s -> s | None -> cst_init (z_of_int 0) in
        if st.c_unmod then "unmod executed-outside-fragment" else
        let res = match r.tr_res with
          | RStatus n -> "status:" ^ string_of_z n
          | RErr e -> "err:" ^ string_of_z e
          | RCtx -> "ctx"
          | RSentinel _ -> "sentinel"
          | RStuck -> "stuck"
          | RFuel -> "fuel" in
        let cs = r.tr_cs in
        let cops = if mode = "live" && BZ.sign (bz_of_z cs.ops_at_cancel) >= 0 then string_of_z cs.ops_at_cancel else "-" in
        Printf.sprintf "res=%s closed=%s ops=%s cops=%s out=%s rec=%s arrs=%s clock=%s done=%s"
          res (if st.c_closed then "1" else "0") (string_of_z cs.ctxOps) cops
          (String.concat ";" (List.rev_map (zs ",") st.c_out))
          (zs "," (List.rev st.c_rec))
          (String.concat "" (List.map render_arr (trim_empty st.c_arr)))
          (string_of_z cs.clock)
          (match cs.done_at with Some t -> string_of_z t | None -> "-")
      with Unmod m -> "unmod " ^ m)
  | op :: _ -> "driver-error unknown-op " ^ op
  | [] -> "driver-error empty"

let () = serve_tabs handle
