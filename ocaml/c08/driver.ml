open Model
open Wire

let b2 s = bool_of_string s
let hexlist l = String.concat "," (List.map hex_of_bytes l)

let final_s = function
  | FEOF -> "eof" | FTooLong -> "toolong" | FBadAdvance -> "badadvance"
  | FEmpties -> "empties" | FPanic -> "panic" | FFuel -> "fuel"

let event_s = function
  | EHeader names -> "H:" ^ hexlist names ^ ";"
  | ERecord (tok, fields) -> "R:" ^ hex_of_bytes tok ^ ":" ^ hexlist fields ^ ";"

let handle = function
  | "read" :: sep :: comment :: header :: cap :: maxtok :: chunks ->
      let c = { c_sep = z_of_string sep; c_comment = z_of_string comment; c_header = b2 header } in
      let (evs, fin) = read_csv c (z_of_string cap) (z_of_string maxtok) (List.map bytes_of_hex chunks) in
      (* header names first (there is at most one header row per input), then the records *)
      let hs = List.filter (function EHeader _ -> true | _ -> false) evs
      and rs = List.filter (function EHeader _ -> false | _ -> true) evs in
      String.concat "" (List.map event_s (hs @ rs)) ^ "|" ^ final_s fin
  | "aread" :: sep :: comment :: header :: chunks ->
      (* the abstract Scanner loop of Proofs/CsvChunks.v (theorem csv_chunk_independent) *)
      let c = { c_sep = z_of_string sep; c_comment = z_of_string comment; c_header = b2 header } in
      let chunks = List.map bytes_of_hex chunks in
      let evs = arun (S (msr [] chunks false)) c { st_noBOM = false; st_row = z_of_int 0 } [] chunks false in
      let hs = List.filter (function EHeader _ -> true | _ -> false) evs
      and rs = List.filter (function EHeader _ -> false | _ -> true) evs in
      String.concat "" (List.map event_s (hs @ rs)) ^ "|eof"
  | ["readall"; sep; comment; header; data] ->
      (* the reader run over the whole input (read_file of Proofs/CsvRoundtrip.v) *)
      let c = { c_sep = z_of_string sep; c_comment = z_of_string comment; c_header = b2 header } in
      let evs = read_file c (bytes_of_hex data) in
      let hs = List.filter (function EHeader _ -> true | _ -> false) evs
      and rs = List.filter (function EHeader _ -> false | _ -> true) evs in
      String.concat "" (List.map event_s (hs @ rs)) ^ "|eof"
  | "emit" :: sep :: crlf :: isbufio :: layers :: pre :: rest ->
      (* rows printed to one destination: "/" starts a row; layers = sizes of the stacked
         bufio.Writers, outermost first ("-" = none); pre = what the sink held before *)
      let rec rows acc cur = function
        | [] -> List.rev (match cur with None -> acc | Some r -> List.rev r :: acc)
        | "/" :: t -> rows (match cur with None -> acc | Some r -> List.rev r :: acc) (Some []) t
        | f :: t -> (match cur with None -> failwith "emit: field before /" | Some r -> rows acc (Some (bytes_of_hex f :: r)) t) in
      let sizes = if layers = "-" then [] else List.map z_of_string (String.split_on_char ',' layers) in
      let d = List.fold_right (fun sz under -> DBuf (sz, [], under)) sizes (DRaw (bytes_of_hex pre)) in
      "ok " ^ hex_of_bytes (emit_rows (z_of_string sep) (b2 crlf) { o_bufio = b2 isbufio; o_d = d } (rows [] None rest))
  | "write" :: sep :: crlf :: fields ->
      "ok " ^ hex_of_bytes (write_record (z_of_string sep) (b2 crlf) (List.map bytes_of_hex fields))
  | "join" :: sep :: crlf :: fields ->
      "ok " ^ hex_of_bytes (join_fields (z_of_string sep) (b2 crlf) (List.map bytes_of_hex fields))
  | ["rfc"; sep; comment; data] ->
      let rs = rfc_records (z_of_string sep) (z_of_string comment) (bytes_of_hex data) in
      String.concat "" (List.map (fun r ->
        let ((fs, _), _) = r in "R:" ^ hex_of_bytes (rrec_text r) ^ ":" ^ hexlist fs ^ ";") rs) ^ "|"
  | ["validcfg"; sep; comment] ->
      string_of_bool (validate_csv_input (z_of_string sep) (z_of_string comment))
  | ["validsep"; sep] -> string_of_bool (valid_csv_separator (z_of_string sep))
  | op :: _ -> "driver-error unknown-op " ^ op
  | [] -> "driver-error empty"

let () = serve handle
