(* C07 model runner.
   request:  scan <last_eof 0|1> <RS hex> <regex wire | -> <chunks>
             chunks = comma separated hex strings ("-" = a read of 0 bytes), "." = no read at all
             scan2 <last_eof> <RS1 hex> <regex1> <k> <RS2 hex> <regex2> <chunks>
                                         (RS1 a regex RS; the action of record k assigns RS = RS2)
   answer:   <stop> <rec>:<rt> ...       (records in order, hex) *)
open Model
open Wire
open Regex_wire

(* table-driven byte <-> Z conversion (the 64 KiB cases carry 130 kB of hex per request) *)
let ztab : z array = Array.init 256 z_of_int
let hexval c = match c with
  | '0'..'9' -> Char.code c - 48 | 'a'..'f' -> Char.code c - 87 | 'A'..'F' -> Char.code c - 55
  | _ -> failwith "bad hex digit"
let bytes_of_hex (s : string) : z list =
  if s = "-" then [] else begin
    let n = String.length s / 2 in
    let rec go i acc = if i < 0 then acc
      else go (i - 1) (ztab.(hexval s.[2 * i] * 16 + hexval s.[2 * i + 1]) :: acc) in
    go (n - 1) []
  end
let hexdig = "0123456789abcdef"
let hex_of_bytes (l : z list) : string =
  if l = [] then "-" else begin
    let b = Buffer.create 64 in
    List.iter (fun z ->
      let v = int_of_z z in
      if v < 0 || v > 255 then Buffer.add_string b (Printf.sprintf "<%d>" v)
      else (Buffer.add_char b hexdig.[v lsr 4]; Buffer.add_char b hexdig.[v land 15])) l;
    Buffer.contents b
  end

let stop_name = function
  | Done -> "done" | ErrNegativeAdvance -> "err-negative-advance"
  | ErrAdvanceTooFar -> "err-advance-too-far" | ErrNoProgress -> "err-no-progress"
  | Stall -> "stall" | SplitPanic -> "split-panic" | OutOfFuel -> "out-of-fuel"

let chunks_of s =
  if s = "." then [] else List.map bytes_of_hex (String.split_on_char ',' s)

let handle = function
  | ["scan"; le; rs; rw; cs] ->
      let r = if rw = "-" then RNone else re_of_wire rw in
      let (recs, st) = records (bool_of_string le) (bytes_of_hex rs) r (chunks_of cs) in
      String.concat " " (stop_name st ::
        List.map (fun (r, t) -> hex_of_bytes r ^ ":" ^ hex_of_bytes t) recs)
  | ["scan2"; le; rs1; rw1; k; rs2; rw2; cs] ->
      let (recs, st) = records_sched (bool_of_string le) (bytes_of_hex rs1) (re_of_wire rw1)
                         (nat_of_int (int_of_string k)) (bytes_of_hex rs2) (re_of_wire rw2) (chunks_of cs) in
      String.concat " " (stop_name st ::
        List.map (fun (r, t) -> hex_of_bytes r ^ ":" ^ hex_of_bytes t) recs)
  | ["find"; rw; s] ->
      (match find (re_of_wire rw) (bytes_of_hex s) with
       | None -> "none"
       | Some (a, b) -> string_of_z a ^ "," ^ string_of_z b)
  | op :: _ -> "driver-error unknown-op " ^ op
  | [] -> "driver-error empty"

let () = serve handle
