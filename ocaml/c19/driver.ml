(* C19 model runner (the resolver model of C16 + the enumeration of Model/Determinism.v).
   Requests (one per line, tokens separated by blanks):
     outcomes <cap> PROG   every outcome the model can reach:
                           all=   outcomes of resolve_order over ALL permutations of the function list
                                  (C19_outcome_enumerated: a superset of what any map order gives)
                           reach= outcomes of resolve over EVERY oracle, enumerated as choice sequences
                                  (one permutation per call of the oracle); exact=1 unless more than
                                  <cap> runs would be needed (then reach is a subset)
                           one=   one_error (pass_fuel P) P
     det PROG              THE outcome of the implementation: resolve name_order_oracle (Model/Determinism.v)
     fronts <n> <k> name*k PROG   outcomes of resolve under seed_oracle 0..n-1 and under front_oracle f
                           (the oracle that puts f first every time it is asked) for the k given names
     natnames PROG         index=name,name,... : what compiler.Program.nativeFuncNames[index] can hold
   PROG as in ocaml/c16/driver.ml.  Outcomes are separated by " | ". *)
open Model
open Wire

let ty_of = function "0" -> TUnknown | "1" -> TScalar | "2" -> TArray | s -> failwith ("ty " ^ s)
let int_of_ty = function TUnknown -> 0 | TScalar -> 1 | TArray -> 2
let ty_name = function TUnknown -> "unknown" | TScalar -> "scalar" | TArray -> "array"

let rec p_events n toks =
  if n = 0 then ([], toks) else
  let (e, toks) = p_event toks in
  let (es, toks) = p_events (n - 1) toks in (e :: es, toks)
and p_event = function
  | "u" :: v :: t :: r -> (Use (bytes_of_hex v, ty_of t), r)
  | "c" :: f :: na :: r -> let (args, r) = p_args (int_of_string na) r in (Call (bytes_of_hex f, args), r)
  | t :: _ -> failwith ("event " ^ t)
  | [] -> failwith "event eof"
and p_args n toks =
  if n = 0 then ([], toks) else
  let (a, toks) = p_arg toks in
  let (l, toks) = p_args (n - 1) toks in (a :: l, toks)
and p_arg = function
  | "v" :: v :: r -> (ArgVar (bytes_of_hex v), r)
  | "e" :: n :: r -> let (es, r) = p_events (int_of_string n) r in (ArgExpr es, r)
  | t :: _ -> failwith ("arg " ^ t)
  | [] -> failwith "arg eof"

let rec p_names n toks =
  if n = 0 then ([], toks) else
  match toks with
  | x :: r -> let (l, r) = p_names (n - 1) r in (bytes_of_hex x :: l, r)
  | [] -> failwith "names eof"

let rec p_natives n toks =
  if n = 0 then ([], toks) else
  match toks with
  | nm :: nin :: va :: r ->
      let (l, r) = p_natives (n - 1) r in
      ({ n_name = bytes_of_hex nm; n_in = z_of_string nin; n_variadic = bool_of_string va; n_func = true } :: l, r)
  | _ -> failwith "native eof"

let rec p_funcs n toks =
  if n = 0 then ([], toks) else
  match toks with
  | nm :: np :: r ->
      let (ps, r) = p_names (int_of_string np) r in
      (match r with
       | ne :: r ->
           let (es, r) = p_events (int_of_string ne) r in
           let (l, r) = p_funcs (n - 1) r in
           ({ f_name = bytes_of_hex nm; f_params = ps; f_body = es } :: l, r)
       | [] -> failwith "func eof")
  | _ -> failwith "func eof"

let p_prog toks =
  match toks with
  | "N" :: k :: r ->
      let (ns, r) = p_natives (int_of_string k) r in
      (match r with
       | "F" :: k :: r ->
           let (fs, r) = p_funcs (int_of_string k) r in
           (match r with
            | "M" :: k :: r ->
                let (es, r) = p_events (int_of_string k) r in
                if r <> [] then failwith "trailing tokens";
                { p_natives = ns; p_funcs = fs; p_main = es }
            | _ -> failwith "expected M")
       | _ -> failwith "expected F")
  | _ -> failwith "expected N"

let hx = hex_of_bytes

let err_string = function
  | EAlreadyDefined f -> "already " ^ hx f
  | EGlobalFunc v -> "globalfunc " ^ hx v
  | ECallLocal f -> "calllocal " ^ hx f
  | EUndefined f -> "undefined " ^ hx f
  | ETooManyArgs f -> "toomanyargs " ^ hx f
  | EUse (a, v, b) -> Printf.sprintf "use %s %s %s" (ty_name a) (hx v) (ty_name b)
  | EPassVar (a, v, b) -> Printf.sprintf "passvar %s %s %s" (ty_name a) (hx v) (ty_name b)
  | EPassExpr -> "passexpr"
  | ETooManyIter -> "iter"

let rec assoc_names k = function
  | [] -> None
  | (k', v) :: r -> if k = k' then Some v else assoc_names k r

let rec dedupe = function
  | [] -> []
  | x :: r -> x :: dedupe (List.filter (fun y -> y <> x) r)

(* the same text as the VerifResolverTables method of parser.Program *)
let tables (p : program) (f : final) : string =
  let vars = List.map (fun ((fn, v), t) ->
    let idx =
      if fn = [] then assoc_names v f.fin_gidx
      else (match assoc_names fn f.fin_lidx with Some l -> assoc_names v l | None -> None) in
    let idx = match idx with Some i -> string_of_z i | None -> "?" in
    Printf.sprintf "(%s %s %d %s %d)" (hx fn) (hx v) (if fn = [] then 3 else 1) idx (int_of_ty t)) f.fin_types in
  let names = dedupe (List.map (fun n -> n.n_name) p.p_natives @ List.map (fun fd -> fd.f_name) p.p_funcs) in
  let funcs = List.filter_map (fun n ->
    match func_info p n with
    | Some fi -> Some (Printf.sprintf "(%s %d %s %d)" (hx n) (if fi.fi_native then 1 else 0)
                         (string_of_z fi.fi_index) (List.length fi.fi_params))
    | None -> None) names in
  let vars = List.sort compare vars and funcs = List.sort compare funcs in
  "(tables (vars " ^ String.concat " " vars ^ ") (funcs " ^ String.concat " " funcs ^ "))"

let res_string p = function
  | ROk f -> "ok cc=" ^ string_of_bool (compile_check p f) ^ " " ^ tables p f
  | RErr e -> "err " ^ err_string e
  | RPanic -> "panic"
  | RFuel -> "fuel"


let uniq l = List.sort_uniq compare l

(* all permutations of an OCaml list, identity first *)
let rec ml_perms = function
  | [] -> [[]]
  | l ->
      List.concat (List.mapi (fun i x ->
        let rest = List.filteri (fun j _ -> j <> i) l in
        List.map (fun p -> x :: p) (ml_perms rest)) l)

let rec fact n = if n <= 1 then 1 else n * fact (n - 1)

exception Capped

(* every oracle, as the sequence of permutation indexes it answers with: the
   model asks with k = 0, 1, 2, ... (each call uses a fresh counter value), so a
   run is determined by choices.(k); arity.(k) = (length of the k-th argument)! *)
let enumerate_oracles (cap : int) (fix_first : bool) (run : oracle -> string) : string list * bool =
  let maxk = 4096 in
  let choices = Array.make maxk 0 and arity = Array.make maxk 1 in
  let used = ref 0 in
  let int_of_nat n = let rec go acc = function O -> acc | S m -> go (acc + 1) m in go 0 n in
  let oracle (k : nat) (l : name list) : name list =
    let k = int_of_nat k in
    if k >= maxk then raise Capped;
    if k + 1 > !used then used := k + 1;
    let n = List.length l in
    if n > 6 then raise Capped;
    let a = if fix_first && k = 0 then 1 else fact n in
    arity.(k) <- a;
    if choices.(k) >= a then choices.(k) <- 0;
    if a = 1 then l else List.nth (ml_perms l) choices.(k) in
  let outs = ref [] and runs = ref 0 and exact = ref true and continue = ref true in
  (try
    while !continue do
      used := 0;
      incr runs;
      if !runs > cap then raise Capped;
      outs := run oracle :: !outs;
      (* next choice sequence: increment the last position that can be incremented *)
      let k = ref (!used - 1) in
      while !k >= 0 && choices.(!k) + 1 >= arity.(!k) do decr k done;
      if !k < 0 then continue := false
      else begin
        choices.(!k) <- choices.(!k) + 1;
        for j = !k + 1 to maxk - 1 do choices.(j) <- 0 done
      end
    done
  with Capped -> exact := false);
  (uniq !outs, !exact)

let handle = function
  | "outcomes" :: cap :: toks ->
      let p = p_prog toks in
      let names = List.map (fun fd -> fd.f_name) p.p_funcs in
      if List.length names > 5 then "toolarge" else
      let all = uniq (List.map (res_string p) (order_outcomes (pass_fuel p) p)) in
      let fix_first = (call_graph p <> []) in
      let (reach, exact) = enumerate_oracles (int_of_string cap) fix_first (fun pi -> res_string p (resolve pi p)) in
      Printf.sprintf "all= %s ;; reach= %s ;; exact=%s one=%s"
        (String.concat " | " all) (String.concat " | " reach) (string_of_bool exact) (string_of_bool (one_error (pass_fuel p) p))
  | "det" :: toks ->
      (* the implementation since the repair of F-C19-1/2: the keys of every map sorted before use *)
      let p = p_prog toks in
      res_string p (resolve name_order_oracle p)
  | "fronts" :: n :: k :: toks ->
      let n = int_of_string n and k = int_of_string k in
      let (fronts, toks) = p_names k toks in
      let p = p_prog toks in
      let outs = List.init n (fun i -> res_string p (resolve (seed_oracle (nat_of_int i)) p))
                 @ List.map (fun f -> res_string p (resolve (front_oracle f) p)) fronts in
      String.concat " | " (uniq outs)
  | "natnames" :: toks ->
      (* for every index i below the number of Go functions: the names nativeFuncNames[i]
         can hold, over every order of the funcInfo map's keys (all permutations up to
         6 keys, rotations of the key list and of its reverse above) *)
      let p = p_prog toks in
      let keys = func_keys p in
      let orders =
        if List.length keys <= 6 then ml_perms keys
        else begin
          let rot l k = let n = List.length l in List.init n (fun j -> List.nth l ((j + k) mod n)) in
          List.concat (List.init (List.length keys) (fun k -> [rot keys k; rot (List.rev keys) k]))
        end in
      let nn = List.length (uniq (List.map (fun n -> n.n_name) p.p_natives)) in
      String.concat " " (List.init nn (fun i ->
        let names = uniq (List.map (fun o -> match name_shown p o (z_of_int i) with Some n -> hx n | None -> "none") orders) in
        Printf.sprintf "%d=%s" i (String.concat "," names)))
  | op :: _ -> "driver-error unknown-op " ^ op
  | [] -> "driver-error empty"

let () = serve handle
