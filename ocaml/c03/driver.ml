open Model
open Wire

(* lex <src-hex> <decisions: string of 0/1, "-" for none>
     -> ok L:C:kind:valhex:had:peek ...        (what a client of lexer.Scan/ScanRegex observes)
   ghost <src-hex> <decisions>
     -> ok start ...                           (the model's ghost field tstart, same token order)
   pos <src-hex> <offset>      -> ok L:C      (the specification pos_of_offset)
   show <src-hex> <line> <col> -> ok <prefix-hex> | panic     (goawk.go showSourceLine) *)

let decisions s =
  if s = "-" then [] else List.init (String.length s) (fun i -> s.[i] = '1')

let tok_str (o : obs) =
  let t = o.otok in
  let (l, c) = t.tpos in
  Printf.sprintf "%s:%s:%s:%s:%s:%s" (string_of_z l) (string_of_z c) (string_of_z t.tkind)
    (hex_of_bytes t.tval) (string_of_bool o.ohad) (string_of_z o.opeek)

let ghost_str (o : obs) = string_of_z o.otok.tstart

let run f src ds =
  match scan_all (bytes_of_hex src) (decisions ds) with
  | LOk obs -> "ok " ^ String.concat " " (List.map f obs)
  | LPanic -> "panic"
  | LFuel -> "fuel"

let handle = function
  | ["lex"; src; ds] -> run tok_str src ds
  | ["ghost"; src; ds] -> run ghost_str src ds
  | ["pos"; src; off] ->
      let (l, c) = pos_of_offset (bytes_of_hex src) (z_of_string off) in
      "ok " ^ string_of_z l ^ ":" ^ string_of_z c
  | ["show"; src; l; c] ->
      (match show_source_line (bytes_of_hex src) (z_of_string l, z_of_string c) with
       | Ok (_, pre) -> "ok " ^ hex_of_bytes pre
       | Panic -> "panic"
       | Err m -> "err " ^ hex_of_bytes m
       | Unmod -> "unmod")
  | op :: _ -> "driver-error unknown-op " ^ op
  | [] -> "driver-error empty"

let () = serve handle
