(* rendering of Lib.Dyadic.fnum, for drivers whose model uses it *)
open Model
open Wire
let fnum_of_bits s = of_bits (z_of_string s)
let string_of_fnum x =
  match canon x with
  | FNaN -> "nan"
  | FInf true -> "-inf"
  | FInf false -> "+inf"
  | FFin (m, e) -> string_of_z m ^ ":" ^ string_of_z e
