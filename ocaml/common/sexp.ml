(* minimal S-expression reader for the dumps produced by parser/verif_dump.go *)
type sexp = Atom of string | List of sexp list

let parse (s : string) : sexp =
  let n = String.length s in
  let pos = ref 0 in
  let rec skip () = if !pos < n && (s.[!pos] = ' ' || s.[!pos] = '\n' || s.[!pos] = '\t') then (incr pos; skip ()) in
  let rec one () : sexp =
    skip ();
    if !pos >= n then failwith "sexp: unexpected end"
    else if s.[!pos] = '(' then begin
      incr pos;
      let items = ref [] in
      let rec loop () =
        skip ();
        if !pos >= n then failwith "sexp: missing )"
        else if s.[!pos] = ')' then incr pos
        else (items := one () :: !items; loop ()) in
      loop ();
      List (List.rev !items)
    end else begin
      let st = !pos in
      while !pos < n && s.[!pos] <> ' ' && s.[!pos] <> '(' && s.[!pos] <> ')' && s.[!pos] <> '\n' && s.[!pos] <> '\t' do incr pos done;
      if !pos = st then failwith "sexp: unexpected )";
      Atom (String.sub s st (!pos - st))
    end in
  let r = one () in
  skip ();
  if !pos <> n then failwith "sexp: trailing input";
  r

let rec to_string = function
  | Atom a -> a
  | List l -> "(" ^ String.concat " " (List.map to_string l) ^ ")"
