(* Wire encoding between the Go harness and the extracted Coq model.
   Compiled once per property against that property's extracted Model. *)
module BZ = Z            (* zarith, before Model shadows Z *)

let rec pos_of_bz (n : BZ.t) : Model.positive =
  if BZ.equal n BZ.one then Model.XH
  else if BZ.is_even n then Model.XO (pos_of_bz (BZ.shift_right n 1))
  else Model.XI (pos_of_bz (BZ.shift_right n 1))

let z_of_bz (n : BZ.t) : Model.z =
  let s = BZ.sign n in
  if s = 0 then Model.Z0 else if s > 0 then Model.Zpos (pos_of_bz n) else Model.Zneg (pos_of_bz (BZ.neg n))

let rec bz_of_pos = function
  | Model.XH -> BZ.one
  | Model.XO p -> BZ.shift_left (bz_of_pos p) 1
  | Model.XI p -> BZ.succ (BZ.shift_left (bz_of_pos p) 1)

let bz_of_z = function Model.Z0 -> BZ.zero | Model.Zpos p -> bz_of_pos p | Model.Zneg p -> BZ.neg (bz_of_pos p)

let z_of_string s = z_of_bz (BZ.of_string s)
let string_of_z z = BZ.to_string (bz_of_z z)
let z_of_int n = z_of_bz (BZ.of_int n)
let int_of_z z = BZ.to_int (bz_of_z z)

let rec nat_of_int n = if n <= 0 then Model.O else Model.S (nat_of_int (n - 1))

(* byte strings: lowercase hex, "-" for the empty string *)
let bytes_of_hex (s : string) : Model.z list =
  if s = "-" then [] else begin
    let n = String.length s / 2 in
    let rec go i acc = if i < 0 then acc
      else go (i - 1) (z_of_int (int_of_string ("0x" ^ String.sub s (2 * i) 2)) :: acc) in
    go (n - 1) []
  end

let hex_of_bytes (l : Model.z list) : string =
  if l = [] then "-" else begin
    let b = Buffer.create 64 in
    List.iter (fun z ->
      let v = int_of_z z in
      if v < 0 || v > 255 then Buffer.add_string b (Printf.sprintf "<%d>" v)
      else Buffer.add_string b (Printf.sprintf "%02x" v)) l;
    Buffer.contents b
  end

let string_of_bool b = if b then "1" else "0"
let bool_of_string s = (s = "1" || s = "true")

let split_ws (s : string) : string list =
  List.filter (fun x -> x <> "") (String.split_on_char ' ' s)

(* main loop: one request per line, one answer per line *)
let serve (handle : string list -> string) =
  try
    while true do
      let line = input_line stdin in
      let ans = try handle (split_ws line) with
        | Failure m -> "driver-error " ^ m
        | Not_found -> "driver-error not-found"
        | Invalid_argument m -> "driver-error " ^ m in
      print_string ans; print_char '\n'
    done
  with End_of_file -> ()

(* same, but the handler gets the raw line split at TAB characters *)
let serve_tabs (handle : string list -> string) =
  try
    while true do
      let line = input_line stdin in
      let ans = try handle (String.split_on_char '\t' line) with
        | Failure m -> "driver-error " ^ m
        | Not_found -> "driver-error not-found"
        | Invalid_argument m -> "driver-error " ^ m in
      print_string ans; print_char '\n'
    done
  with End_of_file -> ()
