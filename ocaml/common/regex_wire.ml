(* parser of the prefix regex encoding produced by harness/hx/regex.go (Re.Wire) *)
open Model
open Wire

let re_of_wire (s : string) : re =
  let toks = ref (String.split_on_char ',' s) in
  let next () = match !toks with t :: r -> toks := r; t | [] -> failwith "regex wire: truncated" in
  let rec p () =
    let t = next () in
    match t with
    | "N" -> RNone | "E" -> REps | "a" -> RAny | "^" -> RBol | "$" -> REol
    | "C" -> let a = p () in let b = p () in RCat (a, b)
    | "A" -> let a = p () in let b = p () in RAlt (a, b)
    | "S" -> RStar (p ())
    | "P" -> let a = p () in RCat (a, RStar a)
    | "O" -> RAlt (p (), REps)
    | _ when String.length t > 1 && t.[0] = 'c' ->
        RChr (z_of_string (String.sub t 1 (String.length t - 1)))
    | _ when String.length t > 1 && t.[0] = 'k' ->
        let parts = String.split_on_char ':' t in
        let neg = (List.hd parts = "k1") in
        let rs = List.map (fun pr ->
          match String.split_on_char '-' pr with
          | [lo; hi] -> (z_of_string lo, z_of_string hi)
          | _ -> failwith "regex wire: bad range") (List.tl parts) in
        RCls (neg, rs)
    | _ -> failwith ("regex wire: bad token " ^ t)
  in
  let r = p () in
  if !toks <> [] then failwith "regex wire: trailing tokens"; r
