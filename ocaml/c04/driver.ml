(* C04 model runner: one request per line
     <mode> <token> <token> ...        mode = stmt | cond | pattern
   tokens: the symbol itself ( + += && ... ), "(" = LPAREN without preceding space, "_(" = with,
   NL, getline, in, print, printf, f:<builtin>, n:<hex name>, d:<hex number text>, s:<hex string>,
   r:<hex regex>, k:<token number>.
   answer: ok <S-expression> | err | fuel | unmod *)
open Model
open Wire

let bfn_names = [
  "atan2", FAtan2; "close", FClose; "cos", FCos; "exp", FExp; "fflush", FFflush; "gsub", FGsub;
  "index", FIndex; "int", FInt; "length", FLength; "log", FLog; "match", FMatch; "rand", FRand;
  "sin", FSin; "split", FSplit; "sprintf", FSprintf; "sqrt", FSqrt; "srand", FSrand; "sub", FSub;
  "substr", FSubstr; "system", FSystem; "tolower", FTolower; "toupper", FToupper ]
let bfn_of_string s = List.assoc s bfn_names
let string_of_bfn f = fst (List.find (fun (_, g) -> g = f) bfn_names)

let tok_of_word w =
  match w with
  | "NL" -> TNewline | "+" -> TAdd | "+=" -> TAddAssign | "&&" -> TAnd | ">>" -> TAppend | "=" -> TAssign
  | "@" -> TAt | ":" -> TColon | "," -> TComma | "--" -> TDecr | "/" -> TDiv | "/=" -> TDivAssign
  | "$" -> TDollar | "==" -> TEquals | ">=" -> TGte | ">" -> TGreater | "++" -> TIncr | "{" -> TLBrace
  | "[" -> TLBracket | "<" -> TLess | "(" -> TLParen false | "_(" -> TLParen true | "<=" -> TLte
  | "~" -> TMatch | "%" -> TMod | "%=" -> TModAssign | "*" -> TMul | "*=" -> TMulAssign
  | "!~" -> TNotMatch | "!" -> TNot | "!=" -> TNotEquals | "||" -> TOr | "|" -> TPipe | "^" -> TPow
  | "^=" -> TPowAssign | "?" -> TQuestion | "}" -> TRBrace | "]" -> TRBracket | ")" -> TRParen
  | ";" -> TSemicolon | "-" -> TSub | "-=" -> TSubAssign
  | "getline" -> TGetline | "in" -> TIn | "print" -> TPrint | "printf" -> TPrintf
  | _ ->
    if String.length w >= 2 && w.[1] = ':' then begin
      let v = String.sub w 2 (String.length w - 2) in
      match w.[0] with
      | 'f' -> TFunc (bfn_of_string v)
      | 'n' -> TName (bytes_of_hex v)
      | 'd' -> TNumber (bytes_of_hex v)
      | 's' -> TString (bytes_of_hex v)
      | 'r' -> TRegex (bytes_of_hex v)
      | 'k' -> TOther (z_of_string v)
      | _ -> failwith ("bad token " ^ w)
    end else failwith ("bad token " ^ w)

let binop_name = function
  | BAdd -> "add" | BSub -> "sub" | BMul -> "mul" | BDiv -> "div" | BMod -> "mod" | BPow -> "pow"
  | BEq -> "eq" | BNe -> "ne" | BLt -> "lt" | BLe -> "le" | BGt -> "gt" | BGe -> "ge"
  | BMatch -> "match" | BNotMatch -> "notmatch" | BAnd -> "and" | BOr -> "or" | BConcat -> "concat"
let unop_name = function UNot -> "not" | UPlus -> "add" | UMinus -> "sub"
let incop_name = function IIncr -> "incr" | IDecr -> "decr"

let rec sx b e =
  let add = Buffer.add_string b in
  let list es = List.iter (fun x -> add " "; sx b x) es in
  let opt = function None -> add "nil" | Some x -> sx b x in
  match e with
  | ENum s -> add "(num "; add (hex_of_bytes s); add ")"
  | EStr s -> add "(str "; add (hex_of_bytes s); add ")"
  | EStrRegex s -> add "(strregex "; add (hex_of_bytes s); add ")"
  | ERegex s -> add "(regex "; add (hex_of_bytes s); add ")"
  | EField i -> add "(field "; sx b i; add ")"
  | ENamedField i -> add "(namedfield "; sx b i; add ")"
  | EVar n -> add "(var "; add (hex_of_bytes n); add ")"
  | EIndex (a, idx) -> add "(index "; add (hex_of_bytes a); list idx; add ")"
  | EIn (idx, a) -> add "(in "; add (hex_of_bytes a); list idx; add ")"
  | EUnary (op, v) -> add "(unary "; add (unop_name op); add " "; sx b v; add ")"
  | EBinary (op, l, r) -> add "(binary "; add (binop_name op); add " "; sx b l; add " "; sx b r; add ")"
  | ECond (c, t, f) -> add "(cond "; sx b c; add " "; sx b t; add " "; sx b f; add ")"
  | EAssign (l, r) -> add "(assign "; sx b l; add " "; sx b r; add ")"
  | EAugAssign (op, l, r) -> add "(augassign "; add (binop_name op); add " "; sx b l; add " "; sx b r; add ")"
  | EIncr (op, pre, x) -> add "(incr "; add (incop_name op); add (if pre then " 1 " else " 0 "); sx b x; add ")"
  | ECall (f, args) -> add "(call "; add (string_of_bfn f); list args; add ")"
  | EUserCall (n, args) -> add "(usercall "; add (hex_of_bytes n); list args; add ")"
  | EMulti es -> add "(multi"; list es; add ")"
  | EGetline (c, t, f) -> add "(getline "; opt c; add " "; opt t; add " "; opt f; add ")"
  | EGroup x -> add "(group "; sx b x; add ")"

let redir_name = function RNone -> "none" | RGreater -> "gt" | RAppend -> "append" | RPipe -> "pipe"

let top_string t =
  let b = Buffer.create 256 in
  let add = Buffer.add_string b in
  let list es = List.iter (fun x -> add " "; sx b x) es in
  (match t with
   | TopPrint (pf, rd, dest, args) ->
       add (if pf then "(printf " else "(print "); add (redir_name rd); add " ";
       (match dest with None -> add "nil" | Some d -> sx b d); list args; add ")"
   | TopExpr e -> add "(expr "; sx b e; add ")"
   | TopCond e -> add "(if "; sx b e; add ")"
   | TopPattern es -> add "(pattern"; list es; add ")");
  Buffer.contents b

let handle = function
  | m :: words ->
      let mode = (match m with "stmt" -> MStmt | "cond" -> MCond | "pattern" -> MPattern
                               | _ -> failwith ("bad mode " ^ m)) in
      let ts = List.map tok_of_word words in
      (match parse_top mode ts with
       | POk t -> "ok " ^ top_string t
       | PErr -> "err"
       | PFuel -> "fuel"
       | PUnmod -> "unmod")
  | [] -> "driver-error empty"

let () = serve handle
