(* C06 model runner.  One request per line:
     script <op> <op> ...
   ops (space separated tokens):
     R <hex>            ReadRecord
     G <idx>            GetField
     T <idx>            TypeOf
     S <idx> <hex>      SetField
     L <idx> <hex>      GetlineField
     K <hex>            GetlineVar
     M <idx> <kind>     ModField, kind in suba gsuba subempty subsame gsubsame app id idsv incr add2
     N                  GetNF
     W <bits> <hex>     SetNF (value: number bits, CONVFMT string)
     D <d>              ModNF (NF += d)
     F <hex> <re>       SetFS; <re> = regex wire, - (not a regex), ! (does not compile)
     O <hex>  P <hex>   SetOFS, SetRS
     I <m>  U <m>       SetInMode, SetOutMode (m in d c t)
     V                  ViewAll
   idx: c<bits> | n<d> ($(NF+d)) | m<d> ($(-NF+d))
   Answer: per step "<out> r=<$0>", steps joined by " | ", then optionally
   " | err=<hex>", " | panic", " | unmod". *)
open Model
open Wire
open Fnum
open Regex_wire

(* bytes are small: convert without going through zarith *)
let rec int_of_pos = function XH -> 1 | XO p -> 2 * int_of_pos p | XI p -> 2 * int_of_pos p + 1
let int_of_z = function Z0 -> 0 | Zpos p -> int_of_pos p | Zneg p -> - (int_of_pos p)

let ints_of_bytes (l : z list) : int array = Array.of_list (List.rev (List.rev_map int_of_z l))

let hex_arr (a : int array) lo hi =
  let b = Buffer.create (2 * (hi - lo) + 1) in
  for i = lo to hi - 1 do Buffer.add_string b (Printf.sprintf "%02x" a.(i)) done;
  Buffer.contents b

(* abbreviated rendering of a byte string (same function in harness/c06: abbr) *)
let abbr (l : z list) : string =
  let a = ints_of_bytes l in
  let n = Array.length a in
  if n = 0 then "-"
  else if n <= 48 then hex_arr a 0 n
  else begin
    let ck = ref 0 in
    Array.iteri (fun i v -> ck := (!ck + v * ((i mod 255) + 1)) mod 1000000007) a;
    Printf.sprintf "L%d.%s.%s.%d" n (hex_arr a 0 8) (hex_arr a (n - 8) n) !ck
  end

let value_str (v : value) = string_of_fnum v.vnum ^ "/" ^ abbr v.vstr

let rec take n l = if n <= 0 then [] else match l with [] -> [] | x :: r -> x :: take (n - 1) r

let fields_str (fl : z list list) =
  let n = List.length fl in
  let shown =
    if n <= 16 then List.rev (List.rev_map abbr fl)
    else begin
      let first = take 3 fl in
      let last = List.rev (take 3 (List.rev fl)) in
      List.map abbr first @ [".."] @ List.map abbr last
    end in
  string_of_int n ^ ":" ^ String.concat "," shown

let out_str = function
  | ONone -> "-"
  | OVal b -> "v=" ^ abbr b
  | ONF v -> "n=" ^ value_str v
  | OAll (v, fl) -> "a=" ^ value_str v ^ "/" ^ fields_str fl
  | OTyp None -> "t=-"
  | OTyp (Some true) -> "t=S"
  | OTyp (Some false) -> "t=N"

let idx_of s =
  let rest = String.sub s 1 (String.length s - 1) in
  match s.[0] with
  | 'c' -> IConst (fnum_of_bits rest)
  | 'n' -> INF (false, z_of_string rest)
  | 'm' -> INF (true, z_of_string rest)
  | _ -> failwith ("bad idx " ^ s)

let mode_of = function "d" -> MDefault | "c" -> MCSV | "t" -> MTSV | m -> failwith ("bad mode " ^ m)

(* the string functions behind ModField (what the AWK expression computes) *)
let rec sub_first = function
  | [] -> None
  | c :: r when int_of_z c = 97 -> Some (z_of_int 98 :: r)
  | c :: r -> (match sub_first r with Some r' -> Some (c :: r') | None -> None)

let gsub_all l =
  if not (List.exists (fun c -> int_of_z c = 97) l) then None
  else Some (List.concat_map (fun c -> if int_of_z c = 97 then [z_of_int 98; z_of_int 98] else [c]) l)

let simple_int (l : z list) : BZ.t option =
  let s = String.concat "" (List.map (fun c -> String.make 1 (Char.chr (int_of_z c land 255))) l) in
  let n = String.length s in
  if n = 0 then Some BZ.zero
  else begin
    let st = if s.[0] = '-' then 1 else 0 in
    if n - st < 1 || n - st > 15 then None
    else begin
      let ok = ref true in
      for i = st to n - 1 do if s.[i] < '0' || s.[i] > '9' then ok := false done;
      if !ok then Some (BZ.of_string s) else None
    end
  end

let add_int d l =
  match simple_int l with
  | Some n -> Ok (Some (dec_of_Z (z_of_bz (BZ.add n (BZ.of_int d)))))
  | None -> Unmod

let modfun = function
  | "suba" -> (fun l -> Ok (sub_first l))
  | "gsuba" -> (fun l -> Ok (gsub_all l))
  | "app" -> (fun l -> Ok (Some (l @ [z_of_int 120])))
  | "id" | "idsv" -> (fun l -> Ok (Some l))
  (* substitutions that match and leave the text as it is: sub(/^/, "", $i) always matches;
     sub(/b/, "b", $i), gsub(/b/, "b", $i) match when there is a b *)
  | "subempty" -> (fun l -> Ok (Some l))
  | "subsame" | "gsubsame" ->
      (fun l -> Ok (if List.exists (fun c -> int_of_z c = 98) l then Some l else None))
  | "incr" -> add_int 1
  | "add2" -> add_int 2
  | k -> failwith ("bad modfield kind " ^ k)

(* NF += d on a value: exact when the number is an integer *)
let nf_add d (v : value) =
  match canon v.vnum with
  | FFin (m, e) when BZ.sign (bz_of_z e) >= 0 && BZ.to_int (bz_of_z e) < 64 ->
      let n = BZ.shift_left (bz_of_z m) (BZ.to_int (bz_of_z e)) in
      Ok (count_value (z_of_bz (BZ.add n (BZ.of_int d))))
  | _ -> Unmod

let rec parse_ops = function
  | [] -> []
  | "R" :: t :: r -> ReadRecord (bytes_of_hex t) :: parse_ops r
  | "G" :: i :: r -> GetField (idx_of i) :: parse_ops r
  | "T" :: i :: r -> TypeOf (idx_of i) :: parse_ops r
  | "S" :: i :: t :: r -> SetField (idx_of i, bytes_of_hex t) :: parse_ops r
  | "L" :: i :: t :: r -> GetlineField (idx_of i, bytes_of_hex t) :: parse_ops r
  | "K" :: t :: r -> GetlineVar (bytes_of_hex t) :: parse_ops r
  | "M" :: i :: k :: r -> ModField (idx_of i, modfun k) :: parse_ops r
  | "N" :: r -> GetNF :: parse_ops r
  | "W" :: b :: s :: r -> SetNF { vnum = fnum_of_bits b; vstr = bytes_of_hex s } :: parse_ops r
  | "D" :: d :: r -> ModNF (nf_add (int_of_string d)) :: parse_ops r
  | "F" :: s :: re :: r ->
      let rx = if re = "-" || re = "!" then None else Some (re_of_wire re) in
      SetFS (bytes_of_hex s, rx) :: parse_ops r
  | "O" :: s :: r -> SetOFS (bytes_of_hex s) :: parse_ops r
  | "P" :: s :: r -> SetRS (bytes_of_hex s) :: parse_ops r
  | "I" :: m :: r -> SetInMode (mode_of m) :: parse_ops r
  | "U" :: m :: r -> SetOutMode (mode_of m) :: parse_ops r
  | "V" :: r -> ViewAll :: parse_ops r
  | t :: _ -> failwith ("bad op token " ^ t)

let run_script ops =
  let b = Buffer.create 256 in
  let sep () = if Buffer.length b > 0 then Buffer.add_string b " | " in
  let rec go s = function
    | [] -> ()
    | o :: rest ->
        (match xexec s o with
         | Ok (s1, w) ->
             sep (); Buffer.add_string b (out_str w ^ " r=" ^ abbr (xline s1)); go s1 rest
         | Err m -> sep (); Buffer.add_string b ("err=" ^ hex_of_bytes m)
         | Panic -> sep (); Buffer.add_string b "panic"
         | Unmod -> sep (); Buffer.add_string b "unmod") in
  go xinit ops;
  if Buffer.length b = 0 then "empty" else Buffer.contents b

let handle = function
  | "script" :: toks -> run_script (parse_ops toks)
  | op :: _ -> "driver-error unknown-op " ^ op
  | [] -> "driver-error empty"

let () = serve handle
