open Model
open Wire
open Fnum

let res_bytes = function
  | Ok b -> "ok " ^ hex_of_bytes b
  | Err m -> "err " ^ hex_of_bytes m
  | Panic -> "panic"
  | Unmod -> "unmod"

let split_commas s = String.split_on_char ',' s
let tail s = String.sub s 1 (String.length s - 1)

(* AWK value: n<bits> | u | s<hex>,<bits> | t<hex>,<bits>,<bits or x> *)
let value_of_tok (t : string) : value =
  match t.[0] with
  | 'n' -> VNum (fnum_of_bits (tail t))
  | 'u' -> VNull
  | 's' -> (match split_commas (tail t) with
            | [h; b] -> VStr (bytes_of_hex h, fnum_of_bits b)
            | _ -> failwith "bad s value")
  | 't' -> (match split_commas (tail t) with
            | [h; b; st] -> VNumStr (bytes_of_hex h, fnum_of_bits b,
                                     (if st = "x" then None else Some (fnum_of_bits st)))
            | _ -> failwith "bad t value")
  | _ -> failwith "bad value"

(* Go argument: i<dec> int64 | q<dec> uint64 | s<hex> string | b<hex> []byte | f<bits> float64 *)
let garg_of_tok (t : string) : garg =
  match t.[0] with
  | 'i' -> GInt (z_of_string (tail t))
  | 'q' -> GUint (z_of_string (tail t))
  | 's' -> GStr (bytes_of_hex (tail t))
  | 'b' -> GBytes (bytes_of_hex (tail t))
  | 'f' -> GFloat (fnum_of_bits (tail t))
  | 'B' -> GBig (z_of_string (tail t))
  | _ -> failwith "bad garg"

let ty_char = function TyS -> "s" | TyD -> "d" | TyU -> "u" | TyF -> "f" | TyC -> "c" | TyP -> "p"

let handle = function
  | "sprintf" :: c :: f :: args ->
      res_bytes (sprintf (bool_of_string c) ffmt_unmod (bytes_of_hex f) (List.map value_of_tok args))
  | "print" :: ofs :: ors :: args ->
      res_bytes (print_args ffmt_unmod (bytes_of_hex ofs) (bytes_of_hex ors) (List.map value_of_tok args))
  | ["parse"; f] ->
      (match parse_fmt_types (bytes_of_hex f) with
       | Ok ((g, ts), st) -> "ok " ^ hex_of_bytes g ^ " " ^ (if ts = [] then "-" else String.concat "" (List.map ty_char ts))
                             ^ " " ^ (if st = [] then "-" else String.concat "," (List.map string_of_z st))
       | Err m -> "err " ^ hex_of_bytes m
       | Panic -> "panic" | Unmod -> "unmod")
  | "gofmt" :: f :: args ->
      res_bytes (go_sprintf (bytes_of_hex f) (List.map garg_of_tok args))
  | op :: _ -> "driver-error unknown-op " ^ op
  | [] -> "driver-error empty"

let () = serve handle
