open Model
open Wire
open Fnum

let res_bytes = function
  | Ok b -> "ok " ^ hex_of_bytes b
  | Err m -> "err " ^ hex_of_bytes m
  | Panic -> "panic"
  | Unmod -> "unmod"

let res_fnum = function
  | Ok x -> "ok " ^ string_of_fnum x
  | Err m -> "err " ^ hex_of_bytes m
  | Panic -> "panic"
  | Unmod -> "unmod"

let prov_of_string = function
  | "const" -> PConst | "computed" -> PComputed | "field" -> PField | "getline" -> PGetline
  | "split" -> PSplit | "argv" -> PArgv | "environ" -> PEnviron | "var" -> PVar
  | p -> failwith ("bad provenance " ^ p)

(* operand syntax: null | n:<bits> | s:<hex> | ns:<hex> | p:<provenance>:<hex> *)
let value_of_string (s : string) : value =
  match String.split_on_char ':' s with
  | ["null"] -> VNull
  | ["n"; b] -> VNum (fnum_of_bits b)
  | ["s"; h] -> VStr (bytes_of_hex h)
  | ["ns"; h] -> VNumStr (bytes_of_hex h)
  | ["p"; p; h] -> prov_value (prov_of_string p) (bytes_of_hex h)
  | _ -> failwith ("bad operand " ^ s)

let op_of_string = function
  | "eq" -> OEq | "ne" -> ONe | "lt" -> OLt | "gt" -> OGt | "le" -> OLe | "ge" -> OGe
  | o -> failwith ("bad op " ^ o)

let pf_string = function
  | PFOk v -> "ok " ^ string_of_fnum v
  | PFErrSyntax -> "syntax"
  | PFErrUnderscore -> "underscore"

let handle = function
  | ["pf"; s] -> pf_string (parse_float (bytes_of_hex s))
  | ["pfp"; s] -> res_fnum (parse_float_prefix (bytes_of_hex s))
  | ["trim"; s] -> "ok " ^ hex_of_bytes (ascii_trim (bytes_of_hex s))
  | ["str"; x; f] -> res_bytes (num_to_str (bytes_of_hex f) (fnum_of_bits x))
  | ["vstr"; f; v] -> res_bytes (v_str (bytes_of_hex f) (value_of_string v))
  | ["vnum"; v] -> res_fnum (v_num (value_of_string v))
  | ["vbool"; v] -> "ok " ^ string_of_bool (v_boolean (value_of_string v))
  | ["ists"; v] ->
      let (f, b) = is_true_str (value_of_string v) in
      "ok " ^ string_of_fnum f ^ " " ^ string_of_bool b
  | ["cmp"; cf; op; l; r] ->
      (* expression opcode, fused jump opcode, specification: all three answers *)
      let cf = bytes_of_hex cf and op = op_of_string op
      and l = value_of_string l and r = value_of_string r in
      let e = match expr_site op cf l r with
        | Ok (VNum x) -> string_of_fnum x | Ok _ -> "notnum" | Unmod -> "unmod" | Panic -> "panic" | Err _ -> "err" in
      let rb = function Ok b -> string_of_bool b | Unmod -> "unmod" | Panic -> "panic" | Err _ -> "err" in
      if e = "unmod" then "unmod"
      else "ok " ^ e ^ " " ^ rb (jump_site op cf l r) ^ " " ^ rb (spec_cmp cf op l r)
  | ["probe"; cf; ofm; l; r] ->
      (* everything one end-to-end probe prints, composed from the extracted functions:
         8 expression results (six ops on (l,r), then r<l, r>l); 6 if-forms and 6 ?:-forms
         (cond_inverted); 6 do-while forms (cond_direct); 6 while-forms and 6 for-forms, each a
         digit 0 (top test false), 1 (top true, bottom false), 2 (both true) with the top test
         cond_inverted and the bottom test cond_direct; then !l, truth of l, l == l+0; then
         l+0, l "", r "", and the OFMT form of l *)
      let cf = bytes_of_hex cf and ofm = bytes_of_hex ofm
      and l = value_of_string l and r = value_of_string r in
      let exception U in
      let exception P in
      let bit = function Ok b -> if b then "1" else "0" | Unmod -> raise U | _ -> raise P in
      let ebit = function
        | Ok (VNum x) -> if string_of_fnum x = "1:0" then "1" else "0"
        | Unmod -> raise U | _ -> raise P in
      let hx = function Ok b -> hex_of_bytes b | Unmod -> raise U | _ -> raise P in
      let ops = [OEq; ONe; OLt; OGt; OLe; OGe] in
      (try
        let e = String.concat "" (List.map (fun op -> ebit (expr_site op cf l r)) ops)
                ^ ebit (expr_site OLt cf r l) ^ ebit (expr_site OGt cf r l) in
        let i = String.concat "" (List.map (fun op -> bit (cond_inverted op cf l r)) ops) in
        let d = String.concat "" (List.map (fun op -> bit (cond_direct op cf l r)) ops) in
        let loop op = if bit (cond_inverted op cf l r) = "0" then "0"
                      else if bit (cond_direct op cf l r) = "0" then "1" else "2" in
        let w = String.concat "" (List.map loop ops) in
        let n = match v_num l with Ok x -> x | Unmod -> raise U | _ -> raise P in
        let t = (if v_boolean l then "0" else "1") ^ (if v_boolean l then "1" else "0")
                ^ ebit (expr_site OEq cf l (VNum n)) in
        let pr = match l with VNum _ -> hx (v_str ofm l) | _ -> "-" in
        "ok " ^ e ^ " " ^ i ^ " " ^ i ^ " " ^ d ^ " " ^ w ^ " " ^ w ^ " " ^ t ^ " " ^ string_of_fnum n
        ^ " " ^ hx (v_str cf l) ^ " " ^ hx (v_str cf r) ^ " " ^ pr
      with U -> "unmod" | P -> "panic")
  | "hist" :: cf :: ops ->
      (* a multi-record history over the model of the record machinery (Model/Fields.v), typed by
         Model/Value.v.  ops: R:<hex> record arrives | S:<k>:<hex> $k = string | T:<k>:<hex> $k =
         number (its string form) | E:<k> $k = $k | N:<n> NF = n | Z:<hex> $0 = text | F:<hex> FS =
         one char | P:<tag> probe of $0..$7: text, ($k == numstr(" " text)), ($k < 9) *)
      let cf = bytes_of_hex cf in
      let exception U in
      let exception P in
      let exception E in
      let get = function Ok x -> x | Unmod -> raise U | Panic -> raise P | Err _ -> raise E in
      let ebit = function
        | Ok (VNum x) -> if string_of_fnum x = "1:0" then "1" else "0"
        | Unmod -> raise U | _ -> raise P in
      let nine = VNum (fnum_of_bits "4621256167635550208") in
      let out = Buffer.create 256 in
      (try
        let st = ref xinit in
        List.iter (fun tok ->
          match String.split_on_char ':' tok with
          | ["R"; h] -> st := xread !st (bytes_of_hex h)
          | ["S"; k; h] | ["T"; k; h] -> st := get (xset_field !st (z_of_string k) (bytes_of_hex h))
          | ["E"; k] -> st := get (xset_field_self !st (z_of_string k))
          | ["N"; n] -> st := get (xset_nf !st (z_of_string n))
          | ["Z"; h] -> st := get (xset_field !st (z_of_string "0") (bytes_of_hex h))
          | ["F"; h] -> st := get (xset_fs1 !st (bytes_of_hex h))
          | ["P"; tag] ->
              for k = 0 to 7 do
                let (s1, v) = get (xfield !st (z_of_int k)) in
                st := s1;
                let f = match v with VStr f -> f | VNumStr f -> f | _ -> [] in
                let d = ebit (expr_site OEq cf v (VNumStr (z_of_int 32 :: f))) in
                let l = ebit (expr_site OLt cf v nine) in
                Buffer.add_string out (Printf.sprintf " %s:%d:%s:%s:%s" tag k (hex_of_bytes f) d l)
              done
          | _ -> failwith ("bad hist op " ^ tok)) ops;
        "ok" ^ Buffer.contents out
      with U -> "unmod" | P -> "panic" | E -> "err")
  | op :: _ -> "driver-error unknown-op " ^ op
  | [] -> "driver-error empty"

let () = serve handle
