(* C16 model runner.  Requests (one per line, tokens separated by blanks):
     impl PROG                     resolve_impl: the resolver with the order the code uses (sorted by name)
     resolve <seed> PROG           resolve with the executable oracle [seed_oracle seed] (any other order)
     oldcut <cut> PROG             the resolver with the constant limit it had before (resolve_cut, sorted order)
     wf PROG                       the property's precondition
     order <seed> PROG             ordered_funcs
   PROG  := N <k> {name nin variadic isfunc}*k  F <k> {name <np> param*np <ne> EVENT*ne}*k  M <ne> EVENT*ne
   EVENT := u name ty | c name <na> ARG*na        ARG := v name | e <ne> EVENT*ne
   names are hex ("-" = empty), ty is 0 (unknown) 1 (scalar) 2 (array). *)
open Model
open Wire

let ty_of = function "0" -> TUnknown | "1" -> TScalar | "2" -> TArray | s -> failwith ("ty " ^ s)
let int_of_ty = function TUnknown -> 0 | TScalar -> 1 | TArray -> 2
let ty_name = function TUnknown -> "unknown" | TScalar -> "scalar" | TArray -> "array"

let rec p_events n toks =
  if n = 0 then ([], toks) else
  let (e, toks) = p_event toks in
  let (es, toks) = p_events (n - 1) toks in (e :: es, toks)
and p_event = function
  | "u" :: v :: t :: r -> (Use (bytes_of_hex v, ty_of t), r)
  | "c" :: f :: na :: r -> let (args, r) = p_args (int_of_string na) r in (Call (bytes_of_hex f, args), r)
  | t :: _ -> failwith ("event " ^ t)
  | [] -> failwith "event eof"
and p_args n toks =
  if n = 0 then ([], toks) else
  let (a, toks) = p_arg toks in
  let (l, toks) = p_args (n - 1) toks in (a :: l, toks)
and p_arg = function
  | "v" :: v :: r -> (ArgVar (bytes_of_hex v), r)
  | "e" :: n :: r -> let (es, r) = p_events (int_of_string n) r in (ArgExpr es, r)
  | t :: _ -> failwith ("arg " ^ t)
  | [] -> failwith "arg eof"

let rec p_names n toks =
  if n = 0 then ([], toks) else
  match toks with
  | x :: r -> let (l, r) = p_names (n - 1) r in (bytes_of_hex x :: l, r)
  | [] -> failwith "names eof"

let rec p_natives n toks =
  if n = 0 then ([], toks) else
  match toks with
  | nm :: nin :: va :: fn :: r ->
      let (l, r) = p_natives (n - 1) r in
      ({ n_name = bytes_of_hex nm; n_in = z_of_string nin; n_variadic = bool_of_string va; n_func = bool_of_string fn } :: l, r)
  | _ -> failwith "native eof"

let rec p_funcs n toks =
  if n = 0 then ([], toks) else
  match toks with
  | nm :: np :: r ->
      let (ps, r) = p_names (int_of_string np) r in
      (match r with
       | ne :: r ->
           let (es, r) = p_events (int_of_string ne) r in
           let (l, r) = p_funcs (n - 1) r in
           ({ f_name = bytes_of_hex nm; f_params = ps; f_body = es } :: l, r)
       | [] -> failwith "func eof")
  | _ -> failwith "func eof"

let p_prog toks =
  match toks with
  | "N" :: k :: r ->
      let (ns, r) = p_natives (int_of_string k) r in
      (match r with
       | "F" :: k :: r ->
           let (fs, r) = p_funcs (int_of_string k) r in
           (match r with
            | "M" :: k :: r ->
                let (es, r) = p_events (int_of_string k) r in
                if r <> [] then failwith "trailing tokens";
                { p_natives = ns; p_funcs = fs; p_main = es }
            | _ -> failwith "expected M")
       | _ -> failwith "expected F")
  | _ -> failwith "expected N"

let hx = hex_of_bytes

let err_string = function
  | EAlreadyDefined f -> "already " ^ hx f
  | EGlobalFunc v -> "globalfunc " ^ hx v
  | ECallLocal f -> "calllocal " ^ hx f
  | EUndefined f -> "undefined " ^ hx f
  | ETooManyArgs f -> "toomanyargs " ^ hx f
  | ENotFunc f -> "notfunc " ^ hx f
  | EUse (a, v, b) -> Printf.sprintf "use %s %s %s" (ty_name a) (hx v) (ty_name b)
  | EPassVar (a, v, b) -> Printf.sprintf "passvar %s %s %s" (ty_name a) (hx v) (ty_name b)
  | EPassExpr -> "passexpr"
  | ETooManyIter -> "iter"

let rec assoc_names k = function
  | [] -> None
  | (k', v) :: r -> if k = k' then Some v else assoc_names k r

let rec dedupe = function
  | [] -> []
  | x :: r -> x :: dedupe (List.filter (fun y -> y <> x) r)

(* the same text as the VerifResolverTables method of parser.Program *)
let tables (p : program) (f : final) : string =
  let vars = List.map (fun ((fn, v), t) ->
    let idx =
      if fn = [] then assoc_names v f.fin_gidx
      else (match assoc_names fn f.fin_lidx with Some l -> assoc_names v l | None -> None) in
    let idx = match idx with Some i -> string_of_z i | None -> "?" in
    Printf.sprintf "(%s %s %d %s %d)" (hx fn) (hx v) (if fn = [] then 3 else 1) idx (int_of_ty t)) f.fin_types in
  let names = dedupe (List.map (fun n -> n.n_name) p.p_natives @ List.map (fun fd -> fd.f_name) p.p_funcs) in
  let funcs = List.filter_map (fun n ->
    match func_info p n with
    | Some fi -> Some (Printf.sprintf "(%s %d %s %d)" (hx n) (if fi.fi_native then 1 else 0)
                         (string_of_z fi.fi_index) (List.length fi.fi_params))
    | None -> None) names in
  let vars = List.sort compare vars and funcs = List.sort compare funcs in
  "(tables (vars " ^ String.concat " " vars ^ ") (funcs " ^ String.concat " " funcs ^ "))"

let res_string p = function
  | ROk f -> "ok cc=" ^ string_of_bool (compile_check p f) ^ " " ^ tables p f
  | RErr e -> "err " ^ err_string e
  | RPanic -> "panic"
  | RFuel -> "fuel"

let rec perms = function
  | [] -> [[]]
  | l -> List.concat_map (fun x ->
           let rest = List.filter (fun y -> y != x) l in
           List.map (fun p -> x :: p) (perms rest)) l

let handle = function
  | "impl" :: toks ->
      let p = p_prog toks in res_string p (resolve_impl p)
  | "resolve" :: seed :: toks ->
      let p = p_prog toks in
      res_string p (resolve (seed_oracle (nat_of_int (int_of_string seed))) p)
  | "oldcut" :: cut :: toks ->
      let p = p_prog toks in
      res_string p (resolve_cut (nat_of_int (int_of_string cut)) name_order_oracle p)
  | "wf" :: toks -> string_of_bool (wf (p_prog toks))
  | "order" :: seed :: toks ->
      let p = p_prog toks in
      (match ordered_funcs (seed_oracle (nat_of_int (int_of_string seed))) p with
       | Some l -> "ok " ^ String.concat " " (List.map hx l)
       | None -> "fuel")
  | op :: _ -> "driver-error unknown-op " ^ op
  | [] -> "driver-error empty"

let () = serve handle
