// Expression trees, the harness's own copy of the POSIX precedence table, and the two printers
// (pp_min: only the parentheses the table requires; pp_full: every sub-expression parenthesised).
// Written independently of the Coq development (rocq/Proofs/PrecSpec.v).
package main

import (
	"fmt"
	"math"
	"strconv"
	"strings"

	"verif/harness/hx"
)

// N is an expression tree WITHOUT grouping nodes.
type N struct {
	K    string // num str var regex strregex field unary binary cond assign augassign incr index in multiin call ucall getline
	Op   string // operator name as in the dump (add, sub, ..., incr, decr, not) or function name
	Pre  bool   // incr: prefix
	S    string // literal text / variable or array name
	Kids []*N   // operands; getline: [cmd target file] with nils
	Raw  bool   // never parenthesised (array-name and regex arguments of built-in calls)
}

// ---- canonical S-expression of a tree (the format of parser.VerifC04ParseOnly) ----

func numBits(text string) string {
	s := strings.TrimRight(text, "eE")
	f, _ := strconv.ParseFloat(s, 64)
	return strconv.FormatUint(math.Float64bits(f), 10)
}

func (n *N) sx(sb *strings.Builder) {
	if n == nil {
		sb.WriteString("nil")
		return
	}
	kids := func() {
		for _, k := range n.Kids {
			sb.WriteString(" ")
			k.sx(sb)
		}
	}
	switch n.K {
	case "num":
		sb.WriteString("(num " + numBits(n.S) + ")")
	case "str":
		sb.WriteString("(str " + hx.HexS(n.S) + ")")
	case "strregex":
		sb.WriteString("(strregex " + hx.HexS(n.S) + ")")
	case "regex":
		sb.WriteString("(regex " + hx.HexS(n.S) + ")")
	case "var":
		sb.WriteString("(var " + hx.HexS(n.S) + ")")
	case "field":
		sb.WriteString("(field")
		kids()
		sb.WriteString(")")
	case "unary":
		sb.WriteString("(unary " + n.Op)
		kids()
		sb.WriteString(")")
	case "binary":
		sb.WriteString("(binary " + n.Op)
		kids()
		sb.WriteString(")")
	case "cond":
		sb.WriteString("(cond")
		kids()
		sb.WriteString(")")
	case "assign":
		sb.WriteString("(assign")
		kids()
		sb.WriteString(")")
	case "augassign":
		sb.WriteString("(augassign " + n.Op)
		kids()
		sb.WriteString(")")
	case "incr":
		p := " 0"
		if n.Pre {
			p = " 1"
		}
		sb.WriteString("(incr " + n.Op + p)
		kids()
		sb.WriteString(")")
	case "index":
		sb.WriteString("(index " + hx.HexS(n.S))
		kids()
		sb.WriteString(")")
	case "in", "multiin":
		sb.WriteString("(in " + hx.HexS(n.S))
		kids()
		sb.WriteString(")")
	case "call":
		sb.WriteString("(call " + n.Op)
		kids()
		sb.WriteString(")")
	case "ucall":
		sb.WriteString("(usercall " + hx.HexS(n.S))
		kids()
		sb.WriteString(")")
	case "getline":
		sb.WriteString("(getline")
		kids()
		sb.WriteString(")")
	default:
		panic("sx: kind " + n.K)
	}
}

func (n *N) SX() string {
	var sb strings.Builder
	n.sx(&sb)
	return sb.String()
}

// ---- the POSIX table (level: higher binds tighter) ----

const (
	lvAssign  = 1 // = += -= *= /= %= ^=   right-assoc; also `cmd | getline [lvalue]` (looser than ?:'s condition level)
	lvCond    = 2 // ?:   right-assoc
	lvOr      = 3 // ||   left
	lvAnd     = 4 // &&   left
	lvIn      = 5 // in   left
	lvMatch   = 6 // ~ !~ non-assoc
	lvCmp     = 7 // < <= != == > >= non-assoc; also the simple getline forms (`getline < file`)
	lvConcat  = 8 // left
	lvAdd     = 9 // + -  left
	lvMul     = 10
	lvUnary   = 11 // + - !
	lvPow     = 12 // ^ right-assoc
	lvIncr    = 13 // ++ --
	lvField   = 14 // $
	lvPrimary = 15 // grouping, literals, variables, indexing, calls
)

var binLevel = map[string]int{
	"or": lvOr, "and": lvAnd, "match": lvMatch, "notmatch": lvMatch,
	"lt": lvCmp, "le": lvCmp, "eq": lvCmp, "ne": lvCmp, "gt": lvCmp, "ge": lvCmp,
	"concat": lvConcat, "add": lvAdd, "sub": lvAdd, "mul": lvMul, "div": lvMul, "mod": lvMul, "pow": lvPow,
}
var binText = map[string]string{
	"or": "||", "and": "&&", "match": "~", "notmatch": "!~", "lt": "<", "le": "<=", "eq": "==", "ne": "!=",
	"gt": ">", "ge": ">=", "concat": "", "add": "+", "sub": "-", "mul": "*", "div": "/", "mod": "%", "pow": "^",
}
var unText = map[string]string{"not": "!", "add": "+", "sub": "-"}
var incText = map[string]string{"incr": "++", "decr": "--"}

func (n *N) level() int {
	switch n.K {
	case "assign", "augassign":
		return lvAssign
	case "cond":
		return lvCond
	case "binary":
		return binLevel[n.Op]
	case "in", "multiin":
		return lvIn
	case "unary":
		return lvUnary
	case "incr":
		return lvIncr
	case "field":
		return lvField
	case "getline":
		if n.Kids[0] != nil {
			return lvAssign
		}
		return lvCmp
	}
	return lvPrimary
}

// required level of the operand in slot i (0 = an lvalue slot: rendered by lval, never parenthesised;
// -1 = enclosed by brackets/parentheses of the construct itself)
func (n *N) slotLevel(i int) int {
	switch n.K {
	case "assign", "augassign":
		if i == 0 {
			return 0
		}
		return lvAssign
	case "cond":
		if i == 0 {
			return lvOr
		}
		return lvCond
	case "binary":
		l := binLevel[n.Op]
		switch n.Op {
		case "match", "notmatch", "lt", "le", "eq", "ne", "gt", "ge": // non-associative
			return l + 1
		case "pow": // right-associative
			if i == 0 {
				return l + 1
			}
			return l
		default: // left-associative
			if i == 0 {
				return l
			}
			return l + 1
		}
	case "in":
		return lvIn
	case "unary":
		return lvUnary
	case "incr":
		return 0
	case "field":
		return lvField
	case "getline":
		switch i {
		case 0:
			// the property only says that `cmd | getline` binds looser than concatenation; how it
			// relates to ?: is left open, so a ?: command is parenthesised
			return lvOr
		case 1:
			return 0
		default:
			return lvPrimary
		}
	}
	return -1 // multiin, index, call, ucall: enclosed
}

// ---- printers ----

type printer struct {
	full  bool // pp_full
	none  bool // no parentheses at all (correspondence only)
	print bool // print-argument context: an exposed `>` comparison or `cmd | getline` must be parenthesised
}

func (p *printer) list(out *[]string, kids []*N) {
	for i, k := range kids {
		if i > 0 {
			*out = append(*out, ",")
		}
		p.expr(out, k, lvAssign, false)
	}
}

// operand: child c in a slot requiring level req; exposed = not enclosed by any bracket so far
func (p *printer) expr(out *[]string, c *N, req int, exposed bool) {
	if c.Raw {
		p.node(out, c, false)
		return
	}
	paren := false
	switch {
	case p.none:
	case p.full:
		paren = req != -2 // -2: top level
	default:
		paren = req > 0 && c.level() < req
	}
	if !p.none && !paren && exposed && p.print {
		if (c.K == "binary" && c.Op == "gt") || (c.K == "getline" && c.Kids[0] != nil) {
			paren = true
		}
	}
	if paren {
		*out = append(*out, "(")
		p.node(out, c, false)
		*out = append(*out, ")")
	} else {
		p.node(out, c, exposed)
	}
}

func (p *printer) lval(out *[]string, c *N, exposed bool) {
	switch c.K {
	case "var":
		*out = append(*out, c.S)
	case "index":
		*out = append(*out, c.S, "[")
		p.list(out, c.Kids)
		*out = append(*out, "]")
	case "field":
		*out = append(*out, "$")
		p.expr(out, c.Kids[0], lvField, exposed)
	default:
		// not an lvalue (only in deliberately ill-formed correspondence cases)
		p.expr(out, c, lvPrimary, exposed)
	}
}

func (p *printer) node(out *[]string, n *N, exposed bool) {
	sub := func(i int) {
		req := n.slotLevel(i)
		if req == 0 {
			p.lval(out, n.Kids[i], exposed)
		} else {
			p.expr(out, n.Kids[i], req, exposed)
		}
	}
	switch n.K {
	case "num", "var":
		*out = append(*out, n.S)
	case "str":
		*out = append(*out, strconv.Quote(n.S))
	case "regex", "strregex":
		*out = append(*out, "/"+n.S+"/")
	case "field":
		p.lval(out, n, exposed)
	case "index":
		p.lval(out, n, exposed)
	case "unary":
		*out = append(*out, unText[n.Op])
		sub(0)
	case "binary":
		sub(0)
		if t := binText[n.Op]; t != "" {
			*out = append(*out, t)
		}
		if (n.Op == "match" || n.Op == "notmatch") && n.Kids[1].K == "strregex" {
			*out = append(*out, "/"+n.Kids[1].S+"/")
		} else {
			sub(1)
		}
	case "cond":
		sub(0)
		*out = append(*out, "?")
		sub(1)
		*out = append(*out, ":")
		sub(2)
	case "assign":
		sub(0)
		*out = append(*out, "=")
		sub(1)
	case "augassign":
		sub(0)
		*out = append(*out, binText[n.Op]+"=")
		sub(1)
	case "incr":
		if n.Pre {
			*out = append(*out, incText[n.Op])
			sub(0)
		} else {
			sub(0)
			*out = append(*out, incText[n.Op])
		}
	case "in":
		sub(0)
		*out = append(*out, "in", n.S)
	case "multiin":
		*out = append(*out, "(")
		p.list(out, n.Kids)
		*out = append(*out, ")", "in", n.S)
	case "call":
		if n.Op == "length" && len(n.Kids) == 0 {
			*out = append(*out, "length")
			return
		}
		*out = append(*out, n.Op+"(")
		p.list(out, n.Kids)
		*out = append(*out, ")")
	case "ucall":
		*out = append(*out, n.S+"(")
		p.list(out, n.Kids)
		*out = append(*out, ")")
	case "getline":
		if n.Kids[0] != nil {
			sub(0)
			*out = append(*out, "|")
		}
		*out = append(*out, "getline")
		if n.Kids[1] != nil {
			p.lval(out, n.Kids[1], exposed)
		}
		if n.Kids[2] != nil {
			*out = append(*out, "<")
			sub(2)
		}
	default:
		panic("node: kind " + n.K)
	}
}

// render an expression at the top level of a context
func render(n *N, full, none, print bool) string {
	p := &printer{full: full, none: none, print: print}
	var out []string
	p.expr(&out, n, -2, true)
	return strings.Join(out, " ")
}

// ---- well-formedness: the trees for which the property makes a claim ----

func isLvalueKind(n *N) bool { return n != nil && (n.K == "var" || n.K == "index" || n.K == "field") }

// first token of the minimal rendering
func firstPiece(n *N, print bool) string {
	p := &printer{print: print}
	var out []string
	p.node(&out, n, false)
	return out[0]
}

// wf: lvalue slots hold lvalues; the right operand of concatenation starts with a token that
// can only start an operand (not + - ++ -- or a regex literal, which after an operand are
// binary/postfix operators or division); a bare regex literal is not the right operand of ~
// (there it denotes the dynamic-regex string, node strregex) and the right operand of ~ does
// not start with a regex literal; getline targets are lvalues.
func wf(n *N) bool {
	if n == nil {
		return true
	}
	for _, k := range n.Kids {
		if !wf(k) {
			return false
		}
	}
	switch n.K {
	case "assign", "augassign", "incr":
		if !isLvalueKind(n.Kids[0]) {
			return false
		}
	case "getline":
		if n.Kids[1] != nil && !isLvalueKind(n.Kids[1]) {
			return false
		}
	case "strregex":
		return true
	case "binary":
		if n.Op == "concat" {
			r := n.Kids[1]
			if r.level() >= lvAdd { // rendered without parentheses
				switch f := firstPiece(r, false); {
				case f == "+" || f == "-" || f == "++" || f == "--" || strings.HasPrefix(f, "/"):
					return false
				}
			}
		}
		if n.Op == "match" || n.Op == "notmatch" {
			r := n.Kids[1]
			if r.K == "regex" {
				return false
			}
			if r.K != "strregex" && r.level() >= lvCmp && strings.HasPrefix(firstPiece(r, false), "/") {
				return false
			}
		} else {
			for _, k := range n.Kids {
				if k.K == "strregex" {
					return false
				}
			}
		}
	}
	if n.K != "binary" && n.K != "call" {
		for _, k := range n.Kids {
			if k != nil && k.K == "strregex" {
				return false
			}
		}
	}
	return true
}

// ---- input classes of the two deviations found in the pinned tree ----
// (F-C04-1/2, trailing ?: before a print redirection: repaired by fix c6e5509, still generated and
// watched under their own class; F-C04-3, $$x++: deliberate, known finding)

// the rendering of n (not parenthesised at this position) ends with the false branch of an
// unparenthesised ?:
func endsInBareCond(n *N, full bool) bool {
	if n.K == "cond" {
		return true
	}
	if full {
		return false // every operand is parenthesised
	}
	last := -1
	switch n.K {
	case "binary", "assign", "augassign":
		last = 1
	case "unary":
		last = 0
	case "incr":
		if n.Pre {
			last = 0
		}
	case "field":
		last = 0
	}
	if last < 0 {
		return false
	}
	c := n.Kids[last]
	if n.K == "binary" && (n.Op == "match" || n.Op == "notmatch") && c.K == "strregex" {
		return false
	}
	req := n.slotLevel(last)
	if req == 0 {
		if c.K == "field" {
			return endsInBareCond(c, full)
		}
		return false
	}
	if c.level() < req {
		return false
	}
	return endsInBareCond(c, full)
}

// contains x++ / x-- applied to $ of an unparenthesised $-expression ($$1++)
func hasPostIncrOfFieldOfField(n *N) bool {
	if n == nil {
		return false
	}
	if n.K == "incr" && !n.Pre && n.Kids[0].K == "field" && n.Kids[0].Kids[0].K == "field" {
		return true
	}
	for _, k := range n.Kids {
		if hasPostIncrOfFieldOfField(k) {
			return true
		}
	}
	return false
}

func (n *N) depth() int {
	if n == nil {
		return 0
	}
	d := 0
	for _, k := range n.Kids {
		if x := k.depth(); x > d {
			d = x
		}
	}
	return d + 1
}

func (n *N) ops() int {
	if n == nil {
		return 0
	}
	c := 0
	switch n.K {
	case "num", "str", "var", "regex", "strregex":
	default:
		c = 1
	}
	for _, k := range n.Kids {
		c += k.ops()
	}
	return c
}

func (n *N) rootName() string {
	if n.Op != "" {
		return n.K + ":" + n.Op
	}
	return n.K
}

var _ = fmt.Sprintf
