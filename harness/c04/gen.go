// Case generation: exhaustive operator pairs (and triples) in every nesting position, random
// deeper trees, and ill-formed writings / token soups for the correspondence check.
package main

import (
	"strings"

	"github.com/benhoyt/goawk/lexer"
	"verif/harness/hx"
)

// an operator = a tree constructor with operand slots ('e' expression, 'l' lvalue, 'r' right operand of ~)
type opSpec struct {
	name  string
	slots string
	build func(k []*N) *N
}

func bin(op string) opSpec {
	sl := "ee"
	if op == "match" || op == "notmatch" {
		sl = "er"
	}
	return opSpec{"binary:" + op, sl, func(k []*N) *N { return &N{K: "binary", Op: op, Kids: k} }}
}

var ops []opSpec
var anyBuiltin int // round-robin over the built-in functions

func init() {
	for _, op := range []string{"or", "and", "match", "notmatch", "lt", "le", "eq", "ne", "gt", "ge", "concat", "add", "sub", "mul", "div", "mod", "pow"} {
		ops = append(ops, bin(op))
	}
	for _, op := range []string{"not", "sub", "add"} {
		op := op
		ops = append(ops, opSpec{"unary:" + op, "e", func(k []*N) *N { return &N{K: "unary", Op: op, Kids: k} }})
	}
	ops = append(ops, opSpec{"cond", "eee", func(k []*N) *N { return &N{K: "cond", Kids: k} }})
	ops = append(ops, opSpec{"assign", "le", func(k []*N) *N { return &N{K: "assign", Kids: k} }})
	for _, op := range []string{"add", "sub", "mul", "div", "mod", "pow"} {
		op := op
		ops = append(ops, opSpec{"augassign:" + op, "le", func(k []*N) *N { return &N{K: "augassign", Op: op, Kids: k} }})
	}
	for _, op := range []string{"incr", "decr"} {
		op := op
		ops = append(ops, opSpec{"pre" + op, "l", func(k []*N) *N { return &N{K: "incr", Op: op, Pre: true, Kids: k} }})
		ops = append(ops, opSpec{"post" + op, "l", func(k []*N) *N { return &N{K: "incr", Op: op, Kids: k} }})
	}
	ops = append(ops,
		opSpec{"field", "e", func(k []*N) *N { return &N{K: "field", Kids: k} }},
		opSpec{"index", "e", func(k []*N) *N { return &N{K: "index", S: "arr", Kids: k} }},
		opSpec{"index2", "ee", func(k []*N) *N { return &N{K: "index", S: "arr", Kids: k} }},
		opSpec{"in", "e", func(k []*N) *N { return &N{K: "in", S: "arr", Kids: k} }},
		opSpec{"multiin", "ee", func(k []*N) *N { return &N{K: "multiin", S: "brr", Kids: k} }},
		opSpec{"call:int", "e", func(k []*N) *N { return &N{K: "call", Op: "int", Kids: k} }},
		opSpec{"call:length", "e", func(k []*N) *N { return &N{K: "call", Op: "length", Kids: k} }},
		opSpec{"call:atan2", "ee", func(k []*N) *N { return &N{K: "call", Op: "atan2", Kids: k} }},
		opSpec{"call:substr", "eee", func(k []*N) *N { return &N{K: "call", Op: "substr", Kids: k} }},
		opSpec{"ucall1", "e", func(k []*N) *N { return &N{K: "ucall", S: "f", Kids: k} }},
		opSpec{"builtin:any", "e", func(k []*N) *N {
			ns := builtinNames()
			anyBuiltin++
			return builtinCall(ns[anyBuiltin%len(ns)], k[0])
		}},
		opSpec{"ucall2", "ee", func(k []*N) *N { return &N{K: "ucall", S: "f", Kids: k} }},
		opSpec{"cmd|getline", "e", func(k []*N) *N { return &N{K: "getline", Kids: []*N{k[0], nil, nil}} }},
		opSpec{"cmd|getline-var", "el", func(k []*N) *N { return &N{K: "getline", Kids: []*N{k[0], k[1], nil}} }},
		opSpec{"getline-var", "l", func(k []*N) *N { return &N{K: "getline", Kids: []*N{nil, k[0], nil}} }},
		opSpec{"getline<file", "e", func(k []*N) *N { return &N{K: "getline", Kids: []*N{nil, nil, k[0]}} }},
		opSpec{"getline-var<file", "le", func(k []*N) *N { return &N{K: "getline", Kids: []*N{nil, k[0], k[1]}} }},
	)
}

// a well-formed call of the built-in function `name` (argument shapes as parser.primary requires
// them; a built-in this table does not know gets the one-argument form)
func builtinCall(name string, arg *N) *N {
	re := func() *N { return &N{K: "strregex", S: "re", Raw: true} }
	arr := func() *N { return &N{K: "var", S: "arr", Raw: true} }
	str := func(s string) *N { return &N{K: "str", S: s} }
	num := func(s string) *N { return &N{K: "num", S: s} }
	switch name {
	case "sub", "gsub":
		return &N{K: "call", Op: name, Kids: []*N{re(), arg}}
	case "split":
		return &N{K: "call", Op: name, Kids: []*N{arg, arr()}}
	case "match":
		return &N{K: "call", Op: name, Kids: []*N{arg, re()}}
	case "rand":
		return &N{K: "call", Op: name, Kids: []*N{}}
	case "substr":
		return &N{K: "call", Op: name, Kids: []*N{arg, num("1")}}
	case "sprintf":
		return &N{K: "call", Op: name, Kids: []*N{str("%s"), arg}}
	case "atan2", "index":
		return &N{K: "call", Op: name, Kids: []*N{arg, num("2")}}
	}
	return &N{K: "call", Op: name, Kids: []*N{arg}} // srand fflush length cos sin exp log sqrt int tolower toupper system close
}

// every built-in function token of the CURRENT lexer (FIRST_FUNC..LAST_FUNC)
func builtinNames() []string {
	var ns []string
	for t := lexer.FIRST_FUNC; t <= lexer.LAST_FUNC; t++ {
		ns = append(ns, t.String())
	}
	return ns
}

// every kind of operand that can be the 2nd or 3rd operand of a juxtaposition: one tree per token
// that can start it (all built-ins, user call, $, !, NAME, NUMBER, STRING, "(" via an operand that
// needs parentheses, getline forms (parenthesised), and - + ++ -- which the grammar reads otherwise:
// those are not well-formed and only feed the correspondence)
func starters() []*N {
	v := func(s string) *N { return &N{K: "var", S: s} }
	n1 := &N{K: "num", S: "1"}
	var st []*N
	for _, b := range builtinNames() {
		st = append(st, builtinCall(b, v("y")))
	}
	st = append(st,
		&N{K: "call", Op: "length"},
		&N{K: "ucall", S: "f", Kids: []*N{v("y")}},
		&N{K: "field", Kids: []*N{n1}},
		&N{K: "field", Kids: []*N{{K: "field", Kids: []*N{n1}}}},
		&N{K: "unary", Op: "not", Kids: []*N{v("y")}},
		&N{K: "unary", Op: "sub", Kids: []*N{v("y")}},
		&N{K: "unary", Op: "add", Kids: []*N{v("y")}},
		&N{K: "incr", Op: "incr", Pre: true, Kids: []*N{v("y")}},
		&N{K: "incr", Op: "decr", Pre: true, Kids: []*N{v("y")}},
		&N{K: "incr", Op: "incr", Kids: []*N{v("y")}},
		v("y"), &N{K: "index", S: "arr", Kids: []*N{n1}}, n1, &N{K: "str", S: "s"}, &N{K: "regex", S: "ab"},
		&N{K: "cond", Kids: []*N{v("y"), n1, v("z")}},
		&N{K: "binary", Op: "lt", Kids: []*N{v("y"), n1}},
		&N{K: "assign", Kids: []*N{v("y"), n1}},
		&N{K: "multiin", S: "brr", Kids: []*N{n1, v("y")}},
		&N{K: "in", S: "arr", Kids: []*N{v("y")}},
		&N{K: "getline", Kids: []*N{nil, nil, nil}},
		&N{K: "getline", Kids: []*N{nil, v("y"), nil}},
		&N{K: "getline", Kids: []*N{nil, nil, &N{K: "str", S: "file"}}},
		&N{K: "getline", Kids: []*N{&N{K: "str", S: "cmd"}, nil, nil}},
		&N{K: "binary", Op: "pow", Kids: []*N{v("y"), n1}},
		&N{K: "binary", Op: "mul", Kids: []*N{v("y"), n1}},
		&N{K: "binary", Op: "add", Kids: []*N{v("y"), n1}},
	)
	return st
}

// the systematic adjacency set: every starter as 2nd operand, as 3rd operand and in the middle of
// a juxtaposition, after each kind of left operand
func adjacencyTrees() []*N {
	cat := func(a, b *N) *N { return &N{K: "binary", Op: "concat", Kids: []*N{a, b}} }
	lefts := func() []*N {
		return []*N{{K: "var", S: "x"}, {K: "num", S: "2"}, {K: "str", S: "t"},
			{K: "call", Op: "int", Kids: []*N{{K: "var", S: "x"}}}, {K: "field", Kids: []*N{{K: "num", S: "2"}}}}
	}
	var ts []*N
	for _, s := range starters() {
		for _, l := range lefts() {
			ts = append(ts, cat(l, s))
		}
		l := lefts()
		ts = append(ts, cat(cat(l[0], l[1]), s), cat(cat(l[0], s), l[2]), cat(cat(l[2], s), s))
	}
	return ts
}

var (
	leafNums = []string{"1", "2", "3", "0.5", "10"}
	leafStrs = []string{"s", "t", "file", ""}
	leafVars = []string{"x", "y", "z", "NF"}
)

func leaf(r *hx.Rand, slot byte, i int) *N {
	switch slot {
	case 'l':
		switch r.Intn(4) {
		case 0:
			return &N{K: "index", S: "arr", Kids: []*N{{K: "num", S: "1"}}}
		case 1:
			return &N{K: "field", Kids: []*N{{K: "num", S: "1"}}}
		}
		return &N{K: "var", S: leafVars[(i+r.Intn(2))%3]}
	case 'r':
		if r.Intn(2) == 0 {
			return &N{K: "strregex", S: "re"}
		}
	}
	switch r.Intn(12) {
	case 0, 1, 2, 3:
		return &N{K: "num", S: r.Pick(leafNums)}
	case 4, 5:
		return &N{K: "str", S: r.Pick(leafStrs)}
	case 6:
		return &N{K: "regex", S: "ab"}
	case 7:
		return &N{K: "call", Op: "length"}
	case 8:
		return &N{K: "getline", Kids: []*N{nil, nil, nil}}
	}
	return &N{K: "var", S: r.Pick(leafVars)}
}

// fits: can the tree t stand in a slot of that kind
func slotAccepts(slot byte, t *N) bool {
	if slot == 'l' {
		return isLvalueKind(t)
	}
	return true
}

func mk(r *hx.Rand, o opSpec, fill map[int]*N) *N {
	k := make([]*N, len(o.slots))
	for i := range k {
		if t, ok := fill[i]; ok {
			k[i] = t
		} else {
			k[i] = leaf(r, o.slots[i], i)
		}
	}
	return o.build(k)
}

// every pair op1[op2] in every slot
func genPairs(r *hx.Rand, emit func(*N, string)) {
	for _, a := range ops {
		for i := range a.slots {
			for _, b := range ops {
				inner := mk(r, b, nil)
				if !slotAccepts(a.slots[i], inner) {
					continue
				}
				emit(mk(r, a, map[int]*N{i: inner}), "pair")
			}
		}
	}
}

// triples: chains a[b[c]] in every slot pair, and a[b, c] in two different slots of a
func genTriples(r *hx.Rand, sample int, emit func(*N, string)) {
	keep := func() bool { return sample <= 0 || r.Intn(sample) == 0 }
	for _, a := range ops {
		for i := range a.slots {
			for _, b := range ops {
				for j := range b.slots {
					for _, c := range ops {
						if !keep() {
							continue
						}
						ci := mk(r, c, nil)
						if !slotAccepts(b.slots[j], ci) {
							continue
						}
						bi := mk(r, b, map[int]*N{j: ci})
						if !slotAccepts(a.slots[i], bi) {
							continue
						}
						emit(mk(r, a, map[int]*N{i: bi}), "triple-chain")
					}
				}
				for i2 := i + 1; i2 < len(a.slots); i2++ {
					for _, c := range ops {
						if !keep() {
							continue
						}
						bi, ci := mk(r, b, nil), mk(r, c, nil)
						if !slotAccepts(a.slots[i], bi) || !slotAccepts(a.slots[i2], ci) {
							continue
						}
						emit(mk(r, a, map[int]*N{i: bi, i2: ci}), "triple-fork")
					}
				}
			}
		}
	}
}

// all chains a[b[c]] over the tightly binding operators (always run: prefix/postfix operators meet here)
func genTightTriples(r *hx.Rand, emit func(*N, string)) {
	tight := map[string]bool{"unary:sub": true, "unary:not": true, "preincr": true, "postincr": true, "field": true,
		"index": true, "binary:pow": true, "binary:concat": true, "binary:gt": true, "cond": true}
	var sub []opSpec
	for _, o := range ops {
		if tight[o.name] {
			sub = append(sub, o)
		}
	}
	for _, a := range sub {
		for i := range a.slots {
			for _, b := range sub {
				for j := range b.slots {
					for _, c := range sub {
						ci := mk(r, c, nil)
						if !slotAccepts(b.slots[j], ci) {
							continue
						}
						bi := mk(r, b, map[int]*N{j: ci})
						if !slotAccepts(a.slots[i], bi) {
							continue
						}
						emit(mk(r, a, map[int]*N{i: bi}), "tight-triple")
					}
				}
			}
		}
	}
}

func randTree(r *hx.Rand, depth int, slot byte) *N {
	if depth <= 0 || r.Intn(7) == 0 {
		return leaf(r, slot, r.Intn(3))
	}
	for {
		o := ops[r.Intn(len(ops))]
		k := make([]*N, len(o.slots))
		for i := range k {
			k[i] = randTree(r, depth-1-r.Intn(2), o.slots[i])
		}
		t := o.build(k)
		if slotAccepts(slot, t) {
			return t
		}
		if slot == 'l' && r.Intn(3) == 0 {
			return leaf(r, slot, 0)
		}
	}
}

var soupAlphabet = strings.Fields(`x y arr 1 2 "s" /re/ + - * / % ^ ! ++ -- $ ( ) [ ] , ? : = += /= == != < <= > >= ~ !~ && || in | getline length int( f( >> @`)

func genCases(o hx.Opts, r *hx.Rand) []*kase {
	var cases []*kase
	ctxs := []string{"plain", "print", "pattern", "cond", "printf"}
	id := 0
	add := func(c *kase) {
		c.id = id
		id++
		cases = append(cases, c)
	}
	// one tree -> its writings in a context
	emitIn := func(t *N, origin, ctx string) {
		isPrint := ctx == "print" || ctx == "printf"
		good := wf(t)
		minR := render(t, false, false, isPrint)
		if strings.Contains(" "+minR+" ", " length ( ") {
			good = false // `length (` is the call with arguments, not concatenation
		}
		class := "grouping/" + ctx + "/" + t.rootName()
		if hasPostIncrOfFieldOfField(t) {
			class = "post-increment of $ of an unparenthesised $-expression"
		}
		nl := r.Intn(8) == 0 // newlines are allowed after && || , ? :
		for _, form := range []string{"min", "full", "none"} {
			body := render(t, form == "full", form == "none", isPrint)
			exp := ""
			var wrap string
			switch ctx {
			case "plain":
				wrap = body
				exp = "(expr " + t.SX() + ")"
			case "print":
				wrap = "print " + body
				exp = "(print none nil " + t.SX() + ")"
			case "printf":
				wrap = "printf " + body
				exp = "(printf none nil " + t.SX() + ")"
			case "cond":
				wrap = "( " + body + " )"
				exp = "(if " + t.SX() + ")"
			case "pattern":
				wrap = body
				exp = "(pattern " + t.SX() + ")"
			}
			if nl {
				for _, op := range []string{" && ", " || ", " , ", " ? ", " : "} {
					wrap = strings.ReplaceAll(wrap, op, op+"\n ")
				}
			}
			src, mode, skip := program(ctx, wrap)
			c := &kase{ctx: ctx, mode: mode, src: src, skip: skip, form: form, tree: t, class: class}
			if isPrint {
				c.printCheck, c.pclass = true, "print-exposed/"+origin+"/"+t.rootName()
			}
			if good && form != "none" {
				c.expect = exp
			}
			add(c)
		}
		_ = origin
	}
	nctx := 0
	emit := func(t *N, origin string) {
		emitIn(t, origin, ctxs[nctx%4])
		nctx++
	}
	emitAll := func(t *N, origin string) {
		for _, c := range ctxs[:4] {
			emitIn(t, origin, c)
		}
	}

	thorough := o.Tier == "thorough"
	genTightTriples(r, emit)
	if thorough {
		genPairs(r, emitAll)
		genTriples(r, 0, emit)
	} else {
		genPairs(r, emit)
		genTriples(r, 150, emit)
	}
	nrand := o.N
	if nrand == 0 {
		nrand = 1500
		if thorough {
			nrand = 150000
		}
	}
	for i := 0; i < nrand; i++ {
		emit(randTree(r, 2+r.Intn(7), 'e'), "random")
	}

	exposeClass := "" // set by the systematic family below
	// one print/printf statement in its three writings
	emitPrint := func(kw string, args []*N, redir string, dest *N, parenList, good bool) {
		redirName := map[string]string{"": "none", ">": "gt", ">>": "append", "|": "pipe"}[redir]
		for _, form := range []string{"min", "full", "none"} {
			var parts []string
			for _, a := range args {
				parts = append(parts, render(a, form == "full", form == "none", true))
			}
			body := strings.Join(parts, " , ")
			ok := good
			for _, p := range parts {
				if form == "min" && strings.Contains(" "+p+" ", " length ( ") {
					ok = false
				}
			}
			if parenList {
				body = "( " + body + " )"
			}
			stmt := kw + " " + body
			exp := "(" + kw + " " + redirName + " "
			if redir != "" {
				// the destination is a concatenation-level expression (common usage; lower levels parenthesised)
				p := &printer{full: form == "full", none: form == "none"}
				var out []string
				p.expr(&out, dest, lvConcat, false)
				ds := strings.Join(out, " ")
				if form == "min" && strings.Contains(" "+ds+" ", " length ( ") {
					ok = false
				}
				stmt += " " + redir + " " + ds
				exp += dest.SX()
			} else {
				exp += "nil"
			}
			for _, a := range args {
				exp += " " + a.SX()
			}
			exp += ")"
			src, mode, skip := program(kw, stmt)
			class := "print-statement/" + kw + "/redirect:" + redirName
			last := args[len(args)-1]
			if redir != "" && !parenList && endsInBareCond(last, form == "full") {
				class = "print " + redir + " after an argument ending in an unparenthesised ?:"
			}
			for _, a := range args {
				if hasPostIncrOfFieldOfField(a) {
					class = "post-increment of $ of an unparenthesised $-expression"
				}
			}
			c := &kase{ctx: kw, mode: mode, src: src, skip: skip, form: "stmt-" + form, class: class}
			if !parenList {
				c.printCheck, c.pclass = true, "print-exposed/"+kw+"-statement/"+args[len(args)-1].rootName()
				if exposeClass != "" {
					c.pclass = "print-exposed/" + exposeClass
				}
			}
			if ok && form != "none" {
				c.expect = exp
			}
			add(c)
		}
	}

	// print / printf statements: several arguments, optional parentheses around the list, redirections
	nprint := nrand / 2
	for i := 0; i < nprint; i++ {
		nargs := 1 + r.Intn(3)
		var args []*N
		good := true
		for j := 0; j < nargs; j++ {
			d := 1 + r.Intn(3)
			var t *N
			if j == nargs-1 && r.Intn(3) == 0 { // last argument ends in ?: (the shape of F-C04-1)
				t = &N{K: "cond", Kids: []*N{randTree(r, d, 'e'), randTree(r, d, 'e'), randTree(r, d, 'e')}}
				if r.Intn(3) == 0 {
					t = &N{K: "assign", Kids: []*N{leaf(r, 'l', 0), t}}
				}
			} else {
				t = randTree(r, d, 'e')
			}
			good = good && wf(t)
			args = append(args, t)
		}
		kw := "print"
		if r.Intn(4) == 0 {
			kw = "printf"
		}
		redir := []string{"", ">", ">>", "|"}[r.Intn(4)]
		dest := randTree(r, r.Intn(2), 'e')
		good = good && wf(dest)
		parenList := nargs > 1 && r.Intn(4) == 0
		emitPrint(kw, args, redir, dest, parenList, good)
	}

	// the systematic adjacency set (always run): every operand starter as 2nd / 3rd operand of a
	// juxtaposition in every context: plain, print and printf argument without and with each
	// redirection, pattern, condition, subscript, user-call and built-in-call argument
	for _, t := range adjacencyTrees() {
		emitAll(t, "adjacency")
		emitIn(t, "adjacency", "printf")
		emitIn(&N{K: "index", S: "arr", Kids: []*N{t}}, "adjacency-subscript", "plain")
		emitIn(&N{K: "index", S: "arr", Kids: []*N{{K: "num", S: "1"}, t}}, "adjacency-subscript", "cond")
		emitIn(&N{K: "ucall", S: "f", Kids: []*N{t, {K: "var", S: "z"}}}, "adjacency-callarg", "plain")
		emitIn(&N{K: "call", Op: "int", Kids: []*N{t}}, "adjacency-callarg", "pattern")
		emitIn(&N{K: "assign", Kids: []*N{{K: "var", S: "s"}, t}}, "adjacency-assign", "plain")
		g := wf(t)
		for _, rd := range []string{">", ">>", "|"} {
			emitPrint("print", []*N{t}, rd, &N{K: "str", S: "file"}, false, g)
		}
		emitPrint("printf", []*N{{K: "str", S: "%s"}, t}, ">", &N{K: "str", S: "file"}, false, g)
		emitPrint("print", []*N{{K: "var", S: "z"}, t}, "", nil, true, g)
	}

	// > and `cmd | getline` at EVERY operand position of every operator, inside print / printf
	// arguments, written without and with parentheses (always run).  Without parentheses the parser
	// must not build a comparison / pipe-getline from them (printOracle); with them both writings
	// must give the tree (oracle); verdict and tree are compared with the model in every case.
	{
		v := func(s string) *N { return &N{K: "var", S: s} }
		xs := func() []*N {
			return []*N{
				{K: "binary", Op: "gt", Kids: []*N{v("x"), {K: "num", S: "1"}}},
				{K: "getline", Kids: []*N{{K: "str", S: "cmd"}, nil, nil}},
				{K: "getline", Kids: []*N{{K: "str", S: "cmd"}, v("y"), nil}},
			}
		}
		xname := []string{"gt", "cmd|getline", "cmd|getline-var"}
		str := func(s string) *N { return &N{K: "str", S: s} }
		for _, a := range ops {
			for i := range a.slots {
				for xi := range xs() {
					x := xs()[xi]
					if !slotAccepts(a.slots[i], x) {
						continue
					}
					t := mk(r, a, map[int]*N{i: x})
					g := wf(t)
					exposeClass = a.name + ":operand" + string(rune('1'+i)) + "/" + xname[xi]
					emitPrint("print", []*N{t}, "", nil, false, g)
					emitPrint("print", []*N{{K: "num", S: "1"}, t}, "", nil, false, g)
					emitPrint("print", []*N{t, v("z")}, ">", str("file"), false, g)
					emitPrint("print", []*N{t}, "|", str("cat"), false, g)
					emitPrint("printf", []*N{str("%s"), t}, "", nil, false, g)
				}
			}
		}
		// one level deeper, over the operators of the print-argument grammar
		tower := map[string]bool{"cond": true, "binary:or": true, "binary:and": true, "in": true, "binary:match": true,
			"binary:lt": true, "binary:concat": true, "binary:add": true, "binary:mul": true, "binary:pow": true,
			"unary:not": true, "unary:sub": true, "field": true, "assign": true}
		var sub []opSpec
		for _, o := range ops {
			if tower[o.name] {
				sub = append(sub, o)
			}
		}
		for _, a := range sub {
			for i := range a.slots {
				for _, b := range sub {
					for j := range b.slots {
						for xi := range xs() {
							x := xs()[xi]
							if !slotAccepts(b.slots[j], x) {
								continue
							}
							inner := mk(r, b, map[int]*N{j: x})
							if !slotAccepts(a.slots[i], inner) {
								continue
							}
							t := mk(r, a, map[int]*N{i: inner})
							exposeClass = a.name + ":operand" + string(rune('1'+i)) + "/" + b.name + ":operand" + string(rune('1'+j)) + "/" + xname[xi]
							emitPrint("print", []*N{t}, "", nil, false, wf(t))
						}
					}
				}
			}
		}
		exposeClass = ""
	}

	// token soups and mutated writings (correspondence only)
	nsoup := nrand
	for i := 0; i < nsoup; i++ {
		var pieces []string
		if r.Intn(2) == 0 {
			n := 1 + r.Intn(10)
			for j := 0; j < n; j++ {
				pieces = append(pieces, r.Pick(soupAlphabet))
			}
		} else {
			t := randTree(r, 1+r.Intn(4), 'e')
			pieces = strings.Fields(render(t, r.Intn(3) == 0, r.Intn(2) == 0, false))
			for m := 1 + r.Intn(2); m > 0 && len(pieces) > 0; m-- {
				p := r.Intn(len(pieces))
				switch r.Intn(3) {
				case 0:
					pieces = append(pieces[:p], pieces[p+1:]...)
				case 1:
					pieces[p] = r.Pick(soupAlphabet)
				default:
					pieces = append(pieces[:p], append([]string{r.Pick(soupAlphabet)}, pieces[p:]...)...)
				}
			}
		}
		if len(pieces) == 0 {
			continue
		}
		body := strings.Join(pieces, " ")
		ctx := ctxs[r.Intn(4)]
		wrap := body
		switch ctx {
		case "print":
			wrap = "print " + body
		case "cond":
			wrap = "( " + body + " )"
		}
		src, mode, skip := program(ctx, wrap)
		add(&kase{ctx: ctx, mode: mode, src: src, skip: skip, form: "soup"})
	}
	return cases
}
