// C04 harness: expressions group by the POSIX precedence and associativity table.
//
// Correspondence: the tree built by goawk's parser (parser.VerifC04ParseOnly = lexer + the
// recursive-descent functions of parser.go; cross-checked against ParseProgram + VerifDumpAST)
// versus the extracted Coq model (rocq/Model/ExprParser.v) on the same token list, which is
// produced here with goawk's lexer.Scan / ScanRegex.
// Search oracle (implementation only, the property verbatim): for generated trees e,
// strip(parse(pp_min e)) = strip(parse(pp_full e)) = e, in plain / print-argument / pattern /
// condition contexts; in print context an unparenthesised > (>> |) after the arguments redirects.
package main

import (
	"encoding/json"
	"fmt"
	"os"
	"regexp"
	"strconv"
	"strings"

	"github.com/benhoyt/goawk/lexer"
	"github.com/benhoyt/goawk/parser"
	"verif/harness/hx"
)

// ---------- S-expressions ----------

type sx struct {
	atom string
	kids []*sx
	list bool
}

func parseSX(s string) (*sx, error) {
	pos := 0
	var rec func() (*sx, error)
	rec = func() (*sx, error) {
		for pos < len(s) && s[pos] == ' ' {
			pos++
		}
		if pos >= len(s) {
			return nil, fmt.Errorf("eof")
		}
		if s[pos] == '(' {
			pos++
			n := &sx{list: true}
			for {
				for pos < len(s) && s[pos] == ' ' {
					pos++
				}
				if pos >= len(s) {
					return nil, fmt.Errorf("unclosed")
				}
				if s[pos] == ')' {
					pos++
					return n, nil
				}
				k, err := rec()
				if err != nil {
					return nil, err
				}
				n.kids = append(n.kids, k)
			}
		}
		st := pos
		for pos < len(s) && s[pos] != ' ' && s[pos] != '(' && s[pos] != ')' {
			pos++
		}
		return &sx{atom: s[st:pos]}, nil
	}
	n, err := rec()
	if err != nil {
		return nil, err
	}
	return n, nil
}

func (n *sx) write(sb *strings.Builder) {
	if !n.list {
		sb.WriteString(n.atom)
		return
	}
	sb.WriteString("(")
	for i, k := range n.kids {
		if i > 0 {
			sb.WriteString(" ")
		}
		k.write(sb)
	}
	sb.WriteString(")")
}
func (n *sx) String() string {
	var sb strings.Builder
	n.write(&sb)
	return sb.String()
}
func (n *sx) head() string {
	if n.list && len(n.kids) > 0 && !n.kids[0].list {
		return n.kids[0].atom
	}
	return ""
}

// remove every (group X) node
func stripGroups(n *sx) *sx {
	if !n.list {
		return n
	}
	if n.head() == "group" && len(n.kids) == 2 {
		return stripGroups(n.kids[1])
	}
	m := &sx{list: true}
	for _, k := range n.kids {
		m.kids = append(m.kids, stripGroups(k))
	}
	return m
}

func stripString(s string) string {
	n, err := parseSX(s)
	if err != nil {
		return "unparsable:" + s
	}
	return stripGroups(n).String()
}

// ---------- lexing with goawk's lexer ----------

var noRegexAfter = map[lexer.Token]bool{
	lexer.NAME: true, lexer.NUMBER: true, lexer.STRING: true, lexer.REGEX: true, lexer.RPAREN: true,
	lexer.RBRACKET: true, lexer.INCR: true, lexer.DECR: true, lexer.F_LENGTH: true, lexer.GETLINE: true,
}

// lexWords scans src with lexer.Scan; a DIV / DIV_ASSIGN token in a position where the parser asks
// for an operand (the previous token cannot end an operand) is followed by lexer.ScanRegex, as
// parser.primary / regexStr do, and delivered as one r:<hex> word.  ok=false if the lexer reports
// ILLEGAL anywhere (such sources are not used).
func lexWords(src string) (words []string, toks []lexer.Token, ok bool) {
	lx := lexer.NewLexer([]byte(src))
	prev := lexer.ILLEGAL
	for {
		_, tok, val := lx.Scan()
		if tok == lexer.EOF {
			return words, toks, true
		}
		if tok == lexer.ILLEGAL {
			return nil, nil, false
		}
		if (tok == lexer.DIV || tok == lexer.DIV_ASSIGN) && !noRegexAfter[prev] {
			_, tok, val = lx.ScanRegex()
			if tok == lexer.ILLEGAL {
				return nil, nil, false
			}
			// parser.nextRegex rejects a regex that Go's regexp cannot compile; regexp is not modelled
			if _, err := regexp.Compile("(?s:" + val + ")"); err != nil {
				return nil, nil, false
			}
		}
		var w string
		switch {
		case tok == lexer.NEWLINE:
			w = "NL"
		case tok == lexer.LPAREN:
			if lx.HadSpace() {
				w = "_("
			} else {
				w = "("
			}
		case tok == lexer.NAME:
			w = "n:" + hx.HexS(val)
		case tok == lexer.NUMBER:
			w = "d:" + hx.HexS(val)
		case tok == lexer.STRING:
			w = "s:" + hx.HexS(val)
		case tok == lexer.REGEX:
			w = "r:" + hx.HexS(val)
		case tok >= lexer.FIRST_FUNC && tok <= lexer.LAST_FUNC:
			w = "f:" + tok.String()
		case tok == lexer.GETLINE || tok == lexer.IN || tok == lexer.PRINT || tok == lexer.PRINTF:
			w = tok.String()
		case tok >= lexer.BEGIN && tok <= lexer.WHILE:
			w = "k:" + strconv.Itoa(int(tok))
		default:
			w = tok.String()
		}
		words = append(words, w)
		toks = append(toks, tok)
		prev = tok
	}
}

// ---------- one case ----------

type kase struct {
	ctx    string // plain print printf pattern cond
	mode   string // stmt cond pattern (model entry point)
	src    string // complete program text
	skip   int    // number of leading tokens not sent to the model
	form   string // min full none mut soup
	tree   *N     // nil for soups
	expect string // canonical expected dump for min/full forms of wf trees ("" = no claim)
	class  string
	id     int
	// print/printf statement whose argument list is not parenthesised as a whole: the parser must
	// not build a > comparison or a `cmd | getline` from tokens outside parentheses/brackets
	printCheck bool
	pclass     string
}

const funcDef = "\nfunction f(a, b, c) { }\n"

// wrap an expression rendering into a program for a context
func program(ctx, body string) (src, mode string, skip int) {
	switch ctx {
	case "plain", "print", "printf":
		return "BEGIN { " + body + " }" + funcDef, "stmt", 2
	case "cond":
		return "BEGIN { if " + body + " x }" + funcDef, "cond", 3
	case "pattern":
		return body + " { }" + funcDef, "pattern", 0
	}
	panic(ctx)
}

// implementation: parser only
func implParse(src string) (dump string, err error, pan any) {
	defer func() {
		if r := recover(); r != nil {
			pan = r
		}
	}()
	dump, err = parser.VerifC04ParseOnly([]byte(src))
	return
}

var (
	reVar  = regexp.MustCompile(`\((var|index|in) ([0-9a-f-]+) -?\d+ -?\d+ -?\d+`)
	reCall = regexp.MustCompile(`\(usercall ([0-9a-f-]+) \d+ -?\d+`)
	reStr0 = regexp.MustCompile(`\(str ([0-9a-f-]+) 0\)`)
	reStr1 = regexp.MustCompile(`\(str ([0-9a-f-]+) 1\)`)
	reNum  = regexp.MustCompile(`\(num ([0-9a-f-]+)\)`)
)

// the same piece of the tree out of ParseProgram + VerifDumpAST, in VerifC04ParseOnly's format
func fullPipeline(src, mode string) (string, bool) {
	prog, err := parser.ParseProgram([]byte(src), nil)
	if err != nil {
		return "", false
	}
	d := prog.VerifDumpAST(false)
	d = reVar.ReplaceAllString(d, "($1 $2")
	d = reCall.ReplaceAllString(d, "(usercall $1")
	d = reStr0.ReplaceAllString(d, "(str $1)")
	d = reStr1.ReplaceAllString(d, "(strregex $1)")
	n, err := parseSX(d)
	if err != nil || len(n.kids) < 3 {
		return "bad-dump", true
	}
	defer func() { recover() }()
	switch mode {
	case "stmt", "cond":
		st := n.kids[1].kids[1].kids[0]
		if mode == "cond" {
			return "(begin (if " + st.kids[1].String() + "))", true
		}
		return "(begin " + st.String() + ")", true
	default:
		pats := n.kids[2].kids[1].kids[1]
		var sb strings.Builder
		sb.WriteString("(pattern")
		for _, k := range pats.kids {
			sb.WriteString(" " + k.String())
		}
		sb.WriteString(")")
		return sb.String(), true
	}
}

// model answers carry number literals as text: convert as parser.primary does
func modelNums(s string) string {
	return reNum.ReplaceAllStringFunc(s, func(m string) string {
		h := reNum.FindStringSubmatch(m)[1]
		return "(num " + numBits(string(hx.UnHex(h))) + ")"
	})
}

func implAnswer(c *kase) string {
	dump, err, pan := implParse(c.src)
	switch {
	case pan != nil:
		return fmt.Sprintf("panic %v", pan)
	case err != nil:
		return "err"
	}
	if strings.HasPrefix(dump, "(begin ") {
		dump = dump[len("(begin ") : len(dump)-1]
	}
	return "ok " + dump
}

// ---------- main ----------

func main() {
	o := hx.ParseFlags()
	if o.Replay != "" {
		os.Exit(replay(o))
	}
	rep := hx.NewReport("C04", o.Seed, o.Tier)
	rep.Rule = "distinct = distinct program texts; non-trivial = accepted by the parser and containing at least two operators"
	// hx.NewRand(s) and hx.NewRand(s+1) are the same stream shifted by one draw: spread the seeds first
	z := o.Seed + 0x9E3779B97F4A7C15
	z = (z ^ (z >> 30)) * 0xBF58476D1CE4E5B9
	z = (z ^ (z >> 27)) * 0x94D049BB133111EB
	r := hx.NewRand(z ^ (z >> 31))
	cases := genCases(o, r)

	// model answers in one batch
	var lines []string
	var idx []int
	for i, c := range cases {
		words, _, ok := lexWords(c.src)
		if !ok {
			rep.Count("skipped:lexer-illegal-or-invalid-regex")
			continue
		}
		if c.skip > len(words) {
			rep.HarnessError("case %d: fewer tokens than the context prefix: %q", i, c.src)
			continue
		}
		lines = append(lines, c.mode+" "+strings.Join(words[c.skip:], " "))
		idx = append(idx, i)
	}
	answers, err := hx.ModelEval(o.ModelRun, lines)
	if err != nil {
		rep.HarnessError("%v", err)
		rep.Write(o.Out)
		return
	}

	for j, i := range idx {
		c := cases[i]
		impl := implAnswer(c)
		model := answers[j]
		rep.CorrEvals++
		rep.Count("ctx:" + c.ctx + "/" + c.form)
		switch {
		case model == "unmod":
			rep.Unmodelled++
			continue
		case model == "fuel" || strings.HasPrefix(model, "driver-error"):
			rep.HarnessError("model answered %q on %q", model, c.src)
			continue
		}
		if strings.HasPrefix(model, "ok ") {
			model = modelNums(model)
		}
		if model != impl {
			rep.Mismatch(hx.Mismatch{Class: c.ctx + "/" + c.form, Input: c.src, Impl: impl, Model: model, Note: lines[j]})
			continue
		}
		if strings.HasPrefix(impl, "ok ") {
			if c.tree == nil || c.tree.ops() >= 2 {
				rep.Distinct(c.src)
			}
			rep.Count("result:ok")
			// ParseProgram (parser + resolver + compiler) yields the same tree
			if fp, ok := fullPipeline(c.src, c.mode); ok {
				want := "(begin " + impl[3:] + ")"
				if c.mode == "pattern" {
					want = impl[3:]
				}
				if fp != want {
					rep.Mismatch(hx.Mismatch{Class: "ParseProgram-vs-parser-only", Input: c.src, Impl: fp, Model: want})
				}
				rep.Count("pipeline:resolved")
			} else {
				rep.Count("pipeline:rejected-after-parsing")
			}
			rep.Sample(map[string]string{"src": strings.TrimSuffix(c.src, funcDef), "tree": impl[3:]})
		} else {
			rep.Count("result:" + strings.Fields(impl)[0])
		}
	}

	// search oracle on the implementation alone
	for _, c := range cases {
		if c.printCheck {
			rep.SearchEvals++
			if f := printOracle(c); f != nil {
				rep.Fail(*f)
			}
		}
		if c.expect == "" {
			continue
		}
		rep.SearchEvals++
		if f := oracle(c); f != nil {
			rep.Fail(*f)
		}
	}
	rep.Exhaustive = false
	rep.Write(o.Out)
	fmt.Printf("c04: %d cases, %d corr, %d mismatches, %d search, %d failures\n", len(cases), rep.CorrEvals, len(rep.Mismatches), rep.SearchEvals, len(rep.Failures))
}

// the property's equation on one case: the parser accepts the writing and, grouping nodes
// removed, yields exactly the tree that was written
func oracle(c *kase) *hx.Failure {
	impl := implAnswer(c)
	got := impl
	if strings.HasPrefix(impl, "ok ") {
		got = stripString(impl[3:])
	}
	if got == c.expect {
		return nil
	}
	return &hx.Failure{Class: c.class, Oracle: "strip(parse(pp e)) = e", Detail: map[string]any{
		"program": c.src, "context": c.ctx, "writing": c.form, "expected": c.expect, "got": impl,
	}}
}

// exposedInPrint walks a print argument as the parser built it and reports a > comparison or a
// `cmd | getline` that is not enclosed by a grouping node, a subscript or a call argument list:
// the property says that inside print/printf an unparenthesised > is a redirection, never a
// comparison, and the print grammar has no unparenthesised `cmd | getline`.
func exposedInPrint(n *sx) string {
	if !n.list || len(n.kids) == 0 {
		return ""
	}
	switch n.head() {
	case "group", "index", "call", "usercall", "multi":
		return ""
	case "in":
		if len(n.kids) != 3 { // (i, j) in a: the subscripts are parenthesised
			return ""
		}
	case "binary":
		if len(n.kids) > 1 && n.kids[1].atom == "gt" {
			return "a > comparison"
		}
	case "getline":
		if len(n.kids) > 1 && !(n.kids[1].atom == "nil" && !n.kids[1].list) {
			return "a `cmd | getline`"
		}
	}
	for _, k := range n.kids {
		if r := exposedInPrint(k); r != "" {
			return r
		}
	}
	return ""
}

func printOracle(c *kase) *hx.Failure {
	impl := implAnswer(c)
	if !strings.HasPrefix(impl, "ok ") {
		return nil
	}
	n, err := parseSX(impl[3:])
	if err != nil || len(n.kids) < 3 || (n.head() != "print" && n.head() != "printf") {
		return nil
	}
	for _, a := range n.kids[3:] {
		if what := exposedInPrint(a); what != "" {
			return &hx.Failure{Class: c.pclass, Oracle: "inside print an unparenthesised > or | is never an operator of an argument", Detail: map[string]any{
				"program": c.src, "context": c.ctx, "writing": c.form,
				"expected": "a syntax error or a tree whose print arguments hold no unparenthesised > comparison / cmd | getline",
				"got":      impl, "found": what + " outside parentheses in a print argument",
			}}
		}
	}
	return nil
}

func replay(o hx.Opts) int {
	b, err := os.ReadFile(o.Replay)
	if err != nil {
		fmt.Println(err)
		return 2
	}
	var doc struct {
		Failure struct {
			Class  string         `json:"class"`
			Detail map[string]any `json:"detail"`
		} `json:"failure"`
	}
	if err := json.Unmarshal(b, &doc); err != nil || doc.Failure.Detail == nil {
		fmt.Println("replay file has no failure.detail (tie broken without a failing input?)")
		return 2
	}
	src, _ := doc.Failure.Detail["program"].(string)
	exp, _ := doc.Failure.Detail["expected"].(string)
	c := &kase{src: src}
	if found, _ := doc.Failure.Detail["found"].(string); found != "" {
		c.pclass = doc.Failure.Class
		f := printOracle(c)
		fmt.Printf("program:  %s\nexpected: %s\ngot:      %s\n", strings.TrimSuffix(src, funcDef), exp, implAnswer(c))
		if f != nil {
			fmt.Println("still fails:", f.Detail["found"])
			return 1
		}
		fmt.Println("passes now")
		return 0
	}
	impl := implAnswer(c)
	got := impl
	if strings.HasPrefix(impl, "ok ") {
		got = stripString(impl[3:])
	}
	fmt.Printf("program:  %s\nexpected: %s\ngot:      %s\n", strings.TrimSuffix(src, funcDef), exp, got)
	if got != exp {
		fmt.Println("still fails")
		return 1
	}
	fmt.Println("passes now")
	return 0
}
