package main

import (
	"fmt"
	"strings"

	"verif/harness/hx"
)

// ---------- generated AWK source ----------
//
// The generators write SOURCE TEXT level by level along goawk's grammar, so that nearly every text
// is accepted; what tree the parser builds from it is the parser's business (the oracle compares
// parse(s) with parse(String(parse s)), it never needs the intended tree). Tokens are separated by
// single spaces in the source (the printer normalises spacing anyway), except name( of a call.

type kase struct {
	src  []byte
	kind string // generator family, for the histogram
}

type gen struct {
	r      *hx.Rand
	inLoop int
	inFunc bool
	inAct  bool
	defect bool // allow the shapes of the known defects (unary-unary adjacency, multi with >)
}

var scalarNames = []string{"x", "y", "z", "n", "i", "NF", "NR", "s_1", "_t", "Inf", "e", "E5", "x1"}
var arrayNames = []string{"a", "b", "arr", "A_2"}
var userFuncs = []string{"f", "g", "h_1"}

func (g *gen) pick(xs ...string) string { return xs[g.r.Intn(len(xs))] }
func (g *gen) chance(pct int) bool      { return g.r.Intn(100) < pct }

var numbers = []string{"0", "1", "2", "10", "1.5", ".5", "0.25", "1e3", "1E3", "1e+3", "1.5e-7", "123456789", "1234567.5",
	"100000.5", "0.000123456789", "1e30", "1e-30", "9007199254740993", "9223372036854775807", "9223372036854775808",
	"18446744073709551616", "1e308", "4.9e-324", "1e", "1.5e", "3.", "1e22", "0x1A", "010", "1e5x", "0.1", "0.3", "2.5e-5",
	"123456.5", "999999.5", "9999995", "0.00001", "0.0001", "1e-5", "99999.95"}

func (g *gen) number() string { return g.pick(numbers...) }

var plainStrings = []string{`""`, `"a"`, `"hello world"`, `"%s\n"`, `"a\"b"`, `"back\\slash"`, `"tab\there"`, `"\/"`, `"/"`, `"'"`,
	`"\x41\x7f\x01"`, `"\101\7\08"`, `"caf\xc3\xa9"`, `"é"`, `"日本"`, `"\a\b\f\n\r\t\v"`, `"\z\q"`, `"a/b\/c"`, `"#not comment"`,
	`"x;y}z"`, `"\xff\xfe"`, `"ét"`, `"%5.2f|%-5d|%c"`, `"\x1b[0m"`, `'single'`, `"\0"`, `"\x00b"`}

func (g *gen) str() string { return g.pick(plainStrings...) }

var regexes = []string{`/x/`, `/a+b*/`, `/^[a-z]+$/`, `/a\/b/`, `/\//`, `/\\/`, `/\\\//`, `/\./`, `/[0-9]+\.[0-9]*/`, `/=x/`, `/=/`, `/a|b/`,
	`/(a)(b)/`, `/\(x\)/`, `/é+/`, `/ /`, `/"q"/`, `/a\"b/`, `/[\/]/`, `/\t\n/`, `/x{2,3}/`, `/#/`, `/a;b/`, `/\$1/`}

func (g *gen) regex() string { return g.pick(regexes...) }

func (g *gen) scalar() string { return g.pick(scalarNames...) }
func (g *gen) array() string  { return g.pick(arrayNames...) }

func (g *gen) lvalue(d int) string {
	switch g.r.Intn(6) {
	case 0, 1, 2:
		return g.scalar()
	case 3:
		return g.array() + " [ " + g.exprList(d-1, 1+g.r.Intn(2)) + " ]"
	default:
		return "$ " + g.primary(d-1, false)
	}
}

func (g *gen) exprList(d, n int) string {
	parts := make([]string, n)
	for i := range parts {
		parts[i] = g.expr(0, d, false)
	}
	return strings.Join(parts, " , ")
}

var builtin1 = []string{"cos", "sin", "exp", "log", "sqrt", "int", "tolower", "toupper", "system", "close"}

func (g *gen) call(d int) string {
	e := func() string { return g.expr(0, d-1, false) }
	re := func() string {
		if g.chance(60) {
			return g.regex()
		}
		return e()
	}
	switch g.r.Intn(16) {
	case 0:
		return g.pick(builtin1...) + "( " + e() + " )"
	case 1:
		return g.pick("atan2", "index") + "( " + e() + " , " + e() + " )"
	case 2:
		return "length"
	case 3:
		return "length( )"
	case 4:
		return "length( " + e() + " )"
	case 5:
		return g.pick("sub", "gsub") + "( " + re() + " , " + e() + " )"
	case 6:
		return g.pick("sub", "gsub") + "( " + re() + " , " + e() + " , " + g.lvalue(d-1) + " )"
	case 7:
		if g.chance(50) {
			return "split( " + e() + " , " + g.array() + " )"
		}
		return "split( " + e() + " , " + g.array() + " , " + re() + " )"
	case 8:
		return "match( " + e() + " , " + re() + " )"
	case 9:
		if g.chance(50) {
			return "substr( " + e() + " , " + e() + " )"
		}
		return "substr( " + e() + " , " + e() + " , " + e() + " )"
	case 10:
		return "sprintf( " + g.exprList(d-1, 1+g.r.Intn(3)) + " )"
	case 11:
		return g.pick("rand( )", "srand( )", "fflush( )", "srand( "+e()+" )", "fflush( "+e()+" )")
	default:
		// user call: no space before (
		n := g.r.Intn(3)
		return g.pick(userFuncs...) + "( " + g.exprList(d-1, n) + " )"
	}
}

// primary(): operands, $, @, grouping, calls, getline forms
func (g *gen) primary(d int, pc bool) string {
	if d <= 0 {
		switch g.r.Intn(5) {
		case 0:
			return g.number()
		case 1:
			return g.str()
		default:
			return g.scalar()
		}
	}
	switch g.r.Intn(22) {
	case 0, 1:
		return g.number()
	case 2, 3:
		return g.str()
	case 4:
		return g.regex()
	case 5, 6, 7:
		return g.scalar()
	case 8:
		return g.array() + " [ " + g.exprList(d-1, 1+g.r.Intn(3)) + " ]"
	case 9, 10:
		return "$ " + g.primary(d-1, false)
	case 11:
		if g.chance(30) {
			return `@ "name"`
		}
		return "$ " + g.pick("-", "!", "+", "++", "--") + " " + g.scalar()
	case 12, 13, 14:
		return "( " + g.expr(0, d-1, false) + " )"
	case 15, 16:
		return g.call(d)
	case 17:
		return "( " + g.exprList(d-1, 2+g.r.Intn(2)) + " ) in " + g.array()
	case 18:
		// getline forms
		switch g.r.Intn(4) {
		case 0:
			return "getline"
		case 1:
			return "getline " + g.lvalue(d-1)
		case 2:
			return "getline < " + g.primary(d-1, false)
		default:
			return "getline " + g.lvalue(d-1) + " < " + g.primary(d-1, false)
		}
	case 19:
		return "( " + g.expr(1, d-1, false) + " | getline" + g.pick("", " "+g.scalar()) + " )"
	default:
		return g.scalar()
	}
}

// levels: 0 assign, 1 getline/cond, 2 or, 3 and, 4 in, 5 match, 6 compare, 7 concat, 8 add, 9 mul,
// 10 unary, 11 pow, 12 incr, 13 primary.  pc: inside the print tower (no bare > and no | getline)
func (g *gen) expr(level, d int, pc bool) string {
	if d <= 0 || level >= 13 {
		return g.primary(d, pc)
	}
	// choose the level of the top operator
	k := level + g.r.Intn(14-level)
	if g.chance(25) {
		k = 13
	}
	switch k {
	case 0:
		op := g.pick("=", "=", "+=", "-=", "*=", "/=", "%=", "^=", "**=")
		return g.lvalue(d-1) + " " + op + " " + g.expr(0, d-1, pc)
	case 1:
		if !pc && g.chance(25) {
			return g.expr(2, d-1, false) + " | getline" + g.pick("", " "+g.lvalue(d-1))
		}
		return g.expr(2, d-1, pc) + " ? " + g.expr(g.pick01(), d-1, false) + " : " + g.expr(g.pick01(), d-1, false)
	case 2:
		return g.expr(2, d-1, pc) + " || " + g.expr(3, d-1, pc)
	case 3:
		return g.expr(3, d-1, pc) + " && " + g.expr(4, d-1, pc)
	case 4:
		return g.expr(4, d-1, pc) + " in " + g.array()
	case 5:
		r := g.expr(6, d-1, pc)
		if g.chance(50) {
			r = g.regex()
		}
		return g.expr(6, d-1, pc) + " " + g.pick("~", "!~") + " " + r
	case 6:
		ops := []string{"==", "!=", "<", "<=", ">=", ">"}
		if pc {
			ops = ops[:5]
		}
		return g.expr(7, d-1, pc) + " " + g.pick(ops...) + " " + g.expr(7, d-1, pc)
	case 7:
		return g.expr(7, d-1, pc) + " " + g.expr(8, d-1, pc)
	case 8:
		return g.expr(8, d-1, pc) + " " + g.pick("+", "-") + " " + g.expr(9, d-1, pc)
	case 9:
		return g.expr(9, d-1, pc) + " " + g.pick("*", "/", "%") + " " + g.expr(10, d-1, pc)
	case 10:
		op := g.pick("-", "+", "!")
		inner := g.expr(10, d-1, pc)
		if !g.defect && op != "!" && (strings.HasPrefix(inner, op)) {
			// the adjacency defect (F-C20-1) has its own generator; keep random programs mostly clear of it
			if g.chance(90) {
				inner = "( " + inner + " )"
			}
		}
		return op + " " + inner
	case 11:
		return g.expr(12, d-1, pc) + " " + g.pick("^", "**") + " " + g.expr(10, d-1, pc)
	case 12:
		if g.chance(50) {
			return g.pick("++", "--") + " " + g.lvalue(d-1)
		}
		return g.lvalue(d-1) + " " + g.pick("++", "--")
	default:
		return g.primary(d, pc)
	}
}

func (g *gen) pick01() int {
	if g.chance(25) {
		return 0
	}
	return 1
}

func (g *gen) simpleStmt(d int) string {
	switch g.r.Intn(12) {
	case 0, 1, 2, 3:
		kw := g.pick("print", "print", "printf")
		n := g.r.Intn(4)
		if kw == "printf" && n == 0 {
			n = 1
		}
		var args string
		switch {
		case n > 0 && g.chance(25):
			args = "( " + g.exprListPC(d, n, false) + " )" // parenthesised list: parsed with expr()
		default:
			args = g.exprListPC(d, n, true)
		}
		redir := ""
		switch g.r.Intn(8) {
		case 0:
			redir = " > " + g.expr(7, d-1, false)
		case 1:
			redir = " >> " + g.expr(7, d-1, false)
		case 2:
			redir = " | " + g.expr(7, d-1, false)
		case 3:
			redir = " > " + g.expr(0, d-1, false)
		}
		return kw + " " + args + redir
	case 4:
		if g.chance(40) {
			return "delete " + g.array()
		}
		return "delete " + g.array() + " [ " + g.exprList(d-1, 1+g.r.Intn(2)) + " ]"
	default:
		return g.expr(0, d, false)
	}
}

func (g *gen) exprListPC(d, n int, pc bool) string {
	parts := make([]string, n)
	for i := range parts {
		e := g.expr(0, d-1, pc)
		if !pc && !g.defect {
			// inside print ( ... ): an unparenthesised > or | getline is the known defect F-C20-2
			if exposedText(e) {
				e = "( " + e + " )"
			}
		}
		parts[i] = e
	}
	return strings.Join(parts, " , ")
}

// crude, conservative: does the text contain " > " or "| getline" outside parentheses / brackets
func exposedText(e string) bool {
	depth := 0
	ws := strings.Fields(e)
	for i, w := range ws {
		switch {
		case strings.HasSuffix(w, "(") || w == "[":
			depth++
		case w == ")" || w == "]":
			depth--
		case depth == 0 && (w == ">" || (w == "|" && i+1 < len(ws) && ws[i+1] == "getline")):
			return true
		}
	}
	return false
}

func (g *gen) body(d int) string {
	switch g.r.Intn(6) {
	case 0:
		return ";"
	case 1:
		return "{ }"
	case 2, 3:
		return g.stmt(d - 1)
	default:
		return "{ " + g.stmtList(d-1, 1+g.r.Intn(3)) + " }"
	}
}

func (g *gen) stmtList(d, n int) string {
	var sb strings.Builder
	for i := 0; i < n; i++ {
		s := g.stmt(d)
		sb.WriteString(s)
		if strings.HasSuffix(s, "}") && g.chance(50) {
			sb.WriteString(" ")
		} else {
			sb.WriteString(g.pick(" ; ", "\n", " ;\n", "\n\n"))
		}
	}
	return sb.String()
}

func (g *gen) stmt(d int) string {
	if d <= 0 {
		return g.simpleStmt(1)
	}
	switch g.r.Intn(20) {
	case 0, 1:
		s := "if ( " + g.expr(0, d, false) + " ) " + g.body(d)
		if g.chance(50) {
			if !strings.HasSuffix(s, "}") && !strings.HasSuffix(s, ";") {
				s += " ;"
			}
			s += " else " + g.body(d)
		}
		return s
	case 2:
		g.inLoop++
		defer func() { g.inLoop-- }()
		pre, cond, post := "", "", ""
		if g.chance(70) {
			pre = g.simpleStmt(d - 1)
			if strings.Contains(pre, " in ") && !strings.Contains(pre, "(") {
				pre = "i = 0"
			}
		}
		if g.chance(70) {
			cond = g.expr(0, d-1, false)
		}
		if g.chance(70) {
			post = g.simpleStmt(d - 1)
		}
		return "for ( " + pre + " ; " + cond + " ; " + post + " ) " + g.body(d)
	case 3:
		g.inLoop++
		defer func() { g.inLoop-- }()
		return "for ( " + g.scalar() + " in " + g.array() + " ) " + g.body(d)
	case 4:
		g.inLoop++
		defer func() { g.inLoop-- }()
		return "while ( " + g.expr(0, d, false) + " ) " + g.body(d)
	case 5:
		g.inLoop++
		defer func() { g.inLoop-- }()
		b := g.body(d)
		if !strings.HasSuffix(b, "}") && !strings.HasSuffix(b, ";") {
			b += " ;"
		}
		return "do " + b + " while ( " + g.expr(0, d, false) + " )"
	case 6:
		if g.inLoop > 0 {
			return g.pick("break", "continue")
		}
		return g.simpleStmt(d)
	case 7:
		if g.inAct || g.inFunc {
			return g.pick("next", "nextfile")
		}
		return g.simpleStmt(d)
	case 8:
		if g.chance(50) {
			return "exit"
		}
		return "exit " + g.expr(0, d-1, false)
	case 9:
		if g.inFunc {
			if g.chance(40) {
				return "return"
			}
			return "return " + g.expr(0, d-1, false)
		}
		return g.simpleStmt(d)
	case 10:
		return "{ " + g.stmtList(d-1, g.r.Intn(3)) + " }"
	default:
		return g.simpleStmt(d)
	}
}

func (g *gen) program(d int) string {
	var items []string
	n := 1 + g.r.Intn(4)
	for i := 0; i < n; i++ {
		switch g.r.Intn(8) {
		case 0, 1:
			g.inAct, g.inFunc = false, false
			items = append(items, "BEGIN { "+g.stmtList(d, g.r.Intn(4))+" }")
		case 2:
			g.inAct, g.inFunc = false, false
			items = append(items, "END { "+g.stmtList(d, g.r.Intn(3))+" }")
		case 3:
			g.inAct, g.inFunc = false, true
			name := g.pick(userFuncs...)
			params := []string{"", "p", "p , q", "p , q , r_"}[g.r.Intn(4)]
			items = append(items, "function "+name+"( "+params+" ) { "+g.stmtList(d, g.r.Intn(4))+" }")
			g.inFunc = false
		default:
			g.inAct, g.inFunc = true, false
			pat := ""
			switch g.r.Intn(5) {
			case 0:
			case 1:
				pat = g.expr(0, d, false) + " , " + g.expr(0, d, false)
			case 2:
				pat = g.regex()
			default:
				pat = g.expr(0, d, false)
			}
			if pat != "" && g.chance(30) {
				items = append(items, pat)
			} else {
				items = append(items, strings.TrimSpace(pat+" { "+g.stmtList(d, g.r.Intn(4))+" }"))
			}
			g.inAct = false
		}
	}
	return strings.Join(items, g.pick("\n", " ; ", "\n\n"))
}

// ---------- systematic families ----------

func begin(stmt string) string { return "BEGIN { " + stmt + " }" }

// every prefix operator directly in front of every prefix operator / operand start, and every
// operand followed by every postfix / infix operator that starts with + or -
func adjacencyCases() []kase {
	var out []kase
	prefix := []string{"-", "+", "!", "++", "--", "$", "@"}
	operand := []string{"y", "1", "a [ 1 ]", "$ 1", "( y )", "\"s\"", "/re/", "f( )", "length", "getline", ".5", "y ++", "y ^ 2", "$ y ++", "1e3"}
	for _, p1 := range prefix {
		for _, p2 := range prefix {
			for _, o := range []string{"y", "$ 1", "a [ 1 ]", "1"} {
				out = append(out, kase{[]byte(begin("x = " + p1 + " " + p2 + " " + o)), "adjacency"})
				out = append(out, kase{[]byte(begin("x = 1 " + p1 + " " + p2 + " " + o)), "adjacency"})
			}
		}
		for _, o := range operand {
			out = append(out, kase{[]byte(begin("x = " + p1 + " " + o)), "adjacency"})
			out = append(out, kase{[]byte(begin("x = z " + p1 + " " + o)), "adjacency"})
			out = append(out, kase{[]byte(begin("x = 2 ^ " + p1 + " " + o)), "adjacency"})
			out = append(out, kase{[]byte(begin("print " + p1 + " " + o + " , " + p1 + " " + o)), "adjacency"})
		}
	}
	for _, p1 := range []string{"-", "+", "!"} {
		for _, p2 := range []string{"-", "+", "!"} {
			for _, p3 := range []string{"-", "+", "!", "++", "--"} {
				out = append(out, kase{[]byte(begin("x = " + p1 + " " + p2 + " " + p3 + " y")), "adjacency"})
			}
		}
	}
	infix := []string{"+", "-", "*", "/", "%", "^", "<", ">", "<=", ">=", "==", "!=", "~", "!~", "&&", "||", "", "in"}
	for _, op := range infix {
		for _, l := range []string{"y", "y ++", "y --", "$ y", "1", "( y )", "a [ 1 ]"} {
			for _, r := range []string{"z", "- z", "+ z", "! z", "++ z", "-- z", "$ z", "1", "- 1", "/re/", "( z )"} {
				if op == "in" {
					r = "a"
				}
				out = append(out, kase{[]byte(begin("x = " + l + " " + op + " " + r)), "adjacency"})
			}
		}
	}
	return out
}

// hand-written sources around every statement / expression form and the believed defects
var fixedSources = []string{
	`BEGIN { x = - -y }`, `BEGIN { x = + +y }`, `BEGIN { x = - --y }`, `BEGIN { x = + ++y }`, `BEGIN { x = 1 - -1 }`,
	`BEGIN { x = a - (-b) }`, `BEGIN { x = - 1 }`, `BEGIN { x = -1 }`, `BEGIN { x = !x ~ y }`, `BEGIN { x = $NF-1 }`,
	`BEGIN { x = -x^2 }`, `BEGIN { x = 2^-3 }`, `BEGIN { x = $x++ }`, `BEGIN { x = ($x)++ }`, `BEGIN { x = $$1++ }`,
	`BEGIN { x = a + + + b }`, `BEGIN { x = a - - - b }`, `BEGIN { x = - - - y }`, `BEGIN { x = -(-y) }`,
	`BEGIN { print (1, 2 > 1) }`, `BEGIN { printf("%d\n", 2 > 1) }`, `BEGIN { print (a, "cmd" | getline) }`,
	`BEGIN { print (1, a = 2 > 1) }`, `BEGIN { print (a > b, c) }`, `BEGIN { print (1, 2) > "/dev/null" }`,
	`BEGIN { print (1, (2 > 1)) }`, `BEGIN { print (1, 2 > 1 ? 3 : 4) }`, `BEGIN { print (1, x ~ y > z) }`,
	`BEGIN { print (1, 2 >= 1) }`, `BEGIN { print(1)(2) }`, `BEGIN { print (1)(2), 3 }`, `BEGIN { print (1,2) }`,
	`BEGIN { print 1 ? 2 : 3 > "f" }`, `BEGIN { print a ? b > c : d }`, `BEGIN { print a, b > c ? d : e }`,
	`BEGIN { print a > "x" "y" }`, `BEGIN { print > "x" }`, `BEGIN { print }`, `BEGIN { print a > b > c }`,
	`BEGIN { print a | "cmd" | getline }`, `BEGIN { print 1 > /=x/ }`, `BEGIN { print 1 >> "f" ; print 1 | "cat" }`,
	`BEGIN { printf "%s", a > "f" }`, `BEGIN { print a in b, (c, d) in e }`, `BEGIN { print -x > y }`,
	`BEGIN { x = 1e999 }`, `BEGIN { x = 1e308 * 10 ; y = 1e309 }`, `BEGIN { x = -1e999 }`,
	`BEGIN { x = "a" "b" | getline }`, `BEGIN { "c" | getline z }`, `BEGIN { getline < "f" "g" }`, `BEGIN { getline q < $1 }`,
	`BEGIN { getline x + 1 }`, `BEGIN { getline + 1 }`, `BEGIN { "cmd" | getline > 0 }`, `BEGIN { "cmd" | getline x y }`,
	`BEGIN { "cmd" | getline < "file" }`, `BEGIN { while ((getline line < "f") > 0) n++ }`, `BEGIN { getline x (y) }`,
	`BEGIN { getline x(y) }`, `BEGIN { getline < -x }`, `BEGIN { getline x < ++y }`, `BEGIN { getline < f (x) }`,
	`BEGIN { x = 1 + 2 | getline }`, `BEGIN { -x | getline }`, `BEGIN { getline a[1] ; getline $2 ; getline $ (x+1) < "f" }`,
	`BEGIN { x = y ~ /\// }`, `BEGIN { x = y ~ /=/ ; z = !/=a/ }`, `BEGIN { x = a / b / c }`, `BEGIN { x = a / /x/ }`,
	`BEGIN { x = 1 && y = 2 }`, `BEGIN { x = a ~ b = c }`, `BEGIN { x = a || b = c ? d : e }`, `BEGIN { x = a ? b : c = d }`,
	`BEGIN { x = a ? b = 1 : c }`, `BEGIN { x = a ? b : c ? d : e }`, `BEGIN { x = a ? b ? c : d : e }`, `BEGIN { x = (a ? b : c) ? d : e }`,
	`BEGIN { x = a in b in c }`, `BEGIN { x = !y in a }`, `BEGIN { x = (1,2) in a }`, `BEGIN { x = ((1,2) in a) in b }`,
	`BEGIN { x = y = z ; x += y -= z ; x ^= 2 ; x **= 2 ; x = y ** 2 }`, `BEGIN { $x = 1 ; $(x+1) = 2 ; $x++ ; ++$x ; $a[1]++ }`,
	`BEGIN { x = $-1 ; x = $!y ; x = $++y ; x = $$y ; x = @"n" ; x = $@"n" ; x = @$1 }`,
	`BEGIN { x = -y++ ; x = !y++ ; x = ++y ^ 2 ; x = 2 ^ ++y ; x = 2 ^ y++ ; x = 2 ^ !y ; x = -x ^ -y }`,
	`BEGIN { x = y++ + ++z ; x = y++ ++z ; x = y-- - --z ; x = y ++z }`,
	`BEGIN { x = length ; x = length() ; x = length(y) ; x = length y ; x = length + 1 }`,
	`BEGIN { x = f (y) ; x = f(y) ; x = a[1] (y) }`, `BEGIN { x = substr(s, 1, 2) ; sub(/a/, "b") ; gsub(/a/, "b", x) ; split(s, a, /,/) ; n = match(s, /x/) }`,
	`BEGIN { x = 1 2 ; x = 1 -2 ; x = 1 " " -2 ; x = "a" (-1) ; x = a b c ; x = a (b c) }`,
	`BEGIN { if (x) {} else {} }`, `BEGIN { if (x) ; else ; }`, `BEGIN { if (a) if (b) x ; else y }`, `BEGIN { if (a) { if (b) x } else y }`,
	`BEGIN { for (;;) ; }`, `BEGIN { for (;;) {} }`, `BEGIN { for (i = 0; i < 3; i++) print i }`, `BEGIN { for (k in a) ; }`,
	`BEGIN { for ((i in a);;) x }`, `BEGIN { for (x = i in a;;) x }`, `BEGIN { for (i in a;;) x }`, `BEGIN { for (print 1; ; print 2) break }`,
	`BEGIN { for (delete a; ; delete a[1]) break }`, `BEGIN { while (x) y }`, `BEGIN { do x ; while (y) }`, `BEGIN { do { x } while (y) }`,
	`BEGIN { do do x ; while (y) ; while (z) }`, `BEGIN { while (1) { break ; continue } }`, `BEGIN { exit ; exit 1 ; exit -1 }`,
	`BEGIN { delete a ; delete a[1] ; delete a[1, 2] }`, `BEGIN { { } { { x } } }`, `BEGIN { ; ; x ; ; }`,
	`function f(a, b) { return } function g() { return 1 } function h_1(x) { return /re/ }`,
	`function f(a) { next } function g(a) { nextfile }`, `{ next } { nextfile }`,
	`$1`, `$1, $2`, `/x/`, `/x/, /y/ { print }`, `$1 { }`, `{ }`, `$1 ; $2`, "$1\n{ print }", `BEGIN { } BEGIN { x } END { } END { y }`,
	`END { x } BEGIN { y } function f() { } $1`, `! /x/`, `x = 1`, `(x)`, `-1`, `a in b`, `(a, b) in c`, `"str"`, `getline`, `getline x { print }`,
	`NR == 1, NR == 2`, `x ? y : z`, `/a/ ~ /b/`, `$0 ~ "x" { print > "f" }`,
	"BEGIN { x = \"a\u200bab\" }", "BEGIN { x = \"a\u200b\" }", "BEGIN { x = \"a\u200bz\" }",
	"BEGIN { x = \"\u00adF\" }", "BEGIN { x = \"\U000e0001\" }", "BEGIN { x = \"\u0085\" ; y = \"\u2028\" ; z = \"\ufeff!\" }",
	"BEGIN { x = y ~ /a\\\nb/ }", "/a\\\nb/", "BEGIN { if (x) { y = /a\\\nb/ } }", "BEGIN { x = \"\u200b\" \"ab\" }",
	`BEGIN { x = 1e5x ; y = 1e ; z = 1.5e+ 3 ; w = 3. ; v = .5e1 }`, `BEGIN { x = 0x1A ; y = 010 }`,
	`BEGIN { print length x }`, `BEGIN { x = (getline) x ; y = (getline) < x }`, `BEGIN { x = "a" > "b" }`,
	`BEGIN { x[1] = 1 ; x[1,2] = 3 ; y = x[x[1]] }`, `BEGIN { x = y (z) ; w = y(z) }`, `BEGIN{x=1;y=2}`, "BEGIN {\n\tx = 1\n\n\ty = 2\n}\n",
	`BEGIN { x = a % b * c / d ; y = a - b - c ; z = a - (b - c) ; w = a ^ b ^ c ; v = (a ^ b) ^ c }`,
	`BEGIN { x = a < b ; y = (a < b) < c ; z = a < (b < c) ; w = a == b != c }`, `BEGIN { x = a ~ b ~ c }`,
	`BEGIN { x = !a == b ; y = !(a == b) ; z = - a * b ; w = -(a * b) ; v = !a b }`,
	`BEGIN { printf "%s" }`, `BEGIN { printf }`, `BEGIN { print a, }`, `BEGIN { x = }`, `BEGIN { x = 1 +* 2 }`,
}

// strings: every byte through every escape form, and runes of every printability class
func stringCases(r *hx.Rand) []kase {
	var out []kase
	add := func(lit string) { out = append(out, kase{[]byte("BEGIN { x = \"" + lit + "\" }"), "string"}) }
	for b := 0; b < 256; b++ {
		add(fmt.Sprintf("\\x%02x", b))
		add(fmt.Sprintf("a\\x%02xb", b))
		add(fmt.Sprintf("\\x%02x1", b)) // escape followed by a hex digit
		add(fmt.Sprintf("\\%o", b))
		add(fmt.Sprintf("\\%03o7", b))
		if b != 0 && b != '\n' && b != '\r' && b != '"' && b != '\\' {
			add(string([]byte{byte(b)}))                // the raw byte
			add(string([]byte{'a', byte(b), 'b', '0'})) // ... in context
			add("\\" + string([]byte{byte(b)}))         // backslash + the byte
		}
	}
	runes := []rune{0x80, 0x85, 0x9f, 0xa0, 0xa1, 0xad, 0xae, 0xff, 0x100, 0x378, 0x37a, 0x600, 0x61c, 0x6dd, 0x70f, 0x180e, 0x2000, 0x200a,
		0x200b, 0x200c, 0x200f, 0x2028, 0x2029, 0x202e, 0x2060, 0x2064, 0x206f, 0x3000, 0xd7ff, 0xe000, 0xf8ff, 0xfeff, 0xfff9, 0xfffb,
		0xfffd, 0xfffe, 0xffff, 0x10000, 0x1d173, 0x1d17a, 0x1f600, 0xe0001, 0xe0020, 0xe007f, 0xe0100, 0xf0000, 0x10fffd, 0x10ffff, 0x110bd, 0x13430}
	for i := 0; i < 40; i++ {
		runes = append(runes, rune(r.Intn(0x110000)))
	}
	for _, c := range runes {
		if c >= 0xd800 && c <= 0xdfff {
			continue
		}
		s := string(c)
		for _, tail := range []string{"", "a", "F", "0", "z", " ", "\\x41", s} {
			add(s + tail)
			add("q" + s + tail)
		}
	}
	// invalid UTF-8
	for _, s := range []string{"\xc3", "\xc3(", "\xe2\x82", "\xe2\x28\xa1", "\xf0\x9f\x98", "\xed\xa0\x80", "\xf4\x90\x80\x80", "\xc0\x80", "\xfe\xff", "a\x80b"} {
		add(s)
		add(s + "0")
	}
	for i := 0; i < 200; i++ {
		n := 1 + r.Intn(8)
		var sb strings.Builder
		for j := 0; j < n; j++ {
			switch r.Intn(8) {
			case 0:
				sb.WriteString(fmt.Sprintf("\\x%02x", r.Intn(256)))
			case 1:
				sb.WriteString(fmt.Sprintf("\\%o", r.Intn(256)))
			case 2:
				sb.WriteString(string(rune(0xa0 + r.Intn(0x300))))
			case 3:
				sb.WriteString(string([]string{"\\n", "\\t", "\\\"", "\\\\", "\\/", "\\a", "\\v", "\\z", "\\u41", "\\u00e9", "\\u1F600"}[r.Intn(11)]))
			case 4:
				b := byte(0x80 + r.Intn(0x80))
				sb.WriteByte(b)
			default:
				sb.WriteByte("abcxyzABF019 /'#%{};"[r.Intn(20)])
			}
		}
		add(sb.String())
	}
	return out
}

func regexCases(r *hx.Rand) []kase {
	var out []kase
	atoms := []string{"a", "b", ".", "\\/", "\\\\", "\\.", "[a-z]", "x*", "(y|z)", "=", "\\t", "é", " ", "\"", "\\\"", "[\\/]", "#", "\\(", "\\$", "^", "$", "'"}
	mk := func(re string) {
		out = append(out, kase{[]byte("BEGIN { x = y ~ /" + re + "/ ; sub(/" + re + "/, \"r\") }"), "regex"})
		out = append(out, kase{[]byte("/" + re + "/ { print /" + re + "/ }"), "regex"})
	}
	for _, a := range atoms {
		mk(a)
		for _, b := range atoms {
			mk(a + b)
		}
	}
	for i := 0; i < 150; i++ {
		n := 1 + r.Intn(5)
		s := ""
		for j := 0; j < n; j++ {
			s += atoms[r.Intn(len(atoms))]
		}
		mk(s)
	}
	mk("a\\\nb")
	return out
}

// number literals: text forms and random doubles written with %g / %.17g
func numberSources(r *hx.Rand) []kase {
	var out []kase
	for _, n := range numbers {
		out = append(out, kase{[]byte("BEGIN { x = " + n + " ; y = - " + n + " ; z = x " + n + " }"), "number"})
	}
	for i := 0; i < 300; i++ {
		var f float64
		switch r.Intn(4) {
		case 0:
			f = float64(r.U64()>>uint(r.Intn(64))) / float64(uint64(1)<<uint(r.Intn(40)))
		case 1:
			f = float64(r.U64() >> uint(r.Intn(64)))
		default:
			m := float64(r.U64()>>11) / float64(uint64(1)<<53)
			e := r.Intn(640) - 330
			f = m
			for ; e > 0; e-- {
				f *= 10
			}
			for ; e < 0; e++ {
				f /= 10
			}
		}
		if f != f || f < 0 {
			continue
		}
		text := fmt.Sprintf([]string{"%g", "%.17g", "%.6g", "%.7g", "%f", "%e"}[r.Intn(6)], f)
		if strings.ContainsAny(text, "IN") {
			continue
		}
		out = append(out, kase{[]byte("BEGIN { x = " + text + " }"), "number"})
	}
	return out
}
