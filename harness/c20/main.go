// C20 harness: the printed form of a program is a faithful AWK program.
//
// Correspondence (implementation vs the extracted Coq model rocq/Model/Printer.v):
//   - print:  ast.Program.String() of the tree goawk's parser builds (hook parser.VerifC20ParsePrint,
//     cross-checked against the public parser.ParseProgram(..).String() whenever that succeeds)
//     versus the model's program_string on the same tree dump, byte for byte;
//   - num / quote / fregex: NumExpr.String(), formatString, formatRegex on edge and random values;
//   - lexas: the model's claim "the printed text lexes back to the printer's own token list"
//     (lex_as, the conclusion of theorem C20_render_lex) must hold for every accepted program;
//   - fits: every expression of every tree the parser builds satisfies the hypothesis of the
//     theorems (C04's fits, decided by the extracted fitsb), in its context;
//   - lex / regex: lexer.Scan until EOF and lexer.ScanRegex on the printed texts and on hostile
//     texts versus the model's scan1 / scan_regex.
//
// Search oracle (implementation only, the property verbatim): for every accepted source s with
// tree t = parse(s) and text p = String(t):  p is accepted;  parse(p) = t up to grouping nodes,
// numeric literals compared after %.6g;  String(parse(p)) = p.
package main

import (
	"encoding/json"
	"fmt"
	"math"
	"os"
	"sort"
	"strconv"
	"strings"
	"unicode/utf8"

	"github.com/benhoyt/goawk/lexer"
	"github.com/benhoyt/goawk/parser"
	"verif/harness/hx"
)

// ---------- S-expressions ----------

type sx struct {
	atom string
	kids []*sx
	list bool
}

func parseSX(s string) (*sx, error) {
	pos := 0
	var rec func() (*sx, error)
	rec = func() (*sx, error) {
		for pos < len(s) && s[pos] == ' ' {
			pos++
		}
		if pos >= len(s) {
			return nil, fmt.Errorf("eof")
		}
		if s[pos] == '(' {
			pos++
			n := &sx{list: true}
			for {
				for pos < len(s) && s[pos] == ' ' {
					pos++
				}
				if pos >= len(s) {
					return nil, fmt.Errorf("unclosed")
				}
				if s[pos] == ')' {
					pos++
					return n, nil
				}
				k, err := rec()
				if err != nil {
					return nil, err
				}
				n.kids = append(n.kids, k)
			}
		}
		st := pos
		for pos < len(s) && s[pos] != ' ' && s[pos] != '(' && s[pos] != ')' {
			pos++
		}
		return &sx{atom: s[st:pos]}, nil
	}
	return rec()
}

func (n *sx) write(sb *strings.Builder) {
	if !n.list {
		sb.WriteString(n.atom)
		return
	}
	sb.WriteString("(")
	for i, k := range n.kids {
		if i > 0 {
			sb.WriteString(" ")
		}
		k.write(sb)
	}
	sb.WriteString(")")
}
func (n *sx) String() string {
	var sb strings.Builder
	n.write(&sb)
	return sb.String()
}
func (n *sx) head() string {
	if n.list && len(n.kids) > 0 && !n.kids[0].list {
		return n.kids[0].atom
	}
	return ""
}

// the comparison of the property: grouping nodes removed, numeric literals as %.6g text
func normalize(n *sx) *sx {
	if !n.list {
		return n
	}
	switch n.head() {
	case "group":
		if len(n.kids) == 2 {
			return normalize(n.kids[1])
		}
	case "num":
		if len(n.kids) == 2 {
			bits, err := strconv.ParseUint(n.kids[1].atom, 10, 64)
			if err == nil {
				return &sx{list: true, kids: []*sx{{atom: "num"}, {atom: fmt.Sprintf("%.6g", math.Float64frombits(bits))}}}
			}
		}
	}
	m := &sx{list: true}
	for _, k := range n.kids {
		m.kids = append(m.kids, normalize(k))
	}
	return m
}

// ---------- input classes (computed from the tree the parser built for the ORIGINAL source) ----------

const (
	clsInf     = "numeric literal that overflows to +Inf"
	clsBigU    = "string literal with a non-printable rune above U+FFFF"
	clsUHex    = "string literal with a non-printable rune followed by a hexadecimal digit"
	clsReNL    = "regex literal containing backslash-newline inside a statement block"
	clsMultiGT = "print/printf with a parenthesised argument list holding an unparenthesised > or | getline"
	clsMultiCd = "print/printf with a parenthesised argument list ending in an unparenthesised ?: followed by a redirection"
	clsUnary   = "unary minus/plus whose operand's text begins with the same sign (unary or pre-increment/decrement operator)"
	clsNumExp  = "numeric literal printed in exponent notation that denotes an integer below 2^63"
	clsOther   = "no known-defect feature"
)

func isHexDigit(b byte) bool {
	return b >= '0' && b <= '9' || b >= 'a' && b <= 'f' || b >= 'A' && b <= 'F'
}

func walk(n *sx, f func(*sx)) {
	f(n)
	for _, k := range n.kids {
		walk(k, f)
	}
}

// exposed: an argument position of print where the print tower (printExpr) parses differently from expr()
func exposed(e *sx) bool {
	switch e.head() {
	case "binary":
		if e.kids[1].atom == "gt" {
			return true
		}
		return exposed(e.kids[2]) || exposed(e.kids[3])
	case "getline":
		return e.kids[1].list // has a command
	case "assign":
		return exposed(e.kids[2])
	case "augassign":
		return exposed(e.kids[3])
	case "cond":
		return exposed(e.kids[1])
	case "in":
		return len(e.kids) == 3 && exposed(e.kids[2])
	}
	return false
}

// the sign character the printed text of e begins with, if any (nothing the printer parenthesises)
func leadSign(e *sx) string {
	switch e.head() {
	case "unary":
		return e.kids[1].atom // add | sub | not
	case "incr":
		if e.kids[2].atom == "1" {
			if e.kids[1].atom == "incr" {
				return "add"
			}
			return "sub"
		}
		return leadSign(e.kids[3])
	case "binary":
		if e.kids[1].atom == "pow" {
			return leadSign(e.kids[2])
		}
	}
	return ""
}

// does the printed text of e end in an unparenthesised ?:
func endsInCond(e *sx) bool {
	switch e.head() {
	case "cond":
		return true
	case "assign":
		return endsInCond(e.kids[2])
	case "augassign":
		return endsInCond(e.kids[3])
	}
	return false
}

// the shapes the parser builds that C04's `fits` does not cover (C04 level_note / its `ok` is a
// conservative approximation): the lvalue back-tracking of `1 && x = 1`, a concatenation whose right
// operand begins with ++ / --, and the post-increment of $ applied to a unary / pre-increment operand
func firstIsIncr(e *sx) bool {
	switch e.head() {
	case "incr":
		return e.kids[2].atom == "1"
	case "binary":
		return firstIsIncr(e.kids[2])
	case "cond":
		return firstIsIncr(e.kids[1])
	case "in":
		return len(e.kids) == 3 && firstIsIncr(e.kids[2])
	}
	return false
}

func c04Excluded(tree *sx) bool {
	found := false
	walk(tree, func(n *sx) {
		// $ applied to a unary or pre-increment operand, then post-incremented: `$ -x ++` is ($(-x))++
		if n.head() == "incr" && n.kids[2].atom == "0" && n.kids[3].head() == "field" {
			if h := n.kids[3].kids[1].head(); h == "unary" || h == "incr" {
				found = true
			}
		}
		if n.head() == "binary" && len(n.kids) == 4 {
			r := n.kids[3]
			switch n.kids[1].atom {
			case "and", "or", "match", "notmatch", "eq", "ne", "lt", "le", "ge", "gt":
				if r.head() == "assign" || r.head() == "augassign" {
					found = true
				}
			case "concat":
				if firstIsIncr(r) {
					found = true
				}
			}
		}
	})
	return found
}

// every known-defect feature of the tree
func features(tree *sx) map[string]bool {
	found := map[string]bool{}
	var inStmts func(n *sx, inside bool)
	inStmts = func(n *sx, inside bool) {
		if !n.list {
			return
		}
		h := n.head()
		switch h {
		case "num":
			if bits, err := strconv.ParseUint(n.kids[1].atom, 10, 64); err == nil {
				v := math.Float64frombits(bits)
				if math.IsInf(v, 1) {
					found[clsInf] = true
				} else if !(v == math.Trunc(v) && v < 9223372036854775808.0) {
					// printed with %.6g: exponent notation, and the six digits denote an integer below 2^63
					t := fmt.Sprintf("%.6g", v)
					if w, err := strconv.ParseFloat(t, 64); err == nil && strings.Contains(t, "e") && w == math.Trunc(w) && w < 9223372036854775808.0 {
						found[clsNumExp] = true
					}
				}
			}
		case "str":
			s := string(hx.UnHex(n.kids[1].atom))
			for i := 0; i < len(s); {
				r, w := utf8.DecodeRuneInString(s[i:])
				if r >= 0x80 && !(r == utf8.RuneError && w == 1) && !strconv.IsPrint(r) {
					if r >= 0x10000 {
						found[clsBigU] = true
					} else if i+w < len(s) && isHexDigit(s[i+w]) {
						found[clsUHex] = true
					}
				}
				i += w
			}
		case "regex", "strregex":
			if inside && strings.Contains(string(hx.UnHex(n.kids[1].atom)), "\n") {
				found[clsReNL] = true
			}
		case "print", "printf":
			for _, a := range n.kids[3:] {
				if exposed(a) {
					found[clsMultiGT] = true
				}
			}
			if n.kids[2].list && (n.kids[1].atom == "gt" || n.kids[1].atom == "pipe") && len(n.kids) > 3 && endsInCond(n.kids[len(n.kids)-1]) {
				found[clsMultiCd] = true
			}
		case "unary":
			op := n.kids[1].atom
			c := n.kids[2]
			if (op == "add" || op == "sub") && leadSign(c) == op {
				found[clsUnary] = true
			}
		}
		in2 := inside || h == "begin" || h == "end" || h == "func"
		for i, k := range n.kids {
			if h == "action" && i == 2 {
				inStmts(k, true)
			} else {
				inStmts(k, in2)
			}
		}
	}
	inStmts(tree, false)
	return found
}

func classify(tree *sx) string {
	found := features(tree)
	// the features of the defects that are still open come first (they explain a failure); the
	// classes of the repaired defects (F-C20-1/3/4) follow: no known finding lists them any more,
	// so a failure of such a program that no open defect explains is reported as a violation
	for _, c := range []string{clsReNL, clsMultiGT, clsMultiCd, clsNumExp, clsInf, clsBigU, clsUHex, clsUnary} {
		if found[c] {
			return c
		}
	}
	return clsOther
}

// ---------- the implementation ----------

type implRes struct {
	dump    string
	printed string
	err     error
	panic   any
}

func implParsePrint(src []byte) (res implRes) {
	defer func() {
		if r := recover(); r != nil {
			res.panic = r
		}
	}()
	res.dump, res.printed, res.err = parser.VerifC20ParsePrint(src)
	return
}

func publicString(src []byte) (s string, ok bool) {
	defer func() {
		if r := recover(); r != nil {
			ok = false
		}
	}()
	prog, err := parser.ParseProgram(src, nil)
	if err != nil {
		return "", false
	}
	return prog.String(), true
}

const (
	orAccept = "String(parse s) is accepted by the parser"
	orTree   = "parse(String(parse s)) = parse s up to grouping nodes and %.6g of numeric literals"
	orIdem   = "String(parse(String(parse s))) = String(parse s)"
	orPanic  = "no-panic"
)

// the property on one source; nil if it holds (or s is not an accepted program)
func oracle(src []byte) (*hx.Failure, bool) {
	r1 := implParsePrint(src)
	detail := map[string]any{"program": string(src), "program_hex": hx.Hex(src)}
	if r1.panic != nil {
		detail["panic"] = fmt.Sprint(r1.panic)
		return &hx.Failure{Class: clsOther, Oracle: orPanic, Detail: detail}, true
	}
	if r1.err != nil {
		return nil, false
	}
	t1, err := parseSX(r1.dump)
	if err != nil {
		panic("bad dump " + r1.dump)
	}
	cls := classify(t1)
	detail["printed"] = r1.printed
	detail["printed_hex"] = hx.HexS(r1.printed)
	r2 := implParsePrint([]byte(r1.printed))
	if r2.panic != nil {
		detail["panic"] = fmt.Sprint(r2.panic)
		return &hx.Failure{Class: cls, Oracle: orPanic, Detail: detail}, true
	}
	if r2.err != nil {
		detail["expected"] = "accepted"
		detail["got"] = r2.err.Error()
		return &hx.Failure{Class: cls, Oracle: orAccept, Detail: detail}, true
	}
	t2, err := parseSX(r2.dump)
	if err != nil {
		panic("bad dump " + r2.dump)
	}
	n1, n2 := normalize(t1).String(), normalize(t2).String()
	if n1 != n2 {
		detail["expected"] = n1
		detail["got"] = n2
		return &hx.Failure{Class: cls, Oracle: orTree, Detail: detail}, true
	}
	if r2.printed != r1.printed {
		detail["expected"] = r1.printed
		detail["got"] = r2.printed
		return &hx.Failure{Class: cls, Oracle: orIdem, Detail: detail}, true
	}
	return nil, true
}

// ---------- lexer through the public API ----------

var tokWord = map[lexer.Token]string{
	lexer.NEWLINE: "NL", lexer.ADD: "+", lexer.ADD_ASSIGN: "+=", lexer.AND: "&&", lexer.APPEND: ">>", lexer.ASSIGN: "=",
	lexer.AT: "@", lexer.COLON: ":", lexer.COMMA: ",", lexer.DECR: "--", lexer.DIV: "/", lexer.DIV_ASSIGN: "/=",
	lexer.DOLLAR: "$", lexer.EQUALS: "==", lexer.GTE: ">=", lexer.GREATER: ">", lexer.INCR: "++", lexer.LBRACE: "{",
	lexer.LBRACKET: "[", lexer.LESS: "<", lexer.LTE: "<=", lexer.MATCH: "~", lexer.MOD: "%", lexer.MOD_ASSIGN: "%=",
	lexer.MUL: "*", lexer.MUL_ASSIGN: "*=", lexer.NOT_MATCH: "!~", lexer.NOT: "!", lexer.NOT_EQUALS: "!=", lexer.OR: "||",
	lexer.PIPE: "|", lexer.POW: "^", lexer.POW_ASSIGN: "^=", lexer.QUESTION: "?", lexer.RBRACE: "}", lexer.RBRACKET: "]",
	lexer.RPAREN: ")", lexer.SEMICOLON: ";", lexer.SUB: "-", lexer.SUB_ASSIGN: "-=",
}

func scanWords(l *lexer.Lexer, limit int) string {
	var words []string
	end := "fuel"
	for i := 0; i < limit; i++ {
		_, tok, val := l.Scan()
		if tok == lexer.EOF {
			end = "eof"
			break
		}
		if tok == lexer.ILLEGAL {
			end = "illegal"
			break
		}
		switch {
		case tok == lexer.LPAREN:
			if l.HadSpace() {
				words = append(words, "_(")
			} else {
				words = append(words, "(")
			}
		case tok == lexer.NAME:
			words = append(words, "n:"+hx.HexS(val))
		case tok == lexer.NUMBER:
			words = append(words, "d:"+hx.HexS(val))
		case tok == lexer.STRING:
			words = append(words, "s:"+hx.HexS(val))
		case tok >= lexer.FIRST_FUNC && tok <= lexer.LAST_FUNC:
			words = append(words, "f:"+tok.String())
		default:
			if w, ok := tokWord[tok]; ok {
				words = append(words, w)
			} else {
				words = append(words, fmt.Sprintf("k:%d", int(tok)))
			}
		}
	}
	return strings.Join(append([]string{end}, words...), " ")
}

func implLex(src []byte) string { return scanWords(lexer.NewLexer(src), len(src)+2) }

// text = what follows the opening "/" (eq=false) or "/=" (eq=true); after ScanRegex the rest of
// the input is scanned with Scan so that the position where the regex ended is compared too
func implRegex(eq bool, text []byte) string {
	pre := "/"
	if eq {
		pre = "/="
	}
	src := append([]byte(pre), text...)
	l := lexer.NewLexer(src)
	_, tok, _ := l.Scan()
	if (eq && tok != lexer.DIV_ASSIGN) || (!eq && tok != lexer.DIV) {
		return "skip"
	}
	_, tok, val := l.ScanRegex()
	if tok != lexer.REGEX {
		return "err"
	}
	return "ok " + hx.HexS(val) + " " + scanWords(l, len(src)+2)
}

// ---------- main ----------

func main() {
	o := hx.ParseFlags()
	if o.Replay != "" {
		os.Exit(replay(o))
	}
	rep := hx.NewReport("C20", o.Seed, o.Tier)
	rep.Rule = "distinct = different (source text) for programs, different value for literals; non-trivial = the parser accepted the source (programs), every literal"
	r := hx.NewRand(o.Seed)

	nRandom, nDefect := 3200, 300
	if o.Tier == "thorough" {
		nRandom, nDefect = 60000, 4000
	}
	if o.N > 0 {
		nRandom = o.N
	}

	var cases []kase
	for _, s := range fixedSources {
		cases = append(cases, kase{[]byte(s), "fixed"})
	}
	cases = append(cases, adjacencyCases()...)
	cases = append(cases, stringCases(r)...)
	cases = append(cases, regexCases(r)...)
	cases = append(cases, numberSources(r)...)
	g := &gen{r: r}
	for i := 0; i < nRandom; i++ {
		d := 1 + r.Intn(4)
		switch r.Intn(4) {
		case 0:
			cases = append(cases, kase{[]byte(begin("x = " + g.expr(0, 2+r.Intn(4), false))), "random-expr"})
		case 1:
			g.inAct, g.inFunc, g.inLoop = false, false, 0
			cases = append(cases, kase{[]byte(begin(g.stmtList(d, 1+r.Intn(3)))), "random-stmts"})
		default:
			g.inLoop = 0
			cases = append(cases, kase{[]byte(g.program(d)), "random-program"})
		}
	}
	gd := &gen{r: r, defect: true}
	for i := 0; i < nDefect; i++ {
		gd.inAct, gd.inFunc, gd.inLoop = false, false, 0
		cases = append(cases, kase{[]byte(begin(gd.stmtList(2, 1+r.Intn(2)))), "random-defect-shapes"})
	}

	// ---- programs: correspondence of the printer and the search oracle ----
	var reqs []string
	type pend struct {
		c       kase
		printed string
	}
	var pends []pend
	var lexTexts [][]byte
	var lexasReqs, lexasWant, lexasSrc, fitsReqs []string
	var fitsMulti, fitsExcl []bool
	accepted := 0
	for _, c := range cases {
		rep.Count("gen:" + c.kind)
		res := implParsePrint(c.src)
		if res.panic != nil {
			rep.SearchEvals++
			rep.Fail(hx.Failure{Class: clsOther, Oracle: orPanic, Detail: map[string]any{"program": string(c.src), "program_hex": hx.Hex(c.src), "panic": fmt.Sprint(res.panic)}})
			continue
		}
		if res.err != nil {
			rep.Count("rejected:" + c.kind)
			continue
		}
		accepted++
		rep.Count("accepted:" + c.kind)
		if ps, ok := publicString(c.src); ok {
			rep.Count("public-api-checked")
			if ps != res.printed {
				rep.Mismatch(hx.Mismatch{Class: "hook vs ParseProgram().String()", Input: string(c.src), Impl: ps, Model: res.printed,
					Note: "the parse-only hook and the public API print different text"})
			}
		}
		reqs = append(reqs, "print "+res.dump)
		pends = append(pends, pend{c, res.printed})
		if t1, err := parseSX(res.dump); err == nil {
			f := features(t1)
			// the lexing defects (unary sign adjacency F-C20-1, \u before a hex digit and \U F-C20-3,
			// +Inf F-C20-4) are repaired: the printed text of EVERY accepted program must lex back to
			// the printer's tokens; the features stay input classes of the oracle
			want := "1"
			_ = f
			lexasReqs = append(lexasReqs, "lexas "+res.dump)
			lexasWant = append(lexasWant, want)
			lexasSrc = append(lexasSrc, string(c.src))
			fitsReqs = append(fitsReqs, "fits "+res.dump)
			fitsMulti = append(fitsMulti, f[clsMultiGT])
			fitsExcl = append(fitsExcl, c04Excluded(t1))
		}
		rep.Distinct(string(c.src))
		if len(lexTexts) < 4000 {
			lexTexts = append(lexTexts, []byte(res.printed))
		}
		// search oracle
		rep.SearchEvals++
		if f, _ := oracle(c.src); f != nil {
			rep.Fail(*f)
		}
	}
	answers, err := hx.ModelEval(o.ModelRun, reqs)
	if err != nil {
		rep.HarnessError("%v", err)
		rep.Write(o.Out)
		os.Exit(2)
	}
	for i, a := range answers {
		rep.CorrEvals++
		p := pends[i]
		if strings.HasPrefix(a, "driver-error") {
			rep.HarnessError("modelrun: %s on %q", a, string(p.c.src))
			continue
		}
		got := string(hx.UnHex(a))
		if got != p.printed {
			rep.Mismatch(hx.Mismatch{Class: "print:" + p.c.kind, Input: string(p.c.src), Impl: p.printed, Model: got})
		} else if i%400 == 0 {
			rep.Sample(map[string]any{"source": string(p.c.src), "printed": p.printed})
		}
	}

	// ---- does the model's text lex back to the model's tokens (lex_as), and does that agree with
	// this must be so for every accepted program: the link between the theorems' guard and the implementation
	lexasAns, err := hx.ModelEval(o.ModelRun, lexasReqs)
	if err != nil {
		rep.HarnessError("%v", err)
		rep.Write(o.Out)
		os.Exit(2)
	}
	for i, a := range lexasAns {
		rep.CorrEvals++
		rep.Count("lexas:" + a)
		if a != lexasWant[i] {
			rep.Mismatch(hx.Mismatch{Class: "lexas", Input: lexasSrc[i], Impl: lexasWant[i], Model: a,
				Note: "impl = 1: the printed text of every accepted program must lex back to the printer's own tokens; model = lex_as (toks pieces) (render pieces)"})
		}
	}

	// ---- is every expression the parser built a writing that respects C04's table (the hypothesis
	// `fits` of the theorems): decided by the extracted fitsb on the tree dump
	fitsAns, err := hx.ModelEval(o.ModelRun, fitsReqs)
	if err != nil {
		rep.HarnessError("%v", err)
		rep.Write(o.Out)
		os.Exit(2)
	}
	for i, a := range fitsAns {
		rep.CorrEvals++
		var ok, fail, out, afo int
		if _, err := fmt.Sscanf(a, "ok=%d fail=%d out=%d argfalseonly=%d", &ok, &fail, &out, &afo); err != nil {
			rep.HarnessError("modelrun fits: %s on %q", a, lexasSrc[i])
			continue
		}
		rep.Hist["fits:expressions-in-fragment-that-fit"] += ok
		rep.Hist["fits:expressions-outside-fragment"] += out
		rep.Hist["fits:print-arguments-fitting-expr()-only"] += afo
		rep.Hist["fits:expressions-in-fragment-that-do-not-fit (C04 exclusions: lvalue back-tracking, concatenation before ++/--, ($ -x)++)"] += fail
		if fail > 0 && !fitsExcl[i] {
			// outside the hypothesis of the theorems, and not one of the shapes known to be excluded:
			// not a disagreement between model and implementation, so it is counted, not alarmed on
			rep.Unmodelled++
			rep.Hist["fits:expressions-in-fragment-that-do-not-fit, other shape"] += fail
			rep.Sample(map[string]any{"does-not-fit": lexasSrc[i], "model": a})
		}
		if afo > 0 && !fitsMulti[i] {
			rep.Mismatch(hx.Mismatch{Class: "fits-print-argument", Input: lexasSrc[i], Impl: fmt.Sprint("exposed > or | getline in a print argument: ", fitsMulti[i]), Model: a,
				Note: "a print argument fits expr() but not printExpr() iff it came out of a parenthesised list with an exposed > (the class of F-C20-2)"})
		}
	}

	// ---- literals ----
	var lreqs []string
	var lwant []string
	var lwhat []string
	addNum := func(bits uint64) {
		lreqs = append(lreqs, "num "+strconv.FormatUint(bits, 10))
		lwant = append(lwant, hx.HexS(parser.VerifC20NumString(bits)))
		lwhat = append(lwhat, fmt.Sprintf("num %v (bits %d)", math.Float64frombits(bits), bits))
		rep.Distinct(fmt.Sprintf("num:%d", bits))
		rep.Count("literal:num")
	}
	edge := []float64{0, 1, -1, 0.5, 0.1, 1e5, 1e6, 999999, 999999.5, 999999.4999, 1000000, 1234567, 1234567.5, 100000.5, 100001.5, 0.0001, 0.00001,
		0.000099999949, 0.00009999995, 1e-5, 9.9999995e-5, 123456.5, 123457.5, 1e15, 1e16, 9007199254740992, 9007199254740993, 9223372036854775807,
		9223372036854775808, -9223372036854775808, -9223372036854777856, 1.8446744073709552e19, 1e22, 1e23, 1e100, 1e308, math.MaxFloat64, 4.9e-324, 2.2250738585072014e-308,
		2.5e-5, 2.5, 3.5, 0.3, 1.0 / 3, 2.0 / 3, 1e21, 1e-7, 1.5e-7, 0.015625, 1.0000005, 1.0000015, 9.999995, 99999.95, 99999.949999, 5e-324, 1e-320,
		math.Inf(1), math.Inf(-1), math.NaN(), -0.5, -1e30, -123456.789, 4294967296, 4294967296.5, 1e-4, 9.9999e-5, 0.00012345678, 12345.678, 1e5 + 0.5}
	for _, f := range edge {
		addNum(math.Float64bits(f))
	}
	nNum := 1500
	if o.Tier == "thorough" {
		nNum = 40000
	}
	for i := 0; i < nNum; i++ {
		switch r.Intn(5) {
		case 0:
			addNum(r.U64())
		case 1:
			addNum(math.Float64bits(float64(int64(r.U64()>>uint(r.Intn(64)))) + []float64{0, 0.5, 0.25, 0.000001}[r.Intn(4)]))
		case 2:
			// six-digit rounding boundaries: d.ddddd5 * 10^k
			m := float64(100000+r.Intn(900000)) + 0.5
			k := r.Intn(30) - 15
			addNum(math.Float64bits(m * math.Pow(10, float64(k))))
		case 3:
			addNum(math.Float64bits(math.Pow(10, float64(r.Intn(640)-330))))
		default:
			addNum(math.Float64bits(float64(r.U64()>>11) / float64(uint64(1)<<53) * math.Pow(10, float64(r.Intn(40)-20))))
		}
	}
	addStr := func(s string) {
		lreqs = append(lreqs, "quote "+hx.HexS(s))
		lwant = append(lwant, hx.HexS(parser.VerifC20StrString(s, false)))
		lwhat = append(lwhat, "quote "+hx.HexS(s))
		lreqs = append(lreqs, "fregex "+hx.HexS(s))
		lwant = append(lwant, hx.HexS(parser.VerifC20StrString(s, true)))
		lwhat = append(lwhat, "fregex "+hx.HexS(s))
		rep.Distinct("str:" + s)
		rep.Count("literal:str")
		// what the lexer reads back from the quoted text
		lexTexts = append(lexTexts, []byte(parser.VerifC20StrString(s, false)+" x"))
	}
	for b := 0; b < 256; b++ {
		addStr(string([]byte{byte(b)}))
		addStr(string([]byte{'a', byte(b), 'f'}))
		addStr(string([]byte{byte(b), byte(b)}))
	}
	nRune := 3000
	if o.Tier == "thorough" {
		nRune = 120000
	}
	for i := 0; i < nRune; i++ {
		var c rune
		switch r.Intn(4) {
		case 0:
			c = rune(r.Intn(0x3000))
		case 1:
			c = rune(r.Intn(0x10000))
		default:
			c = rune(r.Intn(0x110000))
		}
		addStr(string(c) + []string{"", "0", "z", "F"}[r.Intn(4)])
	}
	for i := 0; i < 600; i++ {
		n := r.Intn(12)
		b := make([]byte, n)
		for j := range b {
			switch r.Intn(3) {
			case 0:
				b[j] = byte(r.Intn(256))
			case 1:
				b[j] = []byte("\\\"/\n\t'ab09\x7f\x00")[r.Intn(12)]
			default:
				b[j] = byte(0x80 + r.Intn(0x80))
			}
		}
		addStr(string(b))
	}
	lans, err := hx.ModelEval(o.ModelRun, lreqs)
	if err != nil {
		rep.HarnessError("%v", err)
		rep.Write(o.Out)
		os.Exit(2)
	}
	for i, a := range lans {
		rep.CorrEvals++
		if a != lwant[i] {
			rep.Mismatch(hx.Mismatch{Class: "literal:" + strings.Fields(lwhat[i])[0], Input: lwhat[i], Impl: string(hx.UnHex(lwant[i])), Model: func() string {
				if strings.HasPrefix(a, "driver-error") {
					return a
				}
				return string(hx.UnHex(a))
			}()})
		}
	}

	// ---- lexer: Scan until EOF on printed programs, quoted strings and hostile texts ----
	hostile := []string{"a+++b", "a---b", "a+ ++b", "x=-1", "1e+", "1e+x", "1.e5", "..5", ".", "1..2", "1.2.3", "0x", "1e5e5", "a&&b&c", "a||b|c", "!~!=!", "**=", "** =", "*=",
		"^=^", "/=/", "<=<>=>>>", "\"abc", "\"a\\", "\"a\nb\"", "'it''s'", "\"\\u\"", "\"\\u110000\"", "\"\\ud800\"", "\"\\u41g\"", "\"\\x\"", "\"\\xg\"", "\"\\400\"", "\"\\18\"",
		"getline<x", "in in", "BEGINx", "printf print", "x\ty\rz", "a\\\nb", "# c\nx", "$$@", "f(x) f (x)", "a[1](2)", "1e999", "x\x00y", "\"\\\x00\"", "é", "a.b", "`", "&", "x_1 _ __",
		"length(", "substr", "0.5.5e-3x", "1E+05", "12e-", "12e-x", "\"\\U0001f600\"", "\"\\u200bab\"", "\"\\1234\"", "\"\\0\"", "\"\\8\"", "\"\\\"\"", "\"\\/\\z\""}
	for _, h := range hostile {
		lexTexts = append(lexTexts, []byte(h))
	}
	for i := 0; i < 1500; i++ {
		n := 1 + r.Intn(14)
		b := make([]byte, n)
		for j := range b {
			cs := []byte("+-*/%^=!<>&|~?:;,()[]{}$@ \n\t\"'\\.019eExa_#/")
			b[j] = cs[r.Intn(len(cs))]
		}
		lexTexts = append(lexTexts, b)
	}
	var xreqs, xwant, xwhat []string
	for _, t := range lexTexts {
		xreqs = append(xreqs, "lex "+hx.Hex(t))
		xwant = append(xwant, implLex(t))
		xwhat = append(xwhat, string(t))
		rep.Count("lex")
	}
	reTexts := []string{"x/ y", "a\\/b/", "a\\\\/b/", "\\\\\\//z", "a", "a\nb/", "a\\\nb/", "\\", "/", "//", "a\\", "[/]/", "\\=/", "a\x00b/", "a\\\x00b/", "é\\é/"}
	for i := 0; i < 600; i++ {
		n := r.Intn(8)
		b := make([]byte, n)
		for j := range b {
			cs := []byte("ab\\/\\/=.\n\r \"[]")
			b[j] = cs[r.Intn(len(cs))]
		}
		reTexts = append(reTexts, string(b)+[]string{"/", "/x", ""}[r.Intn(3)])
	}
	for _, t := range reTexts {
		for _, eq := range []bool{false, true} {
			w := implRegex(eq, []byte(t))
			if w == "skip" {
				continue
			}
			e := "0"
			if eq {
				e = "1"
			}
			xreqs = append(xreqs, "regex "+e+" "+hx.HexS(t))
			xwant = append(xwant, w)
			xwhat = append(xwhat, "regex "+e+" "+t)
			rep.Count("scanregex")
		}
	}
	xans, err := hx.ModelEval(o.ModelRun, xreqs)
	if err != nil {
		rep.HarnessError("%v", err)
		rep.Write(o.Out)
		os.Exit(2)
	}
	for i, a := range xans {
		rep.CorrEvals++
		if strings.Contains(a, "unmod") {
			rep.Unmodelled++
			continue
		}
		if a != xwant[i] {
			// the model stops at a comment / line continuation (unmod) after a common prefix: compare only when fully modelled
			rep.Mismatch(hx.Mismatch{Class: "lexer", Input: xwhat[i], Impl: xwant[i], Model: a})
		}
	}

	rep.Exhaustive = false
	rep.Write(o.Out)
	keys := []string{}
	for k := range rep.Hist {
		if strings.HasPrefix(k, "fail:") {
			keys = append(keys, k)
		}
	}
	sort.Strings(keys)
	fmt.Printf("c20: %d sources, %d accepted, %d corr, %d mismatches, %d search, %d failures kept %v\n",
		len(cases), accepted, rep.CorrEvals, len(rep.Mismatches), rep.SearchEvals, len(rep.Failures), keys)
}

func replay(o hx.Opts) int {
	b, err := os.ReadFile(o.Replay)
	if err != nil {
		fmt.Println(err)
		return 2
	}
	var doc struct {
		Failure struct {
			Class  string         `json:"class"`
			Oracle string         `json:"oracle"`
			Detail map[string]any `json:"detail"`
		} `json:"failure"`
	}
	if err := json.Unmarshal(b, &doc); err != nil || doc.Failure.Detail == nil {
		fmt.Println("replay file has no failure.detail (tie broken without a failing input?)")
		return 2
	}
	h, _ := doc.Failure.Detail["program_hex"].(string)
	if h == "" {
		fmt.Println("replay file has no program_hex")
		return 2
	}
	src := hx.UnHex(h)
	fmt.Printf("program:\n%s\n", src)
	f, accepted := oracle(src)
	if !accepted {
		fmt.Println("the source is no longer accepted by the parser")
		return 0
	}
	if f == nil {
		r := implParsePrint(src)
		fmt.Printf("printed:\n%s\npasses now: the printed text re-parses to the same tree and prints identically\n", r.printed)
		return 0
	}
	fmt.Printf("printed:\n%v\noracle:   %s\nexpected: %v\ngot:      %v\nstill fails\n", f.Detail["printed"], f.Oracle, f.Detail["expected"], f.Detail["got"])
	return 1
}
