package main

// Long histories (implementation only): state that must be given back on every record or
// file — not just on the handful of records a short script sees. next / nextfile / exit
// leaving user functions at some depth, over more records (and file operands) than any
// internal limit (call depth 1000, regex/format caches of 100), must still deliver every
// record, count NR exactly and run END.

import (
	"fmt"
	"os"
	"strings"

	"github.com/benhoyt/goawk/interp"
	"verif/harness/hx"
)

type longCase struct {
	name, prog string
	nrec       int // records on stdin (0 = use files)
	nfiles     int // file operands with 2 records each
	want       string
}

func longCases(tier string) []longCase {
	n1, n2, nf := 1500, 2300, 620
	if tier == "thorough" {
		n1, n2, nf = 5000, 7000, 1500
	}
	return []longCase{
		{"next-from-function", `function f() { next } { f() } END { print "END", NR }`, n1, 0, fmt.Sprintf("END %d\n", n1)},
		{"next-from-nested-function", `function g() { f() } function f() { next } NR % 2 { g() } { c++ } END { print NR, c }`, n2, 0, fmt.Sprintf("%d %d\n", n2, n2/2)},
		{"next-from-function-in-pattern", `function f() { next } NR % 2 && f() { bad++ } { c++ } END { print NR, c, bad + 0 }`, n2, 0, fmt.Sprintf("%d %d 0\n", n2, n2/2)},
		{"nextfile-from-function-in-range-pattern", `function f() { nextfile } FNR == 2 && f(), 0 { bad++ } { n++ } END { print n, NR, bad + 0 }`, 0, nf, fmt.Sprintf("%d %d 0\n", nf, 2*nf)},
		{"next-from-function-in-loop", `function f(k) { if (k == 2) next; return k } { for (i = 0; i < 5; i++) s += f(i) } END { print NR, s }`, n1, 0, fmt.Sprintf("%d %d\n", n1, n1)},
		{"nextfile-from-nested-function", `function outer() { inner() } function inner() { nextfile } { n++; outer() } END { print n, NR }`, 0, nf, fmt.Sprintf("%d %d\n", nf, nf)},
		{"return-deep-every-record", `function r(d) { if (d > 0) return r(d - 1); return 1 } { t += r(20) } END { print NR, t }`, n1, 0, fmt.Sprintf("%d %d\n", n1, n1)},
		{"getline-var-in-function", `function rd(  l) { if ((getline l) > 0) return 1; return 0 } { k += rd() } END { print NR, k }`, n1, 0, fmt.Sprintf("%d %d\n", n1, n1/2)},
		{"range-many-records", `NR % 10 == 3, NR % 10 == 5 { c++ } END { print NR, c }`, n1, 0, fmt.Sprintf("%d %d\n", n1, 3*(n1/10))},
		{"exit-from-function-runs-END", fmt.Sprintf(`function f() { exit 7 } NR == %d { f() } END { print "END", NR }`, n1-1), n1, 0, fmt.Sprintf("END %d\n", n1-1)},
	}
}

func runLong(rep *hx.Report, tier string) {
	for _, lc := range longCases(tier) {
		var in strings.Builder
		for i := 1; i <= lc.nrec; i++ {
			fmt.Fprintf(&in, "r%d x\n", i)
		}
		var args []string
		for i := 0; i < lc.nfiles; i++ {
			fn := fmt.Sprintf("L%d", i)
			os.WriteFile(fn, []byte("a\nb\n"), 0o644)
			args = append(args, fn)
		}
		rr := hx.RunAwk(lc.prog, &interp.Config{Stdin: strings.NewReader(in.String()), Args: args, Environ: []string{}, NoExec: true}, nil)
		for _, a := range args {
			os.Remove(a)
		}
		rep.SearchEvals++
		rep.Count("long:" + lc.name)
		got := string(rr.Out)
		errs := ""
		if rr.Err != nil {
			errs = rr.Err.Error()
		}
		if rr.Panic != nil {
			errs = fmt.Sprint("panic: ", rr.Panic)
		}
		wantStatus := 0
		if lc.name == "exit-from-function-runs-END" {
			wantStatus = 7
		}
		if got != lc.want || errs != "" || rr.Status != wantStatus {
			rep.Fail(hx.Failure{Class: "long-history:" + lc.name, Oracle: "every record is delivered, NR is exact and END runs however many records left user functions through next/nextfile/exit",
				Detail: map[string]any{"program": lc.prog, "records_on_stdin": lc.nrec, "file_operands": lc.nfiles, "want": lc.want, "got": got, "error": errs, "status": rr.Status}})
		}
	}
}
