// C11 harness: input bookkeeping (NR, FNR, FILENAME, operands, getline, ranges, next, exit).
// Correspondence: every generated script is rendered as AWK text and run by the
// implementation (public API, real temp files, a real stdin file) and, as wire tokens,
// by the extracted Coq model; the traces must be equal.
// Search: the implementation's trace against the reference evaluator of spec.go
// (the property's text), plus an independent segment computation for range patterns.
package main

import (
	"bytes"
	"context"
	"encoding/json"
	"fmt"
	"os"
	"path/filepath"
	"strings"
	"time"

	"github.com/benhoyt/goawk/interp"
	"github.com/benhoyt/goawk/parser"
	"verif/harness/hx"
)

type implResult struct {
	Events []string
	Status int
	Err    string
	Panic  string
	Raw    string
}

func (r implResult) line() string {
	ev := "-"
	if len(r.Events) > 0 {
		ev = strings.Join(r.Events, "|")
	}
	switch {
	case r.Panic != "":
		return "panic"
	case r.Err != "":
		return "err " + ev
	}
	return fmt.Sprintf("ok %d %s", r.Status, ev)
}

var onDisk = map[string]string{} // what the temp dir currently holds

func recsText(recs []string, noNL bool) string {
	var sb strings.Builder
	for i, r := range recs {
		sb.WriteString(r)
		if !(noNL && i == len(recs)-1 && r != "") {
			sb.WriteString("\n")
		}
	}
	return sb.String()
}

// runImpl: cwd is the harness's private temp dir.
// prepareInputs puts the files and the stdin file of one case (one run) into the temp dir
func prepareInputs(c *Case) (*os.File, error) {
	want := map[string]string{}
	for _, f := range c.Files {
		if !strings.HasPrefix(f.Name, "./") {
			want[f.Name] = recsText(f.Recs, c.NoNL)
		}
	}
	for _, n := range fileNames {
		txt, ok := want[n]
		old, had := onDisk[n]
		switch {
		case !ok && had:
			os.Remove(n)
			delete(onDisk, n)
		case ok && (!had || old != txt):
			if err := os.WriteFile(n, []byte(txt), 0o644); err != nil {
				return nil, err
			}
			onDisk[n] = txt
		}
	}
	if txt := recsText(c.Stdin, c.NoNL); onDisk["stdin.txt"] != txt || txt == "" {
		if err := os.WriteFile("stdin.txt", []byte(txt), 0o644); err != nil {
			return nil, err
		}
		onDisk["stdin.txt"] = txt
	}
	return os.Open("stdin.txt")
}

func configMode(c *Case) interp.IOMode {
	if c.ModeVia != "begin" {
		switch c.Mode {
		case "csv":
			return interp.CSVMode
		case "tsv":
			return interp.TSVMode
		}
	}
	return interp.DefaultMode
}

func parseEvents(out []byte) []string {
	var evs []string
	for _, l := range strings.Split(strings.TrimSuffix(string(out), "\n"), "\n") {
		if l == "" && len(out) == 0 {
			continue
		}
		if strings.HasPrefix(l, "T,") {
			evs = append(evs, l)
		} else {
			evs = append(evs, "P,"+hx.HexS(l))
		}
	}
	return evs
}

func runImpl(c *Case) (res implResult) {
	in, err := prepareInputs(c)
	if err != nil {
		res.Err = "harness: " + err.Error()
		return
	}
	defer in.Close()
	funcs := map[string]any{"H": func(s string) string { return hx.HexS(s) }}
	cfg := &interp.Config{Stdin: in, Args: c.Args, Argv0: "goawk", Funcs: funcs, NoArgVars: c.NoArgVars, Environ: []string{},
		Error: new(strings.Builder), InputMode: configMode(c)}
	rr := runAwkCtx(c.src(), cfg, &parser.ParserConfig{Funcs: funcs})
	res.Raw = string(rr.Out)
	if rr.Panic != nil {
		res.Panic = fmt.Sprint(rr.Panic)
		return
	}
	res.Events = parseEvents(rr.Out)
	res.Status = rr.Status
	if rr.Err != nil {
		res.Err = rr.Err.Error()
	}
	return
}

// runAwkCtx: like hx.RunAwk, with a watchdog (a script that does not terminate within 10 s
// is reported as an error "context deadline exceeded").
func runAwkCtx(src string, cfg *interp.Config, pcfg *parser.ParserConfig) (res hx.RunResult) {
	defer func() {
		if r := recover(); r != nil {
			res.Panic = r
		}
	}()
	prog, err := parser.ParseProgram([]byte(src), pcfg)
	if err != nil {
		res.Err = err
		return
	}
	var out bytes.Buffer
	c := *cfg
	c.Output = &out
	p, err := interp.New(prog)
	if err != nil {
		res.Err = err
		return
	}
	ctx, cancel := context.WithTimeout(context.Background(), 10*time.Second)
	defer cancel()
	st, err := p.ExecuteContext(ctx, &c)
	res.Out, res.Status, res.Err = out.Bytes(), st, err
	return
}

func specLine(s specResult) string {
	ev := "-"
	if len(s.Events) > 0 {
		ev = strings.Join(s.Events, "|")
	}
	if s.Err {
		return "err " + ev
	}
	return fmt.Sprintf("ok %d %s", s.Status, ev)
}

// which equation of the property the first difference falls under
func diffOracle(want, got []string, wantSt, gotSt int, wantErr, gotErr bool) string {
	cols := []string{"", "tag", "NR counts the main-input records taken", "FNR restarts at each file", "FILENAME names the file being read",
		"$0 is the record / getline var leaves $0 alone", "NF goes with $0", "getline result", "variables (operand assignments, getline var)",
		"the fields go with $0 / getline var leaves the fields alone"}
	if len(want) != len(got) {
		return "which rules run on which records (patterns, ranges, next, nextfile, exit)"
	}
	for i := 0; i < len(want) && i < len(got); i++ {
		if want[i] == got[i] {
			continue
		}
		w, g := strings.Split(want[i], ","), strings.Split(got[i], ",")
		if w[0] != g[0] || len(w) != len(g) || (w[0] == "T" && w[1] != g[1]) {
			return "which rules run on which records (patterns, ranges, next, nextfile, exit)"
		}
		if w[0] == "P" {
			return "$0 is the record / getline var leaves $0 alone"
		}
		for k := 2; k < len(w) && k < len(cols); k++ {
			if w[k] != g[k] {
				return cols[k]
			}
		}
	}
	if len(want) != len(got) || wantErr != gotErr {
		return "which rules run on which records (patterns, ranges, next, nextfile, exit)"
	}
	if wantSt != gotSt {
		return "exit status is the last exit value"
	}
	return ""
}

func features(c *Case) string {
	f := map[string]bool{}
	var walk func(b []Stmt)
	walk = func(b []Stmt) {
		for _, s := range b {
			switch s.Op {
			case "G", "W":
				f["getline"] = true
			case "N", "NF":
				f["next"] = true
			case "X", "XN":
				f["exit"] = true
			case "SARGC", "SARGV", "DARGV":
				f["argv-edit"] = true
			case "SNR", "SFNR":
				f["nr-assign"] = true
			}
			walk(s.A)
			walk(s.B)
		}
	}
	walk(c.P.Begin)
	walk(c.P.End)
	for _, r := range c.P.Rules {
		walk(r.Body)
		walk(r.P1.Pre)
		walk(r.P2.Pre)
		if r.Kind == "pr" {
			f["range"] = true
		}
	}
	for _, fn := range c.P.Funcs {
		walk(fn.Body)
	}
	var out []string
	for _, k := range []string{"range", "getline", "next", "exit", "argv-edit", "nr-assign"} {
		if f[k] {
			out = append(out, k)
		}
	}
	if c.Mode != "" {
		out = append(out, c.Mode+"-input")
	}
	if len(out) == 0 {
		return "plain"
	}
	return strings.Join(out, "+")
}

func detail(c *Case, extra map[string]any) map[string]any {
	cj, _ := json.Marshal(c)
	d := map[string]any{"program": c.src(), "args": c.Args, "stdin_records": c.Stdin, "files": c.Files, "noargvars": c.NoArgVars,
		"no_trailing_newline": c.NoNL, "input_mode": c.Mode, "input_mode_set_by": c.ModeVia, "model_line": c.wire(), "case_json": string(cj)}
	for k, v := range extra {
		d[k] = v
	}
	return d
}

// pure range check: rules whose two patterns are side-effect-free conditions on $0 only ("has"),
// in scripts where nothing but the main loop touches $0: the records selected must be the segments.
func rangeOracle(c *Case, impl implResult, rep *hx.Report) {
	if !strings.HasPrefix(c.Family, "sys-range") || len(c.P.Rules) != 1 || len(c.Args) != 1 {
		return
	}
	r := c.P.Rules[0]
	if r.Kind != "pr" || r.P1.C.Op != "has" || r.P2.C.Op != "has" || len(r.P1.Pre)+len(r.P2.Pre) > 0 {
		return
	}
	var recs []string
	for _, f := range c.Files {
		if f.Name == c.Args[0] {
			recs = f.Recs
		}
	}
	p1, p2 := make([]bool, len(recs)), make([]bool, len(recs))
	for i, rec := range recs {
		p1[i] = strings.IndexByte(rec, byte(r.P1.C.K)) >= 0
		p2[i] = strings.IndexByte(rec, byte(r.P2.C.K)) >= 0
	}
	sel := specRange(p1, p2)
	var want []string
	for i, s := range sel {
		if s {
			want = append(want, fmt.Sprintf("%d:%s", i+1, hx.HexS(recs[i])))
		}
	}
	var got []string
	for _, e := range impl.Events {
		p := strings.Split(e, ",")
		if p[0] == "T" {
			got = append(got, p[2]+":"+p[5])
		}
	}
	rep.SearchEvals++
	if strings.Join(want, " ") != strings.Join(got, " ") || impl.Err != "" {
		rep.Fail(hx.Failure{Class: "range-pure-patterns", Oracle: "range selects the segments from a start record through the next stop record inclusive",
			Detail: detail(c, map[string]any{"want_selected": want, "got_selected": got, "impl_error": impl.Err})})
	}
}

func evaluate(c *Case, impl implResult, model string, rep *hx.Report) {
	line := c.wire()
	rep.CorrEvals++
	rep.Count("family:" + c.Family)
	rep.Count("features:" + features(c))
	if len(impl.Events) > 0 {
		rep.Distinct(line)
	}
	if strings.HasPrefix(impl.Err, "harness:") {
		rep.HarnessError("%s", impl.Err)
		return
	}
	if strings.HasPrefix(impl.Err, "parse error") {
		rep.HarnessError("generated program does not parse: %s\n%s", impl.Err, c.src())
		return
	}
	il := impl.line()
	switch {
	case model == "":
	case model == "unmod":
		rep.Unmodelled++
		rep.Count("unmodelled")
	case model == "fuel" || strings.HasPrefix(model, "driver-error"):
		rep.HarnessError("model answered %q for %s", model, line)
	case model != il:
		rep.Mismatch(hx.Mismatch{Class: c.Family + ":" + features(c), Input: line, Impl: il, Model: model, Note: c.src() + "\nerr=" + impl.Err})
	}
	// search
	rep.SearchEvals++
	if impl.Panic != "" {
		rep.Fail(hx.Failure{Class: "panic:" + features(c), Oracle: "no-panic", Detail: detail(c, map[string]any{"panic": impl.Panic})})
		return
	}
	spec := specRun(c)
	if spec.Unsupported {
		rep.Count("spec-declined")
	} else if sl := specLine(spec); sl != il {
		class := "general:" + features(c)
		switch {
		case spec.NextInPattern:
			class = "next-or-nextfile-reached-from-a-pattern-expression"
		case spec.NewlineAssign:
			class = "assignment-operand-value-contains-newline"
		}
		rep.Fail(hx.Failure{Class: class, Oracle: diffOracle(spec.Events, impl.Events, spec.Status, impl.Status, spec.Err, impl.Err != ""),
			Detail: detail(c, map[string]any{"want": sl, "got": il, "impl_error": impl.Err})})
	}
	rangeOracle(c, impl, rep)
}

func main() {
	o := hx.ParseFlags()
	rep := hx.NewReport("C11", o.Seed, o.Tier)
	rep.Rule = "systematic: every operand kind alone/in pairs/between files; 6 getline sources x 6 targets x {BEGIN, rule, END, function, while} x 3 operand lists; range /S/,/E/ over all 341 record sequences of length <= 4 over {plain,S,E,S E}; next/nextfile/exit x 5 nesting shapes x {rule, BEGIN, END, pattern}; exit-status grid; ARGV/ARGC edits. random: scripts by family (operands, range, getline, control, argv, mixed, hostile) over 3 files of <= 4 records, stdin, 4 commands; reused-interpreter histories: interp.New once, 2-3 Execute calls with none / ResetVars / ResetVars+ResetRand between (14 program shapes with one, two, three range rules, exit/nextfile/next/error while a range is open, getline bookkeeping, getline <file left open, ARGV/ARGC edits at run time, NR assigned) x 5 input sequences x 3 reset modes, plus random programs with fresh inputs per run), every run compared with the model's script_history and the fresh-run reference; input mode default / CSV / TSV (Config.InputMode or INPUTMODE assigned in BEGIN) as a dimension of every random case and history run, and systematically x getline source (main, file, the stdin file, command) x target (global, array element, function local, $0, $2) x {a field was / was not used before the getline} x {rule, pattern rule, range rule, END}; every trace shows $0, NF, all fields, NR, FNR, FILENAME, the getline result and the variables; distinct = distinct model request; non-trivial = the implementation produced at least one trace or print event"
	outPath, _ := filepath.Abs(o.Out)
	modelrun := o.ModelRun
	if modelrun != "" {
		modelrun, _ = filepath.Abs(modelrun)
	}
	replay := o.Replay
	if replay != "" {
		replay, _ = filepath.Abs(replay)
	}
	dir, err := os.MkdirTemp("", "c11-")
	if err != nil {
		rep.HarnessError("%v", err)
		rep.Write(outPath)
		return
	}
	defer os.RemoveAll(dir)
	if err := os.Chdir(dir); err != nil {
		rep.HarnessError("%v", err)
		rep.Write(outPath)
		return
	}

	if replay != "" {
		code := doReplay(replay, modelrun)
		os.RemoveAll(dir)
		os.Exit(code)
	}

	// hx.NewRand(k+1) is hx.NewRand(k) shifted by one draw; mix the seed so that seeds give unrelated streams
	r := hx.NewRand(hx.NewRand(o.Seed).U64())
	cases := genSystematic()
	n := o.N
	if n == 0 {
		n = 1500
		if o.Tier == "thorough" {
			n = 60000
		}
	}
	fams := []string{"operands", "range", "getline", "control", "argv", "mixed", "mixed", "hostile"}
	for i := 0; i < n; i++ {
		cases = append(cases, genRandom(r, fams[i%len(fams)]))
	}
	impls := make([]implResult, len(cases))
	lines := make([]string, len(cases))
	for i, c := range cases {
		if specRun(c).Runaway {
			fmt.Fprintln(os.Stderr, "RUNAWAY:\n"+c.src())
			rep.HarnessError("generated script does not terminate: %s", c.wire())
			c.P = Prog{}
		}
		if os.Getenv("C11_DEBUG") != "" {
			os.WriteFile("/tmp/c11_last.awk", []byte(fmt.Sprintf("# case %d args %q stdin %q files %v\n%s", i, c.Args, c.Stdin, c.Files, c.src())), 0o644)
		}
		impls[i] = runImpl(c)
		lines[i] = c.wire()
	}
	var models []string
	if modelrun != "" {
		models, err = hx.ModelEval(modelrun, lines)
		if err != nil {
			rep.HarnessError("%v", err)
		}
	}
	for i, c := range cases {
		m := ""
		if models != nil {
			m = models[i]
		}
		evaluate(c, impls[i], m, rep)
		if i%499 == 0 {
			rep.Sample(map[string]any{"program": c.src(), "args": c.Args, "impl": impls[i].line()})
		}
	}
	runHistories(rep, o, r, modelrun)
	runLong(rep, o.Tier)
	rep.Write(outPath)
}

func doReplay(path, modelrun string) int {
	b, err := os.ReadFile(path)
	if err != nil {
		fmt.Println("replay:", err)
		return 2
	}
	var doc struct {
		Failure struct {
			Class  string         `json:"class"`
			Oracle string         `json:"oracle"`
			Detail map[string]any `json:"detail"`
		} `json:"failure"`
	}
	if err := json.Unmarshal(b, &doc); err != nil {
		fmt.Println("replay:", err)
		return 2
	}
	if hj, ok := doc.Failure.Detail["history_json"].(string); ok {
		return replayHistory(hj, modelrun)
	}
	cj, _ := doc.Failure.Detail["case_json"].(string)
	var c Case
	if err := json.Unmarshal([]byte(cj), &c); err != nil {
		fmt.Println("replay: no case_json in the failure detail:", err)
		return 2
	}
	impl := runImpl(&c)
	spec := specRun(&c)
	fmt.Println("program:\n" + c.src())
	fmt.Printf("args: %q\nstdin: %q\n", c.Args, c.Stdin)
	fmt.Println("expected:", specLine(spec))
	fmt.Println("got:     ", impl.line(), impl.Err)
	if modelrun != "" {
		if m, err := hx.ModelEval(modelrun, []string{c.wire()}); err == nil {
			fmt.Println("model:   ", m[0])
		}
	}
	rep := hx.NewReport("C11", 0, "replay")
	evaluate(&c, impl, "", rep)
	if len(rep.Failures) > 0 {
		fmt.Println("still fails:", rep.Failures[0].Class, "/", rep.Failures[0].Oracle)
		return 1
	}
	fmt.Println("no longer fails")
	return 0
}
