// Reference evaluator for the C11 search oracle: what the property text says a
// script must do, written directly (recursive interpreter, panics for control
// flow) and independently of the Coq model.  Where the property is silent
// (unopenable files, next in BEGIN, "-" given twice ...) it follows POSIX/gawk
// conventions that the implementation shares.
package main

import (
	"fmt"
	"strconv"
	"strings"

	"verif/harness/hx"
)

type specResult struct {
	Events []string
	Status int
	Err    bool
	// dynamic features used to classify a failing case
	NextInPattern bool // next/nextfile executed while a pattern expression was being evaluated
	NewlineAssign bool // a var=value operand whose value contains a line feed was applied
	Unsupported   bool // the reference declines (special-variable operands other than NR/FNR)
	Runaway       bool // generator error: the script does not terminate
}

type ctlNext struct{}
type ctlNextfile struct{}
type ctlExit struct{}
type ctlErr struct{}
type ctlUnsupported struct{}
type ctlRunaway struct{}

type specState struct {
	c      *Case
	argv   map[int]string
	argc   int
	opnd   int  // next operand to look at
	sawSrc bool // a file operand (or the default stdin) has been opened
	// current main input
	open    bool
	curName string
	curRecs []string
	stdin   []string // what nobody has taken yet
	nr, fnr int
	fname   string
	line    string
	flds    []string
	vars    map[string]string
	streams map[string][]string
	dashRd  *[]string
	ret     int
	status  int
	inPat   bool
	steps   int
	res     *specResult
}

func specFields(s string) []string { // interp.splitBlanks: space, tab, newline
	return strings.FieldsFunc(s, func(r rune) bool { return r == ' ' || r == '\t' || r == '\n' })
}

// fieldsOf: the fields of a record in the run's input mode
func (s *specState) fieldsOf(l string) []string {
	if sep := s.c.modeSep(); sep != 0 {
		if l == "" {
			return nil
		}
		return strings.Split(l, string(rune(sep)))
	}
	return specFields(l)
}

func (s *specState) file(name string) ([]string, bool) {
	for _, f := range s.c.Files {
		if f.Name == name {
			return s.c.recs(f.Recs), true
		}
	}
	return nil, false
}

func specUnescape(v string) string {
	// POSIX: the value of an assignment operand is processed like a STRING token
	var sb strings.Builder
	for i := 0; i < len(v); i++ {
		c := v[i]
		if c != '\\' {
			sb.WriteByte(c)
			continue
		}
		i++
		if i >= len(v) {
			sb.WriteByte('\\')
			break
		}
		switch d := v[i]; {
		case d == 'n':
			sb.WriteByte('\n')
		case d == 't':
			sb.WriteByte('\t')
		case d == 'r':
			sb.WriteByte('\r')
		case d == 'a':
			sb.WriteByte(7)
		case d == 'b':
			sb.WriteByte(8)
		case d == 'f':
			sb.WriteByte(12)
		case d == 'v':
			sb.WriteByte(11)
		case d >= '0' && d <= '7':
			n := int(d - '0')
			for k := 0; k < 2 && i+1 < len(v) && v[i+1] >= '0' && v[i+1] <= '7'; k++ {
				i++
				n = n*8 + int(v[i]-'0')
			}
			sb.WriteByte(byte(n))
		default:
			sb.WriteByte(d)
		}
	}
	return sb.String()
}

func isName(s string) bool {
	if s == "" {
		return false
	}
	for i := 0; i < len(s); i++ {
		c := s[i]
		ok := c == '_' || (c >= 'a' && c <= 'z') || (c >= 'A' && c <= 'Z') || (i > 0 && c >= '0' && c <= '9')
		if !ok {
			return false
		}
	}
	return true
}

// nextRecord: the next record of the main input, walking the operands left to right.
// ok=false at the end of all input; bad=true if an operand cannot be opened.
func (s *specState) nextRecord() (rec string, ok bool, bad bool) {
	for {
		if s.open {
			if len(s.curRecs) > 0 {
				rec = s.curRecs[0]
				s.curRecs = s.curRecs[1:]
				s.nr++
				s.fnr++
				return rec, true, false
			}
			s.open = false
		}
		if s.opnd >= s.argc {
			if s.sawSrc {
				return "", false, false
			}
			// no file operand at all: standard input
			s.sawSrc = true
			s.open, s.curName, s.curRecs, s.stdin = true, "-", s.stdin, nil
			s.fname, s.fnr = "-", 0
			continue
		}
		op := s.argv[s.opnd]
		s.opnd++
		if eq := strings.IndexByte(op, '='); eq > 0 && isName(op[:eq]) && !s.c.NoArgVars {
			name, val := op[:eq], op[eq+1:]
			if strings.ContainsAny(val, "\n") {
				s.res.NewlineAssign = true
			}
			if strings.Contains(val, "\\x") || strings.Contains(val, "\\u") || strings.Contains(val, "\r") {
				panic(ctlUnsupported{})
			}
			// a value with a raw line feed is taken verbatim, as the -v option does (the property is
			// silent on escape processing; the whole value must arrive)
			if !strings.Contains(val, "\n") {
				val = specUnescape(val)
			}
			switch {
			case name == "NR" || name == "FNR":
				n, err := strconv.Atoi(val)
				if err != nil || strconv.Itoa(n) != val {
					panic(ctlUnsupported{})
				}
				if name == "NR" {
					s.nr = n
				} else {
					s.fnr = n
				}
			case name == "ARGC":
				// setVarByName assigns the special variable at once: the operand walk of this very
				// nextLine call goes on with the new operand count
				n, err := strconv.Atoi(val)
				if err != nil || strconv.Itoa(n) != val {
					panic(ctlUnsupported{})
				}
				s.argc = n
			case strings.ToUpper(name) == name:
				panic(ctlUnsupported{})
			default:
				for _, g := range globalNames {
					if g == name {
						s.vars[name] = val
					}
				}
			}
			continue
		}
		if op == "" {
			continue
		}
		if op == "-" {
			s.sawSrc = true
			s.open, s.curName, s.curRecs, s.stdin = true, "-", s.stdin, nil
			s.fname, s.fnr = "-", 0
			continue
		}
		recs, exists := s.file(op)
		if !exists {
			return "", false, true
		}
		s.sawSrc = true
		s.open, s.curName, s.curRecs = true, op, recs
		s.fname, s.fnr = op, 0
	}
}

func (s *specState) setLine(l string) { s.line, s.flds = l, s.fieldsOf(l) }

func (s *specState) getline(src Src, tgt Tgt) {
	var rec string
	ret := 0
	switch src.K {
	case 'm':
		r, ok, bad := s.nextRecord()
		switch {
		case bad:
			ret = -1
		case ok:
			ret, rec = 1, r
		}
	case 'f':
		if st, ok := s.streams[src.Name]; ok {
			if len(st) > 0 {
				ret, rec, s.streams[src.Name] = 1, st[0], st[1:]
			}
		} else if src.Name == "-" {
			if s.dashRd == nil {
				taken := s.stdin
				s.stdin = nil
				s.dashRd = &taken
			}
			if len(*s.dashRd) > 0 {
				ret, rec = 1, (*s.dashRd)[0]
				*s.dashRd = (*s.dashRd)[1:]
			}
		} else if recs, ok := s.file(src.Name); ok {
			s.streams[src.Name] = recs
			if len(recs) > 0 {
				ret, rec, s.streams[src.Name] = 1, recs[0], recs[1:]
			}
		} else {
			ret = -1
		}
	case 'c':
		st, ok := s.streams[src.Name]
		if !ok {
			for _, c := range s.c.Cmds {
				if c.Name == src.Name {
					st = s.c.recs(c.Recs)
				}
			}
		}
		if len(st) > 0 {
			ret, rec, st = 1, st[0], st[1:]
		}
		s.streams[src.Name] = st
	}
	s.ret = ret
	if ret != 1 {
		return
	}
	switch tgt.K {
	case 'l':
		s.setLine(rec)
	case 'v':
		s.vars[tgt.Name] = rec
	case 'd':
		if tgt.N == 0 {
			s.setLine(rec)
		} else {
			for len(s.flds) < tgt.N {
				s.flds = append(s.flds, "")
			}
			f := append([]string{}, s.flds...)
			f[tgt.N-1] = rec
			s.flds = f
			s.line = strings.Join(f, " ")
		}
	}
}

func (s *specState) cond(c *Cond) bool {
	switch c.Op {
	case "t":
		return true
	case "nr":
		return s.nr == c.K
	case "nrmod":
		return c.M > 0 && s.nr%c.M == c.K
	case "fnr":
		return s.fnr == c.K
	case "nf":
		return len(s.flds) == c.K
	case "has":
		return strings.IndexByte(s.line, byte(c.K)) >= 0
	case "ret":
		return s.ret > 0
	case "veq":
		return s.vars[c.S1] == c.S2
	case "not":
		return !s.cond(c.A)
	case "and":
		return s.cond(c.A) && s.cond(c.B)
	case "or":
		return s.cond(c.A) || s.cond(c.B)
	}
	panic("cond")
}

func (s *specState) emitTrace(tag int, names []string) {
	vals := "-"
	if len(names) > 0 {
		hs := make([]string, len(names))
		for i, n := range names {
			hs[i] = hx.HexS(s.vars[n])
		}
		vals = strings.Join(hs, ":")
	}
	fl := "-"
	if len(s.flds) > 0 {
		hs := make([]string, len(s.flds))
		for i, f := range s.flds {
			hs[i] = hx.HexS(f)
		}
		fl = strings.Join(hs, "/")
	}
	s.res.Events = append(s.res.Events, fmt.Sprintf("T,%d,%d,%d,%s,%s,%d,%d,%s,%s", tag, s.nr, s.fnr,
		hx.HexS(s.fname), hx.HexS(s.line), len(s.flds), s.ret, vals, fl))
}

// block runs statements; a pattern function's "return (cond)" yields its value through retv.
func (s *specState) block(b []Stmt) {
	for _, st := range b {
		s.stmt(st)
	}
}

func (s *specState) stmt(st Stmt) {
	s.steps++
	if s.steps > 200000 {
		panic(ctlRunaway{})
	}
	switch st.Op {
	case "T":
		s.emitTrace(st.Tag, st.Names)
	case "G":
		s.getline(st.Src, st.Tgt)
	case "CL":
		delete(s.streams, st.S1)
	case "IF":
		if s.cond(st.C) {
			s.block(st.A)
		} else {
			s.block(st.B)
		}
	case "W":
		for {
			s.steps++
			if s.steps > 200000 {
				panic(ctlRunaway{})
			}
			s.getline(st.Src, st.Tgt)
			if s.ret <= 0 {
				break
			}
			s.block(st.A)
		}
	case "R":
		for i := 0; i < st.N; i++ {
			s.block(st.A)
		}
	case "CALL":
		f := s.c.P.Funcs[st.N]
		s.vars[f.Local] = ""
		s.block(f.Body)
	case "N":
		if s.inPat {
			s.res.NextInPattern = true
		}
		panic(ctlNext{})
	case "NF":
		if s.inPat {
			s.res.NextInPattern = true
		}
		panic(ctlNextfile{})
	case "X":
		s.status = st.N
		panic(ctlExit{})
	case "XN":
		panic(ctlExit{})
	case "SNR":
		s.nr = st.N
	case "SFNR":
		s.fnr = st.N
	case "SARGC":
		s.argc = st.N
	case "SARGV":
		s.argv[st.N] = st.S1
	case "DARGV":
		delete(s.argv, st.N)
	case "SV":
		s.vars[st.S1] = st.S2
	case "SL":
		s.setLine(st.S1)
	default:
		panic("stmt " + st.Op)
	}
}

// guarded runs f and reports how it ended: "" normally, else next/nextfile/exit/err
func (s *specState) guarded(f func()) (how string) {
	defer func() {
		if r := recover(); r != nil {
			switch r.(type) {
			case ctlNext:
				how = "next"
			case ctlNextfile:
				how = "nextfile"
			case ctlExit:
				how = "exit"
			case ctlErr:
				how = "err"
			default:
				panic(r)
			}
		}
	}()
	f()
	return ""
}

func (s *specState) pattern(p Pattern) bool {
	s.inPat = true
	defer func() { s.inPat = false }()
	s.block(p.Pre)
	return s.cond(p.C)
}

func specRun(c *Case) (res specResult) {
	s := &specState{c: c, argv: map[int]string{0: "goawk"}, argc: len(c.Args) + 1, opnd: 1,
		stdin: c.recs(c.Stdin), vars: map[string]string{}, streams: map[string][]string{}, res: &res}
	for i, a := range c.Args {
		s.argv[i+1] = a
	}
	defer func() {
		if r := recover(); r != nil {
			if _, ok := r.(ctlUnsupported); ok {
				res.Unsupported = true
				return
			}
			if _, ok := r.(ctlRunaway); ok {
				res.Runaway = true
				return
			}
			panic(r)
		}
	}()
	finish := func(err bool) specResult {
		res.Status, res.Err = s.status, err
		if err {
			res.Status = 0
		}
		return res
	}
	exited := false
	switch s.guarded(func() { s.block(c.P.Begin) }) {
	case "exit":
		exited = true
	case "next", "nextfile", "err":
		return finish(true) // next outside the main rules: an error (gawk: fatal)
	}
	if len(c.P.Rules) == 0 && len(c.P.End) == 0 {
		return finish(false)
	}
	inRange := make([]bool, len(c.P.Rules))
	for !exited {
		rec, ok, bad := s.nextRecord()
		if bad {
			return finish(true)
		}
		if !ok {
			break
		}
		s.setLine(rec)
		how := s.guarded(func() {
			for i, r := range c.P.Rules {
				matched := true
				switch r.Kind {
				case "pe":
					matched = s.pattern(r.P1)
				case "pr":
					// from a record matching the first pattern through the next record matching the second, inclusive
					if !inRange[i] {
						inRange[i] = s.pattern(r.P1)
					}
					matched = inRange[i]
					if inRange[i] && s.pattern(r.P2) {
						inRange[i] = false
					}
				}
				if !matched {
					continue
				}
				if r.NoBody {
					res.Events = append(res.Events, "P,"+hx.HexS(s.line))
					continue
				}
				s.block(r.Body)
			}
		})
		switch how {
		case "nextfile":
			s.open = false // abandon the rest of the current file
		case "exit":
			exited = true
		case "err":
			return finish(true)
		}
	}
	switch s.guarded(func() { s.block(c.P.End) }) {
	case "next", "nextfile", "err":
		return finish(true)
	}
	return finish(false)
}

// specRange: the selected records of a range pattern with side-effect-free patterns,
// computed segment by segment (not with a flag): find the next start, then the next stop at or after it.
func specRange(p1, p2 []bool) []bool {
	sel := make([]bool, len(p1))
	i := 0
	for i < len(p1) {
		if !p1[i] {
			i++
			continue
		}
		j := i
		for j < len(p1) && !p2[j] {
			j++
		}
		for k := i; k <= j && k < len(p1); k++ {
			sel[k] = true
		}
		i = j + 1
	}
	return sel
}
