// Script language shared by the three sides of the C11 check:
// rendered as AWK text for the implementation, as wire tokens for the extracted
// Coq model (rocq/Model/Input.v, type stmt), and interpreted by spec.go.
package main

import (
	"fmt"
	"strings"

	"verif/harness/hx"
)

type Src struct {
	K    byte   // 'm' main input, 'f' file, 'c' command
	Name string // file name or command line
}

type Tgt struct {
	K    byte   // 'l' $0, 'v' variable, 'd' field
	Name string // lvalue text: g0, l1, a[0]
	N    int    // field index
}

type Cond struct {
	Op     string // t nr nrmod fnr nf has ret veq not and or
	K, M   int
	S1, S2 string
	A, B   *Cond
}

type Stmt struct {
	Op    string // T G CL IF W R CALL RET N NF X XN SNR SFNR SARGC SARGV DARGV SV SL
	Tag   int
	Names []string
	Src   Src
	Tgt   Tgt
	C     *Cond
	A, B  []Stmt
	N     int // repeat count, call index, exit value, NR value, ARGV index
	ID    int // loop counter id
	S1    string
	S2    string
}

type Pattern struct {
	Pre    []Stmt
	C      *Cond
	Inline bool // render the condition in place (only when Pre is empty)
}

type Rule struct {
	Kind   string // pn pe pr
	P1, P2 Pattern
	Body   []Stmt
	NoBody bool
}

type Func struct {
	Local string
	Body  []Stmt
}

type Prog struct {
	Begin []Stmt
	Rules []Rule
	End   []Stmt
	Funcs []Func
}

type NamedRecs struct {
	Name string
	Recs []string
}

type Case struct {
	Family    string
	Args      []string
	Stdin     []string
	Files     []NamedRecs // files that exist
	Cmds      []NamedRecs
	NoArgVars bool
	NoNL      bool // last record of each file is written without a trailing newline
	Mode      string // input mode: "" (default), "csv", "tsv"
	ModeVia   string // "config" (Config.InputMode) or "begin" (INPUTMODE assigned first thing in BEGIN)
	P         Prog
}

var globalNames = []string{"g0", "g1", "g2", "g3"}

// ---------- wire ----------

func (s Src) wire() string {
	switch s.K {
	case 'm':
		return "m"
	case 'f':
		return "f " + hx.HexS(s.Name)
	}
	return "c " + hx.HexS(s.Name)
}

func (t Tgt) wire() string {
	switch t.K {
	case 'l':
		return "l"
	case 'v':
		return "v " + hx.HexS(t.Name)
	}
	return fmt.Sprintf("d %d", t.N)
}

func (c *Cond) wire() string {
	switch c.Op {
	case "t", "ret":
		return c.Op
	case "nr", "fnr", "nf", "has":
		return fmt.Sprintf("%s %d", c.Op, c.K)
	case "nrmod":
		return fmt.Sprintf("nrmod %d %d", c.M, c.K)
	case "veq":
		return "veq " + hx.HexS(c.S1) + " " + hx.HexS(c.S2)
	case "not":
		return "not " + c.A.wire()
	case "and", "or":
		return c.Op + " " + c.A.wire() + " " + c.B.wire()
	}
	panic("cond " + c.Op)
}

func wireBlock(b []Stmt) string {
	var sb strings.Builder
	sb.WriteString("{")
	for _, s := range b {
		sb.WriteString(" ")
		sb.WriteString(s.wire())
	}
	sb.WriteString(" }")
	return sb.String()
}

func (s Stmt) wire() string {
	switch s.Op {
	case "T":
		hs := make([]string, len(s.Names))
		for i, n := range s.Names {
			hs[i] = hx.HexS(n)
		}
		return fmt.Sprintf("T %d ( %s )", s.Tag, strings.Join(hs, " "))
	case "G":
		return "G " + s.Src.wire() + " " + s.Tgt.wire()
	case "CL":
		return "CL " + hx.HexS(s.S1)
	case "IF":
		return "IF " + s.C.wire() + " " + wireBlock(s.A) + " " + wireBlock(s.B)
	case "W":
		return "W " + s.Src.wire() + " " + s.Tgt.wire() + " " + wireBlock(s.A)
	case "R":
		return fmt.Sprintf("R %d %s", s.N, wireBlock(s.A))
	case "CALL":
		return fmt.Sprintf("CALL %d", s.N)
	case "N", "NF", "XN":
		return s.Op
	case "X", "SNR", "SFNR", "SARGC", "DARGV":
		return fmt.Sprintf("%s %d", s.Op, s.N)
	case "SARGV":
		return fmt.Sprintf("SARGV %d %s", s.N, hx.HexS(s.S1))
	case "SV":
		return "SV " + hx.HexS(s.S1) + " " + hx.HexS(s.S2)
	case "SL":
		return "SL " + hx.HexS(s.S1)
	}
	panic("stmt " + s.Op)
}

func (p Pattern) wire() string { return wireBlock(p.Pre) + " " + p.C.wire() }

func wireNamed(tag string, l []NamedRecs) string {
	var sb strings.Builder
	fmt.Fprintf(&sb, "%s %d", tag, len(l))
	for _, f := range l {
		fmt.Fprintf(&sb, " %s %d", hx.HexS(f.Name), len(f.Recs))
		for _, r := range f.Recs {
			sb.WriteString(" " + hx.HexS(r))
		}
	}
	return sb.String()
}

func wireStrs(tag string, l []string) string {
	var sb strings.Builder
	fmt.Fprintf(&sb, "%s %d", tag, len(l))
	for _, s := range l {
		sb.WriteString(" " + hx.HexS(s))
	}
	return sb.String()
}

const modelFuel = 20000

// modeSep: 0 in default mode, else the field separator of the CSV/TSV splitter
func (c *Case) modeSep() int {
	switch c.Mode {
	case "csv":
		return ','
	case "tsv":
		return '\t'
	}
	return 0
}

// recs: the records a reader gets from these lines in the case's input mode: the CSV/TSV record
// splitter skips empty lines (record splitting itself is C07/C08's business; data has no quotes)
func (c *Case) recs(l []string) []string {
	if c.Mode == "" {
		return l
	}
	var out []string
	for _, r := range l {
		if r != "" {
			out = append(out, r)
		}
	}
	return out
}

func (c *Case) namedRecs(l []NamedRecs) []NamedRecs {
	if c.Mode == "" {
		return l
	}
	out := make([]NamedRecs, len(l))
	for i, f := range l {
		out[i] = NamedRecs{f.Name, c.recs(f.Recs)}
	}
	return out
}

// src: the AWK text of the case
func (c *Case) src() string { return c.P.awkP(c.modePrologue()) }

func (c *Case) modePrologue() string {
	if c.Mode != "" && c.ModeVia == "begin" {
		return fmt.Sprintf("BEGIN { INPUTMODE = %q }\n", c.Mode)
	}
	return ""
}

func (c *Case) wire() string {
	var sb strings.Builder
	nav := 0
	if c.NoArgVars {
		nav = 1
	}
	fmt.Fprintf(&sb, "run %d %d %d %s %s %s %s %s ", nav, c.modeSep(), modelFuel, wireStrs("A", c.Args), wireStrs("I", c.recs(c.Stdin)),
		wireNamed("F", c.namedRecs(c.Files)), wireNamed("C", c.namedRecs(c.Cmds)), wireStrs("G", globalNames))
	sb.WriteString(c.wireProg())
	return sb.String()
}

// wireProg: the program part of a model request
func (c *Case) wireProg() string {
	var sb strings.Builder
	sb.WriteString("B " + wireBlock(c.P.Begin))
	fmt.Fprintf(&sb, " RULES %d", len(c.P.Rules))
	for _, r := range c.P.Rules {
		switch r.Kind {
		case "pn":
			sb.WriteString(" pn")
		case "pe":
			sb.WriteString(" pe " + r.P1.wire())
		case "pr":
			sb.WriteString(" pr " + r.P1.wire() + " " + r.P2.wire())
		}
		if r.NoBody {
			sb.WriteString(" nb")
		} else {
			sb.WriteString(" b " + wireBlock(r.Body))
		}
	}
	sb.WriteString(" E " + wireBlock(c.P.End))
	fmt.Fprintf(&sb, " FUNCS %d", len(c.P.Funcs))
	for _, f := range c.P.Funcs {
		sb.WriteString(" " + hx.HexS(f.Local) + " " + wireBlock(f.Body))
	}
	return sb.String()
}

// ---------- AWK text ----------

func awkStr(s string) string {
	var sb strings.Builder
	sb.WriteByte('"')
	for i := 0; i < len(s); i++ {
		c := s[i]
		switch {
		case c == '"' || c == '\\':
			sb.WriteByte('\\')
			sb.WriteByte(c)
		case c == '\n':
			sb.WriteString("\\n")
		case c == '\t':
			sb.WriteString("\\t")
		case c < 32 || c >= 127:
			fmt.Fprintf(&sb, "\\%03o", c)
		default:
			sb.WriteByte(c)
		}
	}
	sb.WriteByte('"')
	return sb.String()
}

func getlineExpr(s Src, t Tgt) string {
	tg := ""
	switch t.K {
	case 'v':
		tg = " " + t.Name
	case 'd':
		tg = fmt.Sprintf(" $%d", t.N)
	}
	switch s.K {
	case 'm':
		return "getline" + tg
	case 'f':
		return "getline" + tg + " < " + awkStr(s.Name)
	}
	return awkStr(s.Name) + " | getline" + tg
}

func (c *Cond) awk() string {
	switch c.Op {
	case "t":
		return "1"
	case "nr":
		return fmt.Sprintf("NR == %d", c.K)
	case "nrmod":
		return fmt.Sprintf("NR %% %d == %d", c.M, c.K)
	case "fnr":
		return fmt.Sprintf("FNR == %d", c.K)
	case "nf":
		return fmt.Sprintf("NF == %d", c.K)
	case "has":
		return fmt.Sprintf("index($0, %s) > 0", awkStr(string(rune(c.K))))
	case "ret":
		return "r > 0"
	case "veq":
		return fmt.Sprintf("(%s \"\") == %s", c.S1, awkStr(c.S2))
	case "not":
		return "!(" + c.A.awk() + ")"
	case "and":
		return "((" + c.A.awk() + ") && (" + c.B.awk() + "))"
	case "or":
		return "((" + c.A.awk() + ") || (" + c.B.awk() + "))"
	}
	panic("cond " + c.Op)
}

func awkBlock(b []Stmt, ind string) string {
	var sb strings.Builder
	for _, s := range b {
		sb.WriteString(s.awk(ind))
	}
	return sb.String()
}

func (s Stmt) awk(ind string) string {
	in2 := ind + "  "
	switch s.Op {
	case "T":
		vals := `"-"`
		if len(s.Names) > 0 {
			parts := make([]string, len(s.Names))
			for i, n := range s.Names {
				parts[i] = "H(" + n + ")"
			}
			vals = strings.Join(parts, ` ":" `)
		}
		return fmt.Sprintf("%sT(%d, %s)\n", ind, s.Tag, vals)
	case "G":
		return fmt.Sprintf("%sr = (%s)\n", ind, getlineExpr(s.Src, s.Tgt))
	case "CL":
		return fmt.Sprintf("%sclose(%s)\n", ind, awkStr(s.S1))
	case "IF":
		out := fmt.Sprintf("%sif (%s) {\n%s%s}", ind, s.C.awk(), awkBlock(s.A, in2), ind)
		if len(s.B) > 0 {
			out += fmt.Sprintf(" else {\n%s%s}", awkBlock(s.B, in2), ind)
		}
		return out + "\n"
	case "W":
		return fmt.Sprintf("%swhile ((r = (%s)) > 0) {\n%s%s}\n", ind, getlineExpr(s.Src, s.Tgt), awkBlock(s.A, in2), ind)
	case "R":
		return fmt.Sprintf("%sfor (c%d = 0; c%d < %d; c%d++) {\n%s%s}\n", ind, s.ID, s.ID, s.N, s.ID, awkBlock(s.A, in2), ind)
	case "CALL":
		return fmt.Sprintf("%sf%d()\n", ind, s.N)
	case "N":
		return ind + "next\n"
	case "NF":
		return ind + "nextfile\n"
	case "X":
		return fmt.Sprintf("%sexit %d\n", ind, s.N)
	case "XN":
		return ind + "exit\n"
	case "SNR":
		return fmt.Sprintf("%sNR = %d\n", ind, s.N)
	case "SFNR":
		return fmt.Sprintf("%sFNR = %d\n", ind, s.N)
	case "SARGC":
		return fmt.Sprintf("%sARGC = %d\n", ind, s.N)
	case "SARGV":
		return fmt.Sprintf("%sARGV[%d] = %s\n", ind, s.N, awkStr(s.S1))
	case "DARGV":
		return fmt.Sprintf("%sdelete ARGV[%d]\n", ind, s.N)
	case "SV":
		return fmt.Sprintf("%s%s = %s\n", ind, s.S1, awkStr(s.S2))
	case "SL":
		return fmt.Sprintf("%s$0 = %s\n", ind, awkStr(s.S1))
	}
	panic("stmt " + s.Op)
}

func (p *Prog) awk() string { return p.awkP("") }

// awkP: the program text with an AWK-only first BEGIN block (used by the reused-interpreter histories)
func (p *Prog) awkP(prologue string) string {
	var sb strings.Builder
	sb.WriteString("function T(tag, vals,   k_, fl_) { fl_ = \"-\"; for (k_ = 1; k_ <= NF; k_++) fl_ = (k_ > 1 ? fl_ \"/\" : \"\") H($k_); " +
		"print \"T,\" tag \",\" NR \",\" FNR \",\" H(FILENAME) \",\" H($0) \",\" NF \",\" (r+0) \",\" vals \",\" fl_ }\n")
	sb.WriteString("function zz_() { return g0 g1 g2 g3 a[0] a[1] }\n")
	for i, f := range p.Funcs {
		fmt.Fprintf(&sb, "function f%d(%s) {\n%s}\n", i, f.Local, awkBlock(f.Body, "  "))
	}
	pat := func(i, j int, q Pattern) string {
		if q.Inline && len(q.Pre) == 0 {
			return "(" + q.C.awk() + ")"
		}
		fmt.Fprintf(&sb, "function p%d_%d() {\n%s  return (%s)\n}\n", i, j, awkBlock(q.Pre, "  "), q.C.awk())
		return fmt.Sprintf("p%d_%d()", i, j)
	}
	var rules strings.Builder
	rules.WriteString(prologue)
	if len(p.Begin) > 0 {
		fmt.Fprintf(&rules, "BEGIN {\n%s}\n", awkBlock(p.Begin, "  "))
	}
	for i, r := range p.Rules {
		switch r.Kind {
		case "pe":
			rules.WriteString(pat(i, 0, r.P1))
		case "pr":
			rules.WriteString(pat(i, 0, r.P1) + ", " + pat(i, 1, r.P2))
		}
		if r.NoBody {
			rules.WriteString("\n")
		} else {
			if r.Kind != "pn" {
				rules.WriteString(" ")
			}
			fmt.Fprintf(&rules, "{\n%s}\n", awkBlock(r.Body, "  "))
		}
	}
	if len(p.End) > 0 {
		fmt.Fprintf(&rules, "END {\n%s}\n", awkBlock(p.End, "  "))
	}
	return sb.String() + rules.String()
}
