// Reused-interpreter histories: interp.New once, then two or three Execute calls of the same
// program on different operands / files / stdin, with and without ResetVars / ResetRand between
// them.  Every run must equal the FRESH run of the program on that run's input: the model's
// script_history (C11_script_history_is_fresh) and the reference evaluator both start each run
// from the initial input state.  What may legitimately survive without ResetVars are the
// program's variables; the AWK-only prologue below re-initialises the ones the scripts use, so the
// comparison with a fresh run is exact in both modes.
package main

import (
	"bytes"
	"context"
	"encoding/json"
	"fmt"
	"strings"
	"time"

	"github.com/benhoyt/goawk/interp"
	"github.com/benhoyt/goawk/parser"
	"verif/harness/hx"
)

type History struct {
	Name  string
	Reset string // "none": nothing between the runs; "vars": ResetVars; "vars+rand": ResetVars and ResetRand
	P     Prog
	Runs  []*Case // inputs of each run (their P is the history's P)
}

// Without ResetVars the globals of the previous run are still there (documented).  Give them the
// values a fresh interpreter has, and drop ARGV elements beyond ARGC left by a longer operand list.
const noResetPrologue = "BEGIN { r = 0; g0 = \"\"; g1 = \"\"; g2 = \"\"; g3 = \"\"; delete a; for (zk_ = ARGC; zk_ < 16; zk_++) delete ARGV[zk_] }\n"

func (h *History) src() string {
	pro := h.Runs[0].modePrologue() // INPUTMODE assigned in BEGIN: the same mode in every run
	if h.Reset == "none" {
		pro += noResetPrologue
	}
	return h.P.awkP(pro)
}

func (h *History) wire() string {
	var sb strings.Builder
	fmt.Fprintf(&sb, "hist %d %s ", modelFuel, wireStrs("G", globalNames))
	sb.WriteString(h.Runs[0].wireProg())
	fmt.Fprintf(&sb, " K %d", len(h.Runs))
	for _, c := range h.Runs {
		nav := 0
		if c.NoArgVars {
			nav = 1
		}
		fmt.Fprintf(&sb, " %d %d %s %s %s %s", nav, c.modeSep(), wireStrs("A", c.Args), wireStrs("I", c.recs(c.Stdin)),
			wireNamed("F", c.namedRecs(c.Files)), wireNamed("C", c.namedRecs(c.Cmds)))
	}
	return sb.String()
}

// runHistoryImpl: one Interpreter, len(Runs) Execute calls
func runHistoryImpl(h *History) (res []implResult, herr error) {
	funcs := map[string]any{"H": func(s string) string { return hx.HexS(s) }}
	prog, err := parser.ParseProgram([]byte(h.src()), &parser.ParserConfig{Funcs: funcs})
	if err != nil {
		return nil, fmt.Errorf("generated program does not parse: %v\n%s", err, h.src())
	}
	ip, err := interp.New(prog)
	if err != nil {
		return nil, err
	}
	for k, c := range h.Runs {
		if k > 0 {
			switch h.Reset {
			case "vars":
				ip.ResetVars()
			case "vars+rand":
				ip.ResetVars()
				ip.ResetRand()
			}
		}
		in, err := prepareInputs(c)
		if err != nil {
			return nil, err
		}
		var r implResult
		func() {
			defer in.Close()
			defer func() {
				if p := recover(); p != nil {
					r.Panic = fmt.Sprint(p)
				}
			}()
			var out bytes.Buffer
			cfg := &interp.Config{Stdin: in, Output: &out, Error: new(strings.Builder), Args: c.Args, Argv0: "goawk", Funcs: funcs,
				NoArgVars: c.NoArgVars, Environ: []string{}, InputMode: configMode(c)}
			ctx, cancel := context.WithTimeout(context.Background(), 10*time.Second)
			defer cancel()
			st, err := ip.ExecuteContext(ctx, cfg)
			r.Raw = out.String()
			r.Events = parseEvents(out.Bytes())
			r.Status = st
			if err != nil {
				r.Err = err.Error()
			}
		}()
		res = append(res, r)
		if r.Panic != "" {
			break // the interpreter's state after a panic is anybody's guess
		}
	}
	return res, nil
}

func histDetail(h *History, k int, extra map[string]any) map[string]any {
	hj, _ := json.Marshal(h)
	var runs []map[string]any
	for _, c := range h.Runs {
		runs = append(runs, map[string]any{"args": c.Args, "stdin_records": c.Stdin, "files": c.Files, "noargvars": c.NoArgVars, "input_mode": c.Mode, "input_mode_set_by": c.ModeVia})
	}
	d := map[string]any{"program": h.src(), "reset_between_runs": h.Reset, "runs": runs, "failing_run": k, "history": h.Name,
		"model_line": h.wire(), "history_json": string(hj)}
	for a, b := range extra {
		d[a] = b
	}
	return d
}

func evaluateHistory(h *History, impls []implResult, model string, rep *hx.Report) {
	var models []string
	if model != "" {
		models = strings.Split(model, " ;; ")
		if strings.HasPrefix(model, "driver-error") || len(models) != len(h.Runs) {
			rep.HarnessError("model answered %q for %s", model, h.wire())
			models = nil
		}
	}
	rep.Count("history-reset:" + h.Reset)
	rep.Count(fmt.Sprintf("history-runs:%d", len(h.Runs)))
	for k, c := range h.Runs {
		if k >= len(impls) {
			break
		}
		impl := impls[k]
		rep.CorrEvals++
		rep.Count("family:history")
		if len(impl.Events) > 0 {
			rep.Distinct(fmt.Sprintf("%s#%d", h.wire(), k))
		}
		il := impl.line()
		if models != nil {
			switch m := models[k]; {
			case m == "unmod":
				rep.Unmodelled++
			case m == "fuel":
				rep.HarnessError("model ran out of fuel for run %d of %s", k, h.wire())
			case m != il:
				rep.Mismatch(hx.Mismatch{Class: "history:" + h.Reset + ":" + features(c), Input: h.wire(), Impl: il, Model: m,
					Note: fmt.Sprintf("run %d of %d on one Interpreter (reset=%s)\n%s\nerr=%s", k+1, len(h.Runs), h.Reset, h.src(), impl.Err)})
			}
		}
		rep.SearchEvals++
		if impl.Panic != "" {
			rep.Fail(hx.Failure{Class: "reused-interpreter-panic:" + features(c), Oracle: "no-panic", Detail: histDetail(h, k+1, map[string]any{"panic": impl.Panic})})
			continue
		}
		spec := specRun(c)
		if spec.Unsupported {
			rep.Count("spec-declined")
			continue
		}
		if sl := specLine(spec); sl != il {
			rep.Fail(hx.Failure{Class: "reused-interpreter:" + features(c),
				Oracle: "run k of a reused Interpreter equals the fresh run on the same input: " +
					diffOracle(spec.Events, impl.Events, spec.Status, impl.Status, spec.Err, impl.Err != ""),
				Detail: histDetail(h, k+1, map[string]any{"want": sl, "got": il, "impl_error": impl.Err})})
		}
	}
}

// ---------- generators ----------

func inputCase(p Prog, args []string, stdin []string, files map[string][]string) *Case {
	c := &Case{Family: "history", Args: args, Stdin: stdin, Cmds: cmdPool, P: p}
	for _, n := range fileNames {
		if recs, ok := files[n]; ok {
			c.Files = append(c.Files, NamedRecs{n, recs}, NamedRecs{"./" + n, recs})
		}
	}
	return c
}

func usesCmd(p Prog) bool {
	found := false
	var walk func(b []Stmt)
	walk = func(b []Stmt) {
		for _, s := range b {
			if (s.Op == "G" || s.Op == "W") && s.Src.K == 'c' {
				found = true
			}
			walk(s.A)
			walk(s.B)
		}
	}
	walk(p.Begin)
	walk(p.End)
	for _, r := range p.Rules {
		walk(r.Body)
		walk(r.P1.Pre)
		walk(r.P2.Pre)
	}
	for _, f := range p.Funcs {
		walk(f.Body)
	}
	return found
}

func genHistoriesSystematic() []*History {
	hasS, hasE := &Cond{Op: "has", K: 'S'}, &Cond{Op: "has", K: 'E'}
	hasQ, hasX := &Cond{Op: "has", K: 'q'}, &Cond{Op: "has", K: 'x'}
	rng := func(inline bool, body []Stmt) Rule {
		return Rule{Kind: "pr", P1: Pattern{C: hasS, Inline: inline}, P2: Pattern{C: hasE, Inline: inline}, Body: body}
	}
	end := []Stmt{tr(9)}
	progs := []struct {
		name string
		p    Prog
	}{
		{"one-range", Prog{Rules: []Rule{rng(true, []Stmt{tr(1)})}, End: end}},
		{"one-range-functions", Prog{Rules: []Rule{rng(false, []Stmt{tr(1)})}}},
		{"range-no-action", Prog{Rules: []Rule{{Kind: "pr", P1: Pattern{C: hasS, Inline: true}, P2: Pattern{C: hasE, Inline: true}, NoBody: true}}}},
		{"two-ranges", Prog{Rules: []Rule{rng(true, []Stmt{tr(1)}),
			{Kind: "pr", P1: Pattern{C: &Cond{Op: "fnr", K: 2}, Inline: true}, P2: Pattern{C: hasX}, Body: []Stmt{tr(2)}},
			{Kind: "pn", Body: []Stmt{tr(3)}}}, End: end}},
		{"three-ranges", Prog{Rules: []Rule{
			{Kind: "pr", P1: Pattern{C: &Cond{Op: "nr", K: 1}, Inline: true}, P2: Pattern{C: &Cond{Op: "nr", K: 50}, Inline: true}, Body: []Stmt{tr(1)}},
			rng(false, []Stmt{tr(2)}),
			{Kind: "pe", P1: Pattern{C: hasX, Inline: true}, Body: []Stmt{tr(4)}},
			{Kind: "pr", P1: Pattern{C: hasQ}, P2: Pattern{C: hasX}, NoBody: true}}, End: end}},
		{"range-then-exit", Prog{Rules: []Rule{rng(true, []Stmt{tr(1)}), {Kind: "pe", P1: Pattern{C: hasQ, Inline: true}, Body: []Stmt{tr(5), {Op: "X", N: 3}}}}, End: end}},
		{"exit-inside-range-body", Prog{Rules: []Rule{rng(true, []Stmt{tr(1), {Op: "IF", C: hasQ, A: []Stmt{{Op: "XN"}}}})}, End: end}},
		{"range-then-nextfile", Prog{Rules: []Rule{rng(true, []Stmt{tr(1)}), {Kind: "pe", P1: Pattern{C: hasQ, Inline: true}, Body: []Stmt{{Op: "NF"}}}, {Kind: "pn", Body: []Stmt{tr(3)}}}, End: end}},
		{"range-next-from-function", Prog{Rules: []Rule{rng(false, []Stmt{tr(1), {Op: "CALL", N: 0}, tr(2)})}, Funcs: []Func{{Local: "l0", Body: []Stmt{{Op: "IF", C: hasQ, A: []Stmt{{Op: "N"}}}}}}, End: end}},
		{"getline-bookkeeping", Prog{Rules: []Rule{{Kind: "pn", Body: []Stmt{tr(1), {Op: "IF", C: &Cond{Op: "fnr", K: 1}, A: []Stmt{{Op: "G", Src: Src{K: 'f', Name: "f3"}, Tgt: Tgt{K: 'v', Name: "g1"}}}},
			{Op: "G", Src: Src{K: 'm'}, Tgt: Tgt{K: 'v', Name: "g2"}}, tr(2)}}}, End: end}},
		{"getline-file-left-open", Prog{Begin: []Stmt{{Op: "G", Src: Src{K: 'f', Name: "f3"}, Tgt: Tgt{K: 'l'}}, tr(1), {Op: "G", Src: Src{K: 'f', Name: "-"}, Tgt: Tgt{K: 'v', Name: "g0"}}, tr(2)},
			Rules: []Rule{rng(true, []Stmt{tr(3)})}, End: end}},
		{"argv-edits-at-run-time", Prog{Begin: []Stmt{{Op: "SARGV", N: 2, S1: "g0=7"}, {Op: "SARGV", N: 3, S1: "f2"}, {Op: "SARGC", N: 4}, {Op: "G", Src: Src{K: 'm'}, Tgt: Tgt{K: 'l'}}, tr(1)},
			Rules: []Rule{{Kind: "pn", Body: []Stmt{tr(2)}}, rng(true, []Stmt{tr(3)})}, End: end}},
		{"argc-grows", Prog{Begin: []Stmt{{Op: "SARGC", N: 5}}, Rules: []Rule{{Kind: "pn", Body: []Stmt{tr(2)}}}, End: end}},
		{"nr-assigned", Prog{Begin: []Stmt{{Op: "SNR", N: 10}, {Op: "SV", S1: "g3", S2: "x y"}}, Rules: []Rule{{Kind: "pn", Body: []Stmt{tr(1), {Op: "G", Src: Src{K: 'm'}, Tgt: Tgt{K: 'l'}}, tr(2)}}}, End: []Stmt{tr(9), {Op: "X", N: 2}}}},
	}
	type inp struct {
		args  []string
		stdin []string
		files map[string][]string
	}
	open := inp{[]string{"f1"}, []string{"s1"}, map[string][]string{"f1": {"p", "a S", "m"}, "f3": {"k1", "k2"}}}
	plain := inp{[]string{"f1", "f2"}, []string{"t1 S", "t2"}, map[string][]string{"f1": {"p", "x q", "E", "S", "m", "E x", "z"}, "f2": {"u", "v"}, "f3": {"k1", "k2"}}}
	exitIn := inp{[]string{"f1", "g1=5", "f2"}, nil, map[string][]string{"f1": {"S", "m q", "E"}, "f2": {"w S"}, "f3": {"k1"}}}
	errIn := inp{[]string{"f1", "nx", "f2"}, nil, map[string][]string{"f1": {"b", "S x"}, "f2": {"n"}}}
	stdinIn := inp{nil, []string{"i S", "j"}, map[string][]string{"f3": {"k9"}}}
	four := inp{[]string{"f2", "f2", "f1", "g2=1"}, []string{"o"}, map[string][]string{"f1": {"S"}, "f2": {"c x", "d"}, "f3": {}}}
	seqs := [][]inp{{open, plain}, {exitIn, plain, open}, {errIn, plain}, {stdinIn, plain, stdinIn}, {four, open, plain}}
	var hs []*History
	for _, pg := range progs {
		for si, sq := range seqs {
			for _, reset := range []string{"none", "vars", "vars+rand"} {
				h := &History{Name: fmt.Sprintf("sys:%s:seq%d", pg.name, si), Reset: reset, P: pg.p}
				for _, in := range sq {
					h.Runs = append(h.Runs, inputCase(pg.p, in.args, in.stdin, in.files))
				}
				hs = append(hs, h)
			}
		}
	}
	return hs
}

func genHistoryRandom(r *hx.Rand, i int) *History {
	fams := []string{"range", "range", "getline", "control", "argv", "mixed"}
	var c *Case
	for {
		c = genRandom(r, fams[i%len(fams)])
		if !usesCmd(c.P) {
			break
		}
	}
	h := &History{Name: "random:" + c.Family, Reset: []string{"none", "vars", "vars+rand"}[r.Intn(3)], P: c.P}
	c.Family = "history"
	h.Runs = append(h.Runs, c)
	g := &gen{r: r}
	for k := 0; k < 1+r.Intn(2); k++ {
		b := baseCaseRaw(g, "history", false)
		b.P = c.P
		switch {
		case c.ModeVia == "begin": // INPUTMODE assigned in BEGIN: every run is in that mode
			b.setMode(c.Mode, "begin")
		case r.Intn(3) == 0: // the mode is a Config field: it may change from run to run
			b.setMode(r.Pick([]string{"csv", "tsv"}), "config")
		}
		if r.Intn(4) == 0 { // the same input again
			b.Args, b.Stdin, b.Files, b.Mode, b.ModeVia = c.Args, c.Stdin, c.Files, c.Mode, c.ModeVia
		}
		h.Runs = append(h.Runs, b)
	}
	return h
}

func runHistories(rep *hx.Report, o hx.Opts, r *hx.Rand, modelrun string) {
	hs := genHistoriesSystematic()
	n := 120
	if o.Tier == "thorough" {
		n = 10000
	}
	if o.N > 0 && o.N < 50 {
		n = o.N
	}
	for i := 0; i < n; i++ {
		hs = append(hs, genHistoryRandom(r, i))
	}
	impls := make([][]implResult, len(hs))
	lines := make([]string, len(hs))
	for i, h := range hs {
		for _, c := range h.Runs {
			if specRun(c).Runaway {
				rep.HarnessError("generated script does not terminate: %s", c.wire())
				h.P = Prog{}
				for _, c2 := range h.Runs {
					c2.P = Prog{}
				}
				break
			}
		}
		res, err := runHistoryImpl(h)
		if err != nil {
			rep.HarnessError("history %s: %v", h.Name, err)
		}
		impls[i] = res
		lines[i] = h.wire()
	}
	var models []string
	if modelrun != "" {
		var err error
		models, err = hx.ModelEval(modelrun, lines)
		if err != nil {
			rep.HarnessError("%v", err)
		}
	}
	for i, h := range hs {
		m := ""
		if models != nil {
			m = models[i]
		}
		evaluateHistory(h, impls[i], m, rep)
		if i%97 == 0 {
			rep.Sample(map[string]any{"history": h.Name, "reset": h.Reset, "program": h.src(), "runs": len(h.Runs)})
		}
	}
}

func replayHistory(hj, modelrun string) int {
	var h History
	if err := json.Unmarshal([]byte(hj), &h); err != nil {
		fmt.Println("replay: bad history_json:", err)
		return 2
	}
	for _, c := range h.Runs {
		c.P = h.P
	}
	impls, err := runHistoryImpl(&h)
	if err != nil {
		fmt.Println("replay:", err)
		return 2
	}
	fmt.Printf("history %s, between the runs: reset=%s\nprogram:\n%s\n", h.Name, h.Reset, h.src())
	model := ""
	if modelrun != "" {
		if m, err := hx.ModelEval(modelrun, []string{h.wire()}); err == nil {
			model = m[0]
		}
	}
	ms := strings.Split(model, " ;; ")
	for k, c := range h.Runs {
		if k >= len(impls) {
			break
		}
		fmt.Printf("run %d: args %q stdin %q files %v\n  expected (fresh run): %s\n  got:                  %s %s\n", k+1, c.Args, c.Stdin, c.Files,
			specLine(specRun(c)), impls[k].line(), impls[k].Err)
		if k < len(ms) && model != "" {
			fmt.Printf("  model:                %s\n", ms[k])
		}
	}
	rep := hx.NewReport("C11", 0, "replay")
	evaluateHistory(&h, impls, "", rep)
	if len(rep.Failures) > 0 {
		fmt.Println("still fails:", rep.Failures[0].Class, "/", rep.Failures[0].Oracle)
		return 1
	}
	fmt.Println("no longer fails")
	return 0
}
