// Case generators for C11: systematic small cases first, then random scripts by family.
package main

import (
	"fmt"
	"strings"

	"verif/harness/hx"
)

var words = []string{"a", "b", "c", "x", "S", "E", "SE", "q", "7"}

func genRecord(r *hx.Rand) string {
	n := r.Intn(4)
	ws := make([]string, n)
	for i := range ws {
		ws[i] = r.Pick(words)
	}
	s := strings.Join(ws, " ")
	switch r.Intn(12) {
	case 0:
		s = " " + s
	case 1:
		s = strings.ReplaceAll(s, " ", "  ")
	case 2:
		s = s + "\t"
	}
	return s
}

func genRecs(r *hx.Rand, max int) []string {
	n := r.Intn(max + 1)
	out := make([]string, n)
	for i := range out {
		out[i] = genRecord(r)
	}
	return out
}

var fileNames = []string{"f1", "f2", "f3"}
var cmdPool = []NamedRecs{
	{"echo u1; echo u2 v", []string{"u1", "u2 v"}},
	{"echo w1", []string{"w1"}},
	{"true", nil},
	{"printf 'k1\\nk2\\nk3\\n'", []string{"k1", "k2", "k3"}},
}

func genOperand(r *hx.Rand, hostile bool) string {
	switch r.Intn(20) {
	case 0, 1, 2, 3, 4, 5, 6, 7:
		return r.Pick(fileNames)
	case 8:
		return "-"
	case 9:
		return ""
	case 10, 11:
		return fmt.Sprintf("g%d=%s", r.Intn(4), r.Pick([]string{"1", "x y", "", "v=w", "a\\tb", "q\\\\", "\\101B", "ab\\", "0"}))
	case 12:
		return r.Pick([]string{"zz=1", "l1=3", "f0=2", "a=5", "_u=1"})
	case 13:
		return r.Pick([]string{"NR=10", "FNR=5", "NR=0", "FNR=100"})
	case 14:
		return "./" + r.Pick(fileNames)
	case 15:
		if hostile {
			return r.Pick([]string{"nx", "g1=a\nb", "g2=\nq", "FS=:", "g0=\\x41", "=x", "1a=2", "g1", "g0=a\rb\\n"})
		}
		return r.Pick(fileNames)
	default:
		return r.Pick(fileNames)
	}
}

func genArgs(r *hx.Rand, hostile bool) []string {
	n := r.Intn(6)
	a := make([]string, n)
	for i := range a {
		a[i] = genOperand(r, hostile)
	}
	return a
}

type gen struct {
	cmdOK  bool // this script may spawn commands (kept rare: a process spawn is expensive)
	r      *hx.Rand
	tag    int
	loopID int
	nfuncs int
}

func (g *gen) src() Src {
	switch g.r.Intn(10) {
	case 0, 1, 2, 3:
		return Src{K: 'm'}
	case 4, 5, 6:
		return Src{K: 'f', Name: g.r.Pick([]string{"f1", "f2", "f3", "f3", "nx", "-"})}
	default:
		if !g.cmdOK {
			return Src{K: 'f', Name: g.r.Pick([]string{"f1", "f2", "f3"})}
		}
		return Src{K: 'c', Name: cmdPool[g.r.Intn(len(cmdPool))].Name}
	}
}

func (g *gen) tgt(fn int) Tgt {
	switch g.r.Intn(10) {
	case 0, 1, 2:
		return Tgt{K: 'l'}
	case 3, 4, 5:
		return Tgt{K: 'v', Name: fmt.Sprintf("g%d", g.r.Intn(4))}
	case 6:
		return Tgt{K: 'v', Name: fmt.Sprintf("a[%d]", g.r.Intn(2))}
	case 7:
		if fn >= 0 {
			return Tgt{K: 'v', Name: fmt.Sprintf("l%d", fn)}
		}
		return Tgt{K: 'v', Name: "g0"}
	default:
		return Tgt{K: 'd', N: g.r.Intn(4)}
	}
}

func (g *gen) cond(depth int) *Cond {
	switch g.r.Intn(14) {
	case 0:
		return &Cond{Op: "t"}
	case 1, 2:
		return &Cond{Op: "nr", K: 1 + g.r.Intn(6)}
	case 3:
		return &Cond{Op: "nrmod", M: 2 + g.r.Intn(2), K: g.r.Intn(2)}
	case 4, 5:
		return &Cond{Op: "fnr", K: 1 + g.r.Intn(3)}
	case 6:
		return &Cond{Op: "nf", K: g.r.Intn(4)}
	case 7, 8:
		return &Cond{Op: "has", K: int(g.r.Pick([]string{"S", "E", "a", "x"})[0])}
	case 9:
		return &Cond{Op: "ret"}
	case 10:
		return &Cond{Op: "veq", S1: fmt.Sprintf("g%d", g.r.Intn(4)), S2: g.r.Pick([]string{"1", "", "x y", "a"})}
	case 11:
		if depth > 0 {
			return &Cond{Op: "not", A: g.cond(depth - 1)}
		}
	case 12:
		if depth > 0 {
			return &Cond{Op: "and", A: g.cond(depth - 1), B: g.cond(depth - 1)}
		}
	case 13:
		if depth > 0 {
			return &Cond{Op: "or", A: g.cond(depth - 1), B: g.cond(depth - 1)}
		}
	}
	return &Cond{Op: "has", K: 'S'}
}

func (g *gen) trace(fn int) Stmt {
	g.tag++
	names := []string{"g0", "g1", "g2", "g3"}
	if g.r.Intn(3) == 0 {
		names = append(names, "a[0]", "a[1]")
	}
	if fn >= 0 {
		names = append(names, fmt.Sprintf("l%d", fn))
	}
	return Stmt{Op: "T", Tag: g.tag, Names: names}
}

// ctx: where the block runs
type ctx struct {
	fn      int  // enclosing function, -1 if none
	inLoop  bool // inside a while-getline loop: no close()
	ctl     int  // per-mille probability weight of next/nextfile (0 in BEGIN/END unless hostile)
	exit    bool
	calls   bool
	argvOps bool
}

func (g *gen) stmt(depth int, c ctx) Stmt {
	for {
		switch g.r.Intn(24) {
		case 0, 1, 2, 3:
			return g.trace(c.fn)
		case 4, 5, 6, 7:
			return Stmt{Op: "G", Src: g.src(), Tgt: g.tgt(c.fn)}
		case 8:
			if !c.inLoop && c.fn < 0 {
				if g.cmdOK && g.r.Bool() {
					return Stmt{Op: "CL", S1: g.r.Pick([]string{cmdPool[0].Name, cmdPool[3].Name})}
				}
				return Stmt{Op: "CL", S1: g.r.Pick([]string{"f1", "f2", "f3", "-"})}
			}
		case 9, 10:
			if depth > 0 {
				s := Stmt{Op: "IF", C: g.cond(1), A: g.block(depth-1, c, 2)}
				if g.r.Bool() {
					s.B = g.block(depth-1, c, 2)
				}
				return s
			}
		case 11:
			if depth > 0 {
				c2 := c
				c2.inLoop = true
				return Stmt{Op: "W", Src: g.src(), Tgt: g.tgt(c.fn), A: g.block(depth-1, c2, 2)}
			}
		case 12:
			if depth > 0 {
				g.loopID++
				id, n := g.loopID, g.r.Intn(4)
				return Stmt{Op: "R", N: n, ID: id, A: g.block(depth-1, c, 2)}
			}
		case 13, 14:
			if c.calls && c.fn+1 < g.nfuncs {
				k := c.fn + 1 + g.r.Intn(g.nfuncs-c.fn-1)
				if k == 1 && c.ctl == 0 && g.r.Intn(40) != 0 {
					continue // f1 may contain next/nextfile: call it outside the rules only rarely
				}
				return Stmt{Op: "CALL", N: k}
			}
		case 15:
			if c.ctl > 0 && g.r.Intn(1000) < c.ctl {
				return Stmt{Op: "N"}
			}
		case 16:
			if c.ctl > 0 && g.r.Intn(1000) < c.ctl {
				return Stmt{Op: "NF"}
			}
		case 17:
			if c.exit && g.r.Intn(3) == 0 {
				if g.r.Intn(4) == 0 {
					return Stmt{Op: "XN"}
				}
				return Stmt{Op: "X", N: g.r.Intn(5)}
			}
		case 18:
			switch g.r.Intn(6) {
			case 0:
				return Stmt{Op: "SNR", N: g.r.Intn(20)}
			case 1:
				return Stmt{Op: "SFNR", N: g.r.Intn(20)}
			}
		case 19:
			if c.argvOps {
				switch g.r.Intn(4) {
				case 0:
					return Stmt{Op: "SARGC", N: g.r.Intn(7)}
				case 1:
					return Stmt{Op: "SARGV", N: g.r.Intn(6), S1: genOperand(g.r, false)}
				case 2:
					return Stmt{Op: "DARGV", N: g.r.Intn(6)}
				}
			}
		case 20:
			return Stmt{Op: "SV", S1: fmt.Sprintf("g%d", g.r.Intn(4)), S2: g.r.Pick([]string{"1", "", "x y", "a"})}
		case 21:
			if g.r.Intn(3) == 0 {
				return Stmt{Op: "SL", S1: genRecord(g.r)}
			}
		default:
			return g.trace(c.fn)
		}
	}
}

func (g *gen) block(depth int, c ctx, max int) []Stmt {
	n := 1 + g.r.Intn(max)
	b := make([]Stmt, 0, n)
	for i := 0; i < n; i++ {
		s := g.stmt(depth, c)
		b = append(b, s)
		if s.Op == "N" || s.Op == "NF" || s.Op == "X" || s.Op == "XN" {
			break
		}
	}
	return b
}

func (g *gen) purePattern() Pattern {
	return Pattern{C: g.cond(1), Inline: g.r.Bool()}
}

func (g *gen) files() []NamedRecs {
	var fs []NamedRecs
	for _, n := range fileNames {
		recs := genRecs(g.r, 4)
		fs = append(fs, NamedRecs{n, recs}, NamedRecs{"./" + n, recs})
	}
	return fs
}

func baseCase(g *gen, family string, hostile bool) *Case {
	c := baseCaseRaw(g, family, hostile)
	// input mode: default mostly; CSV / TSV set by the Config or by INPUTMODE in BEGIN
	switch g.r.Intn(10) {
	case 0, 1:
		c.setMode("csv", g.r.Pick([]string{"config", "begin"}))
	case 2:
		c.setMode("tsv", g.r.Pick([]string{"config", "begin"}))
	}
	return c
}

func baseCaseRaw(g *gen, family string, hostile bool) *Case {
	c := &Case{Family: family, Args: genArgs(g.r, hostile), Stdin: genRecs(g.r, 3), Files: g.files(), Cmds: cmdPool,
		NoArgVars: g.r.Intn(25) == 0, NoNL: g.r.Intn(6) == 0}
	return c
}

// setMode switches the case to CSV/TSV input and turns the blanks of its records into separators
func (c *Case) setMode(mode, via string) {
	c.Mode, c.ModeVia = mode, via
	sep := string(rune(c.modeSep()))
	conv := func(l []string) []string {
		out := make([]string, len(l))
		for i, r := range l {
			out[i] = strings.ReplaceAll(strings.ReplaceAll(r, "\t", ""), " ", sep)
		}
		return out
	}
	c.Stdin = conv(c.Stdin)
	files := make([]NamedRecs, len(c.Files))
	for i, f := range c.Files {
		files[i] = NamedRecs{f.Name, conv(f.Recs)}
	}
	c.Files = files
}

// genFuncs: f0 and f2 never unwind; f1 may contain next/nextfile/exit.
func (g *gen) genFuncs(depth int) []Func {
	g.nfuncs = 3
	fs := make([]Func, 3)
	for k := 2; k >= 0; k-- {
		c := ctx{fn: k, calls: true}
		if k == 1 {
			c.ctl, c.exit = 500, true
		}
		fs[k] = Func{Local: fmt.Sprintf("l%d", k), Body: g.block(depth, c, 3)}
	}
	return fs
}

func genRandom(r *hx.Rand, family string) *Case {
	g := &gen{r: r, cmdOK: r.Intn(25) == 0}
	hostile := family == "hostile"
	c := baseCase(g, family, hostile)
	c.P.Funcs = g.genFuncs(2)
	ruleCtx := ctx{fn: -1, ctl: 400, exit: true, calls: true, argvOps: family == "argv"}
	sideCtx := ctx{fn: -1, exit: true, calls: true, argvOps: family == "argv" || r.Intn(4) == 0}
	switch family {
	case "operands":
		c.P.Funcs = nil
		g.nfuncs = 0
		if r.Bool() {
			c.P.Begin = []Stmt{g.trace(-1)}
		}
		c.P.Rules = []Rule{{Kind: "pn", Body: []Stmt{g.trace(-1)}}}
		if r.Intn(3) == 0 {
			c.P.Rules = append(c.P.Rules, Rule{Kind: "pe", P1: g.purePattern(), NoBody: true})
		}
		if r.Intn(4) != 0 {
			c.P.End = []Stmt{g.trace(-1)}
		}
		return c
	case "range":
		nr := 1 + r.Intn(3)
		for i := 0; i < nr; i++ {
			rule := Rule{Kind: "pr", P1: g.purePattern(), P2: g.purePattern()}
			switch r.Intn(5) {
			case 0:
				rule.NoBody = true
			case 1:
				rule.Body = g.block(2, ruleCtx, 3)
			default:
				rule.Body = []Stmt{g.trace(-1)}
			}
			c.P.Rules = append(c.P.Rules, rule)
			if r.Intn(3) == 0 {
				c.P.Rules = append(c.P.Rules, Rule{Kind: "pe", P1: g.purePattern(), Body: g.block(1, ruleCtx, 2)})
			}
		}
		if r.Bool() {
			c.P.End = []Stmt{g.trace(-1)}
		}
		return c
	}
	// getline / control / argv / mixed / hostile
	if r.Intn(3) != 0 {
		c.P.Begin = g.block(2, sideCtx, 3)
	}
	nr := r.Intn(4)
	if family == "control" && nr == 0 {
		nr = 1
	}
	for i := 0; i < nr; i++ {
		var rule Rule
		switch r.Intn(6) {
		case 0, 1, 2:
			rule.Kind = "pn"
		case 3, 4:
			rule.Kind = "pe"
			rule.P1 = g.genPattern(hostile || family == "control", sideCtx)
		default:
			rule.Kind = "pr"
			rule.P1 = g.genPattern(hostile || family == "control", sideCtx)
			rule.P2 = g.genPattern(hostile || family == "control", sideCtx)
		}
		if rule.Kind != "pn" && r.Intn(6) == 0 {
			rule.NoBody = true
		} else {
			if r.Intn(12) == 0 {
				rule.Body = []Stmt{}
			} else {
				rule.Body = g.block(3, ruleCtx, 3)
			}
		}
		c.P.Rules = append(c.P.Rules, rule)
	}
	if r.Intn(3) != 0 || nr == 0 && len(c.P.Begin) == 0 {
		c.P.End = g.block(2, sideCtx, 3)
	}
	return c
}

// genPattern: mostly side-effect-free conditions; sometimes a pattern function with statements
// (getline, traces, calls); in hostile cases it may reach next/nextfile.
func (g *gen) genPattern(hostile bool, side ctx) Pattern {
	switch g.r.Intn(8) {
	case 0:
		pc := ctx{fn: -1, calls: true, exit: g.r.Intn(4) == 0}
		if hostile {
			pc.ctl = 250
		}
		return Pattern{Pre: g.block(1, pc, 2), C: g.cond(1)}
	default:
		return g.purePattern()
	}
}

// ---------- systematic small cases ----------

func tr(tag int, names ...string) Stmt {
	if len(names) == 0 {
		names = []string{"g0", "g1", "g2", "g3"}
	}
	return Stmt{Op: "T", Tag: tag, Names: names}
}

func stdFiles() []NamedRecs {
	f := map[string][]string{"f1": {"a1", "a2 S", "a3 E x"}, "f2": {"b1 S E", "b2"}, "f3": {}}
	var out []NamedRecs
	for _, n := range fileNames {
		out = append(out, NamedRecs{n, f[n]}, NamedRecs{"./" + n, f[n]})
	}
	return out
}

func genSystematic() []*Case {
	var cs []*Case
	mk := func(family string, args []string, p Prog) *Case {
		c := &Case{Family: family, Args: args, Stdin: []string{"s1", "s2 S"}, Files: stdFiles(), Cmds: cmdPool, P: p}
		cs = append(cs, c)
		return c
	}
	simple := Prog{Rules: []Rule{{Kind: "pn", Body: []Stmt{tr(1)}}}, End: []Stmt{tr(9)}}
	// every operand kind alone, in pairs and between two files
	ops := []string{"f1", "f2", "f3", "-", "", "g0=1", "g1=x y", "g2=a\\tb", "NR=10", "FNR=5", "zz=1", "l1=3", "./f1", "g3=q\\"}
	mk("sys-operands", nil, simple)
	for _, a := range ops {
		mk("sys-operands", []string{a}, simple)
		mk("sys-operands", []string{"f1", a, "f2"}, simple)
		for _, b := range ops {
			mk("sys-operands", []string{a, b}, simple)
		}
	}
	// hostile operand shapes
	for _, a := range []string{"g1=a\nb", "g2=\nq", "=x", "1a=2", "g1", "g0==", "nx", "g3=\\", "g0=a\\tb\\\\c\\101\\/"} {
		mk("sys-operands-hostile", []string{a, "f1"}, simple)
		mk("sys-operands-hostile", []string{"f2", a, "f1"}, simple)
	}
	for _, nav := range []bool{true} {
		c := mk("sys-operands", []string{"g0=1", "f1"}, simple)
		c.NoArgVars = nav
	}
	// every getline form in every position
	srcs := []Src{{K: 'm'}, {K: 'f', Name: "f2"}, {K: 'f', Name: "nx"}, {K: 'f', Name: "-"}, {K: 'c', Name: cmdPool[0].Name}, {K: 'c', Name: "true"}}
	tgts := []Tgt{{K: 'l'}, {K: 'v', Name: "g1"}, {K: 'v', Name: "a[0]"}, {K: 'd', N: 0}, {K: 'd', N: 2}, {K: 'd', N: 3}}
	tag := 100
	for _, s := range srcs {
		for _, t := range tgts {
			gs := []Stmt{tr(tag, "g0", "g1", "a[0]"), {Op: "G", Src: s, Tgt: t}, tr(tag+1, "g0", "g1", "a[0]"), {Op: "G", Src: s, Tgt: t}, tr(tag+2, "g0", "g1", "a[0]")}
			tag += 3
			for ai, args := range [][]string{{"f1", "f2"}, nil, {"f3", "g0=7", "f1"}} {
				if s.K == 'c' {
					// commands: one operand list, two positions (each spawn costs a process)
					if ai == 0 {
						mk("sys-getline", args, Prog{Begin: gs, End: []Stmt{tr(9)}})
						if t.K != 'd' || t.N == 2 {
							mk("sys-getline", args, Prog{Rules: []Rule{{Kind: "pe", P1: Pattern{C: &Cond{Op: "fnr", K: 2}, Inline: true}, Body: gs}, {Kind: "pn", Body: []Stmt{tr(2)}}}, End: []Stmt{tr(9)}})
						}
					}
					continue
				}
				mk("sys-getline", args, Prog{Begin: gs, End: []Stmt{tr(9)}})
				mk("sys-getline", args, Prog{Rules: []Rule{{Kind: "pe", P1: Pattern{C: &Cond{Op: "fnr", K: 2}, Inline: true}, Body: gs}, {Kind: "pn", Body: []Stmt{tr(2)}}}, End: []Stmt{tr(9)}})
				mk("sys-getline", args, Prog{Rules: []Rule{{Kind: "pn", Body: []Stmt{tr(2)}}}, End: gs})
				// inside a function, into its local
				t2 := t
				names := []string{"g0", "g1", "a[0]"}
				if t.K == 'v' && t.Name == "g1" {
					t2.Name = "l0"
					names = append(names, "l0")
				}
				fb := []Stmt{{Op: "G", Src: s, Tgt: t2}, {Op: "T", Tag: 50, Names: names}}
				mk("sys-getline", args, Prog{Rules: []Rule{{Kind: "pn", Body: []Stmt{{Op: "CALL", N: 0}, tr(2)}}}, Funcs: []Func{{Local: "l0", Body: fb}}})
				// while loop
				mk("sys-getline", args, Prog{Rules: []Rule{{Kind: "pe", P1: Pattern{C: &Cond{Op: "nr", K: 1}}, Body: []Stmt{{Op: "W", Src: s, Tgt: t, A: []Stmt{tr(3, "g1", "a[0]")}}, tr(4)}}, {Kind: "pn", Body: []Stmt{tr(2)}}}, End: []Stmt{tr(9)}})
			}
		}
	}
	// input mode x getline into a variable x "a field / NF of the current record was or was not used before
	// the getline" x where it happens (plain rule, pattern rule, range rule, END); the trace after it shows
	// $0, NF, every field, NR, FNR, FILENAME and the variable
	{
		hasS, hasE := &Cond{Op: "has", K: 'S'}, &Cond{Op: "has", K: 'E'}
		modeFiles := func() []NamedRecs {
			f := map[string][]string{"f1": {"p a 1", "a S x", "m  n", "", "E a", "z"}, "f2": {"k1 k2 k3", "l1"}, "f3": {}}
			var out []NamedRecs
			for _, n := range fileNames {
				out = append(out, NamedRecs{n, f[n]}, NamedRecs{"./" + n, f[n]})
			}
			return out
		}
		type mv struct{ mode, via string }
		for _, m := range []mv{{"", ""}, {"csv", "config"}, {"csv", "begin"}, {"tsv", "config"}, {"tsv", "begin"}} {
			for _, src := range []Src{{K: 'm'}, {K: 'f', Name: "f2"}, {K: 'f', Name: "-"}, {K: 'c', Name: cmdPool[0].Name}} {
				for ti, tgt := range []Tgt{{K: 'v', Name: "g1"}, {K: 'v', Name: "a[1]"}, {K: 'v', Name: "l0"}, {K: 'l'}, {K: 'd', N: 2}} {
					for _, touched := range []bool{false, true} {
						for ctxi, ctxName := range []string{"rule", "pattern-rule", "range-rule", "END"} {
							if src.K == 'c' && (ti != 0 || ctxi != 0 || m.via == "begin") {
								continue // commands: a few cases only (a process spawn is expensive)
							}
							if tgt.K != 'v' && (ctxi > 1 || m.via == "begin") {
								continue // plain getline / getline $n: the field-changing forms, fewer contexts
							}
							names := []string{"g0", "g1", "a[1]"}
							g := []Stmt{{Op: "G", Src: src, Tgt: tgt}}
							var funcs []Func
							if tgt.Name == "l0" {
								funcs = []Func{{Local: "l0", Body: []Stmt{{Op: "G", Src: src, Tgt: tgt}, {Op: "T", Tag: 5, Names: []string{"l0"}}}}}
								g = []Stmt{{Op: "CALL", N: 0}}
							}
							var body []Stmt
							if touched {
								body = append(body, Stmt{Op: "T", Tag: 0, Names: names})
							}
							body = append(body, g...)
							body = append(body, Stmt{Op: "T", Tag: 1, Names: names})
							var p Prog
							switch ctxName {
							case "rule":
								p = Prog{Rules: []Rule{{Kind: "pn", Body: body}}, End: []Stmt{tr(9)}}
							case "pattern-rule":
								p = Prog{Rules: []Rule{{Kind: "pe", P1: Pattern{C: &Cond{Op: "has", K: 'a'}, Inline: true}, Body: body}, {Kind: "pn", Body: []Stmt{tr(2)}}}}
							case "range-rule":
								p = Prog{Rules: []Rule{{Kind: "pr", P1: Pattern{C: hasS, Inline: true}, P2: Pattern{C: hasE, Inline: true}, Body: body}}, End: []Stmt{tr(9)}}
							case "END":
								p = Prog{Rules: []Rule{{Kind: "pe", P1: Pattern{C: hasS, Inline: true}, Body: []Stmt{}}}, End: body}
							}
							p.Funcs = funcs
							c := mk("sys-getline-mode", []string{"f1", "f2"}, p)
							c.Stdin = []string{"s1 s2", "", "t"}
							c.Files = modeFiles()
							if m.mode != "" {
								c.setMode(m.mode, m.via)
							}
						}
					}
				}
			}
		}
	}
	// range patterns: every sequence of up to 4 records over {plain, S, E, S E}
	kinds := []string{"p", "S", "E", "S E"}
	var seqs [][]string
	var rec func(prefix []string, n int)
	rec = func(prefix []string, n int) {
		seqs = append(seqs, append([]string{}, prefix...))
		if n == 0 {
			return
		}
		for _, k := range kinds {
			rec(append(prefix, k), n-1)
		}
	}
	rec(nil, 4)
	hasS, hasE := &Cond{Op: "has", K: 'S'}, &Cond{Op: "has", K: 'E'}
	for i, sq := range seqs {
		c := mk("sys-range", []string{"f1"}, Prog{Rules: []Rule{{Kind: "pr", P1: Pattern{C: hasS, Inline: i%2 == 0}, P2: Pattern{C: hasE, Inline: i%3 == 0}, Body: []Stmt{tr(1)}}}})
		c.Files = []NamedRecs{{"f1", sq}}
	}
	// a range open across files, with an assignment operand in between
	for _, args := range [][]string{{"f1", "g0=1", "f2"}, {"f2", "f1", "f2"}, {"f1", "f3", "-", "f2"}} {
		mk("sys-range", args, Prog{Rules: []Rule{{Kind: "pr", P1: Pattern{C: hasS, Inline: true}, P2: Pattern{C: hasE, Inline: true}, Body: []Stmt{tr(1)}},
			{Kind: "pr", P1: Pattern{C: &Cond{Op: "fnr", K: 2}}, P2: Pattern{C: &Cond{Op: "fnr", K: 1}}, NoBody: true}}})
	}
	// next / nextfile / exit at each depth: directly, in a loop, in a function, in a function called from a loop in a function
	for _, op := range []string{"N", "NF", "X", "XN"} {
		ctl := Stmt{Op: op, N: 3}
		guard := func(b ...Stmt) []Stmt { return []Stmt{{Op: "IF", C: &Cond{Op: "fnr", K: 2}, A: b}} }
		shapes := []struct {
			body  []Stmt
			funcs []Func
		}{
			{guard(ctl), nil},
			{guard(Stmt{Op: "R", N: 2, ID: 1, A: []Stmt{tr(5), ctl}}), nil},
			{guard(Stmt{Op: "CALL", N: 0}), []Func{{Local: "l0", Body: []Stmt{tr(6), ctl}}}},
			{guard(Stmt{Op: "CALL", N: 0}), []Func{{Local: "l0", Body: []Stmt{{Op: "R", N: 2, ID: 1, A: []Stmt{{Op: "CALL", N: 1}}}}}, {Local: "l1", Body: []Stmt{tr(7), ctl}}}},
			{guard(Stmt{Op: "W", Src: Src{K: 'f', Name: "f2"}, Tgt: Tgt{K: 'v', Name: "g1"}, A: []Stmt{tr(8), ctl}}), nil},
		}
		for _, sh := range shapes {
			for _, args := range [][]string{{"f1", "f2"}, {"f1", "g0=1", "f1"}, nil} {
				body := append(append([]Stmt{tr(1)}, sh.body...), tr(2))
				mk("sys-control", args, Prog{Rules: []Rule{{Kind: "pn", Body: body}, {Kind: "pn", Body: []Stmt{tr(3)}}}, End: []Stmt{tr(9)}, Funcs: sh.funcs})
				// the same from BEGIN and END (next/nextfile there are parse errors unless inside a function)
				if (op == "N" || op == "NF") && sh.funcs == nil {
					continue
				}
				mk("sys-control", args, Prog{Begin: append([]Stmt{tr(1)}, sh.body[0].A...), Rules: []Rule{{Kind: "pn", Body: []Stmt{tr(3)}}}, End: []Stmt{tr(9)}, Funcs: sh.funcs})
				mk("sys-control", args, Prog{Rules: []Rule{{Kind: "pn", Body: []Stmt{tr(3)}}}, End: append([]Stmt{tr(9)}, sh.body[0].A...), Funcs: sh.funcs})
			}
		}
		// reached from a pattern expression (through a function) at each of the three pattern sites of
		// execActions -- single pattern, first pattern of a range, second pattern of a range (range open) --
		// over several file operands, so that next (record abandoned) and nextfile (rest of the file
		// abandoned) are told apart by the records, FNR, NR and FILENAME that follow
		for _, site := range []string{"single", "range-start", "range-stop"} {
			for gi, guard := range []*Cond{{Op: "fnr", K: 2}, {Op: "has", K: 'S'}, {Op: "nr", K: 1}} {
				for ai, args := range [][]string{{"f1", "f2"}, {"f1", "f1", "f2"}, {"f2", "f1", "g0=1", "f2"}, {"f1", "-", "f2"}} {
					if (op == "X" || op == "XN") && (gi > 0 || ai > 1) {
						continue
					}
					pc := Pattern{Pre: []Stmt{tr(4), {Op: "IF", C: guard, A: []Stmt{ctl}}}, C: &Cond{Op: "has", K: 'E'}}
					var rule Rule
					switch site {
					case "single":
						pc.C = &Cond{Op: "t"}
						rule = Rule{Kind: "pe", P1: pc, Body: []Stmt{tr(1)}}
					case "range-start":
						rule = Rule{Kind: "pr", P1: pc, P2: Pattern{C: &Cond{Op: "has", K: 'x'}, Inline: true}, Body: []Stmt{tr(1)}}
					case "range-stop":
						rule = Rule{Kind: "pr", P1: Pattern{C: &Cond{Op: "t"}, Inline: true}, P2: pc, Body: []Stmt{tr(1)}}
					}
					mk("sys-control-pattern-site", args, Prog{Rules: []Rule{rule, {Kind: "pn", Body: []Stmt{tr(3)}}}, End: []Stmt{tr(9)}})
					// through a user function called from the pattern function, and with a second range rule behind
					pf := Pattern{Pre: []Stmt{{Op: "CALL", N: 0}}, C: pc.C}
					r2 := rule
					if site == "range-stop" {
						r2.P2 = pf
					} else {
						r2.P1 = pf
					}
					mk("sys-control-pattern-site", args, Prog{Rules: []Rule{r2, {Kind: "pr", P1: Pattern{C: hasS, Inline: true}, P2: Pattern{C: hasE, Inline: true}, Body: []Stmt{tr(2)}}},
						End: []Stmt{tr(9)}, Funcs: []Func{{Local: "l0", Body: []Stmt{{Op: "IF", C: guard, A: []Stmt{ctl}}}}}})
				}
			}
		}
		// the opening record: the start pattern of a CLOSED range matches and the stop-pattern function
		// leaves through next/nextfile/exit on that very record -- the range is open from then on, so later
		// records without a start match are still selected; and the dual: the start-pattern function leaves on a
		// record that would have opened the range -- it stays closed
		{
			opening := []NamedRecs{{"f1", []string{"x", "b S h", "a", "b", "m E", "y"}}, {"f2", []string{"c", "n E", "d S", "k"}}}
			for _, args := range [][]string{{"f1", "f2"}, {"f2", "f1"}, {"f1"}} {
				for _, inFunc := range []bool{false, true} {
					leave := []Stmt{{Op: "IF", C: hasS, A: []Stmt{ctl}}}
					var funcs []Func
					if inFunc {
						funcs = []Func{{Local: "l0", Body: leave}}
						leave = []Stmt{{Op: "CALL", N: 0}}
					}
					stop := Pattern{Pre: append([]Stmt{tr(4)}, leave...), C: hasE}
					for _, start := range []Pattern{{C: hasS, Inline: true}, {C: hasS}} {
						c := mk("sys-control-opening-record", args, Prog{Rules: []Rule{{Kind: "pr", P1: start, P2: stop, Body: []Stmt{tr(1)}}, {Kind: "pn", Body: []Stmt{tr(3)}}},
							End: []Stmt{tr(9)}, Funcs: funcs})
						c.Files = opening
						c = mk("sys-control-opening-record", args, Prog{Rules: []Rule{{Kind: "pr", P1: start, P2: stop, NoBody: true}}, Funcs: funcs})
						c.Files = opening
					}
					// dual: the start pattern's function leaves on the S record; stop pattern plain
					startLeaves := Pattern{Pre: append([]Stmt{tr(4)}, leave...), C: hasS}
					c := mk("sys-control-opening-record", args, Prog{Rules: []Rule{{Kind: "pr", P1: startLeaves, P2: Pattern{C: hasE, Inline: true}, Body: []Stmt{tr(1)}}, {Kind: "pn", Body: []Stmt{tr(3)}}},
						End: []Stmt{tr(9)}, Funcs: funcs})
					c.Files = opening
				}
			}
		}
		for _, kind := range []string{"pe", "pr"} {
			p := Pattern{Pre: []Stmt{{Op: "IF", C: &Cond{Op: "fnr", K: 2}, A: []Stmt{ctl}}}, C: &Cond{Op: "t"}}
			mk("sys-control-pattern", []string{"f1", "f2"}, Prog{Rules: []Rule{{Kind: kind, P1: p, P2: Pattern{C: hasE}, Body: []Stmt{tr(1)}}, {Kind: "pn", Body: []Stmt{tr(3)}}}, End: []Stmt{tr(9)}})
		}
	}
	// exit status combinations
	for _, b := range []int{-1, 0, 2} {
		for _, m := range []int{-1, 0, 3} {
			for _, e := range []int{-2, -1, 0, 4} {
				var p Prog
				ex := func(v int) []Stmt {
					switch {
					case v == -2:
						return []Stmt{tr(9), {Op: "XN"}, tr(10)}
					case v < 0:
						return []Stmt{tr(9)}
					}
					return []Stmt{tr(9), {Op: "X", N: v}, tr(10)}
				}
				if b >= 0 {
					p.Begin = ex(b)
				}
				if m >= 0 {
					p.Rules = []Rule{{Kind: "pe", P1: Pattern{C: &Cond{Op: "nr", K: 2}, Inline: true}, Body: ex(m)}}
				} else {
					p.Rules = []Rule{{Kind: "pn", Body: []Stmt{tr(1)}}}
				}
				p.End = ex(e)
				mk("sys-exit", []string{"f1", "f2"}, p)
			}
		}
	}
	// ARGV / ARGC edits in BEGIN
	edits := [][]Stmt{
		{{Op: "SARGC", N: 1}}, {{Op: "SARGC", N: 2}}, {{Op: "SARGC", N: 5}}, {{Op: "SARGC", N: 0}},
		{{Op: "SARGV", N: 1, S1: "f2"}}, {{Op: "SARGV", N: 1, S1: ""}}, {{Op: "SARGV", N: 2, S1: "g0=9"}}, {{Op: "SARGV", N: 1, S1: "-"}},
		{{Op: "DARGV", N: 1}}, {{Op: "DARGV", N: 2}}, {{Op: "SARGV", N: 3, S1: "f2"}, {Op: "SARGC", N: 4}},
		{{Op: "G", Src: Src{K: 'm'}, Tgt: Tgt{K: 'l'}}, {Op: "SARGV", N: 2, S1: "f1"}}, {{Op: "G", Src: Src{K: 'f', Name: "-"}, Tgt: Tgt{K: 'l'}}},
	}
	for _, ed := range edits {
		for _, args := range [][]string{{"f1", "f2"}, {"f1"}, nil, {"g1=2", "f3", "f1"}} {
			mk("sys-argv", args, Prog{Begin: append(append([]Stmt{}, ed...), tr(1)), Rules: []Rule{{Kind: "pn", Body: []Stmt{tr(2)}}}, End: []Stmt{tr(9)}})
			mk("sys-argv", args, Prog{Rules: []Rule{{Kind: "pe", P1: Pattern{C: &Cond{Op: "nr", K: 1}, Inline: true}, Body: ed}, {Kind: "pn", Body: []Stmt{tr(2)}}}, End: []Stmt{tr(9)}})
		}
	}
	// ARGC=n as an assignment OPERAND at every position of the operand list, seen through the main loop,
	// plain getline and getline var (in BEGIN, in a rule, in END): the operand count changes in the middle of
	// one operand walk
	argcLists := [][]string{}
	for _, base := range [][]string{{"f1", "f2"}, {"f1", "f2", "f3"}, {"f1"}, {"g1=2", "f1", "f2"}, {"f1", "", "f2"}, {"f3", "-", "f1"}, nil} {
		for pos := 0; pos <= len(base); pos++ {
			for n := 0; n <= len(base)+3; n++ {
				l := append(append(append([]string{}, base[:pos]...), fmt.Sprintf("ARGC=%d", n)), base[pos:]...)
				argcLists = append(argcLists, l)
			}
		}
	}
	gm := func(t byte) Stmt {
		return Stmt{Op: "G", Src: Src{K: 'm'}, Tgt: Tgt{K: t, Name: "g0"}}
	}
	for _, args := range argcLists {
		mk("sys-argc-operand", args, Prog{Begin: []Stmt{tr(1)}, Rules: []Rule{{Kind: "pn", Body: []Stmt{tr(2)}}}, End: []Stmt{tr(9)}})
		for _, t := range []byte{'l', 'v'} {
			mk("sys-argc-operand", args, Prog{Begin: []Stmt{gm(t), tr(1), gm(t), tr(3)}, Rules: []Rule{{Kind: "pn", Body: []Stmt{tr(2)}}}, End: []Stmt{tr(9)}})
			mk("sys-argc-operand", args, Prog{Begin: []Stmt{{Op: "W", Src: Src{K: 'm'}, Tgt: Tgt{K: t, Name: "g0"}, A: []Stmt{tr(1)}}, tr(3)}, End: []Stmt{tr(9)}})
			mk("sys-argc-operand", args, Prog{Rules: []Rule{{Kind: "pn", Body: []Stmt{tr(2), gm(t), tr(3)}}}, End: []Stmt{gm(t), tr(9)}})
		}
	}
	return cs
}
