package main

// Reader for the statement skeleton dumped by interp/verif_c18.go, and the tree walks the
// search oracle needs (written independently of the Coq model).

import (
	"fmt"
	"strconv"
	"strings"
)

type sx struct {
	atom string
	list []*sx
	isL  bool
}

func parseSx(s string) (*sx, error) {
	pos := 0
	var one func() (*sx, error)
	skip := func() {
		for pos < len(s) && (s[pos] == ' ' || s[pos] == '\n' || s[pos] == '\t') {
			pos++
		}
	}
	one = func() (*sx, error) {
		skip()
		if pos >= len(s) {
			return nil, fmt.Errorf("sexp: unexpected end")
		}
		if s[pos] == '(' {
			pos++
			n := &sx{isL: true}
			for {
				skip()
				if pos >= len(s) {
					return nil, fmt.Errorf("sexp: missing )")
				}
				if s[pos] == ')' {
					pos++
					return n, nil
				}
				k, err := one()
				if err != nil {
					return nil, err
				}
				n.list = append(n.list, k)
			}
		}
		st := pos
		for pos < len(s) && !strings.ContainsRune(" ()\n\t", rune(s[pos])) {
			pos++
		}
		if pos == st {
			return nil, fmt.Errorf("sexp: unexpected )")
		}
		return &sx{atom: s[st:pos]}, nil
	}
	r, err := one()
	if err != nil {
		return nil, err
	}
	skip()
	if pos != len(s) {
		return nil, fmt.Errorf("sexp: trailing input")
	}
	return r, nil
}

type Pos struct{ Line, Col int }

func (p Pos) Less(q Pos) bool { return p.Line < q.Line || (p.Line == q.Line && p.Col < q.Col) }
func (p Pos) String() string  { return fmt.Sprintf("%d.%d", p.Line, p.Col) }

type Stmt struct {
	Kind             string
	Start, Body0, End Pos // Body0 = BodyStart (if/for/forin/while only)
	Body, Else       []*Stmt
	CoverMode        string
	CoverIdx         int
}

type Action struct {
	NPat int
	Nil  bool
	Body []*Stmt
}

type Prog struct {
	Begin   [][]*Stmt
	Actions []Action
	End     [][]*Stmt
	Funcs   [][]*Stmt
}

func atoi(x *sx) int {
	n, err := strconv.Atoi(x.atom)
	if err != nil {
		panic("skeleton: number expected: " + x.atom)
	}
	return n
}

func stmtOf(x *sx) *Stmt {
	l := x.list
	k := l[0].atom
	s := &Stmt{Kind: k}
	switch k {
	case "cover":
		s.CoverMode, s.CoverIdx = l[1].atom, atoi(l[2])
	case "if":
		s.Start, s.Body0, s.End = Pos{atoi(l[1]), atoi(l[2])}, Pos{atoi(l[3]), atoi(l[4])}, Pos{atoi(l[5]), atoi(l[6])}
		s.Body, s.Else = listOf(l[7]), listOf(l[8])
	case "for", "forin", "while":
		s.Start, s.Body0, s.End = Pos{atoi(l[1]), atoi(l[2])}, Pos{atoi(l[3]), atoi(l[4])}, Pos{atoi(l[5]), atoi(l[6])}
		s.Body = listOf(l[7])
	case "dowhile", "block":
		s.Start, s.End = Pos{atoi(l[1]), atoi(l[2])}, Pos{atoi(l[3]), atoi(l[4])}
		s.Body = listOf(l[5])
	default:
		s.Start, s.End = Pos{atoi(l[1]), atoi(l[2])}, Pos{atoi(l[3]), atoi(l[4])}
	}
	return s
}

func listOf(x *sx) []*Stmt {
	r := []*Stmt{}
	for _, k := range x.list {
		r = append(r, stmtOf(k))
	}
	return r
}

func progOf(text string) (p *Prog, err error) {
	defer func() {
		if r := recover(); r != nil {
			err = fmt.Errorf("skeleton: %v", r)
		}
	}()
	x, err := parseSx(text)
	if err != nil {
		return nil, err
	}
	p = &Prog{}
	for _, sec := range x.list[1:] {
		switch sec.list[0].atom {
		case "begin":
			for _, l := range sec.list[1:] {
				p.Begin = append(p.Begin, listOf(l))
			}
		case "end":
			for _, l := range sec.list[1:] {
				p.End = append(p.End, listOf(l))
			}
		case "funcs":
			for _, l := range sec.list[1:] {
				p.Funcs = append(p.Funcs, listOf(l))
			}
		case "actions":
			for _, a := range sec.list[1:] {
				ac := Action{NPat: atoi(a.list[1])}
				if !a.list[2].isL {
					ac.Nil = true
				} else {
					ac.Body = listOf(a.list[2])
				}
				p.Actions = append(p.Actions, ac)
			}
		}
	}
	return p, nil
}

// every statement list of the program, nested ones included
func (p *Prog) Lists() [][]*Stmt {
	var out [][]*Stmt
	var walk func(l []*Stmt)
	walk = func(l []*Stmt) {
		out = append(out, l)
		for _, s := range l {
			switch s.Kind {
			case "if":
				walk(s.Body)
				walk(s.Else)
			case "for", "forin", "while", "dowhile", "block":
				walk(s.Body)
			}
		}
	}
	for _, l := range p.Begin {
		walk(l)
	}
	for _, a := range p.Actions {
		if !a.Nil {
			walk(a.Body)
		}
	}
	for _, l := range p.End {
		walk(l)
	}
	for _, l := range p.Funcs {
		walk(l)
	}
	return out
}

func (p *Prog) HasEmptyAction() bool {
	for _, a := range p.Actions {
		if !a.Nil && len(a.Body) == 0 {
			return true
		}
	}
	return false
}

// an action body that is not empty but consists only of (nested) empty blocks: { { } }
func codeless(l []*Stmt) bool {
	for _, s := range l {
		if s.Kind != "block" || !codeless(s.Body) {
			return false
		}
	}
	return true
}

func (p *Prog) HasCodelessAction() bool {
	for _, a := range p.Actions {
		if !a.Nil && len(a.Body) > 0 && codeless(a.Body) {
			return true
		}
	}
	// END blocks are compiled into one sequence; `END {}` gets a Nop, `END { { } }` gets nothing
	for _, l := range p.End {
		if len(l) > 0 && codeless(l) {
			return true
		}
	}
	return false
}

// shape features for the histogram
func (p *Prog) Features() (nStmts, maxDepth int, kinds map[string]int) {
	kinds = map[string]int{}
	var walk func(l []*Stmt, d int)
	walk = func(l []*Stmt, d int) {
		if d > maxDepth {
			maxDepth = d
		}
		for _, s := range l {
			nStmts++
			kinds[s.Kind]++
			switch s.Kind {
			case "if":
				walk(s.Body, d+1)
				walk(s.Else, d+1)
			case "for", "forin", "while", "dowhile", "block":
				walk(s.Body, d+1)
			}
		}
	}
	for _, l := range p.Begin {
		walk(l, 0)
	}
	for _, a := range p.Actions {
		walk(a.Body, 0)
	}
	for _, l := range p.End {
		walk(l, 0)
	}
	for _, l := range p.Funcs {
		walk(l, 0)
	}
	return
}
