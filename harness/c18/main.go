// C18 harness: coverage instrumentation is transparent and its counts are exact.
//
// Implementation under test: the goawk command (goawk.go flags -coverprofile / -covermode /
// -coverappend, internal/cover, internal/parseutil), built once per run from the repository.
//
// Correspondence (implementation vs the extracted Coq model):
//   - parseutil.FileReader.AddFile line table and concatenated source vs [add_file];
//   - the tree after cover.Annotate (where every counter statement sits, its index and mode,
//     nil-ness of action bodies) and the tracked block table vs [annotate], both modes;
//   - the bytes of the profile file written by the command vs [write_profile] applied to the
//     model's blocks and the __COVER contents the theorems predict from the number of times each
//     statement began (taken from a reference run that marks EVERY statement).
//
// Search oracle (implementation only, equations of the property, independent of the model):
//   - stdout and exit status with coverage (set, count, -coverappend ...) = without;
//   - every profile line names a program file, lies inside it, start before end;
//   - its start is the start of a statement, and its count is the number of times that
//     statement began executing (count mode) / 1 iff that number is non-zero (set mode);
//   - a profile written over an existing (longer) profile of an earlier program version, without
//     -coverappend, equals the profile written to a fresh path (history family);
//   - the blocks partition the statements: numStmts consecutive statements from that one,
//     every statement of every statement list in exactly one block, sum numStmts = #statements.
package main

import (
	"bytes"
	"context"
	"encoding/hex"
	"encoding/json"
	"fmt"
	"os"
	"os/exec"
	"path/filepath"
	"regexp"
	"sort"
	"strconv"
	"strings"
	"sync"
	"time"

	"github.com/benhoyt/goawk/interp"
	"verif/harness/awkgen"
	"verif/harness/hx"
)

type PFile struct {
	Name    string `json:"name"`
	Content string `json:"content"`
}

type Case struct {
	Kind     string   `json:"kind"`     // generated | awkgen | hand:<name> | straddle
	Files    []PFile  `json:"files"`    // program files, in -f order
	CmdLine  bool     `json:"cmdline"`  // program text on the command line instead of -f
	RelPaths bool     `json:"relpaths"` // -f a.awk (relative to the working directory) instead of absolute
	Input    string   `json:"stdin"`
	InFiles  []string `json:"input_files"` // contents of the input files named as arguments
	Extra    string   `json:"extra"`       // extra coverage run: count-append | set-overwrite | set-append-new | eqflags | mode-only
	Straddle bool     `json:"straddle"`    // a statement list is left open across two program files
	Missing  bool     `json:"missing_input"` // a non-existent input file is named as the last argument
	DirInput bool     `json:"dir_input"`     // an unreadable operand (a directory) is named as an input file
	StdinLeft bool    `json:"stdin_left"`    // standard input is a file shared with a following reader; the bytes left are compared
	NoCLI    bool     `json:"nocli"`       // correspondence of AddFile / Annotate only (no process is started)
}

type runRes struct {
	Stdout, Stderr string
	Status         int
	Left           string // what the command left unread on its standard input ("" unless asked for)
}

const leftMark = "\x1e--left-on-stdin--\x1e"

type corrReq struct {
	class, input, req, impl string
}

type H struct {
	goawk string
	base  string
}

func (h *H) runCLI(dir string, args []string, stdin string, left bool) runRes {
	// the generated programs terminate at once; a run that hits the timeout (overloaded machine)
	// is repeated with a longer one and, if it still does not finish, reported as status -999,
	// which checkCase turns into a harness error, never into a finding
	for _, limit := range []time.Duration{30 * time.Second, 120 * time.Second} {
		ctx, cancel := context.WithTimeout(context.Background(), limit)
		cmd := exec.CommandContext(ctx, h.goawk, args...)
		cmd.Dir = dir
		cmd.Stdin = strings.NewReader(stdin)
		var stdinFile *os.File
		if left {
			// standard input is a regular file shared with a following reader: whether goawk read
			// its input at all is observable as the bytes that reader still finds
			sf := filepath.Join(dir, "stdin.txt")
			if err := os.WriteFile(sf, []byte(stdin), 0o644); err == nil {
				stdinFile, _ = os.Open(sf)
			}
			sh := []string{"-c", `"$0" "$@"; st=$?; printf '\036--left-on-stdin--\036'; cat; exit $st`, h.goawk}
			cmd = exec.CommandContext(ctx, "/bin/sh", append(sh, args...)...)
			cmd.Dir = dir
			cmd.Stdin = stdinFile
		}
		var out, errb bytes.Buffer
		cmd.Stdout, cmd.Stderr = &out, &errb
		err := cmd.Run()
		timedOut := ctx.Err() != nil
		cancel()
		if stdinFile != nil {
			stdinFile.Close()
		}
		if timedOut {
			continue
		}
		st := 0
		if err != nil {
			if ee, ok := err.(*exec.ExitError); ok {
				st = ee.ExitCode()
			} else {
				st = -999
			}
		}
		o, l := out.String(), ""
		if left {
			if k := strings.LastIndex(o, leftMark); k >= 0 {
				o, l = o[:k], o[k+len(leftMark):]
			} else {
				st = -999
			}
		}
		return runRes{o, errb.String(), st, l}
	}
	return runRes{"", "timeout", -999, ""}
}

var lineRe = regexp.MustCompile(`^(.*):(\d+)\.(\d+),(\d+)\.(\d+) (\d+) (\d+)$`)

type loc struct {
	list []*Stmt
	idx  int
}

// result of the analysis of one case
type caseResult struct {
	fails    []hx.Failure
	reqs     []corrReq
	hist     []string
	distinct string
	sample   any
	herr     string
	searches int
}

func caseJSON(c *Case) map[string]any {
	b, _ := json.Marshal(c)
	var m map[string]any
	_ = json.Unmarshal(b, &m)
	return m
}

func (h *H) checkCase(n int, c *Case) (res caseResult) {
	dir := filepath.Join(h.base, fmt.Sprintf("c%d", n))
	if err := os.MkdirAll(dir, 0o755); err != nil {
		res.herr = err.Error()
		return
	}
	defer os.RemoveAll(dir)
	fail := func(class, oracle string, detail map[string]any) {
		detail["case"] = caseJSON(c)
		res.fails = append(res.fails, hx.Failure{Class: class, Oracle: oracle, Detail: detail})
	}

	// ---- lay the case out on disk ----
	var paths []string   // as given to the command and to FileReader
	var abs []string     // what toAbsolutePath makes of them
	var contents [][]byte
	var progArgs []string
	for _, f := range c.Files {
		contents = append(contents, []byte(f.Content))
		if c.CmdLine {
			paths = append(paths, "<cmdline>")
			abs = append(abs, filepath.Join(dir, "<cmdline>"))
			break
		}
		full := filepath.Join(dir, f.Name)
		if err := os.WriteFile(full, []byte(f.Content), 0o644); err != nil {
			res.herr = err.Error()
			return
		}
		if c.RelPaths {
			paths = append(paths, f.Name)
		} else {
			paths = append(paths, full)
		}
		abs = append(abs, full)
		progArgs = append(progArgs, "-f", paths[len(paths)-1])
	}
	if c.CmdLine {
		contents = contents[:1]
		progArgs = []string{c.Files[0].Content}
	}
	var inArgs []string
	for i, in := range c.InFiles {
		p := filepath.Join(dir, fmt.Sprintf("in%d.txt", i+1))
		if err := os.WriteFile(p, []byte(in), 0o644); err != nil {
			res.herr = err.Error()
			return
		}
		inArgs = append(inArgs, p)
	}
	if c.DirInput {
		d := filepath.Join(dir, "unreadable-operand.d")
		_ = os.MkdirAll(d, 0o755)
		inArgs = append(inArgs, d)
	}
	if c.Missing {
		inArgs = append(inArgs, filepath.Join(dir, "no-such-input.txt"))
	}
	progText := ""
	for _, f := range c.Files {
		progText += "=== " + f.Name + "\n" + f.Content + "\n"
	}

	// ---- in-process: FileReader + Annotate, both modes ----
	var before *Prog
	var source []byte
	var filesDump string
	skel := ""
	for _, mode := range []string{"set", "count"} {
		var r *interp.VerifCoverCase
		var err error
		func() {
			defer func() {
				if p := recover(); p != nil {
					err = fmt.Errorf("panic: %v", p)
				}
			}()
			r, err = interp.VerifCoverAnnotate(paths, contents, mode)
		}()
		if r == nil || r.Before == "" {
			res.hist = append(res.hist, "parse-error")
			res.sample = map[string]string{"generator-produced-unparsable": progText, "err": fmt.Sprint(err)}
			return
		}
		if err != nil {
			// Annotate / re-resolve / re-compile of a parsable program failed
			res.searches++
			fail(c.Kind, "annotated program resolves and compiles", map[string]any{"mode": mode, "error": err.Error()})
			return
		}
		if mode == "set" {
			skel, source, filesDump = r.Before, r.Source, r.Files
			before, err = progOf(r.Before)
			if err != nil {
				res.herr = err.Error()
				return
			}
			var af []string
			for i := range paths {
				af = append(af, hx.HexS(paths[i]), hx.Hex(contents[i]))
			}
			res.reqs = append(res.reqs, corrReq{"add-file", progText, "addfiles\t" + strings.Join(af, "\t"), r.Files + "\t" + hx.Hex(r.Source)})
		}
		res.reqs = append(res.reqs, corrReq{"annotate-" + mode, progText,
			"annotate\t" + mode + "\t" + r.Files + "\t" + r.Before, r.After + "\t" + r.Blocks})
	}
	nStmts, depth, kinds := before.Features()
	res.hist = append(res.hist, fmt.Sprintf("files=%d", len(paths)), fmt.Sprintf("depth=%d", depth))
	for k := range kinds {
		res.hist = append(res.hist, "has:"+k)
	}
	if nStmts >= 3 {
		res.distinct = progText
	}

	if c.NoCLI {
		return
	}

	// file table: line offsets of each program file in the concatenated source
	fx, err := parseSx(filesDump)
	if err != nil {
		res.herr = err.Error()
		return
	}
	var fileLines []int
	for _, f := range fx.list[1:] {
		fileLines = append(fileLines, atoi(f.list[1]))
	}
	srcLines := strings.Split(string(source), "\n")

	// statements by start position
	lists := before.Lists()
	byStart := map[Pos]loc{}
	dup := false
	total := 0
	for _, l := range lists {
		for i, s := range l {
			total++
			if _, ok := byStart[s.Start]; ok {
				dup = true
			}
			byStart[s.Start] = loc{l, i}
		}
	}
	if dup {
		res.hist = append(res.hist, "duplicate-statement-start")
	}

	// ---- plain run ----
	plainArgs := append(append([]string{}, progArgs...), inArgs...)
	plain := h.runCLI(dir, plainArgs, c.Input, c.StdinLeft)
	if plain.Status == -999 || plain.Status == -1 {
		res.herr = "the plain command could not be run or was killed: " + plain.Stderr + "\n" + progText
		return
	}

	// ---- reference run: a marker in front of every statement ----
	began := map[Pos]int{}
	markerOK := false
	var markerErr error
	// An action body (or END block) made only of empty blocks compiles to no code; the compiler gives
	// it a Nop (it used not to: F-C18-3, the plain command ran it as "print $0" / "no END" while any
	// inserted counter or marker changed that).  If that ever returns, the reference run disagrees
	// with the plain command too: then it is not used and the transparency oracle reports the case.
	codelessAction := before.HasCodelessAction()
	if codelessAction {
		res.hist = append(res.hist, "action-of-only-empty-blocks")
	}
	func() {
		defer func() {
			if p := recover(); p != nil {
				res.herr = fmt.Sprintf("marker run panicked: %v\n%s", p, progText)
			}
		}()
		prog, marks, err := interp.VerifMarkedProgram(source)
		if err != nil {
			res.herr = fmt.Sprintf("marker program: %v\n%s", err, progText)
			return
		}
		ip, err := interp.New(prog)
		if err != nil {
			res.herr = err.Error()
			return
		}
		var out, errb bytes.Buffer
		ctx, cancel := context.WithTimeout(context.Background(), 20*time.Second)
		defer cancel()
		status, err := ip.ExecuteContext(ctx, &interp.Config{Argv0: "goawk", Args: inArgs, Stdin: strings.NewReader(c.Input),
			Output: &out, Error: &errb, Vars: []string{"FS", " ", "INPUTMODE", "", "OUTPUTMODE", ""}})
		markerErr = err
		if out.String() != plain.Stdout || (err == nil && status != plain.Status) || (err != nil && plain.Status == 0) {
			if codelessAction {
				res.hist = append(res.hist, "reference-run-unusable:body-of-only-empty-blocks")
				return
			}
			res.herr = fmt.Sprintf("reference run disagrees with the plain command: status %d err %v out %q vs status %d out %q\n%s",
				status, err, out.String(), plain.Status, plain.Stdout, progText)
			return
		}
		arr := ip.Array(interp.VerifMarkArray)
		for _, m := range marks {
			if v, ok := arr[strconv.Itoa(m.ID)]; ok {
				if f, isF := v.(float64); isF {
					began[Pos{m.Line, m.Col}] += int(f)
				}
			}
		}
		markerOK = true
	}()
	if res.herr != "" {
		return
	}
	var countWords []string
	{
		var ps []Pos
		for p, n := range began {
			if n > 0 {
				ps = append(ps, p)
			}
		}
		sort.Slice(ps, func(i, j int) bool { return ps[i].Less(ps[j]) })
		for _, p := range ps {
			countWords = append(countWords, fmt.Sprintf("%d:%d:%d", p.Line, p.Col, began[p]))
		}
	}
	if markerErr != nil {
		res.hist = append(res.hist, "run-time-error")
	}

	// ---- coverage runs ----
	type variant struct {
		name, mode      string
		flags           []string
		profile         string // "" = none written
		preexisting     *string
		appendFlag      bool
		prevRun         bool   // first write the profile of an earlier, LONGER program to the same path
		sameAs          string // the profile must equal, byte for byte, the one this other variant wrote to a fresh path
	}
	p1, p2, p3 := filepath.Join(dir, "p1.cov"), filepath.Join(dir, "p2.cov"), filepath.Join(dir, "p3.cov")
	vs := []variant{
		{name: "set", mode: "set", flags: []string{"-coverprofile", p1}, profile: p1},
		{name: "count", mode: "count", flags: []string{"-covermode", "count", "-coverprofile", p2}, profile: p2},
	}
	junk := "mode: set\n/some/other.awk:1.1,2.2 3 4\n"
	switch c.Extra {
	case "count-append":
		vs = append(vs, variant{name: "count-append", mode: "count", flags: []string{"-coverappend", "-covermode", "count", "-coverprofile", p2}, profile: p2, appendFlag: true})
	case "set-overwrite":
		vs = append(vs, variant{name: "set-overwrite", mode: "set", flags: []string{"-covermode", "set", "-coverprofile", p3}, profile: p3, preexisting: &junk})
	case "set-append-new":
		vs = append(vs, variant{name: "set-append-new", mode: "set", flags: []string{"-coverprofile", p3, "-coverappend"}, profile: p3, appendFlag: true})
	case "eqflags":
		vs = append(vs, variant{name: "eqflags", mode: "count", flags: []string{"-covermode=count", "-coverprofile=" + p3}, profile: p3})
	case "append-junk":
		vs = append(vs, variant{name: "append-junk", mode: "set", flags: []string{"-coverappend", "-coverprofile", p3}, profile: p3, preexisting: &junk, appendFlag: true})
	case "mode-only":
		vs = append(vs, variant{name: "mode-only", mode: "count", flags: []string{"-covermode", "count"}})
	case "history":
		// the profile path already holds the (longer) profile of an earlier version of the program;
		// run again without -coverappend (truncate), then once more with -coverappend, both modes
		h1, h2 := filepath.Join(dir, "h1.cov"), filepath.Join(dir, "h2.cov")
		vs = append(vs,
			variant{name: "hist-set", mode: "set", flags: []string{"-coverprofile", h1}, profile: h1, prevRun: true, sameAs: "set"},
			variant{name: "hist-set-append", mode: "set", flags: []string{"-coverappend", "-coverprofile", h1}, profile: h1, appendFlag: true},
			variant{name: "hist-count", mode: "count", flags: []string{"-covermode", "count", "-coverprofile", h2}, profile: h2, prevRun: true, sameAs: "count"},
			variant{name: "hist-count-append", mode: "count", flags: []string{"-covermode=count", "-coverappend", "-coverprofile", h2}, profile: h2, appendFlag: true})
	}
	// the earlier, longer version of the program: the same files plus one more with a dozen blocks
	const prevExtra = `function zz_prev_unused(a,   i) { for (i = 0; i < 3; i++) { if (i == a) return i; a++ } while (a > 100) a-- ; return a }
BEGIN { zz_p = 1; if (zz_p > 5) { zz_p = 2; zz_p++ } else zz_p = 0; for (zz_i = 0; zz_i < 2; zz_i++) zz_p += zz_i; do zz_p-- ; while (zz_p > 100) }
END { if (zz_p == 12345) { zz_p = 1; { zz_p = 2 } } }
`
	var prevArgs []string
	if c.CmdLine {
		prevArgs = []string{c.Files[0].Content + "\n" + prevExtra}
	} else {
		extra := filepath.Join(dir, "zz_previous_version_of_the_script_with_a_long_name.awk")
		if c.Extra == "history" {
			if err := os.WriteFile(extra, []byte(prevExtra), 0o644); err != nil {
				res.herr = err.Error()
				return
			}
		}
		prevArgs = append(append([]string{}, progArgs...), "-f", extra)
	}
	written := map[string]string{}
	for _, v := range vs {
		if v.preexisting != nil {
			_ = os.WriteFile(v.profile, []byte(*v.preexisting), 0o644)
		}
		if v.prevRun {
			pa := append(append(append([]string{}, v.flags...), prevArgs...), inArgs...)
			pr := h.runCLI(dir, pa, c.Input, false)
			if pr.Status == -999 || pr.Status == -1 {
				res.herr = "the command could not be run or was killed: " + pr.Stderr + "\n" + progText
				return
			}
			res.hist = append(res.hist, "run:earlier-version")
		}
		old, oldErr := []byte(nil), error(nil)
		if v.profile != "" {
			old, oldErr = os.ReadFile(v.profile)
		}
		existed := v.profile != "" && oldErr == nil
		args := append(append(append([]string{}, v.flags...), progArgs...), inArgs...)
		got := h.runCLI(dir, args, c.Input, c.StdinLeft)
		if got.Status == -999 || got.Status == -1 {
			res.herr = "the command could not be run or was killed: " + got.Stderr + "\n" + progText
			return
		}
		res.searches++
		res.hist = append(res.hist, "run:"+v.name)

		// (1) transparency
		if got.Stdout != plain.Stdout || got.Status != plain.Status || got.Stderr != plain.Stderr || got.Left != plain.Left {
			class := c.Kind
			if codelessAction {
				class = "action-or-END-body-of-only-empty-blocks"
			} else if before.HasEmptyAction() {
				class = "action-with-empty-body"
			}
			fail(class, "output and exit status equal with and without coverage", map[string]any{
				"args": args, "plain_args": plainArgs, "expected_stdout": plain.Stdout, "expected_status": plain.Status,
				"expected_stderr": plain.Stderr, "expected_left_on_stdin": plain.Left,
				"got_stdout": got.Stdout, "got_status": got.Status, "got_stderr": got.Stderr, "got_left_on_stdin": got.Left})
		}
		if v.profile == "" || !markerOK || markerErr != nil {
			continue
		}
		text, err := os.ReadFile(v.profile)
		if err != nil {
			fail(c.Kind, "profile written after a run without error", map[string]any{"args": args, "error": err.Error(), "stderr": got.Stderr})
			continue
		}
		written[v.name] = string(text)
		if v.prevRun {
			if existed && len(old) > len(text) {
				res.hist = append(res.hist, "history:earlier-profile-was-longer")
			} else {
				res.hist = append(res.hist, "history:earlier-profile-not-longer")
			}
		}
		if v.sameAs != "" {
			if fresh, ok := written[v.sameAs]; ok {
				res.searches++
				if fresh != string(text) {
					fail(c.Kind, "profile written over an existing profile without -coverappend equals the one written to a fresh path",
						map[string]any{"args": args, "earlier_program_args": prevArgs, "profile_before_the_run": string(old),
							"expected_profile": fresh, "got_profile": string(text)})
				}
			}
		}
		// correspondence: whole file
		res.reqs = append(res.reqs, corrReq{"profile-" + v.name, progText,
			strings.Join([]string{"profile", v.mode, b01(v.appendFlag), b01(existed), hx.Hex(old), hx.HexS(dir), filesDump, skel, strings.Join(countWords, " ")}, "\t"),
			hx.Hex(text)})

		// search: the lines this run wrote
		body := string(text)
		if existed && v.appendFlag {
			if !strings.HasPrefix(body, string(old)) {
				fail(c.Kind, "append keeps the existing profile", map[string]any{"args": args, "old": string(old), "got": body})
				continue
			}
			body = body[len(old):]
		} else {
			hdr := "mode: " + v.mode + "\n"
			if !strings.HasPrefix(body, hdr) {
				fail(c.Kind, "profile starts with the mode line", map[string]any{"args": args, "expected": hdr, "got": body})
				continue
			}
			body = body[len(hdr):]
		}
		lines := strings.Split(strings.TrimSuffix(body, "\n"), "\n")
		if body == "" {
			lines = nil
		}
		covered := map[*Stmt]int{}
		sum := 0
		det := func(i int, line string, extra map[string]any) map[string]any {
			m := map[string]any{"args": args, "profile": string(text), "line_number": i + 1, "line": line}
			for k, x := range extra {
				m[k] = x
			}
			return m
		}
		for i, line := range lines {
			res.searches++
			m := lineRe.FindStringSubmatch(line)
			if m == nil {
				fail(c.Kind, "profile line format", det(i, line, nil))
				continue
			}
			num := func(k int) int { x, _ := strconv.Atoi(m[k]); return x }
			sl, sc, el, ec, ns, cnt := num(2), num(3), num(4), num(5), num(6), num(7)
			wfClass := c.Kind
			if c.Straddle {
				wfClass = "statement-list-open-across-two-program-files"
			}
			fi := -1
			for k := range abs {
				if abs[k] == m[1] {
					fi = k
					break
				}
			}
			if fi < 0 {
				fail(wfClass, "block lies within the named source file, start before end", det(i, line, map[string]any{"why": "path is not a program file", "program_files": abs}))
				continue
			}
			off := 0
			for k := 0; k < fi; k++ {
				off += fileLines[k]
			}
			lineLen := func(fileLine int) int {
				g := off + fileLine
				if g >= 1 && g <= len(srcLines) {
					return len(srcLines[g-1])
				}
				return -1
			}
			why := ""
			switch {
			case sl < 1 || sl > fileLines[fi]:
				why = "start line outside the file"
			case el < 1 || el > fileLines[fi]:
				why = "end line outside the file"
			case !(Pos{sl, sc}).Less(Pos{el, ec}):
				why = "start not before end"
			case sc < 1 || sc > lineLen(sl)+1:
				why = "start column outside the line"
			case ec < 1 || ec > lineLen(el)+1:
				why = "end column outside the line"
			}
			if why != "" {
				fail(wfClass, "block lies within the named source file, start before end", det(i, line, map[string]any{"why": why, "file_lines": fileLines[fi]}))
			}
			at, ok := byStart[Pos{off + sl, sc}]
			if !ok {
				fail(c.Kind, "block starts at a statement", det(i, line, nil))
				continue
			}
			want := began[Pos{off + sl, sc}]
			if v.mode == "set" && want > 0 {
				want = 1
			}
			if cnt != want && !dup {
				fail(c.Kind, "count = number of times the first statement of the block began ("+v.mode+" mode)",
					det(i, line, map[string]any{"expected_count": want, "got_count": cnt, "first_statement_began": began[Pos{off + sl, sc}]}))
			}
			if ns < 1 || at.idx+ns > len(at.list) {
				fail(c.Kind, "every statement in exactly one block", det(i, line, map[string]any{"why": "numStmts exceeds the statements that follow in the list"}))
				continue
			}
			for k := 0; k < ns; k++ {
				covered[at.list[at.idx+k]]++
			}
			sum += ns
		}
		if !dup {
			bad := 0
			for _, l := range lists {
				for _, s := range l {
					if covered[s] != 1 {
						bad++
					}
				}
			}
			if bad > 0 || sum != total {
				fail(c.Kind, "every statement in exactly one block", map[string]any{"args": args, "profile": string(text),
					"statements": total, "sum_numStmts": sum, "statements_not_in_exactly_one_block": bad})
			}
		}
	}
	return
}

func b01(b bool) string {
	if b {
		return "1"
	}
	return "0"
}

// ---- hand-written cases ----

func hand(name, prog, input string) *Case {
	return &Case{Kind: "hand:" + name, Files: []PFile{{"a.awk", prog}}, Input: input, Extra: "count-append"}
}

func handCases() []*Case {
	in := "a 1\nb 2 x\n\nabc\n"
	cs := []*Case{
		// F-C18-1 and its spellings
		{Kind: "hand:empty-action", Files: []PFile{{"a.awk", "{}"}}, CmdLine: true, Input: "x\n", Extra: "count-append"},
		hand("empty-action-pattern", "/x/ {}\n", "x\ny\n"),
		hand("empty-action-semicolon", "{;}\n", "x\n"),
		hand("empty-action-range", "NR==1,NR==2 {\n}\nEND { print NR }\n", "x\ny\nz\n"),
		hand("empty-action-among-others", "BEGIN {} { } END {}\n", "x\n"),
		// siblings that must be (and are) transparent
		hand("empty-begin", "BEGIN {}\n", in),
		hand("empty-end", "END {}\n", in),
		hand("empty-begin-end-action", "BEGIN {}\n{ print }\nEND {}\n", in),
		hand("empty-function", "function f() {}\nBEGIN { f(); print f() \"x\" }\n", in),
		hand("empty-if-bodies", "BEGIN { if (1) ; else ; print \"k\" }\n", in),
		hand("only-blocks", "{ { } }\nEND { { { } } }\n", in),
		{Kind: "hand:end-only-blocks", Files: []PFile{{"a.awk", "END { { } }\n"}}, Input: in, Missing: true},
		{Kind: "hand:end-only-blocks-begin", Files: []PFile{{"a.awk", "BEGIN { print 1 }\nEND { { } { { } } }\n"}}, Input: in, Missing: true, Extra: "eqflags"},
		// is the input READ?  empty BEGIN/END/action blocks x inputs whose reading is observable
		{Kind: "hand:empty-end-missing-input", Files: []PFile{{"a.awk", "BEGIN { print \"start\" } END { }\n"}}, Input: in, Missing: true},
		{Kind: "hand:only-empty-end-missing-input", Files: []PFile{{"a.awk", "END { }\n"}}, Input: in, Missing: true, Extra: "count-append"},
		{Kind: "hand:two-empty-ends-missing-input", Files: []PFile{{"a.awk", "BEGIN{x=1} END{} END{}\n"}}, Input: in, Missing: true},
		{Kind: "hand:empty-end-stdin-left", Files: []PFile{{"a.awk", "BEGIN { print \"start\" } END { }\n"}}, Input: in, StdinLeft: true},
		{Kind: "hand:begin-only-stdin-left", Files: []PFile{{"a.awk", "BEGIN { print \"start\" }\nBEGIN { }\n"}}, Input: in, StdinLeft: true},
		{Kind: "hand:empty-end-dir-operand", Files: []PFile{{"a.awk", "END {}\n"}}, CmdLine: true, Input: in, DirInput: true},
		{Kind: "hand:empty-action-missing-input", Files: []PFile{{"a.awk", "BEGIN { } { }\n"}}, Input: in, Missing: true},
		{Kind: "hand:getline-only", Files: []PFile{{"a.awk", "BEGIN { while ((getline l) > 0) n++; print n + 0 }\n"}}, Input: in, StdinLeft: true},
		{Kind: "hand:getline-only-empty-end", Files: []PFile{{"a.awk", "BEGIN { getline l; print l }\nEND { }\n"}}, Input: in, StdinLeft: true, Extra: "eqflags"},
		{Kind: "hand:getline-file-missing", Files: []PFile{{"a.awk", "BEGIN { r = (getline l < \"no-such-file\"); print r } END { }\n"}}, Input: in, Missing: true},
		{Kind: "hand:missing-input", Files: []PFile{{"a.awk", "{ print }\nEND { print NR }\n"}}, Input: in, Missing: true},
		hand("only-empty-loops", "{ while (i++ < 3) ; for (;j < 2;j++) {} }\n", in),
		hand("pattern-only", "NR == 2\n/a/\n", in),
		// every control-flow statement, nested, with early exits
		hand("nest-1", `function f(a,  i) { for (i = 0; i < 5; i++) { if (i == a) return i; if (i % 2) continue; print "f", i } return -1 }
BEGIN { while (n < 4) { n++; if (n == 2) continue; do { m++; if (m > 5) break } while (m % 3); print n, m, f(n) } }
{ if ($1 == "b") next; for (k in T) ; print NR }
NR == 3 { exit 7 }
END { print "end", NR }
`, in),
		hand("nest-2", `{ for (i = 0; i < 3; i++) for (j = 0; j < 3; j++) { if (j == 1) continue
      if (i == 2) break; print i, j } }
/abc/ { nextfile }
END { { print "x"; { print "y"; exit; print "dead" } } print "dead2" }
`, in),
		hand("exit-in-function", "function g(v) { if (v > 1) exit v; return v }\n{ print g(NR) }\nEND { print \"e\" }\n", in),
		hand("next-in-function", "function g() { next; print \"dead\" }\nNR == 1 { g() }\n{ print }\n", in),
		hand("next-in-function-from-begin", "function g() { next }\nBEGIN { print 1; g(); print 2 }\n", in),
		hand("runtime-error", "BEGIN { print 1; x = 1 / 0; print 2 }\n", in),
		hand("dead-code", "BEGIN { print 1; exit; print 2 }\n{ print; next; print }\n", in),
		hand("one-line", "BEGIN { a = 1; if (a) b = 2; else b = 3; while (b--) c++; print a, b, c }", in),
		hand("unbraced-nest", "BEGIN {\n  if (1)\n    if (0)\n      print 1\n    else\n      print 2\n  for (;;)\n    break\n  print 3\n}\n", in),
		hand("getline", "{ print; if ((getline l) > 0) print \"g\", l }\n", in),
		hand("comments-continuation", "BEGIN { x = 1 \\\n  + 2  # c\n  print x\n\n\n  # only comment\n  print \"y\" ; }\n", in),
		hand("crlf", "BEGIN {\r\n  print 1\r\n  if (1) {\r\n    print 2\r\n  }\r\n}\r\n", in),
		hand("utf8", "BEGIN { s = \"h\xc3\xa9llo\"; print s; if (1) print \"\xe2\x82\xac\" }\n", in),
		hand("regex-div", "BEGIN { a = 4; b = a / 2 / 1; if (\"x\" ~ /x/) print b }\n", in),
		{Kind: "hand:cmdline", Files: []PFile{{"a.awk", "BEGIN { print 1 }\n{ if (NR % 2) print; else next }"}}, CmdLine: true, Input: in, Extra: "eqflags"},
		{Kind: "hand:cmdline-multiline", Files: []PFile{{"a.awk", "BEGIN {\n  print 1\n}\n\n{ n++ }\nEND { print n }\n"}}, CmdLine: true, Input: in, Extra: "set-append-new"},
		// several program files
		{Kind: "hand:two-files", Files: []PFile{{"a.awk", "function f(x) { return x * 2 }\nBEGIN { print f(2) }"}, {"b.awk", "{ print f(NR) }\nEND { print \"e\" }\n"}}, Input: in, Extra: "count-append"},
		{Kind: "hand:three-files-empty-middle", Files: []PFile{{"a.awk", "BEGIN { print 1 }\n"}, {"b.awk", ""}, {"c.awk", "END { print 2 }"}}, Input: in, RelPaths: true, Extra: "set-overwrite"},
		{Kind: "hand:comment-only-file", Files: []PFile{{"a.awk", "# nothing\n\n"}, {"b.awk", "\n\n{ print }\n"}}, Input: in, Extra: "append-junk"},
		{Kind: "hand:same-file-twice-different-names", Files: []PFile{{"a.awk", "BEGIN { print 1 }\n"}, {"b.awk", "BEGIN { print 1 }\n"}}, Input: in, Extra: "mode-only"},
		{Kind: "hand:input-files", Files: []PFile{{"a.awk", "FNR == 2 { nextfile }\n{ print FNR, $0 }\n"}}, InFiles: []string{"a\nb\nc\n", "d\ne\n"}, Extra: "count-append"},
		// history: the profile path holds the longer profile of an earlier version of the program
		{Kind: "hand:history-one-block", Files: []PFile{{"a.awk", "BEGIN { print 1 }\n"}}, Input: in, Extra: "history"},
		{Kind: "hand:history-rules", Files: []PFile{{"a.awk", "{ n++; if (NR % 2) print; else next }\nEND { print n }\n"}}, Input: in, Extra: "history"},
		{Kind: "hand:history-two-files", Files: []PFile{{"a.awk", "function f(x) { return x * 2 }\n"}, {"b.awk", "{ print f(NR) }\n"}}, Input: in, RelPaths: true, Extra: "history"},
		{Kind: "hand:history-cmdline", Files: []PFile{{"a.awk", "BEGIN { x = 1; while (x < 3) x++; print x }"}}, CmdLine: true, Input: in, Extra: "history"},
		{Kind: "hand:history-empty-action", Files: []PFile{{"a.awk", "{}\nEND { print NR }\n"}}, Input: in, Extra: "history"},
		// a statement list left open across two files
		{Kind: "straddle", Straddle: true, Files: []PFile{{"a.awk", "BEGIN { print 1"}, {"b.awk", "print 2 }\n"}}, Input: in, Extra: "count-append"},
		{Kind: "straddle", Straddle: true, Files: []PFile{{"a.awk", "BEGIN {\n  print 1\n  print 2\n  if (1) {\n"}, {"b.awk", "print 3 }\n}\n"}}, Input: in},
		{Kind: "straddle", Straddle: true, Files: []PFile{{"a.awk", "\n\n\nEND { if (NR)"}, {"b.awk", "print NR\n}\n"}}, Input: in},
	}
	return cs
}

func main() {
	o := hx.ParseFlags()
	rep := hx.NewReport("C18", o.Seed, o.Tier)
	rep.Rule = "programs: skeleton generator (every control-flow statement nested <= 3, early exits, braced/unbraced/empty bodies, one or many statements per line, comments, 1-3 program files with and without trailing newline), awkgen programs (rich expressions, calls inside expressions), hand-written probes; each run plainly, with -coverprofile in set and count mode and one of -coverappend / overwrite / -flag=value / -covermode alone; distinct = distinct program text; non-trivial = at least 3 statements in statement lists"
	defer rep.Write(o.Out)

	repo := os.Getenv("VERIF_REPO")
	if repo == "" {
		repo = "/repo"
	}
	cwd, _ := os.Getwd()
	base := filepath.Join(cwd, "work", fmt.Sprintf("c18_run_%d", os.Getpid()))
	if err := os.MkdirAll(base, 0o755); err != nil {
		rep.HarnessError("%v", err)
		return
	}
	defer os.RemoveAll(base)
	h := &H{goawk: filepath.Join(base, "goawk"), base: base}
	{
		cmd := exec.Command("go", "build", "-o", h.goawk, ".")
		cmd.Dir = repo
		cmd.Env = append(os.Environ(), "GOFLAGS=-mod=mod", "GOPROXY=off", "GOSUMDB=off", "GOTOOLCHAIN=local", "CGO_ENABLED=0")
		if out, err := cmd.CombinedOutput(); err != nil {
			rep.HarnessError("building the goawk command from %s: %v: %s", repo, err, out)
			return
		}
	}

	if o.Replay != "" {
		b, err := os.ReadFile(o.Replay)
		if err != nil {
			fmt.Println("replay:", err)
			os.Exit(2)
		}
		var rp struct {
			Failure hx.Failure `json:"failure"`
		}
		if err := json.Unmarshal(b, &rp); err != nil || rp.Failure.Detail == nil {
			fmt.Println("replay: no failure.detail in", o.Replay)
			os.Exit(2)
		}
		cb, _ := json.Marshal(rp.Failure.Detail["case"])
		var c Case
		if err := json.Unmarshal(cb, &c); err != nil {
			fmt.Println("replay: bad case:", err)
			os.Exit(2)
		}
		r := h.checkCase(0, &c)
		still := false
		for _, f := range r.fails {
			if f.Oracle == rp.Failure.Oracle {
				still = true
				d, _ := json.MarshalIndent(f.Detail, "", " ")
				fmt.Printf("STILL FAILS class=%q oracle=%q\n%s\n", f.Class, f.Oracle, d)
				break
			}
		}
		if r.herr != "" {
			fmt.Println("harness error:", r.herr)
			os.Exit(2)
		}
		if still {
			os.Exit(1)
		}
		fmt.Printf("replay: oracle %q holds now (%d other failures)\n", rp.Failure.Oracle, len(r.fails))
		return
	}

	// ---- cases, all from one PRNG ----
	r := hx.NewRand(o.Seed)
	nGen, nAwk, nAnn := 45, 15, 1000
	if o.Tier == "thorough" {
		nGen, nAwk, nAnn = 2500, 600, 40000
	}
	if o.N > 0 {
		nGen, nAwk, nAnn = o.N, o.N/4, o.N*10
	}
	extras := []string{"count-append", "set-overwrite", "set-append-new", "eqflags", "append-junk", "mode-only", "", "history", "history"}
	cases := handCases()
	for i := 0; i < nGen; i++ {
		gp := genItems(r, 1+r.Intn(3))
		c := &Case{Kind: "generated", Input: inputs[r.Intn(len(inputs))], Extra: extras[r.Intn(len(extras))], RelPaths: r.Intn(4) == 0}
		names := []string{"a.awk", "b.awk", "c.awk"}
		switch r.Intn(10) {
		case 0:
			c.CmdLine = true
			c.Files = []PFile{{"a.awk", strings.Join(gp.Items, "\n")}}
		default:
			for k, t := range splitFiles(r, gp.Items) {
				c.Files = append(c.Files, PFile{names[k], t})
			}
		}
		if r.Intn(5) == 0 {
			c.InFiles = []string{inputs[r.Intn(len(inputs))], inputs[r.Intn(len(inputs))]}
		}
		cases = append(cases, c)
	}
	// every combination of empty / non-empty / absent BEGIN, END and rule blocks, each with an input
	// whose reading is observable (quick: one input dimension per program, thorough: all four)
	{
		begins := []string{"", "BEGIN { }", "BEGIN { print \"start\" }", "BEGIN { x = 1 }\nBEGIN {}", "BEGIN { if ((getline l) > 0) print \"got\", l }"}
		ends := []string{"", "END { }", "END {}\nEND { }", "END { print NR }", "END { { } }", "END { }\nEND { print \"e\" }"}
		rules := []string{"", "{ }", "NR == 1", "{ n++ }", "function f(a) { }"}
		k := 0
		for _, bg := range begins {
			for _, en := range ends {
				for _, ru := range rules {
					var items []string
					for _, it := range []string{bg, ru, en} {
						if it != "" {
							items = append(items, it)
						}
					}
					if len(items) == 0 || (bg == "" && en == "" && ru == "function f(a) { }") {
						continue
					}
					for dim := 0; dim < 4; dim++ {
						if o.Tier != "thorough" && dim != k%4 {
							continue
						}
						c := &Case{Kind: "empty-blocks-x-input", Files: []PFile{{"a.awk", strings.Join(items, "\n") + "\n"}}, Input: "a 1\nb 2\n"}
						switch dim {
						case 0:
							c.Missing = true
						case 1:
							c.StdinLeft = true
						case 2:
							c.DirInput = true
						case 3:
							c.InFiles = []string{"p\nq\n"}
							c.Missing = true
						}
						if r.Intn(4) == 0 {
							c.Extra = extras[r.Intn(len(extras))]
						}
						cases = append(cases, c)
					}
					k++
				}
			}
		}
	}
	for i := 0; i < nAwk; i++ {
		p := awkgen.NewProgram(r, true, 1+r.Intn(3))
		cases = append(cases, &Case{Kind: "awkgen", Files: []PFile{{"a.awk", p.Render(awkgen.Opts{})}},
			Input: "a b c\n1 2 3\nx10 y z\n\n4.5 aab 7 8\n", Extra: extras[r.Intn(len(extras))]})
	}

	for i := 0; i < nAnn; i++ {
		c := &Case{Kind: "annotate-only", NoCLI: true}
		if i%4 == 3 {
			p := awkgen.NewProgram(r, i%8 == 3, 1+r.Intn(3))
			c.Files = []PFile{{"a.awk", p.Render(awkgen.Opts{})}}
		} else {
			gp := genItems(r, 1+r.Intn(3))
			names := []string{"a.awk", "b.awk", "c.awk"}
			for k, t := range splitFiles(r, gp.Items) {
				c.Files = append(c.Files, PFile{names[k], t})
			}
		}
		cases = append(cases, c)
	}

	// ---- run them (in parallel; results are reported in case order) ----
	results := make([]caseResult, len(cases))
	var wg sync.WaitGroup
	sem := make(chan struct{}, 12)
	for i := range cases {
		wg.Add(1)
		sem <- struct{}{}
		go func(i int) {
			defer wg.Done()
			defer func() { <-sem }()
			defer func() {
				if p := recover(); p != nil {
					results[i].herr = fmt.Sprintf("case %d panicked: %v", i, p)
				}
			}()
			results[i] = h.checkCase(i+1, cases[i])
		}(i)
	}
	wg.Wait()

	var reqLines []string
	var reqs []corrReq
	for i, cr := range results {
		if cr.herr != "" {
			rep.HarnessError("%s", cr.herr)
		}
		rep.Count("kind:" + strings.SplitN(cases[i].Kind, ":", 2)[0])
		for _, k := range cr.hist {
			rep.Count(k)
		}
		if cr.distinct != "" {
			rep.Distinct(cr.distinct)
		}
		if cr.sample != nil {
			rep.Sample(cr.sample)
		} else if i%97 == 0 {
			rep.Sample(map[string]any{"case": cases[i]})
		}
		rep.SearchEvals += cr.searches
		for _, f := range cr.fails {
			rep.Fail(f)
		}
		for _, q := range cr.reqs {
			reqs = append(reqs, q)
			reqLines = append(reqLines, q.req)
		}
	}
	ans, err := hx.ModelEval(o.ModelRun, reqLines)
	if err != nil {
		rep.HarnessError("%v", err)
		return
	}
	for i, q := range reqs {
		rep.CorrEvals++
		rep.Count("corr:" + strings.SplitN(q.class, "-", 2)[0])
		if ans[i] != q.impl {
			impl, model := q.impl, ans[i]
			if strings.HasPrefix(q.class, "profile") {
				if b, err := hex.DecodeString(impl); err == nil {
					impl = string(b)
				}
				if b, err := hex.DecodeString(model); err == nil {
					model = string(b)
				}
			}
			rep.Mismatch(hx.Mismatch{Class: q.class, Input: q.input, Impl: impl, Model: model})
		}
	}
}
