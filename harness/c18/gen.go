package main

// Generator of terminating, deterministic AWK programs whose interest is the statement
// skeleton and its layout: every control-flow statement nested up to depth 3, early exits
// (break continue next nextfile exit return), braced / unbraced / empty bodies, one or many
// statements per line, comments, blank lines, several program files.

import (
	"fmt"
	"strings"

	"verif/harness/hx"
)

type gen struct {
	r        *hx.Rand
	sb       *strings.Builder
	id       int
	nfuncs   int // functions f0..f(nfuncs-1) exist
	fn       int // index of the function being generated, -1 outside
	loop     int
	inAction bool
}

func (g *gen) fresh() int { g.id++; return g.id }
func (g *gen) w(format string, a ...any) {
	fmt.Fprintf(g.sb, format, a...)
}

// callable: functions this code may call (only lower-numbered ones from inside a function: no recursion)
func (g *gen) callable() int {
	if g.fn >= 0 {
		return g.fn
	}
	return g.nfuncs
}

func (g *gen) cond() string {
	r := g.r
	n := 9
	if g.callable() > 0 {
		n = 11
	}
	switch r.Intn(n) {
	case 0:
		return fmt.Sprintf("c%d++ %% 2 == 0", g.fresh())
	case 1:
		return "NR % 2"
	case 2:
		return "x > 2"
	case 3:
		return "1"
	case 4:
		return "0"
	case 5:
		return "!(n % 3)"
	case 6:
		return "length($0) > 3"
	case 7:
		return `$1 == "a"`
	case 8:
		return "(1 in A)"
	default:
		return fmt.Sprintf("f%d(n) > 1", r.Intn(g.callable()))
	}
}

func (g *gen) simple() string {
	r := g.r
	n := 11
	if g.callable() > 0 {
		n = 14
	}
	switch r.Intn(n) {
	case 0, 1:
		return fmt.Sprintf(`print "b%d"`, g.fresh())
	case 2:
		return "print NR, x, n"
	case 3:
		return "x++"
	case 4:
		return "x = x + 2"
	case 5:
		return `s = s "a"`
	case 6:
		return "A[n % 3]++"
	case 7:
		return "delete A[1]"
	case 8:
		return fmt.Sprintf(`printf "%%s-%%d\n", "p%d", n`, g.fresh())
	case 9:
		return "n += 1"
	case 10:
		return `print length(s), s`
	case 11:
		return fmt.Sprintf("f%d(n)", r.Intn(g.callable()))
	case 12:
		return fmt.Sprintf("y = f%d(2) + 1", r.Intn(g.callable()))
	default:
		return fmt.Sprintf("print f%d(x)", r.Intn(g.callable()))
	}
}

// one of the early exits that is legal here, or "" if the dice say none
func (g *gen) jump() string {
	r := g.r
	var opts []string
	if g.loop > 0 {
		opts = append(opts, "break", "continue", "break", "continue")
	}
	if g.inAction {
		opts = append(opts, "next", "next", "nextfile")
	}
	if g.fn >= 0 {
		opts = append(opts, "return", "return x + 1", "return n", "return")
		if r.Intn(8) == 0 {
			opts = append(opts, "next") // legal syntax in a function; a run-time error when reached from BEGIN/END
		}
	}
	opts = append(opts, "exit", fmt.Sprintf("exit %d", r.Intn(4)))
	return opts[r.Intn(len(opts))]
}

func (g *gen) lastNonSpace() byte {
	s := g.sb.String()
	for i := len(s) - 1; i >= 0; i-- {
		if s[i] != ' ' && s[i] != '\t' {
			return s[i]
		}
	}
	return 0
}

// separator after a statement inside a braced list
func (g *gen) sep(ind string, oneLine bool) {
	r := g.r
	if oneLine {
		if g.lastNonSpace() == '}' && r.Intn(3) == 0 {
			g.w(" ")
			return
		}
		g.w("%s", r.Pick([]string{"; ", ";", " ; ", ";; "}))
		return
	}
	switch r.Intn(10) {
	case 0:
		g.w(";\n%s", ind)
	case 1:
		g.w("\n\n%s", ind)
	case 2:
		g.w("  # note %d\n%s", g.fresh(), ind)
	case 3:
		g.w("; ")
	case 4:
		if g.lastNonSpace() == '}' {
			g.w(" ")
		} else {
			g.w("\n%s", ind)
		}
	case 5:
		g.w("\n%s# comment line\n%s", ind, ind)
	default:
		g.w("\n%s", ind)
	}
}

// statements inside braces; the caller has written "{" and writes "}"
func (g *gen) list(d, k int, ind string, oneLine bool) {
	for i := 0; i < k; i++ {
		g.stmt(d, ind)
		if i < k-1 {
			g.sep(ind, oneLine)
		}
	}
}

// body of if / while / for / for-in, in one of the layouts
func (g *gen) body(d int, ind string) {
	r := g.r
	k := 1 + r.Intn(3)
	switch r.Intn(12) {
	case 0, 1, 2, 3:
		g.w(" {\n%s  ", ind)
		g.list(d, k, ind+"  ", false)
		g.w("\n%s}", ind)
	case 4, 5:
		g.w(" { ")
		g.list(d, k, ind, true)
		g.w(" }")
	case 6, 7:
		g.w(" ")
		g.stmt(d, ind)
	case 8:
		g.w("\n%s    ", ind)
		g.stmt(d, ind+"    ")
	case 9:
		g.w(" ;")
	case 10:
		g.w("%s", r.Pick([]string{" {}", " { }", " {\n" + ind + "}"}))
	default:
		g.w("\n%s{\n%s  ", ind, ind)
		g.list(d, k, ind+"  ", false)
		g.w("\n%s}", ind)
	}
}

func (g *gen) stmt(d int, ind string) {
	r := g.r
	if d <= 0 {
		if r.Intn(7) == 0 {
			g.w("%s", g.jump())
		} else {
			g.w("%s", g.simple())
		}
		return
	}
	switch r.Intn(16) {
	case 0, 1, 2, 3:
		g.w("%s", g.simple())
	case 4:
		g.w("%s", g.jump())
	case 5, 6, 7:
		g.w("if (%s)", g.cond())
		g.body(d-1, ind)
		if r.Intn(2) == 0 {
			switch g.lastNonSpace() {
			case '}':
				g.w("%s", r.Pick([]string{" else", "\n" + ind + "else", " else\n" + ind}))
			case ';':
				g.w("%s", r.Pick([]string{" else", "\n" + ind + "else"}))
			default:
				g.w("%s", r.Pick([]string{"; else", "\n" + ind + "else"}))
			}
			g.body(d-1, ind)
		}
	case 8:
		v := g.fresh()
		g.w("while (w%d++ < %d)", v, 1+r.Intn(2))
		g.loop++
		g.body(d-1, ind)
		g.loop--
	case 9:
		v := g.fresh()
		switch r.Intn(3) {
		case 0:
			g.w("for (i%d = 0; i%d < %d; i%d++)", v, v, 1+r.Intn(3), v)
			g.loop++
			g.body(d-1, ind)
			g.loop--
		case 1:
			g.w("for (;;) { if (q%d++ >= %d) break; ", v, r.Intn(3))
			g.loop++
			g.list(d-1, 1+r.Intn(2), ind, true)
			g.loop--
			g.w(" }")
		default:
			g.w("for (i%d = 3; i%d; i%d--)", v, v, v)
			g.loop++
			g.body(d-1, ind)
			g.loop--
		}
	case 10:
		g.w("for (k%d in %s)", g.fresh(), r.Pick([]string{"T1", "T2", "T0"}))
		g.loop++
		g.body(d-1, ind)
		g.loop--
	case 11:
		v := g.fresh()
		g.loop++
		switch r.Intn(3) {
		case 0:
			g.w("do {\n%s  ", ind)
			g.list(d-1, 1+r.Intn(2), ind+"  ", false)
			g.w("\n%s} while (d%d++ < 1)", ind, v)
		case 1:
			g.w("do ")
			g.stmt(0, ind)
			if g.lastNonSpace() != '}' {
				g.w(";")
			}
			g.w(" while (d%d++ < 2)", v)
		default:
			g.w("do\n%s  ", ind)
			g.stmt(d-1, ind+"  ")
			g.w("\n%swhile (d%d++ < 1)", ind, v)
		}
		g.loop--
	case 12, 13:
		switch r.Intn(4) {
		case 0:
			g.w("{ }")
		case 1:
			g.w("{ ")
			g.list(d-1, 1+r.Intn(2), ind, true)
			g.w(" }")
		default:
			g.w("{\n%s  ", ind)
			g.list(d-1, 1+r.Intn(3), ind+"  ", false)
			g.w("\n%s}", ind)
		}
	default:
		g.w("%s", g.simple())
	}
}

// a braced top-level body: BEGIN / END / action / function
func (g *gen) topBody(d int) {
	r := g.r
	k := 1 + r.Intn(4)
	switch r.Intn(6) {
	case 0:
		g.w("{ ")
		g.list(d, k, "", true)
		g.w(" }")
	default:
		g.w("{\n  ")
		g.list(d, k, "  ", false)
		g.w("\n}")
	}
}

type genProgram struct {
	Items          []string // top-level items, each a complete syntactic unit
	HasEmptyAction bool
}

func genItems(r *hx.Rand, depth int) *genProgram {
	g := &gen{r: r, fn: -1}
	p := &genProgram{}
	item := func(f func()) {
		g.sb = &strings.Builder{}
		f()
		p.Items = append(p.Items, g.sb.String())
	}
	g.nfuncs = r.Intn(3)
	for i := 0; i < g.nfuncs; i++ {
		i := i
		item(func() {
			g.fn = i
			g.w("function f%d(a, b) ", i)
			if r.Intn(5) == 0 {
				g.w("{}")
			} else {
				g.topBody(depth)
			}
			g.fn = -1
		})
	}
	// arrays for the for-in loops: the iteration order of a Go map must not influence the run
	item(func() { g.w(`BEGIN { T1["k"] = 1; T2["u"] = 1; T2["v"] = 2; x = 0 }`) })
	nb := r.Intn(3)
	for i := 0; i < nb; i++ {
		item(func() {
			g.w("BEGIN ")
			if r.Intn(5) == 0 {
				g.w("{}")
			} else {
				g.topBody(depth)
			}
		})
	}
	na := r.Intn(4)
	for i := 0; i < na; i++ {
		item(func() {
			pat := r.Pick([]string{"", "", "NR == 2 ", "/a/ ", "NR == 2, NR == 3 ", `$1 ~ /b/ `, "x < 50 ", "!/^$/ "})
			if g.nfuncs > 0 && r.Intn(6) == 0 {
				pat = fmt.Sprintf("f%d(NR) > 1 ", r.Intn(g.nfuncs))
			}
			g.w("%s", pat)
			switch {
			case pat != "" && r.Intn(6) == 0:
				// pattern only: print $0
			case r.Intn(16) == 0:
				g.w("%s", r.Pick([]string{"{}", "{ }", "{;}", "{\n}"}))
				p.HasEmptyAction = true
			default:
				g.inAction = true
				g.topBody(depth)
				g.inAction = false
			}
		})
	}
	ne := r.Intn(3)
	for i := 0; i < ne; i++ {
		item(func() {
			g.w("END ")
			if r.Intn(5) == 0 {
				g.w("{}")
			} else {
				g.topBody(depth)
			}
		})
	}
	// shuffle (functions may be defined after their use)
	for i := len(p.Items) - 1; i > 0; i-- {
		j := r.Intn(i + 1)
		p.Items[i], p.Items[j] = p.Items[j], p.Items[i]
	}
	return p
}

// distribute the items over 1..3 program files
func splitFiles(r *hx.Rand, items []string) []string {
	nf := 1 + r.Intn(3)
	files := make([]string, nf)
	for _, it := range items {
		k := r.Intn(nf)
		files[k] += it + r.Pick([]string{"\n", "\n", "\n\n", "\n# between items\n"})
	}
	for i := range files {
		switch r.Intn(6) {
		case 0:
			files[i] = strings.TrimRight(files[i], "\n") // no trailing newline
		case 1:
			files[i] = "# header\n\n" + files[i]
		}
	}
	return files
}

var inputs = []string{
	"a 1\nb 2 x\n\nabc\n",
	"x\n",
	"",
	"a\na\nb b b\nlong line here\n5\n",
	"b\n",
}
