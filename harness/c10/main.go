// C10 harness: string, regex and int() builtins. Correspondence (implementation vs extracted
// Coq model) and search (implementation vs the property's defining equations, computed
// independently here with math/big and with Go's regexp + Longest() used directly).
package main

import (
	"encoding/json"
	"fmt"
	"math"
	"math/big"
	"os"
	"regexp"
	"strconv"
	"strings"
	"unicode/utf8"

	"github.com/benhoyt/goawk/interp"
	"github.com/benhoyt/goawk/parser"
	"verif/harness/hx"
)

type kase struct {
	op    string // substr substrlen int index length | match sub gsub split upper lower fmt
	chars bool
	s, t  string // t: index needle / sub+gsub replacement / split separator / fmt format
	x, y  float64
	re    *hx.Re // match, sub, gsub: the regex; split: the AST of the separator when it is used as a regex
	lit   bool   // split: separator written as a regex literal /.../ in the program text (sepIsRegex)
	warm  int    // number of distinct dynamic regexes (and formats) the interpreter has seen before this case
}

func b01(b bool) string {
	if b {
		return "1"
	}
	return "0"
}

func (k kase) reWire() string {
	if k.re == nil {
		return "E"
	}
	return k.re.Wire()
}

func (k kase) reSrc() string {
	if k.re == nil {
		return ""
	}
	return k.re.Render()
}

// line is the request sent to the extracted model ("" = no model for this op).
func (k kase) line() string {
	c := b01(k.chars)
	switch k.op {
	case "substr":
		return fmt.Sprintf("substr %s %s %s", c, hx.HexS(k.s), hx.FBits(k.x))
	case "substrlen":
		return fmt.Sprintf("substrlen %s %s %s %s", c, hx.HexS(k.s), hx.FBits(k.x), hx.FBits(k.y))
	case "int":
		return fmt.Sprintf("int %s", hx.FBits(k.x))
	case "index":
		return fmt.Sprintf("index %s %s %s", c, hx.HexS(k.s), hx.HexS(k.t))
	case "length":
		return fmt.Sprintf("length %s %s", c, hx.HexS(k.s))
	case "match":
		return fmt.Sprintf("match %s %s %s", c, k.reWire(), hx.HexS(k.s))
	case "sub", "gsub":
		return fmt.Sprintf("sub %s %s %s %s", b01(k.op == "gsub"), k.reWire(), hx.HexS(k.t), hx.HexS(k.s))
	case "split":
		return fmt.Sprintf("split %s %s %s %s", b01(k.lit), hx.HexS(k.t), k.reWire(), hx.HexS(k.s))
	case "upper", "lower":
		return fmt.Sprintf("%s %s", k.op, hx.HexS(k.s))
	case "fmt":
		return ""
	}
	panic(k.op)
}

// dynRegex: the string this case hands to interp.compileRegex ("" if none).
func (k kase) dynRegex() string {
	switch k.op {
	case "match", "sub", "gsub":
		return k.reSrc()
	case "split":
		if splitRegime(k) == "regex" {
			return k.t
		}
	case "fmt":
		return "fmt:" + k.t
	}
	return ""
}

func splitRegime(k kase) string {
	switch {
	case !k.lit && k.t == " ":
		return "space"
	case k.s == "":
		return "empty-subject"
	case !k.lit && k.t == "":
		return "empty-sep"
	case !k.lit && utf8.RuneCountInString(k.t) <= 1:
		return "single"
	}
	return "regex"
}

var strPool = []string{"", "a", "hello", "hello world", "héllo", "日本語テキスト", "a\xffb", "\xff\xfe", "ab\xc3", "\xe2\x82", "€uro€", "😀x😀", "aaa", "abcabc", "\x00a\x00", "é"}
var subPool = []string{"", "a", "l", "lo", "é", "\xff", "c", "abc", "x", "€", "\xa9", "😀"}
var hostile = []float64{0, 0.5, -0.5, 1, 1.5, 2, 2.999, 3, 4, 5, 6, 7, 12, -1, -3, 1e30, -1e30,
	9223372036854775808.0, -9223372036854775808.0, 9223372036854774784.0, -9223372036854774784.0, 18446744073709551616.0,
	9007199254740992, 4294967296, 2147483648, -2147483649,
	math.Inf(1), math.Inf(-1), math.NaN(), 1e-300, 5e-324, 0.9999999999999999, -0.9999999999999999, 1e18, 123456789012.75}

func randStr(r *hx.Rand) string {
	if r.Intn(3) == 0 {
		return r.Pick(strPool)
	}
	alpha := []string{"a", "b", "l", "é", "\xff", "\x80", "€", "😀", "\xc3", " ", "x"}
	n := r.Intn(9)
	var sb strings.Builder
	for i := 0; i < n; i++ {
		sb.WriteString(r.Pick(alpha))
	}
	return sb.String()
}

func randNum(r *hx.Rand, n int) float64 {
	switch r.Intn(4) {
	case 0:
		return r.PickF(hostile)
	case 1:
		return float64(r.Intn(n+4) - 1)
	case 2:
		return float64(r.Intn(4*n+8)-2*n) / 4
	default:
		// arbitrary bit pattern: exercises exponents everywhere
		return math.Float64frombits(r.U64())
	}
}

// ---- regex material ----

func chr(c rune) *hx.Re { return &hx.Re{Kind: "chr", R: c} }
func cat(xs ...*hx.Re) *hx.Re {
	r := xs[0]
	for _, x := range xs[1:] {
		r = &hx.Re{Kind: "cat", A: r, B: x}
	}
	return r
}
func alt(xs ...*hx.Re) *hx.Re {
	r := xs[len(xs)-1]
	for i := len(xs) - 2; i >= 0; i-- {
		r = &hx.Re{Kind: "alt", A: xs[i], B: r}
	}
	return r
}
func lits(s string) *hx.Re {
	var xs []*hx.Re
	for _, c := range s {
		xs = append(xs, chr(c))
	}
	return cat(xs...)
}
func un(kind string, a *hx.Re) *hx.Re { return &hx.Re{Kind: kind, A: a} }
func leaf(kind string) *hx.Re         { return &hx.Re{Kind: kind} }
func cls(neg bool, rs ...[2]rune) *hx.Re {
	return &hx.Re{Kind: "cls", Neg: neg, Ranges: rs}
}

// alternations whose first alternative is a prefix of a later one come first: leftmost-first
// (Go's default without Longest) and leftmost-longest differ exactly on these.
var rePool = []*hx.Re{
	alt(chr('a'), lits("ab"), lits("abc")),
	alt(lits("ab"), lits("abc"), chr('a')),
	cat(alt(chr('a'), lits("ab")), alt(chr('c'), lits("bcd"))),
	alt(chr('l'), lits("ll"), lits("llo")),
	alt(leaf("eps"), chr('a')),
	alt(chr('é'), lits("él")),
	un("star", alt(chr('a'), lits("ab"))),
	alt(chr('x'), un("plus", chr('x'))),
	alt(chr(' '), lits(" w")),
	un("star", chr('a')),
	un("star", chr('x')),
	un("plus", chr('b')),
	un("opt", chr('a')),
	leaf("eps"),
	leaf("bol"),
	leaf("eol"),
	leaf("any"),
	cat(leaf("bol"), leaf("eol")),
	cls(true, [2]rune{'a', 'a'}),
	cls(false, [2]rune{'a', 'c'}),
	chr('é'),
	chr('€'),
	chr('l'),
	chr('.'),
	lits("lo"),
	lits("abc"),
	cat(chr('a'), un("star", leaf("any")), chr('c')),
	un("star", alt(chr('a'), chr('b'))),
	cat(leaf("bol"), chr('a')),
	cat(chr('o'), leaf("eol")),
	un("plus", leaf("any")),
	alt(leaf("bol"), chr('b')),
	un("star", cls(true, [2]rune{' ', ' '})),
	cat(chr(','), un("star", chr(' '))),
	un("plus", cls(false, [2]rune{' ', ' '}, [2]rune{',', ','})),
	chr('😀'),
	leaf("none"),
}

var reSubj = []string{"", "a", "ab", "abc", "abcd", "xabcabx", "aab", "hello", "hello world", "llo", "héllo él", "a,b,,c", "a, b,  c", "  lead and trail ",
	"aaa", "baaac", "xxx", "é€a", "€uro€", "😀x😀", "a\xffb", "\xff\xfe", "ab\xc3", "\xe2\x82", "abc\n abc", "x.*x", "abab", "\xc3\xa9\xc3", "日本語"}

var replPool = []string{"&", `\&`, `\\`, `\\&`, `[&]`, "x", "", `\`, `a\b`, "&&", `\\\&`, "é&", `&\&&`, `\\\\`, "-"}

var sepPool = []string{" ", ",", "a", "", "é", "\xff", ".", "|", "l", "\n", "€", "b", "\xc3", "*"}

func hasAlt(r *hx.Re) bool {
	if r == nil {
		return false
	}
	return r.Kind == "alt" || r.Kind == "opt" || hasAlt(r.A) || hasAlt(r.B)
}

func randRe(r *hx.Rand) *hx.Re {
	if r.Intn(4) == 0 {
		return rePool[r.Intn(len(rePool))]
	}
	return hx.RandRe(r, r.Intn(4), r.Intn(3) == 0)
}

func randSubj(r *hx.Rand) string {
	switch r.Intn(4) {
	case 0:
		return r.Pick(reSubj)
	case 1:
		return r.Pick(reSubj) + r.Pick(reSubj)
	}
	alpha := []string{"a", "b", "c", "x", "l", " ", ",", "\n", "é", "€", "😀", ".", "*", "\xff", "\x80", "\xc3", "a", "b"}
	if r.Intn(3) == 0 {
		alpha = alpha[:8] // ASCII only
	}
	n := r.Intn(10)
	var sb strings.Builder
	for i := 0; i < n; i++ {
		sb.WriteString(r.Pick(alpha))
	}
	return sb.String()
}

func randRepl(r *hx.Rand) string {
	if r.Bool() {
		return r.Pick(replPool)
	}
	tok := []string{"&", `\\`, `\&`, `\`, "a", "é", "-"}
	n := r.Intn(5)
	var sb strings.Builder
	for i := 0; i < n; i++ {
		sb.WriteString(r.Pick(tok))
	}
	return sb.String()
}

func genCases(o hx.Opts, r *hx.Rand) []kase {
	var ks []kase
	// ---- systematic part, regex builtins first (so that the first 100 distinct regexes of
	// the session, the ones that get cached, are the interesting ones)
	for i, re := range rePool {
		for j, s := range reSubj {
			for _, c := range []bool{false, true} {
				ks = append(ks, kase{op: "match", chars: c, s: s, re: re})
			}
			repl := replPool[(i+j)%len(replPool)]
			ks = append(ks, kase{op: "gsub", s: s, re: re, t: "&"}, kase{op: "gsub", s: s, re: re, t: repl},
				kase{op: "sub", s: s, re: re, t: repl})
			if (i+j)%3 == 0 {
				ks = append(ks, kase{op: "split", s: s, re: re, t: re.Render()})
			}
			if (i+j)%7 == 0 && re.Kind != "none" {
				ks = append(ks, kase{op: "split", s: s, re: re, t: re.Render(), lit: true})
			}
		}
	}
	for _, s := range reSubj {
		for _, sep := range sepPool {
			ks = append(ks, kase{op: "split", s: s, t: sep})
		}
		for _, repl := range replPool {
			ks = append(ks, kase{op: "gsub", s: s, re: rePool[0], t: repl}, kase{op: "sub", s: s, re: chr('a'), t: repl})
		}
		ks = append(ks, kase{op: "upper", s: s}, kase{op: "lower", s: strings.ToUpper(s)})
	}
	// every pool string x every hostile number (x a few lengths)
	for _, s := range strPool {
		for _, x := range hostile {
			for _, c := range []bool{false, true} {
				ks = append(ks, kase{op: "substr", chars: c, s: s, x: x})
				for _, y := range []float64{0, 1, 2.5, -1, 1e30, math.Inf(1), math.NaN(), 9223372036854775808.0} {
					ks = append(ks, kase{op: "substrlen", chars: c, s: s, x: x, y: y})
				}
			}
		}
		for _, t := range subPool {
			for _, c := range []bool{false, true} {
				ks = append(ks, kase{op: "index", chars: c, s: s, t: t})
			}
		}
		ks = append(ks, kase{op: "length", chars: false, s: s}, kase{op: "length", chars: true, s: s})
	}
	for _, x := range hostile {
		ks = append(ks, kase{op: "int", x: x}, kase{op: "int", x: -x})
	}
	// > maxCachedFormats distinct printf formats, each used with a later one again
	for i := 0; i < 130; i++ {
		ks = append(ks, kase{op: "fmt", t: fmt.Sprintf("<%%d|%d>", i), x: float64(i) + 0.5})
	}
	n := o.N
	if n == 0 {
		n = 9000
		if o.Tier == "thorough" {
			n = 400000
		}
	}
	for i := 0; i < n; i++ {
		k := kase{chars: r.Bool()}
		switch r.Intn(20) {
		case 0, 1, 2:
			k.s = randStr(r)
			k.op, k.x = "substr", randNum(r, utf8.RuneCountInString(k.s))
		case 3, 4, 5, 6:
			k.s = randStr(r)
			nr := utf8.RuneCountInString(k.s)
			k.op, k.x, k.y = "substrlen", randNum(r, nr), randNum(r, nr)
		case 7:
			k.op, k.x = "int", randNum(r, 100)
		case 8:
			k.op, k.s = "index", randStr(r)
			if r.Bool() && len(k.s) > 0 {
				a := r.Intn(len(k.s))
				b := a + r.Intn(len(k.s)-a+1)
				k.t = k.s[a:b]
			} else {
				k.t = r.Pick(subPool)
			}
		case 9:
			k.op, k.s = "length", randStr(r)
		case 10, 11, 12:
			k.op, k.s, k.re = "match", randSubj(r), randRe(r)
		case 13, 14:
			k.op, k.s, k.re, k.t = "gsub", randSubj(r), randRe(r), randRepl(r)
			if r.Intn(4) == 0 {
				k.t = "&"
			}
		case 15, 16:
			k.op, k.s, k.re, k.t = "sub", randSubj(r), randRe(r), randRepl(r)
		case 17, 18:
			k.op, k.s = "split", randSubj(r)
			if r.Bool() {
				k.t = r.Pick(sepPool)
				if k.t != "" && k.t != " " && r.Bool() && len(k.s) > 0 {
					// make the separator occur
					k.s = k.s + k.t + r.Pick(reSubj) + k.t
				}
			} else {
				k.re = randRe(r)
				k.t = k.re.Render()
				k.lit = r.Intn(4) == 0 && k.re.Kind != "none"
			}
		default:
			if r.Bool() {
				k.op, k.s = "upper", randSubj(r)
			} else {
				k.op, k.s = "lower", strings.ToUpper(randSubj(r))
			}
		}
		ks = append(ks, k)
	}
	return ks
}

// ---- running the implementation ----

const awkFuncs = `
function pr(n, a,    c, k, j, line) {
  c = 0
  for (k in a) c++
  line = "ok " D(n) " " D(c)
  for (j = 1; j <= n; j++) line = line " " ((j in a) ? j "=" H(a[j]) : j "=missing")
  print line
}
function warmup(n,   w) {
  for (w = 0; w < n; w++) { match("", "zq" w); sprintf("zq" w "%d", 1) }
}
`

// one statement per case: the generic ones dispatch on OP(i), a regex literal needs its own text
func stmtFor(j int, k kase) string {
	if k.op == "split" && k.lit {
		return fmt.Sprintf("  delete a; n = split(S(%d), a, /%s/); pr(n, a)\n", j, k.reSrc())
	}
	return fmt.Sprintf("  ev(%d)\n", j)
}

const awkEv = `
function ev(i,    op, r, t, n, a) {
  op = OP(i)
  if (op == "substr") print "ok " H(substr(S(i), X(i)))
  else if (op == "substrlen") print "ok " H(substr(S(i), X(i), Y(i)))
  else if (op == "int") print "ok " F(int(X(i)))
  else if (op == "index") print "ok " D(index(S(i), T(i)))
  else if (op == "length") print "ok " D(length(S(i)))
  else if (op == "match") { r = match(S(i), R(i)); print "ok " D(RSTART) " " D(RLENGTH) " " D(r) " " H(substr(S(i), RSTART, RLENGTH)) }
  else if (op == "sub") { t = S(i); n = sub(R(i), T(i), t); print "ok " D(n) " " H(t) }
  else if (op == "gsub") { t = S(i); n = gsub(R(i), T(i), t); print "ok " D(n) " " H(t) }
  else if (op == "split") { delete a; n = split(S(i), a, T(i)); pr(n, a) }
  else if (op == "upper") print "ok " H(toupper(S(i)))
  else if (op == "lower") print "ok " H(tolower(S(i)))
  else if (op == "fmt") print "ok " H(sprintf(T(i), X(i)))
  else print "badop"
}
`

// runSession evaluates the cases, in order, inside ONE interpreter (so the regex cache and the
// format cache carry over from case to case), after compiling `warm` distinct throw-away
// regexes and formats. Each case is evaluated `times` times in a row.
func runSession(ks []kase, chars bool, warm, times int) ([][]string, error) {
	funcs := map[string]any{
		"S":  func(i int) string { return ks[i].s },
		"T":  func(i int) string { return ks[i].t },
		"R":  func(i int) string { return ks[i].reSrc() },
		"X":  func(i int) float64 { return ks[i].x },
		"Y":  func(i int) float64 { return ks[i].y },
		"OP": func(i int) string { return ks[i].op },
		"H":  func(s string) string { return hx.HexS(s) },
		"F":  func(f float64) string { return hx.FCanon(f) },
		"D":  func(f float64) string { return big.NewFloat(f).Text('f', 0) },
	}
	var sb strings.Builder
	sb.WriteString(awkFuncs + awkEv + "BEGIN {\n")
	fmt.Fprintf(&sb, "  warmup(%d)\n", warm)
	for j, k := range ks {
		for t := 0; t < times; t++ {
			sb.WriteString(stmtFor(j, k))
		}
	}
	sb.WriteString("}\n")
	cfg := &interp.Config{Funcs: funcs, Chars: chars, Environ: []string{}}
	rr := hx.RunAwk(sb.String(), cfg, &parser.ParserConfig{Funcs: funcs})
	if rr.Panic != nil {
		return nil, fmt.Errorf("panic: %v", rr.Panic)
	}
	if rr.Err != nil {
		return nil, rr.Err
	}
	lines := strings.Split(strings.TrimSuffix(string(rr.Out), "\n"), "\n")
	if len(lines) != len(ks)*times {
		return nil, fmt.Errorf("got %d lines for %d cases", len(lines), len(ks)*times)
	}
	res := make([][]string, len(ks))
	for j := range ks {
		res[j] = lines[j*times : (j+1)*times]
	}
	return res, nil
}

// runOne evaluates a single case twice in a fresh interpreter that has first seen k.warm other
// regexes/formats (used when a batch fails, for the mode-agreement oracle and for replay).
func runOne(k kase) string {
	r, err := runSession([]kase{k}, k.chars, k.warm, 2)
	if err != nil {
		if strings.HasPrefix(err.Error(), "panic") {
			return "panic"
		}
		return "error " + err.Error()
	}
	if r[0][0] != r[0][1] {
		return "unstable: first evaluation " + r[0][0] + " / second evaluation " + r[0][1]
	}
	return r[0][0]
}

// corrView: the part of the implementation's line that the model predicts.
func corrView(k kase, impl string) string {
	f := strings.Fields(impl)
	switch k.op {
	case "match":
		if len(f) == 5 && f[0] == "ok" {
			return strings.Join(f[:3], " ") // ok RSTART RLENGTH
		}
	case "sub", "gsub":
	case "split":
		// ok n c k=v ...  ->  model: ok n k=v ... ; the key count c must equal n (checked by the oracle)
		if len(f) >= 3 && f[0] == "ok" {
			return strings.Join(append([]string{"ok", f[1]}, f[3:]...), " ")
		}
	}
	return impl
}

// ---- independent specification (the property's defining equations) ----

// truncExt: trunc toward zero as a big.Int, or +-inf; ok=false for NaN.
func truncExt(f float64) (z *big.Int, inf int, ok bool) {
	if f != f {
		return nil, 0, false
	}
	if math.IsInf(f, 0) {
		if f > 0 {
			return nil, 1, true
		}
		return nil, -1, true
	}
	bf := new(big.Float).SetFloat64(f)
	z, _ = bf.Int(nil) // truncates toward zero
	return z, 0, true
}

func units(s string, chars bool) []string {
	var u []string
	if !chars {
		for i := 0; i < len(s); i++ {
			u = append(u, s[i:i+1])
		}
		return u
	}
	for len(s) > 0 {
		_, w := utf8.DecodeRuneInString(s)
		u = append(u, s[:w])
		s = s[w:]
	}
	return u
}

// specSubstr: start at max(1, trunc m); next max(0, trunc n) units (all if n absent).
func specSubstr(s string, chars bool, m float64, hasN bool, n float64) (string, bool) {
	u := units(s, chars)
	mz, minf, ok := truncExt(m)
	if !ok {
		return "", false
	}
	start := 0 // 0-based units to drop
	switch {
	case minf > 0:
		start = len(u)
	case minf < 0:
		start = 0
	default:
		if mz.Cmp(big.NewInt(int64(len(u))+1)) > 0 {
			start = len(u)
		} else if mz.Sign() <= 0 {
			start = 0
		} else {
			start = int(mz.Int64()) - 1
		}
	}
	rest := u[start:]
	if hasN {
		nz, ninf, ok := truncExt(n)
		if !ok {
			return "", false
		}
		switch {
		case ninf > 0:
		case ninf < 0:
			rest = nil
		default:
			if nz.Sign() <= 0 {
				rest = nil
			} else if nz.Cmp(big.NewInt(int64(len(rest)))) < 0 {
				rest = rest[:nz.Int64()]
			}
		}
	}
	return strings.Join(rest, ""), true
}

var goReCache = map[string]*regexp.Regexp{}

// goRe: the reference engine: Go's regexp on the same source text goawk compiles, with
// leftmost-longest semantics switched on here, in the harness.
func goRe(src string) (*regexp.Regexp, error) {
	if re, ok := goReCache[src]; ok {
		return re, nil
	}
	re, err := regexp.Compile("(?s:" + src + ")")
	if err != nil {
		return nil, err
	}
	re.Longest()
	goReCache[src] = re
	return re, nil
}

// specExpand: & is the matched text, \& a literal ampersand, \\ a backslash; any other
// backslash sequence (and a trailing backslash) stands for itself.
func specExpand(repl, m string) string {
	var sb strings.Builder
	for i := 0; i < len(repl); i++ {
		c := repl[i]
		switch {
		case c == '&':
			sb.WriteString(m)
		case c == '\\' && i+1 < len(repl) && (repl[i+1] == '&' || repl[i+1] == '\\'):
			sb.WriteByte(repl[i+1])
			i++
		default:
			sb.WriteByte(c)
		}
	}
	return sb.String()
}

func subjClass(s string) string {
	ascii := true
	for i := 0; i < len(s); i++ {
		if s[i] >= 0x80 {
			ascii = false
		}
	}
	switch {
	case s == "":
		return "empty"
	case ascii:
		return "ascii"
	case utf8.ValidString(s):
		return "utf8"
	}
	return "invalid-utf8"
}

func classify(k kase) string {
	big63 := func(f float64) bool { return f >= 9223372036854775808.0 || f <= -9223372036854775808.0 }
	reTag := func() string {
		t := ""
		if hasAlt(k.re) {
			t += "-alt"
		}
		if k.re != nil && k.re.CanBeEmpty() {
			t += "-emptyre"
		}
		return t
	}
	switch k.op {
	case "substr", "substrlen":
		c := k.op
		if big63(k.x) || (k.op == "substrlen" && big63(k.y)) {
			c += "-arg-beyond-int64"
		}
		if k.chars {
			c += "-chars"
		}
		return c
	case "int":
		if big63(k.x) {
			return "int-arg-beyond-int64"
		}
		return "int"
	case "match":
		c := "match" + reTag() + "-" + subjClass(k.s)
		if k.chars {
			c += "-chars"
		}
		return c
	case "sub", "gsub":
		return k.op + reTag() + "-" + subjClass(k.s)
	case "split":
		reg := splitRegime(k)
		c := "split-" + reg
		if reg == "regex" {
			c += reTag()
			if k.lit {
				c += "-literal"
			}
		}
		return c + "-" + subjClass(k.s)
	case "upper", "lower":
		return k.op + "-" + subjClass(k.s)
	case "fmt":
		return "fmt"
	}
	if k.chars {
		return k.op + "-chars"
	}
	return k.op
}

func detail(k kase, want, got string) map[string]any {
	return map[string]any{
		"op": k.op, "chars": k.chars, "s_hex": hx.HexS(k.s), "t_hex": hx.HexS(k.t),
		"x_bits": hx.FBits(k.x), "y_bits": hx.FBits(k.y), "x": fmt.Sprint(k.x), "y": fmt.Sprint(k.y),
		"regex": k.reSrc(), "regex_wire": k.reWire(), "has_regex": k.re != nil, "regex_literal": k.lit,
		"warm": k.warm, "s": strconv.Quote(k.s), "t": strconv.Quote(k.t),
		"session": fmt.Sprintf("fresh interpreter (chars=%v); first %d distinct dynamic regexes \"zq<i>\" and formats are compiled, then the case is evaluated twice", k.chars, k.warm),
		"want": want, "got": got, "model_line": k.line()}
}

// oracle evaluates the property's equations on the implementation's answer; it returns the
// failures (oracle name, expected) without side effects so that replay can reuse it.
type ofail struct{ oracle, want string }

func oracle(k kase, impl string) (fails []ofail) {
	fail := func(name, want string) { fails = append(fails, ofail{name, want}) }
	if impl == "panic" {
		fail("no-panic", "a value")
		return
	}
	if strings.HasPrefix(impl, "unstable") {
		fail("same call, same interpreter, same result", "two equal answers")
		return
	}
	f := strings.Fields(impl)
	if len(f) == 0 || f[0] != "ok" {
		fail("builtin returns a value", "ok ...")
		return
	}
	unhex := func(h string) string { return string(hx.UnHex(h)) }
	switch k.op {
	case "substr", "substrlen":
		want, ok := specSubstr(k.s, k.chars, k.x, k.op == "substrlen", k.y)
		if !ok {
			return // NaN argument: the property leaves the result open (only no panic)
		}
		if impl != "ok "+hx.HexS(want) {
			fail("substr(s,m,n) = next n units from position max(1,trunc m)", "ok "+hx.HexS(want))
		}
		if k.chars && utf8.ValidString(k.s) {
			got := unhex(strings.TrimPrefix(impl, "ok "))
			if !utf8.ValidString(got) {
				fail("chars mode never cuts a valid UTF-8 sequence", "valid UTF-8")
			}
		}
	case "int":
		if z, inf, ok := truncExt(k.x); ok && inf == 0 {
			f, _ := new(big.Float).SetInt(z).Float64()
			if impl != "ok "+hx.FCanon(f) {
				fail("int(x) = trunc(x) for finite x", "ok "+hx.FCanon(f))
			}
		}
	case "index":
		// first position p with substr(s,p,len t) = t, counted in units; 0 if none
		i := strings.Index(k.s, k.t)
		want := 0
		if i >= 0 {
			want = len(units(k.s[:i], k.chars)) + 1
		}
		if impl != fmt.Sprintf("ok %d", want) {
			fail("index = first position of t in s", fmt.Sprintf("ok %d", want))
		}
	case "length":
		if impl != fmt.Sprintf("ok %d", len(units(k.s, k.chars))) {
			fail("length counts units", fmt.Sprintf("ok %d", len(units(k.s, k.chars))))
		}
	case "match":
		re, err := goRe(k.reSrc())
		if err != nil || len(f) != 5 {
			fail("match returns RSTART RLENGTH", "ok RSTART RLENGTH r substr")
			return
		}
		loc := re.FindStringIndex(k.s)
		if loc == nil {
			if want := "ok 0 -1 0 -"; impl != want {
				fail("no match: match() = RSTART = 0, RLENGTH = -1", want)
			}
			return
		}
		m := k.s[loc[0]:loc[1]]
		if f[4] != hx.HexS(m) {
			fail("substr(s, RSTART, RLENGTH) = leftmost-longest match", hx.HexS(m))
		}
		want := fmt.Sprintf("ok %d %d %d %s", len(units(k.s[:loc[0]], k.chars))+1, len(units(m, k.chars)), len(units(k.s[:loc[0]], k.chars))+1, hx.HexS(m))
		if impl != want {
			fail("RSTART, RLENGTH count units up to / of the leftmost-longest match; match() returns RSTART", want)
		}
		if k.chars && utf8.ValidString(k.s) && !utf8.ValidString(unhex(f[4])) {
			fail("chars mode never cuts a valid UTF-8 sequence", "valid UTF-8")
		}
	case "sub", "gsub":
		re, err := goRe(k.reSrc())
		if err != nil || len(f) != 3 {
			fail("sub returns count and result", "ok n out")
			return
		}
		ms := re.FindAllStringIndex(k.s, -1) // the non-overlapping leftmost-longest matches
		if k.op == "gsub" && k.t == "&" {
			if want := fmt.Sprintf("ok %d %s", len(ms), hx.HexS(k.s)); impl != want {
				fail(`gsub(r, "&", t) leaves t unchanged and returns the number of matches`, want)
			}
			return
		}
		if k.op == "sub" && len(ms) > 1 {
			ms = ms[:1]
		}
		var sb strings.Builder
		last := 0
		for _, m := range ms {
			sb.WriteString(k.s[last:m[0]])
			sb.WriteString(specExpand(k.t, k.s[m[0]:m[1]]))
			last = m[1]
		}
		sb.WriteString(k.s[last:])
		name := "gsub replaces every non-overlapping leftmost-longest match; & = match, \\& = &, \\\\ = \\"
		if k.op == "sub" {
			name = "sub performs exactly the first of gsub's replacements; & = match, \\& = &, \\\\ = \\"
		}
		if want := fmt.Sprintf("ok %d %s", len(ms), hx.HexS(sb.String())); impl != want {
			fail(name, want)
		}
	case "split":
		if len(f) < 3 {
			fail("split returns n and the array", "ok n c ...")
			return
		}
		n, _ := strconv.Atoi(f[1])
		var parts []string
		keysOK := f[1] == f[2] && len(f) == 3+n
		for j, kv := range f[3:] {
			p := strings.SplitN(kv, "=", 2)
			if len(p) != 2 || p[0] != strconv.Itoa(j+1) || p[1] == "missing" {
				keysOK = false
				continue
			}
			parts = append(parts, unhex(p[1]))
		}
		if !keysOK {
			fail("split: the array has exactly the keys 1..n, n = return value", "keys 1..n")
			return
		}
		reg := splitRegime(k)
		var want []string
		switch reg {
		case "space":
			want = strings.FieldsFunc(k.s, func(r rune) bool { return r == ' ' || r == '\t' || r == '\n' }) // interp.splitBlanks
		case "empty-subject":
			want = nil
		case "empty-sep":
			want = units(k.s, true)
		case "single":
			if got := strings.Join(parts, k.t); got != k.s {
				fail("split/join round trip: pieces joined by the single-character separator give back s", hx.HexS(k.s))
			}
			if n != strings.Count(k.s, k.t)+1 {
				fail("split: number of pieces = occurrences of the separator + 1", strconv.Itoa(strings.Count(k.s, k.t)+1))
			}
			return
		default:
			re, err := goRe(k.t)
			if err != nil {
				fail("split: separator compiles", "a regex")
				return
			}
			want = re.Split(k.s, -1)
		}
		if strings.Join(hexAll(parts), " ") != strings.Join(hexAll(want), " ") {
			fail("split("+reg+"): pieces = text between the leftmost-longest separator matches", strings.Join(hexAll(want), " "))
		}
	case "upper":
		if want := "ok " + hx.HexS(strings.ToUpper(k.s)); subjClass(k.s) != "invalid-utf8" && impl != want {
			fail("toupper", want)
		}
	case "lower":
		if want := "ok " + hx.HexS(strings.ToLower(k.s)); subjClass(k.s) != "invalid-utf8" && impl != want {
			fail("tolower", want)
		}
	case "fmt":
		z, _, _ := truncExt(k.x)
		want := "ok " + hx.HexS(strings.Replace(k.t, "%d", z.String(), 1))
		if impl != want {
			fail("sprintf with a format seen after more than maxCachedFormats others", want)
		}
	}
	return
}

func hexAll(xs []string) []string {
	var o []string
	for _, x := range xs {
		o = append(o, hx.HexS(x))
	}
	return o
}

// ---- replay ----

func reFromWire(s string) (*hx.Re, error) {
	toks := strings.Split(s, ",")
	var p func() (*hx.Re, error)
	p = func() (*hx.Re, error) {
		if len(toks) == 0 {
			return nil, fmt.Errorf("truncated regex wire")
		}
		t := toks[0]
		toks = toks[1:]
		two := func(kind string) (*hx.Re, error) {
			a, err := p()
			if err != nil {
				return nil, err
			}
			b, err := p()
			if err != nil {
				return nil, err
			}
			return &hx.Re{Kind: kind, A: a, B: b}, nil
		}
		one := func(kind string) (*hx.Re, error) {
			a, err := p()
			if err != nil {
				return nil, err
			}
			return &hx.Re{Kind: kind, A: a}, nil
		}
		switch {
		case t == "N":
			return leaf("none"), nil
		case t == "E":
			return leaf("eps"), nil
		case t == "a":
			return leaf("any"), nil
		case t == "^":
			return leaf("bol"), nil
		case t == "$":
			return leaf("eol"), nil
		case t == "C":
			return two("cat")
		case t == "A":
			return two("alt")
		case t == "S":
			return one("star")
		case t == "P":
			return one("plus")
		case t == "O":
			return one("opt")
		case strings.HasPrefix(t, "c"):
			n, err := strconv.Atoi(t[1:])
			return chr(rune(n)), err
		case strings.HasPrefix(t, "k"):
			ps := strings.Split(t, ":")
			c := &hx.Re{Kind: "cls", Neg: ps[0] == "k1"}
			for _, pr := range ps[1:] {
				lh := strings.Split(pr, "-")
				if len(lh) != 2 {
					return nil, fmt.Errorf("bad range %q", pr)
				}
				lo, _ := strconv.Atoi(lh[0])
				hi, _ := strconv.Atoi(lh[1])
				c.Ranges = append(c.Ranges, [2]rune{rune(lo), rune(hi)})
			}
			return c, nil
		}
		return nil, fmt.Errorf("bad regex wire token %q", t)
	}
	return p()
}

func replay(path string) int {
	raw, err := os.ReadFile(path)
	if err != nil {
		fmt.Println("replay:", err)
		return 2
	}
	var doc struct {
		Failure struct {
			Class, Oracle string
			Detail        map[string]any
		}
	}
	if err := json.Unmarshal(raw, &doc); err != nil || doc.Failure.Detail == nil {
		fmt.Println("replay: no failure.detail in", path, err)
		return 2
	}
	d := doc.Failure.Detail
	str := func(key string) string { s, _ := d[key].(string); return s }
	bits := func(key string) float64 {
		u, _ := strconv.ParseUint(str(key), 10, 64)
		return math.Float64frombits(u)
	}
	k := kase{op: str("op"), s: string(hx.UnHex(str("s_hex"))), t: string(hx.UnHex(str("t_hex"))), x: bits("x_bits"), y: bits("y_bits")}
	k.chars, _ = d["chars"].(bool)
	k.lit, _ = d["regex_literal"].(bool)
	if w, ok := d["warm"].(float64); ok {
		k.warm = int(w)
	}
	if has, _ := d["has_regex"].(bool); has {
		re, err := reFromWire(str("regex_wire"))
		if err != nil {
			fmt.Println("replay:", err)
			return 2
		}
		k.re = re
	}
	if strings.HasPrefix(doc.Failure.Oracle, "ascii:") {
		kb, kc := k, k
		kb.chars, kc.chars = false, true
		gb, gc := runOne(kb), runOne(kc)
		fmt.Printf("replay C10 (mode agreement): op=%s s=%q t=%q regex=%q x=%v y=%v\n  byte mode %s\n  char mode %s\n", k.op, k.s, k.t, k.reSrc(), k.x, k.y, gb, gc)
		if gb != gc {
			fmt.Println("  FAILS    ascii: byte mode = char mode")
			return 1
		}
		return 0
	}
	got := runOne(k)
	fs := oracle(k, got)
	fmt.Printf("replay C10: op=%s chars=%v s=%q t=%q regex=%q literal=%v x=%v y=%v after %d other regexes\n  got      %s\n",
		k.op, k.chars, k.s, k.t, k.reSrc(), k.lit, k.x, k.y, k.warm, got)
	for _, f := range fs {
		fmt.Printf("  FAILS    %s\n  expected %s\n", f.oracle, f.want)
	}
	if len(fs) > 0 {
		return 1
	}
	fmt.Println("  no oracle fails on this tree")
	return 0
}

// ---- sessions ----

// assignWarm records, for every case of a session that starts with `warm` throw-away regexes,
// how many distinct regexes/formats the interpreter has compiled before the case (capped: past
// maxCachedRegexes the number no longer matters).
func assignWarm(ks []kase, warm int) {
	seen := map[string]bool{}
	for i := range ks {
		w := warm + len(seen)
		if w > 150 {
			w = 150
		}
		ks[i].warm = w
		if d := ks[i].dynRegex(); d != "" {
			seen[d] = true
		}
	}
}

func main() {
	o := hx.ParseFlags()
	if o.Replay != "" {
		os.Exit(replay(o.Replay))
	}
	rep := hx.NewReport("C10", o.Seed, o.Tier)
	rep.Rule = "systematic: 37 pool regexes (alternations whose first alternative is a prefix of a later one, empty-matching, anchored, classes, multi-byte) x 29 subjects (ASCII, multi-byte, invalid UTF-8, empty) x match{byte,char}/gsub(&)/gsub/sub/split, 14 separators x subjects, 15 replacement strings over {&, \\\\, \\&, text}; 16 pool strings x 35 hostile numbers x 8 lengths x {byte,char} for substr; plus random cases (regex ASTs from hx.RandRe). Sessions: (A) fresh interpreter, each regex case evaluated twice (second from the regex cache); (B) everything in one interpreter after 150 other distinct regexes and formats (cache full); (C) everything in one interpreter from an empty cache. distinct = distinct model request line; non-trivial = non-empty subject string or op int"
	r := hx.NewRand(o.Seed)
	all := genCases(o, r)

	type run struct {
		k       kase
		impl    string
		session string
	}
	var runs []run
	exec := func(name string, ks []kase, warm, times int) {
		assignWarm(ks, warm)
		for _, c := range []bool{false, true} {
			var sub []kase
			for _, k := range ks {
				if k.chars == c {
					sub = append(sub, k)
				}
			}
			if len(sub) == 0 {
				continue
			}
			res, err := runSession(sub, c, warm, times)
			for j, k := range sub {
				var impl string
				if err != nil {
					impl = runOne(k) // a batch failed (panic or run-time error): evaluate one by one
				} else {
					impl = res[j][0]
					for _, other := range res[j][1:] {
						if other != impl {
							impl = "unstable: first evaluation " + impl + " / later evaluation " + other
						}
					}
				}
				runs = append(runs, run{k, impl, name})
			}
		}
	}
	// (A) cache-hit path: few regexes, each case twice in a row
	var sessA []kase
	for i, k := range all {
		if k.re != nil && len(sessA) < 90 && i%11 == 0 {
			sessA = append(sessA, k)
		}
	}
	exec("A:twice-from-empty-cache", sessA, 0, 2)
	// (B) cache-full path from the first case on
	var sessB []kase
	for i, k := range all {
		if k.re != nil || k.op == "fmt" {
			if i%2 == 0 || hasAlt(k.re) {
				sessB = append(sessB, k)
			}
		}
	}
	exec("B:after-150-other-regexes", sessB, 150, 1)
	// (C) everything, one interpreter per mode
	exec("C:long-session", append([]kase(nil), all...), 0, 1)

	// model answers
	var lines []string
	var lineOf []int
	for i, ru := range runs {
		if l := ru.k.line(); l != "" {
			lines = append(lines, l)
			lineOf = append(lineOf, i)
		}
	}
	model := make([]string, len(runs))
	ans, err := hx.ModelEval(o.ModelRun, lines)
	if err != nil {
		rep.HarnessError("%v", err)
	} else {
		for j, i := range lineOf {
			model[i] = ans[j]
		}
	}
	// trusted base: the executable engine Lib/Regex must agree with Go's regexp+Longest (both
	// evaluated here, without goawk) on a case before that case can tie the model to the
	// implementation; a disagreement is counted, never reported as a violation of goawk
	engSrc := func(k kase) string {
		if k.re == nil {
			return ""
		}
		if k.op == "split" {
			if splitRegime(k) != "regex" {
				return ""
			}
			return k.t
		}
		return k.reSrc()
	}
	engBad := map[string]bool{}
	{
		var el, ekey, ewant []string
		seen := map[string]bool{}
		for _, ru := range runs {
			src := engSrc(ru.k)
			key := src + "\x00" + ru.k.s
			if src == "" || seen[key] {
				continue
			}
			seen[key] = true
			re, err := goRe(src)
			if err != nil {
				engBad[key] = true
				continue
			}
			var sb strings.Builder
			for j, m := range re.FindAllStringIndex(ru.k.s, -1) {
				if j > 0 {
					sb.WriteString(" ")
				}
				fmt.Fprintf(&sb, "%d,%d", m[0], m[1])
			}
			sb.WriteString(";")
			el = append(el, "findall "+ru.k.reWire()+" "+hx.HexS(ru.k.s))
			ekey = append(ekey, key)
			ewant = append(ewant, sb.String())
		}
		got, err := hx.ModelEval(o.ModelRun, el)
		if err != nil {
			rep.HarnessError("%v", err)
		}
		for j := range got {
			if got[j] != ewant[j] {
				engBad[ekey[j]] = true
				rep.Count("trusted-base:Lib/Regex-disagrees-with-Go-regexp")
			}
		}
		rep.Count("trusted-base:engine-self-check-cases")
		rep.Hist["trusted-base:engine-self-check-cases"] = len(el)
	}
	engineOK := func(k kase) bool {
		src := engSrc(k)
		return src == "" || !engBad[src+"\x00"+k.s]
	}
	for i, ru := range runs {
		k := ru.k
		cl := classify(k)
		rep.Count("op:" + cl)
		rep.Count("session:" + ru.session)
		if model[i] != "" {
			rep.CorrEvals++
			if k.s != "" || k.op == "int" {
				rep.Distinct(lines0(k))
			}
			if i%1499 == 0 {
				rep.Sample(map[string]string{"request": k.line(), "impl": ru.impl, "session": ru.session})
			}
			switch {
			case model[i] == "unmod" || !engineOK(k):
				rep.Unmodelled++
			case model[i] != corrView(k, ru.impl):
				rep.Mismatch(hx.Mismatch{Class: cl, Input: k.line(), Impl: corrView(k, ru.impl), Model: model[i],
					Note: fmt.Sprintf("session %s, %d regexes compiled before; regex %q", ru.session, k.warm, k.reSrc())})
			}
		}
		rep.SearchEvals++
		for _, f := range oracle(k, ru.impl) {
			rep.Fail(hx.Failure{Class: cl, Oracle: f.oracle, Detail: detail(k, f.want, ru.impl)})
		}
	}
	// ASCII agreement of the two modes (metamorphic, implementation only)
	n := 0
	for _, ru := range runs {
		k := ru.k
		if ru.session[0] != 'C' || k.chars || subjClass(k.s+k.t) == "utf8" || subjClass(k.s+k.t) == "invalid-utf8" {
			continue
		}
		switch k.op {
		case "substr", "substrlen", "index", "length", "match":
		default:
			continue
		}
		n++
		if n%5 != 0 {
			continue
		}
		k2 := k
		k2.chars = true
		rep.SearchEvals++
		if got := runOne(k2); got != ru.impl {
			d := detail(k2, ru.impl, got)
			d["byte_mode"], d["char_mode"] = ru.impl, got
			rep.Fail(hx.Failure{Class: classify(k2), Oracle: "ascii: byte mode = char mode", Detail: d})
		}
	}
	rep.Write(o.Out)
}

func lines0(k kase) string { return k.line() }
