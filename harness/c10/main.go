// C10 harness: string builtins. Correspondence (implementation vs extracted
// Coq model) and search (implementation vs the property's defining equations,
// computed independently here with math/big).
package main

import (
	"fmt"
	"math"
	"math/big"
	"strings"
	"unicode/utf8"

	"github.com/benhoyt/goawk/interp"
	"github.com/benhoyt/goawk/parser"
	"verif/harness/hx"
)

type kase struct {
	op    string // substr substrlen int index length
	chars bool
	s, t  string
	x, y  float64
}

func (k kase) line() string {
	c := "0"
	if k.chars {
		c = "1"
	}
	switch k.op {
	case "substr":
		return fmt.Sprintf("substr %s %s %s", c, hx.HexS(k.s), hx.FBits(k.x))
	case "substrlen":
		return fmt.Sprintf("substrlen %s %s %s %s", c, hx.HexS(k.s), hx.FBits(k.x), hx.FBits(k.y))
	case "int":
		return fmt.Sprintf("int %s", hx.FBits(k.x))
	case "index":
		return fmt.Sprintf("index %s %s %s", c, hx.HexS(k.s), hx.HexS(k.t))
	case "length":
		return fmt.Sprintf("length %s %s", c, hx.HexS(k.s))
	}
	panic(k.op)
}

var strPool = []string{"", "a", "hello", "hello world", "héllo", "日本語テキスト", "a\xffb", "\xff\xfe", "ab\xc3", "\xe2\x82", "€uro€", "😀x😀", "aaa", "abcabc", "\x00a\x00", "é"}
var subPool = []string{"", "a", "l", "lo", "é", "\xff", "c", "abc", "x", "€", "\xa9", "😀"}
var hostile = []float64{0, 0.5, -0.5, 1, 1.5, 2, 2.999, 3, 4, 5, 6, 7, 12, -1, -3, 1e30, -1e30,
	9223372036854775808.0, -9223372036854775808.0, 9223372036854774784.0, -9223372036854774784.0, 18446744073709551616.0,
	9007199254740992, 4294967296, 2147483648, -2147483649,
	math.Inf(1), math.Inf(-1), math.NaN(), 1e-300, 5e-324, 0.9999999999999999, -0.9999999999999999, 1e18, 123456789012.75}

func randStr(r *hx.Rand) string {
	if r.Intn(3) == 0 {
		return r.Pick(strPool)
	}
	alpha := []string{"a", "b", "l", "é", "\xff", "\x80", "€", "😀", "\xc3", " ", "x"}
	n := r.Intn(9)
	var sb strings.Builder
	for i := 0; i < n; i++ {
		sb.WriteString(r.Pick(alpha))
	}
	return sb.String()
}

func randNum(r *hx.Rand, n int) float64 {
	switch r.Intn(4) {
	case 0:
		return r.PickF(hostile)
	case 1:
		return float64(r.Intn(n+4) - 1)
	case 2:
		return float64(r.Intn(4*n+8)-2*n) / 4
	default:
		// arbitrary bit pattern: exercises exponents everywhere
		return math.Float64frombits(r.U64())
	}
}

func genCases(o hx.Opts, r *hx.Rand) []kase {
	var ks []kase
	// systematic part: every pool string x every hostile number (x a few lengths)
	for _, s := range strPool {
		for _, x := range hostile {
			for _, c := range []bool{false, true} {
				ks = append(ks, kase{op: "substr", chars: c, s: s, x: x})
				for _, y := range []float64{0, 1, 2.5, -1, 1e30, math.Inf(1), math.NaN(), 9223372036854775808.0} {
					ks = append(ks, kase{op: "substrlen", chars: c, s: s, x: x, y: y})
				}
			}
		}
		for _, t := range subPool {
			for _, c := range []bool{false, true} {
				ks = append(ks, kase{op: "index", chars: c, s: s, t: t})
			}
		}
		ks = append(ks, kase{op: "length", chars: false, s: s}, kase{op: "length", chars: true, s: s})
	}
	for _, x := range hostile {
		ks = append(ks, kase{op: "int", x: x}, kase{op: "int", x: -x})
	}
	n := o.N
	if n == 0 {
		n = 6000
		if o.Tier == "thorough" {
			n = 300000
		}
	}
	for i := 0; i < n; i++ {
		s := randStr(r)
		nr := utf8.RuneCountInString(s)
		k := kase{chars: r.Bool(), s: s}
		switch r.Intn(10) {
		case 0, 1, 2:
			k.op, k.x = "substr", randNum(r, nr)
		case 3, 4, 5, 6:
			k.op, k.x, k.y = "substrlen", randNum(r, nr), randNum(r, nr)
		case 7:
			k.op, k.x = "int", randNum(r, 100)
		case 8:
			k.op = "index"
			if r.Bool() && len(s) > 0 {
				a := r.Intn(len(s))
				b := a + r.Intn(len(s)-a+1)
				k.t = s[a:b]
			} else {
				k.t = r.Pick(subPool)
			}
		default:
			k.op = "length"
		}
		ks = append(ks, k)
	}
	return ks
}

// runImpl evaluates all cases of one mode in a single AWK program through the public API.
func runImpl(ks []kase, chars bool) ([]string, error) {
	var idx []int
	for i, k := range ks {
		if k.chars == chars {
			idx = append(idx, i)
		}
	}
	res := make([]string, len(ks))
	if len(idx) == 0 {
		return res, nil
	}
	funcs := map[string]any{
		"S":  func(i int) string { return ks[idx[i]].s },
		"T":  func(i int) string { return ks[idx[i]].t },
		"X":  func(i int) float64 { return ks[idx[i]].x },
		"Y":  func(i int) float64 { return ks[idx[i]].y },
		"OP": func(i int) string { return ks[idx[i]].op },
		"H":  func(s string) string { return hx.HexS(s) },
		"F":  func(f float64) string { return hx.FCanon(f) },
		"D":  func(f float64) string { return big.NewFloat(f).Text('f', 0) },
	}
	src := `BEGIN {
  for (i = 0; i < N; i++) {
    op = OP(i)
    if (op == "substr") print "ok " H(substr(S(i), X(i)))
    else if (op == "substrlen") print "ok " H(substr(S(i), X(i), Y(i)))
    else if (op == "int") print "ok " F(int(X(i)))
    else if (op == "index") print "ok " D(index(S(i), T(i)))
    else if (op == "length") print "ok " D(length(S(i)))
  }
}`
	cfg := &interp.Config{Funcs: funcs, Chars: chars, Vars: []string{"N", fmt.Sprint(len(idx))}, Environ: []string{}}
	rr := hx.RunAwk(src, cfg, &parser.ParserConfig{Funcs: funcs})
	if rr.Panic != nil {
		return nil, fmt.Errorf("panic: %v", rr.Panic)
	}
	if rr.Err != nil {
		return nil, rr.Err
	}
	lines := strings.Split(strings.TrimSuffix(string(rr.Out), "\n"), "\n")
	if len(lines) != len(idx) {
		return nil, fmt.Errorf("got %d lines for %d cases", len(lines), len(idx))
	}
	for j, i := range idx {
		res[i] = lines[j]
	}
	return res, nil
}

// runOne evaluates a single case in isolation (used when a batch panics, and for replay).
func runOne(k kase) string {
	r, err := runImpl([]kase{k}, k.chars)
	if err != nil {
		if strings.HasPrefix(err.Error(), "panic") {
			return "panic"
		}
		return "error " + err.Error()
	}
	return r[0]
}

// ---- independent specification (the property's defining equations) ----

// truncExt: trunc toward zero as a big.Int, or +-inf; ok=false for NaN.
func truncExt(f float64) (z *big.Int, inf int, ok bool) {
	if f != f {
		return nil, 0, false
	}
	if math.IsInf(f, 0) {
		if f > 0 {
			return nil, 1, true
		}
		return nil, -1, true
	}
	bf := new(big.Float).SetFloat64(f)
	z, _ = bf.Int(nil) // truncates toward zero
	return z, 0, true
}

func units(s string, chars bool) []string {
	var u []string
	if !chars {
		for i := 0; i < len(s); i++ {
			u = append(u, s[i:i+1])
		}
		return u
	}
	for len(s) > 0 {
		_, w := utf8.DecodeRuneInString(s)
		u = append(u, s[:w])
		s = s[w:]
	}
	return u
}

// specSubstr: start at max(1, trunc m); next max(0, trunc n) units (all if n absent).
func specSubstr(s string, chars bool, m float64, hasN bool, n float64) (string, bool) {
	u := units(s, chars)
	mz, minf, ok := truncExt(m)
	if !ok {
		return "", false
	}
	start := 0 // 0-based units to drop
	switch {
	case minf > 0:
		start = len(u)
	case minf < 0:
		start = 0
	default:
		if mz.Cmp(big.NewInt(int64(len(u))+1)) > 0 {
			start = len(u)
		} else if mz.Sign() <= 0 {
			start = 0
		} else {
			start = int(mz.Int64()) - 1
		}
	}
	rest := u[start:]
	if hasN {
		nz, ninf, ok := truncExt(n)
		if !ok {
			return "", false
		}
		switch {
		case ninf > 0:
		case ninf < 0:
			rest = nil
		default:
			if nz.Sign() <= 0 {
				rest = nil
			} else if nz.Cmp(big.NewInt(int64(len(rest)))) < 0 {
				rest = rest[:nz.Int64()]
			}
		}
	}
	return strings.Join(rest, ""), true
}

func classify(k kase) string {
	big63 := func(f float64) bool { return f >= 9223372036854775808.0 || f <= -9223372036854775808.0 }
	switch k.op {
	case "substr", "substrlen":
		c := k.op
		if big63(k.x) || (k.op == "substrlen" && big63(k.y)) {
			c += "-arg-beyond-int64"
		}
		if k.chars {
			c += "-chars"
		}
		return c
	case "int":
		if big63(k.x) {
			return "int-arg-beyond-int64"
		}
		return "int"
	}
	if k.chars {
		return k.op + "-chars"
	}
	return k.op
}

func oracle(k kase, impl string, rep *hx.Report) {
	fail := func(oracleName, want string) {
		rep.Fail(hx.Failure{Class: classify(k), Oracle: oracleName, Detail: map[string]any{
			"op": k.op, "chars": k.chars, "s_hex": hx.HexS(k.s), "t_hex": hx.HexS(k.t),
			"x_bits": hx.FBits(k.x), "y_bits": hx.FBits(k.y), "x": fmt.Sprint(k.x), "y": fmt.Sprint(k.y),
			"want": want, "got": impl, "model_line": k.line()}})
	}
	if impl == "panic" {
		fail("no-panic", "a value")
		return
	}
	switch k.op {
	case "substr", "substrlen":
		want, ok := specSubstr(k.s, k.chars, k.x, k.op == "substrlen", k.y)
		if !ok {
			return // NaN argument: the property leaves the result open (only no panic)
		}
		if impl != "ok "+hx.HexS(want) {
			fail("substr(s,m,n) = next n units from position max(1,trunc m)", "ok "+hx.HexS(want))
		}
		if k.chars && utf8.ValidString(k.s) {
			got := string(hx.UnHex(strings.TrimPrefix(impl, "ok ")))
			if !utf8.ValidString(got) {
				fail("chars mode never cuts a valid UTF-8 sequence", "valid UTF-8")
			}
		}
	case "int":
		if z, inf, ok := truncExt(k.x); ok && inf == 0 {
			f, _ := new(big.Float).SetInt(z).Float64()
			if impl != "ok "+hx.FCanon(f) {
				fail("int(x) = trunc(x) for finite x", "ok "+hx.FCanon(f))
			}
		}
	case "index":
		// first position p with substr(s,p,len t) = t, counted in units; 0 if none
		i := strings.Index(k.s, k.t)
		want := 0
		if i >= 0 {
			want = len(units(k.s[:i], k.chars)) + 1
		}
		if impl != fmt.Sprintf("ok %d", want) {
			fail("index = first position of t in s", fmt.Sprintf("ok %d", want))
		}
	case "length":
		if impl != fmt.Sprintf("ok %d", len(units(k.s, k.chars))) {
			fail("length counts units", fmt.Sprintf("ok %d", len(units(k.s, k.chars))))
		}
	}
	// ASCII: byte mode and char mode agree
}

func main() {
	o := hx.ParseFlags()
	rep := hx.NewReport("C10", o.Seed, o.Tier)
	rep.Rule = "systematic: 16 pool strings x 35 hostile numbers x 8 lengths x {byte,char} mode, plus random strings over a mixed ASCII/multi-byte/invalid-UTF-8 alphabet with numeric arguments from hostile set / small ints / quarter fractions / random bit patterns; distinct = distinct model request line; non-trivial = non-empty subject string or op int"
	r := hx.NewRand(o.Seed)
	ks := genCases(o, r)
	impl := make([]string, len(ks))
	for _, c := range []bool{false, true} {
		res, err := runImpl(ks, c)
		if err != nil {
			// a batch failed (panic or run-time error): evaluate one by one
			for i, k := range ks {
				if k.chars == c {
					impl[i] = runOne(k)
				}
			}
			continue
		}
		for i, k := range ks {
			if k.chars == c {
				impl[i] = res[i]
			}
		}
	}
	lines := make([]string, len(ks))
	for i, k := range ks {
		lines[i] = k.line()
	}
	model, err := hx.ModelEval(o.ModelRun, lines)
	if err != nil {
		rep.HarnessError("%v", err)
	}
	for i, k := range ks {
		rep.CorrEvals++
		rep.Count("op:" + classify(k))
		if k.s != "" || k.op == "int" {
			rep.Distinct(lines[i])
		}
		if i%997 == 0 {
			rep.Sample(map[string]string{"request": lines[i], "impl": impl[i]})
		}
		if model != nil {
			if model[i] == "unmod" {
				rep.Unmodelled++
			} else if model[i] != impl[i] {
				rep.Mismatch(hx.Mismatch{Class: classify(k), Input: lines[i], Impl: impl[i], Model: model[i]})
			}
		}
		rep.SearchEvals++
		oracle(k, impl[i], rep)
	}
	// ASCII agreement of the two modes (metamorphic, implementation only)
	for i := 0; i < len(ks); i++ {
		k := ks[i]
		ascii := true
		for j := 0; j < len(k.s)+len(k.t); j++ {
			if (k.s + k.t)[j] >= 0x80 {
				ascii = false
			}
		}
		if ascii && !k.chars && k.op != "int" && i%7 == 0 {
			k2 := k
			k2.chars = true
			rep.SearchEvals++
			if got := runOne(k2); got != impl[i] {
				rep.Fail(hx.Failure{Class: classify(k2), Oracle: "ascii: byte mode = char mode", Detail: map[string]any{
					"model_line": k2.line(), "byte_mode": impl[i], "char_mode": got}})
			}
		}
	}
	rep.Write(o.Out)
}
