package main

import (
	"fmt"
	"os"

	"github.com/benhoyt/goawk/parser"
)

func main() {
	p, err := parser.ParseProgram([]byte(os.Args[1]), nil)
	if err != nil {
		fmt.Println(err)
		return
	}
	fmt.Println(p.VerifDumpAST(false))
	fmt.Println(p.VerifDumpCompiled())
	fmt.Println(p.VerifResolverTables())
}
