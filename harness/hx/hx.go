// Package hx: shared helpers for the correspondence/search harnesses.
package hx

import (
	"bufio"
	"bytes"
	"encoding/hex"
	"encoding/json"
	"flag"
	"fmt"
	"math"
	"os"
	"os/exec"
	"sort"
	"strconv"
	"strings"

	"github.com/benhoyt/goawk/interp"
	"github.com/benhoyt/goawk/parser"
)

// ---- deterministic PRNG (splitmix64); every random choice derives from it ----

type Rand struct{ s uint64 }

// NewRand: the state is a mixed image of the seed (one splitmix64 round), so that neighbouring
// seeds give unrelated streams rather than the same stream shifted by one draw.
func NewRand(seed uint64) *Rand {
	z := seed + 0x9E3779B97F4A7C15
	z = (z ^ (z >> 30)) * 0xBF58476D1CE4E5B9
	z = (z ^ (z >> 27)) * 0x94D049BB133111EB
	return &Rand{s: z ^ (z >> 31)}
}

func (r *Rand) U64() uint64 {
	r.s += 0x9E3779B97F4A7C15
	z := r.s
	z = (z ^ (z >> 30)) * 0xBF58476D1CE4E5B9
	z = (z ^ (z >> 27)) * 0x94D049BB133111EB
	return z ^ (z >> 31)
}
func (r *Rand) Intn(n int) int {
	if n <= 0 {
		return 0
	}
	return int(r.U64() % uint64(n))
}
func (r *Rand) Bool() bool            { return r.U64()&1 == 1 }
func (r *Rand) Pick(xs []string) string { return xs[r.Intn(len(xs))] }
func (r *Rand) PickF(xs []float64) float64 { return xs[r.Intn(len(xs))] }

// ---- wire encoding shared with ocaml/common/wire.ml ----

func Hex(b []byte) string {
	if len(b) == 0 {
		return "-"
	}
	return hex.EncodeToString(b)
}
func HexS(s string) string { return Hex([]byte(s)) }
func UnHex(s string) []byte {
	if s == "-" {
		return nil
	}
	b, err := hex.DecodeString(s)
	if err != nil {
		panic("bad hex " + s)
	}
	return b
}

// FBits: the bit pattern of f as a decimal integer (what modelrun's of_bits decodes).
func FBits(f float64) string { return strconv.FormatUint(math.Float64bits(f), 10) }

// FCanon: canonical exact rendering of a float64, equal to modelrun's rendering of
// [canon x]: nan, +inf, -inf, or m:e with m odd (0:0 for both zeros).
func FCanon(f float64) string {
	switch {
	case f != f:
		return "nan"
	case math.IsInf(f, 1):
		return "+inf"
	case math.IsInf(f, -1):
		return "-inf"
	case f == 0:
		return "0:0"
	}
	b := math.Float64bits(f)
	neg := b>>63 == 1
	ex := int((b >> 52) & 2047)
	frac := b & (1<<52 - 1)
	var m uint64
	var e int
	if ex == 0 {
		m, e = frac, 1-1075
	} else {
		m, e = frac|1<<52, ex-1075
	}
	for m&1 == 0 {
		m >>= 1
		e++
	}
	s := strconv.FormatUint(m, 10)
	if neg {
		s = "-" + s
	}
	return s + ":" + strconv.Itoa(e)
}

// ---- running the implementation ----

type RunResult struct {
	Out    []byte
	Status int
	Err    error
	Panic  any
}

// RunAwk parses and executes src with the given config (Output is overridden).
// A panic in parse or execute is recovered and reported in Panic.
func RunAwk(src string, cfg *interp.Config, pcfg *parser.ParserConfig) (res RunResult) {
	defer func() {
		if r := recover(); r != nil {
			res.Panic = r
		}
	}()
	prog, err := parser.ParseProgram([]byte(src), pcfg)
	if err != nil {
		res.Err = err
		return
	}
	var out bytes.Buffer
	c := *cfg
	c.Output = &out
	if c.Error == nil {
		c.Error = &out
	}
	if c.Stdin == nil {
		c.Stdin = strings.NewReader("")
	}
	st, err := interp.ExecProgram(prog, &c)
	res.Out, res.Status, res.Err = out.Bytes(), st, err
	return
}

// ---- model evaluation through the extracted OCaml binary ----

// ModelEval feeds one request per line to the modelrun binary and returns one answer per line.
func ModelEval(bin string, lines []string) ([]string, error) {
	if len(lines) == 0 {
		return nil, nil
	}
	cmd := exec.Command(bin)
	cmd.Stdin = strings.NewReader(strings.Join(lines, "\n") + "\n")
	var out, errb bytes.Buffer
	cmd.Stdout, cmd.Stderr = &out, &errb
	if err := cmd.Run(); err != nil {
		return nil, fmt.Errorf("modelrun %s: %v: %s", bin, err, errb.String())
	}
	var res []string
	sc := bufio.NewScanner(&out)
	sc.Buffer(make([]byte, 1<<20), 1<<28)
	for sc.Scan() {
		res = append(res, sc.Text())
	}
	if len(res) != len(lines) {
		return nil, fmt.Errorf("modelrun %s: %d answers for %d requests: %s", bin, len(res), len(lines), errb.String())
	}
	return res, nil
}

// ---- report handed to the check driver ----

type Mismatch struct {
	Class string `json:"class"`
	Input string `json:"input"`
	Impl  string `json:"impl"`
	Model string `json:"model"`
	Note  string `json:"note,omitempty"`
}

type Failure struct {
	Class  string         `json:"class"`  // input class, matched against known_findings.json
	Oracle string         `json:"oracle"` // which property equation failed
	Detail map[string]any `json:"detail"` // concrete replay: program, input, expected, got
}

type Report struct {
	Property      string         `json:"property"`
	Seed          uint64         `json:"seed"`
	Tier          string         `json:"tier"`
	CorrEvals     int            `json:"corr_evaluations"`
	CorrDistinct  int            `json:"corr_distinct_nontrivial"`
	Unmodelled    int            `json:"corr_unmodelled"`
	Mismatches    []Mismatch     `json:"mismatches"`
	SearchEvals   int            `json:"search_evaluations"`
	Failures      []Failure      `json:"failures"`
	Hist          map[string]int `json:"histogram"`
	Samples       []any          `json:"samples"`
	Rule          string         `json:"rule"`
	Exhaustive    bool           `json:"exhaustive"`
	HarnessErrors []string       `json:"harness_errors"`
	distinct      map[string]bool
}

func NewReport(prop string, seed uint64, tier string) *Report {
	return &Report{Property: prop, Seed: seed, Tier: tier, Hist: map[string]int{}, distinct: map[string]bool{},
		Mismatches: []Mismatch{}, Failures: []Failure{}, Samples: []any{}, HarnessErrors: []string{}}
}

func (r *Report) Count(key string) { r.Hist[key]++ }

// Distinct records a case as distinct and non-trivial (by the harness's stated rule).
func (r *Report) Distinct(key string) {
	if !r.distinct[key] {
		r.distinct[key] = true
		r.CorrDistinct++
	}
}
func (r *Report) Sample(v any) {
	if len(r.Samples) < 8 {
		r.Samples = append(r.Samples, v)
	}
}
func (r *Report) Mismatch(m Mismatch) {
	if len(r.Mismatches) < 200 {
		r.Mismatches = append(r.Mismatches, m)
	}
}
func (r *Report) Fail(f Failure) {
	// keep the first 5 of each (class, oracle) and at most 300 in total
	n := 0
	for _, g := range r.Failures {
		if g.Class == f.Class && g.Oracle == f.Oracle {
			n++
		}
	}
	if n < 5 && len(r.Failures) < 300 {
		r.Failures = append(r.Failures, f)
	}
	r.Hist["fail:"+f.Class]++
}
func (r *Report) HarnessError(format string, a ...any) {
	if len(r.HarnessErrors) < 20 {
		r.HarnessErrors = append(r.HarnessErrors, fmt.Sprintf(format, a...))
	}
}

func (r *Report) Write(path string) {
	keys := make([]string, 0, len(r.Hist))
	for k := range r.Hist {
		keys = append(keys, k)
	}
	sort.Strings(keys)
	b, err := json.MarshalIndent(r, "", " ")
	if err != nil {
		panic(err)
	}
	if err := os.WriteFile(path, b, 0o644); err != nil {
		panic(err)
	}
}

// ---- common flags ----

type Opts struct {
	Seed     uint64
	Tier     string
	N        int
	ModelRun string
	Out      string
	Replay   string
}

func ParseFlags() Opts {
	var o Opts
	flag.Uint64Var(&o.Seed, "seed", 1, "PRNG seed")
	flag.StringVar(&o.Tier, "tier", "quick", "quick|thorough")
	flag.IntVar(&o.N, "n", 0, "number of random cases (0 = tier default)")
	flag.StringVar(&o.ModelRun, "modelrun", "", "path of the extracted model binary")
	flag.StringVar(&o.Out, "out", "", "report path")
	flag.StringVar(&o.Replay, "replay", "", "replay file (a failure detail JSON)")
	flag.Parse()
	return o
}
