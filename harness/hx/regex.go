package hx

import (
	"fmt"
	"strings"
)

// Regex AST mirrored by rocq/Lib/Regex.v. Render() gives RE2 syntax for Go's regexp,
// Wire() the prefix encoding parsed by ocaml/common/regex_wire.ml.
type Re struct {
	Kind   string // none eps chr any cls cat alt star plus opt bol eol
	R      rune
	Neg    bool
	Ranges [][2]rune
	A, B   *Re
}

func (r *Re) prec() int {
	switch r.Kind {
	case "alt":
		return 0
	case "cat":
		return 1
	default:
		return 2
	}
}

func quoteRune(c rune, inClass bool) string {
	if strings.ContainsRune(`\.+*?()|[]{}^$-/&`, c) {
		return `\` + string(c)
	}
	if c < 0x20 || c == 0x7f || c == 0xFFFD {
		return fmt.Sprintf(`\x{%x}`, c)
	}
	return string(c)
}

func (r *Re) Render() string {
	par := func(x *Re, min int) string {
		s := x.Render()
		if x.prec() < min || (min == 2 && (x.Kind == "eps" || x.Kind == "star" || x.Kind == "plus" || x.Kind == "opt" || x.Kind == "bol" || x.Kind == "eol")) {
			return "(" + s + ")"
		}
		return s
	}
	switch r.Kind {
	case "none":
		return `[^\x{0}-\x{10ffff}]`
	case "eps":
		return "()"
	case "chr":
		return quoteRune(r.R, false)
	case "any":
		return "."
	case "cls":
		var sb strings.Builder
		sb.WriteString("[")
		if r.Neg {
			sb.WriteString("^")
		}
		for _, p := range r.Ranges {
			sb.WriteString(quoteRune(p[0], true))
			if p[1] != p[0] {
				sb.WriteString("-" + quoteRune(p[1], true))
			}
		}
		sb.WriteString("]")
		return sb.String()
	case "cat":
		return par(r.A, 1) + par(r.B, 1)
	case "alt":
		return par(r.A, 0) + "|" + par(r.B, 0)
	case "star":
		return par(r.A, 2) + "*"
	case "plus":
		return par(r.A, 2) + "+"
	case "opt":
		return par(r.A, 2) + "?"
	case "bol":
		return "^"
	case "eol":
		return "$"
	}
	panic(r.Kind)
}

func (r *Re) Wire() string {
	switch r.Kind {
	case "none":
		return "N"
	case "eps":
		return "E"
	case "chr":
		return fmt.Sprintf("c%d", r.R)
	case "any":
		return "a"
	case "cls":
		s := "k0"
		if r.Neg {
			s = "k1"
		}
		for _, p := range r.Ranges {
			s += fmt.Sprintf(":%d-%d", p[0], p[1])
		}
		return s
	case "cat":
		return "C," + r.A.Wire() + "," + r.B.Wire()
	case "alt":
		return "A," + r.A.Wire() + "," + r.B.Wire()
	case "star":
		return "S," + r.A.Wire()
	case "plus":
		return "P," + r.A.Wire()
	case "opt":
		return "O," + r.A.Wire()
	case "bol":
		return "^"
	case "eol":
		return "$"
	}
	panic(r.Kind)
}

// CanBeEmpty: the regex can match the empty string somewhere (conservative: ignores anchors' context).
func (r *Re) CanBeEmpty() bool {
	switch r.Kind {
	case "eps", "star", "opt", "bol", "eol":
		return true
	case "cat":
		return r.A.CanBeEmpty() && r.B.CanBeEmpty()
	case "alt":
		return r.A.CanBeEmpty() || r.B.CanBeEmpty()
	case "plus":
		return r.A.CanBeEmpty()
	}
	return false
}

var reRunes = []rune{'a', 'b', 'x', 'l', ' ', ',', '\n', 'é', '€', '😀', '.', '*'}

// RandRe generates a regex AST of bounded depth. anchors: allow ^ and $.
func RandRe(r *Rand, depth int, anchors bool) *Re {
	if depth <= 0 || r.Intn(4) == 0 {
		switch r.Intn(10) {
		case 0:
			return &Re{Kind: "any"}
		case 1:
			n := 1 + r.Intn(2)
			c := &Re{Kind: "cls", Neg: r.Intn(3) == 0}
			for i := 0; i < n; i++ {
				lo := reRunes[r.Intn(len(reRunes))]
				hi := lo
				if r.Bool() && lo < 'x' && lo >= 'a' {
					hi = lo + rune(r.Intn(3))
				}
				c.Ranges = append(c.Ranges, [2]rune{lo, hi})
			}
			return c
		case 2:
			if anchors {
				if r.Bool() {
					return &Re{Kind: "bol"}
				}
				return &Re{Kind: "eol"}
			}
			return &Re{Kind: "eps"}
		default:
			return &Re{Kind: "chr", R: reRunes[r.Intn(len(reRunes))]}
		}
	}
	switch r.Intn(8) {
	case 0, 1, 2:
		return &Re{Kind: "cat", A: RandRe(r, depth-1, anchors), B: RandRe(r, depth-1, anchors)}
	case 3, 4:
		return &Re{Kind: "alt", A: RandRe(r, depth-1, anchors), B: RandRe(r, depth-1, anchors)}
	case 5:
		return &Re{Kind: "star", A: RandRe(r, depth-1, anchors)}
	case 6:
		return &Re{Kind: "plus", A: RandRe(r, depth-1, anchors)}
	default:
		return &Re{Kind: "opt", A: RandRe(r, depth-1, anchors)}
	}
}
