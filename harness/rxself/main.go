package main

import (
	"fmt"
	"regexp"
	"strings"

	"verif/harness/hx"
)

func main() {
	o := hx.ParseFlags()
	r := hx.NewRand(o.Seed)
	subj := []string{"", "a", "ab", "aab", "xaax", "a,b,,c", "hello world", "é€a", "a\xffb", "\n a\n", "aaa", "abab", "x.*x", "😀a😀"}
	var lines, want, descr []string
	for i := 0; i < o.N; i++ {
		re := hx.RandRe(r, 3, true)
		src := "(?s:" + re.Render() + ")"
		g, err := regexp.Compile(src)
		if err != nil {
			fmt.Println("COMPILE FAIL", src, err)
			continue
		}
		g.Longest()
		s := r.Pick(subj)
		if r.Bool() {
			s += r.Pick(subj)
		}
		var sb strings.Builder
		for j, m := range g.FindAllStringIndex(s, -1) {
			if j > 0 {
				sb.WriteString(" ")
			}
			fmt.Fprintf(&sb, "%d,%d", m[0], m[1])
		}
		sb.WriteString(";")
		lines = append(lines, "findall "+re.Wire()+" "+hx.HexS(s))
		want = append(want, sb.String())
		descr = append(descr, fmt.Sprintf("%q on %q", src, s))
	}
	got, err := hx.ModelEval(o.ModelRun, lines)
	if err != nil {
		panic(err)
	}
	bad := 0
	for i := range got {
		if got[i] != want[i] {
			bad++
			if bad < 15 {
				fmt.Println("MISMATCH", descr[i], "go:", want[i], "model:", got[i], lines[i])
			}
		}
	}
	fmt.Println("cases", len(got), "mismatches", bad)
}
