package shared

import (
	"fmt"
	"math"
	"reflect"
	"regexp"
	"sort"
	"strings"
)

// Fingerprint renders EVERYTHING reachable from v as lines "path = value": exported and
// unexported struct fields, slices up to their capacity (a write beyond len into a shared
// backing array is a write), arrays, maps (entries sorted by key), pointers (by identity:
// numbered in the order of first visit, so two pointers to one object stay recognisable and
// cycles end), interfaces.  A *regexp.Regexp is rendered by its source and its `longest`
// flag only (the only state a Regexp's methods can change).  Function values are rendered
// as nil / non-nil.  Nothing here depends on field or type names of the repository: a new
// field of parser.Program, compiler.Program or the resolver is covered the day it appears.
func Fingerprint(v any) []string {
	f := &fper{ids: map[uintptr]int{}}
	f.walk("$", reflect.ValueOf(v))
	return f.lines
}

type fper struct {
	lines []string
	ids   map[uintptr]int
}

func (f *fper) emit(path, val string) { f.lines = append(f.lines, path+" = "+val) }

var regexpPtrType = reflect.TypeOf((*regexp.Regexp)(nil))

func (f *fper) walk(path string, v reflect.Value) {
	if !v.IsValid() {
		f.emit(path, "<invalid>")
		return
	}
	switch v.Kind() {
	case reflect.Bool:
		f.emit(path, fmt.Sprint(v.Bool()))
	case reflect.Int, reflect.Int8, reflect.Int16, reflect.Int32, reflect.Int64:
		f.emit(path, fmt.Sprint(v.Int()))
	case reflect.Uint, reflect.Uint8, reflect.Uint16, reflect.Uint32, reflect.Uint64, reflect.Uintptr:
		f.emit(path, fmt.Sprint(v.Uint()))
	case reflect.Float32, reflect.Float64:
		f.emit(path, fmt.Sprintf("float:%d", math.Float64bits(v.Float())))
	case reflect.Complex64, reflect.Complex128:
		f.emit(path, fmt.Sprint(v.Complex()))
	case reflect.String:
		f.emit(path, fmt.Sprintf("%q", v.String()))
	case reflect.Func:
		if v.IsNil() {
			f.emit(path, "func:nil")
		} else {
			f.emit(path, "func")
		}
	case reflect.Chan, reflect.UnsafePointer:
		f.emit(path, v.Kind().String())
	case reflect.Interface:
		if v.IsNil() {
			f.emit(path, "nil")
			return
		}
		f.walk(path+".("+v.Elem().Type().String()+")", v.Elem())
	case reflect.Pointer:
		if v.IsNil() {
			f.emit(path, "nil")
			return
		}
		id, seen := f.ids[v.Pointer()]
		if seen {
			f.emit(path, fmt.Sprintf("->#%d", id))
			return
		}
		id = len(f.ids) + 1
		f.ids[v.Pointer()] = id
		if v.Type() == regexpPtrType {
			e := v.Elem()
			f.emit(path, fmt.Sprintf("#%d regexp %q longest=%v", id, e.FieldByName("expr").String(), e.FieldByName("longest").Bool()))
			return
		}
		f.emit(path, fmt.Sprintf("#%d", id))
		f.walk(path+"*", v.Elem())
	case reflect.Struct:
		t := v.Type()
		for i := 0; i < v.NumField(); i++ {
			f.walk(path+"."+t.Field(i).Name, v.Field(i))
		}
	case reflect.Array:
		for i := 0; i < v.Len(); i++ {
			f.walk(fmt.Sprintf("%s[%d]", path, i), v.Index(i))
		}
	case reflect.Slice:
		if v.IsNil() {
			f.emit(path, "nil-slice")
			return
		}
		f.emit(path, fmt.Sprintf("slice len=%d cap=%d", v.Len(), v.Cap()))
		full := v.Slice(0, v.Cap())
		for i := 0; i < full.Len(); i++ {
			f.walk(fmt.Sprintf("%s[%d]", path, i), full.Index(i))
		}
	case reflect.Map:
		if v.IsNil() {
			f.emit(path, "nil-map")
			return
		}
		f.emit(path, fmt.Sprintf("map len=%d", v.Len()))
		type ent struct {
			key  string
			k, e reflect.Value
		}
		var es []ent
		it := v.MapRange()
		for it.Next() {
			kf := &fper{ids: map[uintptr]int{}}
			kf.walk("", it.Key())
			es = append(es, ent{strings.Join(kf.lines, ";"), it.Key(), it.Value()})
		}
		sort.Slice(es, func(i, j int) bool { return es[i].key < es[j].key })
		for _, e := range es {
			f.walk(path+"["+e.key+"]", e.e)
		}
	default:
		f.emit(path, "<"+v.Kind().String()+">")
	}
}

// FingerprintDiff: the lines that are only in a / only in b (at most n of each).
func FingerprintDiff(a, b []string, n int) (onlyA, onlyB []string) {
	count := func(xs []string) map[string]int {
		m := map[string]int{}
		for _, l := range xs {
			m[l]++
		}
		return m
	}
	cb := count(b)
	for _, l := range a {
		if cb[l] > 0 {
			cb[l]--
		} else if len(onlyA) < n {
			onlyA = append(onlyA, l)
		}
	}
	ca := count(a)
	for _, l := range b {
		if ca[l] > 0 {
			ca[l]--
		} else if len(onlyB) < n {
			onlyB = append(onlyB, l)
		}
	}
	return
}
