// Package shared: the "one parsed Program, many interpreters" workload of C19, used by
// the harness (plain build) and by the race-detector binary (harness/c19/racer).
package shared

import (
	"bytes"
	"context"
	"fmt"
	"os"
	"path/filepath"
	"strings"
	"sync"
	"time"

	"github.com/benhoyt/goawk/interp"
	"github.com/benhoyt/goawk/parser"
)

// Work is one AWK program with its input. Output must not depend on for-in order.
type Work struct {
	Name  string
	Src   string
	Input string
	Data  string // contents of the file the program reads with getline < DATA
	Mode  string // "": default; "csv": CSV input with header and CSV output; "tsv": TSV input, default output
}

func lines(n int, f func(i int) string) string {
	var sb strings.Builder
	for i := 1; i <= n; i++ {
		sb.WriteString(f(i))
		sb.WriteByte('\n')
	}
	return sb.String()
}

// Works: programs that exercise everything an interpreter reads from the shared Program:
// regex constants (bare, ~, match, sub, gsub, split), string and number constants,
// user functions (recursion, array parameters, local arrays), arrays, getline (from a
// file named in a variable, from standard input), printf/sprintf, field assignment,
// range patterns, several BEGIN/END blocks, native functions.
func Works() []Work {
	in := lines(40, func(i int) string { return fmt.Sprintf("line%d alpha%d %d beta-%d", i, i%7, i*i, i%3) })
	data := lines(25, func(i int) string { return fmt.Sprintf("d%d,%d,x%dy", i, i*3, i%5) })
	return []Work{
		{"regex-constants", `
/alpha3/ { n3++ }
$2 ~ /^alpha[0-2]$/ { low++ }
$0 !~ /beta-0$/ { nb++ }
{ if (match($0, /[0-9]+ beta/)) { ms += RSTART; ml += RLENGTH } }
{ s = $0; c += gsub(/[aeiou]/, "#", s); sub(/line/, "L", s); if (NR % 10 == 0) print s }
/^line5 /, /^line8 / { rng = rng "," NR }
END { n = split("a1b22c333d", parts, /[0-9]+/); printf "%d %d %d %d %d %d %s %d %s\n", n3, low, nb, ms, ml, c, rng, n, parts[4] }
`, in, "", ""},
		{"functions-arrays", `
function fib(n) { return n < 2 ? n : fib(n-1) + fib(n-2) }
function fill(a, n,   i) { for (i = 1; i <= n; i++) a[i] = i * i; return n }
function sum(a,   k, s) { for (k in a) s += a[k]; return s }
function loc(n,   t, i) { for (i = 0; i < n; i++) t[i] = i; return length(t) + sum(t) }
function rev(s,   i, r) { for (i = length(s); i > 0; i--) r = r substr(s, i, 1); return r }
BEGIN { print fib(15); fill(sq, 12); print sum(sq), loc(9), rev("hello world") }
{ cnt[$2]++; tot[$2] += $3 }
END { for (i = 0; i < 7; i++) printf "%s=%d/%d ", "alpha" i, cnt["alpha" i], tot["alpha" i]; print ""; delete cnt; print length(cnt) }
`, in, "", ""},
		{"getline-printf", `
BEGIN {
  while ((getline ln < DATA) > 0) { nd++; split(ln, f, ","); ds += f[2]; if (ln ~ /x3y$/) x3++ }
  close(DATA)
  printf "%d %d %d|%5.2f|%-6s|%06d|%x|%c|%e|%s\n", nd, ds, x3, 3.14159, "ab", 42, 255, 65, 12345.678, sprintf("%3d%%", 7)
  if ((getline first) > 0) print "first:", first, NR
  getline; print "second:", $1, NF
}
{ $2 = toupper($2); if (NR <= 5) print; OFS = "-" }
END { print NR, NF, length($0); print substr("abcdef", 2, 3), index("foobar", "bar"), tolower("ABC") 1e3, 0.1 + 0.2, 100000 * 100000, "x" 1.0 }
`, in, data, ""},
		{"dynamic-and-constants", `
BEGIN { re = "alpha[1-3]"; FS = " "; CONVFMT = "%.3g"; big = 123456789.123 }
$2 ~ re { d++ }
{ k = "line" NR; if ($1 == k) eq++; v = $3 + 0; if (v > 100 && v < 900) mid++; x = x (NR % 9) }
NR == 3 { $0 = "re split now"; nf3 = NF }
END { y = big ""; print d, eq, mid, x, nf3, y; a["p"] = 1; a[1, 2] = 3; print ((1, 2) in a), ("q" in a), length(a); print length() }
`, in, "", ""},
		// every regex here is computed at run time: the interpreter's regex cache fills up
		{Name: "dynamic-regexes", Src: `
BEGIN { tag = "alpha"; sepv = "a+l" }
{ for (i = 0; i < 7; i++) if ($2 ~ ("^" tag i "$")) hit[i]++ }
$1 ~ $2 { same++ }
$3 ~ ("^" NR * NR "$") { sq++ }
{ n += split($0, parts, "ph" (NR % 5)); m += split($4, q, "-" "|" "t"); r = "l" "i"; s = $1; c += sub(r "ne", "L" NR, s); d += gsub("[" (NR % 3) "-9]", "#", s) }
{ if (match($0, "be" "ta-[" NR % 3 "]")) ms += RSTART }
END { for (i = 0; i < 7; i++) printf "%d ", hit[i]; print same + 0, sq, n, m, c, d, ms; print split("xAAyAz", z, sepv "*") }
`, Input: in},
		// more than a hundred distinct printf/sprintf formats: the format cache fills up
		{Name: "printf-formats", Src: `
{ for (w = 1; w <= 4; w++) { printf "%" w "d|%-" w "s|%." w "f|%0" (w + 2) "d|", NR, $2, NR / 7, NR; s = s sprintf("%" (w + NR % 9) "x", NR * w) } }
NR % 10 == 0 { printf "\n%c%c %5.2e %g %i %o %X %u %%\n", 65 + NR % 26, "z", NR, NR / 3, NR, NR, NR * 31, NR }
END { print ""; print length(s), s }
`, Input: in},
		// CSV input with a header (field names, @"name"), CSV output
		{Name: "csv-modes", Mode: "csv", Src: `
NR == 1 { print @"name", @"qty" }
{ tot[@"name"] += @"qty"; n++; if (@"note" ~ ("," "|q")) odd++ }
END { print n, odd + 0, tot["pear"], tot["fig, dried"]; print "a,b", "say \"hi\"", 3 }
`, Input: "name,qty,note\npear,3,plain\n\"fig, dried\",4,\"has, comma\"\npear,5,\"a \"\"q\"\"\"\napple,1,x\n"},
		// TSV input, several streams: getline from two files by name, from stdin, close and reopen
		{Name: "streams-tsv", Mode: "tsv", Src: `
BEGIN {
  while ((getline ln < DATA) > 0) a++
  close(DATA)
  while ((getline ln < DATA) > 0) { b++; if (b == 3) break }
  while ((getline < DATA) > 0) c += NF
  print a, b, c
}
{ k[$2]++; if ((getline nxt) > 0) pairs++ }
END { print NR, pairs, k["x"], k["y z"] }
`, Input: "1\tx\tp\n2\ty z\tq\n3\tx\tr\n4\tx\ts\n5\ty z\tt\n", Data: data},
		{"native-funcs", `
function wrap(s) { return "<" twice(s) ">" }
{ if (NR % 13 == 0) print wrap($1), addn(NR, 0.5) }
END { print twice("z"), addn(1, 2) }
`, in, "", ""},
	}
}

// Funcs for the native-funcs program.
func Funcs() map[string]any {
	return map[string]any{
		"twice": func(s string) string { return s + s },
		"addn":  func(a, b float64) float64 { return a + b },
	}
}

// Snapshot renders everything reachable from a Program as text.
func Snapshot(p *parser.Program) string {
	var dis bytes.Buffer
	p.Disassemble(&dis)
	return p.VerifDumpAST(true) + "\n" + p.VerifDumpCompiled() + "\n" + p.VerifResolverTables() + "\n" + dis.String() + "\n" + p.String()
}

func config(w Work, dataPath string, out *bytes.Buffer) *interp.Config {
	c := &interp.Config{
		Stdin:   strings.NewReader(w.Input),
		Output:  out,
		Error:   out,
		Vars:    []string{"DATA", dataPath},
		Funcs:   Funcs(),
		NoExec:  true,
		Environ: []string{},
	}
	switch w.Mode {
	case "csv":
		c.InputMode, c.CSVInput.Header, c.OutputMode = interp.CSVMode, true, interp.CSVMode
	case "tsv":
		c.InputMode = interp.TSVMode
	}
	return c
}

// FingerprintRun (single goroutine, deterministic): the deep fingerprint of a freshly
// parsed Program before any execution, after one ExecProgram, and after New + two
// Executes on the same interpreter.  Returns the step after which it changed ("" = never)
// and the lines that disappeared / appeared.
func FingerprintRun(w Work, dir string) (step string, gone, added []string, output string, err error) {
	dataPath := filepath.Join(dir, "data_"+w.Name+".txt")
	if err = os.WriteFile(dataPath, []byte(w.Data), 0o644); err != nil {
		return
	}
	prog, perr := parser.ParseProgram([]byte(w.Src), &parser.ParserConfig{Funcs: Funcs()})
	if perr != nil {
		err = perr
		return
	}
	before := Fingerprint(prog)
	check := func(name string) bool {
		after := Fingerprint(prog)
		gone, added = FingerprintDiff(before, after, 12)
		if len(gone)+len(added) > 0 {
			step = name
			return true
		}
		return false
	}
	output = runGuard(func() (string, error) {
		var out bytes.Buffer
		return execProgramTimed(prog, config(w, dataPath, &out), &out)
	})
	if check("ExecProgram") {
		return
	}
	var it *interp.Interpreter
	runGuard(func() (string, error) {
		var e error
		it, e = interp.New(prog)
		return "", e
	})
	if check("interp.New") || it == nil {
		return
	}
	for r := 0; r < 2; r++ {
		runGuard(func() (string, error) {
			var out bytes.Buffer
			ctx, cancel := context.WithTimeout(context.Background(), ExecTimeout)
			defer cancel()
			_, e := it.ExecuteContext(ctx, config(w, dataPath, &out))
			return "", e
		})
		if check(fmt.Sprintf("Interpreter.Execute #%d", r+1)) {
			return
		}
	}
	return
}

// Result of running one Work on one shared Program.
type Result struct {
	Reference  string   // a single execution of a freshly parsed Program
	Outputs    []string // one per execution on the shared Program, labelled
	Labels     []string
	SnapBefore string
	SnapAfter  string
	FpBefore   []string // deep fingerprint (fingerprint.go)
	FpAfter    []string
	ParseErr   error
}

// ExecTimeout bounds one execution (they take milliseconds): a change of the interpreter
// that makes a program loop must end as a failed comparison, not as a hung check.
const ExecTimeout = 10 * time.Second

// execProgramTimed: interp.ExecProgram has no context; run it aside and stop waiting after ExecTimeout.
func execProgramTimed(prog *parser.Program, cfg *interp.Config, out *bytes.Buffer) (string, error) {
	type res struct {
		st  int
		err error
		pan any
	}
	ch := make(chan res, 1)
	go func() {
		defer func() {
			if r := recover(); r != nil {
				ch <- res{pan: r}
			}
		}()
		st, err := interp.ExecProgram(prog, cfg)
		ch <- res{st: st, err: err}
	}()
	select {
	case r := <-ch:
		if r.pan != nil {
			return "", fmt.Errorf("PANIC: %v", r.pan)
		}
		return out.String() + fmt.Sprintf("[status %d]", r.st), r.err
	case <-time.After(ExecTimeout):
		return "", fmt.Errorf("TIMEOUT: ExecProgram still running after %v", ExecTimeout)
	}
}

func runGuard(f func() (string, error)) (s string) {
	defer func() {
		if r := recover(); r != nil {
			s = fmt.Sprintf("PANIC: %v", r)
		}
	}()
	out, err := f()
	if err != nil {
		return out + "\nERROR: " + err.Error()
	}
	return out
}

// RunShared: reference run; then on ONE Program: `goroutines` goroutines at the same time, then
// `seq` executions one after another, each with its own interpreter
// (interp.New + Execute, `rounds` times each, and ExecProgram).
func RunShared(w Work, dir string, seq, goroutines, rounds int) Result {
	var res Result
	dataPath := filepath.Join(dir, "data_"+w.Name+".txt")
	if err := os.WriteFile(dataPath, []byte(w.Data), 0o644); err != nil {
		res.ParseErr = err
		return res
	}
	pcfg := &parser.ParserConfig{Funcs: Funcs()}
	fresh, err := parser.ParseProgram([]byte(w.Src), pcfg)
	if err != nil {
		res.ParseErr = err
		return res
	}
	res.Reference = runGuard(func() (string, error) {
		var out bytes.Buffer
		return execProgramTimed(fresh, config(w, dataPath, &out), &out)
	})
	prog, err := parser.ParseProgram([]byte(w.Src), pcfg)
	if err != nil {
		res.ParseErr = err
		return res
	}
	res.SnapBefore = Snapshot(prog)
	res.FpBefore = Fingerprint(prog)
	add := func(mu *sync.Mutex, label, out string) {
		if mu != nil {
			mu.Lock()
			defer mu.Unlock()
		}
		res.Labels = append(res.Labels, label)
		res.Outputs = append(res.Outputs, out)
	}
	execProgram := func() string {
		return runGuard(func() (string, error) {
			var out bytes.Buffer
			return execProgramTimed(prog, config(w, dataPath, &out), &out)
		})
	}
	var mu sync.Mutex
	var wg sync.WaitGroup
	start := make(chan struct{})
	for g := 0; g < goroutines; g++ {
		wg.Add(1)
		go func(g int) {
			defer wg.Done()
			<-start
			if g%3 == 2 {
				add(&mu, fmt.Sprintf("goroutine-%d-ExecProgram", g), execProgram())
				return
			}
			var it *interp.Interpreter
			first := runGuard(func() (string, error) {
				var err error
				it, err = interp.New(prog)
				return "", err
			})
			if it == nil {
				add(&mu, fmt.Sprintf("goroutine-%d-New", g), first)
				return
			}
			for r := 0; r < rounds; r++ {
				out := runGuard(func() (string, error) {
					var out bytes.Buffer
					ctx, cancel := context.WithTimeout(context.Background(), ExecTimeout)
					defer cancel()
					st, err := it.ExecuteContext(ctx, config(w, dataPath, &out))
					return out.String() + fmt.Sprintf("[status %d]", st), err
				})
				add(&mu, fmt.Sprintf("goroutine-%d-Execute-%d", g, r), out)
				it.ResetVars()
			}
		}(g)
	}
	// the goroutines first, on the Program nobody has executed yet: a cache that execution
	// fills and that is (wrongly) shared is then written by all of them at once
	close(start)
	wg.Wait()
	for i := 0; i < seq; i++ {
		add(nil, fmt.Sprintf("sequential-%d", i), execProgram())
	}
	res.SnapAfter = Snapshot(prog)
	res.FpAfter = Fingerprint(prog)
	return res
}
