// racer: the shared-Program workload of C19, meant to be built with `go build -race`
// (thorough tier). Exit status 66 = the race detector reported a race (GORACE exitcode),
// 3 = outputs differed or the Program changed, 0 = clean.
package main

import (
	"fmt"
	"os"
	"strconv"

	"verif/harness/c19/shared"
)

func main() {
	goroutines, rounds := 8, 3
	if len(os.Args) > 1 {
		goroutines, _ = strconv.Atoi(os.Args[1])
	}
	if len(os.Args) > 2 {
		rounds, _ = strconv.Atoi(os.Args[2])
	}
	dir, err := os.MkdirTemp("", "c19racer")
	if err != nil {
		fmt.Println("racer:", err)
		os.Exit(2)
	}
	defer os.RemoveAll(dir)
	bad := 0
	for _, w := range shared.Works() {
		res := shared.RunShared(w, dir, 2, goroutines, rounds)
		if res.ParseErr != nil {
			fmt.Printf("racer: %s: %v\n", w.Name, res.ParseErr)
			bad++
			continue
		}
		for i, o := range res.Outputs {
			if o != res.Reference {
				fmt.Printf("racer: %s: %s differs from the single execution\n", w.Name, res.Labels[i])
				bad++
			}
		}
		if gone, added := shared.FingerprintDiff(res.FpBefore, res.FpAfter, 4); res.SnapBefore != res.SnapAfter || len(gone)+len(added) > 0 {
			fmt.Printf("racer: %s: Program changed\n", w.Name)
			bad++
		}
		fmt.Printf("racer: %s: %d executions\n", w.Name, len(res.Outputs))
		if os.Getenv("C19_SHOW") != "" {
			fmt.Println(res.Reference)
		}
	}
	if bad > 0 {
		os.Exit(3)
	}
}
