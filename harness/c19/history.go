// Parse HISTORIES: the result of parsing a source must not depend on what the process
// parsed before (package-level state of parser/lexer/resolver/compiler: pools, caches,
// counters).  For a corpus of valid and invalid sources - one per kind of way a parse can
// end, in particular parses ABORTED after state was partially built - every ordered pair
// (A, B) and triple (A, A, B) is parsed in one goroutine with the garbage collector off
// (a sync.Pool keeps its contents), and B's complete outcome (verdict, error text and
// position, AST/compiled/tables/disassembly dump) is compared with B parsed in a FRESH
// process that has parsed nothing else.  The same from several goroutines at once.
package main

import (
	"encoding/json"
	"fmt"
	"os"
	"os/exec"
	"runtime"
	"runtime/debug"
	"strings"
	"sync"

	"verif/harness/hx"
)

type hsrc struct{ Name, Src string }

func historyCorpus() []hsrc {
	return []hsrc{
		{"valid-split-print", "BEGIN { n = split(\"a b c\", parts); print n, parts[2] }\n"},
		{"valid-print-group", "BEGIN { print (1,2); printf(\"%d %d\\n\", 3, 4) }\n"},
		{"valid-in-group", "BEGIN { a[1,2] = 3; if ((1,2) in a) print \"y\" }\n"},
		{"valid-functions", "function f(a, i) { a[i] = i; return g(i) }\nfunction g(x) { return x + 1 }\nBEGIN { print f(arr, 2) }\n"},
		{"valid-patterns", "/re/ { n++ }\n$1 ~ \"x\", $2 == 3 { print }\nEND { print n + 0 }\n"},
		{"valid-getline-regex", "BEGIN { while ((getline line < \"/dev/null\") > 0) n++; sub(/a+/, \"b\", s); print n, s }\n"},
		{"valid-empty", "\n"},
		{"lexer-error-string", "BEGIN { x = \"unterminated\n}\n"},
		{"lexer-error-char", "BEGIN { x = 1 ` 2 }\n"},
		{"lexer-error-regex", "BEGIN { if (x ~ /abc\n) print }\n"},
		{"syntax-error-after-group", "BEGIN {\n\n  print (1,2) +\n}\n"},
		{"syntax-error-after-assigned-group", "BEGIN {\n  x = (1, 2)\n  y = (3, 4\n}\n"},
		{"syntax-error-two-groups-open", "function f(a) {\n      q = (7, 8) (9, 10\n"},
		{"syntax-error-keyword", "BEGIN { if }\n"},
		{"syntax-error-operator", "BEGIN { x = * 3 }\n"},
		{"syntax-error-unclosed-block", "BEGIN { x = 1\n"},
		{"syntax-error-unclosed-function", "function f(a, b) { a[1] = b\n"},
		{"syntax-error-bad-param", "function f(a, a) { }\n"},
		{"syntax-error-getline", "BEGIN { getline < }\n"},
		{"unused-group-error", "BEGIN {\n   x = (1, 2)\n}\n"},
		{"unused-groups-two", "BEGIN {\n        x = (1, 2)\n y = (3, 4)\n}\n"},
		{"resolver-error-type", "function f(a) { a[1] = 1; a = 2 }\nBEGIN { f(x) }\n"},
		{"resolver-error-undefined", "BEGIN { nosuch(1) }\n"},
		{"resolver-error-args", "function f(a) { return a }\nBEGIN { f(1, 2) }\n"},
		{"resolver-error-after-group", "BEGIN { print (1,2); f(3) }\n"},
		{"error-break-outside-loop", "BEGIN { break }\n"},
		{"error-return-outside-func", "BEGIN { return 1 }\n"},
		{"error-next-in-begin", "BEGIN { next }\n"},
	}
}

func outcomeOf(src string) string {
	p := parseOnce(src, nil)
	if p.Verdict == "ok" {
		return "ok\n" + p.Dump
	}
	return p.Verdict + " " + p.Raw
}

// historyFreshMain: C19_FRESH=<index>: parse corpus[index] as the FIRST thing this process
// parses and print the outcome.
// C19_FRESH=<i>,<j>,...: parse those corpus entries in that order, as the first things
// this process parses (one goroutine, GC off), and print the outcome of the last.
func historyFreshMain(arg string) {
	c := historyCorpus()
	var srcs []string
	for _, f := range strings.Split(arg, ",") {
		var i int
		if _, err := fmt.Sscan(f, &i); err != nil || i < 0 || i >= len(c) {
			os.Exit(3)
		}
		srcs = append(srcs, c[i].Src)
	}
	debug.SetGCPercent(-1)
	runtime.LockOSThread()
	b, _ := json.Marshal(runHistory(srcs))
	os.Stdout.Write(b)
}

// freshHistory runs a history of corpus indexes in a fresh process
func freshHistory(hist []int) (string, error) {
	self, err := os.Executable()
	if err != nil {
		return "", err
	}
	var fs []string
	for _, i := range hist {
		fs = append(fs, fmt.Sprint(i))
	}
	cmd := exec.Command(self)
	cmd.Env = append(os.Environ(), "C19_FRESH="+strings.Join(fs, ","))
	out, err := cmd.Output()
	if err != nil {
		return "", err
	}
	var res string
	if err := json.Unmarshal(out, &res); err != nil {
		return "", err
	}
	return res, nil
}

func freshOutcomes(rep *hx.Report, corpus []hsrc) []string {
	out := make([]string, len(corpus))
	for i := range corpus {
		o, err := freshHistory([]int{i})
		if err != nil {
			rep.HarnessError("fresh parse of %s: %v", corpus[i].Name, err)
			return nil
		}
		out[i] = o
	}
	return out
}

// runHistory parses the sources in order (same goroutine) and returns the outcome of the last
func runHistory(srcs []string) string {
	var last string
	for _, s := range srcs {
		last = outcomeOf(s)
	}
	return last
}

func historyOracle(rep *hx.Report, thorough bool) {
	corpus := historyCorpus()
	fresh := freshOutcomes(rep, corpus)
	if fresh == nil {
		return
	}
	nOK := 0
	for _, f := range fresh {
		if len(f) > 2 && f[:2] == "ok" {
			nOK++
		}
	}
	rep.Count(fmt.Sprintf("history:corpus=%d(accepted=%d)", len(corpus), nOK))
	old := debug.SetGCPercent(-1) // a GC empties sync.Pools: keep whatever a parse left behind
	defer debug.SetGCPercent(old)
	runtime.LockOSThread()
	defer runtime.UnlockOSThread()
	failed := map[string]bool{}
	check := func(hist []int, where string) {
		rep.SearchEvals++
		var srcs, names []string
		for _, i := range hist {
			srcs = append(srcs, corpus[i].Src)
			names = append(names, corpus[i].Name)
		}
		b := hist[len(hist)-1]
		got := runHistory(srcs)
		if got == fresh[b] {
			return
		}
		if failed[fmt.Sprint(b)] {
			return // one report per last source
		}
		failed[fmt.Sprint(b)] = true
		// This process has parsed many things before: find a SELF-CONTAINED history (run in a
		// fresh process) that ends in the same wrong outcome, so that the replay is complete.
		note := "the parses of this harness process before it are part of the history; no 2- or 3-parse history reproduced it in a fresh process"
		found := false
		for a := 0; a < len(corpus) && !found; a++ {
			for _, h := range [][]int{{a, b}, {a, a, b}} {
				if o, err := freshHistory(h); err == nil && o != fresh[b] {
					hist, got, found = h, o, true
					note = "reproduced in a fresh process that parses exactly these sources in this order"
					break
				}
			}
		}
		srcs, names = nil, nil
		for _, i := range hist {
			srcs = append(srcs, corpus[i].Src)
			names = append(names, corpus[i].Name)
		}
		rep.Fail(hx.Failure{Class: "parse-history:outcome-depends-on-earlier-parses(" + where + ")",
			Oracle: "parse-of-B-after-a-history-equals-parse-of-B-in-a-fresh-process",
			Detail: map[string]any{"kind": "history", "history": names, "sources": srcs, "last_source": corpus[b].Src,
				"expected": short(fresh[b]), "got": short(got), "note": note}})
	}
	for a := range corpus {
		for b := range corpus {
			check([]int{a, b}, "same goroutine")
			check([]int{a, a, b}, "same goroutine")
		}
	}
	// several goroutines at once, each walking the pairs in its own order
	g := 4
	rounds := 1
	if thorough {
		g, rounds = 8, 6
	}
	var mu sync.Mutex
	var wg sync.WaitGroup
	type bad struct {
		hist     []int
		got      string
	}
	var bads []bad
	for k := 0; k < g; k++ {
		wg.Add(1)
		go func(k int) {
			defer wg.Done()
			r := hx.NewRand(uint64(1000 + k))
			for n := 0; n < rounds*len(corpus)*len(corpus); n++ {
				a, b := r.Intn(len(corpus)), r.Intn(len(corpus))
				got := runHistory([]string{corpus[a].Src, corpus[b].Src})
				if got != fresh[b] {
					mu.Lock()
					if len(bads) < 3 {
						bads = append(bads, bad{[]int{a, b}, got})
					}
					mu.Unlock()
				}
			}
		}(k)
	}
	wg.Wait()
	rep.SearchEvals += g
	for _, x := range bads {
		a, b := x.hist[0], x.hist[1]
		rep.Fail(hx.Failure{Class: "parse-history:outcome-depends-on-earlier-parses(concurrent goroutines)",
			Oracle: "parse-of-B-after-a-history-equals-parse-of-B-in-a-fresh-process",
			Detail: map[string]any{"kind": "history", "history": []string{corpus[a].Name, corpus[b].Name},
				"sources": []string{corpus[a].Src, corpus[b].Src}, "last_source": corpus[b].Src,
				"expected": short(fresh[b]), "got": short(x.got), "goroutines": g}})
	}
}

// replayHistory: the sources of a failure detail, in order, against a fresh process
func replayHistory(d map[string]any) int {
	var srcs []string
	if xs, ok := d["sources"].([]any); ok {
		for _, x := range xs {
			srcs = append(srcs, fmt.Sprint(x))
		}
	}
	if len(srcs) == 0 {
		fmt.Println("replay: no sources")
		return 2
	}
	last := srcs[len(srcs)-1]
	corpus := historyCorpus()
	idx := -1
	for i, c := range corpus {
		if c.Src == last {
			idx = i
		}
	}
	var fresh string
	if idx >= 0 {
		fresh, _ = freshHistory([]int{idx})
	}
	if fresh == "" {
		fresh = fmt.Sprint(d["expected"])
	}
	old := debug.SetGCPercent(-1)
	defer debug.SetGCPercent(old)
	runtime.LockOSThread()
	got := runHistory(srcs)
	fmt.Printf("replay: history of %d parses in one goroutine; last source:\n%s\nfresh process: %s\nafter history: %s\n", len(srcs), last, short(fresh), short(got))
	if short(got) != short(fresh) {
		fmt.Println("replay: STILL FAILS")
		return 1
	}
	fmt.Println("replay: no failure reproduced")
	return 0
}
