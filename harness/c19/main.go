// C19 harness: parsing is deterministic; a parsed Program is immutable and shareable.
//
// Correspondence (implementation vs the extracted Coq model of the resolver):
//   small programs (<= 4 functions): the source is parsed PARSES times (Go's map order is
//   randomised per map and per run); modelrun enumerates EVERY map-order oracle
//   (`outcomes`); every outcome of the implementation (verdict, canonical error, variable
//   and function tables with indexes) must be one of the model's outcomes, and the
//   model's own outcomes must agree on verdict/types/indexes (the theorems, re-observed);
//   large programs: against the model under the seed oracles and the oracles that put a
//   chosen function first (`fronts`).
// Search (implementation only, written without the model):
//   - all parses of one source give the same verdict, the same error text and position,
//     byte-equal VerifDumpAST / VerifDumpCompiled / VerifResolverTables / Disassemble;
//   - one Program executed sequentially and from N goroutines (own interpreter each)
//     gives the output of a single execution; the Program's deep snapshot is unchanged;
//   - thorough tier: the same workload in a binary built with -race must report no race.
package main

import (
	"bytes"
	"encoding/json"
	"fmt"
	"os"
	"os/exec"
	"path/filepath"
	"regexp"
	"sort"
	"strconv"
	"strings"
	"time"

	"github.com/benhoyt/goawk/parser"
	"verif/harness/c19/shared"
	"verif/harness/hx"
)

func addDump(p *Prog) {} // gen.go (shared with C16) calls it for executable programs; unused here

// ---- running the implementation ----

func nativeFuncs(ns []Native) map[string]any {
	if len(ns) == 0 {
		return nil
	}
	m := map[string]any{}
	for _, n := range ns {
		switch {
		case n.Variadic:
			m[n.Name] = func(a ...string) string { return "" }
		case n.In == 2:
			m[n.Name] = func(a, b string) string { return a }
		default:
			m[n.Name] = func(a float64) float64 { return a }
		}
	}
	return m
}

var errPatterns = []struct {
	re  *regexp.Regexp
	fmt func(m []string) string
}{
	{regexp.MustCompile(`^function "(\w+)" already defined$`), func(m []string) string { return "already " + hx.HexS(m[1]) }},
	{regexp.MustCompile(`^global var "(\w+)" can't also be a function$`), func(m []string) string { return "globalfunc " + hx.HexS(m[1]) }},
	{regexp.MustCompile(`^can't call local variable "(\w+)" as function$`), func(m []string) string { return "calllocal " + hx.HexS(m[1]) }},
	{regexp.MustCompile(`^undefined function "(\w+)"$`), func(m []string) string { return "undefined " + hx.HexS(m[1]) }},
	{regexp.MustCompile(`^"(\w+)" called with more arguments than declared$`), func(m []string) string { return "toomanyargs " + hx.HexS(m[1]) }},
	{regexp.MustCompile(`^can't use (scalar|array) "(\w+)" as (scalar|array)$`), func(m []string) string { return "use " + m[1] + " " + hx.HexS(m[2]) + " " + m[3] }},
	{regexp.MustCompile(`^can't pass (scalar|array) "(\w+)" as (scalar|array) param$`), func(m []string) string {
		return "passvar " + m[1] + " " + hx.HexS(m[2]) + " " + m[3]
	}},
	{regexp.MustCompile(`^can't pass scalar .* as array param$`), func(m []string) string { return "passexpr" }},
	{regexp.MustCompile(`^too many iterations trying to resolve variable types$`), func(m []string) string { return "iter" }},
}

func canonError(msg string) string {
	for _, p := range errPatterns {
		if m := p.re.FindStringSubmatch(msg); m != nil {
			return p.fmt(m)
		}
	}
	return "other " + hx.HexS(msg)
}

// one parse of one source
type parse struct {
	Verdict string // ok | err | panic
	Canon   string // model-comparable outcome: "ok cc=1 (tables ...)" | "err <canonical error>" | "panic"
	Raw     string // the complete error text with position
	Line    int    // error position
	Col     int
	Dump    string // AST + compiled + tables + disassembly (accepted programs)
}

func parseOnce(src string, natives []Native) (res parse) {
	defer func() {
		if r := recover(); r != nil {
			res = parse{Verdict: "panic", Canon: "panic", Raw: fmt.Sprint(r)}
		}
	}()
	var cfg *parser.ParserConfig
	if f := nativeFuncs(natives); f != nil {
		cfg = &parser.ParserConfig{Funcs: f}
	}
	prog, err := parser.ParseProgram([]byte(src), cfg)
	if err != nil {
		msg := err.Error()
		res = parse{Verdict: "err", Raw: err.Error()}
		if pe, ok := err.(*parser.ParseError); ok {
			msg = pe.Message
			res.Line, res.Col = pe.Position.Line, pe.Position.Column
		}
		res.Canon = "err " + canonError(msg)
		return res
	}
	var dis bytes.Buffer
	prog.Disassemble(&dis)
	tables := prog.VerifResolverTables()
	return parse{Verdict: "ok", Canon: "ok cc=1 " + tables,
		Dump: "AST " + prog.VerifDumpAST(true) + "\nCOMPILED " + prog.VerifDumpCompiled() + "\nTABLES " + tables + "\nDISASM " + dis.String()}
}

// ---- a case: one source parsed many times ----

type kase struct {
	family  string
	src     string
	wire    string
	natives []Native
	nfuncs  int
	small   bool     // enumerate every oracle in the model
	fronts  []string // large programs: oracles that put this key first ("" = top level)
	parses  []parse
	itemOf  func(line int) string // which top-level item a source line belongs to
	// parser-stage sources (no resolver model): several candidates for one error that the
	// parser collects in a map; the error must be reported at the first of them
	parserStage bool
	expectRaw   string
	nparses     int
}

func (k *kase) run(n int) {
	k.parses = make([]parse, n)
	for i := range k.parses {
		k.parses[i] = parseOnce(k.src, k.natives)
	}
}

func distinctStrings(xs []string) []string {
	m := map[string]bool{}
	var out []string
	for _, x := range xs {
		if !m[x] {
			m[x] = true
			out = append(out, x)
		}
	}
	sort.Strings(out)
	return out
}

func (k *kase) detail(extra map[string]any) map[string]any {
	d := map[string]any{"kind": "parse", "family": k.family, "source": k.src, "wire": k.wire, "natives": k.natives, "parses": len(k.parses)}
	for a, b := range extra {
		d[a] = b
	}
	return d
}

// search oracle over the parses of one source (no model involved)
func (k *kase) searchOracle(rep *hx.Report) {
	rep.SearchEvals++
	var verdicts, raws, dumps []string
	counts := map[string]int{}
	for _, p := range k.parses {
		verdicts = append(verdicts, p.Verdict)
		key := p.Verdict
		if p.Verdict != "ok" {
			raws = append(raws, p.Raw)
			key = p.Raw
		} else {
			dumps = append(dumps, p.Dump)
		}
		counts[key]++
	}
	dv, dr, dd := distinctStrings(verdicts), distinctStrings(raws), distinctStrings(dumps)
	for _, p := range k.parses {
		if p.Verdict == "panic" {
			rep.Fail(hx.Failure{Class: "parse:panic", Oracle: "no-panic", Detail: k.detail(map[string]any{"panic": p.Raw})})
			return
		}
	}
	if len(dv) > 1 {
		class := "verdict-differs:other"
		iter := true
		for _, r := range dr {
			if !strings.Contains(r, "too many iterations trying to resolve variable types") {
				iter = false
			}
		}
		if iter {
			class = "verdict-differs:accepted-or-too-many-iterations(pass cut-off boundary)"
		}
		rep.Fail(hx.Failure{Class: class, Oracle: "verdict-equal-across-parses",
			Detail: k.detail(map[string]any{"expected": "one verdict", "got": counts})})
		return
	}
	if k.parserStage {
		for _, p := range k.parses {
			if p.Verdict != "err" || p.Raw != k.expectRaw {
				got := p.Raw
				if p.Verdict == "ok" {
					got = "accepted"
				}
				class := "parser-stage:unused-comma-list-error-not-at-the-first-candidate"
				if len(dr) > 1 {
					class = "parser-stage:unused-comma-list-error-position-differs-across-parses"
				}
				rep.Fail(hx.Failure{Class: class, Oracle: "error-is-at-the-first-candidate-in-every-parse",
					Detail: k.detail(map[string]any{"expected": k.expectRaw, "got": got, "all": counts})})
				return
			}
		}
		return
	}
	if len(dr) > 1 {
		// where are the different errors?  each top-level item of a generated source is on its own line
		items := map[string]bool{}
		lines := map[int]bool{}
		for _, p := range k.parses {
			if p.Verdict == "err" {
				lines[p.Line] = true
				if k.itemOf != nil {
					items[k.itemOf(p.Line)] = true
				}
			}
		}
		// (lines is used only to tell the two input classes apart)
		class := "error-differs:several-conflicts(some in one item or outside functions)"
		if k.itemOf != nil && len(items) == len(dr) && len(lines) == len(dr) && allFuncs(items) {
			class = "error-differs:one-error-per-function(in different functions)"
		}
		rep.Fail(hx.Failure{Class: class, Oracle: "error-text-equal-across-parses",
			Detail: k.detail(map[string]any{"expected": "one error text", "got": counts})})
		return
	}
	if len(dd) > 1 {
		a, b := sections(dd[0]), sections(dd[1])
		var diff []string
		for _, sec := range []string{"AST", "COMPILED", "TABLES", "DISASM"} {
			if a[sec] != b[sec] {
				diff = append(diff, sec)
			}
		}
		class := "program-differs:" + strings.Join(diff, "+")
		exp, got := dd[0], dd[1]
		if len(diff) == 1 && diff[0] == "DISASM" {
			// which lines differ?
			la, lb := strings.Split(a["DISASM"], "\n"), strings.Split(b["DISASM"], "\n")
			only := len(la) == len(lb)
			var ea, eb []string
			for i := 0; only && i < len(la); i++ {
				if la[i] != lb[i] {
					if !strings.Contains(la[i], "CallNative ") || !strings.Contains(lb[i], "CallNative ") {
						only = false
					}
					ea, eb = append(ea, strings.TrimSpace(la[i])), append(eb, strings.TrimSpace(lb[i]))
				}
			}
			if only {
				class = "disassembly-differs:function-name-shown-for-CallNative"
				exp, got = strings.Join(ea, "; "), strings.Join(eb, "; ")
			}
		}
		rep.Fail(hx.Failure{Class: class, Oracle: "program-equal-across-parses",
			Detail: k.detail(map[string]any{"expected": short(exp), "got": short(got)})})
	}
}

// sections of a dump made by parseOnce
func sections(d string) map[string]string {
	m := map[string]string{}
	marks := []string{"AST ", "\nCOMPILED ", "\nTABLES ", "\nDISASM "}
	pos := make([]int, len(marks)+1)
	for i, mk := range marks {
		pos[i] = strings.Index(d, mk)
		if pos[i] < 0 {
			return map[string]string{"AST": d}
		}
	}
	pos[len(marks)] = len(d)
	for i, mk := range marks {
		m[strings.TrimSpace(mk)] = d[pos[i]:pos[i+1]]
	}
	return m
}

func allFuncs(items map[string]bool) bool {
	for it := range items {
		if !strings.HasPrefix(it, "func ") {
			return false
		}
	}
	return true
}

// ---- generators specific to C19 ----

// itemOfSource: the same from the text (every top-level item of a generated source is one line)
func itemOfSource(src string) func(int) string {
	ls := strings.Split(src, "\n")
	return func(line int) string {
		if line < 1 || line > len(ls) {
			return "?"
		}
		l := ls[line-1]
		if strings.HasPrefix(l, "function ") {
			if i := strings.Index(l, "("); i > 0 {
				return "func " + strings.TrimSpace(l[len("function "):i])
			}
		}
		return "item"
	}
}

func itemOfProg(p *Prog) func(int) string {
	return func(line int) string {
		if line < 1 || line > len(p.Items) {
			return "?"
		}
		it := p.Items[line-1]
		if it.Kind == "func" {
			return "func " + it.Name
		}
		return it.Kind
	}
}

// kBad: n functions, the ones listed in bad contain their own type error
func kBad(n int, bad map[int]int, called bool, natives bool) *Prog {
	p := &Prog{Family: fmt.Sprintf("bad-%d-of-%d", len(bad), n)}
	if called {
		p.Family += "-called"
	}
	if natives {
		p.Natives = []Native{{"nat1", 1, false}, {"natv", 1, true}}
		p.Family += "-natives"
	}
	var calls []*Stmt
	for i := 0; i < n; i++ {
		name := fmt.Sprintf("f%d", i)
		q := fmt.Sprintf("p%d", i)
		body := []*Stmt{aUse(q, 1)}
		switch bad[i] {
		case 1: // can't use array as scalar
			body = append(body, sUse(q, 2))
		case 2: // undefined function
			body = append(body, call("nosuch", av(q)))
		case 3: // too many arguments
			body = append(body, call(name, av(q), av(q)))
		case 4: // can't pass array as scalar (native)
			if natives {
				body = append(body, call("nat1", av(q)))
			} else {
				body = append(body, sUse(q, 2))
			}
		}
		if natives && bad[i] == 0 {
			body = append(body, call("natv", ax("g"+name, 0), ak()))
		}
		p.Items = append(p.Items, fn(name, []string{q}, body...))
		calls = append(calls, call(name, av(fmt.Sprintf("arr%d", i))))
	}
	if called {
		p.Items = append(p.Items, begin(calls...))
	} else {
		p.Items = append(p.Items, begin(sUse("x", 2)))
	}
	return p
}

// globalsProg: accepted; the functions create globals in an order that depends on the walk
func globalsProg(n int, r *hx.Rand) *Prog {
	p := &Prog{Family: fmt.Sprintf("globals-%d", n)}
	var calls []*Stmt
	for i := 0; i < n; i++ {
		name := fmt.Sprintf("f%d", i)
		var body []*Stmt
		for j := 0; j < 3; j++ {
			v := fmt.Sprintf("%c%d_%d", 'z'-rune((i*7+j*3)%26), i, j)
			if (i+j)%2 == 0 {
				body = append(body, aUse(v, 1))
			} else {
				body = append(body, sUse(v, 2))
			}
		}
		if i+1 < n && r.Intn(3) > 0 {
			body = append(body, call(fmt.Sprintf("f%d", i+1), av("q")))
		}
		if i > 1 && r.Intn(4) == 0 {
			body = append(body, call(fmt.Sprintf("f%d", r.Intn(i)), av("q")))
		}
		body = append(body, sUse("shared", 1))
		p.Items = append(p.Items, fn(name, []string{"q"}, body...))
		if r.Intn(3) == 0 {
			calls = append(calls, call(name, av("top")))
		}
	}
	calls = append(calls, sUse("top", 2))
	p.Items = append(p.Items, begin(calls...))
	return p
}

// ring: f0(a){f1(a)} ... f(n-1)(a){ if (0) f0(z) }  BEGIN { x[1]=1; f0(x); f<h>(x) }
// (Model/Determinism.v ring_prog; written out as text because the renderer has no `if (0)`)
func ringCase(n, h int) *kase {
	var sb strings.Builder
	var w strings.Builder
	nm := func(i int) string { return fmt.Sprintf("f%03d", i) }
	fmt.Fprintf(&w, "N 0 F %d", n)
	for i := 0; i < n; i++ {
		if i+1 < n {
			fmt.Fprintf(&sb, "function %s(a) { %s(a) }\n", nm(i), nm(i+1))
			fmt.Fprintf(&w, " %s 1 %s 1 c %s 1 v %s", hx.HexS(nm(i)), hx.HexS("a"), hx.HexS(nm(i+1)), hx.HexS("a"))
		} else {
			fmt.Fprintf(&sb, "function %s(a) { if (0) %s(z) }\n", nm(i), nm(0))
			fmt.Fprintf(&w, " %s 1 %s 1 c %s 1 v %s", hx.HexS(nm(i)), hx.HexS("a"), hx.HexS(nm(0)), hx.HexS("z"))
		}
	}
	fmt.Fprintf(&sb, "BEGIN { x[1]=1; %s(x); %s(x) }\n", nm(0), nm(h))
	fmt.Fprintf(&w, " M 3 u %s 2 c %s 1 v %s c %s 1 v %s", hx.HexS("x"), hx.HexS(nm(0)), hx.HexS("x"), hx.HexS(nm(h)), hx.HexS("x"))
	return &kase{family: fmt.Sprintf("ring-%d-%d", n, h), src: sb.String(), wire: w.String(), nfuncs: n,
		fronts: []string{"", nm(n * 3 / 4), nm(n / 4)}}
}

// multiExprCases: sources with SEVERAL unused parenthesised comma lists - the one error
// candidate set the parser keeps in a map (parser.multiExprs, scanned by checkMultiExprs
// for the first position).  Candidates on different lines with the columns in both
// orders, on one line, inside functions / BEGIN / patterns / END, 2 to 5 of them, with
// used lists (print (a, b), (i, j) in arr) in between.  The expected position is computed
// here from the text: the first candidate in (line, column) order.
func multiExprCases(r *hx.Rand, nRandom int) []*kase {
	mk := func(name string, lines []string) *kase {
		src := strings.Join(lines, "\n") + "\n"
		// candidates: every "(" that opens a comma list not preceded by print/printf and not followed by " in "
		bestL, bestC := 0, 0
		for li, l := range lines {
			for ci := 0; ci < len(l); ci++ {
				if l[ci] != '(' || !strings.HasPrefix(l[ci:], "(1, 2)") {
					continue
				}
				if bestL == 0 {
					bestL, bestC = li+1, ci+1
				}
			}
		}
		return &kase{family: "parser-multiexpr-" + name, src: src, parserStage: true, nparses: 80,
			expectRaw: fmt.Sprintf("parse error at %d:%d: unexpected comma-separated expression", bestL, bestC)}
	}
	pad := func(n int) string { return strings.Repeat(" ", n) }
	var ks []*kase
	// two candidates, every relation of the columns, on different lines
	for _, cols := range [][2]int{{12, 2}, {2, 12}, {6, 6}, {7, 6}, {6, 7}} {
		ks = append(ks, mk(fmt.Sprintf("2-lines-cols-%d-%d", cols[0], cols[1]), []string{
			"BEGIN {", pad(cols[0]) + "a = (1, 2)", pad(cols[1]) + "b = (1, 2)", "}"}))
	}
	// on one line
	ks = append(ks, mk("1-line", []string{"BEGIN { a = (1, 2); b = (1, 2); c = (1, 2) }"}))
	// in different items, with used lists in between
	ks = append(ks, mk("items", []string{
		"function f(x) {", pad(20) + "return (1, 2)", "}",
		"$1 { print (3, 4); if ((5, 6) in arr) y = 1 }",
		"END {", pad(3) + "z = (1, 2)", pad(1) + "w = (1, 2) }"}))
	ks = append(ks, mk("desc-columns", []string{
		"BEGIN {", pad(30) + "a = (1, 2)", pad(20) + "b = (1, 2)", pad(10) + "c = (1, 2)", "d = (1, 2)", "}"}))
	for i := 0; i < nRandom; i++ {
		n := 2 + r.Intn(4)
		lines := []string{"BEGIN {"}
		for j := 0; j < n; j++ {
			l := pad(r.Intn(25)) + fmt.Sprintf("v%d = (1, 2)", j)
			if r.Intn(3) == 0 {
				l += fmt.Sprintf("; u%d = (1, 2)", j)
			}
			lines = append(lines, l)
			if r.Intn(3) == 0 {
				lines = append(lines, pad(r.Intn(10))+"print (7, 8)")
			}
		}
		lines = append(lines, "}")
		ks = append(ks, mk(fmt.Sprintf("random-%d", i), lines))
	}
	return ks
}

func progCase(p *Prog) *kase {
	k := &kase{family: p.Family, src: p.Source(), wire: p.Wire(), natives: p.Natives, nfuncs: len(p.funcs()), itemOf: itemOfProg(p)}
	k.small = k.nfuncs <= 4
	if !k.small {
		// a sample of "this function's key comes first in every map iteration"
		k.fronts = []string{""}
		fs := p.funcs()
		step := 1 + len(fs)/5
		for i := 0; i < len(fs); i += step {
			k.fronts = append(k.fronts, fs[i].Name)
		}
	}
	return k
}

// ---- model answers ----

func splitOutcomes(s string) []string {
	s = strings.TrimSpace(s)
	if s == "" {
		return nil
	}
	var out []string
	for _, x := range strings.Split(s, " | ") {
		out = append(out, strings.TrimSpace(x))
	}
	return out
}

type modelAns struct {
	all, reach []string
	exact      bool
	one        bool
	raw        string
}

func parseModel(k *kase, ans string) (modelAns, error) {
	m := modelAns{raw: ans}
	if k.small {
		parts := strings.Split(ans, " ;; ")
		if len(parts) != 3 || !strings.HasPrefix(parts[0], "all=") || !strings.HasPrefix(parts[1], "reach=") {
			return m, fmt.Errorf("bad model answer %q", ans)
		}
		m.all = splitOutcomes(strings.TrimPrefix(parts[0], "all="))
		m.reach = splitOutcomes(strings.TrimPrefix(parts[1], "reach="))
		m.exact = strings.Contains(parts[2], "exact=1")
		m.one = strings.Contains(parts[2], "one=1")
		return m, nil
	}
	if strings.HasPrefix(ans, "driver-error") || ans == "toolarge" {
		return m, fmt.Errorf("bad model answer %q", ans)
	}
	m.reach = splitOutcomes(ans)
	return m, nil
}

func contains(xs []string, x string) bool {
	for _, y := range xs {
		if x == y {
			return true
		}
	}
	return false
}

func short(s string) string {
	if len(s) > 1500 {
		return s[:1500] + "..."
	}
	return s
}

// correspondence of one case
func (k *kase) correspond(rep *hx.Report, m modelAns) {
	rep.CorrEvals++
	var canons []string
	for _, p := range k.parses {
		canons = append(canons, p.Canon)
	}
	impl := distinctStrings(canons)
	for _, c := range impl {
		if strings.HasPrefix(c, "err other ") {
			rep.Unmodelled++
			return
		}
	}
	nontrivial := strings.Contains(k.src, "(") && k.nfuncs > 0
	if nontrivial {
		rep.Distinct(k.src)
	}
	input := k.family + "\n" + k.src
	// (1) the model's own outcomes obey the theorems: one accepted result; accepted and
	// rejected together only through the cut-off
	check := m.reach
	if k.small {
		check = m.all
	}
	var oks, errs []string
	for _, o := range check {
		switch {
		case strings.HasPrefix(o, "ok "):
			oks = append(oks, o)
		case strings.HasPrefix(o, "err "):
			errs = append(errs, o)
		default:
			rep.Mismatch(hx.Mismatch{Class: "model-panic-or-fuel", Input: short(input), Impl: strings.Join(impl, " | "), Model: short(m.raw)})
			return
		}
	}
	if len(oks) > 1 {
		rep.Mismatch(hx.Mismatch{Class: "model-accepted-results-differ", Input: short(input), Impl: strings.Join(impl, " | "), Model: short(m.raw),
			Note: "contradicts C19_accepted_deterministic"})
		return
	}
	if len(oks) == 1 {
		for _, e := range errs {
			if e != "err iter" {
				rep.Mismatch(hx.Mismatch{Class: "model-verdict-differs", Input: short(input), Impl: strings.Join(impl, " | "), Model: short(m.raw),
					Note: "contradicts C19_verdict_deterministic_partial"})
				return
			}
		}
	}
	if k.small {
		for _, o := range m.reach {
			if !contains(m.all, o) {
				rep.Mismatch(hx.Mismatch{Class: "model-reach-not-in-all", Input: short(input), Impl: o, Model: short(m.raw),
					Note: "contradicts C19_outcome_enumerated"})
				return
			}
		}
		if m.one && len(errs) > 1 {
			rep.Mismatch(hx.Mismatch{Class: "model-one-error-wrong", Input: short(input), Model: short(m.raw)})
			return
		}
	}
	// (2) every outcome of the implementation is an outcome of the model
	for _, c := range impl {
		switch {
		case k.small && m.exact:
			if !contains(m.reach, c) {
				rep.Mismatch(hx.Mismatch{Class: "impl-outcome-unreachable-in-model", Input: short(input), Impl: short(c), Model: short(m.raw),
					Note: "every oracle enumerated"})
				return
			}
		case k.small:
			if !contains(m.all, c) {
				rep.Mismatch(hx.Mismatch{Class: "impl-outcome-not-among-all-orders", Input: short(input), Impl: short(c), Model: short(m.raw)})
				return
			}
			rep.Count("corr:oracle-enumeration-capped")
		default:
			if contains(m.reach, c) {
				continue
			}
			// sampled oracles only: an accepted result and the verdict are determined, an error is not
			if strings.HasPrefix(c, "ok ") || len(oks) > 0 && c != "err iter" || len(oks) == 0 && len(errs) > 0 && !strings.HasPrefix(c, "err ") {
				rep.Mismatch(hx.Mismatch{Class: "impl-outcome-differs-from-model(sampled oracles)", Input: short(input), Impl: short(c), Model: short(m.raw)})
				return
			}
			rep.Unmodelled++
			rep.Count("corr:error-outside-sampled-oracles")
		}
	}
	rep.Count(fmt.Sprintf("outcomes:impl=%d,model=%d", len(impl), len(m.reach)))
}

// since the repair of F-C19-1/2 the model of the implementation is a function (resolve
// sort_oracle): every parse must give exactly its outcome - verdict, error, all tables
func (k *kase) correspondDet(rep *hx.Report, ans string) {
	rep.CorrEvals++
	ans = strings.TrimSpace(ans)
	if strings.HasPrefix(ans, "driver-error") {
		rep.HarnessError("det: %s (family %s)", ans, k.family)
		return
	}
	for _, p := range k.parses {
		if strings.HasPrefix(p.Canon, "err other ") {
			rep.Unmodelled++
			return
		}
		if p.Canon != ans {
			rep.Mismatch(hx.Mismatch{Class: "impl-outcome-differs-from-model(sorted walk order)", Input: short(k.family + "\n" + k.src),
				Impl: short(p.Canon), Model: short(ans)})
			return
		}
	}
	rep.Count("det:equal")
}

var callNativeRe = regexp.MustCompile(`CallNative (\S+) \d+`)

// every name the implementation's disassembly shows after CallNative must be a name the
// model allows for some native index (model: Model/Determinism.v name_shown over every
// order of the function map)
func (k *kase) correspondNames(rep *hx.Report, ans string) {
	rep.CorrEvals++
	allowed := map[string]bool{}
	multi := false
	for _, f := range strings.Fields(ans) {
		kv := strings.SplitN(f, "=", 2)
		if len(kv) != 2 {
			rep.HarnessError("bad natnames answer %q", ans)
			return
		}
		ns := strings.Split(kv[1], ",")
		if len(ns) > 1 {
			multi = true
		}
		for _, n := range ns {
			if n != "none" {
				allowed[string(hx.UnHex(n))] = true
			}
		}
	}
	shown := map[string]bool{}
	var dis []string
	for _, p := range k.parses {
		if p.Verdict != "ok" {
			continue
		}
		d := sections(p.Dump)["DISASM"]
		dis = append(dis, d)
		for _, m := range callNativeRe.FindAllStringSubmatch(d, -1) {
			shown[m[1]] = true
		}
	}
	for n := range shown {
		if !allowed[n] {
			rep.Mismatch(hx.Mismatch{Class: "disassembly-name-not-allowed-by-model", Input: short(k.family + "\n" + k.src), Impl: n, Model: ans})
			return
		}
	}
	if !multi && len(distinctStrings(dis)) > 1 {
		rep.Mismatch(hx.Mismatch{Class: "disassembly-differs-but-model-deterministic", Input: short(k.family + "\n" + k.src), Impl: "several disassemblies", Model: ans})
		return
	}
	if multi {
		rep.Count("natnames:model-allows-several")
	} else {
		rep.Count("natnames:model-deterministic")
	}
}

// ---- shared execution ----

// (1) single goroutine, deterministic: a reflection-based deep fingerprint of everything
// reachable from the *parser.Program (unexported fields, slices up to capacity, maps,
// compiled regexes) before and after each execution
func fingerprintOracle(rep *hx.Report, dir string) {
	for _, w := range shared.Works() {
		rep.SearchEvals++
		step, gone, added, out, err := shared.FingerprintRun(w, dir)
		if err != nil {
			rep.HarnessError("shared workload %s: %v", w.Name, err)
			continue
		}
		if step != "" {
			rep.Fail(hx.Failure{Class: "shared-program:program-changed-by-execution", Oracle: "execution-leaves-the-program-unchanged(deep fingerprint)",
				Detail: map[string]any{"kind": "fingerprint", "work": w.Name, "program": w.Src, "input_hex": hx.HexS(w.Input), "data_hex": hx.HexS(w.Data),
					"mode": w.Mode, "changed_after": step, "expected": "fingerprint of the Program equal before and after",
					"got": map[string]any{"lines_only_before": gone, "lines_only_after": added}, "output": short(out)}})
			continue
		}
		rep.Count("fingerprint:" + w.Name + ":unchanged")
	}
}

// what a worker child prints (one JSON document) for one Work
type workerResult struct {
	Work      string `json:"work"`
	ParseErr  string `json:"parse_err,omitempty"`
	Execs     int    `json:"execs"`
	BadLabel  string `json:"bad_label,omitempty"`
	Reference string `json:"reference"`
	Got       string `json:"got,omitempty"`
	Changed   bool   `json:"changed"`
	Gone      []string `json:"gone,omitempty"`
	Added     []string `json:"added,omitempty"`
}

// workerMain: C19_WORKER=<work name> C19_WORKER_G=<goroutines> C19_WORKER_R=<rounds>: run the
// concurrent workload for one Work in THIS process and print the result.  A Go runtime fatal
// error (concurrent map writes, ...) cannot be recovered: it kills this child, not the harness.
func workerMain(name string) {
	g, _ := strconv.Atoi(os.Getenv("C19_WORKER_G"))
	rounds, _ := strconv.Atoi(os.Getenv("C19_WORKER_R"))
	dir, err := os.MkdirTemp("", "c19w")
	if err != nil {
		fmt.Println(`{"parse_err":"tempdir"}`)
		os.Exit(0)
	}
	defer os.RemoveAll(dir)
	for _, w := range shared.Works() {
		if w.Name != name {
			continue
		}
		res := shared.RunShared(w, dir, 3, g, rounds)
		out := workerResult{Work: w.Name, Execs: len(res.Outputs), Reference: res.Reference}
		if res.ParseErr != nil {
			out.ParseErr = res.ParseErr.Error()
		}
		for i, o := range res.Outputs {
			if o != res.Reference {
				out.BadLabel, out.Got = res.Labels[i], o
				break
			}
		}
		if res.SnapBefore != res.SnapAfter {
			out.Changed = true
		}
		out.Gone, out.Added = shared.FingerprintDiff(res.FpBefore, res.FpAfter, 12)
		if len(out.Gone)+len(out.Added) > 0 {
			out.Changed = true
		}
		b, _ := json.Marshal(out)
		os.Stdout.Write(b)
		os.RemoveAll(dir)
		os.Exit(0)
	}
	fmt.Println(`{"parse_err":"unknown work"}`)
	os.Exit(0)
}

// (2) one Program, several goroutines x (ExecProgram | New + Execute...), in a child process
func sharedOracle(rep *hx.Report, dir string, goroutines, rounds int) {
	self, err := os.Executable()
	if err != nil {
		rep.HarnessError("os.Executable: %v", err)
		return
	}
	for _, w := range shared.Works() {
		rep.SearchEvals++
		d := map[string]any{"kind": "shared", "work": w.Name, "program": w.Src, "input_hex": hx.HexS(w.Input), "data_hex": hx.HexS(w.Data),
			"mode": w.Mode, "goroutines": goroutines, "rounds": rounds}
		cmd := exec.Command(self)
		cmd.Env = append(os.Environ(), "C19_WORKER="+w.Name, fmt.Sprintf("C19_WORKER_G=%d", goroutines), fmt.Sprintf("C19_WORKER_R=%d", rounds))
		var stdout, stderr bytes.Buffer
		cmd.Stdout, cmd.Stderr = &stdout, &stderr
		done := make(chan error, 1)
		if err := cmd.Start(); err != nil {
			rep.HarnessError("cannot start worker: %v", err)
			return
		}
		go func() { done <- cmd.Wait() }()
		var werr error
		select {
		case werr = <-done:
		case <-time.After(120 * time.Second):
			cmd.Process.Kill()
			<-done
			werr = fmt.Errorf("worker still running after 120 s")
		}
		var res workerResult
		if werr != nil || json.Unmarshal(stdout.Bytes(), &res) != nil {
			// the child died: a runtime fatal error (or a hang) while several interpreters ran one Program
			msg := stderr.String()
			if i := strings.Index(msg, "fatal error:"); i >= 0 {
				msg = msg[i:]
			}
			d["expected"], d["got"] = "every execution ends and the worker reports its outputs", fmt.Sprintf("worker: %v\n%s", werr, short(msg))
			rep.Fail(hx.Failure{Class: "shared-program:runtime-fatal-error-in-concurrent-executions", Oracle: "concurrent-executions-of-one-program-complete", Detail: d})
			continue
		}
		if res.ParseErr != "" {
			rep.HarnessError("shared workload %s: %s", w.Name, res.ParseErr)
			continue
		}
		if strings.Contains(res.Reference, "ERROR:") || strings.Contains(res.Reference, "PANIC:") {
			// the workload itself is valid AWK: an error here comes from the interpreter under
			// test; the comparison below still applies (all executions must agree with it)
			rep.Count("shared:reference-execution-ended-in-error")
		}
		switch {
		case res.BadLabel != "":
			d["execution"], d["expected"], d["got"] = res.BadLabel, res.Reference, res.Got
			rep.Fail(hx.Failure{Class: "shared-program:output-differs-from-single-execution", Oracle: "executions-of-one-program-equal-single-execution", Detail: d})
		case res.Changed:
			d["expected"], d["got"] = "Program equal before and after the executions", map[string]any{"lines_only_before": res.Gone, "lines_only_after": res.Added}
			rep.Fail(hx.Failure{Class: "shared-program:program-changed-by-execution", Oracle: "program-snapshot-equal-before-and-after", Detail: d})
		}
		rep.Count(fmt.Sprintf("shared:%s:executions=%d", w.Name, res.Execs))
	}
}

// thorough tier: the same workload under the race detector
func raceOracle(rep *hx.Report) {
	rep.SearchEvals++
	root, _ := os.Getwd()
	hdir := filepath.Join(root, "harness")
	if _, err := os.Stat(filepath.Join(hdir, "c19", "racer", "main.go")); err != nil {
		rep.Count("race:skipped(harness sources not found from cwd)")
		return
	}
	bin := filepath.Join(os.TempDir(), fmt.Sprintf("c19_racer_%d", os.Getpid()))
	defer os.Remove(bin)
	args := []string{"build", "-race", "-tags", "verif"}
	if repo := os.Getenv("VERIF_REPO"); repo != "" && repo != "/repo" {
		args = append(args, "-modfile="+filepath.Join(root, "work", "go.alt.mod"))
	}
	args = append(args, "-o", bin, "./c19/racer")
	cmd := exec.Command("go", args...)
	cmd.Dir = hdir
	cmd.Env = append(os.Environ(), "CGO_ENABLED=1", "GOFLAGS=-mod=mod", "GOPROXY=off", "GOSUMDB=off", "GOTOOLCHAIN=local")
	if out, err := cmd.CombinedOutput(); err != nil {
		// no race runtime / no C toolchain in this environment: say so, do not fail
		rep.Count("race:unavailable(go build -race failed)")
		rep.Sample(map[string]any{"race_build_error": short(string(out))})
		return
	}
	run := exec.Command(bin, "8", "4")
	run.Env = append(os.Environ(), "GORACE=halt_on_error=0 exitcode=66")
	out, err := run.CombinedOutput()
	text := string(out)
	switch {
	case strings.Contains(text, "WARNING: DATA RACE"):
		i := strings.Index(text, "WARNING: DATA RACE")
		rep.Fail(hx.Failure{Class: "shared-program:data-race", Oracle: "race-detector-clean",
			Detail: map[string]any{"kind": "race", "expected": "no race report", "got": short(text[i:])}})
	case err != nil:
		rep.Fail(hx.Failure{Class: "shared-program:output-differs-from-single-execution", Oracle: "executions-of-one-program-equal-single-execution",
			Detail: map[string]any{"kind": "race", "expected": "racer exits 0", "got": short(text)}})
	default:
		rep.Count("race:clean")
	}
}

// ---- main ----

const parsesPerSource = 30

func buildCases(o hx.Opts, r *hx.Rand) []*kase {
	var ks []*kase
	add := func(p *Prog) { ks = append(ks, progCase(p)) }
	// the two witnesses of Properties/C19.v, as the model has them
	two := &Prog{Family: "two-bad(witness)"}
	two.Items = []Item{fn("f", []string{"a"}, aUse("a", 1), sUse("a", 2)), fn("g", []string{"b"}, aUse("b", 1), sUse("b", 2)), begin()}
	add(two)
	// systematic: k erroneous functions among n, uncalled / called from BEGIN, kinds of error, natives
	for n := 1; n <= 4; n++ {
		for mask := 0; mask < 1<<n; mask++ {
			for _, called := range []bool{false, true} {
				bad := map[int]int{}
				for i := 0; i < n; i++ {
					if mask>>i&1 == 1 {
						bad[i] = 1 + (i+mask)%4
					}
				}
				add(kBad(n, bad, called, mask%3 == 0))
			}
		}
	}
	// sibling leaf functions called only from BEGIN (the call graph has a single caller),
	// each with a plain type error: the order of the callees of one node decides
	for n := 2; n <= 4; n++ {
		for first := 0; first < n-1; first++ {
			bad := map[int]int{}
			for i := first; i < n; i++ {
				bad[i] = 1
			}
			p := kBad(n, bad, true, false)
			p.Family = fmt.Sprintf("leaf-siblings-%d-bad-from-%d", n, first)
			add(p)
		}
	}
	for _, p := range systematic() {
		if len(p.funcs()) <= 4 {
			add(p)
		}
	}
	nRandom := o.N
	if nRandom == 0 {
		nRandom = 300
		if o.Tier == "thorough" {
			nRandom = 12000
		}
	}
	for i := 0; i < nRandom; i++ {
		add(randomProg(r, 1+r.Intn(4), i%2 == 1, false))
	}
	// large programs
	nLarge := 6
	if o.Tier == "thorough" {
		nLarge = 60
	}
	for i := 0; i < nLarge; i++ {
		add(globalsProg(12+r.Intn(30), r))
		n := 10 + r.Intn(25)
		bad := map[int]int{}
		for j := 0; j < 1+i%4; j++ {
			bad[r.Intn(n)] = 1 + r.Intn(4)
		}
		kb := progCase(kBad(n, bad, i%2 == 0, i%3 == 0))
		kb.fronts = []string{""}
		for j := range bad { // each erroneous function first: every error the map order can select
			kb.fronts = append(kb.fronts, fmt.Sprintf("f%d", j))
		}
		sort.Strings(kb.fronts)
		ks = append(ks, kb)
		add(randomProg(r, 6+r.Intn(10), false, false))
	}
	add(chain(60, "caller", TArray, TArray, false))
	add(chain(99, "caller", TArray, TArray, true))
	// the cut-off boundary (F-C19-2): accepted or "too many iterations" depending on where topoSort starts
	ks = append(ks, ringCase(200, 99))
	ks = append(ks, ringCase(40, 19))
	nMulti := 4
	if o.Tier == "thorough" {
		nMulti = 60
	}
	ks = append(ks, multiExprCases(r, nMulti)...)
	return ks
}

func main() {
	if w := os.Getenv("C19_WORKER"); w != "" {
		workerMain(w)
		return
	}
	if f := os.Getenv("C19_FRESH"); f != "" {
		historyFreshMain(f)
		return
	}
	o := hx.ParseFlags()
	if o.Replay != "" {
		os.Exit(replay(o))
	}
	rep := hx.NewReport("C19", o.Seed, o.Tier)
	rep.Rule = "sources: the two witnesses; every subset of 1..4 functions erroneous (4 kinds of error, called from BEGIN or not, with/without native functions); C16's systematic families with <= 4 functions; random programs over small name pools (plain and hostile); large programs (12-40 functions with walk-order dependent creation of globals, 10-35 functions with 1-4 erroneous ones, long chains, the 200-function ring at the pass cut-off); each source parsed 30 times; parser-stage sources with 2-5 unused parenthesised comma lists (the candidate set parser.multiExprs) on different lines with the columns in both orders, on one line, across items, each parsed 80 times. distinct = distinct AWK source; non-trivial = has a function and a call or parameter list"
	r := hx.NewRand(o.Seed)
	historyOracle(rep, o.Tier == "thorough")
	ks := buildCases(o, r)
	t0 := time.Now()
	lap := func(what string) {
		if os.Getenv("C19_TIMING") != "" {
			fmt.Fprintf(os.Stderr, "c19: %-28s %6.1fs\n", what, time.Since(t0).Seconds())
		}
		t0 = time.Now()
	}

	var reqs, detReqs []string
	var detCases []*kase
	capRuns := 3000
	if o.Tier == "thorough" {
		capRuns = 40000
	}
	for _, k := range ks {
		n := parsesPerSource
		if strings.HasPrefix(k.family, "ring-200") {
			n = 40
		}
		if k.nparses > 0 {
			n = k.nparses
		}
		k.run(n)
		k.searchOracle(rep)
		rep.Count("family:" + strings.SplitN(k.family, "-", 2)[0])
		if k.parserStage {
			reqs = append(reqs, "")
			continue
		}
		detReqs = append(detReqs, "det "+k.wire)
		detCases = append(detCases, k)
		if k.small {
			reqs = append(reqs, fmt.Sprintf("outcomes %d %s", capRuns, k.wire))
		} else {
			var fs []string
			for _, f := range k.fronts {
				fs = append(fs, hx.HexS(f))
			}
			seeds := 3
			if strings.HasPrefix(k.family, "ring-200") {
				seeds = 0
			}
			reqs = append(reqs, fmt.Sprintf("fronts %d %d %s %s", seeds, len(fs), strings.Join(fs, " "), k.wire))
		}
	}
	lap("parses + search oracle")
	// the names the disassembler may show for native calls (programs with Go functions)
	var natCases []*kase
	var natReqs []string
	for _, k := range ks {
		if len(k.natives) > 0 && k.parses[0].Verdict == "ok" {
			natCases = append(natCases, k)
			natReqs = append(natReqs, "natnames "+k.wire)
		}
	}
	if natAns, err := hx.ModelEval(o.ModelRun, natReqs); err != nil {
		rep.HarnessError("modelrun natnames: %v", err)
	} else {
		for i, k := range natCases {
			k.correspondNames(rep, natAns[i])
		}
	}
	lap("model natnames")
	if f := os.Getenv("C19_DUMPREQS"); f != "" {
		os.WriteFile(f, []byte(strings.Join(reqs, "\n")+"\n"), 0o644)
	}
	// THE outcome of the implementation: the generic resolver under the sorted order
	if detAns, err := hx.ModelEval(o.ModelRun, detReqs); err != nil {
		rep.HarnessError("modelrun det: %v", err)
	} else {
		for i, k := range detCases {
			k.correspondDet(rep, detAns[i])
		}
	}
	lap("model det")
	var mks []*kase
	var mreqs []string
	for i, k := range ks {
		if reqs[i] != "" {
			mks = append(mks, k)
			mreqs = append(mreqs, reqs[i])
		}
	}
	answers, err := hx.ModelEval(o.ModelRun, mreqs)
	lap("model outcomes")
	if err != nil {
		rep.HarnessError("modelrun: %v", err)
	} else {
		for i, k := range mks {
			m, err := parseModel(k, answers[i])
			if err != nil {
				rep.HarnessError("%v (family %s)", err, k.family)
				continue
			}
			k.correspond(rep, m)
			if i < 4 {
				rep.Sample(map[string]any{"family": k.family, "source": k.src, "model": short(answers[i]), "impl": k.parses[0].Canon})
			}
		}
	}

	lap("correspondence")
	dir, err := os.MkdirTemp("", "c19")
	if err != nil {
		rep.HarnessError("tempdir: %v", err)
	} else {
		defer os.RemoveAll(dir)
		g, rounds, reps := 8, 2, 2
		if o.Tier == "thorough" {
			g, rounds, reps = 16, 4, 25
		}
		fingerprintOracle(rep, dir)
		for i := 0; i < reps; i++ {
			sharedOracle(rep, dir, g, rounds)
		}
	}
	lap("shared execution")
	if o.Tier == "thorough" {
		raceOracle(rep)
		lap("race detector")
	} else {
		rep.Count("race:not-run-in-quick-tier")
	}
	rep.Write(o.Out)
}

// ---- replay ----

func replay(o hx.Opts) int {
	b, err := os.ReadFile(o.Replay)
	if err != nil {
		fmt.Println("replay:", err)
		return 2
	}
	var doc struct {
		Failure hx.Failure `json:"failure"`
	}
	if err := json.Unmarshal(b, &doc); err != nil || doc.Failure.Detail == nil {
		var f hx.Failure
		if err2 := json.Unmarshal(b, &f); err2 != nil || f.Detail == nil {
			fmt.Println("replay: cannot read a failure from", o.Replay)
			return 2
		}
		doc.Failure = f
	}
	d := doc.Failure.Detail
	rep := hx.NewReport("C19", o.Seed, "replay")
	switch d["kind"] {
	case "parse":
		k := &kase{family: fmt.Sprint(d["family"]), src: fmt.Sprint(d["source"])}
		k.itemOf = itemOfSource(k.src)
		if strings.HasPrefix(k.family, "parser-multiexpr") {
			k.parserStage, k.expectRaw = true, fmt.Sprint(d["expected"])
		}
		if ns, ok := d["natives"].([]any); ok {
			for _, x := range ns {
				if m, ok := x.(map[string]any); ok {
					n := Native{Name: fmt.Sprint(m["Name"])}
					if v, ok := m["In"].(float64); ok {
						n.In = int(v)
					}
					n.Variadic, _ = m["Variadic"].(bool)
					k.natives = append(k.natives, n)
				}
			}
		}
		n := 200
		k.run(n)
		k.searchOracle(rep)
		counts := map[string]int{}
		for _, p := range k.parses {
			if p.Verdict == "ok" {
				counts["ok"]++
			} else {
				counts[p.Raw]++
			}
		}
		fmt.Printf("replay: %d parses of\n%s\nexpected: one outcome\ngot: %v\n", n, k.src, counts)
	case "history":
		return replayHistory(d)
	case "fingerprint":
		dir, _ := os.MkdirTemp("", "c19")
		defer os.RemoveAll(dir)
		fingerprintOracle(rep, dir)
	case "shared", "race":
		dir, _ := os.MkdirTemp("", "c19")
		defer os.RemoveAll(dir)
		for i := 0; i < 10; i++ {
			sharedOracle(rep, dir, 16, 4)
		}
		if d["kind"] == "race" {
			wd, _ := os.Getwd()
			fmt.Println("replay: race detector run from", wd)
			raceOracle(rep)
		}
	default:
		fmt.Println("replay: unknown kind", d["kind"])
		return 2
	}
	for _, f := range rep.Failures {
		fmt.Printf("replay: STILL FAILS class=%q oracle=%q\n", f.Class, f.Oracle)
		if e, ok := f.Detail["expected"]; ok {
			fmt.Printf("  expected: %v\n  got: %v\n", e, f.Detail["got"])
		}
	}
	if len(rep.Failures) > 0 {
		return 1
	}
	fmt.Println("replay: no failure reproduced")
	return 0
}
