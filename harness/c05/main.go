// C05 harness: number/string conversion and comparison typing.
//
// Correspondence: the implementation (verif exports of interp/value.go, and
// end-to-end probe programs run through the public API with the value under
// test in each provenance) against the extracted Coq model.
// Search: the property's own equations evaluated on the implementation's
// results only (coherence of the two string->number routines, consistency of
// the six operators, comparison mode, exact integer printing); written with
// Go's regexp/strconv/math/big, independently of the model.
package main

import (
	"encoding/json"
	"fmt"
	"math"
	"math/big"
	"os"
	"regexp"
	"strconv"
	"strings"
	"unicode"
	"unicode/utf8"

	"github.com/benhoyt/goawk/interp"
	"github.com/benhoyt/goawk/parser"
	"verif/harness/hx"
)

// ---------------------------------------------------------------- inputs

var alphabet = []string{"0", "1", "9", "+", "-", ".", "e", "E", "x", "X", "a", "f", "p", "n", "i", "_", " ", "\t", "\xc2\xa0"}

// curated strings: every branch of parseFloat / parseFloatPrefix / readFloat / special
var textPool = []string{
	"", " ", "0", "1", "12", "-12", "+12", " 12 ", "\t12\n", "12\v", "\f12\r", "1.5", ".5", "5.", ".", "-.", "+.5e1", "1e5", "1E5", "1e+5", "1e-5", "1e", "1e+", "1e5x", "1ee5",
	"1.5.2", "1..5", "0x", "0X", "0x1", "0X1a", "0x1A", "0x.8", "0x.", "0x1.", "0x1.8p1", "0x1p", "0x1p+", "0x1p-2", "0x1P3", "0xg", "0x1g", "-0x10", "+0x10", "0x1e5", "0x1p5x",
	"nan", "NaN", "+nan", "-nan", "+NAN", "nanx", "nan ", " nan", "++nan", "+nann", "na", "inf", "Inf", "+inf", "-inf", "-INF", "infinity", "-Infinity", "+InFiNiTy", "infin", "infinit", "infinityx", "in", "-in", "inf ", "infx",
	"1_0", "1_000", "_1", "1_", "0x_1", "0x1_0", "1e1_0", "1__0", "1_.5", "0_1",
	"1e400", "-1e400", "1e309", "1.7976931348623157e308", "1.7976931348623158e308", "1.7976931348623159e308", "0x1p1024", "0x1p1023", "0x1.fffffffffffff8p1023", "0x1.fffffffffffff7p1023", "-0x1p99999", "1e99999", "1e100000", "1e-400", "1e-99999", "4.9e-324", "2.4703282292062327e-324", "2.4703282292062328e-324", "0x1p-1075", "0x1.000001p-1075", "0x1p-1074",
	"9007199254740992", "9007199254740993", "9007199254740994", "-9007199254740993", "9223372036854775807", "9223372036854775808", "-9223372036854775808", "-9223372036854775809", "18446744073709551616",
	"123456789012345678901234567890", "0.1", "0.2", "0.30000000000000004", "1.0", "01", "001.500", "1.50", "+1", "- 1", "+-1", "--1", "1 2", "1,2", "abc", "a1", "1a", " a", "-", "+", "e5", ".e5", "1.e5", "1.e", "0e0", "0.0", "-0", "-0.0", "00", "1e0", "1e00005",
	"\xc2\xa012", "12\xc2\xa0", "\xc2\xa0", "\xc2\xa0 12", " \xc2\xa012", "12 \xc2\xa0", "\xc2\x8512", "\xe1\x9a\x8012", "\xe2\x80\x8012", "12\xe2\x80\x8a", "\xe2\x80\xa812", "\xe2\x80\xa912", "\xe2\x80\xaf12", "\xe2\x81\x9f12", "\xe3\x80\x8012", "12\xe3\x80\x80", "\xe2\x80\x8b12", "\xa012", "12\xa0", "\xc212", "12\xc2", "\xe3\x8012", "12\x80\x80", "12\xe3\x80", "\xff12", "12\xff", "\xc2\xa0nan", "\xc2\xa00x1", "\xc2\xa01e400",
	"1.5foo", "12abc", " +1.5e3xyz", "3 4", "0x1Fzz", "١٢", "１２", "1e٥", "1\x00", "12\x0012",
}

var numPool = []float64{
	0, 1, -1, 2, 10, 12, 0.5, -0.5, 1.5, 0.1, 0.2, 0.1 + 0.2, 1e5, 1e6, 1e-5, 1e-4, 123456, 1234567, 123456.5, 999999.5, 999999.4, 99999.95, 0.000123456, 0.0001, 0.00001, 100000, 1e15, 1e16, 1e17, 1e21, 1e22, 1e100, 1e300, 1e-300,
	9007199254740991, 9007199254740992, 9007199254740994, -9007199254740992, 4503599627370496.5, 9223372036854774784, 9223372036854775808, -9223372036854775808, -9223372036854777856, 18446744073709551616, 1e19, -1e19, 1e30, -1e30,
	4294967296, 2147483648, -2147483649, 1 << 40, 0.25, 0.125, 2.5, 3.5, 1.25, 1.75, 0.0625, 2.25e-5, 6.103515625e-05, 5e-324, 1e-323, 2.2250738585072014e-308, 1.7976931348623157e308, math.Inf(1), math.Inf(-1), math.NaN(),
	1.0000005, 1.00000049, 1.0000015, 12345.65, 0.99999949999, 0.9999995, 9.9999995e-5, 9.999995e-5, 26, 485, 8, 32, 1500, -1250, 3.0000000000000004, 1e5 + 0.5,
}

var fmtPool = []string{"%.6g", "%.6g", "%.6g", "%.3g", "%.10g", "%.17g", "%.1g", "%.0g", "%.g", "%.30g", "%.2f", "%d", "%g", "%s", "%.6G", "x%.6g", "%.6e", "%.1234g", ""}

func isAsciiBlank(c byte) bool {
	return c == ' ' || c == '\t' || c == '\n' || c == '\v' || c == '\f' || c == '\r'
}

func asciiTrim(s string) string {
	for len(s) > 0 && isAsciiBlank(s[0]) {
		s = s[1:]
	}
	for len(s) > 0 && isAsciiBlank(s[len(s)-1]) {
		s = s[:len(s)-1]
	}
	return s
}

// the AWK numeric grammar goawk means to implement (value.go comments): optional sign,
// decimal with optional exponent, hex float with optional binary exponent, nan, inf, infinity.
var reNumeric = regexp.MustCompile(`^[+-]?((?i:nan|inf|infinity)|([0-9]+\.?[0-9]*|\.[0-9]+)([eE][+-]?[0-9]+)?|0[xX]([0-9a-fA-F]+\.?[0-9a-fA-F]*|\.[0-9a-fA-F]+)([pP][+-]?[0-9]+)?)$`)
var reHexNoExp = regexp.MustCompile(`^[+-]?0[xX][0-9a-fA-F.]+$`)

func looksNumeric(s string) bool { return reNumeric.MatchString(asciiTrim(s)) }

// maybeNumeric: since the repair of F-C05-1 (parseFloat trims ASCII blanks only) there is no gap
// any more between "numeric after trimming Unicode blanks" and "numeric after trimming ASCII
// blanks": text with a non-ASCII blank at an edge must be treated as a string everywhere.
func maybeNumeric(s string) bool { return looksNumeric(s) }

// the double a numeric-looking text denotes, by strconv (correctly rounded)
func numericValue(s string) float64 {
	t := asciiTrim(s)
	if reHexNoExp.MatchString(t) {
		t += "p0"
	}
	u := strings.ToLower(strings.TrimLeft(t, "+-"))
	if u == "nan" {
		return math.NaN()
	}
	f, _ := strconv.ParseFloat(t, 64)
	return f
}

func mayBeNaN(s string) bool { return strings.Contains(strings.ToLower(s), "nan") }

// exact value overflow of a numeric-looking text, decided by strconv (not by goawk, not by the model)
func overflows(s string) bool {
	t := asciiTrim(s)
	if !reNumeric.MatchString(t) {
		return false
	}
	if reHexNoExp.MatchString(t) {
		t += "p0"
	}
	_, err := strconv.ParseFloat(t, 64)
	if ne, ok := err.(*strconv.NumError); ok && ne.Err == strconv.ErrRange {
		return true
	}
	return false
}

func hasNonASCIIBlankEdge(s string) bool {
	t := asciiTrim(s)
	return strings.TrimSpace(t) != t
}

// input class of a text (specific enough that different bugs get different classes)
func textClass(s string) string {
	switch {
	case hasNonASCIIBlankEdge(s) && looksNumeric(strings.TrimSpace(s)):
		return "numeric text with a leading/trailing non-ASCII Unicode blank"
	case hasNonASCIIBlankEdge(s):
		return "non-numeric text with a non-ASCII Unicode blank at an edge"
	case overflows(s):
		return "numeric text whose value is beyond the double range"
	case strings.Contains(s, "_"):
		return "text with underscore"
	case !looksNumeric(s):
		return "non-numeric text"
	}
	t := strings.ToLower(asciiTrim(s))
	switch {
	case strings.Contains(t, "nan"), strings.Contains(t, "inf"):
		return "nan/inf text"
	case strings.Contains(t, "0x"):
		return "hex text"
	}
	return "decimal text"
}

func numClass(f float64) string {
	switch {
	case f != f:
		return "nan"
	case math.IsInf(f, 0):
		return "inf"
	case f == math.Trunc(f) && math.Abs(f) < 9223372036854775808.0:
		return "integer in int64 range"
	case f == math.Trunc(f):
		return "integer beyond int64"
	}
	return "non-integer"
}

// ---------------------------------------------------------------- part 1: hooks on strings

func implPF(s string) string {
	f, k := interp.VerifC05ParseFloat(s)
	switch k {
	case "ok":
		return "ok " + hx.FCanon(f)
	case "range":
		return "range " + hx.FCanon(f)
	}
	return k
}

func implPFP(s string) (out string) {
	defer func() {
		if r := recover(); r != nil {
			out = "panic"
		}
	}()
	return "ok " + hx.FCanon(interp.VerifC05ParseFloatPrefix(s))
}

func enumerate(maxLen int, f func(string)) {
	var rec func(prefix string, n int)
	rec = func(prefix string, n int) {
		f(prefix)
		if n == 0 {
			return
		}
		for _, a := range alphabet {
			rec(prefix+a, n-1)
		}
	}
	rec("", maxLen)
}

var randAlpha = []string{"0", "1", "2", "5", "9", "9", "0", "+", "-", ".", ".", "e", "E", "x", "X", "a", "f", "F", "p", "P", "n", "i", "N", "A", "I", "t", "y", "_", " ", "\t", "\n", "\r", "\v", "\f", "\xc2\xa0", "\xc2\x85", "\xe2\x80\x83", "\xe3\x80\x80", "\xa0", "\xc2", "\xe2\x80", "z", ",", "0x", "inf", "nan", "infinity", "e+", "e-", "p-", "00000", "99999"}

// moderate: only numbers of moderate magnitude (the probes evaluate each text ~50 times in
// the model; extreme exponents are covered once each through the hooks)
func randText(r *hx.Rand, moderate bool) string {
	switch r.Intn(10) {
	case 0:
		return r.Pick(textPool)
	case 1, 2, 3:
		// a formatted number with decoration
		f := r.PickF(numPool)
		if r.Bool() {
			f = math.Float64frombits(r.U64())
		}
		if moderate && (math.Abs(f) > 1e25 || math.Abs(f) < 1e-25) && r.Intn(20) != 0 {
			f = float64(int64(r.U64()>>uint(11+r.Intn(53)))) / float64(int64(1)<<uint(r.Intn(30)))
		}
		var t string
		switch r.Intn(5) {
		case 0:
			t = strconv.FormatFloat(f, 'g', -1, 64)
		case 1:
			t = strconv.FormatFloat(f, 'e', r.Intn(20), 64)
		case 2:
			t = strconv.FormatFloat(f, 'f', r.Intn(8), 64)
			if len(t) > 400 {
				t = t[:400]
			}
			if moderate && len(t) > 40 {
				t = t[:40]
			}
		case 3:
			t = strconv.FormatFloat(f, 'x', -1, 64)
		default:
			t = strconv.FormatInt(int64(r.U64()>>uint(r.Intn(64))), 10)
		}
		pre := []string{"", "", " ", "\t", "+", " +", "\xc2\xa0", "\n"}
		suf := []string{"", "", " ", "\n", "x", " x", "\xc2\xa0", "e", "_1", ".", "p0", "e400"}
		return r.Pick(pre) + t + r.Pick(suf)
	default:
		n := 1 + r.Intn(9)
		var sb strings.Builder
		for i := 0; i < n; i++ {
			sb.WriteString(r.Pick(randAlpha))
		}
		return sb.String()
	}
}

// ---------------------------------------------------------------- part 3: probes

type operand struct {
	Kind string // "null" | "num" | "str" (computed string) | "text" (string in the probe's provenance)
	S    string
	F    float64
}

func (o operand) wire(prov string) string {
	switch o.Kind {
	case "null":
		return "null"
	case "num":
		return "n:" + hx.FBits(o.F)
	case "str":
		return "s:" + hx.HexS(o.S)
	}
	return "p:" + prov + ":" + hx.HexS(o.S)
}

func (o operand) detail() map[string]any {
	return map[string]any{"kind": o.Kind, "s_hex": hx.HexS(o.S), "f_bits": hx.FBits(o.F), "s": strconv.Quote(o.S), "f": fmt.Sprint(o.F)}
}

func operandFromDetail(m map[string]any) operand {
	var o operand
	o.Kind, _ = m["kind"].(string)
	if h, ok := m["s_hex"].(string); ok {
		o.S = string(hx.UnHex(h))
	}
	if b, ok := m["f_bits"].(string); ok {
		u, _ := strconv.ParseUint(b, 10, 64)
		o.F = math.Float64frombits(u)
	}
	return o
}

type probe struct {
	Prov   string
	L, R   operand
	CF, OF string
}

func (p probe) line() string {
	return fmt.Sprintf("probe %s %s %s %s", hx.HexS(p.CF), hx.HexS(p.OF), p.L.wire(p.Prov), p.R.wire(p.Prov))
}

var provs = []string{"const", "computed", "field", "getline", "split", "argv", "environ", "var"}

const awkCommon = `
function probe(id, l, r,    o, k) {
  o = (l == r) (l != r) (l < r) (l > r) (l <= r) (l >= r) (r < l) (r > l) " "
  if (l == r) o = o "1"; else o = o "0"
  if (l != r) o = o "1"; else o = o "0"
  if (l < r) o = o "1"; else o = o "0"
  if (l > r) o = o "1"; else o = o "0"
  if (l <= r) o = o "1"; else o = o "0"
  if (l >= r) o = o "1"; else o = o "0"
  o = o " " ((l == r) ? 1 : 0) ((l != r) ? 1 : 0) ((l < r) ? 1 : 0) ((l > r) ? 1 : 0) ((l <= r) ? 1 : 0) ((l >= r) ? 1 : 0)
  o = o " "
  k = 0; do { k++; if (k > 1) break } while (l == r); o = o (k - 1)
  k = 0; do { k++; if (k > 1) break } while (l != r); o = o (k - 1)
  k = 0; do { k++; if (k > 1) break } while (l < r); o = o (k - 1)
  k = 0; do { k++; if (k > 1) break } while (l > r); o = o (k - 1)
  k = 0; do { k++; if (k > 1) break } while (l <= r); o = o (k - 1)
  k = 0; do { k++; if (k > 1) break } while (l >= r); o = o (k - 1)
  o = o " "
  k = 0; while (l == r) { k++; if (k > 1) break }; o = o k
  k = 0; while (l != r) { k++; if (k > 1) break }; o = o k
  k = 0; while (l < r) { k++; if (k > 1) break }; o = o k
  k = 0; while (l > r) { k++; if (k > 1) break }; o = o k
  k = 0; while (l <= r) { k++; if (k > 1) break }; o = o k
  k = 0; while (l >= r) { k++; if (k > 1) break }; o = o k
  o = o " "
  for (k = 0; l == r; ) { k++; if (k > 1) break }; o = o k
  for (k = 0; l != r; ) { k++; if (k > 1) break }; o = o k
  for (k = 0; l < r; ) { k++; if (k > 1) break }; o = o k
  for (k = 0; l > r; ) { k++; if (k > 1) break }; o = o k
  for (k = 0; l <= r; ) { k++; if (k > 1) break }; o = o k
  for (k = 0; l >= r; ) { k++; if (k > 1) break }; o = o k
  o = o " " (!l) (l ? 1 : 0) (l == l + 0)
  printf "%s", "@" id " " o " " F(l + 0) " " H(l "") " " H(r "") " "
  if (LK(id) == 1) print l; else print "-"
}
function run(id, l, r2,    u, lk, rk) {
  lk = LK(id); rk = RK(id)
  if (lk == 0) {
    if (rk == 0) probe(id, l, XR(id)); else if (rk == 1) probe(id, l, TR(id)); else if (rk == 2) probe(id, l, u); else probe(id, l, r2)
  } else if (lk == 1) {
    if (rk == 0) probe(id, XL(id), XR(id)); else if (rk == 1) probe(id, XL(id), TR(id)); else if (rk == 2) probe(id, XL(id), u); else probe(id, XL(id), r2)
  } else {
    if (rk == 0) probe(id, u, XR(id)); else if (rk == 1) probe(id, u, TR(id)); else if (rk == 2) probe(id, u, u); else probe(id, u, r2)
  }
}
`

func awkLit(s string) string {
	var sb strings.Builder
	sb.WriteByte('"')
	for i := 0; i < len(s); i++ {
		fmt.Fprintf(&sb, "\\%03o", s[i])
	}
	sb.WriteByte('"')
	return sb.String()
}

func kindCode(k string) int {
	switch k {
	case "text":
		return 0
	case "num":
		return 1
	case "null":
		return 2
	}
	return 0
}

func rkindCode(k string) int {
	switch k {
	case "num":
		return 0
	case "str":
		return 1
	case "null":
		return 2
	}
	return 3 // text
}

// usable: can this probe be expressed in its provenance (separator/NUL restrictions)?
func usable(p probe) bool {
	for _, o := range []operand{p.L, p.R} {
		if o.Kind != "text" {
			continue
		}
		if strings.ContainsAny(o.S, "\x1e\x1f") {
			return false
		}
		switch p.Prov {
		case "const", "argv", "environ", "var":
			if strings.Contains(o.S, "\x00") {
				return false
			}
		}
	}
	if strings.Contains(p.CF, "\x00") || strings.Contains(p.OF, "\x00") {
		return false
	}
	return true
}

// runProbes executes a batch (same provenance, same CONVFMT/OFMT) in ONE program.
func runProbes(ps []probe) ([]string, error) {
	if len(ps) == 0 {
		return nil, nil
	}
	prov, cf, of := ps[0].Prov, ps[0].CF, ps[0].OF
	text := func(o operand) string {
		if o.Kind == "text" {
			return o.S
		}
		return ""
	}
	funcs := map[string]any{
		"LK":  func(i int) int { return kindCode(ps[i].L.Kind) },
		"RK":  func(i int) int { return rkindCode(ps[i].R.Kind) },
		"XL":  func(i int) float64 { return ps[i].L.F },
		"XR":  func(i int) float64 { return ps[i].R.F },
		"TR":  func(i int) string { return ps[i].R.S },
		"SL":  func(i int) string { return text(ps[i].L) },
		"SR":  func(i int) string { return text(ps[i].R) },
		"SLR": func(i int) string { return text(ps[i].L) + "\x1f" + text(ps[i].R) },
		"H":   func(s string) string { return hx.HexS(s) },
		"F":   func(f float64) string { return hx.FCanon(f) },
	}
	cfg := &interp.Config{Funcs: funcs, Environ: []string{}, Vars: []string{"N", fmt.Sprint(len(ps)), "CONVFMT", cf, "OFMT", of}}
	var main strings.Builder
	switch prov {
	case "computed":
		main.WriteString(`BEGIN { for (id = 0; id < N; id++) run(id, SL(id) "", SR(id) "") }`)
	case "split":
		main.WriteString(`BEGIN { for (id = 0; id < N; id++) { split(SLR(id), arr, "\037"); run(id, arr[1], arr[2]) } }`)
	case "field":
		main.WriteString(`BEGIN { RS = "\036"; FS = "\037" } { run(NR - 1, $1, $2) }`)
		var in strings.Builder
		for _, p := range ps {
			in.WriteString(text(p.L) + "\x1f" + text(p.R) + "\x1e")
		}
		cfg.Stdin = strings.NewReader(in.String())
	case "getline":
		main.WriteString(`BEGIN { RS = "\036"; id = 0; while ((getline l) > 0) { if ((getline r2) <= 0) break; run(id++, l, r2) } }`)
		var in strings.Builder
		for _, p := range ps {
			in.WriteString(text(p.L) + "\x1e" + text(p.R) + "\x1e")
		}
		cfg.Stdin = strings.NewReader(in.String())
	case "argv":
		main.WriteString(`BEGIN { for (id = 0; id < N; id++) run(id, ARGV[2 * id + 1], ARGV[2 * id + 2]) }`)
		for _, p := range ps {
			cfg.Args = append(cfg.Args, text(p.L), text(p.R))
		}
	case "environ":
		main.WriteString(`BEGIN { for (id = 0; id < N; id++) run(id, ENVIRON["l" id], ENVIRON["r" id]) }`)
		for i, p := range ps {
			cfg.Environ = append(cfg.Environ, fmt.Sprintf("l%d", i), text(p.L), fmt.Sprintf("r%d", i), text(p.R))
		}
	case "var":
		main.WriteString("BEGIN {\n")
		for i, p := range ps {
			fmt.Fprintf(&main, "run(%d, vl%d, vr%d)\n", i, i, i)
			cfg.Vars = append(cfg.Vars, fmt.Sprintf("vl%d", i), text(p.L), fmt.Sprintf("vr%d", i), text(p.R))
		}
		main.WriteString("}\n")
	case "const":
		main.WriteString("BEGIN {\n")
		for i, p := range ps {
			fmt.Fprintf(&main, "run(%d, %s, %s)\n", i, awkLit(text(p.L)), awkLit(text(p.R)))
		}
		main.WriteString("}\n")
	default:
		return nil, fmt.Errorf("unknown provenance %q", prov)
	}
	rr := hx.RunAwk(awkCommon+main.String(), cfg, &parser.ParserConfig{Funcs: funcs})
	if rr.Panic != nil {
		return nil, fmt.Errorf("panic: %v", rr.Panic)
	}
	if rr.Err != nil {
		return nil, rr.Err
	}
	out := strings.TrimSuffix(string(rr.Out), "\n")
	lines := strings.Split(out, "\n")
	if len(lines) != len(ps) {
		return nil, fmt.Errorf("got %d lines for %d probes (provenance %s): %.300q", len(lines), len(ps), prov, out)
	}
	res := make([]string, len(ps))
	for i, ln := range lines {
		pre := fmt.Sprintf("@%d ", i)
		if !strings.HasPrefix(ln, pre) {
			return nil, fmt.Errorf("line %d: unexpected %q", i, ln)
		}
		f := strings.Fields(ln[len(pre):])
		if len(f) != 11 {
			return nil, fmt.Errorf("line %d: %d fields: %q", i, len(f), ln)
		}
		if f[10] != "-" {
			f[10] = hx.HexS(f[10])
		}
		res[i] = "ok " + strings.Join(f, " ")
	}
	return res, nil
}

func runProbe1(p probe) string {
	r, err := runProbes([]probe{p})
	if err != nil {
		if strings.HasPrefix(err.Error(), "panic") {
			return "panic"
		}
		return "error " + err.Error()
	}
	return r[0]
}

// ---------------------------------------------------------------- search oracle (implementation only)

type probeOut struct {
	e, i, q, d, w, fo, t string
	num                  float64
	numS, ls, rs, pr     string
}

func parseFCanon(s string) (float64, bool) {
	switch s {
	case "nan":
		return math.NaN(), true
	case "+inf":
		return math.Inf(1), true
	case "-inf":
		return math.Inf(-1), true
	}
	me := strings.Split(s, ":")
	if len(me) != 2 {
		return 0, false
	}
	m, ok := new(big.Int).SetString(me[0], 10)
	e, err := strconv.Atoi(me[1])
	if !ok || err != nil {
		return 0, false
	}
	f := new(big.Float).SetInt(m)
	f.SetMantExp(f, e)
	v, _ := f.Float64()
	return v, true
}

func parseOut(s string) (probeOut, bool) {
	f := strings.Fields(s)
	if len(f) != 12 || f[0] != "ok" || len(f[1]) != 8 || len(f[7]) != 3 {
		return probeOut{}, false
	}
	for k := 2; k <= 6; k++ {
		if len(f[k]) != 6 {
			return probeOut{}, false
		}
	}
	v, ok := parseFCanon(f[8])
	if !ok {
		return probeOut{}, false
	}
	return probeOut{e: f[1], i: f[2], q: f[3], d: f[4], w: f[5], fo: f[6], t: f[7], num: v, numS: f[8], ls: string(hx.UnHex(f[9])), rs: string(hx.UnHex(f[10])), pr: f[11]}, true
}

func isNumStrProv(prov string) bool { return prov != "const" && prov != "computed" }

func exactInt(f float64) string {
	z, _ := new(big.Float).SetFloat64(f).Int(nil)
	return z.String()
}

// checkProbe: first failing equation of the property on the implementation's answer, if any.
func checkProbe(p probe, impl string) (class, oracle, want string, failed bool) {
	class = "number " + numClass(p.L.F)
	if p.L.Kind == "text" {
		class = textClass(p.L.S)
	} else if p.L.Kind == "null" {
		class = "unset"
	}
	if impl == "panic" {
		return class, "no-panic", "a result", true
	}
	o, ok := parseOut(impl)
	if !ok {
		return class, "probe output is well formed", "12 fields", true
	}
	b := func(s string, k int) bool { return s[k] == '1' }
	eq, ne, lt, gt, le, ge := b(o.e, 0), b(o.e, 1), b(o.e, 2), b(o.e, 3), b(o.e, 4), b(o.e, 5)
	rlt, rgt := b(o.e, 6), b(o.e, 7)
	ltext := p.L.Kind == "text" && isNumStrProv(p.Prov)
	rtext := p.R.Kind == "text" && isNumStrProv(p.Prov)
	// could either operand be NaN in a numeric comparison?  (over-approximation, by spelling)
	nanL := (p.L.Kind == "num" && p.L.F != p.L.F) || (ltext && mayBeNaN(p.L.S))
	nanR := (p.R.Kind == "num" && p.R.F != p.R.F) || (rtext && mayBeNaN(p.R.S))
	nan := nanL || nanR

	// --- coherence: the number a numeric-looking input text stands for is the same in
	//     comparisons, truth tests and arithmetic
	if ltext {
		if looksNumeric(p.L.S) && !nanL {
			if !b(o.t, 2) {
				return class, "numeric-looking input text compares equal to its own arithmetic value (s == s+0)", "1", true
			}
			if b(o.t, 1) != (o.num != 0) {
				return class, "truth of numeric-looking input text = (s+0 != 0)", fmt.Sprint(o.num != 0), true
			}
		}
		if p.R.Kind == "num" && !nan && eq && o.ls != o.rs {
			// equal to a number without being equal as strings: it was compared as the number r
			if !(o.num == p.R.F) {
				return class, "input text that compares equal to a number K (not as strings) has arithmetic value K", hx.FCanon(p.R.F), true
			}
			if b(o.t, 1) != (p.R.F != 0) {
				return class, "input text that compares equal to a number K (not as strings) has the truth value of K", fmt.Sprint(p.R.F != 0), true
			}
		}
	}
	// --- comparison mode: strings (constants, computed) never compare numerically;
	//     input text compares numerically with a number iff it looks numeric
	stringMode := p.L.Kind == "str" || p.R.Kind == "str" ||
		(p.L.Kind == "text" && (!isNumStrProv(p.Prov) || !maybeNumeric(p.L.S))) ||
		(p.R.Kind == "text" && (!isNumStrProv(p.Prov) || !maybeNumeric(p.R.S)))
	numericMode := (p.L.Kind != "text" || looksNumeric(p.L.S)) && (p.R.Kind != "text" || looksNumeric(p.R.S)) && !stringMode
	if stringMode {
		c := strings.Compare(o.ls, o.rs)
		want := fmt.Sprintf("%d%d%d%d%d%d", b2i(c == 0), b2i(c != 0), b2i(c < 0), b2i(c > 0), b2i(c <= 0), b2i(c >= 0))
		if o.e[:6] != want {
			return class, "a string operand or non-numeric-looking text forces bytewise string comparison of the two string forms", want, true
		}
	} else if numericMode && !nan {
		// both numeric: numbers, unset, numeric-looking input text
		x, y := o.num, 0.0
		switch p.R.Kind {
		case "num":
			y = p.R.F
		case "text":
			y = numericValue(p.R.S)
		}
		if y == y && x == x && !(p.R.Kind == "text" && overflows(p.R.S)) {
			want := fmt.Sprintf("%d%d%d%d%d%d", b2i(x == y), b2i(x != y), b2i(x < y), b2i(x > y), b2i(x <= y), b2i(x >= y))
			if o.e[:6] != want {
				return class, "numbers, unset and numeric-looking input text compare as numbers", want, true
			}
		}
	}
	// --- mutual consistency of the six operators
	if ne == eq {
		return class, "a != b iff !(a == b)", "", true
	}
	if lt != rgt || gt != rlt {
		return class, "a < b iff b > a", "", true
	}
	if !nan {
		if b2i(lt)+b2i(eq)+b2i(gt) != 1 {
			return class, "exactly one of a < b, a == b, a > b (non-NaN)", "", true
		}
		if le == gt {
			return class, "a <= b iff !(a > b) (non-NaN)", "", true
		}
		if ge == lt {
			return class, "a >= b iff !(a < b) (non-NaN)", "", true
		}
	}
	// a comparison in condition position = its value as an expression, NaN operands included
	if o.i != o.e[:6] {
		return class, "a comparison used as an if condition equals its value as an expression", o.e[:6], true
	}
	if o.q != o.e[:6] {
		return class, "a comparison used as a ?: condition equals its value as an expression", o.e[:6], true
	}
	if o.d != o.e[:6] {
		return class, "a comparison used as a do-while condition equals its value as an expression", o.e[:6], true
	}
	twice := strings.ReplaceAll(o.e[:6], "1", "2") // top test and bottom test both as the expression
	if o.w != twice {
		return class, "a comparison used as a while condition (top and bottom test) equals its value as an expression", twice, true
	}
	if o.fo != twice {
		return class, "a comparison used as a for condition (top and bottom test) equals its value as an expression", twice, true
	}
	if b(o.t, 0) == b(o.t, 1) {
		return class, "!x is the negation of the truth of x", "", true
	}
	// --- number to string
	if p.L.Kind == "num" {
		f := p.L.F
		if f == math.Trunc(f) && math.Abs(f) < 9223372036854775808.0 || f == -9223372036854775808.0 {
			want := exactInt(f)
			if o.ls != want {
				return class, "an integral number within int64 converts to its exact decimal integer (concatenation)", want, true
			}
			if o.pr != hx.HexS(want) {
				return class, "an integral number within int64 prints as its exact decimal integer (print)", want, true
			}
		} else if f == f && !math.IsInf(f, 0) {
			if w, ok := sprintfG(p.CF, f); ok && o.ls != w {
				return class, "a non-integral number converts via CONVFMT", w, true
			}
			if w, ok := sprintfG(p.OF, f); ok && o.pr != hx.HexS(w) {
				return class, "a non-integral number prints via OFMT", w, true
			}
		}
		if o.num != f && f == f {
			return class, "x+0 = x for a number", hx.FCanon(f), true
		}
	}
	if p.L.Kind == "text" && o.ls != p.L.S {
		return class, "a string converts to itself", strconv.Quote(p.L.S), true
	}
	return class, "", "", false
}

var reGFmt = regexp.MustCompile(`^%\.[0-9]{0,3}g$`)

// C's printf for the formats the oracle understands ("%.Ng"): Go's %g with an explicit
// precision is C's.
func sprintfG(format string, f float64) (string, bool) {
	if !reGFmt.MatchString(format) {
		return "", false
	}
	return fmt.Sprintf(format, f), true
}

func b2i(b bool) int {
	if b {
		return 1
	}
	return 0
}

// ---------------------------------------------------------------- generation of probes

// moderate numbers for the probes (a number operand is formatted ~20 times per probe in the model)
func randNumModerate(r *hx.Rand) float64 {
	for k := 0; k < 8; k++ {
		f := randNum(r)
		if f != f || math.IsInf(f, 0) || f == 0 || (math.Abs(f) < 1e25 && math.Abs(f) > 1e-25) || r.Intn(25) == 0 {
			return f
		}
	}
	return float64(r.Intn(1000)) / 8
}

func randNum(r *hx.Rand) float64 {
	switch r.Intn(6) {
	case 0:
		return math.Float64frombits(r.U64())
	case 1:
		return float64(int64(r.U64()>>uint(r.Intn(64)))) * []float64{1, -1}[r.Intn(2)]
	case 2:
		return float64(r.Intn(4000)-2000) / float64(int(1)<<uint(r.Intn(12)))
	case 3:
		// around 2^53, 2^63
		base := []float64{9007199254740992, 9223372036854775808, 4503599627370496, 18446744073709551616}[r.Intn(4)]
		f := math.Float64frombits(math.Float64bits(base) + uint64(r.Intn(7)) - 3)
		if r.Bool() {
			f = -f
		}
		return f
	default:
		return r.PickF(numPool)
	}
}

func genProbe(r *hx.Rand, prov string, cf, of string) probe {
	p := probe{Prov: prov, CF: cf, OF: of}
	switch r.Intn(10) {
	case 0:
		p.L = operand{Kind: "num", F: randNumModerate(r)}
	case 1:
		if r.Intn(4) == 0 {
			p.L = operand{Kind: "null"}
		} else {
			p.L = operand{Kind: "num", F: randNumModerate(r)}
		}
	default:
		p.L = operand{Kind: "text", S: randText(r, true)}
	}
	s := p.L.S
	switch r.Intn(10) {
	case 0, 1, 2, 3:
		// a number: often the one the text should stand for
		p.R = operand{Kind: "num", F: randNumModerate(r)}
		if p.L.Kind == "text" {
			switch r.Intn(4) {
			case 0, 1:
				t := strings.TrimSpace(s)
				if reHexNoExp.MatchString(t) {
					t += "p0"
				}
				if f, err := strconv.ParseFloat(strings.ReplaceAll(t, "_", "x"), 64); err == nil || f != 0 {
					p.R.F = f
				}
			case 2:
				p.R.F = float64(r.Intn(30) - 5)
			}
		} else if p.L.Kind == "num" && r.Intn(3) == 0 {
			p.R.F = p.L.F
		}
	case 4, 5:
		p.R = operand{Kind: "str", S: randText(r, true)}
		switch r.Intn(4) {
		case 0:
			p.R.S = s
		case 1:
			p.R.S = asciiTrim(s)
		case 2:
			if p.L.Kind == "num" {
				p.R.S = strconv.FormatFloat(p.L.F, 'g', 6, 64)
			}
		}
	case 6:
		p.R = operand{Kind: "null"}
	default:
		p.R = operand{Kind: "text", S: randText(r, true)}
		switch r.Intn(5) {
		case 0:
			p.R.S = s
		case 1:
			p.R.S = " " + asciiTrim(s) + "  "
		case 2:
			p.R.S = asciiTrim(s) + ".0"
		}
	}
	return p
}

// the fixed probes: every pool text against the number it should stand for, a plain
// number, a string, another text; every pool number against numbers and strings
var reBigExp = regexp.MustCompile(`[eEpP][+-]?[0-9]{3,}`)

// heavy: a text whose evaluation in the model costs milliseconds (big powers of ten/two)
func heavy(s string) bool { return len(s) > 24 || reBigExp.MatchString(s) }

func fixedProbes(prov string, thorough bool) []probe {
	var ps []probe
	cf, of := "%.6g", "%.6g"
	for i, s := range textPool {
		L := operand{Kind: "text", S: s}
		if heavy(s) && !thorough {
			// quick tier: one probe per provenance (each probe evaluates the text ~50 times in the model)
			t := strings.TrimSpace(s)
			if reHexNoExp.MatchString(t) {
				t += "p0"
			}
			k, _ := strconv.ParseFloat(t, 64)
			ps = append(ps, probe{prov, L, operand{Kind: "num", F: k}, cf, of})
			continue
		}
		t := strings.TrimSpace(s)
		if reHexNoExp.MatchString(t) {
			t += "p0"
		}
		k, _ := strconv.ParseFloat(t, 64)
		ps = append(ps,
			probe{prov, L, operand{Kind: "num", F: k}, cf, of},
			probe{prov, L, operand{Kind: "num", F: 12}, cf, of},
			probe{prov, L, operand{Kind: "str", S: asciiTrim(s)}, cf, of},
			probe{prov, L, operand{Kind: "text", S: textPool[(i*7+3)%len(textPool)]}, cf, of},
			probe{prov, L, operand{Kind: "text", S: " " + s}, cf, of},
			probe{prov, L, operand{Kind: "null"}, cf, of})
	}
	if prov == "computed" || prov == "field" {
		for i, f := range numPool {
			L := operand{Kind: "num", F: f}
			for _, fm := range []string{"%.6g", "%.3g", "%.10g", "%.17g", "%.1g"} {
				ps = append(ps, probe{prov, L, operand{Kind: "num", F: numPool[(i*5+1)%len(numPool)]}, fm, "%.6g"},
					probe{prov, L, operand{Kind: "str", S: strconv.FormatFloat(f, 'g', 6, 64)}, "%.6g", fm},
					probe{prov, L, operand{Kind: "text", S: strconv.FormatFloat(f, 'g', -1, 64)}, fm, fm})
			}
			ps = append(ps, probe{prov, L, operand{Kind: "num", F: f}, cf, of}, probe{prov, L, operand{Kind: "null"}, cf, of},
				probe{prov, operand{Kind: "null"}, operand{Kind: "num", F: f}, cf, of})
		}
		ps = append(ps, probe{prov, operand{Kind: "null"}, operand{Kind: "null"}, cf, of},
			probe{prov, operand{Kind: "null"}, operand{Kind: "str", S: ""}, cf, of},
			probe{prov, operand{Kind: "null"}, operand{Kind: "text", S: ""}, cf, of},
			probe{prov, operand{Kind: "null"}, operand{Kind: "text", S: "0"}, cf, of})
	}
	return ps
}

// ---------------------------------------------------------------- main

type hookCase struct {
	req, impl, class string
}

func failDetail(kind string, extra map[string]any) map[string]any {
	extra["kind"] = kind
	return extra
}

// oracle on the two hooks for one text (implementation only): coherence of parseFloat / parseFloatPrefix
func checkHooks(s string) (class, oracle, want, got string, failed bool) {
	class = textClass(s)
	f, k := interp.VerifC05ParseFloat(s)
	g := interp.VerifC05ParseFloatPrefix(s)
	if k == "ok" && f == f {
		if !(f == g) {
			return class, "parseFloat(s) = x without error implies parseFloatPrefix(s) = x", hx.FCanon(f), hx.FCanon(g), true
		}
	}
	if k == "ok" && f != f && g == g {
		return class, "parseFloat(s) = x without error implies parseFloatPrefix(s) = x", "nan", hx.FCanon(g), true
	}
	if looksNumeric(s) && k != "ok" {
		return class, "numeric-looking text is accepted by parseFloat", "ok", k, true
	}
	if k == "ok" && !maybeNumeric(s) {
		return class, "text accepted by parseFloat is in the AWK numeric grammar (ASCII blanks around it)", "rejected", "ok " + hx.FCanon(f), true
	}
	return class, "", "", "", false
}

func replay(o hx.Opts) {
	raw, err := os.ReadFile(o.Replay)
	if err != nil {
		fmt.Println("cannot read replay:", err)
		os.Exit(2)
	}
	var doc map[string]any
	if err := json.Unmarshal(raw, &doc); err != nil {
		fmt.Println("bad replay json:", err)
		os.Exit(2)
	}
	fl, _ := doc["failure"].(map[string]any)
	if fl == nil {
		fl = doc
	}
	d, _ := fl["detail"].(map[string]any)
	if d == nil {
		fmt.Println("replay has no failure.detail (a correspondence/proof break has no failing input)")
		os.Exit(2)
	}
	switch d["kind"] {
	case "hook":
		s := string(hx.UnHex(d["s_hex"].(string)))
		class, oracle, want, got, failed := checkHooks(s)
		fmt.Printf("text %q class=%q\nparseFloat: %s\nparseFloatPrefix: %s\n", s, class, implPF(s), implPFP(s))
		if failed {
			fmt.Printf("STILL FAILS oracle=%q want=%s got=%s\n", oracle, want, got)
			os.Exit(1)
		}
		fmt.Println("passes now")
	case "numstr":
		u, _ := strconv.ParseUint(d["f_bits"].(string), 10, 64)
		f := math.Float64frombits(u)
		format := string(hx.UnHex(d["format_hex"].(string)))
		got := interp.VerifC05NumToStr(f, format)
		want, _ := d["want"].(string)
		fmt.Printf("number %v format %q: got %q want %q\n", f, format, got, want)
		if oracle, w, failed := checkNumStr(f, format, got); failed {
			fmt.Printf("STILL FAILS oracle=%q want=%q\n", oracle, w)
			os.Exit(1)
		}
		fmt.Println("passes now")
	case "hist":
		msg, failed := replayHistory(d)
		fmt.Println(msg)
		if failed {
			os.Exit(1)
		}
	case "probe":
		p := probe{Prov: d["provenance"].(string), CF: string(hx.UnHex(d["convfmt_hex"].(string))), OF: string(hx.UnHex(d["ofmt_hex"].(string))),
			L: operandFromDetail(d["l"].(map[string]any)), R: operandFromDetail(d["r"].(map[string]any))}
		impl := runProbe1(p)
		class, oracle, want, failed := checkProbe(p, impl)
		fmt.Printf("probe provenance=%s l=%v r=%v CONVFMT=%q OFMT=%q class=%q\nimplementation: %s\n(fields: 8 expression results == != < > <= >= r<l r>l | 6 if | 6 ?: | 6 do-while | 6 while (0/1/2) | 6 for (0/1/2) | !l truth(l) l==l+0 | l+0 | l\"\" | r\"\" | print l)\n",
			p.Prov, p.L.detail(), p.R.detail(), p.CF, p.OF, class, impl)
		if failed {
			fmt.Printf("STILL FAILS oracle=%q want=%s\n", oracle, want)
			os.Exit(1)
		}
		fmt.Println("passes now")
	default:
		fmt.Println("unknown replay kind", d["kind"])
		os.Exit(2)
	}
}

func checkNumStr(f float64, format, got string) (oracle, want string, failed bool) {
	switch {
	case f != f:
		return "nan converts to \"nan\"", "nan", got != "nan"
	case math.IsInf(f, 1):
		return "+inf converts to \"inf\"", "inf", got != "inf"
	case math.IsInf(f, -1):
		return "-inf converts to \"-inf\"", "-inf", got != "-inf"
	case f == math.Trunc(f) && (math.Abs(f) < 9223372036854775808.0 || f == -9223372036854775808.0):
		w := exactInt(f)
		return "an integral number within int64 converts to its exact decimal integer", w, got != w
	}
	if w, ok := sprintfG(format, f); ok {
		return "any other number converts via the format", w, got != w
	}
	return "", "", false
}

// modelEvalParallel: the requests are independent; evaluate them in k modelrun processes.
func modelEvalParallel(bin string, reqs []string, k int) ([]string, error) {
	if len(reqs) < 1000 {
		return hx.ModelEval(bin, reqs)
	}
	// interleave so that every worker gets the same mix of cheap and expensive requests
	parts := make([][]string, k)
	for i, q := range reqs {
		parts[i%k] = append(parts[i%k], q)
	}
	outs := make([][]string, k)
	errs := make([]error, k)
	done := make(chan int, k)
	for w := 0; w < k; w++ {
		go func(w int) {
			outs[w], errs[w] = hx.ModelEval(bin, parts[w])
			done <- w
		}(w)
	}
	for w := 0; w < k; w++ {
		<-done
	}
	res := make([]string, len(reqs))
	for w := 0; w < k; w++ {
		if errs[w] != nil {
			return nil, errs[w]
		}
		for j, a := range outs[w] {
			res[j*k+w] = a
		}
	}
	return res, nil
}

func main() {
	o := hx.ParseFlags()
	if o.Replay != "" {
		replay(o)
		return
	}
	rep := hx.NewReport("C05", o.Seed, o.Tier)
	thorough := o.Tier == "thorough"
	maxLen := 4
	nRandText, nRandNum, nProbe := 20000, 6000, 500
	if thorough {
		maxLen, nRandText, nRandNum, nProbe = 5, 400000, 200000, 20000
	}
	if o.N > 0 {
		nRandText, nRandNum, nProbe = o.N, o.N, o.N/8+1
	}
	rep.Rule = fmt.Sprintf("texts: all strings of length <= %d over {0 1 9 + - . e E x X a f p n i _ space tab NBSP} (exhaustive), %d curated texts, random longer texts (formatted numbers with decoration, random symbol strings incl. Unicode blanks and invalid UTF-8) through parseFloat and parseFloatPrefix; numbers: %d pool numbers and random bit patterns / integers around 2^53, 2^63 x %d formats through value.str; probes: every pool text/number and random ones, as left operand in each of 8 provenances against a number / string / unset / same-provenance text, evaluating the six operators as expression, if-condition and loop-condition, !x, truth, x+0, x \"\" and print x; distinct = distinct model request; non-trivial = non-empty text or a number", maxLen, len(textPool), len(numPool), len(fmtPool))
	rep.Exhaustive = true
	r := hx.NewRand(o.Seed)

	var reqs []string
	var impls []string
	var classes []string
	var uniq []bool // known to be distinct by construction (exhaustive enumeration): counted without the set
	nSeen := 0
	// flush: evaluate the accumulated requests in the model and compare (correspondence)
	flush := func() {
		if dump := os.Getenv("C05_DUMP"); dump != "" {
			f, _ := os.OpenFile(dump, os.O_APPEND|os.O_CREATE|os.O_WRONLY, 0o644)
			f.WriteString(strings.Join(reqs, "\n") + "\n")
			f.Close()
		}
		model, err := modelEvalParallel(o.ModelRun, reqs, 6)
		if err != nil {
			rep.HarnessError("%v", err)
		}
		for i := range reqs {
			rep.CorrEvals++
			nSeen++
			if uniq[i] {
				rep.CorrDistinct++
			} else if !strings.HasSuffix(reqs[i], " -") || strings.HasPrefix(reqs[i], "str ") {
				rep.Distinct(reqs[i])
			}
			if nSeen%9973 == 0 {
				rep.Sample(map[string]string{"request": reqs[i], "impl": impls[i]})
			}
			if model == nil {
				continue
			}
			switch {
			case model[i] == "unmod":
				rep.Unmodelled++
				rep.Count("unmodelled:" + classes[i])
			case model[i] != impls[i]:
				rep.Mismatch(hx.Mismatch{Class: classes[i], Input: reqs[i], Impl: impls[i], Model: model[i]})
			}
		}
		reqs, impls, classes, uniq = reqs[:0], impls[:0], classes[:0], uniq[:0]
	}
	addU := func(req, impl, class string, u bool) {
		reqs = append(reqs, req)
		impls = append(impls, impl)
		classes = append(classes, class)
		uniq = append(uniq, u)
		if len(reqs) >= 300000 {
			flush()
		}
	}
	add := func(req, impl, class string) { addU(req, impl, class, false) }

	// ---- part 1: texts through the two hooks
	seenText := map[string]bool{}
	doText := func(s string, shape string) {
		if shape != "exhaustive" {
			if seenText[s] {
				return
			}
			seenText[s] = true
		}
		rep.Count("text:" + shape)
		addU("pf "+hx.HexS(s), implPF(s), "parseFloat", shape == "exhaustive" && s != "")
		addU("pfp "+hx.HexS(s), implPFP(s), "parseFloatPrefix", shape == "exhaustive" && s != "")
		rep.SearchEvals++
		if class, oracle, want, got, failed := checkHooks(s); failed {
			rep.Fail(hx.Failure{Class: class, Oracle: oracle, Detail: failDetail("hook", map[string]any{
				"s_hex": hx.HexS(s), "s": strconv.Quote(s), "want": want, "got": got, "parseFloat": implPF(s), "parseFloatPrefix": implPFP(s)})})
		}
	}
	for _, s := range textPool {
		doText(s, "curated")
	}
	enumerate(maxLen, func(s string) { doText(s, "exhaustive") })
	for i := 0; i < nRandText; i++ {
		doText(randText(r, false), "random")
	}

	// ---- part 2: numbers through value.str
	doNum := func(f float64, format string, shape string) {
		rep.Count("number:" + shape + ":" + numClass(f))
		got := interp.VerifC05NumToStr(f, format)
		add("str "+hx.FBits(f)+" "+hx.HexS(format), "ok "+hx.HexS(got), "value.str")
		rep.SearchEvals++
		if oracle, want, failed := checkNumStr(f, format, got); failed {
			rep.Fail(hx.Failure{Class: "number " + numClass(f), Oracle: oracle, Detail: failDetail("numstr", map[string]any{
				"f_bits": hx.FBits(f), "f": fmt.Sprint(f), "format_hex": hx.HexS(format), "format": format, "want": want, "got": got})})
		}
	}
	for _, f := range numPool {
		for _, fm := range fmtPool {
			doNum(f, fm, "pool")
			doNum(-f, fm, "pool")
		}
	}
	for i := 0; i < nRandNum; i++ {
		doNum(randNum(r), r.Pick(fmtPool), "random")
	}
	// every exponent: 2^k and 2^k * (1 + 2^-52), and the neighbours of powers of ten
	for k := -1074; k <= 1023; k++ {
		if !thorough && (k+int(o.Seed))%8 != 0 && k > -1070 && k < 1020 && (k < -6 || k > 70) {
			continue
		}
		f := math.Ldexp(1, k)
		doNum(f, "%.6g", "pow2")
		doNum(math.Nextafter(f, math.Inf(1)), "%.17g", "pow2")
		doNum(-math.Nextafter(f, 0), "%.3g", "pow2")
	}
	for k := -20; k <= 25; k++ {
		f := math.Pow(10, float64(k))
		for _, g := range []float64{f, math.Nextafter(f, 0), math.Nextafter(f, math.Inf(1)), f / 2, f * 9.9999995, f * 9.999995} {
			doNum(g, "%.6g", "pow10")
		}
	}

	// ---- part 4: the value methods through the hooks
	tags := []string{"null", "s", "n", "ns"}
	for i := 0; i < len(textPool)+400; i++ {
		var s string
		if i < len(textPool) {
			s = textPool[i]
		} else {
			s = randText(r, true)
		}
		f := r.PickF(numPool)
		for tag := 0; tag < 4; tag++ {
			var w string
			switch tag {
			case 0:
				w = "null"
			case 1:
				w = "s:" + hx.HexS(s)
			case 2:
				w = "n:" + hx.FBits(f)
			case 3:
				w = "ns:" + hx.HexS(s)
			}
			ts, tn := s, f
			if tag == 0 {
				ts, tn = "", 0
			} else if tag == 2 {
				ts = ""
			} else {
				tn = 0
			}
			rep.Count("value-method:" + tags[tag])
			add("vbool "+w, "ok "+fmt.Sprint(b2i(interp.VerifC05Boolean(tag, ts, tn))), "value.boolean")
			add("vnum "+w, "ok "+hx.FCanon(interp.VerifC05Num(tag, ts, tn)), "value.num")
			x, isStr := interp.VerifC05IsTrueStr(tag, ts, tn)
			add("ists "+w, "ok "+hx.FCanon(x)+" "+fmt.Sprint(b2i(isStr)), "value.isTrueStr")
			add("vstr "+hx.HexS("%.6g")+" "+w, "ok "+hx.HexS(interp.VerifC05Str(tag, ts, tn, "%.6g")), "value.str")
		}
	}

	// ---- part 3: end-to-end probes
	type batch struct{ ps []probe }
	var batches []batch
	fmts := [][2]string{{"%.6g", "%.6g"}, {"%.6g", "%.6g"}, {"%.3g", "%.10g"}, {"%.10g", "%.2g"}, {"%.17g", "%.6g"}, {"%d", "%.6g"}}
	for _, prov := range provs {
		byFmt := map[[2]string][]probe{}
		var order [][2]string
		push := func(p probe) {
			if !usable(p) {
				rep.Count("probe-skipped:inexpressible-in-" + prov)
				return
			}
			k := [2]string{p.CF, p.OF}
			if _, ok := byFmt[k]; !ok {
				order = append(order, k)
			}
			byFmt[k] = append(byFmt[k], p)
		}
		for _, p := range fixedProbes(prov, thorough) {
			push(p)
		}
		for i := 0; i < nProbe; i++ {
			fm := fmts[r.Intn(len(fmts))]
			push(genProbe(r, prov, fm[0], fm[1]))
		}
		for _, k := range order {
			ps := byFmt[k]
			for len(ps) > 0 {
				n := len(ps)
				if n > 400 {
					n = 400
				}
				batches = append(batches, batch{ps[:n]})
				ps = ps[n:]
			}
		}
	}
	for _, bt := range batches {
		res, err := runProbes(bt.ps)
		for i, p := range bt.ps {
			var impl string
			if err != nil {
				impl = runProbe1(p) // the batch failed: evaluate one by one
				if strings.HasPrefix(impl, "error ") {
					rep.HarnessError("probe %s: %s", p.line(), impl)
					continue
				}
			} else {
				impl = res[i]
			}
			lk := p.L.Kind
			if lk == "text" {
				lk = textClass(p.L.S)
			}
			rep.Count("probe:" + p.Prov)
			rep.Count("probe-left:" + lk)
			rep.Count("probe-right:" + p.R.Kind)
			add(p.line(), impl, "probe "+p.Prov)
			rep.SearchEvals++
			if class, oracle, want, failed := checkProbe(p, impl); failed {
				rep.Fail(hx.Failure{Class: class, Oracle: oracle, Detail: failDetail("probe", map[string]any{
					"provenance": p.Prov, "l": p.L.detail(), "r": p.R.detail(), "convfmt_hex": hx.HexS(p.CF), "ofmt_hex": hx.HexS(p.OF),
					"want": want, "got": impl, "program": "harness/c05/main.go awkCommon + per-provenance driver; replay with -replay",
					"fields": "8 expression results (== != < > <= >= r<l r>l) | 6 if | 6 ?: | 6 do-while | 6 while (0/1/2) | 6 for (0/1/2) | !l truth(l) l==l+0 | l+0 | hex(l \"\") | hex(r \"\") | hex(print l)"})})
			}
		}
	}

	// ---- part 5: multi-record histories (hist.go)
	nHist := 400
	if thorough {
		nHist = 20000
	}
	if o.N > 0 {
		nHist = o.N/8 + 1
	}
	hists := fixedHistories()
	for i := 0; i < nHist; i++ {
		hists = append(hists, genHistory(r, []string{"default", "default", "default", "csv", "tsv"}[r.Intn(5)]))
	}
	for _, h := range hists {
		lines, err := runHistory(h)
		rep.Count("history:" + h.Mode)
		rep.SearchEvals++
		if err != nil {
			if strings.HasPrefix(err.Error(), "panic") {
				rep.Fail(hx.Failure{Class: "history", Oracle: "no-panic", Detail: histDetail(h, &histFail{want: "a result", got: err.Error()})})
			} else {
				rep.HarnessError("history: %v\n%s", err, h.Prog)
			}
			continue
		}
		if hf := checkHistory(h, lines); hf != nil {
			rep.Fail(hx.Failure{Class: hf.class, Oracle: hf.oracle, Detail: histDetail(h, hf)})
		}
		if h.Mode == "default" {
			add(h.line(), "ok "+strings.Join(lines, " "), "history "+h.Mode)
		} else {
			rep.Count("history-oracle-only(csv/tsv split is property C08's model):" + h.Mode)
		}
	}
	// ---- part 6: a FIELD as the target of getline.  The text read is input ("getline var": a numeric string when it
	// looks like a number, POSIX and gawk), whatever kind of lvalue receives it; it is compared with the same read into
	// a variable.
	{
		in := "10.0\x1e1e1\x1e 10 \x1eabc\x1e0.0\x1e+5\x1e"
		progOf := func(lv string) string {
			return `BEGIN { RS = "\036"; while ((getline ` + lv + `) > 0) printf "%d%d%d ", (` + lv + ` == 10), (` + lv + ` < 9), !` + lv + ` }`
		}
		outOf := func(lv string) string {
			rr := hx.RunAwk(progOf(lv), &interp.Config{Stdin: strings.NewReader(in), Environ: []string{}}, nil)
			if rr.Panic != nil || rr.Err != nil {
				return fmt.Sprintf("error %v %v", rr.Panic, rr.Err)
			}
			return string(rr.Out)
		}
		want := outOf("v")
		for _, lv := range []string{"$2", "$(1 + 1)", "$7"} {
			got := outOf(lv)
			rep.SearchEvals++
			rep.Count("getline-into-field")
			if got != want {
				rep.Fail(hx.Failure{Class: "field set by getline", Oracle: "text read by getline is a numeric string when it looks numeric, whatever lvalue receives it",
					Detail: map[string]any{"kind": "getline-field", "program": progOf(lv), "input_hex": hx.HexS(in), "want (same read into a variable)": want, "got": got}})
			}
		}
	}
	flush()
	rep.Write(o.Out)
}

var _ = unicode.IsSpace
var _ = utf8.RuneError
