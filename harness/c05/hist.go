// C05 harness, part 5: multi-record histories.
//
// Where input text enters through the record, the typing of a field must depend only on the
// record it was read from and on what was assigned since that record arrived - never on what
// happened to the same field position in earlier records.  A history is a program with one rule
// per record number whose actions assign / extend / truncate fields, assign $0, change FS, read
// the next record with getline; after the actions every rule probes $0..$7: the text, whether
// the field compares numerically with a numeric string of the same value (($k == A[1]) with
// split(" " $k, A, ...)), and ($k < 9).
//
// Correspondence: the same history through the model of the record machinery (Model/Fields.v,
// flags fields_true) typed by Model/Value.v.  Search oracle (implementation only): a field that
// was not assigned since its record arrived and whose text looks numeric compares numerically.
package main

import (
	"fmt"
	"strconv"
	"strings"

	"github.com/benhoyt/goawk/interp"
	"github.com/benhoyt/goawk/parser"
	"verif/harness/hx"
)

type hop struct {
	Kind string // R S T E N Z F P
	K    int
	S    string
}

func (h hop) wire() string {
	switch h.Kind {
	case "R", "Z", "F":
		return h.Kind + ":" + hx.HexS(h.S)
	case "S", "T":
		return fmt.Sprintf("%s:%d:%s", h.Kind, h.K, hx.HexS(h.S))
	case "E", "N":
		return fmt.Sprintf("%s:%d", h.Kind, h.K)
	}
	return "P:" + h.S
}

func parseHops(w string) []hop {
	var hs []hop
	for _, tok := range strings.Fields(w) {
		f := strings.Split(tok, ":")
		h := hop{Kind: f[0]}
		switch h.Kind {
		case "R", "Z", "F":
			h.S = string(hx.UnHex(f[1]))
		case "S", "T":
			h.K, _ = strconv.Atoi(f[1])
			h.S = string(hx.UnHex(f[2]))
		case "E", "N":
			h.K, _ = strconv.Atoi(f[1])
		case "P":
			h.S = f[1]
		}
		hs = append(hs, h)
	}
	return hs
}

type history struct {
	Mode  string // default csv tsv
	Prog  string
	Input string
	Ops   []hop
}

func (h history) opsWire() string {
	w := make([]string, len(h.Ops))
	for i, o := range h.Ops {
		w[i] = o.wire()
	}
	return strings.Join(w, " ")
}

func (h history) line() string { return "hist " + hx.HexS("%.6g") + " " + h.opsWire() }

var histTexts = []string{"10", "1e1", "010", "9", "+10", "10.0", "0x1A", "1e400", " 10", "10 ", "abc", "", "7", "-3", ".5", "1e", "nan", "inf", "12x", "100", "\xc2\xa012", "0"}
var histAssign = []string{"seen", "x", "10", "7", "", "1e1", "abc", " 9"}

const awkHistPrelude = `function pr(tag,    k, A) {
  for (k = 0; k <= 7; k++) { split(" " $k, A, "\037"); print "@" tag, k, H($k), ($k == A[1]), ($k < 9) }
}
`

// genHistory simulates the rule-per-record program while generating it, so that the linear
// operation list (what the model executes) is exactly what the program does.
func genHistory(r *hx.Rand, mode string) history {
	h := history{Mode: mode}
	fsch := " "
	if mode == "csv" {
		fsch = ","
	} else if mode == "tsv" {
		fsch = "\t"
	} else if r.Intn(3) == 0 {
		fsch = []string{",", "|", ":"}[r.Intn(3)]
	}
	var prog strings.Builder
	prog.WriteString(awkHistPrelude)
	if mode == "default" && fsch != " " {
		fmt.Fprintf(&prog, "BEGIN { FS = %s }\n", awkLit(fsch))
		h.Ops = append(h.Ops, hop{Kind: "F", S: fsch})
	}
	var input strings.Builder
	newRecord := func() string {
		n := 1 + r.Intn(5)
		fs := make([]string, n)
		for i := range fs {
			t := r.Pick(histTexts)
			if fsch == " " || mode != "default" {
				t = strings.TrimSpace(strings.ReplaceAll(t, " ", ""))
				if fsch == " " && t == "" {
					t = "10"
				}
			}
			fs[i] = t
		}
		rec := strings.Join(fs, fsch)
		if rec == "" && mode != "default" {
			rec = "0" // the CSV reader skips empty lines: they are not records
		}
		input.WriteString(rec + "\n")
		return rec
	}
	text := func(s string) string { // what a record/field text assigned by the program may contain
		return strings.ReplaceAll(s, "\n", "")
	}
	nrec := 3 + r.Intn(4)
	nr, read := 0, 0
	for read < nrec {
		nr++
		read++
		h.Ops = append(h.Ops, hop{Kind: "R", S: newRecord()})
		b := nr
		for {
			fmt.Fprintf(&prog, "NR == %d {\n", b)
			nops := r.Intn(4)
			if b == 1 && nops == 0 {
				nops = 1
			}
			for i := 0; i < nops; i++ {
				switch r.Intn(12) {
				case 0, 1, 2:
					k, s := 1+r.Intn(4), text(r.Pick(histAssign))
					fmt.Fprintf(&prog, "  $%d = %s\n", k, awkLit(s))
					h.Ops = append(h.Ops, hop{Kind: "S", K: k, S: s})
				case 3:
					k, n := 1+r.Intn(4), []int{10, 7, 9, 100}[r.Intn(4)]
					fmt.Fprintf(&prog, "  $%d = %d\n", k, n)
					h.Ops = append(h.Ops, hop{Kind: "T", K: k, S: strconv.Itoa(n)})
				case 4, 5:
					k := 1 + r.Intn(4)
					fmt.Fprintf(&prog, "  $%d = $%d\n", k, k)
					h.Ops = append(h.Ops, hop{Kind: "E", K: k})
				case 6:
					k, s := 5+r.Intn(3), text(r.Pick(histAssign)) // past NF: pads the fields in between
					fmt.Fprintf(&prog, "  $%d = %s\n", k, awkLit(s))
					h.Ops = append(h.Ops, hop{Kind: "S", K: k, S: s})
				case 7:
					n := r.Intn(7)
					fmt.Fprintf(&prog, "  NF = %d\n", n)
					h.Ops = append(h.Ops, hop{Kind: "N", K: n})
				case 8:
					s := strings.TrimSuffix(strings.Join([]string{r.Pick(histTexts), r.Pick(histTexts), r.Pick(histTexts)}, fsch), "\n")
					if fsch == " " {
						s = "10 1e1 " + r.Pick([]string{"010", "9", "abc"})
					}
					fmt.Fprintf(&prog, "  $0 = %s\n", awkLit(s))
					h.Ops = append(h.Ops, hop{Kind: "Z", S: s})
				case 9:
					if mode == "default" {
						nf := []string{" ", ",", "|", ":"}[r.Intn(4)]
						fmt.Fprintf(&prog, "  FS = %s\n", awkLit(nf))
						h.Ops = append(h.Ops, hop{Kind: "F", S: nf})
						fsch = nf
					}
				case 10:
					if read < nrec+2 {
						prog.WriteString("  getline\n")
						nr++
						read++
						h.Ops = append(h.Ops, hop{Kind: "R", S: newRecord()})
					}
				default:
					tag := fmt.Sprintf("%dm%d", b, i)
					fmt.Fprintf(&prog, "  pr(%q)\n", tag)
					h.Ops = append(h.Ops, hop{Kind: "P", S: tag})
				}
			}
			tag := fmt.Sprintf("%de", b)
			fmt.Fprintf(&prog, "  pr(%q)\n}\n", tag)
			h.Ops = append(h.Ops, hop{Kind: "P", S: tag})
			if nr > b {
				b = nr // the rule of the record read by getline matches in the same cycle
				continue
			}
			break
		}
	}
	h.Prog, h.Input = prog.String(), input.String()
	return h
}

// the witness of the seeded defect and its relatives, always run
func fixedHistories() []history {
	mk := func(mode, fs string, recs []string, blocks map[int][]hop) history {
		h := history{Mode: mode}
		var prog strings.Builder
		prog.WriteString(awkHistPrelude)
		if fs != " " && mode == "default" {
			fmt.Fprintf(&prog, "BEGIN { FS = %s }\n", awkLit(fs))
			h.Ops = append(h.Ops, hop{Kind: "F", S: fs})
		}
		for i, rec := range recs {
			h.Ops = append(h.Ops, hop{Kind: "R", S: rec})
			fmt.Fprintf(&prog, "NR == %d {\n", i+1)
			for _, o := range blocks[i+1] {
				switch o.Kind {
				case "S":
					fmt.Fprintf(&prog, "  $%d = %s\n", o.K, awkLit(o.S))
				case "T":
					fmt.Fprintf(&prog, "  $%d = %s\n", o.K, o.S)
				case "E":
					fmt.Fprintf(&prog, "  $%d = $%d\n", o.K, o.K)
				case "N":
					fmt.Fprintf(&prog, "  NF = %d\n", o.K)
				case "Z":
					fmt.Fprintf(&prog, "  $0 = %s\n", awkLit(o.S))
				}
				h.Ops = append(h.Ops, o)
			}
			tag := fmt.Sprintf("%de", i+1)
			fmt.Fprintf(&prog, "  pr(%q)\n}\n", tag)
			h.Ops = append(h.Ops, hop{Kind: "P", S: tag})
		}
		h.Prog, h.Input = prog.String(), strings.Join(recs, "\n")+"\n"
		return h
	}
	recs := []string{"a 5 x", "b 10 9", "c 1e1 010", "d 010 10"}
	var hs []history
	for _, first := range [][]hop{
		{{Kind: "S", K: 2, S: "seen"}},
		{{Kind: "E", K: 2}},
		{{Kind: "T", K: 2, S: "10"}},
		{{Kind: "S", K: 6, S: "pad"}},
		{{Kind: "S", K: 2, S: "seen"}, {Kind: "N", K: 2}},
		{{Kind: "N", K: 5}, {Kind: "S", K: 3, S: "z"}},
		{{Kind: "Z", S: "q 10 9"}, {Kind: "S", K: 2, S: "y"}},
	} {
		hs = append(hs, mk("default", " ", recs, map[int][]hop{1: first}))
		hs = append(hs, mk("default", ",", []string{"a,5,x", "b,10,9", "c,1e1,010", "d, 10 ,10"}, map[int][]hop{1: first}))
		hs = append(hs, mk("csv", ",", []string{"a,5,x", "b,10,9", "c,1e1,010", "d,010,10"}, map[int][]hop{1: first}))
		hs = append(hs, mk("tsv", "\t", []string{"a\t5\tx", "b\t10\t9", "c\t1e1\t010"}, map[int][]hop{1: first, 2: {{Kind: "S", K: 3, S: "w"}}}))
	}
	return hs
}

func runHistory(h history) (lines []string, err error) {
	funcs := map[string]any{"H": func(s string) string { return hx.HexS(s) }}
	cfg := &interp.Config{Funcs: funcs, Environ: []string{}, Stdin: strings.NewReader(h.Input)}
	switch h.Mode {
	case "csv":
		cfg.InputMode = interp.CSVMode
	case "tsv":
		cfg.InputMode = interp.TSVMode
	}
	rr := hx.RunAwk(h.Prog, cfg, &parser.ParserConfig{Funcs: funcs})
	if rr.Panic != nil {
		return nil, fmt.Errorf("panic: %v", rr.Panic)
	}
	if rr.Err != nil {
		return nil, rr.Err
	}
	for _, ln := range strings.Split(strings.TrimSuffix(string(rr.Out), "\n"), "\n") {
		f := strings.Fields(ln)
		if len(f) != 5 || !strings.HasPrefix(f[0], "@") {
			return nil, fmt.Errorf("unexpected output line %q", ln)
		}
		lines = append(lines, fmt.Sprintf("%s:%s:%s:%s:%s", f[0][1:], f[1], f[2], f[3], f[4]))
	}
	return lines, nil
}

type histFail struct {
	class, oracle, want, got string
}

// checkHistory: the typing spec applied to each record independently.  Walks the operation
// list to know, at each probe, which positions were assigned since the current record arrived
// (and which were assigned in EARLIER records - only for the class), then checks every probed
// field that was not assigned since: looks numeric => compares numerically.
func checkHistory(h history, lines []string) *histFail {
	assigned := map[int]string{}   // position -> "S"/"T"/"E" since the record arrived
	everAssigned := map[int]bool{} // in earlier records
	lineAssigned := false
	li := 0
	for _, o := range h.Ops {
		switch o.Kind {
		case "R":
			for k := range assigned {
				everAssigned[k] = true
			}
			assigned = map[int]string{}
			lineAssigned = false
		case "Z":
			for k := range assigned {
				everAssigned[k] = true
			}
			assigned = map[int]string{}
			lineAssigned = true
		case "S", "T", "E":
			assigned[o.K] = o.Kind
			lineAssigned = true
		case "N":
			lineAssigned = true
		case "P":
			for k := 0; k <= 7; k++ {
				if li >= len(lines) {
					return &histFail{"history output", "every probe prints 8 lines", "a line", "end of output"}
				}
				f := strings.Split(lines[li], ":")
				li++
				if len(f) != 5 || f[0] != o.S || f[1] != strconv.Itoa(k) {
					return &histFail{"history output", "probe lines arrive in program order", fmt.Sprintf("%s:%d", o.S, k), lines[li-1]}
				}
				txt := string(hx.UnHex(f[2]))
				numericLooking := looksNumeric(txt) && !mayBeNaN(txt)
				if !numericLooking {
					continue
				}
				fresh := (k == 0 && !lineAssigned) || (k >= 1 && assigned[k] == "")
				switch {
				case fresh && f[3] != "1":
					class := "field read from input"
					if k == 0 {
						class = "record read from input"
					} else if everAssigned[k] {
						class = "field read from input at a position that was assigned in an earlier record"
					}
					return &histFail{class, "a field freshly read from input that looks numeric compares numerically, whatever happened in earlier records", "1", lines[li-1]}
				case k >= 1 && assigned[k] == "T" && f[3] != "1":
					return &histFail{"field assigned a number in the current record", "a field assigned a number compares as that number", "1", lines[li-1]}
				}
			}
		}
	}
	if li != len(lines) {
		return &histFail{"history output", "no output beyond the probes", fmt.Sprint(li), fmt.Sprint(len(lines))}
	}
	return nil
}

func histDetail(h history, hf *histFail) map[string]any {
	return map[string]any{"kind": "hist", "mode": h.Mode, "program": h.Prog, "input_hex": hx.HexS(h.Input), "input": strconv.Quote(h.Input),
		"ops": h.opsWire(), "want": hf.want, "got": hf.got,
		"fields": "probe line = tag:k:hex($k):($k == numeric string of the same text):($k < 9)"}
}

func replayHistory(d map[string]any) (string, bool) {
	h := history{Mode: d["mode"].(string), Prog: d["program"].(string), Input: string(hx.UnHex(d["input_hex"].(string))), Ops: parseHops(d["ops"].(string))}
	lines, err := runHistory(h)
	if err != nil {
		return "run failed: " + err.Error(), true
	}
	out := fmt.Sprintf("mode=%s input=%q\nprogram:\n%s\noutput: %s\n", h.Mode, h.Input, h.Prog, strings.Join(lines, " "))
	if hf := checkHistory(h, lines); hf != nil {
		return out + fmt.Sprintf("STILL FAILS class=%q oracle=%q want=%s got=%s", hf.class, hf.oracle, hf.want, hf.got), true
	}
	return out + "passes now", false
}
