module verif/harness

go 1.20

require github.com/benhoyt/goawk v0.0.0

replace github.com/benhoyt/goawk => /repo
