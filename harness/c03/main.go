// C03 harness: the lexer's positions, totality of parsing, the CLI's source-line display.
//
// Correspondence: lexer.Scan / ScanRegex token stream (position, kind, value, HadSpace,
// PeekByte) of the implementation vs the extracted Coq model (modelrun "lex").
// Search oracle (implementation only, written independently of the model):
//   - every reported token position designates an offset of the source (independent
//     offset -> line/column map) at which that token's text really is;
//   - parser.ParseProgram never panics; a parse error's position exists in the source;
//   - the goawk binary, on sources that do not parse, exits 1 and shows the offending line
//     (exit 2 with "panic:" on stderr = crash).
package main

import (
	"bytes"
	"encoding/json"
	"fmt"
	"go/ast"
	goparser "go/parser"
	"go/token"
	"os"
	"os/exec"
	"path/filepath"
	"regexp"
	"sort"
	"strconv"
	"strings"
	"time"

	"github.com/benhoyt/goawk/lexer"
	"github.com/benhoyt/goawk/parser"
	"verif/harness/hx"
)

// ---------------------------------------------------------------- implementation side

type gtok struct {
	pos  lexer.Position
	tok  lexer.Token
	val  string
	had  bool
	peek byte
}

func (t gtok) String() string {
	h := "0"
	if t.had {
		h = "1"
	}
	return fmt.Sprintf("%d:%d:%d:%s:%s:%d", t.pos.Line, t.pos.Column, int(t.tok), hx.HexS(t.val), h, t.peek)
}

func isFinal(t lexer.Token) bool { return t == lexer.ILLEGAL || t == lexer.EOF }
func isDiv(t lexer.Token) bool   { return t == lexer.DIV || t == lexer.DIV_ASSIGN }

// after which token a '/' starts a regex for the parser (approximation of the grammar, only
// used to make realistic ScanRegex decisions)
func operandEnd(t lexer.Token) bool {
	switch t {
	case lexer.NAME, lexer.NUMBER, lexer.STRING, lexer.REGEX, lexer.RPAREN, lexer.RBRACKET, lexer.DOLLAR,
		lexer.INCR, lexer.DECR:
		return true
	}
	return t >= lexer.FIRST_FUNC && t <= lexer.LAST_FUNC
}

// goLex drives the real lexer the way the model's scan_loop does. mode: "0" never ScanRegex,
// "1" always after DIV/DIV_ASSIGN, "p" when the previous token cannot end an operand.
// Returns the tokens, the decision bits taken (one per non-final DIV/DIV_ASSIGN token) and
// whether the lexer panicked.
func goLex(src []byte, mode string) (toks []gtok, decisions string, panicked bool) {
	defer func() {
		if r := recover(); r != nil {
			panicked = true
		}
	}()
	l := lexer.NewLexer(src)
	var ds strings.Builder
	prev := lexer.NEWLINE
	for n := 0; n <= 2*len(src)+4; n++ {
		p, t, v := l.Scan()
		toks = append(toks, gtok{p, t, v, l.HadSpace(), l.PeekByte()})
		if isFinal(t) {
			break
		}
		if isDiv(t) {
			want := mode == "1" || (mode == "p" && !operandEnd(prev))
			if want {
				ds.WriteByte('1')
				p, t2, v := l.ScanRegex()
				toks = append(toks, gtok{p, t2, v, l.HadSpace(), l.PeekByte()})
				if isFinal(t2) {
					break
				}
				t = t2
			} else {
				ds.WriteByte('0')
			}
		}
		prev = t
	}
	decisions = ds.String()
	if decisions == "" {
		decisions = "-"
	}
	return
}

func implLine(toks []gtok, panicked bool) string {
	if panicked {
		return "panic"
	}
	parts := make([]string, len(toks))
	for i, t := range toks {
		parts[i] = t.String()
	}
	return "ok " + strings.Join(parts, " ")
}

// ---------------------------------------------------------------- independent position map

// posMap[k] for k = 0..len(src): line = 1 + number of LF before k; column = 1 + number of
// bytes other than CR between the last LF before k and k.
func posMap(src []byte) []lexer.Position {
	m := make([]lexer.Position, len(src)+1)
	line, col := 1, 1
	for k := 0; k <= len(src); k++ {
		m[k] = lexer.Position{Line: line, Column: col}
		if k < len(src) {
			switch src[k] {
			case '\n':
				line++
				col = 1
			case '\r':
			default:
				col++
			}
		}
	}
	return m
}

// offsets designated by a position (several only when CRs precede the byte)
func offsetsOf(m []lexer.Position, p lexer.Position) []int {
	var ks []int
	for k, q := range m {
		if q == p {
			ks = append(ks, k)
		}
	}
	return ks
}

func hasPrefixAt(src []byte, k int, s string) bool {
	return k >= 0 && k+len(s) <= len(src) && string(src[k:k+len(s)]) == s
}

// textAt: is the text of token t at offset k of src?
func textAt(src []byte, k int, t gtok) bool {
	switch t.tok {
	case lexer.EOF:
		return k == len(src) || (k < len(src) && src[k] == 0)
	case lexer.NEWLINE:
		return hasPrefixAt(src, k, "\n")
	case lexer.NAME, lexer.NUMBER:
		return hasPrefixAt(src, k, t.val)
	case lexer.STRING:
		return hasPrefixAt(src, k, "\"") || hasPrefixAt(src, k, "'")
	case lexer.REGEX:
		return hasPrefixAt(src, k, "/")
	case lexer.POW:
		return hasPrefixAt(src, k, "^") || hasPrefixAt(src, k, "**")
	case lexer.POW_ASSIGN:
		return hasPrefixAt(src, k, "^=") || hasPrefixAt(src, k, "**=")
	}
	return hasPrefixAt(src, k, t.tok.String())
}

var rePanicInner = regexp.MustCompile(`interface \{\} is (\S+), not \*ast\.PositionError`)
var reDanglingLF = regexp.MustCompile(`^[eE][+-]?\n`)
var reDanglingCR = regexp.MustCompile(`^[eE][+-]?\r`)
var reSrcDanglingLF = regexp.MustCompile(`[0-9.][eE][+-]?\n`)

// expectedStarts: for every token other than ILLEGAL the offset of its first byte, found from
// the reported position through the independent offset -> position map and the token's text
// (-1 for ILLEGAL tokens). ok=false when an offset could not be determined (the position
// oracle fails on the same token then).
func expectedStarts(src []byte, toks []gtok) (starts []int, ok bool) {
	m := posMap(src)
	starts = make([]int, len(toks))
	lastK := -1
	for i, t := range toks {
		if t.tok == lexer.ILLEGAL {
			starts[i] = -1
			continue
		}
		k := -1
		for _, c := range offsetsOf(m, t.pos) {
			if textAt(src, c, t) && (c > lastK || (t.tok == lexer.REGEX && c >= lastK)) {
				k = c
			}
		}
		if k < 0 {
			return nil, false
		}
		lastK = k
		starts[i] = k
	}
	return starts, true
}

// checkLex evaluates the position equations on one token stream; reports the first failure.
func checkLex(src []byte, mode string, toks []gtok, panicked bool, origin string, rep *hx.Report) {
	detail := func(extra map[string]any) map[string]any {
		d := map[string]any{"kind": "lex", "src_hex": hx.Hex(src), "src": strconv.Quote(string(src)), "mode": mode, "origin": origin,
			"tokens": implLine(toks, panicked)}
		for k, v := range extra {
			d[k] = v
		}
		return d
	}
	if panicked {
		rep.Fail(hx.Failure{Class: "lexer-panic", Oracle: "lexer never panics", Detail: detail(nil)})
		return
	}
	if len(toks) == 0 || !isFinal(toks[len(toks)-1].tok) {
		rep.Fail(hx.Failure{Class: "lexer-no-end", Oracle: "Scan reaches EOF or ILLEGAL within 2*len+4 calls", Detail: detail(nil)})
		return
	}
	m := posMap(src)
	cause := "" // set once a NUMBER with a dangling exponent before a line end has been passed
	lastK := -1
	for i, t := range toks {
		ks := offsetsOf(m, t.pos)
		if t.tok == lexer.ILLEGAL {
			if len(ks) == 0 {
				class := "illegal-position-outside-source"
				end := m[len(src)]
				if cause != "" {
					class = "token-after-" + cause
				} else if len(src) > 0 && src[len(src)-1] == '\\' && t.pos.Line == end.Line && t.pos.Column == end.Column+1 {
					class = "illegal-after-backslash-at-eof"
				}
				rep.Fail(hx.Failure{Class: class, Oracle: "an error position designates a byte position that exists in the source",
					Detail: detail(map[string]any{"token_index": i, "got": fmt.Sprint(t.pos), "want": "a position of some offset 0..len"})})
				return
			}
			continue
		}
		ok := false
		k := -1
		for _, c := range ks {
			if textAt(src, c, t) && (c > lastK || (t.tok == lexer.REGEX && c >= lastK)) {
				ok, k = true, c
			}
		}
		if !ok {
			class := "token-position-wrong"
			if cause != "" {
				class = "token-after-" + cause
			}
			rep.Fail(hx.Failure{Class: class, Oracle: "token position = true line and column of the token's first byte",
				Detail: detail(map[string]any{"token_index": i, "got": fmt.Sprint(t.pos), "token": t.String(),
					"offsets_with_that_position": fmt.Sprint(ks)})})
			return
		}
		lastK = k
		if t.tok == lexer.NUMBER && cause == "" && !strings.ContainsAny(t.val, "eE") {
			after := src[k+len(t.val):]
			if reDanglingLF.Match(after) {
				cause = "number-with-dangling-exponent-before-LF"
			} else if reDanglingCR.Match(after) {
				cause = "number-with-dangling-exponent-before-CR"
			}
		}
	}
}

// class of a parse / CLI failure from the source text and the reported position alone:
// a number with a dangling exponent directly before a LF on a true line earlier than the
// reported line (the lexer's line counter is then one ahead), a source ending in a backslash,
// or neither.
func srcCause(src []byte, pos lexer.Position) string {
	m := posMap(src)
	for _, loc := range reSrcDanglingLF.FindAllIndex(src, -1) {
		if m[loc[0]].Line < pos.Line {
			return "source-has-number-with-dangling-exponent-before-LF"
		}
	}
	if len(src) > 0 && src[len(src)-1] == '\\' {
		return "source-ends-with-backslash"
	}
	return "other"
}

// ---------------------------------------------------------------- ParseProgram and the CLI

type parseResult struct {
	panicVal any
	err      error
	pos      lexer.Position
	isPE     bool
}

func parseImpl(src []byte) (r parseResult) { return parseImplCfg(src, false) }

// panicKind: which kind of Go panic escaped (part of the failure class)
func panicKind(v any) string {
	msg := fmt.Sprint(v)
	// ParseProgram's recover re-asserts the recovered value: a foreign panic surfaces as
	// "interface conversion: interface {} is <its type>, not *ast.PositionError"
	if m := rePanicInner.FindStringSubmatch(msg); m != nil {
		return strings.TrimPrefix(m[1], "*")
	}
	for _, k := range [][2]string{{"interface conversion", "interface-conversion"}, {"index out of range", "index-out-of-range"},
		{"slice bounds out of range", "slice-out-of-range"}, {"nil pointer", "nil-dereference"}, {"regexp: Compile", "regexp-mustcompile"},
		{"nil map", "nil-map"}, {"divide by zero", "divide-by-zero"}, {"stack overflow", "stack-overflow"}} {
		if strings.Contains(msg, k[0]) {
			return k[1]
		}
	}
	return "other"
}

// parseImplCfg: ParseProgram under recover; funcs = offer the native functions of resolve.go
func parseImplCfg(src []byte, funcs bool) (r parseResult) {
	defer func() {
		if v := recover(); v != nil {
			r.panicVal = v
		}
	}()
	var cfg *parser.ParserConfig
	if funcs {
		cfg = &parser.ParserConfig{Funcs: nativeFuncs}
	}
	_, err := parser.ParseProgram(src, cfg)
	r.err = err
	if pe, ok := err.(*parser.ParseError); ok {
		r.isPE, r.pos = true, pe.Position
	}
	return
}

func checkParse(src []byte, origin string, rep *hx.Report) parseResult {
	return checkParseCfg(src, false, origin, rep)
}

func checkParseCfg(src []byte, funcs bool, origin string, rep *hx.Report) parseResult {
	r := parseImplCfg(src, funcs)
	detail := func(extra map[string]any) map[string]any {
		d := map[string]any{"kind": "parse", "src_hex": hx.Hex(src), "origin": origin, "native_funcs": funcs}
		if len(src) <= 400 {
			d["src"] = strconv.Quote(string(src))
		}
		for k, v := range extra {
			d[k] = v
		}
		return d
	}
	if r.panicVal != nil {
		rep.Fail(hx.Failure{Class: "parse-panic:" + panicKind(r.panicVal), Oracle: "ParseProgram returns a program or a parse error, never panics",
			Detail: detail(map[string]any{"panic": fmt.Sprint(r.panicVal)})})
		return r
	}
	if r.err != nil && r.isPE {
		if len(offsetsOf(posMap(src), r.pos)) == 0 {
			rep.Fail(hx.Failure{Class: "parse-error-position:" + srcCause(src, r.pos), Oracle: "an error position designates a byte position that exists in the source",
				Detail: detail(map[string]any{"error": r.err.Error(), "got": fmt.Sprint(r.pos)})})
		}
	}
	return r
}

var goawkBin string

func buildCLI(rep *hx.Report) {
	repo := os.Getenv("VERIF_REPO")
	if repo == "" {
		repo = "/repo"
	}
	wd, _ := os.Getwd()
	out := filepath.Join(wd, "work", fmt.Sprintf("goawk_c03_%d", os.Getpid()))
	os.MkdirAll(filepath.Join(wd, "work"), 0o755)
	cmd := exec.Command("go", "build", "-o", out, ".")
	cmd.Dir = repo
	if b, err := cmd.CombinedOutput(); err != nil {
		rep.HarnessError("cannot build the goawk binary from %s: %v: %s", repo, err, string(b))
		return
	}
	goawkBin = out
}

// checkCLI runs the goawk binary on a source that does not parse (so nothing is executed).
func checkCLI(src []byte, origin string, rep *hx.Report) {
	if goawkBin == "" {
		return
	}
	// the CLI appends a newline to a file that does not end with one
	eff := src
	if !bytes.HasSuffix(eff, []byte("\n")) {
		eff = append(append([]byte{}, src...), '\n')
	}
	r := parseImpl(eff)
	if r.panicVal == nil && (r.err == nil || !r.isPE) {
		return // parses (or fails otherwise): never hand it to the CLI, it would be executed
	}
	f := filepath.Join(filepath.Dir(goawkBin), fmt.Sprintf("c03_prog_%d.awk", os.Getpid()))
	if err := os.WriteFile(f, src, 0o644); err != nil {
		rep.HarnessError("write %s: %v", f, err)
		return
	}
	defer os.Remove(f)
	cmd := exec.Command(goawkBin, "-f", f)
	cmd.Stdin = strings.NewReader("")
	var so, se bytes.Buffer
	cmd.Stdout, cmd.Stderr = &so, &se
	err := cmd.Run()
	status := 0
	if ee, ok := err.(*exec.ExitError); ok {
		status = ee.ExitCode()
	} else if err != nil {
		rep.HarnessError("run goawk: %v", err)
		return
	}
	rep.SearchEvals++
	detail := map[string]any{"kind": "cli", "src_hex": hx.Hex(src), "origin": origin, "exit_status": status,
		"stderr": truncate(se.String(), 600)}
	if len(src) <= 400 {
		detail["src"] = strconv.Quote(string(src))
	}
	if status != 1 || strings.Contains(se.String(), "panic:") {
		rep.Fail(hx.Failure{Class: "cli-crash:" + srcCause(eff, r.pos), Oracle: "the command line tool reports a parse error with exit status 1 and shows the offending line",
			Detail: detail})
		return
	}
	// the line shown is the line the position designates
	lines := strings.Split(se.String(), "\n")
	srcLines := bytes.Split(eff, []byte("\n"))
	if len(lines) >= 2 && r.pos.Line >= 1 && r.pos.Line <= len(srcLines) {
		want := strings.ReplaceAll(string(srcLines[r.pos.Line-1]), "\t", "    ")
		if lines[1] != want {
			detail["want_line"] = want
			rep.Fail(hx.Failure{Class: "cli-wrong-line:" + srcCause(eff, r.pos), Oracle: "the command line tool reports a parse error with exit status 1 and shows the offending line",
				Detail: detail})
		}
	}
}

func truncate(s string, n int) string {
	if len(s) > n {
		return s[:n] + "..."
	}
	return s
}

// ---------------------------------------------------------------- generators

var alphabet = []string{"1", "0", "e", "x", "\"", "/", "\\", "\n", "\r", " ", "+", "-", ".", "#", "$", "{", "}", "&", "|", "=", "<", ">", "!", "\xc3", "\x00"}

func exhaustive(maxLen int) [][]byte {
	var out [][]byte
	var rec func(prefix []byte, n int)
	rec = func(prefix []byte, n int) {
		out = append(out, append([]byte{}, prefix...))
		if n == 0 {
			return
		}
		for _, a := range alphabet {
			rec(append(prefix, a...), n-1)
		}
	}
	rec(nil, maxLen)
	return out
}

var lexemes = []string{
	"BEGIN", "END", "function", "print", "printf", "getline", "if", "else", "while", "for", "do", "in", "delete", "next", "exit", "return",
	"length", "substr", "split", "sub", "gsub", "x", "y1", "_a", "e", "E", "e1", "foo",
	"0", "1", "12", "1.5", ".5", "1.", "1e", "1E", "1e+", "1e-", "1e5", "1e+5", "1.e", ".5e-", "0x1f", "1e+\n", "1e\n", "1e\r\n", "2E-\r\n", ".", "..",
	"\"a\"", "\"\"", "'q'", "\"a\\n\\t\\\"b\"", "\"\\x41\\x4\"", "\"\\u00e9\\u1F600\"", "\"\\101\\7\\777\"", "\"\\", "\"abc", "\"a\nb\"", "\"\\z\"", "\"\\ud800\"", "\"\\xg\"", "\"\\u\"", "\"é\"",
	"/re/", "/a\\/b/", "/=x/", "/[/]/", "/a", "/a\\", "/a\nb/", "/\\\n/",
	"+", "-", "*", "/", "%", "^", "**", "**=", "^=", "+=", "-=", "*=", "/=", "%=", "++", "--", "=", "==", "!=", "<", "<=", ">", ">=", ">>", "~", "!~", "!",
	"&&", "||", "&", "|", "?", ":", ",", ";", "(", ")", "[", "]", "{", "}", "$", "@",
	"\n", "\n", "\r\n", "\r", " ", " ", "\t", "\\\n", "\\\r\n", "\\ ", "\\", "# comment\n", "#c", "#\r\n",
	"\x00", "\xff", "é", "日本", "`", "\x7f",
}

func soup(r *hx.Rand, n int) []byte {
	var b bytes.Buffer
	for i := 0; i < n; i++ {
		b.WriteString(lexemes[r.Intn(len(lexemes))])
		if r.Intn(3) == 0 {
			b.WriteByte(' ')
		}
	}
	return b.Bytes()
}

// statement-level fragments, to let the parser get deep before an error
var fragments = []string{
	"BEGIN { ", "END { ", "{ ", "} ", "}\n", "function f(a, b) { ", "x = 1", "x = 1e", "y = 2E+", "print x, y", "print > \"f\"", "printf \"%d\\n\", x",
	"if (x) ", "else ", "while (x < 10) ", "for (i = 0; i < n; i++) ", "for (k in a) ", "do ", "a[i, j] = $1", "$0 ~ /re/", "x /= 2", "getline line < f",
	"\"cmd\" | getline", "f(1, 2)", "return x", "delete a[1]", "next", "exit 1", "x++", "--y", "!x", "-x ^ 2", "x ? y : z", "(x, y) in a", "substr(s, 1, 2)",
	"sub(/a/, \"b\")", "split(s, a, \",\")", "length", "length()", ";", "\n", "\n", "\r\n", " \\\n ", "# c\n", "1e\n", "1e+\n", "1e\r\n", ", ", " + ", " * ", " && ", " || ", " = ",
}

func fragSoup(r *hx.Rand, n int) []byte {
	var b bytes.Buffer
	for i := 0; i < n; i++ {
		b.WriteString(fragments[r.Intn(len(fragments))])
		b.WriteByte(' ')
	}
	return b.Bytes()
}

func byteSoup(r *hx.Rand, n int) []byte {
	b := make([]byte, n)
	for i := range b {
		switch r.Intn(4) {
		case 0:
			b[i] = byte(r.Intn(256))
		default:
			s := alphabet[r.Intn(len(alphabet))]
			b[i] = s[0]
		}
	}
	return b
}

// corpus: the test-suite programs of the repository
func loadCorpus(rep *hx.Report) [][]byte {
	repo := os.Getenv("VERIF_REPO")
	if repo == "" {
		repo = "/repo"
	}
	var out [][]byte
	seen := map[string]bool{}
	add := func(b []byte) {
		if len(b) < 3 || len(b) > 20000 || seen[string(b)] {
			return
		}
		seen[string(b)] = true
		out = append(out, b)
	}
	var files []string
	for _, pat := range []string{"testdata/*.awk", "testdata/p.*", "testdata/t.*", "testdata/*/*.awk", "examples/*.awk"} {
		fs, _ := filepath.Glob(filepath.Join(repo, pat))
		files = append(files, fs...)
	}
	sort.Strings(files)
	for _, f := range files {
		if b, err := os.ReadFile(f); err == nil {
			add(b)
		}
	}
	for _, tf := range []string{"interp/interp_test.go", "parser/parser_test.go", "lexer/lexer_test.go"} {
		fset := token.NewFileSet()
		af, err := goparser.ParseFile(fset, filepath.Join(repo, tf), nil, 0)
		if err != nil {
			rep.HarnessError("cannot read test programs from %s: %v", tf, err)
			continue
		}
		ast.Inspect(af, func(n ast.Node) bool {
			if bl, ok := n.(*ast.BasicLit); ok && bl.Kind == token.STRING {
				if s, err := strconv.Unquote(bl.Value); err == nil {
					add([]byte(s))
				}
			}
			return true
		})
	}
	if len(out) < 300 {
		rep.HarnessError("test-suite corpus has only %d sources (repository layout changed?)", len(out))
	}
	return out
}

var reNumber = regexp.MustCompile(`[0-9]+(\.[0-9]*)?`)

func mutate(r *hx.Rand, src []byte) ([]byte, string) {
	b := append([]byte{}, src...)
	kind := r.Intn(9)
	switch kind {
	case 0:
		return b, "plain"
	case 1: // truncate
		if len(b) > 1 {
			b = b[:1+r.Intn(len(b)-1)]
		}
		return b, "truncate"
	case 2: // LF -> CRLF
		return bytes.ReplaceAll(b, []byte("\n"), []byte("\r\n")), "crlf"
	case 3: // stray CRs
		for i := 0; i < 3 && len(b) > 0; i++ {
			k := r.Intn(len(b) + 1)
			b = append(b[:k], append([]byte{'\r'}, b[k:]...)...)
		}
		return b, "cr"
	case 4: // line continuations at spaces
		var o bytes.Buffer
		for _, c := range b {
			if c == ' ' && r.Intn(6) == 0 {
				if r.Bool() {
					o.WriteString("\\\n")
				} else {
					o.WriteString("\\\r\n")
				}
			} else {
				o.WriteByte(c)
			}
		}
		return o.Bytes(), "continuation"
	case 5, 6: // a number gets a dangling exponent and a line end after it
		locs := reNumber.FindAllIndex(b, -1)
		ins := []string{"e\n", "e+\n", "E-\n", "e\r\n", "e \n", "e", "e+"}[r.Intn(7)]
		if len(locs) == 0 {
			k := r.Intn(len(b) + 1)
			return append(b[:k], append([]byte(" 1"+ins), b[k:]...)...), "1e"
		}
		k := locs[r.Intn(len(locs))][1]
		return append(b[:k], append([]byte(ins), b[k:]...)...), "1e"
	case 7: // delete a byte range (makes syntax errors deep in the program)
		if len(b) > 4 {
			k := r.Intn(len(b) - 2)
			n := 1 + r.Intn(3)
			if k+n > len(b) {
				n = len(b) - k
			}
			b = append(b[:k], b[k+n:]...)
		}
		return b, "delete"
	default: // insert a hostile lexeme
		k := r.Intn(len(b) + 1)
		ins := lexemes[r.Intn(len(lexemes))]
		return append(b[:k], append([]byte(ins), b[k:]...)...), "insert"
	}
}

// ---------------------------------------------------------------- main

type lexCase struct {
	src    []byte
	mode   string
	origin string
}

func runLexCases(cases []lexCase, o hx.Opts, rep *hx.Report) {
	lines := make([]string, len(cases))
	impl := make([]string, len(cases))
	for i, c := range cases {
		toks, ds, panicked := goLex(c.src, c.mode)
		impl[i] = implLine(toks, panicked)
		lines[i] = "lex " + hx.Hex(c.src) + " " + ds
		rep.SearchEvals++
		checkLex(c.src, c.mode, toks, panicked, c.origin, rep)
	}
	model, err := hx.ModelEval(o.ModelRun, lines)
	if err != nil {
		rep.HarnessError("%v", err)
		return
	}
	// the model's ghost field tstart (the offset the position theorem speaks about) against the
	// offset at which the token's text really is in the source
	var glines []string
	var gidx []int
	for i, c := range cases {
		if c.origin == "exhaustive" || c.origin == "witness" || i%2 == 0 {
			glines = append(glines, "ghost"+strings.TrimPrefix(lines[i], "lex"))
			gidx = append(gidx, i)
		}
	}
	ghost, err := hx.ModelEval(o.ModelRun, glines)
	if err != nil {
		rep.HarnessError("%v", err)
		return
	}
	for j, i := range gidx {
		toks, _, panicked := goLex(cases[i].src, cases[i].mode)
		if panicked || !strings.HasPrefix(model[i], "ok ") || model[i] != impl[i] {
			continue
		}
		starts, ok := expectedStarts(cases[i].src, toks)
		if !ok {
			continue
		}
		gf := strings.Fields(strings.TrimPrefix(ghost[j], "ok"))
		if len(gf) != len(toks) {
			rep.Mismatch(hx.Mismatch{Class: "token-start:" + cases[i].origin, Input: glines[j], Impl: fmt.Sprint(starts), Model: ghost[j]})
			continue
		}
		parts := make([]string, len(toks))
		for k := range toks {
			parts[k] = strconv.Itoa(starts[k])
			if starts[k] < 0 {
				parts[k], gf[k] = "-", "-" // ILLEGAL: the theorem only says the position exists
			}
		}
		rep.CorrEvals++
		rep.Count("start:" + cases[i].origin)
		if got, want := strings.Join(gf, " "), strings.Join(parts, " "); got != want {
			rep.Mismatch(hx.Mismatch{Class: "token-start:" + cases[i].origin, Input: glines[j], Impl: want, Model: got,
				Note: "model ghost tstart per token vs the offset at which the implementation's token text is in the source"})
		}
	}
	for i, c := range cases {
		rep.CorrEvals++
		rep.Count("lex:" + c.origin + ":mode" + c.mode)
		if len(c.src) > 0 {
			rep.Distinct(lines[i])
		}
		if i%1999 == 0 {
			rep.Sample(map[string]string{"request": truncate(lines[i], 200), "impl": truncate(impl[i], 300)})
		}
		if model[i] != impl[i] {
			rep.Mismatch(hx.Mismatch{Class: "lex:" + c.origin, Input: lines[i], Impl: impl[i], Model: model[i]})
		}
	}
}

func replay(o hx.Opts) {
	b, err := os.ReadFile(o.Replay)
	if err != nil {
		fmt.Println(err)
		os.Exit(2)
	}
	var doc struct {
		Failure hx.Failure `json:"failure"`
	}
	if err := json.Unmarshal(b, &doc); err != nil {
		fmt.Println(err)
		os.Exit(2)
	}
	d := doc.Failure.Detail
	src := hx.UnHex(fmt.Sprint(d["src_hex"]))
	rep := hx.NewReport("C03", o.Seed, o.Tier)
	fmt.Printf("replay kind=%v class=%q\nsource: %q\n", d["kind"], doc.Failure.Class, string(src))
	switch d["kind"] {
	case "lex":
		mode := fmt.Sprint(d["mode"])
		toks, ds, panicked := goLex(src, mode)
		fmt.Println("implementation:", implLine(toks, panicked))
		if o.ModelRun != "" {
			if m, err := hx.ModelEval(o.ModelRun, []string{"lex " + hx.Hex(src) + " " + ds}); err == nil {
				fmt.Println("model:         ", m[0])
			}
		}
		pm := posMap(src)
		fmt.Print("true positions by offset:")
		for k, p := range pm {
			if k > 40 {
				break
			}
			fmt.Printf(" %d=%d:%d", k, p.Line, p.Column)
		}
		fmt.Println()
		checkLex(src, mode, toks, panicked, "replay", rep)
	case "parse":
		r := checkParseCfg(src, d["native_funcs"] == true, "replay", rep)
		fmt.Printf("ParseProgram: panic=%v err=%v\n", r.panicVal, r.err)
	case "context":
		off := -1
		if f, ok := d["probe_offset"].(float64); ok {
			off = int(f)
		}
		c := ctxCase{src: string(src), probe: fmt.Sprint(d["probe"]), legal: d["legal"] == true, probeOff: off, where: "replay"}
		checkContext(c, "replay", rep)
		r := parseImpl(src)
		fmt.Printf("ParseProgram: panic=%v err=%v (probe %q at offset %d, legal there: %v)\n", r.panicVal, r.err, c.probe, c.probeOff, c.legal)
	case "cli":
		buildCLI(rep)
		checkCLI(src, "replay", rep)
		if goawkBin != "" {
			os.Remove(goawkBin)
		}
	}
	for _, f := range rep.Failures {
		fmt.Printf("STILL FAILS: class=%q oracle=%q\n", f.Class, f.Oracle)
		for _, k := range []string{"got", "want", "token", "offsets_with_that_position", "panic", "error", "exit_status", "stderr"} {
			if v, ok := f.Detail[k]; ok {
				fmt.Printf("  %s: %v\n", k, v)
			}
		}
	}
	if len(rep.Failures) > 0 {
		os.Exit(1)
	}
	fmt.Println("no longer fails")
}

func main() {
	o := hx.ParseFlags()
	if o.Replay != "" {
		replay(o)
		return
	}
	rep := hx.NewReport("C03", o.Seed, o.Tier)
	thorough := o.Tier == "thorough"
	rep.Rule = "lexer streams: every string of length <= 3 (quick) / 4 (thorough) over a 25-symbol lexical alphabet (modes: never ScanRegex; always after '/' when the string has a '/'), token soups, the repository's test programs (testdata, interp/parser/lexer tests) plain and mutated (truncation, CRLF, stray CR, line continuations, dangling-exponent numbers at line ends, deletions, hostile insertions), each in one of three ScanRegex modes; distinct = distinct model request; non-trivial = non-empty source. Search: independent offset->line/column map vs every reported token; ParseProgram under recover on the same sources plus fragment soups and byte soups up to 32 KiB; goawk binary on a sample of non-parsing sources; plus a family of syntactically valid programs that reach the resolver and the compiler (user functions x parameter roles x ~120 argument shapes incl. parenthesised variables, specials, native functions, undefined functions, wrong arity; every builtin array/lvalue slot x every argument shape; ~60 regex bodies incl. invalid syntax and non-UTF-8 bytes x ~40 regex sites), parsed with native functions configured: verdict must be a Program or a ParseError with an existing position"
	r := hx.NewRand(o.Seed)
	corpus := loadCorpus(rep)

	// 1. exhaustive small strings
	maxLen := 3
	maxModelLen := 2000 // the extracted model indexes a list: quadratic in the source length
	if thorough {
		maxLen = 4
		maxModelLen = 3000
	}
	var cases []lexCase
	for _, s := range exhaustive(maxLen) {
		cases = append(cases, lexCase{s, "0", "exhaustive"})
		if bytes.IndexByte(s, '/') >= 0 {
			cases = append(cases, lexCase{s, "1", "exhaustive"})
		}
	}
	rep.Exhaustive = false
	// 2. the fixed witnesses of the design
	for _, s := range []string{"x = 1e\ny = *", "1e\n", "1e+\n", "1e+\n1", "1e\r\n2", "1.5E-\n\n\nx", "\"\\", "x=/a\\", "BEGIN { x = 1e\n}\n", "1e", "1e+", "1e+5\n", "1ex\n"} {
		for _, m := range []string{"0", "1", "p"} {
			cases = append(cases, lexCase{[]byte(s), m, "witness"})
		}
	}
	// 3. random: soups and mutated corpus
	n := o.N
	if n == 0 {
		n = 5000
		if thorough {
			n = 100000
		}
	}
	modes := []string{"0", "1", "p", "p"}
	var parseOnly [][]byte
	var parseOrigins []string
	for i := 0; i < n; i++ {
		var src []byte
		origin := ""
		switch r.Intn(10) {
		case 0, 1, 2:
			src, origin = soup(r, 1+r.Intn(12)), "soup"
		case 3:
			src, origin = fragSoup(r, 1+r.Intn(15)), "fragments"
		case 4:
			src, origin = byteSoup(r, r.Intn(24)), "bytes"
		default:
			var how string
			src, how = mutate(r, corpus[r.Intn(len(corpus))])
			origin = "corpus-" + how
		}
		if len(src) > maxModelLen {
			src = src[:maxModelLen]
		}
		cases = append(cases, lexCase{src, modes[r.Intn(len(modes))], origin})
	}
	for _, c := range corpus { // every test program once, unmodified, parser-like mode
		if len(c) <= maxModelLen {
			cases = append(cases, lexCase{c, "p", "corpus-plain"})
		}
	}
	t0 := time.Now()
	runLexCases(cases, o, rep)
	fmt.Fprintln(os.Stderr, "lex cases", len(cases), time.Since(t0))

	// 4. ParseProgram: same sources (once each) + large soups
	seenSrc := map[string]bool{}
	for _, c := range cases {
		if c.origin == "exhaustive" && len(c.src) > 2 && !thorough {
			// quick tier: the exhaustive strings of length 3 go through the lexer only, except a sample
			if r.Intn(8) != 0 {
				continue
			}
		}
		if !seenSrc[string(c.src)] {
			seenSrc[string(c.src)] = true
			parseOnly = append(parseOnly, c.src)
			parseOrigins = append(parseOrigins, c.origin)
		}
	}
	big := 60
	if thorough {
		big = 3000
	}
	for i := 0; i < big; i++ {
		var src []byte
		origin := ""
		switch r.Intn(5) {
		case 0:
			src, origin = byteSoup(r, 1+r.Intn(32768)), "big-bytes"
		case 1:
			src, origin = soup(r, 1+r.Intn(6000)), "big-soup"
		case 2:
			src, origin = fragSoup(r, 1+r.Intn(2500)), "big-fragments"
		case 3: // deep nesting
			open := []string{"(", "{", "[", "((", "x[", "f(", "-", "!", "$", "1+", "x?", "if(1)", "while(1)", "a=b="}[r.Intn(14)]
			src, origin = []byte("BEGIN{x="+strings.Repeat(open, 1+r.Intn(32000/len(open)))), "big-nesting"
			if r.Bool() {
				src = []byte(strings.Repeat(open, 1+r.Intn(32000/len(open))))
			}
		default: // several corpus programs glued, then mutated
			var bb bytes.Buffer
			for bb.Len() < 1+r.Intn(30000) {
				bb.Write(corpus[r.Intn(len(corpus))])
				bb.WriteByte('\n')
			}
			src, _ = mutate(r, bb.Bytes())
			origin = "big-corpus"
		}
		if len(src) > 32768 {
			src = src[:32768]
		}
		parseOnly = append(parseOnly, src)
		parseOrigins = append(parseOrigins, origin)
	}
	var erroring []int
	for i, src := range parseOnly {
		rep.SearchEvals++
		rep.Count("parse:" + parseOrigins[i])
		pr := checkParse(src, parseOrigins[i], rep)
		if pr.panicVal != nil || pr.err != nil {
			erroring = append(erroring, i)
		}
	}
	// 4b. programs that reach the resolver and the compiler (resolve.go)
	resCases := systematicResolve()
	nres := 6000
	if thorough {
		nres = 300000
	}
	for i := 0; i < nres; i++ {
		resCases = append(resCases, randomResolve(r))
	}
	accepted := 0
	for i, c := range resCases {
		rep.SearchEvals++
		rep.Count("parse:" + strings.SplitN(c.origin, ":", 2)[0])
		pr := checkParseCfg([]byte(c.src), true, c.origin, rep)
		if pr.panicVal == nil && pr.err == nil {
			accepted++
		}
		if (pr.panicVal != nil || pr.err != nil) && i%7 == 0 {
			parseOnly = append(parseOnly, []byte(c.src))
			parseOrigins = append(parseOrigins, c.origin)
			erroring = append(erroring, len(parseOnly)-1)
		}
	}
	// 4c. context-state histories with a reference verdict (context.go)
	nctx := 12000
	if thorough {
		nctx = 400000
	}
	runContextFamily(r, nctx, rep)
	rep.Hist["parse:resolve-family-accepted"] = accepted
	rep.Hist["parse:erroring"] = len(erroring)
	fmt.Fprintln(os.Stderr, "parse cases", len(parseOnly), time.Since(t0))

	// 5. CLI on a sample of erroring sources (all witnesses, then random)
	buildCLI(rep)
	cliN := 50
	if thorough {
		cliN = 4000
	}
	done := 0
	for _, i := range erroring {
		if parseOrigins[i] == "witness" {
			checkCLI(parseOnly[i], parseOrigins[i], rep)
		}
	}
	for done < cliN && len(erroring) > 0 {
		i := erroring[r.Intn(len(erroring))]
		if len(parseOnly[i]) >= 3 {
			checkCLI(parseOnly[i], parseOrigins[i], rep)
			rep.Count("cli:" + parseOrigins[i])
		}
		done++
	}
	if goawkBin != "" {
		os.Remove(goawkBin)
	}
	fmt.Fprintln(os.Stderr, "cli done", time.Since(t0))
	rep.Write(o.Out)
}
