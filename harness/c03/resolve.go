// C03 harness, second family: SYNTACTICALLY VALID (or nearly valid) programs that get past the
// lexer and the parser proper and stress the stages behind them in parser.ParseProgram: the
// resolver (scalar/array typing of variables, parameters and arguments, undefined and native
// functions, arity) and the compiler (its assumptions about what the resolver accepted, and
// regex literals).  Oracle (checkParse): the verdict is a Program or a ParseError whose position
// exists in the source -- never a panic.  The programs are never executed.
package main

import (
	"fmt"
	"strings"

	"verif/harness/hx"
)

// native functions offered to the parser for this family (parser.ParserConfig.Funcs)
var nativeFuncs = map[string]any{
	"nat":  func(a float64) float64 { return a },
	"nat2": func(a, b string) int { return len(a) + len(b) },
	"natv": func(args ...string) string { return strings.Join(args, "") },
	"nat0": func() bool { return true },
}

// how a function body uses its parameter P (Q: a second parameter, G: another function)
var paramRoles = []struct{ name, body string }{
	{"unused", `x = 1`},
	{"scalar-assign", `P = 1`},
	{"scalar-read", `print P + 1`},
	{"scalar-incr", `P++`},
	{"scalar-concat", `y = P "s"`},
	{"scalar-field", `print $P`},
	{"scalar-regex", `if (P ~ /a/) x = 1`},
	{"array-index", `P[1] = 1`},
	{"array-read", `x = P["k"]`},
	{"array-multi", `P[1, 2] = 3`},
	{"array-in", `if (1 in P) x = 1`},
	{"array-multi-in", `if ((1, 2) in P) x = 1`},
	{"array-forin", `for (k in P) x = k`},
	{"array-delete-elem", `delete P[1]`},
	{"array-delete-all", `delete P`},
	{"array-split", `split("a b", P)`},
	{"array-split-sep", `split("a b", P, /b/)`},
	{"array-length", `x = length(P)`},
	{"array-incr-elem", `P[1]++`},
	{"array-sub-target", `sub(/a/, "b", P[1])`},
	{"array-getline-elem", `getline P[1]`},
	{"forward", `G(P)`},
	{"forward-paren", `G((P))`},
	{"forward-second", `G(1, P)`},
	{"forward-self", `if (0) F(P)`},
	{"both", `P[1] = 1; P = 2`},
	{"call-as-func", `P(1)`},
	{"native-arg", `x = nat(P)`},
	{"return", `return P`},
	{"return-elem", `return P[1]`},
	{"getline-var", `getline P`},
	{"getline-file", `getline P < "f"`},
	{"cmd-getline", `"cmd" | getline P`},
	{"printf-dest", `print 1 > P`},
	{"sub-target", `sub(/a/, "b", P)`},
	{"substr", `x = substr(P, 1, 2)`},
	{"split-source", `split(P, A)`},
	{"in-index", `if (P in A) x = 1`},
	{"delete-index", `delete A[P]`},
}

// argument shapes at a call site (V: a variable name)
var argShapes = []string{
	`V`, `(V)`, `((V))`, `(((V)))`, `( V )`, `V[1]`, `(V[1])`, `V[1, 2]`, `$1`, `$V`, `$(V)`, `($1)`, `$NF`,
	`1`, `(1)`, `"s"`, `("s")`, `1e`, `-V`, `!V`, `+V`, `V++`, `++V`, `(V)++`, `V--`, `V = 1`, `(V = 1)`, `V += 1`,
	`V "s"`, `V V`, `(V) V`, `V + 1`, `(V) + 1`, `V ? V : V`, `V ? (V) : 1`, `V ~ /re/`, `V ~ "re"`, `/re/`, `(/re/)`, `!/re/`,
	`V in A`, `(V in A)`, `(1, 2) in V`, `V == V`, `V < 1`, `(V < 1)`, `V && V`, `V || 1`,
	`getline`, `(getline)`, `getline V`, `(getline V)`, `getline < "f"`, `(getline V < "f")`, `"cmd" | getline`, `("cmd" | getline V)`,
	`length`, `length()`, `length(V)`, `length((V))`, `substr(V, 1)`, `index(V, "a")`, `split(V, A)`, `split("a", V)`, `sprintf("%d", V)`,
	`sub(/a/, "b")`, `sub(/a/, "b", V)`, `gsub(/a/, "b", (V))`, `match(V, /a/)`, `tolower(V)`, `int(V)`, `rand()`, `srand()`, `system("")`, `close(V)`, `fflush()`,
	`G(V)`, `G((V))`, `G()`, `F(V)`, `u(V)`, `nat(V)`, `nat((V))`, `natv(V, V)`, `nat0()`, `nat2(V, A)`,
	`NF`, `(NF)`, `NR`, `FS`, `(FS)`, `ENVIRON`, `(ENVIRON)`, `ARGV`, `ARGC`, `RSTART`, `$0`, `($0)`,
	`@"f"`, `(@"f")`, `V[V]`, `V[(V)]`, `V[V[1]]`, `(V)[1]`, `V, V`, `(V, V)`, ``, `V,`,
}

var argVars = []string{"x", "A", "p", "q", "NF", "ENVIRON", "f", "g", "u", "nat", "k", "ARGV", "FS", "zz"}

// regex bodies, valid and invalid, incl. raw non-UTF-8 bytes (bodies without '/' and newline)
var regexBodies = []string{
	`a`, `a+b*`, ``, `^$`, `[a-z]+`, `(a|b)`, `a{2,3}`, `\.`, `\/`, `a\/b`, `=`, `=a`, `.`,
	`a(`, `(`, `)`, `[`, `[a`, `[]`, `[^]`, `*a`, `+`, `?`, `a**`, `a{2,1}`, `a{99999}`, `a{`, `{`, `\`, `\\`, `a\`, `(?i)a`, `(?P<n>a)`, `(?`, `\1`, `\x`, `\xff`, `\777`, `\p{Greek}`, `\pX`, `\C`, `\Q`, `[[:alpha:]]`, `[[:foo:]]`, `[a-\x]`, `[z-a]`,
	"\xff", "a\xffb", "\xc3", "\xc3\x28", "[\xff]", "\xe2\x82", "é", "日本", "\x00", "a\x00b", "(\xff", "\\\xff", "\xff*", "[^\xff-\xfe]",
}

// where a regex (literal /R/ or dynamic string "R") may appear
var regexSites = []string{
	`/R/`, `/R/ { print }`, `!/R/`, `/R/, /R/`, `/R/ && /a/`, `$0 ~ /R/`, `$1 !~ /R/`, `BEGIN { x = /R/ }`, `BEGIN { if (x ~ /R/) y = 1 }`,
	`BEGIN { match(x, /R/) }`, `BEGIN { split(x, A, /R/) }`, `BEGIN { sub(/R/, "r") }`, `BEGIN { gsub(/R/, "r", x) }`, `BEGIN { x = (/R/) }`,
	`BEGIN { f(/R/) } function f(a) { return a }`, `BEGIN { x = y ~ /R/ ? 1 : 2 }`, `BEGIN { while (getline l && l !~ /R/) n++ }`,
	`BEGIN { print /R/ }`, `BEGIN { print > /R/ }`, `BEGIN { A[/R/] = 1 }`, `BEGIN { x = /R/ /R/ }`, `BEGIN { x /= /R/ }`, `BEGIN { x = 1 /R/ 2 }`,
	`BEGIN { match(x, "R") }`, `BEGIN { split(x, A, "R") }`, `BEGIN { sub("R", "r") }`, `BEGIN { gsub("R", "r", x) }`, `BEGIN { x = y ~ "R" }`, `$0 ~ "R"`,
	`BEGIN { FS = "R" }`, `BEGIN { RS = "R" }`, `BEGIN { x = "R"; if (y ~ x) z = 1 }`, `function f(a) { return a ~ /R/ } BEGIN { f(1) }`,
	`END { if (/R/) print }`, `{ n += /R/ }`, `/R/ { next } 1`, `BEGIN { getline x < /R/ }`, `BEGIN { x = length(/R/) }`, `BEGIN { x = substr(/R/, 1) }`,
}

// programs around builtins that require an array / lvalue argument, with every argument shape
var builtinArraySites = []string{
	`BEGIN { split("a b", ARG) }`, `BEGIN { split("a b", ARG, " ") }`, `BEGIN { n = length(ARG) }`, `BEGIN { delete ARG }`, `BEGIN { delete ARG[1] }`,
	`BEGIN { if (1 in ARG) x = 1 }`, `BEGIN { if ((1, 2) in ARG) x = 1 }`, `BEGIN { for (k in ARG) x = k }`, `BEGIN { for (ARG in A) x = 1 }`,
	`BEGIN { sub(/a/, "b", ARG) }`, `BEGIN { gsub(/a/, "b", ARG) }`, `BEGIN { getline ARG }`, `BEGIN { getline ARG < "f" }`, `BEGIN { "cmd" | getline ARG }`,
	`BEGIN { ARG = 1 }`, `BEGIN { ARG++ }`, `BEGIN { ++ARG }`, `BEGIN { ARG[1] = 1 }`, `BEGIN { ARG += 1 }`, `BEGIN { x = ARG[1] }`, `BEGIN { $ARG = 1 }`,
	`function f(a) { split("a", ARG) } BEGIN { f(x) }`, `function f(a) { delete ARG } BEGIN { f(A) }`, `function f(a) { for (k in ARG) n++ } BEGIN { f(1) }`,
	`function f(ARG) { ARG[1] = 1 } BEGIN { f(x) }`, `function ARG(a) { return 1 } BEGIN { ARG(1) }`, `function f(a, ARG) { return 1 } BEGIN { f(1) }`,
}

type resCase struct {
	src    string
	origin string
}

// substitute only whole-word occurrences of the single-letter placeholders
func substWord(tmpl, key, val string) string {
	var b strings.Builder
	isW := func(c byte) bool {
		return c == '_' || c >= '0' && c <= '9' || c >= 'a' && c <= 'z' || c >= 'A' && c <= 'Z'
	}
	for i := 0; i < len(tmpl); {
		if strings.HasPrefix(tmpl[i:], key) && (i == 0 || !isW(tmpl[i-1])) && (i+len(key) >= len(tmpl) || !isW(tmpl[i+len(key)])) {
			b.WriteString(val)
			i += len(key)
		} else {
			b.WriteByte(tmpl[i])
			i++
		}
	}
	return b.String()
}

func roleBody(role string, p, q, g, f string) string {
	s := substWord(role, "P", p)
	s = substWord(s, "Q", q)
	s = substWord(s, "G", g)
	s = substWord(s, "F", f)
	return s
}

func argText(shape, v string) string {
	s := substWord(shape, "V", v)
	s = substWord(s, "G", "g")
	s = substWord(s, "F", "f")
	return s
}

// systematic part: every parameter role x every argument shape (with a few variables), the
// callee's parameter in first or second position, caller at top level or inside a function
func systematicResolve() []resCase {
	var out []resCase
	for _, role := range paramRoles {
		body := roleBody(role.body, "a", "b", "g", "f")
		for si, shape := range argShapes {
			for vi, v := range []string{"x", "A", "p"} {
				if (si+vi)%3 != 0 && v != "x" {
					continue // all shapes with x, a third of them with A and with the caller's parameter p
				}
				arg := argText(shape, v)
				var src string
				switch (si + vi) % 4 {
				case 0:
					src = fmt.Sprintf("function f(a) { %s }\nfunction g(a, b) { b[1] = 1; return a }\nBEGIN { f(%s) }\n", body, arg)
				case 1:
					src = fmt.Sprintf("function g(a, b) { a[1]; return b }\nfunction f(a, b) { %s }\nfunction h(p, q) { f(%s); q[1] = 2 }\nBEGIN { h(1) }\n", body, arg)
				case 2:
					src = fmt.Sprintf("BEGIN { A[1] = 1; f(%s) }\nfunction f(a) { %s }\nfunction g(a) { return a }\n", arg, body)
				default:
					src = fmt.Sprintf("function f(b, a) { %s }\nfunction g(a) { delete a }\n{ f(0, %s) }\n", body, arg)
				}
				out = append(out, resCase{src, "resolve-sys:" + role.name})
			}
		}
	}
	for _, site := range regexSites {
		for _, r := range regexBodies {
			dyn := strings.NewReplacer(`\`, `\\`, `"`, `\"`).Replace(r)
			src := site
			src = strings.ReplaceAll(src, `"R"`, `"`+dyn+`"`)
			src = strings.ReplaceAll(src, `/R/`, `/`+r+`/`)
			out = append(out, resCase{src + "\n", "resolve-sys:regex"})
		}
	}
	for _, site := range builtinArraySites {
		for si, shape := range argShapes {
			for vi, v := range []string{"x", "A", "a", "NF", "ENVIRON", "f", "nat"} {
				if (si+vi)%4 != 0 && v != "x" {
					continue
				}
				out = append(out, resCase{strings.ReplaceAll(site, "ARG", argText(shape, v)) + "\n", "resolve-sys:builtin-array"})
			}
		}
	}
	return out
}

// random part: several functions with random roles per parameter and random call sites
func randomResolve(r *hx.Rand) resCase {
	names := []string{"f", "g", "h"}
	nf := 1 + r.Intn(3)
	var sb strings.Builder
	params := [][]string{}
	for i := 0; i < nf; i++ {
		np := r.Intn(4)
		if np > 3 {
			np = 3
		}
		ps := []string{"a", "b", "c"}[:np]
		params = append(params, ps)
	}
	callTo := func(caller int) string {
		var callee string
		switch r.Intn(8) {
		case 0:
			callee = []string{"u", "nat", "natv", "nat2", "nat0", "x", "A", "NF", "length"}[r.Intn(9)]
		default:
			callee = names[r.Intn(nf)]
		}
		n := r.Intn(4)
		for i, nm := range names[:nf] {
			if nm == callee && r.Intn(5) != 0 {
				n = len(params[i]) - r.Intn(2)*r.Intn(2)
				if n < 0 {
					n = 0
				}
			}
		}
		args := make([]string, n)
		for i := range args {
			vars := append([]string{}, argVars...)
			if caller >= 0 {
				vars = append(vars, params[caller]...)
				vars = append(vars, params[caller]...)
			}
			args[i] = argText(argShapes[r.Intn(len(argShapes))], vars[r.Intn(len(vars))])
		}
		return callee + "(" + strings.Join(args, ", ") + ")"
	}
	stmt := func(caller int) string {
		switch r.Intn(5) {
		case 0, 1:
			return callTo(caller)
		case 2:
			return "x = " + callTo(caller)
		default:
			role := paramRoles[r.Intn(len(paramRoles))]
			p, q := "x", "y"
			if caller >= 0 && len(params[caller]) > 0 {
				p = params[caller][r.Intn(len(params[caller]))]
				q = params[caller][r.Intn(len(params[caller]))]
			} else if r.Bool() {
				p = argVars[r.Intn(len(argVars))]
			}
			return roleBody(role.body, p, q, names[r.Intn(nf)], names[r.Intn(nf)])
		}
	}
	item := func(i int) {
		fmt.Fprintf(&sb, "function %s(%s) { ", names[i], strings.Join(params[i], ", "))
		for k := 0; k < 1+r.Intn(3); k++ {
			sb.WriteString(stmt(i))
			sb.WriteString("; ")
		}
		sb.WriteString("}\n")
	}
	order := r.Intn(2) // functions before or after the rules
	if order == 0 {
		for i := 0; i < nf; i++ {
			item(i)
		}
	}
	for k := 0; k < 1+r.Intn(2); k++ {
		sb.WriteString([]string{"BEGIN ", "", "END ", "NR > 1 ", "/a/ "}[r.Intn(5)])
		sb.WriteString("{ ")
		for j := 0; j < 1+r.Intn(3); j++ {
			sb.WriteString(stmt(-1))
			sb.WriteString("; ")
		}
		sb.WriteString("}\n")
	}
	if order == 1 {
		for i := 0; i < nf; i++ {
			item(i)
		}
	}
	return resCase{sb.String(), "resolve-random"}
}
