// C03 harness, third family: context-state histories.  The parser keeps context state while it
// descends (loopDepth, funcName, inAction, print/getline contexts); the legality of break,
// continue, return, next and nextfile depends on it.  Each program here is valid except for at
// most one PROBE statement, placed anywhere: inside or AFTER constructs that raise a context
// counter (all five loop forms x body shapes {empty ';', single statement, block, nested},
// function bodies, BEGIN/END, print/getline contexts), in the same block, a later statement, a
// later item or a later function.  Reference verdict, computed by the generator from the probe's
// true nesting: legal -> ParseProgram returns a Program; illegal -> a ParseError with the
// defining message at the probe's own line and column.  Never a panic.
package main

import (
	"fmt"
	"strings"

	"github.com/benhoyt/goawk/lexer"
	"verif/harness/hx"
)

type ctxState struct {
	loops  int  // enclosing loop bodies
	inFunc bool // inside a function body
	inRule bool // inside a pattern-action rule (not BEGIN/END)
}

type ctxGen struct {
	r       *hx.Rand
	placed  bool
	probe   string // break continue return next nextfile
	legal   bool
	where   string // description of the slot (histogram / class)
	history []string
	wantAt  int // ordinal of the statement slot that gets the probe
	slot    int
}

const probeMark = "\x01PROBE\x01"

var ctxProbes = []string{"break", "continue", "return", "next", "nextfile"}

func (g *ctxGen) legalHere(c ctxState) bool {
	switch g.probe {
	case "break", "continue":
		return c.loops > 0
	case "return":
		return c.inFunc
	default: // next, nextfile
		return c.inRule || c.inFunc
	}
}

// a statement slot: maybe the probe goes here
func (g *ctxGen) maybeProbe(c ctxState, where string) (string, bool) {
	g.slot++
	if g.placed || g.slot != g.wantAt {
		return "", false
	}
	g.placed = true
	g.legal = g.legalHere(c)
	g.where = where
	text := probeMark
	if g.probe == "return" && g.r.Bool() {
		text += " x"
	}
	switch g.r.Intn(4) {
	case 0:
		return "if (x) " + text, true
	case 1:
		return "if (x) y = 1; else " + text, true
	}
	return text, true
}

var ctxSimple = []string{
	`x = 1`, `y = x + 1`, `print x`, `print x, y`, `print(x, y)`, `print (x)(y)`, `print x > "/dev/null"`, `print (x > 1) > "/dev/null"`,
	`printf "%d\n", x`, `printf("%d %d\n", x, y) >> "/dev/null"`, `print x | "cat"`, `z = (1, 2) in a`, `print (1, 2) in a`, `print((1, 2) in a)`,
	`getline line`, `getline line < "/dev/null"`, `"echo" | getline`, `"echo" | getline line`, `while ((getline line < "/dev/null") > 0) x++`,
	`a[1] = x`, `delete a[1]`, `x++`, `if (x) y = 2`, `if (x) { y = 2 } else { y = 3 }`, `z = x ? y : 1`, `z = length()`, `split("a b", a)`, `sub(/a/, "b")`,
	`{ x = 2 }`, `{ }`, `x = f(1)`, `exit`,
}

func (g *ctxGen) loopHeader(form int) (head, tail string) {
	switch form {
	case 0:
		return "for (i = 0; i < 3; i++) ", ""
	case 1:
		return "for (;;) ", ""
	case 2:
		return "while (i++ < 3) ", ""
	case 3:
		return "do ", " while (n-- > 0)"
	default:
		return "for (k in a) ", ""
	}
}

// one statement (possibly compound); depth limits nesting
func (g *ctxGen) stmt(c ctxState, depth int) string {
	if s, ok := g.maybeProbe(c, g.describe(c)); ok {
		return s
	}
	if depth <= 0 || g.r.Intn(3) == 0 {
		return ctxSimple[g.r.Intn(len(ctxSimple))]
	}
	switch g.r.Intn(6) {
	case 0, 1, 2, 3: // a loop: 5 forms x 4 body shapes
		form := g.r.Intn(5)
		head, tail := g.loopHeader(form)
		in := c
		in.loops++
		shape := g.r.Intn(4)
		g.history = append(g.history, fmt.Sprintf("loop%d/%s", form, []string{"empty", "single", "block", "nested"}[shape]))
		var body string
		switch shape {
		case 0:
			body = ";"
			if tail != "" {
				body = ";" // do ; while (...)
			}
		case 1:
			body = g.stmt(in, 0)
			if tail != "" {
				body += ";"
			}
		case 2:
			body = "{ " + g.stmts(in, depth-1, 1+g.r.Intn(3)) + " }"
		default:
			h2, t2 := g.loopHeader(g.r.Intn(5))
			in2 := in
			in2.loops++
			inner := g.stmt(in2, 0)
			if g.r.Intn(3) == 0 {
				inner = ";"
			} else if t2 != "" {
				inner += ";"
			}
			body = h2 + inner + t2
			if tail != "" {
				body += ";"
			}
		}
		return head + body + tail
	case 4:
		return "if (x) { " + g.stmts(c, depth-1, 1+g.r.Intn(2)) + " } else { " + g.stmts(c, depth-1, 1+g.r.Intn(2)) + " }"
	default:
		return "{ " + g.stmts(c, depth-1, 1+g.r.Intn(3)) + " }"
	}
}

func (g *ctxGen) describe(c ctxState) string {
	s := "top"
	switch {
	case c.inFunc:
		s = "func"
	case c.inRule:
		s = "rule"
	default:
		s = "beginend"
	}
	if c.loops > 0 {
		s += "+loop"
	}
	if len(g.history) > 0 {
		s += "+after-" + strings.SplitN(g.history[len(g.history)-1], "/", 2)[1] + "-body"
	}
	return s
}

func (g *ctxGen) stmts(c ctxState, depth, n int) string {
	var sb strings.Builder
	for i := 0; i < n; i++ {
		s := g.stmt(c, depth)
		sb.WriteString(s)
		if i == n-1 {
			break
		}
		last := s[len(s)-1]
		switch {
		case last == ';': // empty loop body: the next statement follows directly
			sb.WriteString([]string{" ", "\n", "\n\n"}[g.r.Intn(3)])
		case last == '}':
			sb.WriteString([]string{" ", "\n", "; "}[g.r.Intn(3)])
		default:
			sb.WriteString([]string{"; ", "\n", ";\n"}[g.r.Intn(3)])
		}
	}
	return sb.String()
}

type ctxCase struct {
	src      string
	probe    string
	legal    bool
	where    string
	probeOff int // offset of the probe keyword, -1 if the program has no probe
}

func genContext(r *hx.Rand) ctxCase {
	g := &ctxGen{r: r, probe: ctxProbes[r.Intn(len(ctxProbes))]}
	g.wantAt = 1 + r.Intn(14)
	var sb strings.Builder
	nItems := 1 + r.Intn(4)
	for i := 0; i < nItems; i++ {
		n := 1 + r.Intn(3)
		switch r.Intn(6) {
		case 0:
			sb.WriteString("BEGIN { " + g.stmts(ctxState{}, 2, n) + " }\n")
		case 1:
			sb.WriteString("END { " + g.stmts(ctxState{}, 2, n) + " }\n")
		case 2:
			sb.WriteString("function g" + fmt.Sprint(i) + "(n, m) { " + g.stmts(ctxState{inFunc: true}, 2, n) + " }\n")
		case 3:
			sb.WriteString("NR > 1 { " + g.stmts(ctxState{inRule: true}, 2, n) + " }\n")
		case 4:
			sb.WriteString("/re/, /er/ { " + g.stmts(ctxState{inRule: true}, 2, n) + " }\n")
		default:
			sb.WriteString("{ " + g.stmts(ctxState{inRule: true}, 2, n) + " }\n")
		}
	}
	sb.WriteString("function f(n) { return n + 1 }\n")
	src := sb.String()
	c := ctxCase{probe: g.probe, legal: g.legal, where: g.where, probeOff: -1}
	if g.placed {
		c.probeOff = strings.Index(src, probeMark)
		src = strings.Replace(src, probeMark, g.probe, 1)
	}
	c.src = src
	return c
}

var ctxMessage = map[string]string{
	"break":    "break must be inside a loop body",
	"continue": "continue must be inside a loop body",
	"return":   "return must be inside a function",
	"next":     "next can't be inside BEGIN or END",
	"nextfile": "nextfile can't be inside BEGIN or END",
}

// the fixed witnesses of the family (an empty loop body followed by a probe outside any loop, ...)
var ctxWitnesses = []ctxCase{
	{src: "BEGIN { for (i = 0; i < 3; i++); break }\n", probe: "break", probeOff: 33},
	{src: "BEGIN { while (i++ < 3); continue }\n", probe: "continue", probeOff: 25},
	{src: "BEGIN { for (k in a); print 1 }\nEND { if (x) break }\n", probe: "break", probeOff: 45},
	{src: "function f(n) { do ; while (n-- > 0)\n continue }\n", probe: "continue", probeOff: 38},
	{src: "{ for (;;); }\n{ x = 1; break }\n", probe: "break", probeOff: 23},
	{src: "function f(n) { return n }\nBEGIN { return }\n", probe: "return", probeOff: 35},
	{src: "{ next }\nEND { next }\n", probe: "next", probeOff: 15},
	{src: "BEGIN { for (;;) { for (;;); break } }\n", probe: "break", legal: true, probeOff: 29},
	{src: "BEGIN { do ; while (0)\n while (1) ; }\nEND { continue }\n", probe: "continue", probeOff: 44},
}

func checkContext(c ctxCase, origin string, rep *hx.Report) {
	src := []byte(c.src)
	rep.SearchEvals++
	pr := checkParseCfg(src, false, origin, rep) // panic / position-exists oracles
	if pr.panicVal != nil || c.probeOff < 0 {
		if c.probeOff < 0 && pr.err != nil {
			rep.Fail(hx.Failure{Class: "context-verdict:valid-program-rejected", Oracle: "a statement whose legality depends on the parser's context is accepted exactly inside that context",
				Detail: map[string]any{"kind": "context", "src_hex": hx.Hex(src), "src": c.src, "origin": origin, "probe": "", "legal": true, "probe_offset": -1, "got": pr.err.Error(), "want": "a Program"}})
		}
		return
	}
	want := posMap(src)[c.probeOff]
	detail := map[string]any{"kind": "context", "src_hex": hx.Hex(src), "src": c.src, "origin": origin, "probe": c.probe, "legal": c.legal,
		"probe_offset": c.probeOff, "where": c.where}
	oracle := "a statement whose legality depends on the parser's context is accepted exactly inside that context"
	switch {
	case c.legal && pr.err != nil:
		detail["got"], detail["want"] = pr.err.Error(), "a Program"
		rep.Fail(hx.Failure{Class: "context-verdict:" + c.probe + "-rejected-inside-its-context", Oracle: oracle, Detail: detail})
	case !c.legal && pr.err == nil:
		detail["got"], detail["want"] = "a Program", fmt.Sprintf("parse error at %d:%d: %s", want.Line, want.Column, ctxMessage[c.probe])
		rep.Fail(hx.Failure{Class: "context-verdict:" + c.probe + "-accepted-outside-its-context", Oracle: oracle, Detail: detail})
	case !c.legal:
		if !pr.isPE || pr.pos != (lexer.Position{Line: want.Line, Column: want.Column}) || !strings.Contains(pr.err.Error(), ctxMessage[c.probe]) {
			detail["got"], detail["want"] = pr.err.Error(), fmt.Sprintf("parse error at %d:%d: %s", want.Line, want.Column, ctxMessage[c.probe])
			rep.Fail(hx.Failure{Class: "context-verdict:" + c.probe + "-wrong-error", Oracle: oracle, Detail: detail})
		}
	}
}

func runContextFamily(r *hx.Rand, n int, rep *hx.Report) {
	for _, w := range ctxWitnesses {
		w.where = "witness"
		w.probeOff = strings.LastIndex(w.src, w.probe)
		rep.Count("context:witness")
		checkContext(w, "context-witness", rep)
	}
	for i := 0; i < n; i++ {
		c := genContext(r)
		key := "context:none"
		if c.probeOff >= 0 {
			key = fmt.Sprintf("context:%s:legal=%v", c.probe, c.legal)
		}
		rep.Count(key)
		checkContext(c, "context-random", rep)
	}
}
