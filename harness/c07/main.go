// C07 harness: record reading under chunked delivery.
//
// Implementation: goawk's public API (parser.ParseProgram + interp.ExecProgram) with
// Config.Stdin = a reader that delivers chosen chunks (0-byte reads and "last chunk together
// with io.EOF" included) running
//
//	BEGIN { RS = RSV() } { printf "%d %s %s\n", NR, H($0), H(RT) }
//
// Correspondence: the reads the reader really performed (bufio may cut a chunk at its buffer
// edge) are sent to the extracted Coq model (modelrun "scan"), answers are compared verbatim.
// Search (implementation only): (A) chunked delivery vs all-at-once delivery of the same bytes
// must print the same (NR, $0, RT) sequence; (B) the reconstruction equations of the property,
// computed here independently of the model.
package main

import (
	"bytes"
	"encoding/json"
	"fmt"
	"io"
	"os"
	"regexp"
	"strconv"
	"strings"
	"time"
	"unicode/utf8"

	"github.com/benhoyt/goawk/interp"
	"github.com/benhoyt/goawk/parser"
	"verif/harness/hx"
)

const progSrc = `BEGIN { RS = RSV() } { printf "%d %s %s\n", NR, H($0), H(RT) }`

// RS assigned by the action of record K while the (regex) splitter of the file is active
const progSrc2 = `BEGIN { RS = RSV() } { printf "%d %s %s\n", NR, H($0), H(RT) } NR == K() { RS = RSV2() }`

// Other scanners used between two records of the main input: getline from one or two side files,
// or from a command.  The main record stream must not notice.
const progSrc3 = `BEGIN { RS = RSV() } { printf "%d %s %s\n", NR, H($0), H(RT) }
NR == K() { op = OP(); f = SIDE(); g = SIDE2(); c = CMD()
  if (op == 1) { getline x < f } else if (op == 2) { getline x < f; getline y < g; getline x < f } else if (op == 3) { c | getline x } }`

// ---------------------------------------------------------------- chunk reader

type chunkReader struct {
	data    []byte
	cuts    []int // requested read sizes (0 = a read returning no bytes); sum = len(data)
	pos, k  int
	lastEOF bool  // deliver io.EOF together with the final read
	log     []int // sizes really returned, in order
}

func (c *chunkReader) Read(p []byte) (int, error) {
	if c.k >= len(c.cuts) {
		return 0, io.EOF
	}
	want := c.cuts[c.k]
	n := want
	if n > len(p) {
		n = len(p)
	}
	copy(p, c.data[c.pos:c.pos+n])
	c.pos += n
	if n == want {
		c.k++
	} else {
		c.cuts[c.k] -= n
	}
	c.log = append(c.log, n)
	if c.lastEOF && c.k >= len(c.cuts) {
		return n, io.EOF
	}
	return n, nil
}

// ---------------------------------------------------------------- running the implementation

var curRS, curRS2, curSide, curSide2, curCmd string
var curK, curOp int
var funcs = map[string]any{
	"H":     func(s string) string { return hx.HexS(s) },
	"RSV":   func() string { return curRS },
	"RSV2":  func() string { return curRS2 },
	"K":     func() int { return curK },
	"OP":    func() int { return curOp },
	"SIDE":  func() string { return curSide },
	"SIDE2": func() string { return curSide2 },
	"CMD":   func() string { return curCmd },
}
var prog, prog2, prog3 *parser.Program

type rec struct{ s, rt string }

type result struct {
	stop  string // done | panic | err-no-progress | err:<message>
	recs  []rec
	nrBad bool  // a printed NR was not the record's position
	reads []int // what the reader returned
}

func (r result) canon() string {
	if r.stop == "panic" {
		return "panic"
	}
	var sb strings.Builder
	sb.WriteString(r.stop)
	for _, x := range r.recs {
		sb.WriteString(" " + hx.HexS(x.s) + ":" + hx.HexS(x.rt))
	}
	return sb.String()
}

func runImpl(rs string, data []byte, cuts []int, lastEOF bool) (res result) {
	return runProg(prog, rs, "", 0, data, cuts, lastEOF)
}

func runProg(pr *parser.Program, rs, rs2 string, k int, data []byte, cuts []int, lastEOF bool) (res result) {
	cr := &chunkReader{data: data, cuts: append([]int(nil), cuts...), lastEOF: lastEOF}
	var out bytes.Buffer
	var err error
	func() {
		defer func() {
			if p := recover(); p != nil {
				res.stop = "panic"
			}
		}()
		curRS, curRS2, curK = rs, rs2, k
		_, err = interp.ExecProgram(pr, &interp.Config{Stdin: cr, Output: &out, Error: io.Discard, Funcs: funcs, Environ: []string{}})
	}()
	res.reads = cr.log
	if res.stop == "panic" {
		return
	}
	switch {
	case err == nil:
		res.stop = "done"
	case strings.Contains(err.Error(), io.ErrNoProgress.Error()):
		res.stop = "err-no-progress"
	default:
		res.stop = "err:" + err.Error()
	}
	for i, ln := range strings.Split(strings.TrimSuffix(out.String(), "\n"), "\n") {
		if ln == "" {
			continue
		}
		f := strings.Split(ln, " ")
		if len(f) != 3 {
			res.stop = "err:unparsable output line " + strconv.Quote(ln)
			return
		}
		if f[0] != strconv.Itoa(i+1) {
			res.nrBad = true
		}
		res.recs = append(res.recs, rec{string(hx.UnHex(f[1])), string(hx.UnHex(f[2]))})
	}
	return
}

// ---------------------------------------------------------------- cases

type rsKind struct {
	name  string
	rs    string
	re    *hx.Re   // AST of the regex when RS is handled by regexSplitter
	alpha []string // alphabet for the exhaustive / random inputs
	fill  string   // filler byte for the 64 KiB cases
	edge  []string // short texts placed across the 64 KiB edge
}

func chr(c rune) *hx.Re { return &hx.Re{Kind: "chr", R: c} }
func cat(a ...*hx.Re) *hx.Re {
	r := a[0]
	for _, b := range a[1:] {
		r = &hx.Re{Kind: "cat", A: r, B: b}
	}
	return r
}
func alt(a, b *hx.Re) *hx.Re { return &hx.Re{Kind: "alt", A: a, B: b} }
func plus(a *hx.Re) *hx.Re   { return &hx.Re{Kind: "plus", A: a} }
func star(a *hx.Re) *hx.Re   { return &hx.Re{Kind: "star", A: a} }
func anyc() *hx.Re           { return &hx.Re{Kind: "any"} }

func reKind(name string, re *hx.Re, alpha []string, edge []string) rsKind {
	return rsKind{name: name, rs: re.Render(), re: re, alpha: alpha, fill: "q", edge: edge}
}

func kinds() []rsKind {
	ks := []rsKind{
		{name: "newline", rs: "\n", alpha: []string{"a", "\n", "\r", "b"}, fill: "q", edge: []string{"\r\n", "\n", "\r\r\n\n"}},
		{name: "byte:,", rs: ",", alpha: []string{"a", ",", "\n", "b"}, fill: "q", edge: []string{",", ",,", "a,b"}},
		{name: "byte:x", rs: "x", alpha: []string{"a", "x", "\n", "\xff"}, fill: "q", edge: []string{"x"}},
		{name: "byte:space", rs: " ", alpha: []string{"a", " ", "\n", "\t"}, fill: "q", edge: []string{" "}},
		{name: "byte:CR", rs: "\r", alpha: []string{"a", "\r", "\n", "b"}, fill: "q", edge: []string{"\r\n"}},
		{name: "byte:NUL", rs: "\x00", alpha: []string{"a", "\x00", "\n", "\xc3"}, fill: "q", edge: []string{"\x00"}},
		{name: "byte:0xFF", rs: "\xff", alpha: []string{"a", "\xff", "\n", "\xc3"}, fill: "q", edge: []string{"\xff", "\xff\xff"}},
		{name: "blank", rs: "", alpha: []string{"a", "\n", "\r", "b"}, fill: "q", edge: []string{"\n\n", "\n\n\n", "\n\r\n", "\n\nb\n\n\n"}},
		reKind("re:é", chr('é'), []string{"a", "\xc3", "\xa9", "é"}, []string{"é", "éé"}),
		reKind("re:x+", plus(chr('x')), []string{"a", "x", "b"}, []string{"x", "xx", "xxx"}),
		reKind("re:ab|abcd", alt(cat(chr('a'), chr('b')), cat(chr('a'), chr('b'), chr('c'), chr('d'))), []string{"a", "b", "c", "d", "x"}, []string{"abcd", "ab"}),
		reKind(`re:\n\n+`, cat(chr('\n'), plus(chr('\n'))), []string{"a", "\n", "b"}, []string{"\n\n", "\n\n\n"}),
		reKind("re:a..d|b", alt(cat(chr('a'), anyc(), anyc(), chr('d')), chr('b')), []string{"a", "b", "d", "x"}, []string{"ab2d", "a12d"}),
		reKind("re:x*", star(chr('x')), []string{"a", "x", "b"}, []string{"xx"}),
		reKind("re:ab", cat(chr('a'), chr('b')), []string{"a", "b", "x"}, []string{"ab", "aab"}),
		reKind("re:(ab)+", plus(cat(chr('a'), chr('b'))), []string{"a", "b", "x"}, []string{"abab"}),
		reKind("re:[ab]x", cat(&hx.Re{Kind: "cls", Ranges: [][2]rune{{'a', 'b'}}}, chr('x')), []string{"a", "b", "x", "y"}, []string{"ax"}),
	}
	return ks
}

type kase struct {
	kind    *rsKind
	data    []byte
	cuts    []int
	lastEOF bool
	shape   string
}

func (k kase) oneshot() bool { return len(k.cuts) <= 1 && !k.lastEOF }

func compositions(n int) [][]int {
	if n == 0 {
		return [][]int{{}}
	}
	var out [][]int
	for mask := 0; mask < 1<<(n-1); mask++ {
		var c []int
		run := 1
		for i := 0; i < n-1; i++ {
			if mask>>i&1 == 1 {
				c = append(c, run)
				run = 1
			} else {
				run++
			}
		}
		out = append(out, append(c, run))
	}
	return out
}

func allStrings(alpha []string, n int) []string {
	if n == 0 {
		return []string{""}
	}
	var out []string
	for _, p := range allStrings(alpha, n-1) {
		for _, a := range alpha {
			out = append(out, p+a)
		}
	}
	return out
}

func randUnits(r *hx.Rand, alpha []string, n int) string {
	var sb strings.Builder
	for i := 0; i < n; i++ {
		// separators a little more often than uniform
		sb.WriteString(alpha[r.Intn(len(alpha))])
	}
	return sb.String()
}

func oneCut(n int) []int {
	if n == 0 {
		return []int{}
	}
	return []int{n}
}

func genCases(o hx.Opts, r *hx.Rand, ks []rsKind) []kase {
	thorough := o.Tier == "thorough"
	exhLen, rndLen, rndCount, longCount := 4, 8, 10, 5
	if thorough {
		exhLen, rndLen, rndCount, longCount = 5, 12, 6, 30
	}
	if o.N > 0 {
		rndCount = o.N
	}
	var cs []kase
	add := func(k *rsKind, data string, cuts []int, le bool, shape string) {
		cs = append(cs, kase{kind: k, data: []byte(data), cuts: cuts, lastEOF: le, shape: shape})
	}
	for i := range ks {
		k := &ks[i]
		// 1. every input up to exhLen units x every chunking
		el := exhLen
		if k.name == "re:random" {
			el = exhLen - 1
		}
		for n := 0; n <= el; n++ {
			for _, d := range allStrings(k.alpha, n) {
				for _, c := range compositions(len(d)) {
					add(k, d, c, false, "exhaustive")
				}
			}
		}
		// 2. random inputs up to rndLen bytes x every chunking
		for j := 0; j < rndCount; j++ {
			d := randUnits(r, k.alpha, 5+r.Intn(rndLen-4))
			for len(d) > rndLen {
				d = d[:len(d)-1]
			}
			for _, c := range compositions(len(d)) {
				add(k, d, c, false, "all-chunkings")
			}
		}
		// 3. longer inputs: every single split point, 1-byte delivery, random chunkings with
		//    empty reads, final chunk delivered together with io.EOF
		for j := 0; j < longCount; j++ {
			d := randUnits(r, k.alpha, 15+r.Intn(40))
			n := len(d)
			add(k, d, oneCut(n), false, "oneshot")
			add(k, d, oneCut(n), true, "oneshot+eof")
			for p := 1; p < n; p++ {
				add(k, d, []int{p, n - p}, false, "single-split")
			}
			ones := make([]int, n)
			for q := range ones {
				ones[q] = 1
			}
			add(k, d, ones, false, "bytewise")
			add(k, d, ones, true, "bytewise+eof")
			for q := 0; q < 6; q++ {
				var c []int
				left := n
				for left > 0 {
					if r.Intn(4) == 0 {
						c = append(c, 0)
						continue
					}
					s := 1 + r.Intn(6)
					if s > left {
						s = left
					}
					c = append(c, s)
					left -= s
				}
				if r.Intn(3) == 0 {
					c = append(c, 0)
				}
				add(k, d, c, r.Bool(), "random+empty-reads")
			}
		}
		// 4. the 100 / 101 consecutive empty reads rule of bufio.Scanner
		for _, z := range []int{100, 101} {
			d := k.alpha[0] + k.alpha[1] + k.alpha[0]
			c := []int{2}
			for q := 0; q < z; q++ {
				c = append(c, 0)
			}
			c = append(c, len(d)-2)
			add(k, d, c, false, fmt.Sprintf("%d-empty-reads", z))
		}
		// 5. around the 64 KiB buffer edge: a long first record, separator text across the edge
		bigQuick := map[string]bool{"newline": true, "byte:,": true, "blank": true, "re:é": true, "re:x+": true, "re:ab|abcd": true}
		if len(k.edge) > 0 && (thorough || bigQuick[k.name]) {
			for ei, e := range k.edge {
				if !thorough && ei > 0 {
					break
				}
				offs := []int{0, 1, len(e)}
				if !thorough {
					offs = []int{1, len(e)}
				}
				for _, off := range offs {
					head := 65536 - off
					d := strings.Repeat(k.fill, head) + e + k.alpha[0] + e + k.alpha[0]
					n := len(d)
					add(k, d, oneCut(n), false, "64k-oneshot") // bufio itself cuts the read at 65536
					{
						for _, p := range []int{65535, 65536, 65537} {
							add(k, d, []int{p, n - p}, false, "64k-split")
						}
					}
				}
			}
		}
		// 6. line-end runs: paragraphs separated / preceded / followed by runs of 1-4 line ends in every
		//    LF / CRLF mixture (plus random ones with lone CRs), delivered so that a read boundary falls at
		//    every position of every run - also two boundaries at once, and the 64 KiB buffer edge
		if lineEndKinds[k.name] {
			cs = append(cs, lineEndRunCases(o, r, k)...)
		}
	}
	return cs
}

var lineEndKinds = map[string]bool{"blank": true, "newline": true, "byte:CR": true, `re:\n\n+`: true}

// every sequence of 1..maxUnits units from units
func unitRuns(units []string, maxUnits int) []string {
	var out []string
	for n := 1; n <= maxUnits; n++ {
		out = append(out, allStrings(units, n)...)
	}
	return out
}

// deliveries that put a read boundary at every position (and every pair of positions) of d
func boundaryDeliveries(add func(d string, cuts []int, le bool, shape string), d string, shape string) {
	n := len(d)
	if n <= 8 {
		for _, c := range compositions(n) {
			add(d, c, false, shape+"/all-chunkings")
		}
		return
	}
	add(d, oneCut(n), false, shape+"/oneshot")
	for p := 1; p < n; p++ {
		add(d, []int{p, n - p}, false, shape+"/single-split")
		add(d, []int{p, n - p}, true, shape+"/single-split+eof")
		for q := p + 1; q < n; q++ {
			add(d, []int{p, q - p, n - q}, false, shape+"/double-split")
		}
		// an empty read at the boundary
		add(d, []int{p, 0, n - p}, false, shape+"/split+empty-read")
	}
	ones := make([]int, n)
	for q := range ones {
		ones[q] = 1
	}
	add(d, ones, false, shape+"/bytewise")
	add(d, ones, true, shape+"/bytewise+eof")
}

func lineEndRunCases(o hx.Opts, r *hx.Rand, k *rsKind) []kase {
	thorough := o.Tier == "thorough"
	var cs []kase
	seen := map[string]bool{}
	add := func(d string, cuts []int, le bool, shape string) {
		cs = append(cs, kase{kind: k, data: []byte(d), cuts: cuts, lastEOF: le, shape: shape})
	}
	deliver := func(d, shape string) {
		if seen[d] {
			return
		}
		seen[d] = true
		boundaryDeliveries(add, d, shape)
	}
	text := []string{"a", "b"}
	if !strings.Contains(strings.Join(k.alpha, ""), "\r") {
		// the alphabet of a regex kind is also what its model-side engine was validated on: LF only
		for _, run := range unitRuns([]string{"\n"}, 5) {
			deliver("a"+run+"b", "line-end-runs")
			deliver("a"+run+"b\n", "line-end-runs")
		}
		return cs
	}
	// a. exhaustive: one run of 1..4 units of LF / CRLF between two paragraphs x how the input ends
	maxUnits := 4
	for _, run := range unitRuns([]string{"\n", "\r\n"}, maxUnits) {
		for _, tail := range []string{"", "\n", "\r\n"} {
			deliver("a"+run+"b"+tail, "line-end-runs")
		}
	}
	// b. the run at the start and at the end of the input
	for _, run := range unitRuns([]string{"\n", "\r\n"}, 3) {
		deliver(run+"a\r\n", "line-end-runs/leading")
		deliver("a"+run, "line-end-runs/trailing")
	}
	// c. random: 2-3 paragraphs of 1-2 lines, runs of 2-5 units, one style or mixed incl. lone CR
	rnd := 6
	if thorough {
		rnd = 40
	}
	styles := [][]string{{"\r\n"}, {"\n"}, {"\n", "\r\n"}, {"\n", "\r\n", "\r"}}
	for j := 0; j < rnd; j++ {
		st := styles[j%len(styles)]
		var sb strings.Builder
		for u := r.Intn(3); u > 0; u-- {
			sb.WriteString(st[r.Intn(len(st))])
		}
		paras := 2 + r.Intn(2)
		for p := 0; p < paras; p++ {
			sb.WriteString(text[r.Intn(2)])
			if r.Intn(2) == 0 {
				sb.WriteString(st[r.Intn(len(st))] + text[r.Intn(2)])
			}
			if p == paras-1 && r.Intn(3) == 0 {
				break
			}
			for u := 2 + r.Intn(4); u > 0; u-- {
				sb.WriteString(st[r.Intn(len(st))])
			}
		}
		deliver(sb.String(), "line-end-runs/random")
	}
	// d. the 64 KiB buffer edge at every position of a run (bufio cuts the one read there), and the
	//    same with the reader splitting one byte earlier / later
	edges := []string{"\r\n\r\n\r\n", "\n\r\n\n"}
	if thorough {
		edges = append(edges, "\r\n\r\n\r\n\r\n", "\n\n\r\n", "\r\n\n\n", "\n\r\n\r")
	}
	if k.name == "blank" || thorough {
		for _, e := range edges {
			for off := 0; off <= len(e); off++ {
				head := 65536 - off
				d := strings.Repeat(k.fill, head) + e + "a" + e + "b"
				n := len(d)
				add(d, oneCut(n), false, "line-end-runs/64k-oneshot")
				add(d, []int{65536, n - 65536}, false, "line-end-runs/64k-split")
				if thorough {
					add(d, []int{65535, n - 65535}, false, "line-end-runs/64k-split")
					add(d, []int{65537, n - 65537}, false, "line-end-runs/64k-split")
				}
			}
		}
	}
	return cs
}

// ---------------------------------------------------------------- independent specification

func goawkRegex(rs string) *regexp.Regexp {
	var re *regexp.Regexp
	if utf8.RuneCountInString(rs) == 1 {
		re = regexp.MustCompile(regexp.QuoteMeta(rs))
	} else {
		re = regexp.MustCompile("(?s:" + rs + ")")
	}
	re.Longest()
	return re
}

// classify a difference between chunked and all-at-once delivery
func classifyChunkDiff(k kase, chunked, ref result) string {
	if chunked.stop == "panic" || ref.stop == "panic" {
		return "panic"
	}
	recsEqual := len(chunked.recs) == len(ref.recs)
	if recsEqual {
		for i := range ref.recs {
			if chunked.recs[i].s != ref.recs[i].s {
				recsEqual = false
			}
		}
	}
	switch {
	case k.kind.rs == "":
		if !recsEqual || chunked.stop != ref.stop {
			return `RS="": records differ between deliveries`
		}
		for i := range ref.recs {
			if chunked.recs[i].rt != ref.recs[i].rt {
				return `RS="": RT depends on the delivery`
			}
		}
		return `RS="": other`
	case k.kind.re != nil && len(k.kind.rs) > 1:
		// replay regexSplitter's decisions with Go's regexp over the reads really made and find the
		// first one that the complete remaining input would not have produced
		re := goawkRegex(k.kind.rs)
		var buf []byte
		pos := 0
		for _, n := range chunked.reads {
			buf = append(buf, k.data[pos:pos+n]...)
			pos += n
			for len(buf) > 0 {
				loc := re.FindIndex(buf)
				if loc == nil || loc[0] == loc[1] {
					break
				}
				full := re.FindIndex(append(append([]byte(nil), buf...), k.data[pos:]...))
				if full == nil || full[0] != loc[0] || full[1] != loc[1] {
					if loc[1] == len(buf) {
						return "regex RS: a match touching the end of the buffered data is decided before more data arrives"
					}
					return "regex RS: a decided match not touching the end of the buffered data is superseded by later input"
				}
				buf = buf[loc[1]:]
			}
		}
		return "regex RS: other"
	}
	return "RS=" + strconv.Quote(k.kind.rs) + ": records differ between deliveries"
}

func splitKeep(s, sep string) []string { return strings.Split(s, sep) }

// the reconstruction equations on an all-at-once result; returns (class, oracle, want) or ""
func reconstruct(k kase, ref result) (class, oracle, want string) {
	data := string(k.data)
	rs := k.kind.rs
	var recs []string
	for _, x := range ref.recs {
		recs = append(recs, x.s)
	}
	switch {
	case rs == "\n":
		lines := strings.Split(data, "\n")
		if lines[len(lines)-1] == "" {
			lines = lines[:len(lines)-1]
		}
		for i := range lines {
			lines[i] = strings.TrimSuffix(lines[i], "\r") // exactly one
		}
		if strings.Join(recs, "\x01") != strings.Join(lines, "\x01") || len(recs) != len(lines) {
			return `RS="\n": records are not the lines`, "records = lines, one trailing CR dropped", fmt.Sprintf("%q", lines)
		}
	case rs == "":
		if strings.Contains(data, "\r") {
			return // CR is deliberately dropped/treated as newline: no reconstruction claimed
		}
		// paragraphs: maximal runs of non-empty lines; RT = the newline run that follows
		var paras, rts []string
		i := 0
		for i < len(data) && data[i] == '\n' {
			i++
		}
		lead := i
		for i < len(data) {
			j := strings.Index(data[i:], "\n\n")
			if j < 0 {
				p := strings.TrimSuffix(data[i:], "\n")
				paras = append(paras, p)
				rts = append(rts, data[i+len(p):])
				break
			}
			e := i + j
			paras = append(paras, data[i:e])
			f := e
			for f < len(data) && data[f] == '\n' {
				f++
			}
			rts = append(rts, data[e:f])
			i = f
		}
		if strings.Join(recs, "\x01") != strings.Join(paras, "\x01") || len(recs) != len(paras) {
			return `RS="": records are not the paragraphs`, "records = blank-line separated paragraphs", fmt.Sprintf("%q", paras)
		}
		for q := range paras {
			if len(data) > 65536 {
				break // the one-read delivery is itself cut by bufio's buffer: RT is covered by oracle A
			}
			if ref.recs[q].rt != rts[q] {
				if q == len(paras)-1 && lead > 0 {
					return `RS="": RT of the final record sliced at the wrong offset after skipped leading newlines`,
						"leading newlines + concat(record RT) = input", fmt.Sprintf("RT[%d]=%q", q, rts[q])
				}
				return `RS="": RT is not the newline run after the paragraph`, "leading newlines + concat(record RT) = input", fmt.Sprintf("RT[%d]=%q", q, rts[q])
			}
		}
	case len(rs) == 1:
		j := strings.Join(recs, rs)
		if !(j == data || j+rs == data) || (len(recs) == 0) != (data == "") {
			return "single-byte RS: join does not reproduce the input", "join(records, RS) = input up to one final RS", data
		}
		for _, s := range recs {
			if strings.Contains(s, rs) {
				return "single-byte RS: a record contains RS", "records contain no RS", data
			}
		}
	default:
		var sb strings.Builder
		for _, x := range ref.recs {
			sb.WriteString(x.s + x.rt)
		}
		if sb.String() != data {
			return "regex RS: record RT pairs do not reproduce the input", "concat(record RT) = input", data
		}
	}
	return
}

// ---------------------------------------------------------------- main

func detail(k kase, got result, want string) map[string]any {
	return map[string]any{
		"program": progSrc, "rs": k.kind.rs, "rs_hex": hx.HexS(k.kind.rs), "input_hex": hx.Hex(trunc(k.data)), "input_len": len(k.data),
		"fill": k.kind.fill, "reads_requested": k.cuts, "reads_returned": got.reads, "last_read_with_eof": k.lastEOF,
		"expected": want, "got": clip(got.canon()),
	}
}

// inputs of the 64 KiB cases are stored as their tail; the head is the fill byte repeated
func trunc(d []byte) []byte {
	if len(d) > 4096 {
		return d[len(d)-64:]
	}
	return d
}
func clip(s string) string {
	if len(s) > 600 {
		return s[:200] + "..." + s[len(s)-300:]
	}
	return s
}

func modelLine(k kase, got result) string {
	var chunks []string
	pos := 0
	for _, n := range got.reads {
		chunks = append(chunks, hx.Hex(k.data[pos:pos+n]))
		pos += n
	}
	if pos < len(k.data) { // reads the implementation never made (it stopped early)
		chunks = append(chunks, hx.Hex(k.data[pos:]))
	}
	cs := "."
	if len(chunks) > 0 {
		cs = strings.Join(chunks, ",")
	}
	rw := "-"
	if k.kind.re != nil {
		rw = k.kind.re.Wire()
	}
	le := "0"
	if k.lastEOF {
		le = "1"
	}
	return fmt.Sprintf("scan %s %s %s %s", le, hx.HexS(k.kind.rs), rw, cs)
}

func replay(o hx.Opts) {
	b, err := os.ReadFile(o.Replay)
	if err != nil {
		fmt.Println("cannot read replay:", err)
		os.Exit(2)
	}
	var doc struct {
		Failure struct {
			Class, Oracle string
			Detail        map[string]any
		}
	}
	if err := json.Unmarshal(b, &doc); err != nil || doc.Failure.Detail == nil {
		fmt.Println("replay file has no failure.detail:", err)
		os.Exit(2)
	}
	d := doc.Failure.Detail
	rs := string(hx.UnHex(d["rs_hex"].(string)))
	data := hx.UnHex(d["input_hex"].(string))
	if n := int(d["input_len"].(float64)); n > len(data) {
		data = append(bytes.Repeat([]byte(d["fill"].(string)), n-len(data)), data...)
	}
	var cuts []int
	for _, x := range d["reads_requested"].([]any) {
		cuts = append(cuts, int(x.(float64)))
	}
	le, _ := d["last_read_with_eof"].(bool)
	k := kase{kind: &rsKind{rs: rs}, data: data, cuts: cuts, lastEOF: le}
	if len(rs) > 1 {
		k.kind.re = &hx.Re{Kind: "eps"} // marks "regex RS" for the classifier
	}
	ref := runImpl(rs, data, oneCut(len(data)), false)
	got := runImpl(rs, data, cuts, le)
	if opf, ok := d["interleave_op"].(float64); ok { // another scanner read between main records
		dir, sides := sideFiles()
		defer os.RemoveAll(dir)
		n1, n2, k := int(d["side_len"].(float64)), int(d["side2_len"].(float64)), int(d["k"].(float64))
		setSide(int(opf), sides[n1], sides[n2])
		got = runProg(prog3, rs, "", k, data, cuts, le)
		curOp = 0
		ref = runProg(prog3, rs, "", k, data, cuts, le)
		fmt.Printf("replay class=%q\nprogram: %s\nRS=%q K=%d op=%d (1: getline<file, 2: two files, 3: cmd|getline) side file %d bytes of Z, second %d bytes of Y\ninput=%q reads=%v\nwithout the side reads: %s\nwith the side reads:    %s\n",
			doc.Failure.Class, progSrc3, rs, k, int(opf), n1, -n2, string(data), cuts, clip(ref.canon()), clip(got.canon()))
		if got.canon() != ref.canon() {
			fmt.Println("STILL FAILS: the main-input records change when another scanner is read in between")
			os.Exit(1)
		}
		fmt.Println("no longer fails")
		return
	}
	if h, ok := d["rs2_hex"].(string); ok { // RS assigned mid-file
		rs2, k := string(hx.UnHex(h)), int(d["k"].(float64))
		ref = runProg(prog2, rs, rs2, k, data, oneCut(len(data)), false)
		got = runProg(prog2, rs, rs2, k, data, cuts, le)
		fmt.Printf("replay class=%q RS=%q then RS=%q after record %d input=%q reads=%v\nall-at-once: %s\nchunked:     %s\n",
			doc.Failure.Class, rs, rs2, k, string(data), cuts, ref.canon(), got.canon())
		if got.canon() != ref.canon() {
			fmt.Println("STILL FAILS: chunked delivery differs from all-at-once delivery")
			os.Exit(1)
		}
		fmt.Println("no longer fails")
		return
	}
	fmt.Printf("replay class=%q oracle=%q\nRS=%q input=%q reads=%v last_read_with_eof=%v\nall-at-once: %s\nchunked:     %s\n",
		doc.Failure.Class, doc.Failure.Oracle, rs, clip(string(data)), cuts, le, clip(ref.canon()), clip(got.canon()))
	bad := false
	if got.canon() != ref.canon() {
		fmt.Println("STILL FAILS: chunked delivery differs from all-at-once delivery:", classifyChunkDiff(k, got, ref))
		bad = true
	}
	if ref.stop == "panic" {
		fmt.Println("STILL FAILS: panic")
		bad = true
	} else if c, orc, want := reconstruct(k, ref); c != "" {
		fmt.Printf("STILL FAILS: %s (%s), want %s\n", c, orc, want)
		bad = true
	}
	if bad {
		os.Exit(1)
	}
	fmt.Println("no longer fails")
}

func main() {
	o := hx.ParseFlags()
	var err error
	prog, err = parser.ParseProgram([]byte(progSrc), &parser.ParserConfig{Funcs: funcs})
	if err != nil {
		fmt.Println("cannot parse the harness program:", err)
		os.Exit(2)
	}
	prog2, err = parser.ParseProgram([]byte(progSrc2), &parser.ParserConfig{Funcs: funcs})
	if err != nil {
		fmt.Println("cannot parse the harness program:", err)
		os.Exit(2)
	}
	prog3, err = parser.ParseProgram([]byte(progSrc3), &parser.ParserConfig{Funcs: funcs})
	if err != nil {
		fmt.Println("cannot parse the harness program:", err)
		os.Exit(2)
	}
	if o.Replay != "" {
		replay(o)
		return
	}
	rep := hx.NewReport("C07", o.Seed, o.Tier)
	rep.Rule = "per RS kind (newline, 6 single bytes incl. NUL and 0xFF, empty, 1 multi-byte char, 8 regexes): every input up to 4 (thorough 5) alphabet units x EVERY chunking; random inputs up to 8 (thorough 12) bytes x every chunking; 15-55 byte inputs x every single split point, bytewise delivery, random chunkings with 0-byte reads, final read with io.EOF; 100/101 empty reads; 64 KiB-edge inputs split at 65535/65536/65537 and by bufio itself; line-end runs (RS newline, CR, empty, \\n\\n+): every LF/CRLF mixture of 1-4 line ends between, before and after paragraphs plus random ones with lone CRs x every chunking (<= 8 bytes) or every single and double split point, split with empty read, bytewise, with io.EOF, and the 64 KiB buffer edge at every position of a CRLF run checked against the same input with a short first record; interleaving: getline from side files of 1/300/5000/70000 bytes, from two files, from a command, between main records under whole/split/bytewise delivery. distinct = distinct (RS, input, reads) triple; non-trivial = non-empty input"
	r := hx.NewRand(o.Seed)
	ks := kinds()
	// a few random regexes without anchors (Lib/Regex.v is validated against Go's regexp separately)
	nrand := 4
	if o.Tier == "thorough" {
		nrand = 20
	}
	for i := 0; i < nrand; i++ {
		re := hx.RandRe(r, 2, false)
		if len(re.Render()) < 2 {
			continue
		}
		if _, err := regexp.Compile("(?s:" + re.Render() + ")"); err != nil {
			continue
		}
		k := reKind("re:random", re, []string{"a", "b", "x", "\n", "é"}, nil)
		ks = append(ks, k)
	}
	t0 := time.Now()
	lap := func(what string) {
		if os.Getenv("C07_TIMING") != "" {
			fmt.Fprintf(os.Stderr, "%s %v\n", what, time.Since(t0))
		}
	}
	cases := genCases(o, r, ks)
	lap("gen")

	// implementation
	results := make([]result, len(cases))
	for i, k := range cases {
		results[i] = runImpl(k.kind.rs, k.data, k.cuts, k.lastEOF)
	}

	lap("impl")
	// correspondence
	lines := make([]string, len(cases))
	for i, k := range cases {
		lines[i] = modelLine(k, results[i])
	}
	if f := os.Getenv("C07_DUMP"); f != "" {
		os.WriteFile(f, []byte(strings.Join(lines, "\n")+"\n"), 0o644)
	}
	var model []string
	for lo := 0; lo < len(lines); lo += 20000 {
		hi := lo + 20000
		if hi > len(lines) {
			hi = len(lines)
		}
		m, err := hx.ModelEval(o.ModelRun, lines[lo:hi])
		if err != nil {
			rep.HarnessError("%v", err)
			model = nil
			break
		}
		model = append(model, m...)
	}
	for i, k := range cases {
		rep.CorrEvals++
		rep.Count("rs:" + k.kind.name)
		rep.Count("shape:" + k.shape)
		if len(k.data) > 0 {
			rep.Distinct(lines[i])
		}
		if i%4999 == 0 {
			rep.Sample(map[string]string{"request": clip(lines[i]), "impl": clip(results[i].canon())})
		}
		if model != nil {
			if strings.HasPrefix(model[i], "driver-error") {
				rep.HarnessError("modelrun: %s on %s", model[i], clip(lines[i]))
			} else if model[i] != results[i].canon() {
				rep.Mismatch(hx.Mismatch{Class: k.kind.name + "/" + k.shape, Input: clip(lines[i]), Impl: clip(results[i].canon()), Model: clip(model[i])})
			}
		}
	}

	lap("model")
	// search oracle: the reference is the delivery in one read (bufio cuts it at its 64 KiB buffer)
	refs := map[string]result{}
	for i, k := range cases {
		got := results[i]
		key := k.kind.rs + "\x00" + string(k.data)
		ref, ok := refs[key]
		if !ok {
			if k.oneshot() {
				ref = got
			} else {
				ref = runImpl(k.kind.rs, k.data, oneCut(len(k.data)), false)
			}
			refs[key] = ref
			rep.SearchEvals++
			checkRef(rep, k, ref)
		}
		// 64 KiB edge inside a line-end run: the one-read reference is itself cut there by bufio's buffer, so
		// the reference is the same input with the long first record shortened to fit one buffer
		if strings.HasPrefix(k.shape, "line-end-runs/64k") {
			h := 0
			for h < len(k.data) && k.data[h] == k.kind.fill[0] {
				h++
			}
			skey := k.kind.rs + "\x00short\x00" + string(k.data[h:])
			short, ok := refs[skey]
			if !ok {
				sd := append([]byte(k.kind.fill), k.data[h:]...)
				short = runImpl(k.kind.rs, sd, oneCut(len(sd)), false)
				refs[skey] = short
			}
			rep.SearchEvals++
			if h > 0 && len(short.recs) > 0 {
				want := result{stop: short.stop, recs: append([]rec(nil), short.recs...)}
				want.recs[0].s = strings.Repeat(k.kind.fill, h-1) + want.recs[0].s
				if got.canon() != want.canon() {
					rep.Fail(hx.Failure{Class: classifyChunkDiff(k, got, want), Oracle: "records and RT after a first record longer than the 64 KiB buffer = those after a short first record",
						Detail: detail(k, got, clip(want.canon()))})
				}
			}
		}
		if k.oneshot() {
			continue
		}
		rep.SearchEvals++
		if got.nrBad {
			rep.Fail(hx.Failure{Class: "NR is not the record's position", Oracle: "NR", Detail: detail(k, got, "NR = 1, 2, 3, ...")})
		}
		if got.stop == "err-no-progress" && k.shape == "101-empty-reads" {
			continue // more than 100 consecutive empty reads: the reader is at fault (io.ErrNoProgress)
		}
		if got.canon() != ref.canon() {
			rep.Fail(hx.Failure{Class: classifyChunkDiff(k, got, ref), Oracle: "chunked delivery = all-at-once delivery",
				Detail: detail(k, got, clip(ref.canon()))})
		}
		// regex RS: losslessness must hold under every delivery, also the ones that change the records
		if len(k.kind.rs) > 1 && got.stop == "done" {
			rep.SearchEvals++
			if c, orc, want := reconstruct(k, got); c != "" {
				rep.Fail(hx.Failure{Class: c, Oracle: orc, Detail: detail(k, got, clip(want))})
			}
		}
	}
	lap("search")
	schedCases(o, r, rep)
	interleaveCases(o, r, rep, ks)
	lap("interleave")
	lap("sched")
	rep.Write(o.Out)
}

// RS assigned mid-file: pairs of literal separators (every regex in force satisfies match_final,
// so no delivery dependence is expected); the first RS is always handled by regexSplitter.
func schedCases(o hx.Opts, r *hx.Rand, rep *hx.Report) {
	type pair struct {
		rs1   string
		re1   *hx.Re
		rs2   string
		re2   *hx.Re
		alpha []string // nil = the default alphabet
	}
	ab := cat(chr('a'), chr('b'))
	pairs := []pair{
		{"ab", ab, ",", chr(','), nil}, {"é", chr('é'), "ab", ab, nil}, {"ab", ab, "\n", chr('\n'), nil},
		{"ab", ab, "", &hx.Re{Kind: "eps"}, nil}, {"ab", ab, "é", chr('é'), nil}, {",b", cat(chr(','), chr('b')), "a", chr('a'), nil},
		// a single non-UTF-8 byte cannot be a regex: the active regexSplitter keeps "ab" (regex AST unused by the model)
		{"ab", ab, "\xff", &hx.Re{Kind: "eps"}, []string{"a", "b", "\xff", "\n"}},
	}
	alpha := []string{"a", "b", ",", "\n", "é"}
	exh, nrnd, rlen := 3, 4, 8
	if o.Tier == "thorough" {
		exh, nrnd, rlen = 4, 20, 11
	}
	type sk struct {
		p    pair
		k    int
		data string
		cuts []int
	}
	var cs []sk
	for _, p := range pairs {
		alpha := alpha
		if p.alpha != nil {
			alpha = p.alpha
		}
		for _, k := range []int{1, 2} {
			var inputs []string
			for n := 1; n <= exh; n++ {
				inputs = append(inputs, allStrings(alpha, n)...)
			}
			for j := 0; j < nrnd; j++ {
				d := randUnits(r, alpha, rlen)
				inputs = append(inputs, d[:rlen])
			}
			for _, d := range inputs {
				for _, c := range compositions(len(d)) {
					cs = append(cs, sk{p, k, d, c})
				}
			}
		}
	}
	var lines []string
	var results []result
	for _, c := range cs {
		got := runProg(prog2, c.p.rs1, c.p.rs2, c.k, []byte(c.data), c.cuts, false)
		results = append(results, got)
		kk := kase{kind: &rsKind{rs: c.p.rs1, re: c.p.re1}, data: []byte(c.data), cuts: c.cuts}
		ml := strings.Fields(modelLine(kk, got))
		lines = append(lines, fmt.Sprintf("scan2 0 %s %s %d %s %s %s", ml[2], ml[3], c.k, hx.HexS(c.p.rs2), c.p.re2.Wire(), ml[4]))
	}
	model, err := hx.ModelEval(o.ModelRun, lines)
	if err != nil {
		rep.HarnessError("%v", err)
		return
	}
	refs := map[string]result{}
	for i, c := range cs {
		rep.CorrEvals++
		rep.Count("rs:changed-mid-file")
		rep.Distinct(lines[i])
		got := results[i]
		if strings.HasPrefix(model[i], "driver-error") {
			rep.HarnessError("modelrun: %s on %s", model[i], lines[i])
		} else if model[i] != got.canon() {
			rep.Mismatch(hx.Mismatch{Class: "rs-changed-mid-file", Input: lines[i], Impl: got.canon(), Model: model[i]})
		}
		key := fmt.Sprintf("%s\x00%s\x00%d\x00%s", c.p.rs1, c.p.rs2, c.k, c.data)
		ref, ok := refs[key]
		if !ok {
			ref = runProg(prog2, c.p.rs1, c.p.rs2, c.k, []byte(c.data), oneCut(len(c.data)), false)
			refs[key] = ref
		}
		rep.SearchEvals++
		if got.canon() != ref.canon() {
			kk := kase{kind: &rsKind{rs: c.p.rs1}, data: []byte(c.data), cuts: c.cuts}
			d := detail(kk, got, ref.canon())
			d["program"], d["rs2_hex"], d["k"] = progSrc2, hx.HexS(c.p.rs2), c.k
			rep.Fail(hx.Failure{Class: "RS assigned mid-file (literal separators): records differ between deliveries",
				Oracle: "chunked delivery = all-at-once delivery", Detail: d})
		}
	}
}

func checkRef(rep *hx.Report, k kase, ref result) {
	one := kase{kind: k.kind, data: k.data, cuts: oneCut(len(k.data))}
	if ref.stop == "panic" {
		cl := "panic while reading records"
		if len(k.kind.rs) == 1 && k.kind.rs[0] >= 0x80 {
			cl = "single-byte non-UTF-8 RS: assigning RS panics"
		}
		rep.Fail(hx.Failure{Class: cl, Oracle: "no-panic", Detail: detail(one, ref, "records")})
		return
	}
	if ref.stop != "done" {
		rep.Fail(hx.Failure{Class: "error reading all-at-once input", Oracle: "no-error", Detail: detail(one, ref, "done")})
		return
	}
	if c, orc, want := reconstruct(one, ref); c != "" {
		rep.Fail(hx.Failure{Class: c, Oracle: orc, Detail: detail(one, ref, want)})
	}
}

// ---------------------------------------------------------------- interleaved scanners

var sideSizes = []int{1, 300, 5000, 70000}

// sideFiles writes one-record files of Z's (and of Y's, same sizes) into a fresh directory.
func sideFiles() (dir string, byLen map[int]string) {
	dir, err := os.MkdirTemp("", "c07side")
	if err != nil {
		panic(err)
	}
	byLen = map[int]string{}
	for _, n := range sideSizes {
		byLen[n] = dir + "/z" + strconv.Itoa(n)
		os.WriteFile(byLen[n], bytes.Repeat([]byte("Z"), n), 0o644)
		byLen[-n] = dir + "/y" + strconv.Itoa(n)
		os.WriteFile(byLen[-n], bytes.Repeat([]byte("Y"), n), 0o644)
	}
	return
}

func setSide(op int, f, g string) {
	curOp, curSide, curSide2, curCmd = op, f, g, "cat "+f
}

// The record stream of the main input must be a function of the main input's bytes only: reading
// other files / commands with getline between two main records (their scanners have their own
// buffers) must not change it - under every delivery of the main input.
func interleaveCases(o hx.Opts, r *hx.Rand, rep *hx.Report, ks []rsKind) {
	dir, sides := sideFiles()
	defer os.RemoveAll(dir)
	nin := 2
	if o.Tier == "thorough" {
		nin = 8
	}
	type ic struct {
		k        *rsKind
		data     string
		cuts     []int
		op, n, K int
	}
	var cs []ic
	for i := range ks {
		k := &ks[i]
		var inputs []string
		if len(k.edge) > 0 {
			e := k.edge[0]
			inputs = append(inputs, "l1"+e+"l2"+e+"l3"+e+"l4"+e)
		}
		for j := 0; j < nin; j++ {
			inputs = append(inputs, randUnits(r, k.alpha, 12+r.Intn(20)))
		}
		for _, d := range inputs {
			n := len(d)
			ones := make([]int, n)
			for q := range ones {
				ones[q] = 1
			}
			p := 1 + r.Intn(n-1)
			for _, cuts := range [][]int{{n}, {p, n - p}, ones} {
				for _, K := range []int{1, 2} {
					for _, sz := range sideSizes {
						cs = append(cs, ic{k, d, cuts, 1, sz, K})
					}
					cs = append(cs, ic{k, d, cuts, 2, 300, K})
					// the command inherits Stdin: os/exec drains our reader into its pipe, so only the
					// delivery in one read (nothing left to drain) is meaningful here
					if K == 1 && len(cuts) == 1 {
						cs = append(cs, ic{k, d, cuts, 3, 300, K})
					}
				}
			}
		}
	}
	var lines []string
	var results []result
	refs := map[string]result{}
	for _, c := range cs {
		setSide(c.op, sides[c.n], sides[-sideSizes[1]])
		got := runProg(prog3, c.k.rs, "", c.K, []byte(c.data), c.cuts, false)
		results = append(results, got)
		kk := kase{kind: c.k, data: []byte(c.data), cuts: c.cuts}
		lines = append(lines, modelLine(kk, got))
	}
	model, err := hx.ModelEval(o.ModelRun, lines)
	if err != nil {
		rep.HarnessError("%v", err)
		return
	}
	for i, c := range cs {
		got := results[i]
		rep.CorrEvals++
		rep.Count("shape:interleaved-getline")
		rep.Distinct(lines[i] + fmt.Sprint(c.op, c.n, c.K))
		kk := kase{kind: c.k, data: []byte(c.data), cuts: c.cuts}
		if strings.HasPrefix(model[i], "driver-error") {
			rep.HarnessError("modelrun: %s on %s", model[i], clip(lines[i]))
		} else if model[i] != got.canon() {
			rep.Mismatch(hx.Mismatch{Class: c.k.name + "/interleaved-getline", Input: clip(lines[i]), Impl: clip(got.canon()), Model: clip(model[i]),
				Note: fmt.Sprintf("op=%d side=%d K=%d", c.op, c.n, c.K)})
		}
		// search: the same program and delivery without the side reads (OP() = 0)
		key := fmt.Sprintf("%s\x00%s\x00%v\x00%d", c.k.rs, c.data, c.cuts, c.K)
		ref, ok := refs[key]
		if !ok {
			setSide(0, "", "")
			ref = runProg(prog3, c.k.rs, "", c.K, []byte(c.data), c.cuts, false)
			refs[key] = ref
		}
		rep.SearchEvals++
		if got.canon() != ref.canon() {
			d := detail(kk, got, clip(ref.canon()))
			d["program"], d["interleave_op"], d["side_len"], d["side2_len"], d["k"] = progSrc3, c.op, c.n, -sideSizes[1], c.K
			rep.Fail(hx.Failure{Class: "main-input records change when another scanner (getline from a file or command) is read between them",
				Oracle: "records of a stream are a function of that stream's bytes only", Detail: d})
		}
	}
}
