package main

import (
	"fmt"
	"strings"

	"verif/harness/awkgen"
	"verif/harness/hx"
)

// hostile numbers for every float->int position (as AWK expressions usable as an operand)
var hostile = []string{
	"1e30", "(-1e30)", "9223372036854775808", "(-9223372036854775808)", "9223372036854775807",
	"(log(-1))", "(-log(0))", "(log(0))", "0.5", "(-0.5)", "(-1)", "0", "1", "2147483648", "4294967296",
	"1000001", "1e9", "1e18", "1e19", "1.8e308", "(-0)", "\"\"", "\"abc\"", "\"1e30x\"", "\"0x10\"", "\"nan\"", "\"+inf\"",
}

// the largest legal field numbers (each use allocates about a million fields)
var hostileBig = []string{"1000000", "(1e6+0.5)", "999999"}

// the subset that is "far too large for a field number / NF / ARGC"
var oversize = []string{"1000001", "1e7", "1e9", "2147483648", "4294967296", "1e18"}

var exprTemplates = []string{
	`{ print $(<H>) }`,
	`{ $(<H>) = "x"; print; print NF }`,
	`{ $(<H>)++; print NF }`,
	`{ $(<H>) += 2; print NF }`,
	`{ x = $(<H>) $(<G>); print length(x) }`,
	`BEGIN { NF = <H>; print NF; print $0 }`,
	`{ NF = <H>; print; print NF }`,
	`{ NF += <H>; print NF }`,
	`BEGIN { ARGC = <H>; print ARGC }`,
	`BEGIN { NR = <H>; FNR = <G>; print NR, FNR } { print NR, FNR }`,
	`BEGIN { RSTART = <H>; RLENGTH = <G>; print RSTART, RLENGTH }`,
	`BEGIN { print substr("hello", <H>) }`,
	`BEGIN { print substr("hello", <H>, <G>) }`,
	`BEGIN { print substr("h\xc3\xa9llo\xff", <H>, <G>) }`,
	`BEGIN { print substr("hello", 2, <H>) }`,
	`BEGIN { printf "%*d|\n", <H>, 1 }`,
	`BEGIN { printf "%.*f|\n", <H>, 1 }`,
	`BEGIN { printf "%*.*s|\n", <H>, <G>, "xyz" }`,
	`BEGIN { printf "%-*d|%0*d|\n", <H>, 1, <G>, 2 }`,
	`BEGIN { printf "%c|%c\n", <H>, <G> }`,
	`BEGIN { printf "%d %i %o %x %X %u\n", <H>, <H>, <H>, <G>, <G>, <G> }`,
	`BEGIN { printf "%e %f %g %E %G %s\n", <H>, <H>, <H>, <G>, <G>, <G> }`,
	`BEGIN { x = sprintf("%d", <H>); print x }`,
	`BEGIN { exit <H> }`,
	`BEGIN { exit <H> } END { exit <G> }`,
	`END { exit <H> }`,
	`BEGIN { srand(<H>); x = rand(); srand(<G>); print (x >= 0 && x < 1) }`,
	`BEGIN { print srand(<H>), srand() }`,
	`BEGIN { n = split("a b c", A, <H>); print n }`,
	`BEGIN { n = split(<H>, A); print n, A[1] }`,
	`BEGIN { print int(<H>), int(<G>) }`,
	`BEGIN { print index(<H>, <G>), length(<H>) }`,
	`BEGIN { A[<H>] = 1; A[<H>, <G>] = 2; print (<H> in A), ((<H>, <G>) in A), length(A); delete A[<H>] }`,
	`BEGIN { print <H> % <G>, <H> ^ <G>, <H> / (<G> + 1e-300), -<H>, +<H>, !<H> }`,
	`BEGIN { x = <H>; x++; x--; x += <G>; x %= 7; x ^= 2; print x }`,
	`BEGIN { print (<H> < <G>), (<H> == <G>), (<H> "" < <G> ""), <H> ~ <G> }`,
	`BEGIN { CONVFMT = "%d"; x = <H> ""; OFMT = "%.3g"; print x, <H>, <G> }`,
	`BEGIN { CONVFMT = "%c"; x = (<H> + 0.5) ""; print length(x) }`,
	`BEGIN { CONVFMT = "%s"; x = (<H> + 0.5) ""; print x }`,
	`BEGIN { OFMT = "%.30f"; print <H> + 0.25 }`,
	`BEGIN { OFMT = "%z"; print 0.5 + <H> }`,
	`BEGIN { print toupper(<H>), tolower(<G>) }`,
	`BEGIN { print match("hello", <H>), RSTART, RLENGTH }`,
	`BEGIN { x = "hello"; print sub(<H>, <G>, x), gsub(<G>, <H>, x), x }`,
	`{ print $<H> }`,
	`BEGIN { $0 = "a b c"; $(<H>) = "q"; print NF }`,
	`BEGIN { $0 = <H>; print NF, $1 }`,
	`BEGIN { getline x < <H>; print close(<H>), close(<G>) }`,
	`BEGIN { printf("%s\n", <H>) > "/dev/stdout"; fflush(<H>) }`,
	`BEGIN { print length(sprintf("%" <H> "d", 1)) }`,
	`BEGIN { print length(sprintf("%." <H> "f", 1)) }`,
	`function f(a, b) { a[b] = b; return b } BEGIN { print f(A, <H>), f(B, <G>) }`,
	`BEGIN { while ((getline line) > 0) n += <H>; print n }`,
	`{ print substr($0, <H>, <G>), substr($1, <G>) }`,
	`BEGIN { "echo " <H> | getline x; print x }`,
	`BEGIN { print <H> > "/tmp/c02_never_written_" <G> }`,
	`BEGIN { print system(<H>) }`,
}

// `V = H` for every special variable
var specialVars = []string{"ARGC", "CONVFMT", "FILENAME", "FNR", "FS", "INPUTMODE", "NF", "NR", "OFMT", "OFS", "ORS",
	"OUTPUTMODE", "RLENGTH", "RS", "RSTART", "RT", "SUBSEP", "ENVIRON", "ARGV"}

var hostileStrings = []string{`""`, `"\xff"`, `"\xc3"`, `"\x00"`, `"\xe2\x82"`, `"\xed\xa0\x80"`, `"é"`, `"€"`, `"ab"`, `"("`, `"["`, `"\\"`, `"a{1001}"`,
	`"(?P<n>a)"`, `"[[:alpha:]]+"`, `"csv"`, `"tsv"`, `"csv header"`, `"csv separator=;"`, `"csv separator=ab"`, `"csv comment=#"`, `"csv comment=\xff"`,
	`"csv separator=\xff"`, `"csv separator=\n"`, `"csv separator="`, `"default"`, `"xml"`, `"%d"`, `"%s%s%s"`, `"%"`, `"%.500000f"`, `"%c"`, `"%*d"`, `" "`, `"\n"`, `"\t"`, `"."`, `"|"`, `"*"`, `"+"`, `"?"`, `"^"`, `"$"`}

// contents of AWK string literals that are invalid as Go regexps
var badRegexes = []string{`(`, `[`, `a{1001}`, `a**`, `\\8`, `(?P<n`, `[z-a]`, `a{2,1}`, `\xff`, `(?i`, `)`, `\\C`, `[[:foo:]]`, `x{1000}{1000}`, `+`, `*a`, `\\`}

var regexUses = []string{
	`{ if ($0 ~ "<R>") print }`,
	`{ if ($0 !~ "<R>") print }`,
	`BEGIN { print match("abc", "<R>") }`,
	`BEGIN { n = split("a b c", A, "<R>x") ; print n }`,
	`BEGIN { x = "abc"; sub("<R>", "y", x); print x }`,
	`BEGIN { x = "abc"; gsub("<R>", "y", x); print x }`,
	`BEGIN { x = "abc"; gsub("<R>", "y"); print x }`,
	`BEGIN { FS = "<R>x" } { print $1 }`,
	`BEGIN { RS = "<R>x" } { print $1 }`,
	`BEGIN { r = "<R>"; if ("abc" ~ r) print "m" }`,
	`$0 ~ "<R>"`,
	`$0 ~ "<R>", $0 ~ "<R>" { print }`,
}

// programs that exercise string builtins on whatever bytes arrive
var bytePrograms = []string{
	`{ print length($0), length($1), NF }`,
	`{ print substr($0, 2, 3), substr($0, length($0)), index($0, substr($0, 3, 1)) }`,
	`{ print toupper($0); print tolower($0) }`,
	`{ n = split($0, A, ""); print n, A[1], A[n] }`,
	`{ n = split($0, A); for (i = n; i > 0; i--) printf "%s|", A[i]; print "" }`,
	`{ print match($0, /[^a-z]+/), RSTART, RLENGTH }`,
	`{ gsub(/./, "[&]"); print }`,
	`{ gsub("", "-"); print }`,
	`{ x = $0; n = gsub(/\xff|\x00/, "?", x); print n, x }`,
	`{ printf "%c%c|%5s|%-5s|%.2s|%d\n", $1, $0, $1, $2, $0, $1 }`,
	`{ A[$1] = $0; A[$0, $1]++ } END { for (k in A) n++; print n }`,
	`{ $2 = $1; print; $0 = $0 $0; print NF }`,
	`{ print ($1 < $2), ($1 == $2), $1 + 0, -$1, $1 $2 }`,
	`{ s = s $0 } END { print length(s); print index(s, "\xff"), index(s, "é") }`,
	`BEGIN { FS = "" } { print NF, $1, $NF }`,
	`BEGIN { FS = "é" } { print NF, $1 }`,
	`BEGIN { RS = "" } { print NF ": " $1 }`,
	`BEGIN { RS = "é|\n" } { print NR, RT == "" }`,
	`BEGIN { FS = "[^a-z]" } { print NF }`,
	`{ print sprintf("%s", $0) > "/dev/stderr" }`,
	`@"b" != "" { print @"a", @"nosuch" }`,
	`{ print @"a"; NF = 1; print @"b" }`,
	`BEGIN { while ((getline x) > 0) { n++; print length(x) }; print n }`,
	`{ getline; print; getline y; print y; getline $2; print }`,
	`BEGIN { OUTPUTMODE = "csv" } { $1 = $1; print; print $1, $2 }`,
	`BEGIN { OFS = "\xff"; ORS = "\x00" } { $1 = $1; print; print $1, $2 }`,
	`BEGIN { SUBSEP = "\xff" } { A[$1, $2] = 1 } END { for (k in A) { split(k, P, SUBSEP); print P[1] } }`,
}

// hand-written programs: corners of the VM, of the fields/NF machinery, caches and I/O glue
var miscPrograms = []string{
	`BEGIN { while (x <= 3) x++; do x--; while (x >= 0); for (; x <= 2;) x++; if (x >= 2) y = 1; print x, y } END { } { }`,
	`BEGIN { INPUTMODE = "csv header" } { n = "a"; print @n, @($1), @"b"; m = @n @"a" }`,
	`BEGIN { $0 = "a b"; $3 = "c"; NF = 1; print $0; $(-1) = "z"; print; $(-5) = "q"; print; print $(-1), $(-9) }`,
	`BEGIN { $3 = "x"; print NF; NF = 0; print length($0); $0 = "p q r"; NF = 2; $5 = "t"; print }`,
	`BEGIN { getline; print "a:" $0; getline x; print "b:" x; print NR }`,
	`{ for (k in A) delete A[k]; A[NR] = 1; for (k in A) { A[k+1] = 1; delete A[k]; break } } END { print length(A) }`,
	`BEGIN { A[1]; for (k in A) for (j in A) for (i in A) { delete A; n++ }; print n }`,
	`function f(n) { if (n <= 0) return 0; return 1 + f(n - 1) } BEGIN { print f(50) + f(60) }`,
	`function f(a, n) { a[n] = n; if (n > 0) f(a, n - 1); return length(a) } BEGIN { print f(X, 30) }`,
	`function f(n,   loc, arr) { arr[n] = 1; for (k in arr) { if (n > 0) return f(n - 1); else break } return n } BEGIN { print f(40) }`,
	`function g(x) { return x + 1 } function f(x) { return g(g(x)) } BEGIN { for (i = 0; i < 300; i++) s += f(i); print s }`,
	`BEGIN { for (i = 0; i < 250; i++) { if ("abc" ~ ("a" i "?")) n++ }; print n }`,
	`BEGIN { for (i = 0; i < 250; i++) s = s sprintf("%" (i % 40 + 1) "d", i); print length(s) }`,
	`BEGIN { for (i = 0; i < 150; i++) { f = "/tmp/c02_nope/" i; print i > f } }`,
	`BEGIN { printf "%s %s %s\n", "only-one" }`,
	`BEGIN { printf "%d %d\n", 1, 2, 3, 4 }`,
	`BEGIN { printf "%" }`,
	`BEGIN { printf "%5" }`,
	`BEGIN { printf "%z %", 1 }`,
	`BEGIN { printf "%*d" }`,
	`BEGIN { printf "%*d", 5 }`,
	`BEGIN { printf "%.*d", 2 }`,
	`BEGIN { printf "%c", "" }`,
	`BEGIN { printf "%c%c%c", 256, 1114112, -1 }`,
	`BEGIN { print substr("hello", 0), substr("hello", -1, 3), substr("hello", 2, -1), substr("", 1, 1) }`,
	`BEGIN { print length(), length, length("") }`,
	`BEGIN { print index("", ""), index("abc", ""), split("", A), split("abc", A, ""), match("", //), match("abc", /$/) }`,
	`BEGIN { close("nope"); close(""); fflush(); fflush("nope"); fflush(""); print system("") }`,
	`BEGIN { print > "/dev/stdout"; print "e" > "/dev/stderr"; print "x" > "-" }`,
	`BEGIN { print "x" | "cat"; close("cat"); print "y" | "cat 1>&2" }`,
	`BEGIN { "echo hi" | getline; print; "echo hi" | getline x; print x; while (("echo a; echo b" | getline y) > 0) print y }`,
	`BEGIN { getline x < "/nonexistent/file"; print x; print (getline y < "/") }`,
	`BEGIN { print ENVIRON["HOME"], ENVIRON["nope"], ARGV[0], ARGV[1], ARGC; ARGV[1] = ""; ARGC = 5 } { print }`,
	`BEGIN { ARGV[1] = "x=5"; ARGV[2] = "/nonexistent"; ARGC = 3 } { print x }`,
	`BEGIN { ARGC = 0 } { print }`,
	`BEGIN { ARGC = -5 } { print }`,
	`{ nextfile } END { print NR }`,
	`NR == 1, NR == 2 { next } { print } END { print FNR }`,
	`NR == 1 { exit 3 } END { print "end"; exit }`,
	`BEGIN { exit } END { print "end" }`,
	`BEGIN { exit 1e30 }`,
	`BEGIN { x["a"] = 1; delete x; x["b"]; print length(x); if (("b") in x) print "in" }`,
	`BEGIN { a = "x"; b = a++ + ++a; c = a-- - --a; print a, b, c; $0 = "3 4"; print $1++ + ++$2, $0 }`,
	`BEGIN { print 1 == 1.0, "a" < "b", 2 < 10, "2" < "10", 1e300 * 1e300, -1e300 * 1e300, log(-1) == log(-1) }`,
	`BEGIN { print 1 / 0 }`,
	`BEGIN { print 1 % 0 }`,
	`BEGIN { x = 0; x /= 0 }`,
	`BEGIN { x = 0; $1 %= x }`,
	`BEGIN { print 2 ^ 1024, -2 ^ 0.5, 0 ^ -1 }`,
	`BEGIN { print substr("hello", 1.5, 2.5), substr("hello", 0.4), int(-0.9), int("0x1A"), int("1e3x") }`,
	`BEGIN { CONVFMT = "%.2g"; a = 3.14159; b = a ""; A[a] = 1; for (k in A) print k, b }`,
	`BEGIN { OFS = "-"; $0 = "a b c"; $1 = $1; print; print $1, $2; OFS = ""; $1 = $1; print }`,
	`BEGIN { FS = ","; $0 = "a,b,,c,"; print NF; FS = "\t"; $0 = "a\tb"; print NF; FS = " "; $0 = "  a   b  "; print NF; FS = "\\|"; $0 = "a|b"; print NF }`,
	`BEGIN { RS = "\n\n+"; } { print NR ":" $0; print RT }`,
	`BEGIN { RS = "x" } { print NR, RT } END { print RT == "" }`,
	`BEGIN { INPUTMODE = "csv header" } { print @"a", $0 }`,
	`BEGIN { INPUTMODE = "tsv" } NR == 1 { OUTPUTMODE = "csv"; INPUTMODE = "default" } { print $1, $2 }`,
	`function f(f1) { return f1 } BEGIN { print f(1) f(2) (f(3)) }`,
	`function r(n) { if (n == 0) exit 7; r(n - 1) } BEGIN { r(100) } END { print "end" }`,
	`function r(n) { if (n == 0) { getline; next }; r(n - 1) } { r(5); print "not reached" } END { print NR }`,
	`function r(A, n) { for (k in A) { if (n == 0) return k; return r(A, n - 1) } } BEGIN { X[1]; print r(X, 200) }`,
	`BEGIN { while (1) { if (++i > 5) break; for (;;) { if (++j > 3) break; continue }; do { k++; if (k > 100) break } while (1) }; print i, j, k }`,
	`BEGIN { for (k in A) print "never"; if (!(1 in A)) print "empty"; print length(A) }`,
	`BEGIN { print -"", +"", !"", !"a", - -1, !!2, 1 - -1, 2 - -1 }`,
	`BEGIN { print 1,2 > "/dev/stdout" ; print(1,2) > "/dev/stdout"; print (1)(2) }`,
	`BEGIN { print length(A), length(x); A[1]; x = 1 }`,
	`BEGIN { $(1e5) = "x"; print NF; NF = 3; print NF; $0 = ""; print NF }`,
	`{ $(NF + 2) = "new"; print NF; NF -= 1; print; $NF = ""; print NF; NF++; print }`,
	`BEGIN { printf "%s", "no newline" | "cat"; close("cat"); print "x" > "/dev/null"; close("/dev/null"); print "y" >> "/dev/null" }`,
}

// ---- generator ----

type Gen struct {
	r *hx.Rand
}

func (g *Gen) pickInput() string {
	switch g.r.Intn(6) {
	case 0:
		return input0
	case 1:
		return ""
	case 2:
		return hostileInput(g.r, 40+g.r.Intn(200))
	case 3:
		return "a,b,c\n1,\"x\"\"y\",3\n\"multi\nline\",,\n\xef\xbb\xbfz,z,z\n"
	case 4:
		return "no trailing newline"
	default:
		return input0 + hostileInput(g.r, 30)
	}
}

// bytes biased towards what splitters, UTF-8 decoding and CSV care about
func hostileInput(r *hx.Rand, n int) string {
	alphabet := []string{"a", "b", " ", "  ", "\t", "\n", "\n\n", "\r\n", ",", "\"", "\"\"", "\x00", "\xff", "\xfe", "\xc3", "\xc3\xa9", "\xe2\x82\xac", "\xe2\x82",
		"\xf0\x9f\x98\x80", "\xf0\x9f", "\xed\xa0\x80", "\xef\xbb\xbf", "1", "1e30", "-", "0x1f", "+inf", "nan", "x", "é", "|", "\\", "[", "(", "%s", "%", "=", "\x7f", "\x80", "\xbf"}
	var sb strings.Builder
	for sb.Len() < n {
		sb.WriteString(alphabet[r.Intn(len(alphabet))])
	}
	return sb.String()
}

func subst(t, h, g string) string {
	t = strings.ReplaceAll(t, "<H>", h)
	return strings.ReplaceAll(t, "<G>", g)
}

func api(family, src, input string) *Case {
	return &Case{Kind: "api", Family: family, SrcHex: hxe(src), InputHex: hxe(input), Exec: "execprogram"}
}

// injectHostile replaces numeric literals of an awkgen tree by hostile values (probability 1/3 each)
func injectHostile(r *hx.Rand, nodes []*awkgen.Node) {
	for _, x := range nodes {
		if x == nil {
			continue
		}
		if x.K == "num" && r.Intn(3) == 0 {
			x.S = hostile[r.Intn(len(hostile))]
			if strings.HasPrefix(x.S, "\"") { // keep literals numeric where the generator relies on the kind
				x.S = "(" + x.S + ")"
			}
		}
		// `for` loops of awkgen keep their bound in Kids[0]: leave loop bounds alone so programs terminate
		if x.K == "for" {
			injectHostile(r, x.Body)
			continue
		}
		injectHostile(r, x.Kids)
		injectHostile(r, x.Body)
		injectHostile(r, x.Else)
	}
}

func injectProgram(r *hx.Rand, p *awkgen.Program) {
	for _, f := range p.G.Funcs {
		injectHostile(r, f.Body)
	}
	injectHostile(r, p.Begin)
	for i := range p.Rules {
		injectHostile(r, []*awkgen.Node{p.Rules[i].Pattern, p.Rules[i].Range})
		injectHostile(r, p.Rules[i].Body)
	}
	injectHostile(r, p.End)
}

func recursionProgram(shape int, depth string) string {
	switch shape {
	case 0:
		return fmt.Sprintf(`function f(n) { if (n <= 0) return 0; return 1 + f(n - 1) } BEGIN { print f(%s) }`, depth)
	case 1:
		return fmt.Sprintf(`function f(n) { if (n <= 0) return 0; return 1 + g(n - 1) } function g(n) { if (n <= 0) return 0; return 1 + f(n - 1) } BEGIN { print f(%s) }`, depth)
	case 2:
		return fmt.Sprintf(`function f(A, n) { for (k in A) { if (n <= 0) return 0; return 1 + f(A, n - 1) } } BEGIN { X[1]; print f(X, %s) }`, depth)
	case 3:
		return fmt.Sprintf(`function f(n,  a, b, c, d, e, arr) { arr[n] = n; if (n <= 0) return 0; return 1 + f(n - 1) } { print f(%s) }`, depth)
	default:
		return fmt.Sprintf(`function f(n) { return n <= 0 ? 0 : 1 + f(n - 1) + 0 * f(0) } BEGIN { x = f(%s); print x }`, depth)
	}
}
