package main

import (
	"bytes"
	"context"
	"encoding/hex"
	"fmt"
	"io"
	"os"
	"os/exec"
	"path/filepath"
	"regexp"
	"runtime/debug"
	"strings"
	"syscall"
	"time"

	"github.com/benhoyt/goawk/interp"
	"github.com/benhoyt/goawk/parser"
)

// Case is one complete, replayable run of the implementation. Everything that can hold arbitrary
// bytes is hex-encoded (JSON would mangle invalid UTF-8).
type Case struct {
	Kind      string   `json:"kind"`       // "api" | "cli"
	Family    string   `json:"family"`     // generator family (histogram key)
	SrcHex    string   `json:"src_hex"`    // program text
	InputHex  string   `json:"input_hex"`  // stdin
	VarsHex   []string `json:"vars_hex"`   // Config.Vars (name, value, ...), each hex
	ArgsHex   []string `json:"args_hex"`   // api: Config.Args; cli: the full argument vector
	Chars     bool     `json:"chars"`      // Config.Chars (-c)
	InMode    string   `json:"in_mode"`    // "", "csv", "tsv", "csv-header"
	OutMode   string   `json:"out_mode"`   // "", "csv", "tsv"
	Exec      string   `json:"exec"`       // "execprogram" | "context" | "reuse" (New + Execute twice)
	Funcs     string   `json:"funcs"`      // "", or the name of a Funcs fixture
	AllowIO   bool     `json:"allow_io"`   // false: NoExec/NoFileWrites/NoFileReads set
	Expect    string   `json:"expect"`     // "" (anything but a crash) | "error" | "ok"
	ExpectWhy string   `json:"expect_why"` // oracle used when Expect is set
	ExpectOutHex string `json:"expect_out_hex"` // with Expect "ok": the exact output
	Cuts      []int    `json:"cuts"`       // api: delivery of the input: sizes of the successive Reads (0 = a Read returning no bytes); nil = one piece
	LastEOF   bool     `json:"last_eof"`   // api: the final Read returns its bytes together with io.EOF
	Cfg       string   `json:"cfg"`        // api: name of a Config fixture applied last (hostile struct fields)
	Files     map[string]string `json:"files"` // cli: files created in the scratch working directory (name -> hex content)
}

func hxe(s string) string { return hex.EncodeToString([]byte(s)) }
func unhx(s string) string {
	b, err := hex.DecodeString(s)
	if err != nil {
		panic("bad hex in case: " + s)
	}
	return string(b)
}
func hxs(ss ...string) []string {
	out := make([]string, len(ss))
	for i, s := range ss {
		out[i] = hxe(s)
	}
	return out
}
func unhxs(ss []string) []string {
	out := make([]string, len(ss))
	for i, s := range ss {
		out[i] = unhx(s)
	}
	return out
}

// Outcome of a run.
type Outcome struct {
	Rejected bool  // api: the parser did not accept the program (outside the property)
	Panic   string // recovered panic value / "panic:" line of the CLI ("" = none)
	Site    string // innermost goawk frame of the panic
	Status  int
	Err     string
	ErrType string
	Out     []byte
	Timeout bool
	// History: what the follow-up Executes on ONE reused Interpreter ended with (see runHistory);
	// HistoryRun > 0: the panic happened in that Execute of the history, not in the first run.
	History    []string
	HistoryRun int
	HistoryBad string // an expectation about the history that failed
}

// ---- Funcs fixtures (the API accepts map[string]any: hostile values are part of the configuration space) ----

type myBool bool
type myBytes []byte

func funcsFixture(name string) map[string]any {
	switch name {
	case "":
		return nil
	case "ok":
		return map[string]any{"f": func(a float64, s string) string { return fmt.Sprint(a, s) }}
	case "int42":
		return map[string]any{"f": 42}
	case "nil":
		return map[string]any{"f": nil}
	case "nil-uncalled":
		return map[string]any{"g": nil}
	case "defined-bool":
		return map[string]any{"f": func(b myBool) int { return 1 }}
	case "defined-bytes-result":
		return map[string]any{"f": func() myBytes { return myBytes("x") }}
	case "variadic":
		return map[string]any{"f": func(xs ...int) int { return len(xs) }}
	case "panics":
		return map[string]any{"f": func() int { panic("user function panicked") }}
	}
	panic("unknown funcs fixture " + name)
}

// hostile values of Config fields that only Go code can set
func applyCfgFixture(name string, cfg *interp.Config) {
	switch name {
	case "":
	case "shell-empty":
		cfg.ShellCommand = []string{}
		cfg.NoExec = false
	case "shell-nonexistent":
		cfg.ShellCommand = []string{"/nonexistent/shell", "-c"}
		cfg.NoExec = false
	case "csv-sep-quote":
		cfg.InputMode, cfg.CSVInput.Separator = interp.CSVMode, '"'
	case "csv-sep-big":
		cfg.InputMode, cfg.CSVInput.Separator = interp.CSVMode, 0x110000
	case "csv-sep-neg":
		cfg.InputMode, cfg.CSVInput.Separator = interp.CSVMode, -1
	case "csv-comment-eq-sep":
		cfg.InputMode, cfg.CSVInput.Separator, cfg.CSVInput.Comment = interp.CSVMode, ';', ';'
	case "csv-out-sep-nl":
		cfg.OutputMode, cfg.CSVOutput.Separator = interp.CSVMode, '\n'
	case "mode-7":
		cfg.InputMode, cfg.OutputMode = interp.IOMode(7), interp.IOMode(-3)
	case "newline-9":
		cfg.NewlineOutput = interp.NewlineMode(9)
	case "header-default-mode":
		cfg.InputMode, cfg.CSVInput.Header = interp.DefaultMode, true
	case "funcs-keyword":
		cfg.Funcs = map[string]any{"BEGIN": func() int { return 1 }}
	case "funcs-unparsed":
		cfg.Funcs = map[string]any{"zzz": func() int { return 1 }, "": func() {}}
	case "environ-odd":
		cfg.Environ = []string{"a"}
	case "error-writer-nil":
		cfg.Stdin, cfg.Error = strings.NewReader(""), nil
	case "argv0":
		cfg.Argv0 = "\xff\x00"
	case "noargvars":
		cfg.NoArgVars = true
		cfg.Args = []string{"x=1", "/nonexistent"}
	default:
		panic("unknown config fixture " + name)
	}
}

var cfgFixtures = []string{"shell-empty", "shell-nonexistent", "csv-sep-quote", "csv-sep-big", "csv-sep-neg", "csv-comment-eq-sep", "csv-out-sep-nl",
	"mode-7", "newline-9", "header-default-mode", "funcs-keyword", "funcs-unparsed", "environ-odd", "error-writer-nil", "argv0", "noargvars"}

var goawkFrame = regexp.MustCompile(`github\.com/benhoyt/goawk/([A-Za-z0-9_/]+)\.([^\s(]*(?:\([^)]*\))?[A-Za-z0-9_.]*)\(`)

// innermost goawk function on a Go stack trace (skipping this harness)
func siteOf(stack string) string {
	for _, line := range strings.Split(stack, "\n") {
		if strings.Contains(line, "verif/harness") {
			continue
		}
		if m := goawkFrame.FindStringSubmatch(line); m != nil {
			return m[1] + "." + m[2]
		}
	}
	return "?"
}

var quoted = regexp.MustCompile("`[^`]*`|\"(?:[^\"\\\\]|\\\\.)*\"|0x[0-9a-fA-F]+")
var loneNum = regexp.MustCompile(`([\s\[:(])-?[0-9]+`)

// panic message with quoted data and numbers removed: a stable class
func normMsg(msg string) string {
	if i := strings.Index(msg, "\n"); i >= 0 {
		msg = msg[:i]
	}
	msg = strings.TrimPrefix(msg, "panic: ")
	if strings.Contains(msg, "out of range") {
		return "runtime error: index or slice bounds out of range"
	}
	msg = quoted.ReplaceAllString(msg, "_")
	msg = loneNum.ReplaceAllString(msg, "${1}_")
	if len(msg) > 90 {
		msg = msg[:90]
	}
	return strings.TrimSpace(msg)
}

func (o Outcome) Class() string { return "panic@" + o.Site + "|" + normMsg(o.Panic) }

const input0 = "a b c\n1 2 3\nx10 y z\n\n4.5 aab 7 8\n"

func modeOf(s string) (interp.IOMode, bool) {
	switch s {
	case "csv":
		return interp.CSVMode, false
	case "tsv":
		return interp.TSVMode, false
	case "csv-header":
		return interp.CSVMode, true
	case "tsv-header":
		return interp.TSVMode, true
	}
	return interp.DefaultMode, false
}

// chunkReader delivers the input in Reads of chosen sizes (what a pipe, a socket or a buffer
// boundary does); bytes beyond the listed sizes are delivered in one final Read.
type chunkReader struct {
	data    []byte
	cuts    []int
	pos, k  int
	lastEOF bool
}

func newChunkReader(data string, cuts []int, lastEOF bool) *chunkReader {
	return &chunkReader{data: []byte(data), cuts: append([]int(nil), cuts...), lastEOF: lastEOF}
}

func (c *chunkReader) Read(p []byte) (int, error) {
	if c.pos >= len(c.data) && c.k >= len(c.cuts) {
		return 0, io.EOF
	}
	want := len(c.data) - c.pos
	if c.k < len(c.cuts) {
		if c.cuts[c.k] < want {
			want = c.cuts[c.k]
		}
	}
	n := want
	if n > len(p) {
		n = len(p)
	}
	copy(p, c.data[c.pos:c.pos+n])
	c.pos += n
	if c.k < len(c.cuts) {
		if n == want {
			c.k++
		} else {
			c.cuts[c.k] -= n
		}
	}
	if c.lastEOF && c.pos >= len(c.data) && c.k >= len(c.cuts) {
		return n, io.EOF
	}
	return n, nil
}

// runAPI: parser.ParseProgram + interp under recover().
func runAPI(c *Case) (o Outcome) {
	defer func() {
		if r := recover(); r != nil {
			o.Panic = fmt.Sprint(r)
			o.Site = siteOf(string(debug.Stack()))
		}
	}()
	var pcfg *parser.ParserConfig
	funcs := funcsFixture(c.Funcs)
	if funcs != nil {
		pcfg = &parser.ParserConfig{Funcs: funcs}
	}
	prog, err := parser.ParseProgram([]byte(unhx(c.SrcHex)), pcfg)
	if err != nil {
		o.Err, o.ErrType = err.Error(), fmt.Sprintf("%T", err)
		o.Rejected = true // not accepted: outside the property
		return
	}
	var out bytes.Buffer
	cfg := &interp.Config{
		Stdin: strings.NewReader(unhx(c.InputHex)), Output: &out, Error: &out,
		Vars: unhxs(c.VarsHex), Args: unhxs(c.ArgsHex), Chars: c.Chars, Funcs: funcs,
		Environ: []string{"HOME", "/", "K", "v"},
		NoExec:  !c.AllowIO, NoFileWrites: !c.AllowIO, NoFileReads: !c.AllowIO,
	}
	if c.Cuts != nil {
		cfg.Stdin = newChunkReader(unhx(c.InputHex), c.Cuts, c.LastEOF)
	}
	im, hdr := modeOf(c.InMode)
	cfg.InputMode, cfg.CSVInput.Header = im, hdr
	cfg.OutputMode, _ = modeOf(c.OutMode)
	applyCfgFixture(c.Cfg, cfg)
	switch c.Exec {
	case "context", "reuse":
		p, err := interp.New(prog)
		if err != nil {
			o.Err, o.ErrType = err.Error(), fmt.Sprintf("%T", err)
			return
		}
		ctx, cancel := context.WithTimeout(context.Background(), 10*time.Second)
		defer cancel()
		st, err := p.ExecuteContext(ctx, cfg)
		if c.Exec == "reuse" {
			cfg.Stdin = strings.NewReader(unhx(c.InputHex))
			if c.Cuts != nil {
				cfg.Stdin = newChunkReader(unhx(c.InputHex), c.Cuts, c.LastEOF)
			}
			p.ResetVars()
			st, err = p.ExecuteContext(ctx, cfg)
		}
		o.Status = st
		if err != nil {
			o.Err, o.ErrType = err.Error(), fmt.Sprintf("%T", err)
			if ctx.Err() != nil {
				o.Timeout = true
			}
		}
	default:
		st, err := interp.ExecProgram(prog, cfg)
		o.Status = st
		if err != nil {
			o.Err, o.ErrType = err.Error(), fmt.Sprintf("%T", err)
		}
	}
	o.Out = out.Bytes()
	// The property quantifies over histories: a run that ended with a run-time error must leave
	// nothing behind that makes a later Execute on the same Interpreter crash.
	if (o.Err != "" && !o.Timeout) || c.Expect == "error" {
		runHistory(c, prog, cfg, &o)
	}
	return
}

// runHistory executes the program three more times on ONE Interpreter made by interp.New:
// Execute, Execute again (all caches and variables kept), ResetVars + Execute. A panic in any
// of them is recovered by runAPI's deferred recover; o.HistoryRun says which Execute it was.
func runHistory(c *Case, prog *parser.Program, cfg *interp.Config, o *Outcome) {
	p, err := interp.New(prog)
	if err != nil {
		o.History = append(o.History, "New: "+err.Error())
		return
	}
	for k := 1; k <= 3; k++ {
		var out bytes.Buffer
		cfg.Output, cfg.Error = &out, &out
		cfg.Stdin = strings.NewReader(unhx(c.InputHex))
		if c.Cuts != nil {
			cfg.Stdin = newChunkReader(unhx(c.InputHex), c.Cuts, c.LastEOF)
		}
		if k == 3 {
			p.ResetVars()
		}
		o.HistoryRun = k
		ctx, cancel := context.WithTimeout(context.Background(), 10*time.Second)
		st, err := p.ExecuteContext(ctx, cfg)
		timedOut := ctx.Err() != nil
		cancel()
		if timedOut {
			o.History = append(o.History, fmt.Sprintf("Execute #%d: timeout", k))
			break
		}
		if err != nil {
			o.History = append(o.History, fmt.Sprintf("Execute #%d: error: %s", k, err))
		} else {
			o.History = append(o.History, fmt.Sprintf("Execute #%d: status %d", k, st))
			if c.Expect == "error" && o.HistoryBad == "" {
				o.HistoryBad = fmt.Sprintf("Execute #%d on the reused Interpreter returned no error", k)
			}
		}
	}
	o.HistoryRun = 0
}

var goawkBin string

var cliFrame = regexp.MustCompile(`^(main\.[A-Za-z0-9_.()*]+|github\.com/benhoyt/goawk/[^\s(]+(?:\([^)]*\))?[A-Za-z0-9_.]*)\(`)

// runCLI: the goawk binary in a child process under an address-space limit and a timeout.
// Exit status 2 with "panic:" (or a Go fatal error) on stderr is a crash.
func runCLI(c *Case) (o Outcome) {
	args := unhxs(c.ArgsHex)
	ctx, cancel := context.WithTimeout(context.Background(), 20*time.Second)
	defer cancel()
	// the address-space limit set on the harness at start-up (limitMemory) is inherited by the child
	cmd := exec.CommandContext(ctx, goawkBin, args...)
	cmd.SysProcAttr = &syscall.SysProcAttr{Setpgid: true}
	cmd.WaitDelay = 2 * time.Second
	cmd.Cancel = func() error { return syscall.Kill(-cmd.Process.Pid, syscall.SIGKILL) }
	cmd.Stdin = strings.NewReader(unhx(c.InputHex))
	cmd.Env = []string{"PATH=/usr/bin:/bin", "HOME=/", "GOTRACEBACK=all"}
	dir, derr := os.MkdirTemp("", "c02cli")
	if derr != nil {
		o.Err = "harness: " + derr.Error()
		return
	}
	defer os.RemoveAll(dir)
	for name, content := range c.Files {
		os.WriteFile(filepath.Join(dir, name), []byte(unhx(content)), 0o644)
	}
	cmd.Dir = dir
	var out, errb bytes.Buffer
	cmd.Stdout, cmd.Stderr = &out, &errb
	err := cmd.Run()
	o.Out = out.Bytes()
	if ctx.Err() != nil {
		o.Timeout = true
		return
	}
	if cmd.ProcessState != nil {
		o.Status = cmd.ProcessState.ExitCode()
	}
	_ = err
	stderr := errb.String()
	o.Err = stderr
	if len(o.Err) > 400 {
		o.Err = o.Err[:400]
	}
	crash := ""
	for _, line := range strings.Split(stderr, "\n") {
		if strings.HasPrefix(line, "panic: ") || strings.HasPrefix(line, "fatal error: ") || strings.HasPrefix(line, "runtime: ") {
			crash = line
			break
		}
	}
	if crash != "" && strings.Contains(stderr, "goroutine ") {
		o.Panic = crash
		o.Site = "?"
		seenGoroutine := false
		for _, line := range strings.Split(stderr, "\n") {
			if strings.HasPrefix(line, "goroutine ") {
				seenGoroutine = true
				continue
			}
			if seenGoroutine {
				if m := cliFrame.FindStringSubmatch(line); m != nil {
					o.Site = strings.TrimPrefix(m[1], "github.com/benhoyt/goawk/")
					break
				}
			}
		}
	}
	return
}

// limitMemory caps the address space of this process and of every child it starts, so that a
// hostile count cannot exhaust the machine (an allocation failure is then a Go fatal error in
// the child, or in this process — reported, not silently survived).
func limitMemory() {
	lim := syscall.Rlimit{Cur: 12 << 30, Max: 12 << 30}
	_ = syscall.Setrlimit(syscall.RLIMIT_AS, &lim)
}

func run(c *Case) Outcome {
	if c.Kind == "cli" {
		return runCLI(c)
	}
	return runAPI(c)
}

func (c *Case) Detail(o Outcome) map[string]any {
	show := func(s string) string {
		if len(s) > 600 {
			s = s[:600] + "..."
		}
		return fmt.Sprintf("%q", s)
	}
	d := map[string]any{
		"case": c, "program": show(unhx(c.SrcHex)), "input": show(unhx(c.InputHex)),
		"got_panic": o.Panic, "got_site": o.Site, "got_status": o.Status, "got_error": show(o.Err),
		"got_output": show(string(o.Out)), "expected": "an exit status or an error value, no panic",
	}
	if o.HistoryRun > 0 {
		d["history"] = fmt.Sprintf("the panic happened in Execute #%d (of Execute, Execute, ResetVars+Execute) on ONE Interpreter made by interp.New after the first run had ended with error %q; earlier Executes of that Interpreter: %q", o.HistoryRun, o.Err, o.History)
	} else if len(o.History) > 0 {
		d["history"] = fmt.Sprintf("%q", o.History)
	}
	if c.Cuts != nil {
		d["delivery"] = fmt.Sprintf("input delivered in Reads of sizes %v (rest in one Read), io.EOF with the last bytes: %v", c.Cuts, c.LastEOF)
	}
	if c.Kind == "cli" {
		d["argv"] = fmt.Sprintf("%q", unhxs(c.ArgsHex))
		for name, content := range c.Files {
			d["file:"+name] = show(unhx(content))
		}
	}
	if c.Expect != "" {
		d["expected"] = c.Expect + " (" + c.ExpectWhy + ")"
	}
	return d
}
