package main

import (
	"bufio"
	"bytes"
	"encoding/json"
	"fmt"
	"io"
	"os"
	"os/exec"
	"strings"
	"sync"
	"syscall"
	"time"
)

// The in-process (API) cases run in a WORKER child of this harness: a Go fatal error that
// recover() cannot catch (stack exhaustion, out of memory under the address-space limit, a panic
// in a goroutine started by the interpreter) then kills the worker, not the harness, and is
// reported as a failure of the case that was running, with the fatal message and its site.

func workerMain() {
	limitMemory()
	in := bufio.NewReaderSize(os.Stdin, 1<<20)
	out := bufio.NewWriter(os.Stdout)
	for {
		line, err := in.ReadBytes('\n')
		if len(line) > 0 {
			var c Case
			if jerr := json.Unmarshal(line, &c); jerr != nil {
				fmt.Fprintln(os.Stderr, "worker: bad case:", jerr)
				os.Exit(3)
			}
			o := runAPI(&c)
			b, _ := json.Marshal(o)
			out.Write(b)
			out.WriteByte('\n')
			out.Flush()
		}
		if err != nil {
			return
		}
	}
}

type syncBuf struct {
	mu sync.Mutex
	b  bytes.Buffer
}

func (s *syncBuf) Write(p []byte) (int, error) {
	s.mu.Lock()
	defer s.mu.Unlock()
	if s.b.Len() < 1<<16 {
		s.b.Write(p)
	}
	return len(p), nil
}
func (s *syncBuf) String() string { s.mu.Lock(); defer s.mu.Unlock(); return s.b.String() }

type worker struct {
	cmd    *exec.Cmd
	stdin  io.WriteCloser
	stdout *bufio.Reader
	stderr *syncBuf
}

func startWorker() (*worker, error) {
	self, err := os.Executable()
	if err != nil {
		return nil, err
	}
	cmd := exec.Command(self, "-worker")
	cmd.Env = append(os.Environ(), "GOTRACEBACK=all")
	cmd.SysProcAttr = &syscall.SysProcAttr{Setpgid: true} // so that stop() can kill grandchildren (cat, sh) too
	cmd.WaitDelay = 2 * time.Second                        // Wait must not block on pipes held by grandchildren
	w := &worker{cmd: cmd, stderr: &syncBuf{}}
	cmd.Stderr = w.stderr
	if w.stdin, err = cmd.StdinPipe(); err != nil {
		return nil, err
	}
	so, err := cmd.StdoutPipe()
	if err != nil {
		return nil, err
	}
	w.stdout = bufio.NewReaderSize(so, 1<<20)
	if err := cmd.Start(); err != nil {
		return nil, err
	}
	return w, nil
}

func (w *worker) stop() {
	w.stdin.Close()
	syscall.Kill(-w.cmd.Process.Pid, syscall.SIGKILL)
	w.cmd.Process.Kill()
	w.cmd.Wait()
}

// runAll runs the API cases in order through worker processes.
func runAll(cases []*Case, outs []Outcome, harnessError func(string, ...any)) {
	var w *worker
	defer func() {
		if w != nil {
			w.stop()
		}
	}()
	for i, c := range cases {
		if c.Kind != "api" {
			continue
		}
		if w == nil {
			var err error
			if w, err = startWorker(); err != nil {
				harnessError("cannot start worker: %v", err)
				return
			}
		}
		b, _ := json.Marshal(c)
		type res struct {
			line []byte
			err  error
		}
		ch := make(chan res, 1)
		go func(w *worker) {
			if _, err := w.stdin.Write(append(b, '\n')); err != nil {
				ch <- res{nil, err}
				return
			}
			line, err := w.stdout.ReadBytes('\n')
			ch <- res{line, err}
		}(w)
		select {
		case r := <-ch:
			var o Outcome
			if r.err == nil && json.Unmarshal(r.line, &o) == nil {
				outs[i] = o
				continue
			}
			// the worker died while running this case
			syscall.Kill(-w.cmd.Process.Pid, syscall.SIGKILL)
			w.cmd.Wait()
			stderr := w.stderr.String()
			o = Outcome{Panic: "worker process died", Site: "?"}
			for _, line := range strings.Split(stderr, "\n") {
				if strings.HasPrefix(line, "fatal error: ") || strings.HasPrefix(line, "panic: ") || strings.HasPrefix(line, "runtime: ") {
					o.Panic = line
					break
				}
			}
			o.Site = siteOf(stderr)
			o.Err = stderr
			if len(o.Err) > 600 {
				o.Err = o.Err[:600]
			}
			outs[i] = o
			w.stop()
			w = nil
		case <-time.After(60 * time.Second):
			outs[i] = Outcome{Timeout: true}
			w.stop()
			w = nil
		}
	}
}
