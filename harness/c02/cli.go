package main

import (
	"fmt"
	"strings"

	"verif/harness/awkgen"
	"verif/harness/hx"
)

func cli(family string, input string, args ...string) *Case {
	return &Case{Kind: "cli", Family: family, ArgsHex: hxs(args...), InputHex: hxe(input)}
}

func cliFile(family, input, name, content string, args ...string) *Case {
	c := cli(family, input, args...)
	c.Files = map[string]string{name: hxe(content)}
	return c
}

// broken sources: the error-reporting path of the command (position -> source line + caret)
var brokenSources = []string{
	"BEGIN { x = 1e\n print 1 +* 2 }",
	"x = 1e\n}",
	"BEGIN { x = 1e+\n",
	"BEGIN { y = 2E-\n\n\n print ) }",
	"BEGIN {",
	"",
	"\n\n{",
	"}",
	"BEGIN { print \"unterminated }",
	"BEGIN { print \"a\nb\" }",
	"BEGIN { print /unterminated }",
	"BEGIN { x = \t\t\t) }",
	"BEGIN { \xff\xfe = 1 }",
	"BEGIN { x = \"\xff\" ) }",
	"BEGIN { é = 1 }",
	"# only a comment",
	"BEGIN { print 1 }\n\n\n\n\n\n@",
	"BEGIN { print 1 } \\\n \\\n )",
	"BEGIN { print 1e\n}",
	"BEGIN { print 1e\n} )",
	"BEGIN { x = 0x\n) }",
	"function f(a, a) { }",
	"function f() { } function f() { }",
	"BEGIN { f() }",
	"BEGIN { next }",
	"function f(x) { x[1]; x = 1 }",
	"BEGIN { return }",
	"BEGIN { break }",
	"BEGIN { getline < }",
	"BEGIN { a[1] = 1; a = 2 }",
	"BEGIN { NF() }",
	"BEGIN { print length( }",
	"BEGIN { $ }",
	"BEGIN { x = 1 +\n\n\n\n }",
	"\r\n\r\nBEGIN { ) }",
	"BEGIN { print 1.5e\r\n ) }",
	strings.Repeat("\n", 300) + ")",
	"BEGIN { x = " + strings.Repeat("(", 200) + "1e\n" + strings.Repeat(")", 199) + " }",
	"BEGIN { printf \"%d\" 1 2 3 4 > }",
	"BEGIN { 1e\n1e\n1e\n ) }",
}

func cliCases(r *hx.Rand, thorough bool) []*Case {
	var cs []*Case
	add := func(c *Case) { cs = append(cs, c) }
	in := input0

	// one-byte separators through -v / -F and through the program text
	seps := []int{0, 255}
	if thorough {
		seps = []int{0, 9, 10, 32, 92, 127, 128, 160, 195, 254, 255}
	}
	for _, b := range seps {
		add(cli("cli-sep", in, "-v", fmt.Sprintf(`RS=\x%02x`, b), `{ print NR }`))
		add(cli("cli-sep", in, fmt.Sprintf(`BEGIN { RS = "\x%02x" } { print NR }`, b)))
		add(cli("cli-sep", in, "-F", string([]byte{byte(b)}), `{ print NF }`))
		add(cli("cli-sep", in, "-v", "OFS="+string([]byte{byte(b)}), "-v", "ORS="+string([]byte{byte(b)}), "-v", "SUBSEP="+string([]byte{byte(b)}), `{ $1 = $1; print }`))
	}
	// source errors: -f file and inline
	for i, src := range brokenSources {
		if !thorough && i > 3 && i%2 == 1 {
			continue
		}
		add(cliFile("cli-syntax-error-file", in, "prog.awk", src, "-f", "prog.awk"))
		if !strings.Contains(src, "\x00") && (thorough || i%8 == 0) {
			add(cli("cli-syntax-error-arg", in, src))
		}
		if thorough && i%4 == 0 {
			add(cliFile("cli-syntax-error-file", in, "prog.awk", src, "-f", "prog.awk", "-f", "prog.awk"))
			add(cliFile("cli-syntax-error-file", in, "prog.awk", src, "-E", "prog.awk"))
		}
	}
	// random truncations / newline insertions of generated programs: more error positions
	nBroken := 12
	if thorough {
		nBroken = 1500
	}
	for i := 0; i < nBroken; i++ {
		p := awkgen.NewProgram(r, true, 1+r.Intn(2))
		src := p.Render(awkgen.Opts{})
		switch r.Intn(4) {
		case 0:
			src = src[:r.Intn(len(src)+1)]
		case 1:
			k := r.Intn(len(src) + 1)
			src = src[:k] + []string{"1e\n", ")", "\"", "\n\n1E+\n", "\xff", "}", "{", "/"}[r.Intn(8)] + src[k:]
		case 2:
			k := r.Intn(len(src) + 1)
			src = src[:k] + "1e\n" + src[k:] + " )"
		default:
			src = strings.Replace(src, " ", "\n", 3+r.Intn(5)) + "\n ) "
		}
		add(cliFile("cli-broken-generated", in, "p.awk", src, "-f", "p.awk"))
	}
	// flags
	flagN := 0
	prog := `{ print $1, NF } END { print NR }`
	for _, a := range [][]string{
		{}, {"-h"}, {"--help"}, {"-version"}, {"--version"}, {"-Z"}, {"--"}, {"-f"}, {"-v"}, {"-F"}, {"-i"}, {"-o"}, {"-N"}, {"-E"},
		{"-f", "/nonexistent"}, {"-E", "/nonexistent"}, {"-v", "x", prog}, {"-v", "=1", prog}, {"-v", "1x=2", prog}, {"-v", "x=\\", prog}, {"-v", "x=\\x", prog}, {"-v", "x=\\400", prog},
		{"-v", "NF=1e30", prog}, {"-v", "ARGC=nan", prog}, {"-v", "RS=((", prog}, {"-v", "FS=(", prog}, {"-v", "INPUTMODE=csv separator=ab", prog},
		{"-F", "(", prog}, {"-F", "\\", prog}, {"-F", "", prog}, {"-F", "t", prog}, {"-F", "\\t", prog}, {"-F", "\xff", prog}, {"-F", "\xc3\xa9", prog}, {"-F(", prog}, {"-F"},
		{"-i", "csv", prog}, {"-i", "csv header", prog}, {"-i", "tsv", "-H", prog}, {"-H", prog}, {"-i", "bogus", prog}, {"-i", "csv separator=\xff", prog}, {"-i", "csv separator=", prog},
		{"-i", "csv comment=,", prog}, {"-i", "", prog}, {"-o", "csv", prog}, {"-o", "tsv separator=|", prog}, {"-o", "bogus", prog}, {"-o", "csv separator=\n", prog},
		{"--csv", prog}, {"-csv", "-H", `{ print @"a" }`}, {"-c", `{ print length($0), substr($0, 2, 2) }`}, {"-N", "raw", prog}, {"-N", "crlf", prog}, {"-N", "bogus", prog},
		{"-d", prog}, {"-da", prog}, {"-dt", prog}, {"-d", "-da", "-dt", prog}, {"-covermode", "bogus", prog}, {"-covermode", "count", "-d", prog},
		{prog, "/nonexistent"}, {prog, "-"}, {prog, "x=1", "-"}, {prog, "="}, {prog, "NF=1e30", "-"}, {prog, "RS=\xff", "-"}, {prog, ""}, {prog, "/"},
		{"-f", "-"}, {"-f", "/dev/null"}, {"-f", "/dev/null", "x"}, {"-E", "/dev/null"},
		{`BEGIN { exit 1e30 }`}, {`BEGIN { exit -1 }`}, {`BEGIN { exit 256 }`}, {`BEGIN { exit "x" }`}, {`BEGIN { exit log(-1) }`},
		{`BEGIN { print > "/nonexistent/dir/f" }`}, {`BEGIN { print | "exit 3" }`}, {`BEGIN { "exit 3" | getline; print system("kill -9 $$") }`},
		{`BEGIN { printf "%c", 1e30; printf "%*d", 1e30, 1 }`}, {`BEGIN { print ENVIRON["PATH"] != "", ARGV[0], ARGC }`},
		{`function f(n) { return f(n + 1) } BEGIN { f(0) }`}, {`BEGIN { $(1e7) = 1 }`}, {`BEGIN { x = "("; print "a" ~ x }`},
		{"-v", "x=1", "-v", "x=2", "-F:", "-f", "/dev/null", "--", "/dev/null"},
	} {
		flagN++
		if !thorough && flagN%2 == 0 {
			continue
		}
		add(cli("cli-flags", in, a...))
	}
	// debug dumps (-d syntax tree, -da disassembly, -dt types) of generated programs
	nDump := 12
	if thorough {
		nDump = 1000
	}
	for i := 0; i < nDump; i++ {
		p := awkgen.NewProgram(r, i%2 == 0, 1+r.Intn(3))
		if i%3 == 0 {
			injectProgram(r, p)
		}
		flag := []string{"-d", "-da", "-dt"}[i%3]
		add(cli("cli-dump"+flag, "", flag, p.Render(awkgen.Opts{})))
	}
	for i, src := range miscPrograms {
		if thorough || i%9 == 0 {
			add(cli("cli-dump-da", "", "-da", src))
		}
	}
	// real I/O (child processes, files in the scratch directory) only happens here, in a child process
	nIO := 8
	if thorough {
		nIO = 600
	}
	for i := 0; i < nIO; i++ {
		p := awkgen.NewProgram(r, false, 1+r.Intn(3))
		add(cli("cli-gen-io", in, p.Render(awkgen.Opts{})))
	}
	for i, src := range miscPrograms {
		if strings.Contains(src, "kill") || strings.Contains(src, "1000000") || (!thorough && i%9 != 1) {
			continue
		}
		add(cli("cli-misc", in, src))
	}
	return cs
}

// printf with a random format string and hostile arguments
func printfProgram(r *hx.Rand) string {
	var f strings.Builder
	nverbs := 0
	for k := 0; k < 1+r.Intn(4); k++ {
		if r.Intn(4) == 0 {
			f.WriteString([]string{"a", " ", "%%", "\\n", "é", "\\xff", "|"}[r.Intn(7)])
		}
		f.WriteString("%")
		for j := r.Intn(3); j > 0; j-- {
			f.WriteString([]string{"-", "+", " ", "#", "0", "'"}[r.Intn(6)])
		}
		switch r.Intn(6) {
		case 0:
			f.WriteString("*")
			nverbs++
		case 1:
			f.WriteString(fmt.Sprint(r.Intn(12)))
		case 2:
			f.WriteString([]string{"999999", "1000001", "99999999999999999999", "2147483648"}[r.Intn(4)])
		}
		switch r.Intn(6) {
		case 0:
			f.WriteString(".*")
			nverbs++
		case 1:
			f.WriteString("." + fmt.Sprint(r.Intn(12)))
		case 2:
			f.WriteString(".")
		case 3:
			f.WriteString([]string{".999999", ".1000001", ".99999999999999999999"}[r.Intn(3)])
		}
		verbs := "diouxXcsfeEgGaAbqvtzlhLn$5 %"
		v := verbs[r.Intn(len(verbs))]
		if r.Intn(12) == 0 {
			// format ends inside a specification
			return finishPrintf(r, f.String(), nverbs)
		}
		f.WriteByte(v)
		if v != '%' {
			nverbs++
		}
	}
	return finishPrintf(r, f.String(), nverbs)
}

func finishPrintf(r *hx.Rand, format string, nverbs int) string {
	nargs := nverbs
	switch r.Intn(5) {
	case 0:
		nargs = r.Intn(nverbs + 1)
	case 1:
		nargs = nverbs + 1 + r.Intn(2)
	}
	var sb strings.Builder
	kw := "printf"
	if r.Intn(3) == 0 {
		kw = "x = sprintf("
	}
	sb.WriteString("BEGIN { " + kw + " \"" + format + "\"")
	for i := 0; i < nargs; i++ {
		sb.WriteString(", " + hostile[r.Intn(len(hostile))])
	}
	if kw != "printf" {
		sb.WriteString("); print length(x)")
	}
	sb.WriteString(" }")
	return sb.String()
}
