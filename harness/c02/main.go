// C02 harness — "running any accepted program never crashes the host".
//
// Correspondence (static pass): the REAL compiled code (parser.Program.Compiled, dumped by the
// verif hook) of every explored program is decoded by the Coq decoder, re-encoded (must give the
// same words), and checked by the Coq bytecode verifier (stack depth at every boundary, jump
// targets, frame indexes, call targets, for-in bodies) and the table-limits check; the model
// must answer "ok" for every program the parser accepts. The model of setSpecial's one-byte RS
// branch (panic iff the byte is not ASCII) is compared with the implementation for all 256 bytes.
//
// Search (dynamic): structured fuzz through the public API under recover() and through the goawk
// binary; every recovered panic / crashed process is a failure classified by panic site+message.
package main

import (
	"encoding/json"
	"flag"
	"fmt"
	"os"
	"os/exec"
	"path/filepath"
	"sort"
	"strings"
	"sync"
	"time"

	"github.com/benhoyt/goawk/parser"
	"verif/harness/awkgen"
	"verif/harness/hx"
)

type staticItem struct {
	src    string
	family string
	funcs  string
}

func main() {
	isWorker := flag.Bool("worker", false, "internal: run API cases read from stdin")
	o := hx.ParseFlags()
	if *isWorker {
		workerMain()
		return
	}
	rep := hx.NewReport("C02", o.Seed, o.Tier)
	rep.Rule = "static pass: every program the parser accepts (awkgen exec/IO mode, hostile-literal variants, all template/probe programs) is decoded, re-encoded and verified by the extracted Coq verifier — distinct = distinct program text, non-trivial = more than 8 opcode words; one-byte RS model vs implementation for all 256 bytes. dynamic: each case is one complete run (program, input, configuration) under recover() or in a goawk child process"
	r := hx.NewRand(o.Seed)
	thorough := o.Tier == "thorough"

	if o.Replay != "" {
		os.Exit(replay(o.Replay))
	}
	limitMemory()
	buildCLI(rep)

	g := &Gen{r: r}
	var static []staticItem
	var cases []*Case
	addCase := func(c *Case) {
		cases = append(cases, c)
		if c.Kind == "api" {
			fx := c.Funcs
			if fx != "ok" && fx != "variadic" {
				fx = ""
			}
			static = append(static, staticItem{unhx(c.SrcHex), c.Family, fx})
		}
	}

	// ---- 1. grammar-directed programs, exec and IO mode, with and without hostile literals ----
	nGen := 500
	if thorough {
		nGen = 20000
	}
	if o.N > 0 {
		nGen = o.N
	}
	for i := 0; i < nGen; i++ {
		noIO := i%3 != 2
		p := awkgen.NewProgram(r, noIO, 1+r.Intn(3))
		fam := "gen-exec"
		if !noIO {
			fam = "gen-io"
		}
		if i%2 == 1 {
			injectProgram(r, p)
			fam += "-hostile"
		}
		c := api(fam, p.Render(awkgen.Opts{}), g.pickInput())
		switch r.Intn(6) {
		case 0:
			c.Exec = "context"
		case 1:
			c.Exec = "reuse"
		}
		if r.Intn(5) == 0 {
			c.Chars = true
		}
		if r.Intn(8) == 0 {
			c.InMode = []string{"csv", "tsv", "csv-header"}[r.Intn(3)]
		}
		if r.Intn(10) == 0 {
			c.OutMode = []string{"csv", "tsv"}[r.Intn(2)]
		}
		addCase(c)
	}

	// ---- 2. hostile numbers in every float->int position: template x value (systematic), then pairs ----
	for ti, t := range exprTemplates {
		for hi, h := range hostile {
			if !thorough && (ti+hi)%2 == 1 && hi > 12 {
				continue
			}
			gv := hostile[(hi*7+ti)%len(hostile)]
			c := api("template", subst(t, h, gv), input0)
			c.Chars = (ti+hi)%5 == 0
			addCase(c)
		}
		// the largest legal counts allocate a million fields per use: fewer of them, one input line
		for hi, h := range hostileBig {
			if !thorough && (ti != 8 || hi > 0) {
				continue
			}
			addCase(api("template-big", subst(t, h, hostileBig[(hi+1)%len(hostileBig)]), "a b c\n"))
		}
	}
	for _, v := range specialVars {
		for hi, h := range append(append([]string{}, hostile...), hostileStrings...) {
			if !thorough && hi%2 == 1 && v != "RS" && v != "FS" && v != "NF" {
				continue
			}
			src := fmt.Sprintf(`BEGIN { %s = %s; print length(%s) } { print NF, $1; %s = %s } END { print NR }`, v, h, v, v, h)
			if v == "ENVIRON" || v == "ARGV" {
				src = fmt.Sprintf(`BEGIN { %s[%s] = %s; print length(%s) } { print }`, v, h, h, v)
			}
			addCase(api("special-assign", src, "a b c\n1 2 3\n"))
		}
	}

	// ---- 3. every byte as a one-byte RS / FS / OFS / SUBSEP / ORS: source escape and Config.Vars ----
	for _, v := range []string{"RS", "FS", "OFS", "SUBSEP", "ORS"} {
		for b := 0; b < 256; b++ {
			in := "a" + string([]byte{byte(b)}) + "b c\n" + string([]byte{byte(b), byte(b)}) + "d\n"
			body := `{ $1 = $1; print NR, NF, $1; A[$1, NR] = 1 } END { for (k in A) n++; print n }`
			c := api("sep-byte-"+v, fmt.Sprintf(`BEGIN { %s = "\x%02x" } %s`, v, b, body), in)
			c.Expect, c.ExpectWhy = "", ""
			addCase(c)
			c2 := api("sep-byte-vars-"+v, body, in)
			c2.VarsHex = hxs(v, string([]byte{byte(b)}))
			addCase(c2)
		}
	}

	// ---- 4. invalid UTF-8 / NUL inputs through the string builtins, byte and character mode, CSV/TSV ----
	nBytes := 6
	if thorough {
		nBytes = 120
	}
	for _, src := range bytePrograms {
		for k := 0; k < nBytes; k++ {
			c := api("bytes", src, hostileInput(r, 20+r.Intn(300)))
			c.Chars = k%2 == 1
			switch k % 6 {
			case 2:
				c.InMode = "csv"
			case 3:
				c.InMode = "csv-header"
			case 4:
				c.InMode, c.OutMode = "tsv", "csv"
			case 5:
				c.InMode, c.OutMode = "tsv-header", "tsv"
			}
			if k%3 == 0 {
				c.Exec = "reuse"
			}
			addCase(c)
		}
	}
	for _, src := range miscPrograms {
		addCase(api("misc", src, input0))
		c := api("misc", src, hostileInput(r, 120))
		c.Chars = true
		c.InMode = "csv-header"
		addCase(c)
		c3 := api("misc-files", src, input0)
		c3.ArgsHex = hxs("/nonexistent/file", "x=1", "-", "")
		addCase(c3)
	}

	// `getline var` in CSV/TSV mode after the fields were used (the repaired F-C02-8), API and command
	for _, mode := range []string{"csv", "tsv", "csv-header"} {
		for _, src := range []string{`BEGIN { n = NF; getline x; print $1 }`, `{ n = NF; getline A[1]; print $3 }`, `{ print $1; getline x; print $2, $3, $4 }`} {
			c := api("csv-getline-var", src, "a\nb,c,d\ne\tf\tg\th\ni\n")
			c.InMode = mode
			addCase(c)
		}
	}
	addCase(cli("csv-getline-var-cli", "a,b,c\n", "-i", "csv", `BEGIN { n = NF; getline x; print $1 }`))
	for _, pr := range [][3]string{
		{`{ getline x; print NF, $1, x }`, "p,q\na,b,c\n", "2 p a,b,c\n"},
		{`{ n = NF; getline A[1]; print n, NF, $2, $3 "|" }`, "p,q\na,b,c\n", "2 2 q |\n"},
		{`BEGIN { n = NF; getline x; print n, NF, "[" $1 "]", x }`, "a,b,c\n", "0 0 [] a,b,c\n"},
		{`{ getline $2; print NF, $0 }`, "p,q\na,b,c\n", "2 p a,b,c\n"},
		{`{ getline; print NF, $1, $3 }`, "p,q\na,b,c\n", "3 a c\n"},
	} {
		c := api("csv-getline-var-output", pr[0], pr[1])
		c.InMode = "csv"
		c.Expect, c.ExpectWhy, c.ExpectOutHex = "ok", "a record read by getline into a variable or field leaves NF and the other fields of the current record unchanged (plain getline replaces them)", hxe(pr[2])
		addCase(c)
	}

	// INPUTMODE / OUTPUTMODE / FS / RS changed at run time in the middle of a stream, crossed with
	// NF / $i / getline-into-variable on the stream opened under the other setting (oracle: no panic)
	for _, from := range []string{"csv", "tsv", "csv-header", ""} {
		for _, sw := range []string{`INPUTMODE = ""`, `INPUTMODE = "csv"`, `INPUTMODE = "tsv"`, `INPUTMODE = "csv header"`, `OUTPUTMODE = "csv"`,
			`FS = ","`, `FS = ""`, `RS = ""`, `RS = ","`, `RS = "[,\n]+"`, `INPUTMODE = ""; FS = ","; RS = ";"`} {
			for _, use := range []string{
				`n = NF; getline x; print n, x, "[" $3 "]", NF`,
				`v = $1; getline A[1]; print $2, $3, $4; $4 = "z"; print NF`,
				`getline x; n = NF; getline $2; print; print $5`,
				`n = NF; getline; print $1, $4; getline y; $3 = y; print`,
			} {
				c := api("mode-switch", "NR == 1 { "+sw+"; "+use+" } NR > 1 { print NF, $1, $NF; "+use+" }", "p,q\na,b,c\n\"d,e\",f\tg\th,i,j,k\nl;m\n\nn,o,p,q,r,s\n")
				c.InMode = from
				addCase(c)
			}
		}
	}
	// the same on getline file / pipe streams opened under the other mode (child process: real files)
	for _, pr := range []string{
		`{ INPUTMODE = "csv"; getline x < "f.csv"; INPUTMODE = ""; n = NF; getline y < "f.csv"; print n, y, "[" $3 "]", $2 }`,
		`{ INPUTMODE = "tsv"; "cat f.csv" | getline x; INPUTMODE = ""; v = $1; "cat f.csv" | getline A[1]; print $2, $3, $4 }`,
		`BEGIN { INPUTMODE = "csv" } NR == 1 { INPUTMODE = ""; n = NF; getline x; print n, x, "[" $3 "]", NF }`,
		`BEGIN { getline x < "f.csv"; INPUTMODE = "csv" } { n = NF; getline y < "f.csv"; print $1, $2, $3 }`,
	} {
		c := cliFile("mode-switch-cli", "p q\na,b,c\n", "f.csv", "a,b\nc,d,e,f\ng\th\ti\n", pr)
		addCase(c)
	}

	// ---- 5. recursion depth: exactly at the limit is fine, one more is an error, never a crash ----
	// Depths up to a few thousand run in-process (harmless for the Go stack even if the limit were
	// missing); unbounded recursion runs in a child process, where losing the limit shows up as a
	// Go "stack overflow" fatal error of the child instead of killing this harness.
	for shape := 0; shape < 5; shape++ {
		for _, d := range []struct {
			depth  string
			expect string
		}{{"10", "ok"}, {"998", "ok"}, {"999", "ok"}, {"1000", "error"}, {"1001", "error"}, {"3000", "error"}, {"1e6", "error"}} {
			c := api("recursion", recursionProgram(shape, d.depth), "x\n")
			c.Expect, c.ExpectWhy = d.expect, "calls nested deeper than maxCallDepth=1000 are a run-time error, shallower ones run"
			addCase(c)
		}
		for _, depth := range []string{"1e6", "1e30"} {
			c := cli("recursion-cli", "x\n", recursionProgram(shape, depth))
			c.Expect, c.ExpectWhy = "error", "runaway recursion is reported as an error (exit status 1), not a crash"
			if thorough || shape%2 == 0 {
				addCase(c)
			}
		}
	}
	for i, src := range []string{
		`function f() { f() } BEGIN { f() }`,
		`function f(a) { return f(a) } { f($0) }`,
		`function f(A) { A[1]; for (k in A) f(A) } BEGIN { f(X) }`,
		`function f() { return g() } function g() { return f() } END { f() }`,
	} {
		if !thorough && i%2 == 1 {
			continue
		}
		c := cli("recursion-cli", "x\n", src)
		c.Expect, c.ExpectWhy = "error", "runaway recursion is reported as an error (exit status 1), not a crash"
		addCase(c)
	}

	// the exact boundary: maxFieldIndex itself is legal (one run: it allocates a million fields)
	{
		src := `BEGIN { $(1000000) = "x"; print NF }`
		if thorough {
			src = `BEGIN { $(1000000) = "x"; print NF; NF = 1000000; $(1000000)++ }`
		}
		c := api("oversize-boundary", src, "")
		c.Expect, c.ExpectWhy = "ok", "field number / NF equal to maxFieldIndex=1000000 is accepted"
		addCase(c)
	}

	// ---- 6. oversized field numbers / NF / ARGC are errors ----
	for _, big := range oversize {
		for _, t := range []string{`{ $(<H>) = "x" }`, `BEGIN { $(<H>) = "x" }`, `{ NF = <H> }`, `BEGIN { NF = <H> }`, `BEGIN { ARGC = <H> }`, `{ $(<H>)++ }`, `{ $(<H>) += 1 }`,
			`{ getline $(<H>) }`, `BEGIN { x = "a"; sub(/a/, "b", $(<H>)); $(<H>) = x }`, `{ NF += <H> }`} {
			c := api("oversize", subst(t, big, big), "a b\nc d\n")
			c.Expect, c.ExpectWhy = "error", "field numbers, NF and ARGC beyond maxFieldIndex=1000000 are a run-time error"
			addCase(c)
		}
	}
	for _, t := range []string{`BEGIN { NF = -1 }`, `{ NF = -3 }`, `BEGIN { NF = log(-1) }`, `{ NF = -1e30 }`} {
		c := api("oversize", t, "a b\n")
		c.Expect, c.ExpectWhy = "error", "a negative NF is a run-time error"
		addCase(c)
	}

	// ---- 7. invalid dynamic regexes are errors ----
	for _, re := range badRegexes {
		for _, t := range regexUses {
			c := api("bad-regex", strings.ReplaceAll(t, "<R>", re), "abc\nxyz\n")
			c.Expect, c.ExpectWhy = "error", "an invalid dynamic regular expression is a run-time error"
			addCase(c)
		}
	}

	// ---- 8. printf / sprintf format fuzz ----
	nFmt := 400
	if thorough {
		nFmt = 20000
	}
	for i := 0; i < nFmt; i++ {
		addCase(api("printf-fuzz", printfProgram(r), input0))
	}

	// ---- 9. configuration space of the API ----
	for _, fx := range []string{"ok", "int42", "nil", "nil-uncalled", "defined-bool", "defined-bytes-result", "variadic"} {
		for _, src := range []string{`BEGIN { print f(1, "a") }`, `BEGIN { print f() }`, `BEGIN { print 1 }`, `{ r = f($1) }`, `function g(a) { return f(a, a) f(1, 2) } { print g($1) }`} {
			c := api("funcs-"+fx, src, "1\n")
			c.Funcs = fx
			addCase(c)
		}
	}
	for _, vars := range [][]string{{"x"}, {"", ""}, {"NF", "1e30"}, {"ARGC", "nan"}, {"FS", "("}, {"RS", "(("}, {"INPUTMODE", "csv separator=\xff"}, {"OUTPUTMODE", "bogus"},
		{"x", "\xff\x00"}, {"1x", "v"}, {"RS", "\xc3\xa9"}, {"RS", "\xe2\x82"}, {"CONVFMT", "%d%d"}, {"NF", "5"}, {"a b", "1"}} {
		c := api("config-vars", `{ print x, NF, $1 } END { print NR }`, input0)
		c.VarsHex = hxs(vars...)
		addCase(c)
	}
	for _, args := range [][]string{{""}, {"-"}, {"/"}, {"/nonexistent"}, {"x=1", "y"}, {"=1"}, {"NF=1e30"}, {"RS=\xff"}, {"FS=("}, {"\x00"}, {"a=\\"}, {"-", "-"}} {
		c := api("config-args", `{ print FILENAME, $0 } END { print NR, x }`, input0)
		c.ArgsHex = hxs(args...)
		addCase(c)
	}

	for _, fx := range cfgFixtures {
		for _, src := range []string{`{ print $1, $2, @"a" } END { print NR, ARGV[0] }`, `BEGIN { print system("exit 3"); print "x" | "cat"; "echo hi" | getline y; print y }`} {
			c := api("config-struct", src, "a,b\n1,2\n")
			c.Cfg = fx
			addCase(c)
		}
	}

	// ---- 9b. delivery of the input as a dimension: every separator regime x terminator-pattern inputs x chunkings ----
	for _, c := range deliveryCases(r, thorough) {
		addCase(c)
	}

	// ---- 10. the goawk binary: command-line glue ----
	for _, c := range cliCases(r, thorough) {
		addCase(c)
	}

	// =================== static pass ===================
	t0 := time.Now()
	staticPass(o, rep, static)
	rsCorrespondence(o, rep)
	fieldsCorrespondence(o, rep, r, thorough)
	if os.Getenv("C02_DEBUG") != "" {
		fmt.Fprintf(os.Stderr, "TIME static pass %v\n", time.Since(t0))
	}

	// =================== dynamic search ===================
	// child processes are independent: run the CLI cases on a small worker pool, judge in order
	outs := make([]Outcome, len(cases))
	var wg sync.WaitGroup
	sem := make(chan struct{}, 8)
	for i, c := range cases {
		if c.Kind != "cli" {
			continue
		}
		wg.Add(1)
		go func(i int, c *Case) {
			defer wg.Done()
			sem <- struct{}{}
			outs[i] = runCLI(c)
			<-sem
		}(i, c)
	}
	runAll(cases, outs, func(f string, a ...any) { rep.HarnessError(f, a...) })
	wg.Wait()
	for i, c := range cases {
		rep.SearchEvals++
		rep.Count("run:" + c.Family)
		judge(rep, c, outs[i])
	}
	rep.Write(o.Out)
}

// judge applies the property's oracles to one outcome.
func judge(rep *hx.Report, c *Case, out Outcome) {
	if out.Timeout {
		rep.Count("timeout:" + c.Family)
		return
	}
	if out.Panic != "" {
		oracle := "no-panic"
		if c.Kind == "cli" {
			oracle = "no-panic"
		}
		rep.Fail(hx.Failure{Class: out.Class(), Oracle: oracle, Detail: c.Detail(out)})
		return
	}
	if c.Kind == "api" && out.Rejected {
		rep.Count("rejected-by-parser:" + c.Family)
		if os.Getenv("C02_DEBUG") != "" {
			fmt.Fprintf(os.Stderr, "REJECTED %s: %q: %s\n", c.Family, unhx(c.SrcHex), out.Err)
		}
		if c.Expect != "" {
			rep.HarnessError("case with an expectation was rejected by the parser: %s: %s", unhx(c.SrcHex), out.Err)
		}
		return
	}
	if out.HistoryBad != "" {
		d := c.Detail(out)
		rep.Fail(hx.Failure{Class: "history:" + c.Family, Oracle: c.ExpectWhy + " -- also on every later Execute of a reused Interpreter", Detail: d})
	}
	if len(out.History) > 0 {
		rep.Count("history-after-error:" + c.Family)
	}
	failed := out.Err != ""
	if c.Kind == "cli" {
		failed = out.Status != 0
	}
	switch c.Expect {
	case "error":
		if !failed {
			rep.Fail(hx.Failure{Class: "expected-error:" + c.Family, Oracle: c.ExpectWhy, Detail: c.Detail(out)})
		} else {
			rep.Count("error-as-required:" + c.Family)
		}
	case "ok":
		if !failed && c.ExpectOutHex != "" && string(out.Out) != unhx(c.ExpectOutHex) {
			d := c.Detail(out)
			d["expected_output"] = fmt.Sprintf("%q", unhx(c.ExpectOutHex))
			rep.Fail(hx.Failure{Class: "wrong-output:" + c.Family, Oracle: c.ExpectWhy, Detail: d})
		}
		if failed {
			rep.Fail(hx.Failure{Class: "expected-ok:" + c.Family, Oracle: c.ExpectWhy, Detail: c.Detail(out)})
		}
	default:
		if out.Err != "" {
			rep.Count("outcome:error")
		} else {
			rep.Count("outcome:status")
		}
	}
}

func staticPass(o hx.Opts, rep *hx.Report, items []staticItem) {
	seen := map[string]bool{}
	var lines, srcs, fams []string
	for _, it := range items {
		if seen[it.funcs+"|"+it.src] {
			continue
		}
		seen[it.funcs+"|"+it.src] = true
		prog, err := safeParse(it.src, it.funcs)
		if err != nil || prog == nil {
			rep.Count("static-skip-not-accepted:" + it.family)
			continue
		}
		lines = append(lines, "verify\t"+prog.VerifDumpCompiled()+"\t"+prog.VerifResolverTables())
		srcs = append(srcs, it.src)
		fams = append(fams, it.family)
	}
	ans, err := hx.ModelEval(o.ModelRun, lines)
	if err != nil {
		rep.HarnessError("%v", err)
		return
	}
	ops := map[string]bool{}
	for i, a := range ans {
		rep.CorrEvals++
		rep.Count("static:" + fams[i])
		f := strings.Fields(a)
		if len(f) < 1 || f[0] != "ok" {
			rep.Mismatch(hx.Mismatch{Class: "verifier-rejects-compiled-code", Input: srcs[i], Impl: "accepted by parser.ParseProgram", Model: a,
				Note: "the static well-formedness pass must accept the code of every accepted program"})
			continue
		}
		words := 0
		for _, kv := range f[1:] {
			if strings.HasPrefix(kv, "words=") {
				fmt.Sscanf(kv, "words=%d", &words)
			}
			if strings.HasPrefix(kv, "ops=") {
				for _, op := range strings.Split(kv[4:], ",") {
					ops[op] = true
				}
			}
		}
		if words > 8 {
			rep.Distinct(srcs[i])
		}
		if i%397 == 0 {
			rep.Sample(map[string]string{"program": srcs[i], "verifier": a})
		}
	}
	var opl []string
	for k := range ops {
		opl = append(opl, k)
	}
	sort.Strings(opl)
	rep.Hist["static:distinct-opcodes-covered"] = len(opl)
	rep.Hist["static:opcodes-seen="+strings.Join(opl, ",")] = 1
}

// parse under recover (a parser panic is reported by the dynamic part, not here)
func safeParse(src, funcs string) (p *parser.Program, err error) {
	defer func() {
		if r := recover(); r != nil {
			p, err = nil, fmt.Errorf("panic: %v", r)
		}
	}()
	var pcfg *parser.ParserConfig
	if funcs != "" {
		pcfg = &parser.ParserConfig{Funcs: funcsFixture(funcs)}
	}
	return parser.ParseProgram([]byte(src), pcfg)
}

// model of the one-byte RS branch of setSpecial vs the implementation, all 256 bytes
func rsCorrespondence(o hx.Opts, rep *hx.Report) {
	var lines []string
	for b := 0; b < 256; b++ {
		lines = append(lines, "rs\t"+hx.Hex([]byte{byte(b)}))
	}
	lines = append(lines, "rs\t-")
	ans, err := hx.ModelEval(o.ModelRun, lines)
	if err != nil {
		rep.HarnessError("%v", err)
		return
	}
	for i, a := range ans {
		val := ""
		if i < 256 {
			val = string([]byte{byte(i)})
		}
		c := api("rs-corr", `BEGIN { x = 1 }`, "")
		c.VarsHex = hxs("RS", val)
		out := runAPI(c)
		impl := "ok"
		if out.Panic != "" {
			impl = "panic"
		} else if out.Err != "" {
			impl = "error"
		}
		rep.CorrEvals++
		rep.Count("rs-model:" + a)
		if i%16 == 5 {
			rep.Distinct(fmt.Sprintf("rs-byte-%d", i))
		}
		if impl != a {
			rep.Mismatch(hx.Mismatch{Class: "rs-one-byte", Input: fmt.Sprintf("RS = byte %d", i), Impl: impl, Model: a})
		}
	}
}

// model of the CSV-mode field slices (f_run) vs the implementation: sequences of records,
// `getline var`, NF uses and $i reads; the model says "panic" exactly when ExecProgram panics
func fieldsCorrespondence(o hx.Opts, rep *hx.Report, r *hx.Rand, thorough bool) {
	n := 400
	if thorough {
		n = 8000
	}
	type seq struct {
		ops   []string
		src   string
		input string
	}
	var seqs []seq
	gen := func(i int) seq {
		var ops []string
		var in strings.Builder
		var src strings.Builder
		line := func(k int) string { return strings.TrimSuffix(strings.Repeat("x,", k), ",") + "\n" }
		body := func(first bool) string {
			var b strings.Builder
			for j := r.Intn(6); j > 0; j-- {
				sel := r.Intn(4)
				// INPUTMODE switched in the middle of the stream (never before the scanner of the
				// main input exists: its splitter is fixed at creation, here always the CSV one)
				if !first && i%2 == 1 && r.Intn(3) == 0 {
					sel = 4
				}
				switch sel {
				case 4:
					if r.Intn(3) > 0 {
						ops = append(ops, "M:0")
						b.WriteString(`INPUTMODE = ""; `)
					} else {
						ops = append(ops, "M:1")
						b.WriteString(`INPUTMODE = "csv"; `)
					}
				case 0:
					ops = append(ops, "N")
					b.WriteString("n = NF; ")
				case 1, 2:
					k := 1 + r.Intn(5)
					ops = append(ops, fmt.Sprintf("F:%d", k))
					fmt.Fprintf(&b, "v = $%d; ", k)
				default:
					k := 1 + r.Intn(4)
					ops = append(ops, fmt.Sprintf("G:%d", k))
					in.WriteString(line(k))
					if r.Bool() {
						b.WriteString("getline x; ")
					} else {
						b.WriteString("getline A[1]; ")
					}
				}
			}
			return b.String()
		}
		if i%3 != 0 {
			src.WriteString("BEGIN { " + body(true) + "}\n")
		}
		src.WriteString("{ r++ }\n")
		for rec := 1; rec <= 1+r.Intn(3); rec++ {
			k := 1 + r.Intn(4)
			ops = append(ops, fmt.Sprintf("R:%d:1", k)) // "x,x,..": one field under the default split
			in.WriteString(line(k))
			fmt.Fprintf(&src, "r == %d { %s}\n", rec, body(false))
		}
		return seq{ops, src.String(), in.String()}
	}
	// the witness of the refuted statement first
	seqs = append(seqs, seq{[]string{"N", "G:3", "F:1"}, "BEGIN { n = NF; getline x; v = $1 }", "a,b,c\n"})
	// a CSV scanner that outlives the switch back to default mode
	seqs = append(seqs, seq{[]string{"R:2:1", "M:0", "N", "G:3", "F:3"}, `NR == 1 { INPUTMODE = ""; n = NF; getline x; v = $3 }`, "p,q\na,b,c\n"})
	seqs = append(seqs, seq{[]string{"R:1:1", "F:1", "M:0", "G:4", "F:2", "F:4"}, `NR == 1 { v = $1; INPUTMODE = ""; getline A[1]; v = $2; v = $4 }`, "p\na,b,c,d\n"})
	for i := 0; i < n; i++ {
		seqs = append(seqs, gen(i))
	}
	var lines []string
	for _, s := range seqs {
		lines = append(lines, "fields\t"+strings.Join(s.ops, " "))
	}
	ans, err := hx.ModelEval(o.ModelRun, lines)
	if err != nil {
		rep.HarnessError("%v", err)
		return
	}
	for i, s := range seqs {
		c := api("csv-fields-corr", s.src, s.input)
		c.InMode = "csv"
		out := runAPI(c)
		impl := "ok"
		if out.Panic != "" {
			impl = "panic"
		}
		rep.CorrEvals++
		rep.Count("csv-fields-model:" + ans[i])
		if len(s.ops) > 3 {
			rep.Distinct("csv-fields:" + strings.Join(s.ops, " "))
		}
		if impl != ans[i] {
			rep.Mismatch(hx.Mismatch{Class: "csv-fields", Input: s.src + " <<< " + s.input, Impl: impl + " " + out.Panic, Model: ans[i] + " for " + strings.Join(s.ops, " ")})
		}
		if out.Panic != "" {
			rep.SearchEvals++
			rep.Fail(hx.Failure{Class: out.Class(), Oracle: "no-panic", Detail: c.Detail(out)})
		}
	}
}

func buildCLI(rep *hx.Report) {
	goawkBin = os.Getenv("C02_GOAWK")
	if goawkBin != "" {
		return
	}
	repo := os.Getenv("VERIF_REPO")
	if repo == "" {
		repo = "/repo"
	}
	wd, _ := os.Getwd()
	goawkBin = filepath.Join(wd, "work", "goawk_c02")
	cmd := exec.Command("go", "build", "-o", goawkBin, ".")
	cmd.Dir = repo
	cmd.Env = append(os.Environ(), "GOFLAGS=-mod=mod", "GOPROXY=off", "GOSUMDB=off", "GOTOOLCHAIN=local", "CGO_ENABLED=0")
	if out, err := cmd.CombinedOutput(); err != nil {
		rep.HarnessError("building goawk from %s: %v: %s", repo, err, out)
	}
}

func replay(path string) int {
	b, err := os.ReadFile(path)
	if err != nil {
		fmt.Println("replay:", err)
		return 2
	}
	var doc struct {
		Failure struct {
			Class  string `json:"class"`
			Oracle string `json:"oracle"`
			Detail struct {
				Case *Case `json:"case"`
			} `json:"detail"`
		} `json:"failure"`
	}
	if err := json.Unmarshal(b, &doc); err != nil || doc.Failure.Detail.Case == nil {
		fmt.Println("replay: no case in", path, err)
		return 2
	}
	c := doc.Failure.Detail.Case
	if c.Kind == "cli" {
		buildCLI(hx.NewReport("C02", 0, "replay"))
	}
	var out Outcome
	if c.Kind == "cli" {
		out = runCLI(c)
	} else {
		outs := make([]Outcome, 1)
		runAll([]*Case{c}, outs, func(f string, a ...any) { fmt.Printf("replay: "+f+"\n", a...) })
		out = outs[0]
	}
	fmt.Printf("class:    %s\noracle:   %s\nprogram:  %q\ninput:    %q\n", doc.Failure.Class, doc.Failure.Oracle, unhx(c.SrcHex), unhx(c.InputHex))
	if c.Kind == "cli" {
		fmt.Printf("argv:     %q\n", unhxs(c.ArgsHex))
	}
	fmt.Printf("expected: no panic%s\n", map[bool]string{true: "; " + c.Expect + " (" + c.ExpectWhy + ")", false: ""}[c.Expect != ""])
	fmt.Printf("got:      panic=%q site=%s status=%d error=%q\n", out.Panic, out.Site, out.Status, out.Err)
	rep := hx.NewReport("C02", 0, "replay")
	judge(rep, c, out)
	if len(rep.Failures) > 0 {
		fmt.Println("STILL FAILS:", rep.Failures[0].Class)
		return 1
	}
	fmt.Println("passes now")
	return 0
}
