package main

import (
	"strings"

	"verif/harness/hx"
)

// Delivery as a dimension of the input: every record-separator regime reads inputs whose END and
// whose chunk boundaries fall inside every multi-byte terminator pattern (LF CR, CR LF, LF CR LF,
// half a UTF-8 sequence, an open CSV quote, a BOM prefix), delivered whole, split at every
// offset, one byte per Read, and in random chunks with empty Reads.

type regime struct {
	name, src, inMode string
	chars             bool
}

var regimes = []regime{
	{"default", `{ print NR, NF, length($0), $1 } END { print NR }`, "", false},
	{"default-getline", `BEGIN { while ((getline line) > 0) n += length(line); print n, NR; getline; getline x; print NR }`, "", false},
	{"byte-semicolon", `BEGIN { RS = ";" } { print NR, NF, length($0), RT } END { print NR }`, "", false},
	{"byte-non-utf8", `BEGIN { RS = "\xc3" } { print NR, NF, length($0), length(RT) } END { print NR }`, "", false},
	{"byte-cr", `BEGIN { RS = "\r" } { print NR, NF, length($0), length(RT) } END { print NR }`, "", false},
	{"paragraph", `BEGIN { RS = "" } { print NR, NF, length($0), length(RT), $1 } END { print NR }`, "", false},
	{"paragraph-fs", `BEGIN { RS = ""; FS = "," } { print NR, NF, $1, $NF; getline x; print length(x) } END { print NR }`, "", false},
	{"regex-crlf", `BEGIN { RS = "\r?\n" } { print NR, NF, length($0), length(RT) } END { print NR }`, "", false},
	{"regex-alt", `BEGIN { RS = "\n\r\n|a+|\xc3\xa9" } { print NR, length($0), length(RT) } END { print NR }`, "", true},
	{"regex-rune", `BEGIN { RS = "\xc3\xa9" } { print NR, length($0), length(RT) } END { print NR }`, "", true},
	{"regex-switch", `NR == 1 { RS = "" } NR == 2 { RS = "\n+" } { print NR, length($0), length(RT) }`, "", false},
	{"csv", `{ print NR, NF, length($0), $1, $NF } END { print NR }`, "csv", false},
	{"csv-header", `{ print NR, NF, @"a", $1; getline x; print length(x) } END { print NR }`, "csv-header", true},
	{"tsv", `{ print NR, NF, length($0), $1, $NF } END { print NR }`, "tsv", false},
	{"tsv-header", `BEGIN { getline; print NF } { print @"a", $2 }`, "tsv-header", false},
}

// pieces that multi-byte terminators are made of
var pieces = []string{"a", "\n", "\r", "\r\n", "\n\r", "\"", ",", "\t", ";", "\xc3\xa9", "\xc3", "\xef\xbb\xbf", "\xef\xbb", "x y"}

// longer inputs aimed at one pattern each
var aimed = []string{
	"a\r\n\r\nb\r\n", "a\r\n\r", "a\n\r", "a\n\r\n", "a\n\n\r", "\n\r", "\r\n\r\n", "a\r\n\r\n\r\n\r\nb", "a\n\nb\n\n\n", "\n\n\na\n\n",
	"\"a\nb\",c\n", "\"a\r\nb\",\"c\"\"d\"\r\n", "a,\"b", "a,\"b\"\"", "\"", "a,b\n\"", "\"a\",\r", "a,b\r", "a\tb\r\n\"c\td\"\n",
	"\xef\xbb\xbfa,b\n1,2\n", "\xef\xbb\xbf", "\xef\xbb", "\xef\xbb\xbf\"a\",b\r\n", "\xef\xbb\xbf\n", "a,b\n\xef\xbb\xbfc,d\n",
	"b\xc3\xa9c\xc3", "\xc3\xa9\xc3\xa9", "a;b;;c", "a;", ";", "a\rb\r\rc", "aaa\naab\n\r\naaa", "a\n\r\na\n\r", "#c\na,b\n", "a\x00b\n\x00",
}

func deliveries(r *hx.Rand, n int, thorough bool) (cuts [][]int, lastEOF []bool) {
	add := func(c []int, e bool) { cuts = append(cuts, c); lastEOF = append(lastEOF, e) }
	add(nil, false) // whole, through strings.Reader
	add([]int{n}, true)
	for k := 1; k < n; k++ { // two Reads, split at every offset
		add([]int{k}, k%2 == 0)
	}
	if n > 1 {
		ones := make([]int, n)
		for i := range ones {
			ones[i] = 1
		}
		add(ones, false)
		add(ones, true)
	}
	nr := 2
	if thorough {
		nr = 6
	}
	for j := 0; j < nr && n > 2; j++ { // random chunk sizes with empty Reads
		var c []int
		left := n
		for left > 0 {
			k := r.Intn(4)
			if k > left {
				k = left
			}
			c = append(c, k)
			left -= k
		}
		add(c, j%2 == 0)
	}
	return
}

func deliveryCases(r *hx.Rand, thorough bool) []*Case {
	var inputs []string
	seen := map[string]bool{}
	addIn := func(s string) {
		if !seen[s] {
			seen[s] = true
			inputs = append(inputs, s)
		}
	}
	addIn("")
	for _, a := range pieces {
		addIn(a)
		for _, b := range pieces {
			addIn(a + b)
			if thorough {
				for _, c := range pieces {
					addIn(a + b + c)
				}
			}
		}
	}
	// the terminator pieces after and between ordinary text
	for _, a := range []string{"\n", "\r", "\r\n", "\n\r", "\"", ",", "\xc3", "\xef\xbb"} {
		for _, b := range []string{"\n", "\r", "\r\n", "\n\r", "\"", "\xc3", "\xef"} {
			addIn("a" + a + b)
			addIn("a" + a + b + "b\n")
		}
	}
	for _, s := range aimed {
		addIn(s)
	}
	nRand := 20
	if thorough {
		nRand = 1500
	}
	for i := 0; i < nRand; i++ {
		var sb strings.Builder
		for k := 2 + r.Intn(6); k > 0; k-- {
			sb.WriteString(pieces[r.Intn(len(pieces))])
		}
		addIn(sb.String())
	}
	var cs []*Case
	for ii, in := range inputs {
		cuts, eofs := deliveries(r, len(in), thorough)
		for ri, rg := range regimes {
			for di := range cuts {
				// quick tier: every regime sees every input whole and 1-byte-wise; the split points rotate
				if !thorough && di >= 2 && di < len(cuts)-4 && (di+ri+ii)%3 != 0 {
					continue
				}
				c := api("delivery-"+rg.name, rg.src, in)
				c.InMode, c.Chars = rg.inMode, rg.chars
				c.Cuts, c.LastEOF = cuts[di], eofs[di]
				if di%5 == 4 {
					c.Exec = "reuse"
				}
				cs = append(cs, c)
			}
		}
	}
	return cs
}
