// C09 harness: printf/sprintf/print.
//
//	correspondence: goawk (probe programs through the public API) vs the
//	  extracted Coq model (Model/Printf.v), and Go's fmt.Sprintf itself vs the
//	  model's go_sprintf on typed arguments (trusted-base check);
//	search: goawk vs an independent ISO-C printf reference (cref.go).
package main

import (
	"encoding/json"
	"fmt"
	"math"
	"math/big"
	"os"
	"sort"
	"strconv"
	"strings"
	"unicode"
	"unicode/utf8"

	"github.com/benhoyt/goawk/interp"
	"github.com/benhoyt/goawk/parser"
	"verif/harness/hx"
)

type arg struct {
	kind byte // 'n' number, 'u' uninitialised, 's' string, 't' numeric-string candidate (split element)
	s    string
	x    float64
}

type kase struct {
	op          string // sprintf | print | gofmt
	origin      string
	chars       bool
	format      string // sprintf/gofmt format; print: OFMT
	args        []arg
	ofs, ors    string
	gargs       []string // gofmt: wire tokens i<dec> q<dec> s<hex> b<hex>
	expectError bool     // prediction only (decides batching)
}

// numeric value of a string as goawk computes it (filled by the pre-pass)
var strNum = map[string]float64{}

func hasHexPrefix(s string) bool { return s[0] == '0' && (s[1] == 'x' || s[1] == 'X') }
func hasNaNPrefix(s string) bool {
	return (s[0] == 'n' || s[0] == 'N') && (s[1] == 'a' || s[1] == 'A') && (s[2] == 'n' || s[2] == 'N')
}

// "looks numeric" for a split element / field: goawk's value.isTrueStr (property C05's
// subject; here it is given data for both the model and the reference)
func strictParse(s string) (float64, bool) {
	s = strings.Trim(s, " \t\n\v\f\r") // ASCII blanks only (interp.trimASCIISpace, /repo fix b246cd4)
	noP := strings.IndexByte(s, 'p') < 0 && strings.IndexByte(s, 'P') < 0
	if len(s) > 1 && (s[0] == '+' || s[0] == '-') {
		if len(s) == 4 && hasNaNPrefix(s[1:]) {
			return math.NaN(), true
		}
		if len(s) > 3 && hasHexPrefix(s[1:]) && noP {
			s += "p0"
		}
	} else if len(s) > 2 && hasHexPrefix(s) && noP {
		s += "p0"
	}
	n, err := strconv.ParseFloat(s, 64)
	if ne, ok := err.(*strconv.NumError); ok && ne.Err == strconv.ErrRange {
		err = nil // out of range is still a number: +-Inf (/repo fix 35776be)
	}
	if err == nil && strings.IndexByte(s, '_') >= 0 {
		return 0, false
	}
	return n, err == nil
}

func (a arg) wire() string {
	switch a.kind {
	case 'n':
		return "n" + hx.FBits(a.x)
	case 'u':
		return "u"
	case 's':
		return "s" + hx.HexS(a.s) + "," + hx.FBits(strNum[a.s])
	default:
		st := "x"
		if f, ok := strictParse(a.s); ok {
			st = hx.FBits(f)
		}
		return "t" + hx.HexS(a.s) + "," + hx.FBits(strNum[a.s]) + "," + st
	}
}

func (a arg) cval() cval {
	switch a.kind {
	case 'n':
		return cval{num: a.x, cnum: a.x}
	case 'u':
		return cval{hasStr: true}
	case 's':
		return cval{hasStr: true, str: a.s, cIsStr: true, num: strNum[a.s]}
	default:
		f, ok := strictParse(a.s)
		return cval{hasStr: true, str: a.s, cIsStr: !ok, num: strNum[a.s], cnum: f}
	}
}

func (k kase) line() string {
	c := "0"
	if k.chars {
		c = "1"
	}
	var sb strings.Builder
	switch k.op {
	case "sprintf":
		sb.WriteString("sprintf " + c + " " + hx.HexS(k.format))
		for _, a := range k.args {
			sb.WriteString(" " + a.wire())
		}
	case "print":
		sb.WriteString("print " + hx.HexS(k.ofs) + " " + hx.HexS(k.ors))
		for _, a := range k.args {
			sb.WriteString(" " + a.wire())
		}
	case "gofmt":
		sb.WriteString("gofmt " + hx.HexS(k.format))
		for _, g := range k.gargs {
			sb.WriteString(" " + g)
		}
	}
	return sb.String()
}

// ---------------------------------------------------------------- running goawk

const sep = "\x1e\x1f\x1e"

const probeSrc = `
function arg(i, j,   k, a, n, u) {
  k = K(i, j)
  if (k == "n") return AN(i, j)
  if (k == "s") return AS(i, j)
  if (k == "t") { n = split(AS(i, j), a, "\035"); return a[1] }
  return u
}
BEGIN {
  for (i = 0; i < N; i++) {
    n = NA(i); f = F(i)
    if (OP(i) == "print") {
      OFMT = f; OFS = XOFS(i); ORS = XORS(i)
      if (n == 0) print
      else if (n == 1) print arg(i,0)
      else if (n == 2) print arg(i,0), arg(i,1)
      else if (n == 3) print arg(i,0), arg(i,1), arg(i,2)
      else print arg(i,0), arg(i,1), arg(i,2), arg(i,3)
      ORS = "\n"; OFS = " "; OFMT = "%.6g"
      printf "%s", SEP
      continue
    }
    if (n == 0) r = sprintf(f)
    else if (n == 1) r = sprintf(f, arg(i,0))
    else if (n == 2) r = sprintf(f, arg(i,0), arg(i,1))
    else if (n == 3) r = sprintf(f, arg(i,0), arg(i,1), arg(i,2))
    else if (n == 4) r = sprintf(f, arg(i,0), arg(i,1), arg(i,2), arg(i,3))
    else if (n == 5) r = sprintf(f, arg(i,0), arg(i,1), arg(i,2), arg(i,3), arg(i,4))
    else r = sprintf(f, arg(i,0), arg(i,1), arg(i,2), arg(i,3), arg(i,4), arg(i,5))
    printf "%s%s", r, SEP
  }
}`

// runBatch evaluates the given cases (all of one character mode) in one AWK program.
func runBatch(ks []*kase, chars bool) ([]string, error) {
	return runBatchMode(ks, chars, interp.DefaultMode)
}

// runBatchMode: the same with Config.OutputMode set (CSVMode / TSVMode: print writes a CSV row;
// printf and print-without-arguments are not affected)
func runBatchMode(ks []*kase, chars bool, omode interp.IOMode) ([]string, error) {
	funcs := map[string]any{
		"OP":   func(i int) string { return ks[i].op },
		"F":    func(i int) string { return ks[i].format },
		"NA":   func(i int) int { return len(ks[i].args) },
		"K":    func(i, j int) string { return string(ks[i].args[j].kind) },
		"AN":   func(i, j int) float64 { return ks[i].args[j].x },
		"AS":   func(i, j int) string { return ks[i].args[j].s },
		"XOFS": func(i int) string { return ks[i].ofs },
		"XORS": func(i int) string { return ks[i].ors },
	}
	cfg := &interp.Config{Funcs: funcs, Chars: chars, Vars: []string{"N", fmt.Sprint(len(ks)), "SEP", sep}, Environ: []string{}, OutputMode: omode}
	rr := hx.RunAwk(probeSrc, cfg, &parser.ParserConfig{Funcs: funcs})
	if rr.Panic != nil {
		return nil, fmt.Errorf("panic: %v", rr.Panic)
	}
	if rr.Err != nil {
		return nil, rr.Err
	}
	parts := strings.Split(string(rr.Out), sep)
	if len(parts) != len(ks)+1 || parts[len(ks)] != "" {
		return nil, fmt.Errorf("got %d results for %d cases", len(parts)-1, len(ks))
	}
	res := make([]string, len(ks))
	for i := range ks {
		res[i] = "ok " + hx.HexS(parts[i])
	}
	return res, nil
}

// canonical form of a goawk run-time error, comparable with the model's Err text:
// the offending byte of "invalid format type" is unquoted to the raw byte.
func canonErr(msg string) string {
	const p = "format error: invalid format type "
	if strings.HasPrefix(msg, p) {
		q := msg[len(p):]
		if r, _, _, err := strconv.UnquoteChar(strings.TrimSuffix(strings.TrimPrefix(q, "'"), "'"), '\''); err == nil && r < 256 && len(q) >= 3 {
			return "err " + hx.HexS(p+string([]byte{byte(r)}))
		}
	}
	return "err " + hx.HexS(msg)
}

func runOne(k *kase) string {
	r, err := runBatch([]*kase{k}, k.chars)
	if err != nil {
		if strings.HasPrefix(err.Error(), "panic") {
			return "panic " + err.Error()
		}
		return canonErr(err.Error())
	}
	return r[0]
}

func runAll(ks []*kase, rep *hx.Report) []string {
	res := make([]string, len(ks))
	for _, chars := range []bool{false, true} {
		var batch []int
		flush := func() {
			if len(batch) == 0 {
				return
			}
			sub := make([]*kase, len(batch))
			for j, i := range batch {
				sub[j] = ks[i]
			}
			out, err := runBatch(sub, chars)
			if err != nil {
				rep.Count("batch-fallback")
				for _, i := range batch {
					res[i] = runOne(ks[i])
				}
			} else {
				for j, i := range batch {
					res[i] = out[j]
				}
			}
			batch = batch[:0]
		}
		for i, k := range ks {
			if k.op == "gofmt" || k.chars != chars {
				continue
			}
			if k.expectError {
				res[i] = runOne(k)
				continue
			}
			batch = append(batch, i)
			if len(batch) >= 500 {
				flush()
			}
		}
		flush()
	}
	for i, k := range ks {
		if k.op == "gofmt" {
			res[i] = runGofmt(k)
		}
	}
	return res
}

// Go's own fmt.Sprintf on typed arguments (the trusted part of the model)
func runGofmt(k *kase) (out string) {
	defer func() {
		if r := recover(); r != nil {
			out = fmt.Sprintf("panic %v", r)
		}
	}()
	var a []any
	for _, g := range k.gargs {
		switch g[0] {
		case 'i':
			v, _ := strconv.ParseInt(g[1:], 10, 64)
			a = append(a, v)
		case 'q':
			v, _ := strconv.ParseUint(g[1:], 10, 64)
			a = append(a, v)
		case 's':
			a = append(a, string(hx.UnHex(g[1:])))
		case 'b':
			b := hx.UnHex(g[1:])
			if b == nil {
				b = []byte{}
			}
			a = append(a, b)
		case 'f':
			v, _ := strconv.ParseUint(g[1:], 10, 64)
			a = append(a, math.Float64frombits(v))
		case 'B':
			b, _ := new(big.Int).SetString(g[1:], 10)
			a = append(a, b)
		}
	}
	return "ok " + hx.HexS(fmt.Sprintf(k.format, a...))
}

// pre-pass: numeric value goawk gives to every string used as an argument
func fillStrNum(ks []*kase) error {
	seen := map[string]bool{}
	var strs []string
	for _, k := range ks {
		for _, a := range k.args {
			if (a.kind == 's' || a.kind == 't') && !seen[a.s] {
				seen[a.s] = true
				strs = append(strs, a.s)
			}
		}
	}
	if len(strs) == 0 {
		return nil
	}
	funcs := map[string]any{
		"S": func(i int) string { return strs[i] },
		"B": func(f float64) string { return hx.FBits(f) },
	}
	rr := hx.RunAwk(`BEGIN { for (i = 0; i < N; i++) print B(+S(i)) }`,
		&interp.Config{Funcs: funcs, Vars: []string{"N", fmt.Sprint(len(strs))}, Environ: []string{}}, &parser.ParserConfig{Funcs: funcs})
	if rr.Err != nil || rr.Panic != nil {
		return fmt.Errorf("pre-pass failed: %v %v", rr.Err, rr.Panic)
	}
	lines := strings.Split(strings.TrimSuffix(string(rr.Out), "\n"), "\n")
	if len(lines) != len(strs) {
		return fmt.Errorf("pre-pass: %d lines for %d strings", len(lines), len(strs))
	}
	for i, s := range strs {
		b, err := strconv.ParseUint(lines[i], 10, 64)
		if err != nil {
			return err
		}
		strNum[s] = math.Float64frombits(b)
	}
	return nil
}

// ---------------------------------------------------------------- search oracle

const oracleC = "printf/sprintf output = C printf of the AWK-converted arguments"
const oracleErr = "too few arguments or an unknown conversion is a run-time error"
const oracleNoPanic = "no panic"
const oraclePrint = "print = fields joined by OFS, integral numbers as integers, others by OFMT, then ORS"

func classify(k *kase, ft cfeat, wantErr bool) string {
	mode := ""
	if k.chars {
		mode = "-chars"
	}
	switch {
	case wantErr:
		return ft.errWhy + "-accepted" // the reference demands an error
	case ft.beyondLimit:
		return "width-or-precision-beyond-1e6"
	// input classes of the defects that are still open come first: a case that also has one of
	// the repaired features below must not be blamed on the repaired defect
	case ft.unsignedSign:
		return "unsigned-conv-plus-or-space-flag"
	case ft.sharpHexZeroVal:
		return "hex-sharp-zero-value"
	case ft.sharpHexZeroPad:
		return "hex-sharp-zero-flag-width"
	case ft.zeroPrecZeroVal:
		return "int-zero-value-zero-precision-with-sign-or-sharp"
	case ft.sOfBigIntegral:
		return "s-of-integral-number-beyond-int64"
	case ft.multibyte:
		return "s-width-or-precision-multibyte-byte-mode"
	// repaired (F-C09-4, -7, -6, -1): no longer in known findings, a failure here is a violation
	case ft.starPrecNeg:
		return "star-precision-negative"
	case ft.beyondInt64:
		return "int-conv-arg-beyond-int64"
	case ft.nonfiniteFloat:
		return "float-conv-nonfinite"
	case ft.gNoPrec:
		return "g-no-precision"
	case ft.floatConv:
		return "float-conv" + mode
	}
	return "conforming" + mode
}

func detail(k *kase, want, got string) map[string]any {
	d := map[string]any{"op": k.op, "chars": k.chars, "format": k.format, "format_hex": hx.HexS(k.format),
		"model_line": k.line(), "want": want, "got": got, "origin": k.origin}
	var as []string
	for _, a := range k.args {
		switch a.kind {
		case 'n':
			as = append(as, fmt.Sprintf("num %v", a.x))
		case 'u':
			as = append(as, "uninitialised")
		case 's':
			as = append(as, fmt.Sprintf("str %q", a.s))
		default:
			as = append(as, fmt.Sprintf("numstr %q", a.s))
		}
	}
	d["args"] = as
	if k.op == "print" {
		d["ofs_hex"], d["ors_hex"] = hx.HexS(k.ofs), hx.HexS(k.ors)
	}
	if len(want) > 3 && strings.HasPrefix(want, "ok ") && len(want) < 400 {
		d["want_text"] = string(hx.UnHex(want[3:]))
	}
	if len(got) > 3 && strings.HasPrefix(got, "ok ") && len(got) < 400 {
		d["got_text"] = string(hx.UnHex(got[3:]))
	}
	if len(want) > 2000 {
		d["want"] = want[:2000] + "..."
	}
	if len(got) > 2000 {
		d["got"] = got[:2000] + "..."
	}
	return d
}

// oracle evaluates the property on one implementation result; returns true when it failed
func oracle(k *kase, impl string, rep *hx.Report) bool {
	if strings.HasPrefix(impl, "panic") {
		rep.Fail(hx.Failure{Class: "panic", Oracle: oracleNoPanic, Detail: detail(k, "a value or a run-time error", impl)})
		return true
	}
	switch k.op {
	case "sprintf":
		cv := make([]cval, len(k.args))
		for i, a := range k.args {
			cv[i] = a.cval()
		}
		want, wantErr, ft := cSprintf(k.chars, k.format, cv, "%.6g")
		if ft.undefined || ft.noDemand {
			rep.Count("oracle:no-demand")
			return false
		}
		if ft.tooBig > 0 && !wantErr {
			// the C output has at least tooBig characters; not materialised here
			if strings.HasPrefix(impl, "ok ") && (len(impl)-3)/2 >= ft.tooBig {
				return false
			}
			rep.Fail(hx.Failure{Class: classify(k, ft, false), Oracle: oracleC, Detail: detail(k, fmt.Sprintf("at least %d characters", ft.tooBig), impl)})
			return true
		}
		if wantErr {
			if !strings.HasPrefix(impl, "err ") {
				rep.Fail(hx.Failure{Class: classify(k, ft, true), Oracle: oracleErr, Detail: detail(k, "a run-time error", impl)})
				return true
			}
			return false
		}
		if impl != "ok "+hx.HexS(want) {
			cl := classify(k, ft, false)
			if strings.HasPrefix(impl, "err ") {
				cl = "valid-format-rejected"
			}
			rep.Fail(hx.Failure{Class: cl, Oracle: oracleC, Detail: detail(k, "ok "+hx.HexS(want), impl)})
			return true
		}
	case "print":
		var items []string
		beyond := false
		for _, a := range k.args {
			c := a.cval()
			if c.hasStr {
				items = append(items, c.str)
				continue
			}
			s, ok := numToStr(c.num, k.format)
			if !ok {
				rep.Count("oracle:no-demand")
				return false
			}
			if c.num == math.Trunc(c.num) && math.Abs(c.num) >= 1<<63 && c.num != -(1<<63) && !math.IsInf(c.num, 0) {
				beyond = true
			}
			items = append(items, s)
		}
		if len(k.args) == 0 {
			items = []string{""} // print with no arguments prints $0, empty in BEGIN
		}
		want := strings.Join(items, k.ofs) + k.ors
		if impl != "ok "+hx.HexS(want) {
			cl := "print"
			if beyond {
				cl = "print-integral-beyond-int64"
			} else if k.format == "%g" || k.format == "%G" {
				cl = "print-ofmt-g-no-precision"
			}
			rep.Fail(hx.Failure{Class: cl, Oracle: oraclePrint, Detail: detail(k, "ok "+hx.HexS(want), impl)})
			return true
		}
	}
	return false
}

// ---------------------------------------------------------------- print in CSV / TSV output mode

const oraclePrintCSV = "print in CSV/TSV output mode = one row of the fields, integral numbers as integers, others by OFMT"

// csvField: a field as encoding/csv writes it (RFC 4180 quoting; written independently)
func csvField(f string, comma rune, only bool) string {
	need := false
	switch {
	case f == "":
		need = only // a row that is a single empty field is written as "" (interp/io.go writeCSV; an empty line would be no row)
	case f == `\.`:
		need = true
	default:
		r, _ := utf8.DecodeRuneInString(f)
		need = strings.ContainsRune(f, comma) || strings.ContainsAny(f, "\"\r\n") || unicode.IsSpace(r)
	}
	if !need {
		return f
	}
	return `"` + strings.ReplaceAll(f, `"`, `""`) + `"`
}

func csvWant(k *kase, comma rune) (string, bool) {
	var items []string
	for _, a := range k.args {
		c := a.cval()
		if c.hasStr {
			if !utf8.ValidString(c.str) {
				return "", false // encoding/csv replaces invalid UTF-8 when quoting: no demand
			}
			items = append(items, c.str)
			continue
		}
		s, ok := numToStr(c.num, k.format)
		if !ok || !utf8.ValidString(s) {
			return "", false
		}
		items = append(items, s)
	}
	for i := range items {
		items[i] = csvField(items[i], comma, len(items) == 1)
	}
	return strings.Join(items, string(comma)) + "\n", true
}

// csvPrintOracle runs the print cases once more in CSV and in TSV output mode
func csvPrintOracle(ks []*kase, rep *hx.Report) {
	for _, chars := range []bool{false, true} {
		var sub []*kase
		for _, k := range ks {
			if k.op == "print" && len(k.args) > 0 && k.chars == chars {
				sub = append(sub, k)
			}
		}
		if len(sub) == 0 {
			continue
		}
		for _, m := range []struct {
			mode  interp.IOMode
			name  string
			comma rune
		}{{interp.CSVMode, "csv", ','}, {interp.TSVMode, "tsv", '\t'}} {
			out, err := runBatchMode(sub, chars, m.mode)
			for i, k := range sub {
				var impl string
				if err != nil {
					o1, e1 := runBatchMode([]*kase{k}, chars, m.mode)
					if e1 != nil {
						impl = canonErr(e1.Error())
						if strings.HasPrefix(e1.Error(), "panic") {
							impl = "panic " + e1.Error()
						}
					} else {
						impl = o1[0]
					}
				} else {
					impl = out[i]
				}
				csvOracleOne(k, m.name, m.comma, impl, rep)
			}
		}
	}
}

func csvOracleOne(k *kase, mode string, comma rune, impl string, rep *hx.Report) bool {
	want, ok := csvWant(k, comma)
	if !ok {
		rep.Count("oracle:no-demand")
		return false
	}
	rep.SearchEvals++
	rep.Count("print-output-mode:" + mode)
	if impl != "ok "+hx.HexS(want) {
		d := detail(k, "ok "+hx.HexS(want), impl)
		d["output_mode"] = mode
		cl := "print-" + mode
		if strings.HasPrefix(impl, "panic") {
			cl = "panic"
		} else if k.format == "%g" || k.format == "%G" {
			cl = "print-ofmt-g-no-precision"
		} else {
			for _, a := range k.args {
				if c := a.cval(); !c.hasStr && c.num == math.Trunc(c.num) && math.Abs(c.num) >= 1<<63 && c.num != -(1<<63) && !math.IsInf(c.num, 0) {
					cl = "print-integral-beyond-int64"
				}
			}
		}
		orc := oraclePrintCSV
		if cl == "print-ofmt-g-no-precision" || cl == "print-integral-beyond-int64" {
			orc = oraclePrint // the number-to-string conversion shared with the default mode
		}
		rep.Fail(hx.Failure{Class: cl, Oracle: orc, Detail: d})
		return true
	}
	return false
}

// ---------------------------------------------------------------- replay

func parseLine(line string) (*kase, error) {
	f := strings.Fields(line)
	if len(f) < 2 {
		return nil, fmt.Errorf("bad model_line")
	}
	k := &kase{op: f[0], origin: "replay"}
	parseArg := func(t string) (arg, error) {
		switch t[0] {
		case 'n':
			b, err := strconv.ParseUint(t[1:], 10, 64)
			return arg{kind: 'n', x: math.Float64frombits(b)}, err
		case 'u':
			return arg{kind: 'u'}, nil
		case 's', 't':
			p := strings.Split(t[1:], ",")
			s := string(hx.UnHex(p[0]))
			if len(p) > 1 {
				b, err := strconv.ParseUint(p[1], 10, 64)
				if err != nil {
					return arg{}, err
				}
				strNum[s] = math.Float64frombits(b)
			}
			return arg{kind: t[0], s: s}, nil
		}
		return arg{}, fmt.Errorf("bad arg %q", t)
	}
	switch k.op {
	case "sprintf":
		k.chars = f[1] == "1"
		k.format = string(hx.UnHex(f[2]))
		for _, t := range f[3:] {
			a, err := parseArg(t)
			if err != nil {
				return nil, err
			}
			k.args = append(k.args, a)
		}
	case "print":
		k.ofs, k.ors = string(hx.UnHex(f[1])), string(hx.UnHex(f[2]))
		for _, t := range f[3:] {
			a, err := parseArg(t)
			if err != nil {
				return nil, err
			}
			k.args = append(k.args, a)
		}
	case "gofmt":
		k.format = string(hx.UnHex(f[1]))
		k.gargs = f[2:]
	}
	return k, nil
}

func replay(o hx.Opts) {
	var doc struct {
		Failure hx.Failure `json:"failure"`
	}
	b, err := os.ReadFile(o.Replay)
	if err != nil {
		fmt.Println("replay:", err)
		os.Exit(2)
	}
	if err := json.Unmarshal(b, &doc); err != nil {
		fmt.Println("replay:", err)
		os.Exit(2)
	}
	line, _ := doc.Failure.Detail["model_line"].(string)
	k, err := parseLine(line)
	if err != nil {
		fmt.Println("replay:", err)
		os.Exit(2)
	}
	if k.op == "print" {
		k.format, _ = doc.Failure.Detail["format"].(string)
	}
	k.expectError = true // run alone
	rep := hx.NewReport("C09", o.Seed, o.Tier)
	if om, _ := doc.Failure.Detail["output_mode"].(string); om != "" {
		mode, comma := interp.CSVMode, ','
		if om == "tsv" {
			mode, comma = interp.TSVMode, '\t'
		}
		impl := ""
		if o1, e1 := runBatchMode([]*kase{k}, k.chars, mode); e1 != nil {
			impl = "error " + e1.Error()
		} else {
			impl = o1[0]
		}
		fmt.Printf("replay print in %s output mode\n  OFMT %q chars=%v args=%v\n  got  %s\n", om, k.format, k.chars, doc.Failure.Detail["args"], impl)
		if csvOracleOne(k, om, comma, impl, rep) {
			f := rep.Failures[0]
			fmt.Printf("  want %v\n  class %s\n  oracle %s\nSTILL FAILS\n", f.Detail["want"], f.Class, f.Oracle)
			os.Exit(1)
		}
		fmt.Println("passes now")
		return
	}
	impl := runOne(k)
	fmt.Printf("replay %s\n  format %q chars=%v args=%v\n  got  %s\n", k.op, k.format, k.chars, doc.Failure.Detail["args"], impl)
	if oracle(k, impl, rep) {
		f := rep.Failures[0]
		fmt.Printf("  want %v\n  class %s\n  oracle %s\nSTILL FAILS\n", f.Detail["want"], f.Class, f.Oracle)
		os.Exit(1)
	}
	fmt.Println("passes now")
}

// modelEval: hx.ModelEval with an unlimited stack (the extracted list functions are
// not tail recursive; a few cases produce outputs of 10^6 bytes)
func modelEval(bin string, lines []string) ([]string, error) {
	dir, err := os.MkdirTemp("", "c09")
	if err != nil {
		return nil, err
	}
	defer os.RemoveAll(dir)
	wrapper := dir + "/modelrun.sh"
	if err := os.WriteFile(wrapper, []byte("#!/bin/sh\nulimit -s unlimited 2>/dev/null || ulimit -s 4000000 2>/dev/null\nexec \""+bin+"\"\n"), 0o755); err != nil {
		return nil, err
	}
	return hx.ModelEval(wrapper, lines)
}

// ---------------------------------------------------------------- main

// process runs one batch of cases through the implementation, the model and the oracle.
var nsample int

func process(ks []*kase, o hx.Opts, rep *hx.Report) bool {
	if err := fillStrNum(ks); err != nil {
		rep.HarnessError("%v", err)
		return false
	}
	for _, k := range ks {
		if k.op == "sprintf" {
			cv := make([]cval, len(k.args))
			for i, a := range k.args {
				cv[i] = a.cval()
			}
			_, k.expectError, _ = cSprintf(k.chars, k.format, cv, "%.6g")
		}
	}
	impl := runAll(ks, rep)
	lines := make([]string, len(ks))
	for i, k := range ks {
		lines[i] = k.line()
	}
	model, err := modelEval(o.ModelRun, lines)
	if err != nil {
		rep.HarnessError("%v", err)
	}
	for i, k := range ks {
		rep.CorrEvals++
		rep.Count("origin:" + k.origin)
		if strings.Contains(k.format, "%") {
			rep.Distinct(lines[i])
		}
		if i%1499 == 0 && nsample < 8 && len(lines[i]) < 300 {
			nsample++
			rep.Sample(map[string]string{"request": lines[i], "impl": impl[i]})
		}
		if model != nil {
			switch {
			case model[i] == "unmod":
				rep.Unmodelled++
			case strings.HasPrefix(model[i], "driver-error"):
				rep.HarnessError("%s on %s", model[i], lines[i])
			case model[i] != impl[i]:
				cl := k.op + ":" + k.origin
				m, im := model[i], impl[i]
				if len(m) > 600 {
					m = m[:600] + "..."
				}
				if len(im) > 600 {
					im = im[:600] + "..."
				}
				ln := lines[i]
				if len(ln) > 600 {
					ln = ln[:600] + "..."
				}
				rep.Mismatch(hx.Mismatch{Class: cl, Input: ln, Impl: im, Model: m, Note: fmt.Sprintf("format %q", k.format)})
			}
		}
		if k.op != "gofmt" {
			rep.SearchEvals++
			oracle(k, impl[i], rep)
		}
	}
	csvPrintOracle(ks, rep)
	return len(rep.HarnessErrors) == 0
}

func main() {
	o := hx.ParseFlags()
	if o.Replay != "" {
		replay(o)
		return
	}
	rep := hx.NewReport("C09", o.Seed, o.Tier)
	rep.Rule = "grid: 32 flag subsets x 7 widths (none,0,1,5,12,*,-*) x 8 precisions (none . .0 .1 .3 .10 .* .*neg) x 13 conversions x 60 arguments x {byte,char} mode (sampled in quick, exhaustive in thorough); plus systematic formats with 2-4 conversions (every ordered pair of conversion kinds x several arguments, plain / '*' widths / two '*' precisions of every sign combination, all %c arrangements of numbers and strings, byte and char mode), hostile formats (random tokens, flags after width, several directives, too few/extra arguments, invalid and non-ASCII conversion bytes), width/precision limits, print with OFS/ORS/OFMT, and fmt.Sprintf itself on typed arguments; distinct = distinct model request line; non-trivial = format contains a conversion"
	r := hx.NewRand(o.Seed)
	for _, gen := range genBatches(o, r) {
		if !process(gen(), o, rep) {
			break
		}
	}
	// stable order of failures for reproducibility
	sort.SliceStable(rep.Failures, func(a, b int) bool { return rep.Failures[a].Class < rep.Failures[b].Class })
	rep.Exhaustive = o.Tier == "thorough" // the flag x width x precision x conversion x argument grid is enumerated completely
	rep.Write(o.Out)
}
