// Independent reference for the search oracle: ISO C printf (7.21.6.1) for
// d i o u x X c s e E f g G %, applied to arguments converted "the AWK way".
// Written from the C standard, not from goawk or Go's fmt; exact arithmetic
// with math/big (decimal expansion of the double, round-half-even).
package main

import (
	"math"
	"math/big"
	"strings"
	"unicode/utf8"
)

type cdir struct {
	lit                             string // literal text (when conv == 0)
	minus, plus, space, sharp, zero bool
	wStar, pStar                    bool
	width, prec                     int // literal values
	hasWidth, hasPrec               bool
	widthDigits, precDigits         int // number of digits written in the format
	conv                            byte
}

type cstatus int

const (
	cOK         cstatus = iota
	cIncomplete         // format ends inside a conversion specification
	cUnknown            // conversion character outside the set (includes flag characters after the width/precision)
)

// cParse splits a format by the C grammar  %[flags][width][.precision]conv .
// malformedAt is the kind of problem of the first bad directive.
func cParse(format string) (dirs []cdir, st cstatus, bad byte) {
	i := 0
	n := len(format)
	for i < n {
		j := strings.IndexByte(format[i:], '%')
		if j < 0 {
			dirs = append(dirs, cdir{lit: format[i:]})
			break
		}
		if j > 0 {
			dirs = append(dirs, cdir{lit: format[i : i+j]})
		}
		i += j + 1
		if i >= n {
			return dirs, cIncomplete, 0
		}
		if format[i] == '%' {
			dirs = append(dirs, cdir{lit: "%"})
			i++
			continue
		}
		var d cdir
	flags:
		for i < n {
			switch format[i] {
			case '-':
				d.minus = true
			case '+':
				d.plus = true
			case ' ':
				d.space = true
			case '#':
				d.sharp = true
			case '0':
				d.zero = true
			default:
				break flags
			}
			i++
		}
		if i < n && format[i] == '*' {
			d.wStar, d.hasWidth = true, true
			i++
		} else {
			for i < n && format[i] >= '0' && format[i] <= '9' {
				if d.width < 1<<40 {
					d.width = d.width*10 + int(format[i]-'0')
				}
				d.hasWidth = true
				d.widthDigits++
				i++
			}
		}
		if i < n && format[i] == '.' {
			i++
			d.hasPrec = true
			if i < n && format[i] == '*' {
				d.pStar = true
				i++
			} else {
				for i < n && format[i] >= '0' && format[i] <= '9' {
					if d.prec < 1<<40 {
						d.prec = d.prec*10 + int(format[i]-'0')
					}
					d.precDigits++
					i++
				}
			}
		}
		if i >= n {
			return dirs, cIncomplete, 0
		}
		d.conv = format[i]
		i++
		if strings.IndexByte("diouxXcseEfgGaA", d.conv) < 0 {
			return dirs, cUnknown, d.conv
		}
		dirs = append(dirs, d)
	}
	return dirs, cOK, 0
}

// cval is an argument as the reference sees it: its AWK string value, its AWK
// numeric value (strtod-prefix semantics: taken as given, property C05), and
// whether %c must treat it as a string.
type cval struct {
	hasStr bool    // the value carries a string (string, field-like numeric string, uninitialised)
	str    string  // that string
	cIsStr bool    // %c takes the first character of str (a string that does not look numeric)
	num    float64 // numeric value (AWK string-to-number conversion taken as given)
	cnum   float64 // numeric value %c uses when !cIsStr
}

func truncBig(f float64) *big.Int {
	z, _ := new(big.Float).SetFloat64(f).Int(nil)
	return z
}

var two64 = new(big.Int).Lsh(big.NewInt(1), 64)

// units of a string for width/precision: bytes, or characters in character mode
func cunits(s string, chars bool) []string {
	var u []string
	if !chars {
		for i := 0; i < len(s); i++ {
			u = append(u, s[i:i+1])
		}
		return u
	}
	for len(s) > 0 {
		_, w := utf8.DecodeRuneInString(s)
		u = append(u, s[:w])
		s = s[w:]
	}
	return u
}

func padTo(body string, bodyUnits int, width int, left bool) string {
	if width <= bodyUnits {
		return body
	}
	p := strings.Repeat(" ", width-bodyUnits)
	if left {
		return body + p
	}
	return p + body
}

// integer conversions: v = the argument truncated toward zero (any size for d/i; reduced mod 2^64 for unsigned)
func cInteger(d cdir, width int, hasPrec bool, prec int, v *big.Int) string {
	var sign, prefix, digits string
	switch d.conv {
	case 'd', 'i':
		if v.Sign() < 0 {
			sign = "-"
		} else if d.plus {
			sign = "+"
		} else if d.space {
			sign = " "
		}
		digits = new(big.Int).Abs(v).Text(10)
	default:
		u := new(big.Int).Mod(v, two64)
		switch d.conv {
		case 'u':
			digits = u.Text(10)
		case 'o':
			digits = u.Text(8)
		case 'x':
			digits = u.Text(16)
		case 'X':
			digits = strings.ToUpper(u.Text(16))
		}
		if d.sharp && u.Sign() != 0 && (d.conv == 'x' || d.conv == 'X') {
			prefix = "0" + string(d.conv)
		}
		v = u
	}
	minDigits := 1
	if hasPrec {
		minDigits = prec
	}
	if v.Sign() == 0 && minDigits == 0 {
		digits = ""
	}
	if len(digits) < minDigits {
		digits = strings.Repeat("0", minDigits-len(digits)) + digits
	}
	if d.conv == 'o' && d.sharp && !strings.HasPrefix(digits, "0") {
		digits = "0" + digits
	}
	body := sign + prefix + digits
	if len(body) >= width {
		return body
	}
	if d.minus {
		return body + strings.Repeat(" ", width-len(body))
	}
	if d.zero && !hasPrec {
		return sign + prefix + strings.Repeat("0", width-len(body)) + digits
	}
	return strings.Repeat(" ", width-len(body)) + body
}

// roundScaled returns round-half-even(|x| * 10^k) for finite x.
func roundScaled(x float64, k int) *big.Int {
	if x == 0 {
		return new(big.Int)
	}
	mant, exp := math.Frexp(math.Abs(x)) // |x| = mant * 2^exp, mant in [0.5,1)
	m := new(big.Int).SetUint64(uint64(mant * (1 << 53)))
	e := exp - 53
	num := new(big.Int).Set(m)
	den := big.NewInt(1)
	if e >= 0 {
		num.Lsh(num, uint(e))
	} else {
		den.Lsh(den, uint(-e))
	}
	ten := big.NewInt(10)
	if k >= 0 {
		num.Mul(num, new(big.Int).Exp(ten, big.NewInt(int64(k)), nil))
	} else {
		den.Mul(den, new(big.Int).Exp(ten, big.NewInt(int64(-k)), nil))
	}
	q, r := new(big.Int).QuoRem(num, den, new(big.Int))
	r2 := new(big.Int).Lsh(r, 1)
	switch r2.Cmp(den) {
	case 1:
		q.Add(q, big.NewInt(1))
	case 0:
		if q.Bit(0) == 1 {
			q.Add(q, big.NewInt(1))
		}
	}
	return q
}

// decimal exponent X with 10^X <= |x| < 10^(X+1), x finite non-zero
func dexp(x float64) int {
	X := int(math.Floor(math.Log10(math.Abs(x))))
	// exact adjustment
	for {
		// |x| >= 10^X  <=> roundDown(|x| * 10^-X) >= 1 ; use exact rational comparison
		if cmpPow10(x, X) < 0 {
			X--
			continue
		}
		if cmpPow10(x, X+1) >= 0 {
			X++
			continue
		}
		return X
	}
}

// sign of |x| - 10^k, exact
func cmpPow10(x float64, k int) int {
	mant, exp := math.Frexp(math.Abs(x))
	num := new(big.Int).SetUint64(uint64(mant * (1 << 53)))
	e := exp - 53
	den := big.NewInt(1)
	if e >= 0 {
		num.Lsh(num, uint(e))
	} else {
		den.Lsh(den, uint(-e))
	}
	p := new(big.Int).Exp(big.NewInt(10), big.NewInt(int64(abs(k))), nil)
	if k >= 0 {
		den.Mul(den, p)
	} else {
		num.Mul(num, p)
	}
	return num.Cmp(den)
}

func abs(a int) int {
	if a < 0 {
		return -a
	}
	return a
}

func fStyle(x float64, prec int, sharp bool) string {
	n := roundScaled(x, prec).Text(10)
	if len(n) <= prec {
		n = strings.Repeat("0", prec+1-len(n)) + n
	}
	ip, fp := n[:len(n)-prec], n[len(n)-prec:]
	if prec == 0 {
		if sharp {
			return ip + "."
		}
		return ip
	}
	return ip + "." + fp
}

// eDigits: p+1 significant digits and the decimal exponent after rounding
func eDigits(x float64, p int) (string, int) {
	if x == 0 {
		return strings.Repeat("0", p+1), 0
	}
	X := dexp(x)
	n := roundScaled(x, p-X)
	lim := new(big.Int).Exp(big.NewInt(10), big.NewInt(int64(p+1)), nil)
	if n.Cmp(lim) >= 0 {
		X++
		n = new(big.Int).Exp(big.NewInt(10), big.NewInt(int64(p)), nil)
	}
	return n.Text(10), X
}

func expText(X int, upper bool) string {
	s := "e"
	if upper {
		s = "E"
	}
	if X < 0 {
		s += "-"
		X = -X
	} else {
		s += "+"
	}
	t := big.NewInt(int64(X)).Text(10)
	if len(t) < 2 {
		t = "0" + t
	}
	return s + t
}

func eStyle(x float64, prec int, sharp, upper bool) string {
	ds, X := eDigits(x, prec)
	m := ds[:1]
	if prec > 0 {
		m += "." + ds[1:]
	} else if sharp {
		m += "."
	}
	return m + expText(X, upper)
}

func stripZeros(s string) string {
	// s contains a '.', remove trailing zeros of the fraction and a bare '.'
	mant, exp := s, ""
	if i := strings.IndexAny(s, "eE"); i >= 0 {
		mant, exp = s[:i], s[i:]
	}
	if strings.IndexByte(mant, '.') >= 0 {
		mant = strings.TrimRight(mant, "0")
		mant = strings.TrimSuffix(mant, ".")
	}
	return mant + exp
}

// floating conversions of a double
func cFloat(d cdir, width int, hasPrec bool, prec int, x float64) string {
	upper := d.conv == 'E' || d.conv == 'G'
	var sign string
	neg := math.Signbit(x) && !math.IsNaN(x)
	if neg {
		sign = "-"
	} else if d.plus {
		sign = "+"
	} else if d.space {
		sign = " "
	}
	var body string
	nonfinite := math.IsNaN(x) || math.IsInf(x, 0)
	switch {
	case math.IsNaN(x):
		body = "nan"
	case math.IsInf(x, 0):
		body = "inf"
	default:
		if !hasPrec {
			prec = 6
		}
		switch d.conv {
		case 'f':
			body = fStyle(x, prec, d.sharp)
		case 'e', 'E':
			body = eStyle(x, prec, d.sharp, upper)
		case 'g', 'G':
			P := prec
			if P == 0 {
				P = 1
			}
			_, X := eDigits(x, P-1)
			if X < -4 || X >= P {
				body = eStyle(x, P-1, d.sharp, upper)
			} else {
				body = fStyle(x, P-1-X, d.sharp)
			}
			if !d.sharp {
				body = stripZeros(body)
			}
		}
	}
	if nonfinite && upper {
		body = strings.ToUpper(body)
	}
	total := len(sign) + len(body)
	if total >= width {
		return sign + body
	}
	if d.minus {
		return sign + body + strings.Repeat(" ", width-total)
	}
	if d.zero && !nonfinite {
		return sign + strings.Repeat("0", width-total) + body
	}
	return strings.Repeat(" ", width-total) + sign + body
}

// numToStr: AWK number to string with CONVFMT/OFMT = %.6g-like format text
// (integral values as integers, any magnitude).
func numToStr(x float64, ofmt string) (string, bool) {
	switch {
	case math.IsNaN(x):
		return "nan", true // sign of NaN not demanded
	case math.IsInf(x, 1):
		return "inf", true
	case math.IsInf(x, -1):
		return "-inf", true
	}
	if x == math.Trunc(x) {
		return truncBig(x).Text(10), true
	}
	dirs, st, _ := cParse(ofmt)
	if st != cOK {
		return "", false
	}
	var sb strings.Builder
	used := false
	for _, d := range dirs {
		if d.conv == 0 {
			sb.WriteString(d.lit)
			continue
		}
		if used || d.wStar || d.pStar || strings.IndexByte("eEfgG", d.conv) < 0 {
			return "", false // not a single floating conversion: unspecified by POSIX
		}
		used = true
		sb.WriteString(cFloat(d, d.width, d.hasPrec, d.prec, x))
	}
	if !used {
		return "", false
	}
	return sb.String(), true
}

// features of the case that matter for classification
type cfeat struct {
	undefined       bool // C leaves the result undefined (# with d i u c s, 0 with c s, precision with c, %a)
	noDemand        bool // the property leaves the result open (%c of "", of a number that is no character code, NaN to integer)
	starPrecNeg     bool
	beyondLimit     bool // width/precision beyond fmt's 10^6 limit
	tooBig          int  // > 0: a width/precision this large was requested; the reference does not materialise the output
	beyondInt64     bool
	nonfiniteInt    bool
	nonfiniteFloat  bool
	gNoPrec         bool
	unsignedSign    bool
	sharpHexZeroVal bool
	sharpHexZeroPad bool
	zeroPrecZeroVal bool
	multibyte       bool
	sOfBigIntegral  bool // %s of a number that is an integer beyond the int64 range
	floatConv       bool
	convs           string
	errWhy          string // why the reference demands a run-time error
}

// cSprintf: expected output, or wantErr (too few arguments / unknown or incomplete conversion).
func cSprintf(chars bool, format string, args []cval, convfmt string) (out string, wantErr bool, ft cfeat) {
	dirs, st, bad := cParse(format)
	if st != cOK {
		switch {
		case st == cIncomplete:
			ft.errWhy = "incomplete-specification"
		case strings.IndexByte(" .-+*#0123456789", bad) >= 0:
			ft.errWhy = "malformed-directive" // a flag, '*', '.' or digit where the conversion character must be
		default:
			ft.errWhy = "unknown-conversion"
		}
		return "", true, ft
	}
	need := 0
	for _, d := range dirs {
		if d.conv != 0 {
			need++
			if d.wStar {
				need++
			}
			if d.pStar {
				need++
			}
		}
	}
	if need > len(args) {
		ft.errWhy = "too-few-arguments"
		return "", true, ft
	}
	var sb strings.Builder
	ai := 0
	for _, d := range dirs {
		if d.conv == 0 {
			sb.WriteString(d.lit)
			continue
		}
		ft.convs += string(d.conv)
		width, hasPrec, prec := d.width, d.hasPrec, d.prec
		if d.widthDigits >= 8 || d.precDigits >= 8 {
			ft.beyondLimit = true
		}
		starInt := func() (int, bool) {
			a := args[ai]
			ai++
			if math.IsNaN(a.num) || math.Abs(a.num) >= 1<<31 {
				ft.noDemand = true // C: int argument; nothing sensible to demand
				return 0, false
			}
			return int(a.num), true // truncation toward zero
		}
		if d.wStar {
			w, ok := starInt()
			if ok {
				if w > 1000000 || w < -1000000 {
					ft.beyondLimit = true
				}
				if w < 0 {
					d.minus = true
					w = -w
				}
				width = w
			}
		}
		if d.pStar {
			p, ok := starInt()
			if ok {
				if p > 1000000 {
					ft.beyondLimit = true
				}
				if p < 0 {
					ft.starPrecNeg = true
					hasPrec = false
				} else {
					prec = p
				}
			}
		}
		a := args[ai]
		ai++
		if width > 2000000 || (hasPrec && prec > 2000000) {
			ft.tooBig = width
			if hasPrec && prec > width {
				ft.tooBig = prec
			}
			continue
		}
		switch d.conv {
		case 'a', 'A':
			ft.undefined = true // outside the property's conversion list
		case 'd', 'i', 'o', 'u', 'x', 'X':
			if d.sharp && (d.conv == 'd' || d.conv == 'i' || d.conv == 'u') {
				ft.undefined = true
			}
			if math.IsNaN(a.num) || math.IsInf(a.num, 0) {
				ft.nonfiniteInt = true
				ft.noDemand = true
				continue
			}
			v := truncBig(a.num)
			if v.BitLen() > 63 && !(v.Sign() < 0 && v.BitLen() == 64 && v.TrailingZeroBits() == 63) {
				ft.beyondInt64 = true
				if d.conv != 'd' && d.conv != 'i' && (v.Sign() < 0 || v.BitLen() > 64) {
					ft.noDemand = true // no unsigned 64-bit value to demand
				}
			}
			unsigned := d.conv != 'd' && d.conv != 'i'
			if unsigned && (d.plus || d.space) {
				ft.unsignedSign = true
			}
			isZero := v.Sign() == 0
			if d.sharp && (d.conv == 'x' || d.conv == 'X') {
				if isZero {
					ft.sharpHexZeroVal = true
				}
				if d.zero && !d.minus && !hasPrec && width > 0 {
					ft.sharpHexZeroPad = true
				}
			}
			if hasPrec && prec == 0 && isZero {
				if (!unsigned && (d.plus || d.space)) || (d.conv == 'o' && d.sharp) {
					ft.zeroPrecZeroVal = true
				}
			}
			sb.WriteString(cInteger(d, width, hasPrec, prec, v))
		case 'c':
			if d.sharp || d.zero || hasPrec {
				ft.undefined = true
			}
			var ch string
			if a.cIsStr {
				u := cunits(a.str, chars)
				if len(u) == 0 {
					ft.noDemand = true
				} else {
					ch = u[0]
				}
			} else {
				if math.IsNaN(a.cnum) || math.Abs(a.cnum) >= 1<<31 {
					ft.noDemand = true
				} else {
					n := int64(a.cnum)
					if chars {
						if n < 0 || n > 0x10FFFF || (n >= 0xD800 && n <= 0xDFFF) {
							ft.noDemand = true
						} else {
							ch = string(rune(n))
						}
					} else {
						ch = string([]byte{byte(((n % 256) + 256) % 256)})
					}
				}
			}
			sb.WriteString(padTo(ch, 1, width, d.minus))
		case 's':
			if d.sharp || d.zero {
				ft.undefined = true
			}
			s := a.str
			if !a.hasStr {
				if a.num == math.Trunc(a.num) && math.Abs(a.num) >= 1<<63 && a.num != -(1<<63) && !math.IsInf(a.num, 0) {
					ft.sOfBigIntegral = true
				}
				var ok bool
				s, ok = numToStr(a.num, convfmt)
				if !ok {
					ft.noDemand = true
				}
			}
			u := cunits(s, chars)
			if !chars && (hasPrec || width > 0) {
				for i := 0; i < len(s); i++ {
					if s[i] >= 0x80 {
						ft.multibyte = true
					}
				}
			}
			if hasPrec && prec < len(u) {
				u = u[:prec]
			}
			sb.WriteString(padTo(strings.Join(u, ""), len(u), width, d.minus))
		case 'e', 'E', 'f', 'g', 'G':
			ft.floatConv = true
			if math.IsNaN(a.num) || math.IsInf(a.num, 0) {
				ft.nonfiniteFloat = true
			}
			if (d.conv == 'g' || d.conv == 'G') && !hasPrec {
				ft.gNoPrec = true
			}
			sb.WriteString(cFloat(d, width, hasPrec, prec, a.num))
		}
	}
	return sb.String(), false, ft
}
