package main

import (
	"math"
	"strconv"
	"strings"

	"verif/harness/hx"
)

var numPool = []float64{0, 1, -1, 5, -5, 42, 65, 255, 256, 321, -191, 8364, 128512, 55296, 1114112,
	2147483647, 2147483648, -2147483648, -2147483649, 4294967361, 9007199254740992, 9007199254740993,
	9223372036854774784, 9223372036854775808, -9223372036854775808, -9223372036854777856, 18446744073709551616.0, 1e19,
	0.5, -0.5, 2.5, 3.5, 3.75, -3.9, 0.1 + 0.2, 0.1, 1e-5, 0.0001, 0.00001234, 99999.95, 999999.5, 100000, 1e6, 123456789.125,
	1e30, -1e30, 1e300, 5e-324, 1.7976931348623157e308, 0.000123456789, 1234567.0, 0.999999949, 9.5, 10.5, 0.125, 1e15, 1e16, 1e17, 2.5e-7,
	math.Inf(1), math.Inf(-1), math.NaN()}

var strPool = []string{"", "abc", "hello world", "42", "-7", "3.9xyz", "0x1A", "1e3", "é", "日本語", "a\xffb", "\xff", "€uro",
	" 12 ", "+5", "inf", "nan", ".5.", "65", "x", "1e400", "\xc3", "aé", "%d", "0", "-0", "256", "9223372036854775808"}

var flagChars = []string{"-", "+", " ", "#", "0"}
var widthForms = []string{"", "0", "1", "5", "12", "*", "*-"}
var precForms = []string{"", ".", ".0", ".1", ".3", ".10", ".*", ".*-"}
var convs = []string{"d", "i", "o", "x", "X", "u", "c", "s", "e", "E", "f", "g", "G"}

func allArgs() []arg {
	var as []arg
	for _, x := range numPool {
		as = append(as, arg{kind: 'n', x: x})
	}
	for _, s := range strPool {
		as = append(as, arg{kind: 's', s: s})
		if s != "" {
			as = append(as, arg{kind: 't', s: s})
		}
	}
	as = append(as, arg{kind: 'u'})
	return as
}

// one grid case from its coordinates
func gridCase(fl, wi, pi, ci int, a arg, chars bool) *kase {
	var sb strings.Builder
	sb.WriteString("<%")
	for b := 0; b < 5; b++ {
		if fl>>b&1 == 1 {
			sb.WriteString(flagChars[b])
		}
	}
	var args []arg
	switch widthForms[wi] {
	case "*":
		sb.WriteString("*")
		args = append(args, arg{kind: 'n', x: 7})
	case "*-":
		sb.WriteString("*")
		args = append(args, arg{kind: 'n', x: -6})
	default:
		sb.WriteString(widthForms[wi])
	}
	switch precForms[pi] {
	case ".*":
		sb.WriteString(".*")
		args = append(args, arg{kind: 'n', x: 2})
	case ".*-":
		sb.WriteString(".*")
		args = append(args, arg{kind: 'n', x: -1})
	default:
		sb.WriteString(precForms[pi])
	}
	sb.WriteString(convs[ci])
	sb.WriteString(">")
	args = append(args, a)
	return &kase{op: "sprintf", origin: "grid", chars: chars, format: sb.String(), args: args}
}

func randArg(r *hx.Rand) arg {
	switch r.Intn(10) {
	case 0, 1, 2, 3:
		return arg{kind: 'n', x: r.PickF(numPool)}
	case 4:
		return arg{kind: 'n', x: float64(r.Intn(2001)-1000) / 8}
	case 5:
		return arg{kind: 'n', x: math.Float64frombits(r.U64())}
	case 6, 7:
		return arg{kind: 's', s: r.Pick(strPool)}
	case 8:
		s := r.Pick(strPool)
		if s == "" {
			return arg{kind: 'u'}
		}
		return arg{kind: 't', s: s}
	default:
		return arg{kind: 'n', x: float64(int64(r.U64()))}
	}
}

func randDirective(r *hx.Rand, hostile bool) (string, int) {
	var sb strings.Builder
	need := 1
	sb.WriteString("%")
	for n := r.Intn(3); n > 0; n-- {
		sb.WriteString(r.Pick(flagChars))
	}
	switch r.Intn(5) {
	case 0:
		sb.WriteString("*")
		need++
	case 1, 2:
		sb.WriteString(strconv.Itoa(r.Intn(20)))
	}
	if hostile && r.Intn(3) == 0 {
		// something C's grammar does not allow here
		sb.WriteString(r.Pick([]string{"-", "+", " ", "#", "*", ".", "0", "5"}))
		if strings.HasSuffix(sb.String(), "*") {
			need++
		}
	}
	switch r.Intn(5) {
	case 0:
		sb.WriteString(".*")
		need++
	case 1, 2:
		sb.WriteString("." + strconv.Itoa(r.Intn(12)))
	case 3:
		if r.Intn(3) == 0 {
			sb.WriteString(".")
		}
	}
	if hostile && r.Intn(4) == 0 {
		t := r.Pick([]string{"-", ".3", "*", "#", " ", "7"})
		sb.WriteString(t)
		if t == "*" {
			need++
		}
	}
	if hostile && r.Intn(6) == 0 {
		sb.WriteString(r.Pick([]string{"z", "k", "p", "v", "q", "b", "U", "T", "%", "[", "]", "\xe9", "\x00", "\n", "'", "\\", "l", "h", "F", "a", "A", "\x80", "\xa0", "\x7f", "\t"}))
		if r.Intn(3) > 0 {
			return sb.String(), need
		}
	}
	sb.WriteString(r.Pick(convs))
	return sb.String(), need
}

func hostileCase(r *hx.Rand) *kase {
	var sb strings.Builder
	need := 0
	nd := 1 + r.Intn(3)
	for d := 0; d < nd; d++ {
		if r.Intn(2) == 0 {
			sb.WriteString(r.Pick([]string{"a", " ", "x=", "%%", "é", "\n", "100%% ", "[", "]"}))
		}
		s, n := randDirective(r, r.Intn(2) == 0)
		sb.WriteString(s)
		need += n
	}
	switch r.Intn(12) {
	case 0:
		sb.WriteString("%")
	case 1:
		sb.WriteString("%5")
	case 2:
		sb.WriteString("%-.")
	case 3:
		sb.WriteString(" end")
	}
	nargs := need
	switch r.Intn(8) {
	case 0:
		nargs = need - 1
	case 1:
		nargs = need + 1
	case 2:
		nargs = r.Intn(7)
	}
	if nargs < 0 {
		nargs = 0
	}
	if nargs > 6 {
		nargs = 6
	}
	k := &kase{op: "sprintf", origin: "hostile", chars: r.Intn(3) == 0, format: sb.String()}
	for i := 0; i < nargs; i++ {
		k.args = append(k.args, randArg(r))
	}
	return k
}

// several well-formed directives with exactly matching arguments
func multiCase(r *hx.Rand) *kase {
	var sb strings.Builder
	k := &kase{op: "sprintf", origin: "multi", chars: r.Intn(3) == 0}
	nd := 2 + r.Intn(3)
	for d := 0; d < nd && len(k.args) < 4; d++ {
		s, n := randDirective(r, false)
		if len(k.args)+n > 6 {
			break
		}
		sb.WriteString(s)
		sb.WriteString(r.Pick([]string{"", " ", "|", "%%"}))
		for i := 0; i < n-1; i++ {
			k.args = append(k.args, arg{kind: 'n', x: float64(r.Intn(31) - 10)})
		}
		k.args = append(k.args, randArg(r))
	}
	k.format = sb.String()
	return k
}

func limitCases() []*kase {
	var ks []*kase
	n := func(x float64) arg { return arg{kind: 'n', x: x} }
	add := func(f string, as ...arg) {
		ks = append(ks, &kase{op: "sprintf", origin: "limits", format: f, args: as})
	}
	for _, w := range []float64{1000000, -1000000, 1000001, -1000001, 1e9, -1e9, 2147483647, 2147483648, 1e30, 9223372036854775808, 0.5, -0.5} {
		if math.Abs(w) == 1000000 {
			continue // the huge legal outputs are exercised once below
		}
		add("<%*d>", n(w), n(5))
		add("<%*s>", n(w), arg{kind: 's', s: "ab"})
		add("<%.*d>", n(w), n(5))
		add("<%.*s>", n(w), arg{kind: 's', s: "abc"})
		add("<%*.*x>", n(w), n(w), n(255))
	}
	add("<%*d>", n(1000000), n(5))
	add("<%-*d>", n(-1000000), n(5))
	add("<%.*d>", n(1000000), n(5))
	for _, f := range []string{"<%999d>", "<%1000000d>", "<%1000001d|%s>", "<%12345678d|%s>", "<%123456789012345678901234567890d>x", "<%.12345678d|%s>", "<%.1000001d>", "<%5.12345678s>tail%d",
		"<%099999999d>", "<%00000005d>", "<%.00000005d>", "<%.0000000005d>"} {
		add(f, n(5), arg{kind: 's', s: "tail"})
	}
	add("<%*d>", arg{kind: 's', s: "abc"}, n(5))
	add("<%*d>", arg{kind: 's', s: "7"}, n(5))
	add("<%.*f>", arg{kind: 's', s: "2"}, n(3.14159))
	add("<%*d>", arg{kind: 'u'}, n(5))
	add("%")
	add("%%")
	add("%%%")
	add("abc%")
	add("%5")
	add("%5%")
	add("%d")
	add("%d %d", n(1))
	add("%*d", n(1))
	add("%*.*d", n(1), n(2))
	add("%z", n(1))
	add("%5-d", n(42))
	add("%5*d %s", n(42), n(2), arg{kind: 's', s: "abc"})
	add("%.3.2f", n(3.14159))
	add("%*5d", n(3), n(42))
	add("%**d", n(3), n(4), n(42))
	add("%.*.*d", n(3), n(4), n(42))
	add("%5*d %c %d", n(42), n(2), arg{kind: 's', s: "abc"}, n(9))
	add("%5*d %c %o|%e|%-", n(42), n(2), arg{kind: 's', s: "abc"}, n(9), n(10))
	add("%c", arg{kind: 's', s: ""})
	add("%5c|%-5c|%05c", arg{kind: 's', s: "x"}, n(65), n(66))
	add("", n(1))
	add("plain text", n(1))
	return ks
}

func printCases(r *hx.Rand, n int) []*kase {
	var ks []*kase
	ofmts := []string{"%.6g", "%.6g", "%.2f", "%.3e", "%g", "%10.4f", "%.10g", "%d", "%s", "%5.1f|", "abc", "%", "%.0f", "%G", "%e"}
	seps := []string{" ", ",", "", "\t", "--", "\n", "é", "%d"}
	mk := func(ofmt, ofs, ors string, as ...arg) {
		ks = append(ks, &kase{op: "print", origin: "print", format: ofmt, ofs: ofs, ors: ors, args: as})
	}
	for _, x := range numPool {
		mk("%.6g", " ", "\n", arg{kind: 'n', x: x})
		mk("%.2f", " ", "\n", arg{kind: 'n', x: x}, arg{kind: 'n', x: -x})
		mk("%g", "-", ";", arg{kind: 'n', x: x})
	}
	for _, s := range strPool {
		mk("%.6g", ",", "\n", arg{kind: 's', s: s}, arg{kind: 'n', x: 1})
		if s != "" {
			mk("%.2f", ",", "\r\n", arg{kind: 't', s: s}, arg{kind: 'u'})
		}
	}
	mk("%.6g", " ", "\n")
	for i := 0; i < n; i++ {
		k := &kase{op: "print", origin: "print", format: r.Pick(ofmts), ofs: r.Pick(seps), ors: r.Pick(append(seps, "\n", "\n"))}
		for j := r.Intn(5); j > 0; j-- {
			k.args = append(k.args, randArg(r))
		}
		ks = append(ks, k)
	}
	return ks
}

// fmt.Sprintf directly: formats over the bytes that can reach Go from parseFmtTypes,
// arguments of the four non-float types goawk passes (aligned or not)
func gofmtCases(r *hx.Rand, n int) []*kase {
	var ks []*kase
	verbs := []string{"d", "o", "x", "X", "s", "e", "f", "g", "E", "G"}
	toks := []string{"-", "+", " ", "#", "0", "*", ".", "1", "5", "12", "3", "7"}
	ints := []int64{0, 1, -1, 5, -5, 42, 255, 256, math.MaxInt64, math.MinInt64, 1000001, -1000001, 7, -6, 2, 1234, 3, 70}
	strs := []string{"", "abc", "é", "日本語", "a\xffb", "\xff", "hello world", "\x00"}
	garg := func() string {
		switch r.Intn(7) {
		case 6:
			// *big.Int (what sprintf passes for %d of a number beyond int64)
			return "B" + r.Pick([]string{"9223372036854775808", "-9223372036854775809", "1000000000000000019884624838656", "-1000000000000000019884624838656", "18446744073709551616", "0", "5", "-42"})
		case 0, 1:
			return "i" + strconv.FormatInt(ints[r.Intn(len(ints))], 10)
		case 2:
			v := uint64(ints[r.Intn(len(ints))])
			return "q" + strconv.FormatUint(v, 10)
		case 3, 4:
			return "s" + hx.HexS(r.Pick(strs))
		default:
			s := r.Pick(strs)
			if s == "" {
				s = "A"
			}
			return "b" + hx.HexS(s)
		}
	}
	ks = append(ks, &kase{op: "gofmt", origin: "gofmt", format: "<%*d|%-*x|%.*d>", gargs: []string{"i1000000", "i5", "i-1000000", "q255", "i1000000", "i7"}})
	for i := 0; i < n; i++ {
		var sb strings.Builder
		nd := 1 + r.Intn(3)
		for d := 0; d < nd; d++ {
			sb.WriteString(r.Pick([]string{"", "", "a", "%%", " x"}))
			sb.WriteString("%")
			for t := r.Intn(5); t > 0; t-- {
				sb.WriteString(r.Pick(toks))
			}
			if r.Intn(15) > 0 {
				sb.WriteString(r.Pick(verbs))
			}
		}
		k := &kase{op: "gofmt", origin: "gofmt", format: sb.String()}
		for a := r.Intn(5); a > 0; a-- {
			k.gargs = append(k.gargs, garg())
		}
		ks = append(ks, k)
	}
	return ks
}

// tameStars: a '*' argument between 5000 and 10^6 would make a legal but huge output
// (slow in the extracted model); such arguments are moved just past fmt's limit or made small.
func tameStars(k *kase) {
	dirs, st, _ := cParse(k.format)
	ai := 0
	fix := func() {
		if ai < len(k.args) {
			a := &k.args[ai]
			v := a.x
			if a.kind != 'n' {
				v = 0
			}
			if m := math.Abs(v); m > 5000 && m < 1000001 {
				if int(m)%2 == 0 {
					a.x = math.Copysign(1000001, v)
				} else {
					a.x = math.Copysign(17, v)
				}
			}
		}
		ai++
	}
	for _, d := range dirs {
		if d.conv == 0 {
			continue
		}
		if d.wStar {
			fix()
		}
		if d.pStar {
			fix()
		}
		ai++
	}
	// goawk also counts '*' characters that C's grammar does not reach: tame every numeric argument
	// of formats that contain more '*' than the C parse saw
	if strings.Count(k.format, "*") > 0 && st != cOK || strings.Count(k.format, "*") > ai {
		for i := range k.args {
			if a := &k.args[i]; a.kind == 'n' {
				if m := math.Abs(a.x); m > 5000 && m < 1000001 {
					a.x = math.Copysign(1000001, a.x)
				}
			}
		}
	}
}

// pairCases: systematic formats with 2-4 conversions — every ordered pair of conversion kinds, each
// with several arguments (numbers and strings for %c and %s, non-ASCII code points), plain, with '*'
// widths between them and with '*' precisions of both signs — in byte and character mode.  What one
// conversion does must not depend on its neighbours in the same call.
func pairCases() []*kase {
	n := func(x float64) arg { return arg{kind: 'n', x: x} }
	st := func(s string) arg { return arg{kind: 's', s: s} }
	pool := func(c string) []arg {
		switch c {
		case "c":
			return []arg{n(228), n(246), n(8364), n(128512), n(65), st("äx"), st("x")}
		case "s":
			return []arg{st("abc"), st("é"), n(3.5)}
		case "e", "E", "f", "g", "G":
			return []arg{n(2.5), n(0.1 + 0.2), n(math.Inf(1))}
		default:
			return []arg{n(42), n(-5), n(9223372036854775808)}
		}
	}
	var ks []*kase
	add := func(chars bool, f string, as ...arg) {
		ks = append(ks, &kase{op: "sprintf", origin: "pairs", chars: chars, format: f, args: append([]arg(nil), as...)})
	}
	for _, chars := range []bool{false, true} {
		for _, c1 := range convs {
			for _, c2 := range convs {
				p1, p2 := pool(c1), pool(c2)
				for i, a1 := range p1 {
					for j, a2 := range p2 {
						add(chars, "<%"+c1+"|%"+c2+">", a1, a2)
						if (i+j)%3 == 0 {
							add(chars, "<%*"+c1+"%-*"+c2+">", n(9), a1, n(-8), a2)
						}
						if (i+j)%3 == 1 && c1 != "c" && c2 != "c" {
							// two '*' precisions in one format, every sign combination
							for _, pr := range [][2]float64{{-1, -2}, {-1, 2}, {2, -1}, {3, 1}} {
								add(chars, "<%.*"+c1+"|%.*"+c2+">", n(pr[0]), a1, n(pr[1]), a2)
							}
						}
					}
				}
			}
		}
		// three and four conversions: all %c arrangements of numbers and strings, and mixed kinds
		cs := pool("c")
		for i := range cs {
			for j := range cs {
				add(chars, "%c%c%c", cs[i], cs[j], cs[(i+j+1)%len(cs)])
				add(chars, "[%c %d %c %s]", cs[i], n(7), cs[j], st("z"))
				add(chars, "%3c|%-3c|%c|%c", cs[j], cs[i], cs[(i+2)%len(cs)], cs[(j+3)%len(cs)])
			}
		}
		for _, c1 := range convs {
			for _, c2 := range convs {
				for _, c3 := range []string{"c", "d", "s", "g"} {
					add(chars, "%"+c1+" %"+c2+" %"+c3, pool(c1)[0], pool(c2)[1], pool(c3)[2])
					add(chars, "%.*"+c1+"%c%.*"+c2+"%"+c3, n(-1), pool(c1)[1], n(246), n(-3), pool(c2)[0], pool(c3)[0])
				}
			}
		}
	}
	return ks
}

// genBatches returns the case generators, one per batch (a batch is generated, run,
// compared and dropped before the next one: the exhaustive grid does not fit in memory at once).
func genBatches(o hx.Opts, r *hx.Rand) []func() []*kase {
	args := allArgs()
	thorough := o.Tier == "thorough"
	nGrid, nHostile, nMulti, nPrint, nGofmt := 14000, 3000, 1500, 600, 3000
	if o.N > 0 {
		nGrid = o.N
	}
	var bs []func() []*kase
	if thorough {
		nHostile, nMulti, nPrint, nGofmt = 150000, 60000, 20000, 150000
		// exhaustive grid, one batch per flag subset
		for fl := 0; fl < 32; fl++ {
			fl := fl
			bs = append(bs, func() []*kase {
				var ks []*kase
				for wi := range widthForms {
					for pi := range precForms {
						for ci := range convs {
							for _, a := range args {
								for _, ch := range []bool{false, true} {
									ks = append(ks, gridCase(fl, wi, pi, ci, a, ch))
								}
							}
						}
					}
				}
				return ks
			})
		}
	}
	bs = append(bs, func() []*kase {
		ks := limitCases()
		ks = append(ks, pairCases()...)
		if !thorough {
			// small systematic core: every conversion x every argument, no flags; every flag subset x conversion on a few arguments
			for ci := range convs {
				for _, a := range args {
					ks = append(ks, gridCase(0, 0, 0, ci, a, false))
				}
				for fl := 0; fl < 32; fl++ {
					for _, x := range []float64{0, 5, -5} {
						ks = append(ks, gridCase(fl, 3, 0, ci, arg{kind: 'n', x: x}, false))
					}
				}
			}
			for i := 0; i < nGrid; i++ {
				ks = append(ks, gridCase(r.Intn(32), r.Intn(len(widthForms)), r.Intn(len(precForms)), r.Intn(len(convs)), args[r.Intn(len(args))], r.Intn(3) == 0))
			}
		}
		for i := 0; i < nHostile; i++ {
			k := hostileCase(r)
			tameStars(k)
			ks = append(ks, k)
		}
		for i := 0; i < nMulti; i++ {
			k := multiCase(r)
			tameStars(k)
			ks = append(ks, k)
		}
		ks = append(ks, printCases(r, nPrint)...)
		ks = append(ks, gofmtCases(r, nGofmt)...)
		return ks
	})
	return bs
}
