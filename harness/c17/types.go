package main

import (
	"errors"
	"fmt"
	"math"
	"reflect"
	"regexp"
	"sort"
	"strconv"
	"strings"

	"github.com/benhoyt/goawk/interp"
	"github.com/benhoyt/goawk/parser"
	"verif/harness/hx"
)

// ---- user-defined types used as parameter/result types ----
type (
	MyBool    bool
	MyInt     int
	MyInt8    int8
	MyInt16   int16
	MyInt32   int32
	MyInt64   int64
	MyUint    uint
	MyUint8   uint8
	MyUint16  uint16
	MyUint32  uint32
	MyUint64  uint64
	MyFloat32 float32
	MyFloat64 float64
	MyString  string
	MyBytes   []byte
	MyBytes2  []MyUint8
	MyErr     struct{}
)

func (*MyErr) Error() string { return "myerr" }

var errorType = reflect.TypeOf((*error)(nil)).Elem()

// tspec: a Go type; Wire is the model's name of it (see ocaml/c17/driver.ml).
type tspec struct {
	Wire  string `json:"wire"`
	Label string `json:"label"` // which concrete type stands for an "o"
}

var typeTable = map[string]reflect.Type{
	"b": reflect.TypeOf(false), "i": reflect.TypeOf(int(0)), "i8": reflect.TypeOf(int8(0)), "i16": reflect.TypeOf(int16(0)),
	"i32": reflect.TypeOf(int32(0)), "i64": reflect.TypeOf(int64(0)), "u": reflect.TypeOf(uint(0)), "u8": reflect.TypeOf(uint8(0)),
	"u16": reflect.TypeOf(uint16(0)), "u32": reflect.TypeOf(uint32(0)), "u64": reflect.TypeOf(uint64(0)),
	"f32": reflect.TypeOf(float32(0)), "f64": reflect.TypeOf(float64(0)), "s": reflect.TypeOf(""),
	"b'": reflect.TypeOf(MyBool(false)), "i'": reflect.TypeOf(MyInt(0)), "i8'": reflect.TypeOf(MyInt8(0)), "i16'": reflect.TypeOf(MyInt16(0)),
	"i32'": reflect.TypeOf(MyInt32(0)), "i64'": reflect.TypeOf(MyInt64(0)), "u'": reflect.TypeOf(MyUint(0)), "u8'": reflect.TypeOf(MyUint8(0)),
	"u16'": reflect.TypeOf(MyUint16(0)), "u32'": reflect.TypeOf(MyUint32(0)), "u64'": reflect.TypeOf(MyUint64(0)),
	"f32'": reflect.TypeOf(MyFloat32(0)), "f64'": reflect.TypeOf(MyFloat64(0)), "s'": reflect.TypeOf(MyString("")),
	"[u8]'": reflect.TypeOf(MyBytes(nil)), "[u8']'": reflect.TypeOf(MyBytes2(nil)),
	"e": errorType,
}

var otherTable = map[string]reflect.Type{
	"chan": reflect.TypeOf((chan int)(nil)), "map": reflect.TypeOf(map[string]int(nil)), "struct": reflect.TypeOf(struct{ X int }{}),
	"ptr": reflect.TypeOf((*int)(nil)), "func": reflect.TypeOf(func() {}), "array": reflect.TypeOf([2]int{}),
	"complex128": reflect.TypeOf(complex128(0)), "complex64": reflect.TypeOf(complex64(0)), "uintptr": reflect.TypeOf(uintptr(0)),
	"any": reflect.TypeOf((*any)(nil)).Elem(), "errptr": reflect.TypeOf((*MyErr)(nil)),
	"stringer": reflect.TypeOf((*fmt.Stringer)(nil)).Elem(),
}

func (t tspec) rtype() reflect.Type {
	if t.Wire == "o" {
		return otherTable[t.Label]
	}
	if rt, ok := typeTable[t.Wire]; ok {
		return rt
	}
	if strings.HasPrefix(t.Wire, "[") && strings.HasSuffix(t.Wire, "]") {
		return reflect.SliceOf(tspec{Wire: t.Wire[1 : len(t.Wire)-1], Label: t.Label}.rtype())
	}
	panic("unknown type " + t.Wire)
}

func sliceOf(t tspec) tspec { return tspec{Wire: "[" + t.Wire + "]", Label: t.Label} }

var plainKinds = []string{"b", "i", "i8", "i16", "i32", "i64", "u", "u8", "u16", "u32", "u64", "f32", "f64", "s", "[u8]"}
var definedTypes = []string{"b'", "i'", "i8'", "i16'", "i32'", "i64'", "u'", "u8'", "u16'", "u32'", "u64'", "f32'", "f64'", "s'", "[u8]'", "[u8']", "[u8']'"}
var otherLabels = []string{"chan", "map", "struct", "ptr", "func", "array", "complex128", "complex64", "uintptr", "any", "errptr", "stringer"}
var badSlices = []string{"[i]", "[s]", "[[u8]]", "[u16]", "[i8]", "[b]"}

func plain(w string) tspec { return tspec{Wire: w} }

// invalidTypes: every sample type that the documentation does not list.
func invalidTypes() []tspec {
	var ts []tspec
	for _, l := range otherLabels {
		ts = append(ts, tspec{Wire: "o", Label: l})
	}
	for _, w := range badSlices {
		ts = append(ts, plain(w))
	}
	ts = append(ts, plain("e"))
	return ts
}

// kindCode: the type with every "defined" mark removed ([u8']' -> [u8]).
func kindCode(w string) string { return strings.ReplaceAll(w, "'", "") }

func isDocumentedKind(w string) bool {
	k := kindCode(w)
	for _, p := range plainKinds {
		if p == k {
			return true
		}
	}
	return false
}

// ---- Go data ----
type gdata struct {
	Tag byte    `json:"tag"` // B I U F S Y N E O
	B   bool    `json:"b,omitempty"`
	I   int64   `json:"i,omitempty"`
	U   uint64  `json:"u,omitempty"`
	F   uint64  `json:"f,omitempty"` // float64 bits
	S   string  `json:"s,omitempty"`
	ID  int     `json:"id,omitempty"` // error id, -1 = nil
}

func (d gdata) wire() string {
	switch d.Tag {
	case 'B':
		if d.B {
			return "B1"
		}
		return "B0"
	case 'I':
		return "I" + strconv.FormatInt(d.I, 10)
	case 'U':
		return "U" + strconv.FormatUint(d.U, 10)
	case 'F':
		return "F" + strconv.FormatUint(d.F, 10)
	case 'S':
		return "S" + hx.HexS(d.S)
	case 'Y':
		return "Y" + hx.HexS(d.S)
	case 'N':
		return "N"
	case 'E':
		if d.ID < 0 {
			return "E-"
		}
		return "E" + strconv.Itoa(d.ID)
	}
	return "O"
}

var errPool = []error{errors.New("e0"), errors.New("e1"), &MyErr{}, fmt.Errorf("wrapped: %w", errors.New("inner")), errors.New("")}

// toReflect builds the reflect.Value of type t carrying d.
func (d gdata) toReflect(t reflect.Type) reflect.Value {
	switch d.Tag {
	case 'B':
		return reflect.ValueOf(d.B).Convert(t)
	case 'I':
		return reflect.ValueOf(d.I).Convert(t)
	case 'U':
		return reflect.ValueOf(d.U).Convert(t)
	case 'F':
		return reflect.ValueOf(math.Float64frombits(d.F)).Convert(t)
	case 'S':
		return reflect.ValueOf(d.S).Convert(t)
	case 'Y':
		v := reflect.MakeSlice(t, len(d.S), len(d.S))
		for i := 0; i < len(d.S); i++ {
			v.Index(i).SetUint(uint64(d.S[i]))
		}
		return v
	case 'E':
		if d.ID < 0 {
			return reflect.Zero(t)
		}
		return reflect.ValueOf(errPool[d.ID])
	}
	return reflect.Zero(t) // N, O
}

// renderValue: what a recording function received, by kind and data.
func renderValue(v reflect.Value) string {
	switch v.Kind() {
	case reflect.Bool:
		if v.Bool() {
			return "b=B1"
		}
		return "b=B0"
	case reflect.Int:
		return "i=I" + strconv.FormatInt(v.Int(), 10)
	case reflect.Int8, reflect.Int16, reflect.Int32, reflect.Int64:
		return fmt.Sprintf("i%d=I%d", v.Type().Bits(), v.Int())
	case reflect.Uint:
		return "u=U" + strconv.FormatUint(v.Uint(), 10)
	case reflect.Uint8, reflect.Uint16, reflect.Uint32, reflect.Uint64:
		return fmt.Sprintf("u%d=U%d", v.Type().Bits(), v.Uint())
	case reflect.Float32:
		return "f32=F" + hx.FCanon(v.Float())
	case reflect.Float64:
		return "f64=F" + hx.FCanon(v.Float())
	case reflect.String:
		return "s=S" + hx.HexS(v.String())
	case reflect.Slice:
		if v.Type().Elem().Kind() == reflect.Uint8 {
			if v.IsNil() {
				return "[u8]=N"
			}
			return "[u8]=Y" + hx.Hex(v.Bytes())
		}
	}
	return "o=O"
}

// ---- AWK values ----
type aval struct {
	Typ int    `json:"typ"` // 0 null, 1 str, 2 num, 3 numStr
	S   string `json:"s,omitempty"`
	N   uint64 `json:"n,omitempty"` // float64 bits
}

func (a aval) num() float64 { return math.Float64frombits(a.N) }
func (a aval) wire() string {
	switch a.Typ {
	case 1:
		return "S" + hx.HexS(a.S)
	case 2:
		return "N" + strconv.FormatUint(a.N, 10)
	case 3:
		return "Z" + hx.HexS(a.S)
	}
	return "U"
}
func vnum(f float64) aval  { return aval{Typ: 2, N: math.Float64bits(f)} }
func vstr(s string) aval   { return aval{Typ: 1, S: s} }
func vnumstr(s string) aval { return aval{Typ: 3, S: s} }

// ---- function values and cases ----
type fspec struct {
	Name     string  `json:"name"`
	Kind     string  `json:"kind"` // func nil nonfunc
	Params   []tspec `json:"params"`
	Variadic bool    `json:"variadic"`
	Results  []tspec `json:"results"`
	Outs     []gdata `json:"outs"`
}

func wireTypes(ts []tspec) string {
	if len(ts) == 0 {
		return "-"
	}
	var p []string
	for _, t := range ts {
		p = append(p, t.Wire)
	}
	return strings.Join(p, ",")
}

func (f fspec) wireOuts() string {
	if len(f.Outs) == 0 {
		return "-"
	}
	var p []string
	for i, d := range f.Outs {
		p = append(p, f.Results[i].Wire+"="+d.wire())
	}
	return strings.Join(p, ",")
}

func b01(b bool) string {
	if b {
		return "1"
	}
	return "0"
}

func (f fspec) wire() string {
	switch f.Kind {
	case "nil":
		return hx.HexS(f.Name) + "~nil"
	case "nonfunc":
		return hx.HexS(f.Name) + "~nonfunc"
	}
	return hx.HexS(f.Name) + "~func~" + wireTypes(f.Params) + "~" + b01(f.Variadic) + "~" + wireTypes(f.Results) + "~" + f.wireOuts()
}

type kase struct {
	Route   string   `json:"route"` // "call" (hook: initNativeFuncs+callNative) or "run" (ParseProgram+ExecProgram)
	Funcs   []fspec  `json:"funcs"` // Funcs[0] is the target
	AwkDef  bool     `json:"awkdef"`  // an AWK function with the target's name is defined too
	Args    []aval   `json:"args"`
	ConvFmt string   `json:"convfmt"`
	// Route "hist": ParseProgram with Funcs, interp.New once, then one Execute per element of Maps;
	// a nil element is the parser's own map (the same Go map value), any other a different map.
	Maps [][]fspec `json:"maps,omitempty"`
}

func (c *kase) rebuild()       {}
func (c kase) target() fspec   { return c.Funcs[0] }

// fixed helper functions of the run route (part of the Funcs map, hence of the index assignment)
var helperFuncs = []fspec{
	{Name: "N", Kind: "func", Params: []tspec{plain("i")}, Results: []tspec{plain("f64")}, Outs: []gdata{{Tag: 'F'}}},
	{Name: "S", Kind: "func", Params: []tspec{plain("i")}, Results: []tspec{plain("s")}, Outs: []gdata{{Tag: 'S'}}},
	{Name: "OBS", Kind: "func", Params: []tspec{plain("s"), plain("f64"), plain("b")}},
}

func (c kase) allFuncs() []fspec {
	if c.Route == "call" {
		return c.Funcs[:1]
	}
	return append(append([]fspec{}, c.Funcs...), helperFuncs...)
}

// views: the three primitives on every string/number that the model may ask about.
func (c kase) views() string {
	seen := map[string]bool{}
	var vs []string
	add := func(v string) {
		if !seen[v] {
			seen[v] = true
			vs = append(vs, v)
		}
	}
	addStr := func(s string) {
		add("P" + hx.HexS(s) + "/" + hx.FBits(interp.VerifParseFloatPrefix(s)))
		if f, ok := interp.VerifParseFloat(s); ok {
			add("Q" + hx.HexS(s) + "/" + hx.FBits(f))
		} else {
			add("Q" + hx.HexS(s) + "/_")
		}
	}
	addNum := func(f float64) {
		if !math.IsNaN(f) && !math.IsInf(f, 0) {
			add("M" + hx.FBits(f) + "/" + hx.HexS(interp.VerifNumStr(f, c.ConvFmt)))
		}
	}
	for _, a := range c.Args {
		switch a.Typ {
		case 1, 3:
			addStr(a.S)
		case 2:
			addNum(a.num())
		}
	}
	// the result is observed through a string, a float64 and a bool parameter
	targets := []fspec{c.target()}
	for _, m := range c.Maps {
		for _, f := range m {
			if f.Name == c.target().Name {
				targets = append(targets, f)
			}
		}
	}
	for _, t := range targets {
		if len(t.Outs) == 0 {
			continue
		}
		d := t.Outs[0]
		switch d.Tag {
		case 'S', 'Y':
			addStr(d.S)
		case 'N':
			addStr("")
		case 'F':
			addNum(math.Float64frombits(d.F))
		case 'I':
			addNum(float64(d.I))
		case 'U':
			addNum(float64(d.U))
		}
	}
	if len(vs) == 0 {
		return "-"
	}
	return strings.Join(vs, ",")
}

func (c kase) wireArgs() string {
	if len(c.Args) == 0 {
		return "-"
	}
	var p []string
	for _, a := range c.Args {
		p = append(p, a.wire())
	}
	return strings.Join(p, ",")
}

func (c kase) line() string {
	t := c.target()
	if c.Route == "call" {
		if t.Kind != "func" {
			// the hook route with a non-function value: expressed as a run without a call
			return "driver-error call-route-needs-func"
		}
		return strings.Join([]string{"call", c.views(), hx.HexS(t.Name), wireTypes(t.Params), b01(t.Variadic), wireTypes(t.Results), t.wireOuts(), c.wireArgs()}, " ")
	}
	var fs []string
	for _, f := range c.allFuncs() {
		fs = append(fs, f.wire())
	}
	awk := "-"
	if c.AwkDef {
		awk = hx.HexS(t.Name)
	}
	if c.Route == "hist" {
		var ms []string
		for _, m := range c.Maps {
			ms = append(ms, wireFuncs(c.stepFuncs(m)))
		}
		return strings.Join([]string{"hist", c.views(), strings.Join(fs, "|"), awk, hx.HexS(t.Name), c.wireArgs(), strings.Join(ms, "^")}, " ")
	}
	return strings.Join([]string{"run", c.views(), strings.Join(fs, "|"), awk, hx.HexS(t.Name), c.wireArgs()}, " ")
}

func (c kase) describe() string {
	t := c.target()
	var as []string
	for _, a := range c.Args {
		switch a.Typ {
		case 0:
			as = append(as, "unset")
		case 1:
			as = append(as, fmt.Sprintf("str %q", a.S))
		case 2:
			as = append(as, fmt.Sprintf("num %v", a.num()))
		case 3:
			as = append(as, fmt.Sprintf("numstr %q", a.S))
		}
	}
	d := fmt.Sprintf("%s route, Funcs[%q] = ", c.Route, t.Name)
	switch t.Kind {
	case "nil":
		d += "nil"
	case "nonfunc":
		d += "42"
	default:
		d += t.goSig()
	}
	d += fmt.Sprintf(", called with (%s)", strings.Join(as, ", "))
	if len(c.Funcs) > 1 {
		var ns []string
		for _, f := range c.Funcs[1:] {
			ns = append(ns, f.Name)
		}
		d += " next to " + strings.Join(ns, ",")
	}
	if c.AwkDef {
		d += " and an AWK function of the same name"
	}
	if c.ConvFmt != "%.6g" {
		d += " CONVFMT=" + c.ConvFmt
	}
	if c.Route == "hist" {
		d += "; interp.New once, then Execute with"
		for j, m := range c.Maps {
			if m == nil {
				d += fmt.Sprintf(" [%d] the same map", j+1)
				continue
			}
			var ns []string
			for _, f := range m {
				x := f.Name + "="
				switch f.Kind {
				case "nil":
					x += "nil"
				case "nonfunc":
					x += "42"
				default:
					x += f.goSig()
				}
				ns = append(ns, x)
			}
			d += fmt.Sprintf(" [%d] another map {%s}", j+1, strings.Join(ns, ", "))
		}
	}
	return d
}

func (f fspec) goSig() string {
	defer func() { recover() }()
	return f.funcType().String()
}

func (f fspec) funcType() reflect.Type {
	in := make([]reflect.Type, len(f.Params))
	for i, p := range f.Params {
		in[i] = p.rtype()
	}
	out := make([]reflect.Type, len(f.Results))
	for i, p := range f.Results {
		out[i] = p.rtype()
	}
	return reflect.FuncOf(in, out, f.Variadic)
}

// recorder: what the functions of one run observed
type recorder struct {
	called []string // names of the recording functions that ran, in order
	recv   string
	obs    string
	obsSet bool
}

// goValue builds the Go value stored in the Funcs map for f.
func (f fspec) goValue(rec *recorder, c *kase) any {
	switch f.Kind {
	case "nil":
		return nil
	case "nonfunc":
		return 42
	}
	ft := f.funcType()
	return reflect.MakeFunc(ft, func(args []reflect.Value) []reflect.Value {
		rec.called = append(rec.called, f.Name)
		var parts []string
		for i, a := range args {
			if f.Variadic && i == len(args)-1 {
				for j := 0; j < a.Len(); j++ {
					parts = append(parts, renderValue(a.Index(j)))
				}
			} else {
				parts = append(parts, renderValue(a))
			}
		}
		rec.recv = "-"
		if len(parts) > 0 {
			rec.recv = strings.Join(parts, ",")
		}
		outs := make([]reflect.Value, len(f.Results))
		for i := range outs {
			outs[i] = f.Outs[i].toReflect(ft.Out(i))
		}
		return outs
	}).Interface()
}

// ---- the run route: one AWK program per case ----
func (c kase) program() (src, stdin string) {
	t := c.target()
	var exprs, fields []string
	nu := 0
	for i, a := range c.Args {
		switch a.Typ {
		case 0:
			nu++
			exprs = append(exprs, fmt.Sprintf("unset%d", nu))
		case 1:
			exprs = append(exprs, fmt.Sprintf("S(%d)", i))
		case 2:
			exprs = append(exprs, fmt.Sprintf("N(%d)", i))
		case 3:
			fields = append(fields, a.S)
			exprs = append(exprs, fmt.Sprintf("$%d", len(fields)))
		}
	}
	fields = append(fields, "x")
	stdin = strings.Join(fields, "|") + "\n"
	src = fmt.Sprintf("{ r = %s(%s); OBS(r, r, r) }", t.Name, strings.Join(exprs, ", "))
	if c.AwkDef {
		src = fmt.Sprintf("function %s(p1_, p2_, p3_, p4_, p5_, p6_) { return \"awk\" }\n", t.Name) + src
	}
	return
}

type implResult struct {
	kind   string // ok run-error setup-error parse-error awkfunc panic other
	detail string
	recv   string
	value  string // typed result (call route)
	obs    string // what OBS received (run route)
	raw    string // message for humans
	called []string
	steps  []implResult // route hist: one per Execute (or the single parse outcome, with parseOnly)
	parseOnly bool
}

func (r implResult) cmp(route string) string {
	if route == "hist" {
		var p []string
		for _, s := range r.steps {
			p = append(p, s.cmp("run"))
		}
		if r.parseOnly {
			return "parse " + strings.Join(p, " ; ")
		}
		return "steps " + strings.Join(p, " ; ")
	}
	switch r.kind {
	case "ok":
		if route == "call" {
			return "ok " + r.recv + " " + r.value
		}
		return "ok " + r.recv + " " + r.obs
	case "run-error":
		return "run-error " + r.detail + " " + r.recv
	case "awkfunc":
		return "awkfunc"
	}
	return r.kind + " " + r.detail
}

// modelCmp brings the model's answer to the same shape (the run route cannot see the type
// of the result value, only what the three observer parameters receive).
func modelCmp(route, m string) string {
	if route == "hist" {
		head, rest, _ := strings.Cut(m, " ")
		var p []string
		for _, s := range strings.Split(rest, " ; ") {
			p = append(p, modelCmp("run", s))
		}
		return head + " " + strings.Join(p, " ; ")
	}
	f := strings.Fields(m)
	if route == "run" && len(f) == 4 && f[0] == "ok" {
		return "ok " + f[1] + " " + f[3]
	}
	return m
}

var reSetup = []struct {
	re   *regexp.Regexp
	code string
}{
	{regexp.MustCompile(`^can't use keyword "(.*)" as native function name$`), "keyword"},
	{regexp.MustCompile(`^native function "(.*)" is not a function$`), "notfunc"},
	{regexp.MustCompile(`^native function "(.*)" param (\d+) is not int or string$`), "param"},
	{regexp.MustCompile(`^native function "(.*)" return value is not int or string$`), "return"},
	{regexp.MustCompile(`^native function "(.*)" first return value is not int or string$`), "firstreturn"},
	{regexp.MustCompile(`^native function "(.*)" second return value is not an error$`), "seconderror"},
	{regexp.MustCompile(`^native function "(.*)" returns more than two values$`), "toomanyresults"},
}

func classifySetup(msg string) (name, code string, ok bool) {
	for _, p := range reSetup {
		if m := p.re.FindStringSubmatch(msg); m != nil {
			code = p.code
			if code == "param" {
				code += ":" + m[2]
			}
			return m[1], code, true
		}
	}
	return "", "", false
}

func classifyPanic(p any) string {
	s := fmt.Sprint(p)
	switch {
	case strings.Contains(s, "unexpected argument type"):
		return "argtype"
	case strings.Contains(s, "unexpected argument slice"):
		return "argslice"
	case strings.Contains(s, "unexpected return type"):
		return "rettype"
	case strings.Contains(s, "unexpected return slice"):
		return "retslice"
	case strings.Contains(s, "unexpected number of return values"):
		return "numout"
	case strings.Contains(s, "reflect: Call using") || strings.Contains(s, "reflect: cannot use"):
		return "callassign"
	case strings.Contains(s, "reflect.Value.Convert"):
		return "convert"
	case strings.Contains(s, "reflect: Call with too"):
		return "callarity"
	case strings.Contains(s, "NumIn of non-func"):
		return "nonfunc"
	case strings.Contains(s, "is string, not *ast.PositionError"):
		return "nonfunc" // the parser's recover re-panics; the original value was reflect's string
	case strings.Contains(s, "nil pointer dereference"), strings.Contains(s, "is runtime.errorString, not *ast.PositionError"),
		strings.Contains(s, "is runtime.Error, not *ast.PositionError"):
		return "niltype"
	case strings.Contains(s, "index out of range"):
		return "index"
	}
	return "unclassified:" + s
}

func errID(err error) int {
	for i, e := range errPool {
		if err == e {
			return i
		}
	}
	return -1
}

func runImpl(c kase) (res implResult) {
	rec := &recorder{recv: "-"}
	funcs := map[string]any{}
	for _, f := range c.allFuncs() {
		funcs[f.Name] = f.goValue(rec, &c)
	}
	defer func() {
		if p := recover(); p != nil {
			res = implResult{kind: "panic", detail: classifyPanic(p), raw: fmt.Sprint(p), called: rec.called}
		}
	}()
	t := c.target()
	if c.Route == "hist" {
		return runHist(c)
	}
	if c.Route == "call" {
		args := make([]interp.VerifValue, len(c.Args))
		for i, a := range c.Args {
			args[i] = interp.VerifValue{Typ: a.Typ, S: a.S, N: a.num()}
		}
		v, setupErr, callErr := interp.VerifCallNative(funcs, c.ConvFmt, t.Name, args)
		if setupErr != nil {
			_, code, ok := classifySetup(setupErr.Error())
			if _, isErr := setupErr.(*interp.Error); !ok || !isErr {
				return implResult{kind: "other", detail: hx.HexS(setupErr.Error()), raw: setupErr.Error()}
			}
			return implResult{kind: "setup-error", detail: code, raw: setupErr.Error()}
		}
		if callErr != nil {
			return implResult{kind: "run-error", detail: strconv.Itoa(errID(callErr)), recv: rec.recv, raw: callErr.Error(), called: rec.called}
		}
		var val string
		switch v.Typ {
		case 0:
			val = "null"
		case 1:
			val = "s" + hx.HexS(v.S)
		case 2:
			val = "n" + hx.FCanon(v.N)
		case 3:
			val = "z" + hx.HexS(v.S)
		}
		return implResult{kind: "ok", recv: rec.recv, value: val, called: rec.called}
	}

	// run route
	funcs["N"] = func(i int) float64 { return c.Args[i].num() }
	funcs["S"] = func(i int) string { return c.Args[i].S }
	funcs["OBS"] = func(s string, f float64, b bool) {
		rec.obs = "S" + hx.HexS(s) + "/F" + hx.FCanon(f) + "/B" + b01(b)
		rec.obsSet = true
	}
	src, stdin := c.program()
	cfg := &interp.Config{Funcs: funcs, Environ: []string{}, Stdin: strings.NewReader(stdin), Vars: []string{"FS", "|", "CONVFMT", c.ConvFmt}}
	rr := hx.RunAwk(src, cfg, &parser.ParserConfig{Funcs: funcs})
	return classifyRun(c, rec, rr.Panic, rr.Err, string(rr.Out))
}

// classifyRun turns what one ParseProgram/Execute returned into an implResult.
func classifyRun(c kase, rec *recorder, pnc any, err error, out string) implResult {
	if pnc != nil {
		return implResult{kind: "panic", detail: classifyPanic(pnc), raw: fmt.Sprint(pnc), called: rec.called}
	}
	if err != nil {
		msg := err.Error()
		switch e := err.(type) {
		case *parser.ParseError:
			switch {
			case strings.Contains(e.Message, "called with more arguments than declared"):
				return implResult{kind: "parse-error", detail: "toomany", raw: msg}
			case strings.Contains(e.Message, "undefined function"):
				return implResult{kind: "parse-error", detail: "undefined", raw: msg}
			case strings.HasPrefix(e.Message, "native function") && strings.HasSuffix(e.Message, "is not a function"):
				return implResult{kind: "parse-error", detail: "notfunc", raw: msg}
			}
			return implResult{kind: "parse-error", detail: "other:" + hx.HexS(e.Message), raw: msg}
		case *interp.Error:
			if name, code, ok := classifySetup(msg); ok {
				return implResult{kind: "setup-error", detail: hx.HexS(name) + " " + code, raw: msg}
			}
		}
		if id := errID(err); id >= 0 {
			return implResult{kind: "run-error", detail: strconv.Itoa(id), recv: rec.recv, raw: msg, called: rec.called}
		}
		return implResult{kind: "other", detail: hx.HexS(msg), raw: msg, called: rec.called}
	}
	if c.AwkDef {
		if len(rec.called) == 0 && rec.obs == "S"+hx.HexS("awk")+"/F0:0/B1" {
			return implResult{kind: "awkfunc", called: rec.called}
		}
		return implResult{kind: "other", detail: "awk-function-did-not-take-precedence", raw: rec.obs, called: rec.called}
	}
	if !rec.obsSet {
		return implResult{kind: "other", detail: "no-observation", raw: out, called: rec.called}
	}
	return implResult{kind: "ok", recv: rec.recv, obs: rec.obs, called: rec.called}
}

func sortedNames(fs []fspec) []string {
	var ns []string
	for _, f := range fs {
		ns = append(ns, f.Name)
	}
	sort.Strings(ns)
	return ns
}
