package main

import (
	"math"

	"verif/harness/hx"
)

var hostileNums = []float64{
	0, math.Copysign(0, -1), 1, -1, 2, 0.5, -0.5, 3.99, -3.99, 0.1, 123456.789, 1e-300, 5e-324,
	127, 128, -128, -129, 255, 256, 32767, 32768, -32768, -32769, 65535, 65536, 65543,
	2147483647, 2147483648, 2147483648.5, -2147483648, -2147483648.5, -2147483649, 4294967295, 4294967296, 4294967301,
	9007199254740992, 9007199254740994, 9223372036854774784, 9223372036854775808, -9223372036854775808, -9223372036854777856,
	18446744073709551615, 18446744073709551616, 1e19, 1.2e19, 18446744073709549568, 1e30, -1e30, math.NaN(), math.Inf(1), math.Inf(-1),
	// float32 rounding: ties, overflow boundary, subnormals
	16777216, 16777217, 16777219, 16777218.5, 3.4028234663852886e38, 3.4028235677973366e38, 3.40282356779733e38, 3.5e38, -3.5e38,
	1e-46, 7.006492321624085e-46, 7.1e-46, 1.401298464324817e-45, 2.1019476964872256e-45, 1.1754943508222875e-38, 1.1754942e-38, 1e39, 0.30000000000000004,
}

var hostileStrs = []string{
	"", "abc", "0", "1", "12", " 12 ", "3.7xyz", "-5", "+7", "1e3", "0.0", "256", "-1", ".5", "x1", "3e", "-", ".", "\xc3\xa9", "\xff",
	"2147483648", "1e30", "-129", "65536", " 0 ", "+0", "0e5", "-3.99", "4294967301", "9223372036854775808", "1.5", "255", "\t42\n", "x",
	// exotic (the oracle has no opinion on their number; the model gets it from parseFloatPrefix)
	"0x1A", "0x", "nan", "inf", "-inf", "+nan", "-nan", "1_000", "1e400", "-0", "1e+", "0x1p4", "infinity", "nanx", "+", "1e-400", "١٢", "0b11", "1,5", "  +.5e1z",
}

var namePool = []string{"f", "g", "F", "a1", "_x", "zzz", "fa", "f_", "Z", "B9", "ff", "G", "a", "z", "_", "f1", "f10", "f2", "Na", "Sx", "OBSx", "M", "R", "T_"}

var keywordNames = []string{"BEGIN", "END", "atan2", "break", "close", "continue", "cos", "delete", "do", "else", "exit", "exp", "fflush", "for",
	"function", "getline", "gsub", "if", "in", "index", "int", "length", "log", "match", "next", "nextfile", "print", "printf", "rand", "return",
	"sin", "split", "sprintf", "sqrt", "srand", "sub", "substr", "system", "tolower", "toupper", "while"}

var convFmts = []string{"%.6g", "%.6g", "%.6g", "%.2f", "%d", "%.12g", "%5.1e"}

// result data pools by kind code
func outPool(k string) []gdata {
	f := func(x float64) gdata { return gdata{Tag: 'F', F: math.Float64bits(x)} }
	switch k {
	case "b":
		return []gdata{{Tag: 'B', B: true}, {Tag: 'B', B: false}}
	case "i", "i64":
		return []gdata{{Tag: 'I', I: 0}, {Tag: 'I', I: 1}, {Tag: 'I', I: -7}, {Tag: 'I', I: math.MaxInt64}, {Tag: 'I', I: math.MinInt64},
			{Tag: 'I', I: 9007199254740993}, {Tag: 'I', I: -9007199254740995}, {Tag: 'I', I: 9223372036854775295}, {Tag: 'I', I: 4611686018427387905}}
	case "i8":
		return []gdata{{Tag: 'I', I: 0}, {Tag: 'I', I: -128}, {Tag: 'I', I: 127}}
	case "i16":
		return []gdata{{Tag: 'I', I: 5}, {Tag: 'I', I: -32768}, {Tag: 'I', I: 32767}}
	case "i32":
		return []gdata{{Tag: 'I', I: 0}, {Tag: 'I', I: -2147483648}, {Tag: 'I', I: 2147483647}}
	case "u", "u64":
		return []gdata{{Tag: 'U', U: 0}, {Tag: 'U', U: 42}, {Tag: 'U', U: math.MaxUint64}, {Tag: 'U', U: 9223372036854775808 + 1025},
			{Tag: 'U', U: 9223372036854775808 + 1024}, {Tag: 'U', U: 9007199254740993}, {Tag: 'U', U: 18446744073709550591}, {Tag: 'U', U: 18446744073709550592}}
	case "u8":
		return []gdata{{Tag: 'U', U: 0}, {Tag: 'U', U: 255}}
	case "u16":
		return []gdata{{Tag: 'U', U: 7}, {Tag: 'U', U: 65535}}
	case "u32":
		return []gdata{{Tag: 'U', U: 0}, {Tag: 'U', U: 4294967295}}
	case "f32":
		return []gdata{f(0), f(1.5), f(-2.25), f(float64(float32(0.1))), f(math.MaxFloat32), f(math.SmallestNonzeroFloat32), f(math.Inf(1)), f(math.NaN()), f(16777216)}
	case "f64":
		return []gdata{f(0), f(1.5), f(-2.25), f(0.1), f(1e30), f(-1e30), f(math.NaN()), f(math.Inf(-1)), f(5e-324), f(9223372036854775808), f(-9223372036854775808), f(123456789), f(1e6), f(1234567.5)}
	case "s":
		return []gdata{{Tag: 'S', S: ""}, {Tag: 'S', S: "abc"}, {Tag: 'S', S: "12"}, {Tag: 'S', S: "3.7xyz"}, {Tag: 'S', S: " 12 "}, {Tag: 'S', S: "\xff"}, {Tag: 'S', S: "0"}, {Tag: 'S', S: "0x1A"}, {Tag: 'S', S: "nan"}}
	case "[u8]":
		return []gdata{{Tag: 'N'}, {Tag: 'Y', S: ""}, {Tag: 'Y', S: "abc"}, {Tag: 'Y', S: "42"}, {Tag: 'Y', S: "0"}}
	case "e":
		return []gdata{{Tag: 'E', ID: -1}}
	}
	return []gdata{{Tag: 'O'}}
}

func allArgValues() []aval {
	var vs []aval
	vs = append(vs, aval{Typ: 0})
	for _, x := range hostileNums {
		vs = append(vs, vnum(x))
	}
	for _, s := range hostileStrs {
		vs = append(vs, vstr(s), vnumstr(s))
	}
	return vs
}

func fieldSafe(s string) bool {
	for i := 0; i < len(s); i++ {
		if s[i] == '|' || s[i] == '\n' {
			return false
		}
	}
	return true
}

func randArg(r *hx.Rand, route string) aval {
	switch r.Intn(10) {
	case 0:
		return aval{Typ: 0}
	case 1, 2, 3, 4:
		if r.Intn(4) == 0 {
			return vnum(math.Float64frombits(r.U64()))
		}
		if r.Intn(4) == 0 {
			return vnum(float64(r.Intn(700)-350) / 4)
		}
		return vnum(r.PickF(hostileNums))
	case 5, 6, 7:
		return vstr(r.Pick(hostileStrs))
	default:
		for {
			s := r.Pick(hostileStrs)
			if route == "call" || fieldSafe(s) {
				return vnumstr(s)
			}
		}
	}
}

func mkFunc(name string, params []tspec, variadic bool, results []tspec, r *hx.Rand, errID int) fspec {
	f := fspec{Name: name, Kind: "func", Params: params, Variadic: variadic, Results: results}
	for i, t := range results {
		if i == 1 && t.Wire == "e" {
			f.Outs = append(f.Outs, gdata{Tag: 'E', ID: errID})
			continue
		}
		pool := outPool(kindCode(t.Wire))
		f.Outs = append(f.Outs, pool[r.Intn(len(pool))])
	}
	return f
}

func validDistractor(r *hx.Rand, name string) fspec {
	n := r.Intn(3)
	var ps []tspec
	for i := 0; i < n; i++ {
		ps = append(ps, plain(r.Pick(plainKinds)))
	}
	var rs []tspec
	if r.Bool() {
		rs = append(rs, plain(r.Pick(plainKinds)))
	}
	return mkFunc(name, ps, false, rs, r, -1)
}

func pickNames(r *hx.Rand, n int) []string {
	perm := append([]string{}, namePool...)
	for i := len(perm) - 1; i > 0; i-- {
		j := r.Intn(i + 1)
		perm[i], perm[j] = perm[j], perm[i]
	}
	return perm[:n]
}

func genCases(o hx.Opts, r *hx.Rand) []kase {
	var ks []kase
	add := func(route string, funcs []fspec, awk bool, args []aval, cf string) {
		if route == "run" {
			tooMany := funcs[0].Kind == "func" && !funcs[0].Variadic && len(args) > len(funcs[0].Params)
			for i, a := range args {
				if a.Typ == 3 && !fieldSafe(a.S) {
					if tooMany || funcs[0].Kind != "func" || awk {
						args = append([]aval{}, args...)
						args[i] = vstr(a.S) // cannot be a field of the run route; the hook route keeps to reachable calls
					} else {
						route = "call"
					}
				}
			}
		}
		if route == "call" && (funcs[0].Kind != "func" || awk) {
			route = "run"
		}
		if route == "call" {
			funcs = funcs[:1]
		}
		ks = append(ks, kase{Route: route, Funcs: funcs, AwkDef: awk, Args: args, ConvFmt: cf})
	}
	both := func(funcs []fspec, args []aval, cf string) {
		add("call", funcs, false, args, cf)
		add("run", funcs, false, args, cf)
	}
	vals := allArgValues()

	// A. every documented kind x every hostile value (one parameter), both routes
	for _, k := range plainKinds {
		for _, v := range vals {
			f := mkFunc("f", []tspec{plain(k)}, false, nil, r, -1)
			both([]fspec{f}, []aval{v}, "%.6g")
		}
		// string kinds under other CONVFMTs, for the non-integral numbers
		if k == "s" || k == "[u8]" {
			for _, cf := range convFmts[3:] {
				for _, x := range hostileNums {
					both([]fspec{mkFunc("f", []tspec{plain(k)}, false, nil, r, -1)}, []aval{vnum(x)}, cf)
				}
			}
		}
		// the same as the variadic element
		for i := 0; i < 12; i++ {
			f := mkFunc("f", []tspec{sliceOf(plain(k))}, true, nil, r, -1)
			both([]fspec{f}, []aval{vals[r.Intn(len(vals))], vals[r.Intn(len(vals))], vals[r.Intn(len(vals))]}, "%.6g")
		}
	}

	// B. every result kind x every datum x {one result, (result, nil error), (result, error)}
	for _, k := range plainKinds {
		for _, d := range outPool(k) {
			for mode := 0; mode < 3; mode++ {
				f := fspec{Name: "g", Kind: "func", Results: []tspec{plain(k)}, Outs: []gdata{d}}
				if mode >= 1 {
					f.Results = append(f.Results, plain("e"))
					id := -1
					if mode == 2 {
						id = r.Intn(len(errPool))
					}
					f.Outs = append(f.Outs, gdata{Tag: 'E', ID: id})
				}
				both([]fspec{f}, nil, "%.6g")
				both([]fspec{f}, nil, "%.2f")
			}
		}
	}

	// C. every signature of 0..2 parameters over the documented kinds, variadic or not, 0..4 arguments
	resultShapes := func(r *hx.Rand) ([]tspec, int) {
		switch r.Intn(4) {
		case 0:
			return nil, -1
		case 1:
			return []tspec{plain(r.Pick(plainKinds))}, -1
		case 2:
			return []tspec{plain(r.Pick(plainKinds)), plain("e")}, -1
		}
		return []tspec{plain(r.Pick(plainKinds)), plain("e")}, r.Intn(len(errPool))
	}
	var sigs [][]string
	sigs = append(sigs, []string{})
	for _, a := range plainKinds {
		sigs = append(sigs, []string{a})
		for _, b := range plainKinds {
			sigs = append(sigs, []string{a, b})
		}
	}
	nThree := 300
	if o.Tier == "thorough" {
		nThree = 3375
	}
	for i := 0; i < nThree; i++ {
		if o.Tier == "thorough" {
			sigs = append(sigs, []string{plainKinds[i/225], plainKinds[i/15%15], plainKinds[i%15]})
		} else {
			sigs = append(sigs, []string{r.Pick(plainKinds), r.Pick(plainKinds), r.Pick(plainKinds)})
		}
	}
	for _, sg := range sigs {
		for _, variadic := range []bool{false, true} {
			if variadic && len(sg) == 0 {
				continue
			}
			for nargs := 0; nargs <= 4; nargs++ {
				var ps []tspec
				for i, k := range sg {
					if variadic && i == len(sg)-1 {
						ps = append(ps, sliceOf(plain(k)))
					} else {
						ps = append(ps, plain(k))
					}
				}
				rs, id := resultShapes(r)
				route := "run"
				if r.Intn(3) == 0 {
					route = "call"
				}
				var args []aval
				for i := 0; i < nargs; i++ {
					args = append(args, randArg(r, route))
				}
				names := pickNames(r, 1+r.Intn(3))
				funcs := []fspec{mkFunc(names[0], ps, variadic, rs, r, id)}
				for _, n := range names[1:] {
					funcs = append(funcs, validDistractor(r, n))
				}
				if route == "call" && !variadic && nargs > len(ps) {
					route = "run" // unreachable from AWK; the hook route keeps to reachable calls
				}
				add(route, funcs, false, args, r.Pick(convFmts))
			}
		}
	}

	// D. invalid shapes: every undocumented type in every position; result count; keyword names; non-functions
	one := []aval{vnum(1)}
	for _, it := range invalidTypes() {
		for pos := 0; pos < 3; pos++ {
			ps := []tspec{plain("i"), plain("s"), plain("f64")}
			ps[pos] = it
			both([]fspec{mkFunc("f", ps, false, []tspec{plain("i")}, r, -1)}, one, "%.6g")
			both([]fspec{mkFunc("f", ps[:pos+1], false, nil, r, -1)}, nil, "%.6g")
		}
		both([]fspec{mkFunc("f", []tspec{plain("i"), sliceOf(it)}, true, nil, r, -1)}, []aval{vnum(1), vnum(2), vnum(3)}, "%.6g")
		both([]fspec{mkFunc("f", []tspec{sliceOf(it)}, true, nil, r, -1)}, nil, "%.6g")
		both([]fspec{mkFunc("f", []tspec{plain("i")}, false, []tspec{it}, r, -1)}, one, "%.6g")
		both([]fspec{mkFunc("f", []tspec{plain("i")}, false, []tspec{it, plain("e")}, r, -1)}, one, "%.6g")
		both([]fspec{mkFunc("f", []tspec{plain("i")}, false, []tspec{plain("i"), it}, r, -1)}, one, "%.6g")
		// as a function that is never called
		add("run", []fspec{mkFunc("f", []tspec{plain("i")}, false, nil, r, -1), mkFunc("g", []tspec{it}, false, nil, r, -1)}, false, one, "%.6g")
		// together with too many arguments
		add("run", []fspec{mkFunc("f", []tspec{it}, false, nil, r, -1)}, false, []aval{vnum(1), vnum(2)}, "%.6g")
	}
	for _, k := range plainKinds {
		// a documented kind as second result instead of error; three and four results
		both([]fspec{mkFunc("f", nil, false, []tspec{plain("i"), plain(k)}, r, -1)}, nil, "%.6g")
		both([]fspec{mkFunc("f", nil, false, []tspec{plain(k), plain("i"), plain("e")}, r, -1)}, nil, "%.6g")
		both([]fspec{mkFunc("f", nil, false, []tspec{plain(k), plain(k), plain(k), plain("e")}, r, -1)}, nil, "%.6g")
	}
	for _, kw := range keywordNames {
		good := mkFunc("f", []tspec{plain("i")}, false, []tspec{plain("i")}, r, -1)
		add("run", []fspec{good, mkFunc(kw, []tspec{plain("i")}, false, []tspec{plain("i")}, r, -1)}, false, one, "%.6g")
		add("call", []fspec{mkFunc(kw, []tspec{plain("i")}, false, []tspec{plain("i")}, r, -1)}, false, one, "%.6g")
		add("run", []fspec{good, {Name: kw, Kind: "nonfunc"}}, false, one, "%.6g")
		add("run", []fspec{good, {Name: kw, Kind: "nil"}}, false, one, "%.6g")
	}
	for _, kind := range []string{"nil", "nonfunc"} {
		for nargs := 0; nargs <= 2; nargs++ {
			var args []aval
			for i := 0; i < nargs; i++ {
				args = append(args, vnum(float64(i)))
			}
			add("run", []fspec{{Name: "f", Kind: kind}}, false, args, "%.6g")                                                          // called
			add("run", []fspec{{Name: "f", Kind: kind}}, true, args, "%.6g")                                                           // shadowed by an AWK function
			add("run", []fspec{mkFunc("g", []tspec{plain("i"), plain("i")}, false, nil, r, -1), {Name: "f", Kind: kind}}, false, args, "%.6g") // not called
			add("run", []fspec{mkFunc("g", []tspec{plain("i"), plain("i")}, false, nil, r, -1), {Name: "zz", Kind: kind}, validDistractor(r, "a")}, false, args, "%.6g")
		}
	}

	// E. user-defined types of documented kinds, in every position
	for _, dt := range definedTypes {
		t := plain(dt)
		for nargs := 0; nargs <= 2; nargs++ {
			var args []aval
			for i := 0; i < nargs; i++ {
				args = append(args, vals[r.Intn(len(vals))])
			}
			both([]fspec{mkFunc("f", []tspec{t}, false, nil, r, -1)}, args[:min(nargs, 1)], "%.6g")
			both([]fspec{mkFunc("f", []tspec{plain("s"), t}, false, []tspec{plain("i")}, r, -1)}, args, "%.6g")
			both([]fspec{mkFunc("f", []tspec{sliceOf(t)}, true, nil, r, -1)}, args, "%.6g")
		}
		for _, d := range outPool(kindCode(dt)) {
			both([]fspec{{Name: "f", Kind: "func", Results: []tspec{t}, Outs: []gdata{d}}}, nil, "%.6g")
			both([]fspec{{Name: "f", Kind: "func", Results: []tspec{t, plain("e")}, Outs: []gdata{d, {Tag: 'E', ID: -1}}}}, nil, "%.6g")
		}
	}

	// F. index assignment: name sets of every size, each member called in turn; AWK functions of the same name
	for n := 1; n <= 8; n++ {
		for rep := 0; rep < 6; rep++ {
			names := pickNames(r, n)
			var fs []fspec
			for _, nm := range names {
				fs = append(fs, validDistractor(r, nm))
			}
			for i := range fs {
				funcs := append([]fspec{fs[i]}, append(append([]fspec{}, fs[:i]...), fs[i+1:]...)...)
				var args []aval
				for j := 0; j < r.Intn(len(fs[i].Params)+1); j++ {
					args = append(args, randArg(r, "run"))
				}
				add("run", funcs, false, args, "%.6g")
				if rep == 0 {
					add("run", funcs, true, args, "%.6g")
				}
			}
		}
	}

	// H. histories: interp.New once, Execute 1..3 times (see hist.go)
	ks = append(ks, genHistories(o, r)...)

	// G. random
	n := o.N
	if n == 0 {
		n = 6000
		if o.Tier == "thorough" {
			n = 400000
		}
	}
	pickType := func() tspec {
		switch x := r.Intn(40); {
		case x == 0:
			return plain(r.Pick(definedTypes))
		case x == 1:
			its := invalidTypes()
			return its[r.Intn(len(its))]
		}
		return plain(r.Pick(plainKinds))
	}
	for i := 0; i < n; i++ {
		np := r.Intn(4)
		var ps []tspec
		for j := 0; j < np; j++ {
			ps = append(ps, pickType())
		}
		variadic := np > 0 && r.Intn(3) == 0
		if variadic {
			ps[np-1] = sliceOf(ps[np-1])
		}
		var rs []tspec
		id := -1
		switch r.Intn(8) {
		case 0:
		case 1, 2, 3:
			rs = []tspec{pickType()}
		case 4, 5:
			rs = []tspec{pickType(), plain("e")}
		case 6:
			rs = []tspec{pickType(), plain("e")}
			id = r.Intn(len(errPool))
		default:
			if r.Intn(6) == 0 {
				rs = []tspec{pickType(), pickType(), plain("e")}
			} else {
				rs = []tspec{plain(r.Pick(plainKinds))}
			}
		}
		route := "run"
		if r.Bool() {
			route = "call"
		}
		nargs := r.Intn(np + 2)
		if variadic {
			nargs = r.Intn(6)
		}
		if route == "call" && !variadic && nargs > np {
			nargs = np
		}
		var args []aval
		for j := 0; j < nargs; j++ {
			args = append(args, randArg(r, route))
		}
		names := pickNames(r, 1+r.Intn(4))
		funcs := []fspec{mkFunc(names[0], ps, variadic, rs, r, id)}
		for _, nm := range names[1:] {
			funcs = append(funcs, validDistractor(r, nm))
		}
		add(route, funcs, route == "run" && r.Intn(25) == 0, args, r.Pick(convFmts))
	}
	return ks
}

func min(a, b int) int {
	if a < b {
		return a
	}
	return b
}

// invalidEntries: a function value named name for every documented way of being invalid
func invalidEntries(name string, r *hx.Rand) []fspec {
	var es []fspec
	for _, it := range invalidTypes() {
		es = append(es,
			mkFunc(name, []tspec{it}, false, nil, r, -1),
			mkFunc(name, []tspec{plain("i"), it}, false, []tspec{plain("i")}, r, -1),
			mkFunc(name, []tspec{sliceOf(it)}, true, nil, r, -1),
			mkFunc(name, nil, false, []tspec{it}, r, -1),
			mkFunc(name, nil, false, []tspec{it, plain("e")}, r, -1))
	}
	es = append(es,
		mkFunc(name, nil, false, []tspec{plain("i"), plain("i")}, r, -1),
		mkFunc(name, nil, false, []tspec{plain("i"), tspec{Wire: "o", Label: "errptr"}}, r, -1),
		mkFunc(name, nil, false, []tspec{plain("i"), plain("s"), plain("e")}, r, -1),
		fspec{Name: name, Kind: "nil"}, fspec{Name: name, Kind: "nonfunc"})
	return es
}

func histArgs(r *hx.Rand, n int) []aval {
	var as []aval
	for i := 0; i < n; i++ {
		for {
			a := randArg(r, "run")
			if a.Typ != 3 || fieldSafe(a.S) {
				as = append(as, a)
				break
			}
		}
	}
	return as
}

func repeatNil(k int) [][]fspec { return make([][]fspec, k) }

func genHistories(o hx.Opts, r *hx.Rand) []kase {
	var ks []kase
	add := func(P []fspec, awk bool, args []aval, maps [][]fspec) {
		ks = append(ks, kase{Route: "hist", Funcs: P, AwkDef: awk, Args: args, ConvFmt: "%.6g", Maps: maps})
	}
	// the valid part of the map: the called function "m" and two others sorting before and after it
	validMap := func() []fspec {
		np := r.Intn(3)
		var ps []tspec
		for i := 0; i < np; i++ {
			ps = append(ps, plain(r.Pick(plainKinds)))
		}
		variadic := np > 0 && r.Intn(4) == 0
		if variadic {
			ps[np-1] = sliceOf(ps[np-1])
		}
		var rs []tspec
		id := -1
		switch r.Intn(4) {
		case 1:
			rs = []tspec{plain(r.Pick(plainKinds))}
		case 2:
			rs = []tspec{plain(r.Pick(plainKinds)), plain("e")}
		case 3:
			rs = []tspec{plain(r.Pick(plainKinds)), plain("e")}
			if r.Intn(3) == 0 {
				id = r.Intn(len(errPool))
			}
		}
		return []fspec{mkFunc("m", ps, variadic, rs, r, id), validDistractor(r, "a"), validDistractor(r, "z")}
	}
	argsFor := func(P []fspec) []aval {
		n := r.Intn(len(P[0].Params) + 1)
		if P[0].Variadic {
			n = r.Intn(4)
		}
		return histArgs(r, n)
	}
	positions := []string{"A0", "h", "zz"} // before every helper / between a and m / after everything

	// (a) the same map every time; invalid in every documented way at every sort position
	for _, pos := range positions {
		for _, bad := range invalidEntries(pos, r) {
			for k := 1; k <= 3; k++ {
				P := append(validMap(), bad)
				add(P, false, argsFor(P), repeatNil(k))
			}
		}
	}
	for _, kw := range keywordNames {
		for k := 1; k <= 3; k++ {
			P := append(validMap(), mkFunc(kw, []tspec{plain("i")}, false, []tspec{plain("i")}, r, -1))
			add(P, false, argsFor(P), repeatNil(k))
		}
	}
	// the invalid function is the one the program calls (a func, so the parser lets it through)
	for _, bad := range invalidEntries("m", r) {
		if bad.Kind != "func" {
			continue
		}
		P := append([]fspec{bad}, validDistractor(r, "a"), validDistractor(r, "z"))
		add(P, false, nil, repeatNil(2+r.Intn(2)))
	}
	// (a) valid maps: every set-up runs and converts as documented
	nValid := 400
	if o.Tier == "thorough" {
		nValid = 8000
	}
	for i := 0; i < nValid; i++ {
		P := validMap()
		add(P, i%40 == 0, argsFor(P), repeatNil(2+r.Intn(2)))
	}
	for _, k := range plainKinds {
		for i := 0; i < 6; i++ {
			P := []fspec{mkFunc("m", []tspec{plain(k)}, false, []tspec{plain(k)}, r, -1), validDistractor(r, "b")}
			add(P, false, histArgs(r, 1), repeatNil(3))
		}
	}
	// an empty / helper-only history (the empty table is not nil)
	add([]fspec{mkFunc("m", nil, false, nil, r, -1)}, false, nil, repeatNil(3))

	// (b) a different map on a later (or earlier) call
	for rep := 0; rep < 3; rep++ {
		for _, pos := range positions {
			for _, bad := range invalidEntries(pos, r) {
				if rep > 0 && r.Intn(4) != 0 {
					continue
				}
				P := validMap()
				M := append(append([]fspec{}, P...), bad)
				args := argsFor(P)
				switch rep {
				case 0:
					add(P, false, args, [][]fspec{M, nil})         // invalid -> valid
					add(P, false, args, [][]fspec{nil, M})         // valid -> invalid
				case 1:
					add(P, false, args, [][]fspec{M, M, nil})      // invalid twice -> valid
				default:
					add(P, false, args, [][]fspec{nil, M, nil})    // valid -> invalid -> valid
				}
			}
		}
	}
	for _, bad := range invalidEntries("m", r) {
		// the called function itself replaced by an invalid one on one call
		P := validMap()
		M := append([]fspec{bad}, P[1:]...)
		args := argsFor(P)
		add(P, false, args, [][]fspec{M, nil})
		add(P, false, args, [][]fspec{nil, M, nil})
	}
	for i := 0; i < 120; i++ {
		P := validMap()
		args := argsFor(P)
		// same names and signatures, other function values (other results)
		P2 := append([]fspec{}, P...)
		P2[0] = mkFunc("m", P[0].Params, P[0].Variadic, P[0].Results, r, -1)
		add(P, false, args, [][]fspec{nil, P2})
		add(P, false, args, [][]fspec{P2, nil})
		// more functions (a name sorting last), fewer functions (the last one missing)
		more := append(append([]fspec{}, P...), validDistractor(r, "zz9"))
		fewer := append([]fspec{}, P[:2]...)
		add(P, false, args, [][]fspec{more, nil})
		add(P, false, args, [][]fspec{nil, more, nil})
		add(P, false, args, [][]fspec{fewer, nil})
		add(P, false, args, [][]fspec{nil, fewer})
		if i%6 == 0 {
			// misuse that shifts the indexes (a function sorting before the called one is missing,
			// or the map is empty): correspondence only
			shifted := []fspec{P[0], P[2]}
			add(P, false, args, [][]fspec{shifted, nil})
			add(P, false, args, [][]fspec{{}, nil})
			add(P, false, args, [][]fspec{nil, {}})
		}
	}
	return ks
}
