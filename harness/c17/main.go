// C17 harness: Go functions exposed to AWK (interp.Config.Funcs).
//
// Correspondence: the implementation (public API ParseProgram+ExecProgram with recording
// functions built by reflect.MakeFunc; and, for explicitly typed AWK values, the verif hook
// interp.VerifCallNative = initNativeFuncs+callNative) against the extracted Coq model
// (rocq/Model/Native.v) on the same cases.
// Search oracle: the documented conversion table, zero fill, variadic spread, error identity,
// rejection of invalid shapes at set-up / parse time and absence of panics, evaluated on the
// implementation's results independently of the model (types.go, oracle.go).
package main

import (
	"encoding/json"
	"fmt"
	"os"
	"strings"

	"verif/harness/hx"
)

func main() {
	o := hx.ParseFlags()
	if o.Replay != "" {
		os.Exit(replay(o))
	}
	rep := hx.NewReport("C17", o.Seed, o.Tier)
	rep.Rule = "systematic: every documented kind x every hostile AWK value (numbers incl. negative/fractional/2^31/2^63/1e30/nan/inf/float32 ties, strings, numeric strings, unset), every result kind x result data x {no error, nil error, error}, every signature of 0-2 parameters over the 15 kinds x variadic x 0..4 arguments, sampled 3-parameter signatures, every invalid/defined type in every position, all keywords, non-func and nil values, name sets for the index assignment; histories on a reusable Interpreter (interp.New once, Execute 1..3 times: the same map valid or invalid in every documented way at every sort position, invalid->valid, valid->invalid, other function values, more/fewer functions); then random cases. distinct = distinct model request; non-trivial = the function value is a func (not the nil/non-func samples)"
	r := hx.NewRand(o.Seed)
	cases := genCases(o, r)

	lines := make([]string, len(cases))
	impl := make([]implResult, len(cases))
	for i, c := range cases {
		lines[i] = c.line()
		impl[i] = runImpl(c)
	}
	model, err := hx.ModelEval(o.ModelRun, lines)
	if err != nil {
		rep.HarnessError("%v", err)
	}
	for i, c := range cases {
		rep.CorrEvals++
		rep.Count("route:" + c.Route)
		rep.Count("shape:" + c.shapeClass())
		rep.Count("impl:" + impl[i].kind)
		if c.target().Kind == "func" {
			rep.Distinct(lines[i])
		}
		if i%1499 == 0 {
			rep.Sample(map[string]string{"request": lines[i], "impl": impl[i].cmp(c.Route)})
		}
		if model != nil {
			m := modelCmp(c.Route, model[i])
			if strings.HasPrefix(model[i], "driver-error") {
				rep.HarnessError("driver: %s on %s", model[i], lines[i])
			} else if strings.HasPrefix(model[i], "unmod") && c.Route == "hist" && hasOtherMap(c) {
				// A history that passes ANOTHER Funcs map on a later Execute (against the documented
				// contract) can shift the native indexes, so the model's call lands on a function for
				// whose argument values the harness prepared no primitive views: not compared.
				rep.Unmodelled++
				rep.Count("unmodelled:hist-other-map-needs-unprepared-view")
			} else if m != impl[i].cmp(c.Route) {
				// "unmod" can only mean that the model asked for a primitive view the harness
				// did not supply, i.e. it computed a different number/string: a mismatch.
				rep.Mismatch(hx.Mismatch{Class: c.shapeClass(), Input: lines[i], Impl: impl[i].cmp(c.Route), Model: m, Note: c.describe()})
			}
		}
		rep.SearchEvals++
		oracle(c, impl[i], rep)
	}
	rep.Write(o.Out)
}

func hasOtherMap(c kase) bool {
	for _, m := range c.Maps {
		if m != nil {
			return true
		}
	}
	return false
}

func replay(o hx.Opts) int {
	b, err := os.ReadFile(o.Replay)
	if err != nil {
		fmt.Println("replay:", err)
		return 2
	}
	var doc struct {
		Failure struct {
			Class  string         `json:"class"`
			Oracle string         `json:"oracle"`
			Detail map[string]any `json:"detail"`
		} `json:"failure"`
		Detail map[string]any `json:"detail"`
	}
	if err := json.Unmarshal(b, &doc); err != nil {
		fmt.Println("replay:", err)
		return 2
	}
	d := doc.Failure.Detail
	if d == nil {
		d = doc.Detail
	}
	cj, _ := d["case_json"].(string)
	var c kase
	if err := json.Unmarshal([]byte(cj), &c); err != nil {
		fmt.Println("replay: no case_json in the failure detail:", err)
		return 2
	}
	c.rebuild()
	res := runImpl(c)
	rep := hx.NewReport("C17", o.Seed, "replay")
	oracle(c, res, rep)
	fmt.Println("case:    ", c.describe())
	if c.Route == "run" {
		src, stdin := c.program()
		fmt.Printf("program:  %s\nstdin:    %q\n", src, stdin)
	}
	fmt.Println("got:     ", res.cmp(c.Route), res.raw)
	if mr, err := hx.ModelEval(o.ModelRun, []string{c.line()}); err == nil {
		fmt.Println("model:   ", mr[0])
	}
	for _, f := range rep.Failures {
		fmt.Printf("FAIL class=%s oracle=%s want=%v got=%v\n", f.Class, f.Oracle, f.Detail["want"], f.Detail["got"])
	}
	if o.Out != "" {
		rep.Write(o.Out)
	}
	if len(rep.Failures) > 0 {
		return 1
	}
	fmt.Println("no failure on replay")
	return 0
}
