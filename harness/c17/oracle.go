package main

// The search oracle: the documentation of interp.Config.Funcs and the property text, applied to
// the implementation's results.  Nothing here uses the model or its answers.

import (
	"encoding/json"
	"fmt"
	"math"
	"math/big"
	"strconv"
	"strings"

	"github.com/benhoyt/goawk/lexer"
	"verif/harness/hx"
)

// hand-written: the number an AWK string converts to (leading numeric prefix)
var knownNum = map[string]float64{
	"": 0, "abc": 0, "0": 0, "1": 1, "12": 12, " 12 ": 12, "3.7xyz": 3.7, "-5": -5, "+7": 7, "1e3": 1000, "0.0": 0,
	"256": 256, "-1": -1, ".5": 0.5, "x1": 0, "3e": 3, "-": 0, ".": 0, "\xc3\xa9": 0, "\xff": 0, "2147483648": 2147483648,
	"1e30": 1e30, "-129": -129, "65536": 65536, " 0 ": 0, "+0": 0, "0e5": 0, "-3.99": -3.99, "4294967301": 4294967301,
	"9223372036854775808": 9223372036854775808.0, "1.5": 1.5, "255": 255, "\t42\n": 42, "x": 0,
}

// hand-written: truth value of a field ("numeric string"): by number if the whole field looks
// like a number, else by emptiness
var knownFieldTruth = map[string]bool{
	"": false, "abc": true, "0": false, "1": true, "12": true, " 12 ": true, "3.7xyz": true, "-5": true, "+7": true,
	"1e3": true, "0.0": false, "256": true, "-1": true, ".5": true, "x1": true, "3e": true, "-": true, ".": true,
	"\xc3\xa9": true, "\xff": true, " 0 ": false, "+0": false, "0e5": false, "1.5": true, "255": true, "x": true, "0x": true,
}

func kindBits(k string) (signed bool, bits int, isInt bool) {
	switch k {
	case "i", "i64":
		return true, 64, true
	case "i8":
		return true, 8, true
	case "i16":
		return true, 16, true
	case "i32":
		return true, 32, true
	case "u", "u64":
		return false, 64, true
	case "u8":
		return false, 8, true
	case "u16":
		return false, 16, true
	case "u32":
		return false, 32, true
	}
	return false, 0, false
}

// numToStr: the string form of an AWK number (integers as integers, else CONVFMT)
func numToStr(n float64, convfmt string) (string, bool) {
	switch {
	case math.IsNaN(n):
		return "nan", true
	case math.IsInf(n, 1):
		return "inf", true
	case math.IsInf(n, -1):
		return "-inf", true
	case n == math.Trunc(n):
		if math.Abs(n) >= 9223372036854775808.0 {
			return "", false // integral beyond int64: form not fixed by the property
		}
		z, _ := new(big.Float).SetFloat64(n).Int(nil)
		return z.String(), true
	}
	return fmt.Sprintf(convfmt, n), true
}

// argNumber: the numeric value of an AWK argument, where the oracle knows it
func argNumber(a aval) (float64, bool) {
	switch a.Typ {
	case 0:
		return 0, true
	case 2:
		return a.num(), true
	}
	f, ok := knownNum[a.S]
	return f, ok
}

// expectArg: what a parameter of kind k must receive for argument a (documented table).
func expectArg(a aval, k string, convfmt string) (string, bool) {
	switch k {
	case "b":
		var t bool
		switch a.Typ {
		case 0:
			t = false
		case 1:
			t = a.S != ""
		case 2:
			t = a.num() != 0
		case 3:
			kt, ok := knownFieldTruth[a.S]
			if !ok {
				return "", false
			}
			t = kt
		}
		return "b=B" + b01(t), true
	case "f64":
		x, ok := argNumber(a)
		return "f64=F" + hx.FCanon(x), ok
	case "f32":
		x, ok := argNumber(a)
		return "f32=F" + hx.FCanon(float64(float32(x))), ok
	case "s", "[u8]":
		var s string
		switch a.Typ {
		case 1, 3:
			s = a.S
		case 2:
			var ok bool
			s, ok = numToStr(a.num(), convfmt)
			if !ok {
				return "", false
			}
		}
		if k == "s" {
			return "s=S" + hx.HexS(s), true
		}
		return "[u8]=Y" + hx.HexS(s), true
	}
	signed, bits, isInt := kindBits(k)
	if !isInt {
		return "", false
	}
	x, ok := argNumber(a)
	if !ok || math.IsNaN(x) || math.IsInf(x, 0) {
		return "", false
	}
	z, _ := new(big.Float).SetFloat64(x).Int(nil) // truncation toward zero
	lo, hi := new(big.Int), new(big.Int)
	if signed {
		hi.Lsh(big.NewInt(1), uint(bits-1))
		lo.Neg(hi)
		hi.Sub(hi, big.NewInt(1))
	} else {
		hi.Lsh(big.NewInt(1), uint(bits))
		hi.Sub(hi, big.NewInt(1))
	}
	if z.Cmp(lo) < 0 || z.Cmp(hi) > 0 {
		return "", false // out of the range of the kind: the documented rule says nothing
	}
	if signed {
		return k + "=I" + z.String(), true
	}
	return k + "=U" + z.String(), true
}

func zeroOf(k string) string {
	switch k {
	case "b":
		return "b=B0"
	case "f32", "f64":
		return k + "=F0:0"
	case "s":
		return "s=S-"
	case "[u8]":
		return "[u8]=N"
	}
	if signed, _, isInt := kindBits(k); isInt {
		if signed {
			return k + "=I0"
		}
		return k + "=U0"
	}
	return "?"
}

// expectResult: the AWK value for a Go result (typed, and as seen by the three observers)
func expectResult(f fspec, convfmt string) (typed string, obs string, obsOK bool) {
	if len(f.Outs) == 0 {
		return "null", "S-/F0:0/B0", true
	}
	d := f.Outs[0]
	numeric := func(x float64) (string, string, bool) {
		s, ok := numToStr(x, convfmt)
		return "n" + hx.FCanon(x), "S" + hx.HexS(s) + "/F" + hx.FCanon(x) + "/B" + b01(x != 0), ok
	}
	switch d.Tag {
	case 'B':
		if d.B {
			return numeric(1)
		}
		return numeric(0)
	case 'I':
		x, _ := new(big.Float).SetInt64(d.I).Float64() // nearest double
		return numeric(x)
	case 'U':
		x, _ := new(big.Float).SetUint64(d.U).Float64()
		return numeric(x)
	case 'F':
		return numeric(math.Float64frombits(d.F))
	case 'S', 'Y', 'N':
		s := d.S
		x, ok := knownNum[s]
		return "s" + hx.HexS(s), "S" + hx.HexS(s) + "/F" + hx.FCanon(x) + "/B" + b01(s != ""), ok
	}
	return "?", "?", false
}

// ---- shape classification ----
func typeProblem(t tspec, isResult bool) string {
	if !isDocumentedKind(t.Wire) {
		if t.Wire == "o" {
			return "undocumented-type:" + t.Label
		}
		return "undocumented-type:" + t.Wire
	}
	if strings.Contains(t.Wire, "'") {
		if isResult {
			if kindCode(t.Wire) == "[u8]" {
				return "defined-byte-slice-result"
			}
			return "defined-basic-result"
		}
		if t.Wire == "[u8]'" {
			return "defined-slice-of-byte-param" // type B []byte: assignable from []byte
		}
		return "defined-type-param"
	}
	return ""
}

// shapeOf: "" for a function of documented shape with predeclared types, else what is special
func (f fspec) shapeOf() (invalid string, defined string) {
	if lexer.KeywordToken(f.Name) != lexer.ILLEGAL {
		invalid = "keyword-name"
	}
	switch f.Kind {
	case "nil":
		return "nil-func-value", ""
	case "nonfunc":
		return "non-func-value", ""
	}
	note := func(p string) {
		if strings.HasPrefix(p, "undocumented") {
			if invalid == "" {
				invalid = p
			}
		} else if p != "" && defined == "" {
			defined = p
		}
	}
	for i, p := range f.Params {
		t := p
		if f.Variadic && i == len(f.Params)-1 {
			t = tspec{Wire: p.Wire[1 : len(p.Wire)-1], Label: p.Label}
		}
		note(typeProblem(t, false))
	}
	switch len(f.Results) {
	case 0:
	case 1:
		note(typeProblem(f.Results[0], true))
	case 2:
		note(typeProblem(f.Results[0], true))
		if f.Results[1].Wire != "e" && invalid == "" {
			invalid = "second-result-not-error"
		}
	default:
		if invalid == "" {
			invalid = "more-than-two-results"
		}
	}
	return
}

func (c kase) shapeClass() string {
	t := c.target()
	inv, def := t.shapeOf()
	for _, f := range c.allFuncs()[1:] {
		if i, _ := f.shapeOf(); i != "" {
			return "not-called:" + i
		}
	}
	switch {
	case inv == "nil-func-value" || inv == "non-func-value":
		return inv + "-called"
	case inv != "":
		return "invalid:" + inv
	case c.AwkDef:
		return "awk-function-of-same-name"
	case !t.Variadic && len(c.Args) > len(t.Params):
		return "too-many-args"
	case def != "":
		// which user-defined type the call actually meets: a parameter that an argument is converted
		// for (reflect.Call comes first), else a byte-slice result, else nothing harmful
		for i := range c.Args {
			if w := t.paramWire(i); strings.Contains(w, "'") && w != "[u8]'" {
				return "defined-type-param"
			}
		}
		if len(t.Results) > 0 && strings.Contains(t.Results[0].Wire, "'") && kindCode(t.Results[0].Wire) == "[u8]" {
			return "defined-byte-slice-result"
		}
		return "defined-type-not-exercised"
	}
	v := "n"
	if t.Variadic {
		v = "v"
	}
	return fmt.Sprintf("valid:%dp%s:%dr", len(t.Params), v, len(t.Results))
}

func valClass(a aval) string {
	switch a.Typ {
	case 0:
		return "unset"
	case 1:
		return "str"
	case 3:
		return "numstr"
	}
	x := a.num()
	switch {
	case math.IsNaN(x):
		return "nan"
	case math.IsInf(x, 0):
		return "inf"
	case math.Abs(x) >= 9223372036854775808.0:
		return "beyond-int64"
	case math.Abs(x) >= 2147483648:
		return "beyond-int32"
	case x != math.Trunc(x):
		if x < 0 {
			return "neg-frac"
		}
		return "frac"
	case x < 0:
		return "neg"
	}
	return "nonneg-int"
}

// paramWire: type of the parameter that receives argument i (the variadic element for the tail)
func (f fspec) paramWire(i int) string {
	if f.Variadic && i >= len(f.Params)-1 {
		w := f.Params[len(f.Params)-1].Wire
		return w[1 : len(w)-1]
	}
	if i >= len(f.Params) {
		return ""
	}
	return f.Params[i].Wire
}

// paramKind: its kind code
func (f fspec) paramKind(i int) string { return kindCode(f.paramWire(i)) }

func caseJSON(c kase) string {
	b, _ := json.Marshal(c)
	return string(b)
}

func oracle(c kase, res implResult, rep *hx.Report) {
	if c.Route == "hist" {
		oracleHist(c, res, rep)
		return
	}
	t := c.target()
	cj, _ := json.Marshal(c)
	fail := func(class, oracleName, want, got string) {
		d := map[string]any{"case": c.describe(), "case_json": string(cj), "want": want, "got": got, "impl": res.cmp(c.Route), "raw": res.raw, "model_line": c.line()}
		if c.Route == "run" {
			src, stdin := c.program()
			d["program"] = src
			d["stdin_hex"] = hx.HexS(stdin)
		}
		rep.Fail(hx.Failure{Class: class, Oracle: oracleName, Detail: d})
	}
	shape := c.shapeClass()

	// never a panic
	if res.kind == "panic" {
		fail(shape, "no-panic", "an error or a result", "panic: "+res.raw)
		return
	}
	if res.kind == "other" {
		fail(shape, "outcome is a parse error, a set-up error, the native's own error or a result", "-", res.raw)
		return
	}

	// which functions of the map are not of a documented shape
	invalidNames := map[string]bool{}
	for _, f := range c.allFuncs() {
		if inv, _ := f.shapeOf(); inv != "" {
			invalidNames[f.Name] = true
		}
	}
	tooMany := t.Kind == "func" && !t.Variadic && len(c.Args) > len(t.Params) && !c.AwkDef
	_, tdef := t.shapeOf()

	if len(invalidNames) > 0 {
		// rejected when the interpreter is set up (or, if the call also has too many arguments, by the parser)
		okSetup := false
		if res.kind == "setup-error" {
			if c.Route == "call" {
				okSetup = true
			} else {
				f := strings.Fields(res.detail)
				okSetup = len(f) == 2 && invalidNames[string(hx.UnHex(f[0]))]
			}
		}
		// calling a value that is not a function at all may already be refused by the parser
		notFuncCalled := t.Kind != "func" && !c.AwkDef && res.kind == "parse-error" && res.detail == "notfunc"
		if !(okSetup || notFuncCalled || (tooMany && res.kind == "parse-error" && res.detail == "toomany")) {
			fail(shape, "functions of an undocumented shape or with a keyword name are rejected at set-up", "set-up error naming the function", res.cmp(c.Route))
		}
		return
	}
	if tooMany {
		if !(res.kind == "parse-error" && res.detail == "toomany") {
			fail(shape, "too many arguments to a non-variadic function is a parse error", "parse-error toomany", res.cmp(c.Route))
		}
		return
	}
	if c.AwkDef {
		if res.kind != "awkfunc" {
			fail(shape, "AWK-defined function takes precedence", "awkfunc", res.cmp(c.Route))
		}
		return
	}
	if tdef != "" && res.kind == "setup-error" {
		return // a user-defined type may be refused at set-up; it may not panic at call time
	}
	if res.kind != "ok" && res.kind != "run-error" {
		fail(shape, "a function of documented shape is accepted and callable", "ok", res.cmp(c.Route))
		return
	}

	// the right function ran, once (index assignment of resolver and interpreter agree)
	if len(res.called) != 1 || res.called[0] != t.Name {
		fail("index-assignment", "the call reaches the function of that name", t.Name, strings.Join(res.called, ","))
	}

	// arguments
	minIn := len(t.Params)
	if t.Variadic {
		minIn--
	}
	wantN := len(c.Args)
	if minIn > wantN {
		wantN = minIn
	}
	var got []string
	if res.recv != "-" {
		got = strings.Split(res.recv, ",")
	}
	if len(got) != wantN {
		fail(shape, "the function receives max(#args, #fixed params) values (zero fill, variadic spread)", strconv.Itoa(wantN), strconv.Itoa(len(got)))
	} else {
		for i := 0; i < wantN; i++ {
			k := t.paramKind(i)
			if i < len(c.Args) {
				want, ok := expectArg(c.Args[i], k, c.ConvFmt)
				if ok && want != got[i] {
					ck := k // int and uint are the 64-bit kinds on the pinned platform: one class with int64/uint64
					if ck == "i" || ck == "u" {
						ck += "64"
					}
					fail("arg:"+ck+":"+valClass(c.Args[i]), "argument converted by the documented rule (truncate / truth value / string form)", want, got[i])
				}
			} else if want := zeroOf(k); want != got[i] {
				fail("missing:"+k, "missing arguments are zero values", want, got[i])
			}
		}
	}

	// result / error
	wantErr := -1
	if len(t.Outs) == 2 {
		wantErr = t.Outs[1].ID
	}
	if wantErr >= 0 {
		if res.kind != "run-error" || res.detail != strconv.Itoa(wantErr) {
			fail("error-result", "a non-nil error aborts the run with exactly that error", "run-error "+strconv.Itoa(wantErr), res.cmp(c.Route))
		}
		return
	}
	if res.kind != "ok" {
		fail("error-result", "no error is reported when the function returns a nil error", "ok", res.cmp(c.Route))
		return
	}
	typed, obs, obsOK := expectResult(t, c.ConvFmt)
	rk := "none"
	if len(t.Results) > 0 {
		rk = kindCode(t.Results[0].Wire)
	}
	if c.Route == "call" {
		if typed != res.value {
			fail("result:"+rk, "result converted back by the documented rule", typed, res.value)
		}
	} else if obsOK && obs != res.obs {
		fail("result:"+rk, "result converted back by the documented rule", obs, res.obs)
	}
}
