package main

// The history dimension: a reusable interp.Interpreter (interp.New once, Execute several times).
// Each Execute sets the interpreter up again from its Config; the property speaks about EVERY
// set-up, so an invalid Funcs entry must be rejected each time and a valid one must work each time.

import (
	"fmt"
	"strings"

	"github.com/benhoyt/goawk/interp"
	"github.com/benhoyt/goawk/parser"
	"verif/harness/hx"
)

func wireFuncs(fs []fspec) string {
	if len(fs) == 0 {
		return "-"
	}
	var p []string
	for _, f := range fs {
		p = append(p, f.wire())
	}
	return strings.Join(p, "|")
}

// stepFuncs: the Funcs map of one Execute (nil = the parser's map), helpers included.
func (c kase) stepFuncs(m []fspec) []fspec {
	if m == nil {
		return c.allFuncs()
	}
	return append(append([]fspec{}, m...), helperFuncs...)
}

func (c kase) goMap(fs []fspec, rec *recorder) map[string]any {
	funcs := map[string]any{}
	for _, f := range fs {
		funcs[f.Name] = f.goValue(rec, &c)
	}
	funcs["N"] = func(i int) float64 { return c.Args[i].num() }
	funcs["S"] = func(i int) string { return c.Args[i].S }
	funcs["OBS"] = func(s string, f float64, b bool) {
		rec.obs = "S" + hx.HexS(s) + "/F" + hx.FCanon(f) + "/B" + b01(b)
		rec.obsSet = true
	}
	return funcs
}

func runHist(c kase) (res implResult) {
	rec := &recorder{recv: "-"}
	pmap := c.goMap(c.allFuncs(), rec)
	src, stdin := c.program()
	var prog *parser.Program
	var perr error
	var ppanic any
	func() {
		defer func() { ppanic = recover() }()
		prog, perr = parser.ParseProgram([]byte(src), &parser.ParserConfig{Funcs: pmap})
	}()
	if ppanic != nil || perr != nil {
		return implResult{kind: "hist", parseOnly: true, steps: []implResult{classifyRun(c, rec, ppanic, perr, "")}}
	}
	in, err := interp.New(prog)
	if err != nil {
		return implResult{kind: "hist", parseOnly: true, steps: []implResult{{kind: "other", detail: "interp.New: " + err.Error()}}}
	}
	res = implResult{kind: "hist"}
	for _, m := range c.Maps {
		*rec = recorder{recv: "-"}
		funcs := pmap
		if m != nil {
			funcs = c.goMap(c.stepFuncs(m), rec)
		}
		var out strings.Builder
		cfg := &interp.Config{Funcs: funcs, Environ: []string{}, Stdin: strings.NewReader(stdin), Output: &out, Error: &out,
			Vars: []string{"FS", "|", "CONVFMT", c.ConvFmt}}
		var xerr error
		var xpanic any
		func() {
			defer func() { xpanic = recover() }()
			_, xerr = in.Execute(cfg)
		}()
		res.steps = append(res.steps, classifyRun(c, rec, xpanic, xerr, out.String()))
	}
	return res
}

func sameSpecs(a, b []fspec) bool {
	return fmt.Sprint(a) == fmt.Sprint(b)
}

// oracleHist: what the property says, for every set-up of the history.
func oracleHist(c kase, res implResult, rep *hx.Report) {
	if res.parseOnly {
		// nothing was set up: judge the parse outcome as in the one-shot route
		c1 := c
		c1.Route, c1.Maps = "run", nil
		oracle(c1, res.steps[0], rep)
		return
	}
	contractKept := true // every successful set-up so far used the parser's map
	anySuccess := false
	for j, m := range c.Maps {
		st := res.steps[j]
		specs := c.Funcs
		same := m == nil
		if !same {
			specs = m
		}
		sub := hx.NewReport("C17", 0, "sub")
		cj := c
		cj.Route, cj.Maps, cj.Funcs = "run", nil, specs
		hasTarget := len(specs) > 0 && specs[0].Name == c.target().Name
		switch {
		case same && contractKept:
			// the documented use: the same map as the parser got, every time
			oracle(cj, st, sub)
		case !anySuccess && hasTarget:
			// no set-up has succeeded yet, so this map is validated like a first one; if it is
			// rejected the documented error is due, if accepted the call contract is the caller's
			invalid := false
			for _, f := range cj.allFuncs() {
				if inv, _ := f.shapeOf(); inv != "" {
					invalid = true
				}
			}
			if invalid {
				oracle(cj, st, sub)
			}
		}
		for _, f := range sub.Failures {
			f.Class = fmt.Sprintf("history-execute%d:%s", j+1, f.Class)
			f.Detail["case"] = c.describe()
			f.Detail["execute"] = j + 1
			f.Detail["model_line"] = c.line()
			f.Detail["impl"] = res.cmp("hist")
			if js, ok := f.Detail["case_json"]; ok {
				_ = js
				f.Detail["case_json"] = caseJSON(c)
			}
			rep.Fail(f)
		}
		if st.kind != "setup-error" {
			// the set-up went through and the table is built (even if the call then failed): from now
			// on the interpreter keeps that table
			anySuccess = true
			if !same {
				contractKept = false
			}
		}
	}
}
