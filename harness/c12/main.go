// C12 harness: NoExec / NoFileWrites / NoFileReads and Config.OpenFile.
//
// A case is a small AWK program built from a script of I/O operations (every
// syntactic form, names computed at run time in ten different ways), an operand
// list, one of the eight flag combinations and a shell that works or not.
// Each case is executed twice through the public API, in fresh temporary
// directories:
//
//	run A: Config.OpenFile = recording wrapper that redirects every relative name
//	       into a shadow directory; the working directory holds decoy files with
//	       different content, so an open that bypasses the hook is visible
//	run B: Config.OpenFile = nil (os.OpenFile), working directory = the real files
//
// Config.ShellCommand is this binary itself in -recexec mode: it appends the
// command text to a log file instead of running anything.
//
// Correspondence: the extracted Coq model (Model/Sandbox.v run_log) is given the
// same request history and the answers the open function gave in run A; its
// effect list / outcome is compared with what was observed.
// Search oracle (implementation only, written without the model): see oracle().
package main

import (
	"bytes"
	"encoding/json"
	"flag"
	"fmt"
	"io"
	"os"
	"os/exec"
	"path/filepath"
	"runtime"
	"sort"
	"strconv"
	"strings"
	"sync"
	"time"

	"github.com/benhoyt/goawk/interp"
	"github.com/benhoyt/goawk/parser"
	"verif/harness/hx"
)

// ---------------------------------------------------------------- cases

type op struct {
	Kind string `json:"kind"` // w a p r c s x f G v k
	Name string `json:"name"`
	N    int    `json:"n"`    // index for v, value for k
	Form int    `json:"form"` // syntactic variant of the statement
	Expr int    `json:"expr"` // how the name is computed at run time
}

type kase struct {
	NoExec       bool     `json:"no_exec"`
	NoFileWrites bool     `json:"no_file_writes"`
	NoFileReads  bool     `json:"no_file_reads"`
	NoArgVars    bool     `json:"no_arg_vars"`
	ShellOK      bool     `json:"shell_ok"`
	Args         []string `json:"args"`
	Begin        []op     `json:"begin"`
	End          []op     `json:"end"`
	HasMain      bool     `json:"has_main"`
	HasEnd       bool     `json:"has_end"`
	InFunc       bool     `json:"in_func"`
	Tag          string   `json:"tag"`
}

func (k kase) flagStr() string {
	b := func(x bool) string {
		if x {
			return "1"
		}
		return "0"
	}
	return b(k.NoExec) + b(k.NoFileWrites) + b(k.NoFileReads) + b(k.NoArgVars)
}

func (k kase) ops() []op { return append(append([]op{}, k.Begin...), k.End...) }

func (k kase) hasExecOps() bool {
	for _, o := range k.ops() {
		if o.Kind == "p" || o.Kind == "c" || o.Kind == "s" {
			return true
		}
	}
	return false
}

// stdin carries data only when no operation can start a process (a child would
// share and drain it concurrently)
func (k kase) stdin() (string, int) {
	if k.hasExecOps() {
		return "", 0
	}
	return "s1\ns2\n", 2
}

// the files every run starts with (relative to the working / shadow directory)
var initFiles = map[string]string{
	"in1":   "DATA-in1-a\nDATA-in1-b\n",
	"in2":   "DATA-in2-a\n",
	"empty": "",
}
var fileRecords = map[string]int{"in1": 2, "in2": 1, "empty": 0}

const initDir = "d"

var operandPool = []string{"in1", "in2", "empty", "missing", "-", "", "v=1", "x=y=z", "=bad", "1=2", "in1"}
var writePool = []string{"out1", "out2", "7", "a b", "sub/x", "d", "-", "/dev/stdout", "/dev/stderr", "/dev/null", "", "c1"}
var readPool = []string{"in1", "in2", "empty", "missing", "out1", "out2", "-", "", "/dev/null", "7", "c1"}
var cmdPool = []string{"c1", "c2", "out1", "in1", "-", "echo hi", "/dev/stdout", "7"}

func isAssign(s string) bool {
	if s == "" {
		return false
	}
	al := func(c byte) bool { return c == '_' || (c >= 'a' && c <= 'z') || (c >= 'A' && c <= 'Z') }
	if !al(s[0]) {
		return false
	}
	for i := 1; i < len(s); i++ {
		c := s[i]
		if al(c) || (c >= '0' && c <= '9') {
			continue
		}
		return c == '='
	}
	return false
}

// ---------------------------------------------------------------- program text

type progCtx struct {
	vars    []string // Config.Vars
	environ []string
	names   []string // NM(i)
	pre     []string // statements at the start of BEGIN (array setup)
}

func awkStr(s string) string {
	var sb strings.Builder
	sb.WriteByte('"')
	for i := 0; i < len(s); i++ {
		c := s[i]
		switch {
		case c == '"' || c == '\\':
			sb.WriteByte('\\')
			sb.WriteByte(c)
		case c == '\n':
			sb.WriteString("\\n")
		case c < 32 || c >= 127:
			fmt.Fprintf(&sb, "\\%03o", c)
		default:
			sb.WriteByte(c)
		}
	}
	sb.WriteByte('"')
	return sb.String()
}

// nameExpr: an AWK expression whose run-time value is name
func nameExpr(name string, how int, id int, pc *progCtx) string {
	switch how % 10 {
	case 1:
		if len(name) >= 2 {
			m := len(name) / 2
			return "(" + awkStr(name[:m]) + " " + awkStr(name[m:]) + ")"
		}
	case 2:
		v := fmt.Sprintf("V%d", id)
		pc.vars = append(pc.vars, v, name)
		return v
	case 3:
		m := len(name) / 2
		return `sprintf("%s%s", ` + awkStr(name[:m]) + ", " + awkStr(name[m:]) + ")"
	case 4:
		return "substr(" + awkStr("XX"+name) + ", 3)"
	case 5:
		if n, err := strconv.Atoi(name); err == nil && strconv.Itoa(n) == name && n >= 2 {
			return fmt.Sprintf("(%d+1)", n-1)
		}
	case 6:
		pc.names = append(pc.names, name)
		return fmt.Sprintf("NM(%d)", len(pc.names)-1)
	case 7:
		pc.pre = append(pc.pre, fmt.Sprintf("ARR[%d] = %s", id, awkStr(name)))
		return fmt.Sprintf("ARR[%d]", id)
	case 8:
		if strings.ToLower(name) == name && strings.ToUpper(strings.ToUpper(name)) != "" {
			ok := true
			for i := 0; i < len(name); i++ {
				if name[i] >= 127 {
					ok = false
				}
			}
			if ok {
				return "tolower(" + awkStr(strings.ToUpper(name)) + ")"
			}
		}
	case 9:
		key := fmt.Sprintf("K%d", id)
		pc.environ = append(pc.environ, key, name)
		return "ENVIRON[" + awkStr(key) + "]"
	}
	return awkStr(name)
}

// stmt: the AWK statements of operation number id (1-based); ends with the progress mark
func stmt(o op, id int, pc *progCtx) string {
	e := "(" + nameExpr(o.Name, o.Expr, id, pc) + ")"
	tok := fmt.Sprintf("T%d", id)
	var s string
	switch o.Kind {
	case "w", "a", "p":
		rd := map[string]string{"w": ">", "a": ">>", "p": "|"}[o.Kind]
		switch o.Form % 3 {
		case 0:
			s = fmt.Sprintf(`print "%s" %s %s`, tok, rd, e)
		case 1:
			s = fmt.Sprintf(`printf "%s\n" %s %s`, tok, rd, e)
		default:
			s = fmt.Sprintf(`printf("%%s\n", "%s") %s %s`, tok, rd, e)
		}
		return fmt.Sprintf(`r = ""; %s; print "@%d:" r ":"`, s, id)
	case "r":
		if o.Form%2 == 0 {
			return fmt.Sprintf(`x = ""; r = (getline x < %s); print "@%d:" r ":" x`, e, id)
		}
		return fmt.Sprintf(`$0 = ""; r = (getline < %s); print "@%d:" r ":" $0`, e, id)
	case "c":
		if o.Form%2 == 0 {
			return fmt.Sprintf(`x = ""; r = (%s | getline x); print "@%d:" r ":" x`, e, id)
		}
		return fmt.Sprintf(`$0 = ""; r = (%s | getline); print "@%d:" r ":" $0`, e, id)
	case "s":
		return fmt.Sprintf(`r = system(%s); print "@%d:" r ":"`, e, id)
	case "x":
		return fmt.Sprintf(`r = close(%s); print "@%d:" r ":"`, e, id)
	case "f":
		return fmt.Sprintf(`r = fflush(%s); print "@%d:" r ":"`, e, id)
	case "G":
		if o.Form%2 == 0 {
			return fmt.Sprintf(`x = ""; r = (getline x); print "@%d:" r ":" x`, id)
		}
		return fmt.Sprintf(`$0 = ""; r = (getline); print "@%d:" r ":" $0`, id)
	case "v":
		return fmt.Sprintf(`r = ""; ARGV[%d] = %s; print "@%d:" r ":"`, o.N, e, id)
	case "k":
		return fmt.Sprintf(`r = ""; ARGC = %d; print "@%d:" r ":"`, o.N, id)
	}
	panic("bad op kind " + o.Kind)
}

func (k kase) program() (string, *progCtx) {
	pc := &progCtx{}
	var b, e []string
	id := 0
	for _, o := range k.Begin {
		id++
		b = append(b, "  "+stmt(o, id, pc))
	}
	for _, o := range k.End {
		id++
		e = append(e, "  "+stmt(o, id, pc))
	}
	var sb strings.Builder
	pre := ""
	if len(pc.pre) > 0 {
		pre = "  " + strings.Join(pc.pre, "; ") + "\n"
	}
	if k.InFunc {
		sb.WriteString("function doio(   x, r) {\n" + strings.Join(b, "\n") + "\n}\n")
		sb.WriteString("BEGIN {\n" + pre + "  doio()\n}\n")
	} else {
		sb.WriteString("BEGIN {\n" + pre + strings.Join(b, "\n") + "\n}\n")
	}
	if k.HasMain {
		sb.WriteString("{ print \"rec:\" $0 }\n")
	}
	if k.HasEnd {
		sb.WriteString("END {\n" + strings.Join(e, "\n") + "\n  print \"end-reached\"\n}\n")
	}
	return sb.String(), pc
}

// ---------------------------------------------------------------- running the implementation

type openRec struct {
	Name string
	Flag string // r t a ?
	Res  string // o n f
	Err  string
}

type runObs struct {
	Stdout, Stderr string
	Err            string // "" when ExecProgram returned nil
	Panic          string
	Opens          []openRec // run A only
	Execs          []string  // commands logged by the recexec helper, sorted
	Files          map[string]string
	Decoy          map[string]string // run A: the working directory (must stay as created)
	ShadowPrefix   string
	Stale          []string // warm runs: names opened through the previous Execute's open function
}

func populate(dir string, content func(string) string) error {
	for n, c := range initFiles {
		if err := os.WriteFile(filepath.Join(dir, n), []byte(content(c)), 0o644); err != nil {
			return err
		}
	}
	return os.Mkdir(filepath.Join(dir, initDir), 0o755)
}

func snapshot(dir string) map[string]string {
	m := map[string]string{}
	filepath.Walk(dir, func(p string, info os.FileInfo, err error) error {
		if err != nil || p == dir {
			return nil
		}
		rel, _ := filepath.Rel(dir, p)
		if info.IsDir() {
			m[rel+"/"] = ""
			return nil
		}
		b, _ := os.ReadFile(p)
		m[rel] = string(b)
		return nil
	})
	return m
}

func initialSnapshot(content func(string) string) map[string]string {
	m := map[string]string{initDir + "/": ""}
	for n, c := range initFiles {
		m[n] = content(c)
	}
	return m
}

func sameMap(a, b map[string]string) bool {
	if len(a) != len(b) {
		return false
	}
	for k, v := range a {
		if w, ok := b[k]; !ok || w != v {
			return false
		}
	}
	return true
}

func decoyContent(c string) string {
	return strings.ReplaceAll(c, "DATA-", "BYPASS-") + "BYPASS-tail\n"
}
func sameContent(c string) string { return c }

func flagClass(flag int) string {
	switch flag {
	case os.O_RDONLY:
		return "r"
	case os.O_CREATE | os.O_WRONLY | os.O_TRUNC:
		return "t"
	case os.O_CREATE | os.O_WRONLY | os.O_APPEND:
		return "a"
	}
	return "?" + strconv.Itoa(flag)
}

var selfExe string

// lockedBuf: Output/Error sink that tolerates the concurrent writes of os/exec's copy
// goroutines (a bare bytes.Buffer is also an io.ReaderFrom, and a child's empty output copied
// into it while the program prints loses data — that is C13's subject, kept out of this harness)
type lockedBuf struct {
	mu  sync.Mutex
	buf bytes.Buffer
}

func (b *lockedBuf) Write(p []byte) (int, error) {
	b.mu.Lock()
	defer b.mu.Unlock()
	return b.buf.Write(p)
}
func (b *lockedBuf) String() string {
	b.mu.Lock()
	defer b.mu.Unlock()
	return b.buf.String()
}

// runImpl executes the case once. hook=true is run A, hook=false is run B.
func runImpl(k kase, hook bool, root string) (obs runObs, herr error) {
	return runImplW(k, hook, root, 0)
}

// runImplW: warm = 0 is one ExecProgram on a new interpreter.  warm = 1, 2: the observed run is
// the SECOND Execute of one interp.Interpreter (New, Execute, ResetVars, Execute) whose first
// Execute had a different configuration: the other kind of open function (none if the observed
// run has a custom one, a recording "stale" one otherwise) and, warm = 1, all three deny flags
// set, or, warm = 2, none of them (the directories and the command log are then put back as
// they were before the observed run).  The flags and the open function are "copied from Config
// at each Execute": the second run must behave like a run on a new interpreter.
func runImplW(k kase, hook bool, root string, warm int) (obs runObs, herr error) {
	src, pc := k.program()
	dir, err := os.MkdirTemp(root, "run")
	if err != nil {
		return obs, err
	}
	defer os.RemoveAll(dir)
	work := filepath.Join(dir, "work")
	shadow := filepath.Join(dir, "shadow")
	logf := filepath.Join(dir, "exec.log")
	os.Mkdir(work, 0o755)
	if hook {
		os.Mkdir(shadow, 0o755)
		if err := populate(work, decoyContent); err != nil {
			return obs, err
		}
		if err := populate(shadow, sameContent); err != nil {
			return obs, err
		}
	} else if err := populate(work, sameContent); err != nil {
		return obs, err
	}
	old, _ := os.Getwd()
	if err := os.Chdir(work); err != nil {
		return obs, err
	}
	defer os.Chdir(old)

	prog, err := parser.ParseProgram([]byte(src), &parser.ParserConfig{Funcs: map[string]any{"NM": func(i int) string { return "" }}})
	if err != nil {
		return obs, fmt.Errorf("generated program does not parse: %v\n%s", err, src)
	}
	names := pc.names
	var out, eb lockedBuf
	stdin, _ := k.stdin()
	cfg := &interp.Config{
		Stdin: strings.NewReader(stdin), Output: &out, Error: &eb,
		Args: k.Args, Vars: pc.vars, Environ: append([]string{}, pc.environ...), NoArgVars: k.NoArgVars,
		NoExec: k.NoExec, NoFileWrites: k.NoFileWrites, NoFileReads: k.NoFileReads,
		Funcs: map[string]any{"NM": func(i int) string {
			if i >= 0 && i < len(names) {
				return names[i]
			}
			return ""
		}},
	}
	if k.ShellOK {
		cfg.ShellCommand = []string{selfExe, "-recexec", logf}
	} else {
		cfg.ShellCommand = []string{filepath.Join(dir, "no-such-shell")}
	}
	if hook {
		obs.ShadowPrefix = shadow + string(os.PathSeparator)
		cfg.OpenFile = func(name string, flag int, perm os.FileMode) (*os.File, error) {
			p := name
			if name != "" && !filepath.IsAbs(name) {
				p = filepath.Join(shadow, name)
			}
			f, err := os.OpenFile(p, flag, perm)
			rec := openRec{Name: name, Flag: flagClass(flag), Res: "o"}
			if err != nil {
				rec.Res, rec.Err = "f", err.Error()
				if os.IsNotExist(err) {
					rec.Res = "n"
				}
			}
			obs.Opens = append(obs.Opens, rec)
			return f, err
		}
	}
	func() {
		defer func() {
			if r := recover(); r != nil {
				obs.Panic = fmt.Sprint(r)
			}
		}()
		if warm == 0 {
			_, err := interp.ExecProgram(prog, cfg)
			if err != nil {
				obs.Err = err.Error()
			}
			return
		}
		p, err := interp.New(prog)
		if err != nil {
			herr = err
			return
		}
		inObserved := false
		prime := *cfg
		var pout, perr lockedBuf
		prime.Stdin, prime.Output, prime.Error = strings.NewReader(stdin), &pout, &perr
		deny := warm == 1
		prime.NoExec, prime.NoFileWrites, prime.NoFileReads = deny, deny, deny
		if hook {
			prime.OpenFile = nil
		} else {
			prime.OpenFile = func(name string, flag int, perm os.FileMode) (*os.File, error) {
				if inObserved {
					obs.Stale = append(obs.Stale, name)
				}
				return os.OpenFile(name, flag, perm)
			}
		}
		func() {
			defer func() { recover() }()
			p.Execute(&prime)
		}()
		// put everything back as a first run finds it
		for _, d := range []string{work, shadow} {
			ents, _ := os.ReadDir(d)
			for _, e := range ents {
				os.RemoveAll(filepath.Join(d, e.Name()))
			}
		}
		os.Remove(logf)
		if hook {
			populate(work, decoyContent)
			populate(shadow, sameContent)
		} else {
			populate(work, sameContent)
		}
		p.ResetVars()
		p.ResetRand()
		inObserved = true
		obs.Opens = nil
		_, err = p.Execute(cfg)
		if err != nil {
			obs.Err = err.Error()
		}
	}()
	if herr != nil {
		return obs, herr
	}
	obs.Stdout, obs.Stderr = out.String(), eb.String()
	if b, err := os.ReadFile(logf); err == nil {
		for _, l := range strings.Split(strings.TrimSpace(string(b)), "\n") {
			if l != "" {
				obs.Execs = append(obs.Execs, string(hx.UnHex(l)))
			}
		}
		sort.Strings(obs.Execs)
	}
	if hook {
		obs.Files = snapshot(shadow)
		obs.Decoy = snapshot(work)
	} else {
		obs.Files = snapshot(work)
	}
	return obs, nil
}

// recexec: what Config.ShellCommand runs instead of a shell
func recexec(logf, code string) {
	f, err := os.OpenFile(logf, os.O_CREATE|os.O_WRONLY|os.O_APPEND, 0o644)
	if err == nil {
		f.WriteString(hx.HexS(code) + "\n")
		f.Close()
	}
	io.Copy(io.Discard, os.Stdin)
	os.Exit(0)
}

// ---------------------------------------------------------------- reading an observation

var sandboxMsgs = map[string]string{
	"can't write to file due to NoFileWrites": "nofilewrites",
	"can't write to pipe due to NoExec":       "noexec-pipeout",
	"can't read from file due to NoFileReads": "nofilereads",
	"can't read from pipe due to NoExec":      "noexec-pipein",
	"can't call system() due to NoExec":       "noexec-system",
	"can't write to reader stream":            "write-to-reader",
	"can't read from writer stream":           "read-from-writer",
}

func errTag(o runObs) string {
	if o.Panic != "" {
		return "panic"
	}
	if o.Err == "" {
		return "ok"
	}
	if t, ok := sandboxMsgs[o.Err]; ok {
		return "s" + t
	}
	if strings.HasPrefix(o.Err, "output redirection error: ") {
		return "sredirect"
	}
	if strings.HasPrefix(o.Err, "ARGC set too large") {
		return "sargc"
	}
	// the error of the open function returned unchanged
	if n := len(o.Opens); n > 0 && o.Opens[n-1].Err != "" && o.Opens[n-1].Err == o.Err {
		return "sopen"
	}
	if o.Opens == nil && strings.HasPrefix(o.Err, "open ") {
		return "sopen"
	}
	return "other:" + o.Err
}

// marks: progress marks "@k:r:x" in stdout -> return value text per completed operation
func marks(stdout string) map[int]string {
	m := map[int]string{}
	for _, l := range strings.Split(stdout, "\n") {
		if strings.HasPrefix(l, "@") {
			p := strings.SplitN(l[1:], ":", 3)
			if len(p) == 3 {
				if id, err := strconv.Atoi(p[0]); err == nil {
					m[id] = p[1]
				}
			}
		}
	}
	return m
}

func hasLine(text, line string) bool {
	for _, l := range strings.Split(text, "\n") {
		if l == line {
			return true
		}
	}
	return false
}

func newFiles(files map[string]string) []string {
	init := initialSnapshot(sameContent)
	var nf []string
	for n := range files {
		if _, ok := init[n]; !ok {
			nf = append(nf, n)
		}
	}
	sort.Strings(nf)
	return nf
}

func countStartFailures(stderr string) int {
	n := 0
	for _, l := range strings.Split(stderr, "\n") {
		if strings.HasPrefix(l, "fork/exec ") {
			n++
		}
	}
	return n
}

// canonical rendering of what run A showed, in the vocabulary of the model
func implCanon(k kase, o runObs) string {
	var sb strings.Builder
	sb.WriteString("opens=")
	for _, r := range o.Opens {
		sb.WriteString(r.Flag + hx.HexS(r.Name) + ",")
	}
	sb.WriteString(" execs=")
	if k.ShellOK {
		for _, c := range o.Execs {
			sb.WriteString(hx.HexS(c) + ",")
		}
	} else {
		fmt.Fprintf(&sb, "#%d", countStartFailures(o.Stderr))
	}
	ops := k.ops()
	mk := marks(o.Stdout)
	sb.WriteString(" done=")
	for i, p := range ops {
		r, ok := mk[i+1]
		if !ok {
			break
		}
		switch p.Kind {
		case "w", "a", "p":
			tok := fmt.Sprintf("T%d", i+1)
			switch {
			case hasLine(o.Stdout, tok):
				sb.WriteString("o")
			case hasLine(o.Stderr, tok):
				sb.WriteString("e")
			default:
				sb.WriteString(".")
			}
		case "v", "k":
			sb.WriteString(".")
		default:
			if r == "-1" {
				sb.WriteString("-")
			} else {
				sb.WriteString("+")
			}
		}
	}
	sb.WriteString(" new=" + strings.Join(newFiles(o.Files), ","))
	sb.WriteString(" end=" + errTag(o))
	return sb.String()
}

// ---------------------------------------------------------------- the model side

func (k kase) mainBound() int {
	if !k.HasMain && !k.HasEnd {
		return 0
	}
	n := len(k.Args) + 4
	maxc := len(k.Args) + 1
	for _, o := range k.ops() {
		if o.Kind == "v" {
			n++
		}
		if o.Kind == "k" && o.N > maxc && o.N <= 100 {
			maxc = o.N
		}
	}
	return (n + maxc) * 3
}

func reqStr(o op) string {
	switch o.Kind {
	case "G":
		return "G"
	case "v":
		return fmt.Sprintf("v%d:%s", o.N, hx.HexS(o.Name))
	case "k":
		return fmt.Sprintf("k%d", o.N)
	}
	return o.Kind + hx.HexS(o.Name)
}

func modelLine(k kase, opens []openRec) string {
	var h []string
	for _, o := range k.Begin {
		h = append(h, reqStr(o))
	}
	for i := 0; i < k.mainBound(); i++ {
		h = append(h, "M")
	}
	for _, o := range k.End {
		h = append(h, reqStr(o))
	}
	hist := "_"
	if len(h) > 0 {
		hist = strings.Join(h, ";")
	}
	args := "_"
	if len(k.Args) > 0 {
		var a []string
		for _, x := range k.Args {
			a = append(a, hx.HexS(x))
		}
		args = strings.Join(a, ",")
	}
	var recs []string
	for _, n := range []string{"in1", "in2", "empty"} {
		recs = append(recs, fmt.Sprintf("%s:%d", hx.HexS(n), fileRecords[n]))
	}
	ans := "_"
	if len(opens) > 0 {
		ans = ""
		for _, r := range opens {
			ans += r.Res
		}
	}
	st := "0"
	if k.ShellOK {
		st = "1"
	}
	_, nrec := k.stdin()
	return fmt.Sprintf("run %s %s %d %s %s %s %s", k.flagStr(), st, nrec, args, strings.Join(recs, ","), ans, hist)
}

// modelCanon turns the model's answer into the same canonical text as implCanon
func modelCanon(k kase, answer string, opens []openRec) string {
	type entry struct {
		effs []string
		out  string
	}
	var log []entry
	if answer != "_" {
		for _, e := range strings.Split(answer, ";") {
			p := strings.SplitN(e, "/", 2)
			if len(p) != 2 {
				return "unparsable:" + answer
			}
			var effs []string
			if p[0] != "" {
				effs = strings.Split(p[0], ",")
			}
			log = append(log, entry{effs, p[1]})
		}
	}
	nb, nm := len(k.Begin), k.mainBound()
	var sbOpens, sbDone strings.Builder
	var execs []string
	nstart := 0
	newSet := map[string]bool{}
	nopen := 0
	end := "ok"
	ops := k.ops()
	init := initialSnapshot(sameContent)
	for i, en := range log {
		opIdx := -1 // index into ops, -1 for a main-loop request
		switch {
		case i < nb:
			opIdx = i
		case i >= nb+nm:
			opIdx = i - nm
		}
		std := "."
		for _, ef := range en.effs {
			switch ef[0] {
			case 'O':
				sbOpens.WriteString(ef[1:2] + ef[2:] + ",")
				if nopen < len(opens) && opens[nopen].Res == "o" && (ef[1] == 't' || ef[1] == 'a') {
					n := string(hx.UnHex(ef[2:]))
					if _, ok := init[n]; !ok && !filepath.IsAbs(n) {
						newSet[n] = true
					}
				}
				nopen++
			case 'S':
				execs = append(execs, ef[1:])
				nstart++
			case 'U':
				if ef[1] == 'o' || ef[1] == 'e' {
					std = ef[1:2]
				}
			}
		}
		if strings.HasPrefix(en.out, "c") {
			if opIdx >= 0 && opIdx < len(ops) {
				switch ops[opIdx].Kind {
				case "w", "a", "p":
					sbDone.WriteString(std)
				case "v", "k":
					sbDone.WriteString(".")
				default:
					if en.out == "c-" {
						sbDone.WriteString("-")
					} else {
						sbDone.WriteString("+")
					}
				}
			}
		} else {
			end = en.out
		}
	}
	var nf []string
	for n := range newSet {
		nf = append(nf, n)
	}
	sort.Strings(nf)
	ex := ""
	if k.ShellOK {
		var cs []string
		for _, h := range execs {
			cs = append(cs, string(hx.UnHex(h)))
		}
		sort.Strings(cs)
		for _, c := range cs {
			ex += hx.HexS(c) + ","
		}
	} else {
		ex = fmt.Sprintf("#%d", nstart)
	}
	return "opens=" + sbOpens.String() + " execs=" + ex + " done=" + sbDone.String() + " new=" + strings.Join(nf, ",") + " end=" + end
}

// ---------------------------------------------------------------- search oracle (no model)

func opClass(kind string) string {
	return map[string]string{"w": "print-to-file", "a": "print-append-file", "p": "print-to-command", "r": "getline-from-file",
		"c": "command-to-getline", "s": "system", "x": "close", "f": "fflush", "G": "plain-getline-file-operand", "v": "argv-assign", "k": "argc-assign",
		"M": "main-loop-file-operand"}[kind]
}

// firstDefiniteAttempt: index (0-based, into ops) of the first operation that certainly asks
// for something a set flag forbids — its name was not used by any earlier operation and is not
// a standard-stream name — together with the flag name.  -1 if none.  For plain getline and
// the main loop: only when nothing before it touched ARGV/ARGC or consumed operands.
// The value len(ops) stands for "the main loop itself" (between BEGIN and END).
func firstDefiniteAttempt(k kase) (int, string, string) {
	used := map[string]bool{}
	firstOperandIsFile := func() bool {
		for _, a := range k.Args {
			if a == "" || (!k.NoArgVars && isAssign(a)) {
				continue
			}
			return a != "-"
		}
		return false
	}
	argvTouched := false
	scan := func(ops []op, base int) (int, string, string) {
		for i, o := range ops {
			fresh := !used[o.Name]
			switch o.Kind {
			case "w", "a":
				if k.NoFileWrites && fresh && o.Name != "-" && o.Name != "/dev/stdout" && o.Name != "/dev/stderr" {
					return base + i, "NoFileWrites", opClass(o.Kind)
				}
			case "p", "c", "s":
				if k.NoExec && (fresh || o.Kind == "s") {
					return base + i, "NoExec", opClass(o.Kind)
				}
			case "r":
				if k.NoFileReads && fresh && o.Name != "-" {
					return base + i, "NoFileReads", opClass(o.Kind)
				}
			case "G":
				if k.NoFileReads && !argvTouched && firstOperandIsFile() {
					return base + i, "NoFileReads", opClass(o.Kind)
				}
				argvTouched = true
			case "v", "k":
				argvTouched = true
			}
			if o.Kind != "v" && o.Kind != "k" && o.Kind != "G" {
				used[o.Name] = true
			}
		}
		return -1, "", ""
	}
	if i, f, c := scan(k.Begin, 0); i >= 0 {
		return i, f, c
	}
	if (k.HasMain || k.HasEnd) && k.NoFileReads && !argvTouched && firstOperandIsFile() {
		return len(k.Begin), "NoFileReads", opClass("M") // marks of END operations must not appear
	}
	return -1, "", ""
}

func detail(k kase, hook bool, o runObs, extra map[string]any) map[string]any {
	src, pc := k.program()
	stdin, _ := k.stdin()
	kj, _ := json.Marshal(k)
	d := map[string]any{
		"program": src, "args": k.Args, "vars": pc.vars, "environ": pc.environ, "native_NM": pc.names, "stdin": stdin,
		"NoExec": k.NoExec, "NoFileWrites": k.NoFileWrites, "NoFileReads": k.NoFileReads, "NoArgVars": k.NoArgVars,
		"custom_OpenFile": hook, "shell_ok": k.ShellOK, "case": string(kj),
		"files_before": "in1 (2 lines) in2 (1 line) empty (0 bytes) d/ (directory)",
		"got_error":    o.Err, "got_stdout": o.Stdout, "got_stderr": o.Stderr, "got_opens": fmt.Sprint(o.Opens),
		"got_execs": fmt.Sprint(o.Execs), "got_new_files": newFiles(o.Files),
	}
	for a, b := range extra {
		d[a] = b
	}
	return d
}

// oracle: the property's own clauses, evaluated on one run of the implementation
func oracle(k kase, hook bool, o runObs, rep *hx.Report) {
	rep.SearchEvals++
	mode := "default-open"
	if hook {
		mode = "custom-OpenFile"
	}
	fail := func(class, orc string, extra map[string]any) {
		rep.Fail(hx.Failure{Class: class, Oracle: orc, Detail: detail(k, hook, o, extra)})
	}
	if o.Panic != "" {
		fail("panic/"+mode, "no panic", map[string]any{"panic": o.Panic})
		return
	}
	all := o.Stdout + o.Stderr
	// NoExec: no process is started
	if k.NoExec && (len(o.Execs) > 0 || countStartFailures(o.Stderr) > 0) {
		fail("process-started-under-NoExec/"+mode, "NoExec: no process start", map[string]any{"expected": "no command logged, no fork/exec message"})
	}
	// NoFileWrites: nothing created, truncated or appended
	if k.NoFileWrites {
		for _, r := range o.Opens {
			if r.Flag != "r" {
				fail("write-open-under-NoFileWrites/"+mode, "NoFileWrites: no open for writing", map[string]any{"open": fmt.Sprint(r)})
				break
			}
		}
		if !sameMap(o.Files, initialSnapshot(sameContent)) {
			fail("files-changed-under-NoFileWrites/"+mode, "NoFileWrites: directory unchanged", map[string]any{"files_after": fmt.Sprint(o.Files)})
		}
	}
	// NoFileReads: no file opened for reading, no file content reaches the program
	if k.NoFileReads {
		for _, r := range o.Opens {
			if r.Flag == "r" {
				fail("read-open-under-NoFileReads/"+mode, "NoFileReads: no open for reading", map[string]any{"open": fmt.Sprint(r)})
				break
			}
		}
		if strings.Contains(all, "DATA-") {
			fail("file-content-read-under-NoFileReads/"+mode, "NoFileReads: no file content reaches the program", nil)
		}
	}
	// custom OpenFile: everything goes through it (the working directory holds decoys)
	if hook {
		if !sameMap(o.Decoy, initialSnapshot(decoyContent)) {
			fail("file-touched-outside-OpenFile", "custom OpenFile: every file is opened through it", map[string]any{"working_dir_after": fmt.Sprint(o.Decoy)})
		}
		if strings.Contains(all, "BYPASS-") {
			fail("file-read-outside-OpenFile", "custom OpenFile: every file is opened through it", nil)
		}
	}
	// a denied attempt ends the run with an error
	if i, flag, cls := firstDefiniteAttempt(k); i >= 0 {
		mk := marks(o.Stdout)
		completed := false
		if cls != opClass("M") {
			_, completed = mk[i+1]
		} else {
			completed = hasLine(o.Stdout, "end-reached") || o.Err == ""
		}
		// an earlier operation may have ended the run for another reason: then the attempt never happened
		earlier := false
		for j := 0; j < i && j < len(k.ops()); j++ {
			if _, ok := mk[j+1]; !ok {
				earlier = true
			}
		}
		if !earlier {
			_, isSandboxErr := sandboxMsgs[o.Err]
			if completed || o.Err == "" || !isSandboxErr {
				fail(cls+"-under-"+flag, "a denied attempt ends the run with an error",
					map[string]any{"attempt_operation": i + 1, "flag": flag, "expected": "ExecProgram returns the " + flag + " error and nothing after the attempt runs"})
			}
		}
	}
}

// opensKey: the recorded opens without the error text (which names the run's own directory)
func opensKey(rs []openRec) string {
	var sb strings.Builder
	for _, r := range rs {
		fmt.Fprintf(&sb, "%q/%s/%s;", r.Name, r.Flag, r.Res)
	}
	return sb.String()
}

// oracleW: the property's clauses on the second Execute of a reused interpreter
func oracleW(k kase, hook bool, warm int, o runObs, rep *hx.Report) {
	n := len(rep.Failures)
	oracle(k, hook, o, rep)
	for i := n; i < len(rep.Failures); i++ {
		rep.Failures[i].Detail["warm"] = warm
		rep.Failures[i].Detail["history"] = "second Execute of a reused Interpreter; the first had the other kind of open function and " + map[int]string{1: "all three deny flags", 2: "no deny flag"}[warm]
	}
	if len(o.Stale) > 0 {
		rep.Fail(hx.Failure{Class: "file-opened-through-previous-OpenFile/reused-interpreter", Oracle: "the open function is the one of this Execute's Config",
			Detail: detail(k, hook, o, map[string]any{"warm": warm, "opened_through_previous_function": fmt.Sprint(o.Stale)})})
	}
}

// stdinOracle: standard input stays available under every flag combination
func stdinOracle(rep *hx.Report, root string) {
	progs := []struct {
		src  string
		args []string
		want string
	}{
		{`BEGIN { while ((getline x < "-") > 0) print "got:" x }`, nil, "got:s1\ngot:s2\n"},
		{`{ print "rec:" $0 }`, nil, "rec:s1\nrec:s2\n"},
		{`{ print "rec:" $0 }`, []string{"-"}, "rec:s1\nrec:s2\n"},
		{`BEGIN { getline; print "first:" $0 } { print "rec:" $0 }`, []string{"v=1", "", "-"}, "first:s1\nrec:s2\n"},
		{`BEGIN { n = "-"; getline x < n; print "got:" x; close(n); print "t" > n }`, nil, "got:s1\nt\n"},
	}
	for f := 0; f < 8; f++ {
		for _, hook := range []bool{false, true} {
			for _, p := range progs {
				rep.SearchEvals++
				prog, err := parser.ParseProgram([]byte(p.src), nil)
				if err != nil {
					rep.HarnessError("stdin oracle program: %v", err)
					return
				}
				var out bytes.Buffer
				cfg := &interp.Config{Stdin: strings.NewReader("s1\ns2\n"), Output: &out, Error: &out, Args: p.args, Environ: []string{},
					NoExec: f&1 != 0, NoFileWrites: f&2 != 0, NoFileReads: f&4 != 0}
				opened := 0
				if hook {
					cfg.OpenFile = func(name string, flag int, perm os.FileMode) (*os.File, error) {
						opened++
						return nil, os.ErrNotExist
					}
				}
				_, err = interp.ExecProgram(prog, cfg)
				if err != nil || out.String() != p.want || opened != 0 {
					rep.Fail(hx.Failure{Class: "standard-input", Oracle: "standard input (also as \"-\") stays available", Detail: map[string]any{
						"program": p.src, "args": p.args, "stdin": "s1\ns2\n", "NoExec": f&1 != 0, "NoFileWrites": f&2 != 0, "NoFileReads": f&4 != 0,
						"custom_OpenFile": hook, "want_stdout": p.want, "got_stdout": out.String(), "got_error": fmt.Sprint(err), "opens": opened}})
				}
			}
		}
	}
}

// ---------------------------------------------------------------- generation

func withFlags(k kase, f int) kase {
	k.NoExec, k.NoFileWrites, k.NoFileReads = f&1 != 0, f&2 != 0, f&4 != 0
	return k
}

// sanitize: names the harness must not really read (the process's own stdout/stderr, a
// directory) or write (the operand files, whose record counts the model is told)
func sanitize(k kase) kase {
	fix := func(ops []op) []op {
		out := make([]op, len(ops))
		for i, o := range ops {
			if o.Kind == "r" && (o.Name == "d" || o.Name == "sub/x" || o.Name == "a b" || o.Name == "/dev/stdout" || o.Name == "/dev/stderr") {
				o.Name = "/dev/null"
			}
			if (o.Kind == "w" || o.Kind == "a") && (o.Name == "in1" || o.Name == "in2" || o.Name == "empty" || o.Name == "missing") {
				o.Name = "out2"
			}
			out[i] = o
		}
		return out
	}
	k.Begin, k.End = fix(k.Begin), fix(k.End)
	return k
}

func genCases(o hx.Opts, r *hx.Rand) []kase {
	var ks []kase
	add := func(k kase) {
		for f := 0; f < 8; f++ {
			ks = append(ks, sanitize(withFlags(k, f)))
		}
	}
	ex := 0
	nx := func() int { ex++; return ex }
	// 1. every I/O form alone x every name of its pool
	for _, n := range writePool {
		add(kase{ShellOK: true, Begin: []op{{Kind: "w", Name: n, Expr: nx(), Form: nx()}}, Tag: "single"})
		add(kase{ShellOK: true, Begin: []op{{Kind: "a", Name: n, Expr: nx(), Form: nx()}}, Tag: "single"})
	}
	for _, n := range readPool {
		add(kase{ShellOK: true, Begin: []op{{Kind: "r", Name: n, Expr: nx(), Form: nx()}}, Tag: "single"})
	}
	for _, n := range cmdPool {
		for _, sh := range []bool{true, false} {
			add(kase{ShellOK: sh, Begin: []op{{Kind: "p", Name: n, Expr: nx(), Form: nx()}}, Tag: "single"})
			add(kase{ShellOK: sh, Begin: []op{{Kind: "c", Name: n, Expr: nx(), Form: nx()}}, Tag: "single"})
			add(kase{ShellOK: sh, Begin: []op{{Kind: "s", Name: n, Expr: nx()}}, Tag: "single"})
		}
	}
	for _, n := range []string{"out1", "", "-", "c1", "/dev/stdout"} {
		add(kase{ShellOK: true, Begin: []op{{Kind: "f", Name: n, Expr: nx()}}, Tag: "single"})
		add(kase{ShellOK: true, Begin: []op{{Kind: "w", Name: n, Expr: nx()}, {Kind: "f", Name: n, Expr: nx()}, {Kind: "x", Name: n}, {Kind: "f", Name: n}}, Tag: "pair"})
	}
	// 2. operands: each alone and in pairs, read by the main loop, by plain getline, and named at run time
	for _, a := range operandPool {
		for _, nav := range []bool{false, true} {
			add(kase{ShellOK: true, Args: []string{a}, HasMain: true, NoArgVars: nav, Tag: "operand"})
			add(kase{ShellOK: true, Args: []string{a}, Begin: []op{{Kind: "G", Form: nx()}}, HasEnd: true, NoArgVars: nav, Tag: "operand"})
			add(kase{ShellOK: true, Args: []string{"placeholder"}, Begin: []op{{Kind: "v", N: 1, Name: a, Expr: nx()}}, HasMain: true, NoArgVars: nav, Tag: "operand"})
		}
		for _, b := range operandPool {
			add(kase{ShellOK: true, Args: []string{a, b}, HasMain: true, HasEnd: true, Begin: []op{{Kind: "G"}, {Kind: "G", Form: 1}}, End: []op{{Kind: "G"}}, Tag: "operand"})
		}
	}
	add(kase{ShellOK: true, Args: []string{"in1"}, Begin: []op{{Kind: "k", N: 3}, {Kind: "v", N: 2, Name: "in2", Expr: 2}}, HasMain: true, Tag: "operand"})
	add(kase{ShellOK: true, Args: []string{"in1", "in2"}, Begin: []op{{Kind: "k", N: 1}}, HasMain: true, Tag: "operand"})
	add(kase{ShellOK: true, Args: []string{"in1", "in2"}, Begin: []op{{Kind: "k", N: 2000000}}, HasMain: true, Tag: "operand"})
	// 3. pairs on the same name: reuse, reader/writer clash, close and reopen
	kinds := []string{"w", "a", "p", "r", "c"}
	for _, k1 := range kinds {
		for _, k2 := range kinds {
			for _, n := range []string{"out1", "-", "c1", "/dev/stdout"} {
				add(kase{ShellOK: true, Begin: []op{{Kind: k1, Name: n, Expr: nx()}, {Kind: k2, Name: n, Expr: nx()}}, Tag: "pair"})
				add(kase{ShellOK: true, Begin: []op{{Kind: k1, Name: n, Expr: nx()}, {Kind: "x", Name: n, Expr: nx()}, {Kind: k2, Name: n, Expr: nx()}, {Kind: "x", Name: n}}, InFunc: true, Tag: "close-reopen"})
			}
		}
	}
	// 4. random scripts
	n := o.N
	if n == 0 {
		n = 700
		if o.Tier == "thorough" {
			n = 20000
		}
	}
	for i := 0; i < n; i++ {
		// a small per-case vocabulary makes collisions (reuse, clashes) frequent
		voc := []string{r.Pick(writePool), r.Pick(readPool), r.Pick(cmdPool), r.Pick(writePool)}
		pick := func(pool []string) string {
			if r.Intn(3) == 0 {
				return r.Pick(pool)
			}
			return r.Pick(voc)
		}
		k := kase{ShellOK: r.Intn(8) != 0, NoArgVars: r.Intn(4) == 0, InFunc: r.Intn(5) == 0, Tag: "random"}
		for j, na := 0, r.Intn(4); j < na; j++ {
			k.Args = append(k.Args, r.Pick(operandPool))
		}
		k.HasMain = r.Intn(3) != 0
		k.HasEnd = r.Intn(2) == 0
		gen := func() op {
			o := op{Form: r.Intn(6), Expr: r.Intn(10)}
			switch r.Intn(14) {
			case 0, 1:
				o.Kind, o.Name = "w", pick(writePool)
			case 2, 3:
				o.Kind, o.Name = "a", pick(writePool)
			case 4:
				o.Kind, o.Name = "p", pick(cmdPool)
			case 5, 6:
				o.Kind, o.Name = "r", pick(readPool)
			case 7:
				o.Kind, o.Name = "c", pick(cmdPool)
			case 8:
				o.Kind, o.Name = "s", pick(cmdPool)
			case 9:
				o.Kind, o.Name = "x", r.Pick(voc)
			case 10:
				if r.Bool() {
					o.Kind, o.Name = "x", r.Pick(voc)
				} else {
					o.Kind, o.Name = "f", r.Pick(voc)
				}
			case 11, 12:
				o.Kind = "G"
			default:
				if r.Bool() {
					o.Kind, o.N, o.Name = "v", 1+r.Intn(4), r.Pick(operandPool)
				} else {
					o.Kind, o.N = "k", r.Intn(5)
				}
			}
			return o
		}
		for j, nb := 0, 1+r.Intn(7); j < nb; j++ {
			k.Begin = append(k.Begin, gen())
		}
		if k.HasEnd {
			for j, ne := 0, r.Intn(4); j < ne; j++ {
				k.End = append(k.End, gen())
			}
		}
		ks = append(ks, sanitize(withFlags(k, r.Intn(8))))
	}
	return ks
}

// spawns: how many processes the case may start (each costs milliseconds)
func (k kase) spawns() int {
	if k.NoExec {
		return 0
	}
	n := 0
	for _, o := range k.ops() {
		if o.Kind == "p" || o.Kind == "c" || o.Kind == "s" {
			n++
		}
	}
	return n
}

// quickSubset: the quick tier keeps every case that starts no process, the single-operation
// process cases (four names without flags, one name under the other flag combinations / with a
// failing shell) and every 40th of the remaining process-starting cases; the thorough tier runs them all.
func quickSubset(ks []kase) []kase {
	var out []kase
	n := 0
	for _, k := range ks {
		keep := k.spawns() == 0
		if !keep && k.Tag == "single" {
			nm := k.Begin[0].Name
			plain := !k.NoFileWrites && !k.NoFileReads
			keep = (plain && k.ShellOK && (nm == "out1" || nm == "-" || nm == "echo hi")) || (nm == "c1" && (plain || k.ShellOK))
		}
		if !keep {
			n++
			keep = n%40 == 0
		}
		if keep {
			out = append(out, k)
		}
	}
	return out
}

// ---------------------------------------------------------------- main

func corrClass(k kase) string {
	f := ""
	if k.NoExec {
		f += "E"
	}
	if k.NoFileWrites {
		f += "W"
	}
	if k.NoFileReads {
		f += "R"
	}
	if f == "" {
		f = "none"
	}
	return k.Tag + "/flags=" + f
}

func normErr(o runObs) string {
	e := o.Err
	if o.ShadowPrefix != "" {
		e = strings.ReplaceAll(e, o.ShadowPrefix, "")
	}
	return e
}

type workerResult struct {
	Idx  int
	Line string
	A, B runObs
	OK   bool
	Errs []string
	W     runObs // the warm run (second Execute of a reused interpreter)
	WHook bool
	WMode int
	WOK   bool
}

var tSpawn, tNoSpawn time.Duration
var nSpawn, nNoSpawn int

var warmCounter int

// warmRun: the case once more as the second Execute of a reused interpreter; which of the
// four (open function kind x priming flags) variants is taken rotates from case to case
func warmRun(k kase, root string, rep *hx.Report) (runObs, bool, int, bool) {
	warmCounter++
	hook := warmCounter%2 == 0
	warm := 1 + (warmCounter/2)%2
	w, err := runImplW(k, hook, root, warm)
	if err != nil {
		rep.HarnessError("warm run: %v", err)
		return w, hook, warm, false
	}
	return w, hook, warm, true
}

func evalCase(k kase, root string, rep *hx.Report) (string, runObs, runObs, bool) {
	t0 := time.Now()
	defer func() {
		if k.spawns() > 0 {
			tSpawn += time.Since(t0)
			nSpawn++
		} else {
			tNoSpawn += time.Since(t0)
			nNoSpawn++
		}
	}()
	a, err := runImpl(k, true, root)
	if err != nil {
		rep.HarnessError("run A: %v", err)
		return "", a, a, false
	}
	b, err := runImpl(k, false, root)
	if err != nil {
		rep.HarnessError("run B: %v", err)
		return "", a, b, false
	}
	return modelLine(k, a.Opens), a, b, true
}

func main() {
	if len(os.Args) == 4 && os.Args[1] == "-recexec" {
		recexec(os.Args[2], os.Args[3])
		return
	}
	// few scheduler threads: the work is sequential (one working directory per process) and
	// idle spinning of 16 Ps costs more than the cases themselves; inherited by the recexec helper
	runtime.GOMAXPROCS(2)
	os.Setenv("GOMAXPROCS", "1")
	worker := flag.String("worker", "", "internal: i/W, run shard i of W and print the observations")
	o := hx.ParseFlags()
	var err error
	selfExe, err = os.Executable()
	if err != nil {
		panic(err)
	}
	rep := hx.NewReport("C12", o.Seed, o.Tier)
	rep.Rule = "systematic: every I/O form alone x every name of its pool (standard-stream names, missing, unwritable, numeric, with blank) x 8 flag combinations x working/failing shell; every operand kind alone and in pairs read by the main loop / plain getline / ARGV assigned at run time; all ordered pairs of forms on one name with and without close in between; fflush alone and around open/close; then random scripts of 1-11 operations over a small per-case vocabulary. Every case runs with a custom OpenFile (recording, redirecting into a shadow directory) and with the default. distinct = distinct model request line; non-trivial = the script performs at least one operation or has an operand"
	// a memory file system when there is one: a run creates and removes a dozen files
	root, err := os.MkdirTemp("/dev/shm", "c12-")
	if err != nil {
		root, err = os.MkdirTemp("", "c12-")
	}
	if err != nil {
		panic(err)
	}
	defer os.RemoveAll(root)
	if o.Replay != "" {
		os.Exit(replay(o, root))
	}
	r := hx.NewRand(o.Seed)
	ks := genCases(o, r)
	if o.Tier != "thorough" {
		ks = quickSubset(ks)
	}
	if *worker != "" {
		// worker i/W: run the cases with index = i mod W, one JSON result per line on stdout
		var i, w int
		fmt.Sscanf(*worker, "%d/%d", &i, &w)
		enc := json.NewEncoder(os.Stdout)
		for idx, k := range ks {
			if idx%w != i {
				continue
			}
			line, a, b, ok := evalCase(k, root, rep)
			w, wh, wm, wok := warmRun(k, root, rep)
			enc.Encode(workerResult{Idx: idx, Line: line, A: a, B: b, OK: ok, Errs: rep.HarnessErrors, W: w, WHook: wh, WMode: wm, WOK: wok})
			rep.HarnessErrors = nil
		}
		return
	}
	// the cases are spread over worker processes (each needs its own working directory)
	nw := 1
	if o.Tier == "thorough" {
		nw = runtime.NumCPU() / 4
		if nw > 4 {
			nw = 4
		}
		if nw < 1 {
			nw = 1
		}
	}
	results := make([]*workerResult, len(ks))
	var wg sync.WaitGroup
	var mu sync.Mutex
	if nw == 1 {
		for idx, k := range ks {
			line, a, b, ok := evalCase(k, root, rep)
			w, wh, wm, wok := warmRun(k, root, rep)
			results[idx] = &workerResult{Idx: idx, Line: line, A: a, B: b, OK: ok, W: w, WHook: wh, WMode: wm, WOK: wok}
		}
	}
	for i := 0; i < nw && nw > 1; i++ {
		wg.Add(1)
		go func(i int) {
			defer wg.Done()
			cmd := exec.Command(selfExe, "-seed", fmt.Sprint(o.Seed), "-tier", o.Tier, "-n", fmt.Sprint(o.N), "-worker", fmt.Sprintf("%d/%d", i, nw))
			var errb bytes.Buffer
			cmd.Stderr = &errb
			outp, err := cmd.Output()
			mu.Lock()
			defer mu.Unlock()
			if err != nil {
				rep.HarnessError("worker %d: %v: %s", i, err, errb.String())
				return
			}
			dec := json.NewDecoder(bytes.NewReader(outp))
			for dec.More() {
				var wr workerResult
				if err := dec.Decode(&wr); err != nil {
					rep.HarnessError("worker %d output: %v", i, err)
					return
				}
				for _, e := range wr.Errs {
					rep.HarnessError("%s", e)
				}
				if wr.Idx >= 0 && wr.Idx < len(results) {
					w := wr
					results[wr.Idx] = &w
				}
			}
		}(i)
	}
	wg.Wait()
	lines := make([]string, 0, len(ks))
	as := make([]runObs, 0, len(ks))
	bs := make([]runObs, 0, len(ks))
	kept := make([]kase, 0, len(ks))
	var ws []*workerResult
	for idx, k := range ks {
		wr := results[idx]
		if wr == nil {
			rep.HarnessError("case %d: no result from its worker", idx)
			continue
		}
		if !wr.OK {
			continue
		}
		kept = append(kept, k)
		lines = append(lines, wr.Line)
		as = append(as, wr.A)
		bs = append(bs, wr.B)
		ws = append(ws, wr)
	}
	model, err := hx.ModelEval(o.ModelRun, lines)
	if err != nil {
		rep.HarnessError("%v", err)
	}
	for i, k := range kept {
		a, b := as[i], bs[i]
		rep.CorrEvals++
		rep.Count("case:" + corrClass(k))
		if len(k.ops()) > 0 || len(k.Args) > 0 {
			rep.Distinct(lines[i])
		}
		ic := implCanon(k, a)
		if i%211 == 0 {
			src, _ := k.program()
			rep.Sample(map[string]any{"program": src, "args": k.Args, "flags(noExec,noFileWrites,noFileReads,noArgVars)": k.flagStr(), "request": lines[i], "observed": ic})
		}
		if model != nil {
			mc := modelCanon(k, model[i], a.Opens)
			if mc != ic {
				src, _ := k.program()
				rep.Mismatch(hx.Mismatch{Class: corrClass(k), Input: lines[i], Impl: ic, Model: mc, Note: "program:\n" + src + "args: " + fmt.Sprintf("%q", k.Args) + " model answer: " + model[i]})
			}
		}
		// run B (default open function) must behave exactly like run A
		if b.Stdout != a.Stdout || normErr(b) != normErr(a) || !sameMap(a.Files, b.Files) || fmt.Sprint(a.Execs) != fmt.Sprint(b.Execs) ||
			countStartFailures(a.Stderr) != countStartFailures(b.Stderr) {
			src, _ := k.program()
			rep.Mismatch(hx.Mismatch{Class: corrClass(k) + "/default-vs-custom-open", Input: lines[i],
				Impl:  fmt.Sprintf("default open: stdout=%q err=%q files=%v execs=%v", b.Stdout, normErr(b), b.Files, b.Execs),
				Model: fmt.Sprintf("custom open:  stdout=%q err=%q files=%v execs=%v", a.Stdout, normErr(a), a.Files, a.Execs),
				Note:  "program:\n" + src})
		}
		oracle(k, true, a, rep)
		oracle(k, false, b, rep)
		// the same case as the second Execute of a reused interpreter configured differently before
		if wr := ws[i]; wr.WOK {
			w, cold := wr.W, b
			if wr.WHook {
				cold = a
			}
			rep.CorrEvals++
			rep.Count(fmt.Sprintf("reused-interpreter:custom-open=%v,primed-with=%s", wr.WHook, map[int]string{1: "deny-all", 2: "allow-all"}[wr.WMode]))
			if w.Stdout != cold.Stdout || normErr(w) != normErr(cold) || !sameMap(w.Files, cold.Files) || fmt.Sprint(w.Execs) != fmt.Sprint(cold.Execs) ||
				countStartFailures(w.Stderr) != countStartFailures(cold.Stderr) || opensKey(w.Opens) != opensKey(cold.Opens) {
				src, _ := k.program()
				rep.Mismatch(hx.Mismatch{Class: corrClass(k) + "/reused-interpreter", Input: lines[i],
					Impl:  fmt.Sprintf("second Execute: stdout=%q err=%q files=%v execs=%v opens=%v", w.Stdout, normErr(w), w.Files, w.Execs, w.Opens),
					Model: fmt.Sprintf("new interpreter: stdout=%q err=%q files=%v execs=%v opens=%v", cold.Stdout, normErr(cold), cold.Files, cold.Execs, cold.Opens),
					Note:  fmt.Sprintf("custom OpenFile=%v warm=%d program:\n%s", wr.WHook, wr.WMode, src)})
			}
			oracleW(k, wr.WHook, wr.WMode, w, rep)
		}
	}
	stdinOracle(rep, root)
	if os.Getenv("C12_TIMING") != "" {
		fmt.Fprintf(os.Stderr, "spawn cases %d: %v; other cases %d: %v\n", nSpawn, tSpawn, nNoSpawn, tNoSpawn)
	}
	rep.Write(o.Out)
}

func replay(o hx.Opts, root string) int {
	b, err := os.ReadFile(o.Replay)
	if err != nil {
		fmt.Println(err)
		return 2
	}
	var doc struct {
		Failure hx.Failure `json:"failure"`
	}
	if err := json.Unmarshal(b, &doc); err != nil {
		fmt.Println(err)
		return 2
	}
	rep := hx.NewReport("C12", o.Seed, o.Tier)
	cs, _ := doc.Failure.Detail["case"].(string)
	if cs == "" {
		// a standard-input oracle failure: rerun that family
		stdinOracle(rep, root)
	} else {
		var k kase
		if err := json.Unmarshal([]byte(cs), &k); err != nil {
			fmt.Println(err)
			return 2
		}
		hook, _ := doc.Failure.Detail["custom_OpenFile"].(bool)
		warm := 0
		if wf, ok := doc.Failure.Detail["warm"].(float64); ok {
			warm = int(wf)
		}
		obs, err := runImplW(k, hook, root, warm)
		if err != nil {
			fmt.Println(err)
			return 2
		}
		src, _ := k.program()
		fmt.Printf("program:\n%sargs: %q flags(noExec,noFileWrites,noFileReads,noArgVars)=%s custom OpenFile=%v\n", src, k.Args, k.flagStr(), hook)
		fmt.Printf("error: %q\nstdout: %q\nstderr: %q\nopens: %v\nexecs: %v\nnew files: %v\n", obs.Err, obs.Stdout, obs.Stderr, obs.Opens, obs.Execs, newFiles(obs.Files))
		if warm > 0 {
			oracleW(k, hook, warm, obs, rep)
		} else {
			oracle(k, hook, obs, rep)
		}
	}
	for _, f := range rep.Failures {
		fmt.Printf("STILL FAILS: class=%s oracle=%s expected=%v\n", f.Class, f.Oracle, f.Detail["expected"])
	}
	if len(rep.Failures) > 0 {
		return 1
	}
	fmt.Println("no longer fails")
	return 0
}
