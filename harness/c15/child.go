// C15, child processes (quick tier): transparency and promptness of waits for shell commands.
//
// Transparency: for a handful of commands (exit status, output on stdout/stderr, killed by a
// signal, exec'd directly, and commands whose backgrounded grandchild outlives the shell and keeps
// the command's stdout/stderr open) Execute, ExecuteContext(context.Background()) and
// ExecuteContext(a cancellable context nobody cancels) must give the same output, error output,
// system()/close() values and returned error.  Output and Error are buffers (not *os.File), so
// os/exec copies through pipes and Cmd.Wait has to decide how long to wait for them.
//
// Promptness: the context is cancelled once a marker file shows that the grandchild exists; the
// call must return the context's error within a generous bound although the orphan would hold the
// pipes for 8 s.
//
// No sleeps for synchronisation: the command touches a marker file when the grandchild exists and
// the script waits for it through the native function wait_for(path) / cancel_when(path).  Every
// run has its own marker and is bounded generously (4 s against the 250 ms WaitDelay; the orphan lives 8 s).
package main

import (
	"bytes"
	"context"
	"errors"
	"fmt"
	"os"
	"path/filepath"
	"strings"
	"sync"
	"sync/atomic"
	"time"

	"github.com/benhoyt/goawk/interp"
	"github.com/benhoyt/goawk/parser"
	"verif/harness/hx"
)

const (
	childBound   = 4 * time.Second  // a run without cancellation / the return after cancellation
	childGiveUp  = 20 * time.Second // reported as "does not return"
	markerPlace  = "@M@"
)

type childCase struct{ class, src string }

var childTransparency = []childCase{
	{"child/exit-status", `BEGIN { r = system("exit 3"); print "r", r }`},
	{"child/stdout-stderr", `BEGIN { r = system("echo out; echo err >&2"); print "r", r; "echo piped" | getline x; print "x", x }`},
	{"child/killed-by-signal", `BEGIN { r = system("kill -9 $$"); print "r", r }`},
	{"child/exec-direct", `BEGIN { r = system("exec sleep 0.05"); print "r", r }`},
	{"child/orphan-holds-pipes/system", `BEGIN { r = system("sleep 8 & touch @M@"); wait_for("@M@"); print "r", r }`},
	{"child/orphan-holds-pipes/system-exit-status", `BEGIN { r = system("sleep 8 & touch @M@; exit 4"); wait_for("@M@"); print "r", r }`},
	{"child/orphan-holds-pipes/getline-close", `BEGIN { c = "sleep 8 & touch @M@; echo hi"; c | getline x; wait_for("@M@"); r = close(c); print "x", x, "r", r }`},
	{"child/orphan-holds-pipes/print-close", `BEGIN { c = "sleep 8 & touch @M@; cat >/dev/null"; print "x" | c; wait_for("@M@"); r = close(c); print "r", r }`},
	{"child/orphan-holds-pipes/print-closeall-in-function", `function w(c) { print "x" | c; wait_for("@M@"); return 1 } BEGIN { a[1]; for (k in a) w("sleep 8 & touch @M@; cat >/dev/null"); print "end" }`},
}

var childCancel = []childCase{
	{"child-cancel/system-wait", `BEGIN { print "before"; cancel_when("@M@"); system("sleep 8 & touch @M@; wait"); while (1) n++ }`},
	{"child-cancel/getline-pipe-in-function-in-forin", `function rd(cmd,   line) { cmd | getline line; return line } BEGIN { print "before"; cancel_when("@M@"); a[1]; for (k in a) rd("sleep 8 & touch @M@; wait; echo x"); while (1) n++ }`},
	{"child-cancel/output-pipe-open-in-END", `END { print "before"; cancel_when("@M@"); print "x" | "sleep 8 & touch @M@; cat >/dev/null; wait"; while (1) n++ }`},
	{"child-cancel/system-then-close-of-input-pipe", `BEGIN { print "before"; c = "sleep 8 & touch @M@; echo y; wait"; c | getline y; cancel_when("@M@"); close(c); while (1) n++ }`},
}

type childObs struct {
	out, errOut, err string
	status           int
	elapsed          time.Duration // whole run
	afterCancel      time.Duration // return - cancellation (cancel family)
	cancelled        bool
	ctxCanceled      bool
	gaveUp           bool
}

func (o childObs) values() string {
	return fmt.Sprintf("status=%d err=%q out=%q error-output=%q", o.status, o.err, o.out, o.errOut)
}

func waitFor(path string) {
	deadline := time.Now().Add(10 * time.Second)
	for time.Now().Before(deadline) {
		if _, err := os.Stat(path); err == nil {
			return
		}
		time.Sleep(2 * time.Millisecond)
	}
}

// runChild: mode exec | bg | live (cancellable, never cancelled) | cancel (cancelled when the marker exists)
func runChild(src, mode, dir string, id int) childObs {
	marker := filepath.Join(dir, fmt.Sprintf("m%d", id))
	text := strings.ReplaceAll(src, markerPlace, marker)
	var ctx context.Context
	var cancel context.CancelFunc = func() {}
	var cancelledAt atomic.Int64
	switch mode {
	case "bg":
		ctx = context.Background()
	case "live", "cancel":
		ctx, cancel = context.WithCancel(context.Background())
	}
	defer cancel()
	funcs := map[string]any{
		"wait_for": func(path string) { waitFor(path) },
		"cancel_when": func(path string) {
			go func() {
				waitFor(path)
				cancelledAt.Store(time.Now().UnixNano())
				cancel()
			}()
		},
	}
	prog, err := parser.ParseProgram([]byte(text), &parser.ParserConfig{Funcs: funcs})
	if err != nil {
		return childObs{err: "parse: " + err.Error()}
	}
	it, _ := interp.New(prog)
	var out, errb bytes.Buffer
	cfg := &interp.Config{Stdin: strings.NewReader("1\n"), Output: &out, Error: &errb, Environ: []string{"PATH", os.Getenv("PATH")}, Funcs: funcs}
	type ret struct {
		st  int
		err error
		at  time.Time
	}
	done := make(chan ret, 1)
	t0 := time.Now()
	go func() {
		var st int
		var err error
		if mode == "exec" {
			st, err = it.Execute(cfg)
		} else {
			st, err = it.ExecuteContext(ctx, cfg)
		}
		done <- ret{st, err, time.Now()}
	}()
	var r ret
	select {
	case r = <-done:
	case <-time.After(childGiveUp):
		return childObs{gaveUp: true, elapsed: childGiveUp}
	}
	o := childObs{status: r.st, elapsed: r.at.Sub(t0)}
	o.out = strings.ReplaceAll(out.String(), marker, markerPlace)
	o.errOut = strings.ReplaceAll(errb.String(), marker, markerPlace)
	if r.err != nil {
		o.err = strings.ReplaceAll(r.err.Error(), marker, markerPlace)
		o.ctxCanceled = errors.Is(r.err, context.Canceled)
	}
	if at := cancelledAt.Load(); at != 0 {
		o.cancelled = true
		o.afterCancel = r.at.Sub(time.Unix(0, at))
	}
	return o
}

// One attempt at a transparency case: the three modes (at most two runs at a time), judged against Execute.
// Returns the failures it would report (nothing is reported yet) and the slowest run.
func childTransparencyAttempt(c childCase, dir string, id *int, sequential bool) ([]hx.Failure, time.Duration) {
	modes := []string{"exec", "bg", "live"}
	res := map[string]childObs{}
	var mu sync.Mutex
	var wg sync.WaitGroup
	for _, m := range modes {
		*id++
		run := func(m string, id int) {
			o := runChild(c.src, m, dir, id)
			mu.Lock()
			res[m] = o
			mu.Unlock()
		}
		if sequential {
			run(m, *id)
		} else {
			wg.Add(1)
			go func(m string, id int) { defer wg.Done(); run(m, id) }(m, *id)
		}
	}
	wg.Wait()
	var fails []hx.Failure
	var slowest time.Duration
	e := res["exec"]
	for _, m := range modes {
		x := res[m]
		if x.elapsed > slowest {
			slowest = x.elapsed
		}
		detail := map[string]any{"program": c.src, "mode": m, "child": true, "execute": e.values(), "executeContext": x.values(),
			"elapsed_ms_execute": e.elapsed.Milliseconds(), "elapsed_ms": x.elapsed.Milliseconds()}
		if x.gaveUp {
			fails = append(fails, hx.Failure{Class: c.class + "/" + m, Oracle: "the call returns (within 20 s of wall time)", Detail: detail})
			continue
		}
		if m != "exec" && x.values() != e.values() {
			fails = append(fails, hx.Failure{Class: c.class + "/" + m, Oracle: "child processes: ExecuteContext with a context that is never cancelled == Execute (output, error output, system()/close() values, error)", Detail: detail})
		}
		if x.elapsed > childBound {
			fails = append(fails, hx.Failure{Class: c.class + "/" + m, Oracle: "child processes: a wait for a command returns within 4 s although an orphaned grandchild holds the pipes for 8 s", Detail: detail})
		}
	}
	return fails, slowest
}

func childCancelAttempt(c childCase, dir string, id *int) ([]hx.Failure, time.Duration) {
	*id++
	x := runChild(c.src, "cancel", dir, *id)
	detail := map[string]any{"program": c.src, "mode": "cancel", "child": true, "got": x.values(), "cancelled": x.cancelled,
		"returned_ms_after_cancellation": x.afterCancel.Milliseconds(), "expected": `context canceled, output "before\n", within 4000 ms of the cancellation`}
	switch {
	case x.gaveUp:
		return []hx.Failure{{Class: c.class, Oracle: "the call returns (within 20 s of wall time)", Detail: detail}}, x.afterCancel
	case !x.cancelled || !x.ctxCanceled || !strings.HasPrefix(x.out, "before\n"):
		return []hx.Failure{{Class: c.class, Oracle: "child processes: cancellation during a wait for a command returns the context's error, output delivered", Detail: detail}}, x.afterCancel
	case x.afterCancel > childBound:
		return []hx.Failure{{Class: c.class, Oracle: "child processes: the call returns within 4 s of the cancellation although an orphaned grandchild holds the pipes for 8 s", Detail: detail}}, x.afterCancel
	}
	return nil, x.afterCancel
}

// childOracle runs the two families.  The machine may be heavily loaded, and os/exec's 250 ms
// WaitDelay is itself a race against the scheduler (under starvation even `echo out` can end in
// "WaitDelay expired before I/O complete", in Execute as well): a case is therefore reported only
// when it fails in the first attempt (cases run a few at a time) AND in each of two further
// attempts run alone (one case at a time, its three modes together).  A genuine defect fails every time.
// only: "" = everything, otherwise the one class to replay.
func (ck *checker) childOracle(only string) {
	rep := ck.rep
	dir, err := os.MkdirTemp("", "c15child")
	if err != nil {
		rep.HarnessError("temp dir: %v", err)
		return
	}
	defer os.RemoveAll(dir)
	if _, err := os.Stat("/bin/sh"); err != nil {
		rep.HarnessError("no /bin/sh: the child-process family cannot run")
		return
	}
	type job struct {
		c      childCase
		cancel bool
		fails  []hx.Failure
		slow   time.Duration
	}
	var jobs []*job
	for _, c := range childTransparency {
		if only == "" || only == c.class {
			jobs = append(jobs, &job{c: c})
		}
	}
	for _, c := range childCancel {
		if only == "" || only == c.class {
			jobs = append(jobs, &job{c: c, cancel: true})
		}
	}
	// first attempt: three cases at a time
	sem := make(chan struct{}, 3)
	var wg sync.WaitGroup
	var idMu sync.Mutex
	next := 0
	for _, j := range jobs {
		wg.Add(1)
		sem <- struct{}{}
		go func(j *job) {
			defer wg.Done()
			defer func() { <-sem }()
			idMu.Lock()
			next += 10
			id := next
			idMu.Unlock()
			if j.cancel {
				j.fails, j.slow = childCancelAttempt(j.c, dir, &id)
			} else {
				j.fails, j.slow = childTransparencyAttempt(j.c, dir, &id, false)
			}
		}(j)
	}
	wg.Wait()
	maxEl, maxAfter := time.Duration(0), time.Duration(0)
	retried := 0
	for _, j := range jobs {
		rep.SearchEvals++
		if os.Getenv("C15_CHILD_ONLY") != "" {
			fmt.Fprintf(os.Stderr, "%-55s first attempt: %d failing equations, slowest %d ms\n", j.c.class, len(j.fails), j.slow.Milliseconds())
		}
		// confirmation runs, alone
		for attempt := 0; attempt < 2 && len(j.fails) > 0; attempt++ {
			retried++
			next += 10
			id := next
			if j.cancel {
				j.fails, j.slow = childCancelAttempt(j.c, dir, &id)
			} else {
				j.fails, j.slow = childTransparencyAttempt(j.c, dir, &id, false)
			}
		}
		for _, f := range j.fails {
			rep.Fail(f)
		}
		if j.cancel && j.slow > maxAfter {
			maxAfter = j.slow
		}
		if !j.cancel && j.slow > maxEl {
			maxEl = j.slow
		}
	}
	rep.Count(fmt.Sprintf("child: confirmation attempts needed=%d", retried))
	rep.Count(fmt.Sprintf("child: slowest uncancelled run <= %d ms", (maxEl.Milliseconds()/250+1)*250))
	rep.Count(fmt.Sprintf("child: slowest return after cancellation <= %d ms", (maxAfter.Milliseconds()/250+1)*250))
}
