// C15 harness: cancellation stops execution promptly and is otherwise invisible.
//
// Correspondence: programs of the integer fragment (numbers, global/local scalars, global
// arrays, arithmetic, comparisons, user calls, for-in, print, rules over numbered records) with
// the script-callable native functions cancel(), cancelfail(), fail(), rec(v) are run by the
// implementation (Execute / ExecuteContext with a background, a live, a pre-cancelled context)
// and by the extracted Coq model (Model/Cancel.v execute_all over Model/CancelToy.v) on the
// compiled program dumped by prog.VerifDumpCompiled().  Compared verbatim: result (status /
// run-time error / context error), whether the output was flushed, the poll counter p.ctxOps
// at the end and at the moment the script cancelled (hook interp/verif_c15.go), the output,
// the arguments of rec() and the contents of every global array.
//
// Search oracle (implementation only, independent of the model):
//   E  = Execute;  X = ExecuteContext of the same program
//   never cancelled (Background, live context nobody cancels)        X == E
//   script cancelled / pre-cancelled / expired:  X returns the context's error (errors.Is
//     Canceled / DeadlineExceeded, matching the context) or finished first (then X == E); no other
//     error is ever returned after cancellation; out(X) is a prefix of out(E), rec(X) of rec(E);
//     everything recorded/printed before cancel() is there; at most 999 further instructions:
//     (rec calls after cancel) * 3 <= 999+3, (loop iterations after cancel - 1) * kmin <= 999
//   records processed by the main loop after cancellation <= 1000.
// Thorough tier only, supporting evidence: wall time until a system()/pipe wait or a blocked
// read of stdin returns after cancellation (2 s budget).
package main

import (
	"bufio"
	"bytes"
	"context"
	"encoding/json"
	"errors"
	"fmt"
	"io"
	"os"
	"regexp"
	"sort"
	"strconv"
	"strings"
	"time"

	"github.com/benhoyt/goawk/interp"
	"github.com/benhoyt/goawk/parser"
	"verif/harness/awkgen"
	"verif/harness/hx"
)

const pollEvery = 1000 // "about a thousand": the bound the property states (not read from the source)

var errNative = errors.New("native failure")

// ---------------------------------------------------------------- running the implementation

type natState struct {
	it              *interp.Interpreter
	ctx             context.Context
	cancel          context.CancelFunc
	recs            []int
	scriptCancelled bool
	opsAtCancel     int
	recsAtCancel    int
}

func (ns *natState) doCancel() {
	if ns.ctx != nil && ns.cancel != nil && ns.ctx.Err() == nil {
		ns.scriptCancelled = true
		ns.opsAtCancel = ns.it.VerifCtxOps()
		ns.recsAtCancel = len(ns.recs)
	}
	if ns.cancel != nil {
		ns.cancel()
	}
}

func funcsFor(ns *natState) map[string]any {
	return map[string]any{
		"cancel":     func() { ns.doCancel() },
		"cancelfail": func() (int, error) { ns.doCancel(); return 0, errNative },
		"fail":       func() (int, error) { return 0, errNative },
		"rec":        func(v int) { ns.recs = append(ns.recs, v) },
	}
}

type obs struct {
	kind            string // status:N | ctx | err:K | err:?<text>
	ctxWhich        string // canceled | deadline
	status          int
	out             string // raw
	flushed         bool
	recs            []int
	arrs            string
	opsEnd          int
	cops            string
	scriptCancelled bool
	recsAtCancel    int
	panicked        string
}

func (o obs) wire() string {
	cl := "0"
	if o.flushed {
		cl = "1"
	}
	return fmt.Sprintf("res=%s closed=%s ops=%d cops=%s out=%s rec=%s arrs=%s", o.kind, cl, o.opsEnd, o.cops, canonOut(o.out), joinInts(o.recs), o.arrs)
}

func (o obs) String() string {
	return fmt.Sprintf("%s which=%q panic=%q scriptCancelled=%v recsAtCancel=%d", o.wire(), o.ctxWhich, o.panicked, o.scriptCancelled, o.recsAtCancel)
}

func joinInts(a []int) string {
	s := make([]string, len(a))
	for i, v := range a {
		s[i] = strconv.Itoa(v)
	}
	return strings.Join(s, ",")
}

func canonOut(out string) string {
	if out == "" {
		return ""
	}
	ls := strings.Split(strings.TrimSuffix(out, "\n"), "\n")
	for i, l := range ls {
		ls[i] = strings.ReplaceAll(l, " ", ",")
	}
	return strings.Join(ls, ";")
}

func errKind(err error) string {
	switch {
	case errors.Is(err, errNative):
		return "err:3"
	case strings.Contains(err.Error(), "division by zero in mod"):
		return "err:2"
	case strings.Contains(err.Error(), "division by zero"):
		return "err:1"
	case strings.Contains(err.Error(), "exceeded maximum call depth"):
		return "err:4"
	}
	return "err:?" + err.Error()
}

type compiled struct {
	src     string
	prog    *parser.Program
	dump    string
	natives string   // indexes of cancel cancelfail fail rec
	arrays  []string // names of the global arrays in index order
	ns      *natState
}

var varRe = regexp.MustCompile(`\((\S+) (\S+) (\d+) (\d+) (\d+)\)`)
var funcRe = regexp.MustCompile(`\((\S+) (\d+) (\d+) (\d+)\)`)

func compile(src string) (*compiled, error) {
	ns := &natState{}
	prog, err := parser.ParseProgram([]byte(src), &parser.ParserConfig{Funcs: funcsFor(ns)})
	if err != nil {
		return nil, err
	}
	c := &compiled{src: src, prog: prog, dump: prog.VerifDumpCompiled(), ns: ns}
	tab := prog.VerifResolverTables()
	i := strings.Index(tab, "(funcs")
	vars, funcs := tab[:i], tab[i:]
	arr := map[int]string{}
	for _, m := range varRe.FindAllStringSubmatch(vars, -1) {
		if m[1] == "-" && m[3] == "3" && m[5] == "2" {
			idx, _ := strconv.Atoi(m[4])
			arr[idx] = string(hx.UnHex(m[2]))
		}
	}
	for i := 0; i < len(arr); i++ {
		c.arrays = append(c.arrays, arr[i])
	}
	nat := map[string]string{"cancel": "-1", "cancelfail": "-1", "fail": "-1", "rec": "-1"}
	for _, m := range funcRe.FindAllStringSubmatch(funcs, -1) {
		if m[2] == "1" {
			nat[string(hx.UnHex(m[1]))] = m[3]
		}
	}
	c.natives = nat["cancel"] + " " + nat["cancelfail"] + " " + nat["fail"] + " " + nat["rec"]
	return c, nil
}

// renderArray: integer keys in numeric order as k:v (the model's rendering; an unset element is 0);
// any other array (generated AWK programs only) sorted by key string, quoted
func renderArray(a map[string]any) string {
	allInt := true
	for k := range a {
		if _, err := strconv.Atoi(k); err != nil {
			allInt = false
		}
	}
	var parts []string
	if allInt {
		keys := make([]int, 0, len(a))
		for k := range a {
			ki, _ := strconv.Atoi(k)
			keys = append(keys, ki)
		}
		sort.Ints(keys)
		for _, k := range keys {
			v := a[strconv.Itoa(k)]
			vs := fmt.Sprint(v)
			switch x := v.(type) {
			case float64:
				if x == float64(int64(x)) {
					vs = strconv.FormatInt(int64(x), 10)
				}
			case string:
				if x == "" {
					vs = "0"
				}
			}
			parts = append(parts, strconv.Itoa(k)+":"+vs)
		}
	} else {
		keys := make([]string, 0, len(a))
		for k := range a {
			keys = append(keys, k)
		}
		sort.Strings(keys)
		for _, k := range keys {
			parts = append(parts, fmt.Sprintf("%q:%q", k, fmt.Sprint(a[k])))
		}
	}
	return strings.Join(parts, ",")
}

func inputLines(n int) string {
	var sb strings.Builder
	for i := 1; i <= n; i++ {
		sb.WriteString(strconv.Itoa(i))
		sb.WriteByte('\n')
	}
	return sb.String()
}

// hang is called when one execution of the implementation does not return within the watchdog
// time (an unnoticed cancellation under `while (1)`): it records the failure, writes the report
// and ends the harness (the run cannot be abandoned otherwise).
var hang func(src, mode string, lines int)

const watchdog = 20 * time.Second

// run executes the compiled program once in the given mode on a fresh Interpreter.
// modes: exec | bg | live | pre | expired
func (c *compiled) run(mode string, lines int) obs {
	ch := make(chan obs, 1)
	go func() { ch <- c.run1(mode, lines) }()
	select {
	case o := <-ch:
		return o
	case <-time.After(watchdog):
		if hang != nil {
			hang(c.src, mode, lines)
		}
		panic("execution does not return: " + c.src)
	}
}

func (c *compiled) run1(mode string, lines int) (o obs) {
	ns := c.ns
	*ns = natState{}
	it, err := interp.New(c.prog)
	if err != nil {
		o.kind = "err:?" + err.Error()
		return
	}
	ns.it = it
	var buf bytes.Buffer
	bw := bufio.NewWriterSize(&buf, 1<<16)
	cfg := &interp.Config{Stdin: strings.NewReader(inputLines(lines)), Output: bw, Error: io.Discard, Environ: []string{},
		NoExec: true, NoFileWrites: true, NoFileReads: true, Funcs: funcsFor(ns)}
	defer func() {
		if r := recover(); r != nil {
			o.panicked = fmt.Sprint(r)
			o.kind = "panic"
		}
	}()
	var st int
	switch mode {
	case "exec":
		st, err = it.Execute(cfg)
	case "bg":
		st, err = it.ExecuteContext(context.Background(), cfg)
	case "live", "pre":
		ns.ctx, ns.cancel = context.WithCancel(context.Background())
		if mode == "pre" {
			ns.cancel()
		}
		st, err = it.ExecuteContext(ns.ctx, cfg)
		ns.cancel()
	case "expired":
		ns.ctx, ns.cancel = context.WithDeadline(context.Background(), time.Now().Add(-time.Hour))
		st, err = it.ExecuteContext(ns.ctx, cfg)
		ns.cancel()
	default:
		panic("mode " + mode)
	}
	o.status = st
	switch {
	case err == nil:
		o.kind = "status:" + strconv.Itoa(st)
	case errors.Is(err, context.Canceled):
		o.kind, o.ctxWhich = "ctx", "canceled"
	case errors.Is(err, context.DeadlineExceeded):
		o.kind, o.ctxWhich = "ctx", "deadline"
	default:
		o.kind = errKind(err)
	}
	o.flushed = bw.Buffered() == 0
	o.out = buf.String()
	o.recs = ns.recs
	o.opsEnd = it.VerifCtxOps()
	o.cops = "-"
	if ns.scriptCancelled && mode == "live" {
		o.cops = strconv.Itoa(ns.opsAtCancel)
	}
	o.scriptCancelled = ns.scriptCancelled
	o.recsAtCancel = ns.recsAtCancel
	var sb strings.Builder
	for _, name := range c.arrays {
		sb.WriteString("[")
		if name != "ARGV" && name != "ENVIRON" && name != "FIELDS" {
			sb.WriteString(renderArray(it.Array(name)))
		}
		sb.WriteString("]")
	}
	o.arrs = sb.String()
	for strings.HasSuffix(o.arrs, "[]") { // canonical: arrays never touched at the end of the table are not listed
		o.arrs = strings.TrimSuffix(o.arrs, "[]")
	}
	return
}

// ---------------------------------------------------------------- cases

type ccase struct {
	class string
	src   string
	mode  string
	lines int
	fuel  int
	// search-oracle annotations
	mustCtx  bool // the program cannot finish by itself after cancellation: the context error is required
	kmin     int  // >0: R[0] counts loop iterations, R[1] holds the count at cancel(); each iteration executes kmin instructions (counted in the disassembly)
	printsTo int  // >=0: the lines 0..printsTo were printed before cancel() and must be in the output
}

func mk(class, src, mode string) ccase {
	return ccase{class: class, src: src, mode: mode, fuel: 2000000, printsTo: -1}
}

// hand-written templates; K = where cancel() is called, M = loop bound
func templates(K, M int, r *hx.Rand) []ccase {
	var cs []ccase
	add := func(c ccase) { cs = append(cs, c) }
	f := fmt.Sprintf
	// tight loops (BEGIN)
	c := mk("tight-for", f(`BEGIN { c = 0; for (i = 0; i < %d; i++) { if (i == %d) { R[1] = c; cancel() } c++; R[0] = c } print c }`, M, K), "live")
	c.kmin, c.mustCtx = 11, M-K > 400
	add(c)
	c = mk("tight-while", f(`BEGIN { n = 0; while (1) { n++; if (n == %d) { R[1] = n; cancel() } R[0] = n } }`, K), "live")
	c.kmin, c.mustCtx = 9, true
	add(c)
	c = mk("tight-do-rec", f(`BEGIN { n = 0; do { n++; if (n == %d) cancel(); rec(n) } while (n < %d); print n }`, K, M), "live")
	c.mustCtx = M-K > 400
	add(c)
	// recursion: cancel at the bottom, unwind, then loop; cancel on the way down
	d := 100 + K%400
	c = mk("recursion-bottom", f(`function f(d) { if (d == 0) { R[1] = 0; cancel(); return 0 } return f(d - 1) + 1 } BEGIN { c = 0; x = f(%d); print x; while (c < %d) { c++; R[0] = c } print c }`, d, M), "live")
	c.mustCtx = false
	add(c)
	c = mk("recursion-down", f(`function g(d) { R[0] = d; if (d == %d) { R[1] = d; cancel() } if (d < 900) g(d + 1) } BEGIN { g(0); n = 0; while (1) { n++ } }`, K%500), "live")
	c.kmin, c.mustCtx = 14, true
	add(c)
	c = mk("recursion-depth-error-after-cancel", f(`function h(d) { R[0] = d; if (d == %d) cancel(); h(d + 1) } BEGIN { h(0) }`, 960+K%35), "live")
	c.mustCtx = true
	add(c)
	// for-in over a large array, nested call inside the body
	A := 200 + K%800
	c = mk("forin", f(`BEGIN { for (i = 0; i < %d; i++) a[i] = 1; n = 0; for (k in a) { n++; if (n == %d) { R[1] = n; cancel() } R[0] = n } while (1) n++ }`, A, 1+K%A), "live")
	c.kmin, c.mustCtx = 7, true
	add(c)
	c = mk("forin-call-nested", f(`function w(x, j) { for (j = 0; j < 3; j++) x += j; return x } BEGIN { for (i = 0; i < %d; i++) a[i] = i; s = 0; n = 0; for (k in a) { n++; if (n == %d) { R[1] = n; cancel() } s = w(s + k); R[0] = n; for (q in a) { m++ } } print s, m }`, 40+K%60, 1+K%40), "live")
	c.mustCtx = true
	add(c)
	// main-loop rules, END
	c = mk("rules", f(`{ n++ } n == %d { R[1] = n; cancel() } { R[0] = n } END { print n }`, 1+K%3000), "live")
	c.lines, c.kmin, c.mustCtx = 1+K%3000+1500, 8, true // 7 instructions + the record-loop poll
	add(c)
	c = mk("rules-pattern-only-range", f(`BEGIN { n = 0 } { n++ } n == 3, n == 6 { m++ }
n %% 100 == 0
n == %d { cancel() } END { print n, m }`, 1+K%2000), "live")
	c.lines, c.mustCtx = 1+K%2000+600, true
	add(c)
	c = mk("rules-next", f(`{ n++; if (n %% 2) next; R[0] = n } n == %d { cancel() } END { print n }`, 2*(1+K%500)), "live")
	c.lines = 2*(1+K%500) + 900
	c.mustCtx = true
	add(c)
	// next / nextfile executed by a function called from a pattern (single and range): abandons the record
	c = mk("rules-next-in-pattern", f(`function sk(v) { if (v %% 2) next; return 1 } BEGIN { n = 0 } { n++ } sk(n) { R[0] = n } n == %d { cancel() } END { print n }`, 2*(1+K%400)), "live")
	c.lines = 2*(1+K%400) + 700
	c.mustCtx = true
	add(c)
	c = mk("rules-next-in-range-pattern", f(`function s3(v) { if (v %% 5 == 0) next; if (v == %d) nextfile; return v %% 3 == 0 } BEGIN { n = 0; m = 0 } { n++ } s3(n), s3(n + 1) { m++; R[2] = m } n == %d { cancel() } { R[0] = n } END { print n, m }`, 1+K%300+20+K%60, 1+K%300), "live")
	c.lines = 1 + K%300 + 500 // nextfile (the only file is stdin: input ends) comes 20..79 records after cancel()
	add(c)
	c = mk("end-block", f(`{ n++ } END { for (i = 0; i < %d; i++) { if (i == %d) { R[1] = i; cancel() } R[0] = i } print i }`, M, K), "live")
	c.lines, c.kmin, c.mustCtx = 5, 10, M-K > 400
	add(c)
	// pending output
	c = mk("pending-output", f(`BEGIN { for (i = 0; i < %d; i++) { print i; if (i == %d) cancel() } }`, M, K%1500), "live")
	c.printsTo, c.mustCtx = K%1500, M-K%1500 > 400
	add(c)
	// secondary errors after cancellation, exit after cancellation
	add(mk("cancelfail", f(`BEGIN { for (i = 0; i < %d; i++) { R[0] = i; if (i == %d) cancelfail() } }`, M, K), "live"))
	add(mk("div-zero-after-cancel", f(`BEGIN { z = 0; for (i = 0; i < %d; i++) { R[0] = i; if (i == %d) cancel(); if (i == %d) x = 1 / z } }`, M, K, K+1+K%50), "live"))
	c = mk("mod-zero-after-cancel-in-rule", f(`BEGIN { z = 0; n = 0 } { n++ } n == %d { cancel() } n == %d { x = n %% z } END { print n }`, 1+K%50, 3+K%50), "live")
	c.lines = 80
	add(c)
	add(mk("fail-after-cancel-in-forin", f(`BEGIN { for (i = 0; i < 50; i++) a[i] = 1; for (k in a) { n++; if (n == %d) cancel(); if (n == %d) fail() } print n }`, 1+K%20, 5+K%40), "live"))
	add(mk("exit-after-cancel", f(`BEGIN { for (i = 0; i < %d; i++) { R[0] = i; if (i == %d) cancel(); if (i == %d) exit 3 } } END { print i }`, M, K, K+1+K%60), "live"))
	add(mk("exit-after-cancel-long-end", f(`BEGIN { for (i = 0; i < %d; i++) { if (i == %d) cancel(); if (i == %d) exit 3 } } END { while (1) n++ }`, M, K, K+5), "live"))
	// the record loop itself does not poll: rules that execute no opcode (model and implementation agree on that)
	c = mk("rule-without-opcodes", `{ {} }`, "live")
	c.lines = 1200 + K%300
	add(c)
	c = mk("end-only", f(`END { for (i = 0; i < %d; i++) R[0] = i; print 7 }`, 5+K%100), "live")
	c.lines = 1200 + K%300
	add(c)
	// errors without cancellation
	add(mk("fail-no-cancel", f(`BEGIN { for (i = 0; i < %d; i++) { R[0] = i; if (i == %d) fail() } }`, M, K), "live"))
	add(mk("div-zero-no-cancel", f(`function q(a, b) { return a / b } BEGIN { for (i = %d; i >= 0; i--) { R[0] = i; x = q(10 * i, i) } }`, K%300), "live"))
	add(mk("depth-error-no-cancel", `function h(d) { R[0] = d; h(d + 1) } BEGIN { h(0) }`, "live"))
	return cs
}

// random programs of the fragment: nested loops, calls, for-in, a shared tick that triggers cancel()
type rgen struct {
	r     *hx.Rand
	depth int
	nvar  int
}

func (g *rgen) stmt(d int, local bool) string {
	r := g.r
	v := r.Pick([]string{"x", "y", "z"})
	if local && r.Bool() {
		v = r.Pick([]string{"p", "l"})
	}
	choice := r.Intn(12)
	if d <= 0 && choice >= 7 {
		choice = r.Intn(7)
	}
	switch choice {
	case 0:
		return v + "++"
	case 1:
		return fmt.Sprintf("%s = %s + %d", v, v, r.Intn(5))
	case 2:
		return fmt.Sprintf("R[%d]++", r.Intn(3))
	case 3:
		return "rec(" + v + ")"
	case 4:
		return "print " + v + ", t"
	case 5:
		return fmt.Sprintf("if (++t == K) cancel()")
	case 6:
		return fmt.Sprintf("%s = %s * 2 %% 1000", v, v)
	case 7:
		return fmt.Sprintf("if (%s %% %d == 0) { %s } else { %s }", v, 2+r.Intn(3), g.stmt(d-1, local), g.stmt(d-1, local))
	case 8:
		g.nvar++
		lv := fmt.Sprintf("i%d", g.nvar)
		if local {
			lv = fmt.Sprintf("l%d", d) // one loop variable per nesting level
		}
		return fmt.Sprintf("for (%s = 0; %s < %d; %s++) { %s }", lv, lv, 2+r.Intn(6), lv, g.block(d-1, local))
	case 9:
		g.nvar++
		return fmt.Sprintf("for (k%d in a) { %s }", g.nvar, g.block(d-1, local))
	case 10:
		if local {
			return v + " += 7"
		}
		return fmt.Sprintf("%s = f(%s, %d)", v, v, r.Intn(6))
	default:
		return fmt.Sprintf("if (%s > %d) %s", v, r.Intn(40), g.stmt(d-1, local))
	}
}

func (g *rgen) block(d int, local bool) string {
	n := 1 + g.r.Intn(3)
	var ss []string
	for i := 0; i < n; i++ {
		ss = append(ss, g.stmt(d, local))
	}
	return strings.Join(ss, "; ")
}

func randomProgram(r *hx.Rand) (string, int) {
	g := &rgen{r: r}
	var sb strings.Builder
	K := 1 + r.Intn(400)
	if r.Intn(4) == 0 {
		K = 1 + r.Intn(5)
	}
	fmt.Fprintf(&sb, "function f(p, d, l, l0, l1, l2) { l = 0; if (d > 0) { %s; return f(p + 1, d - 1) } %s; return p } ", g.block(1, true), g.block(1, true))
	fmt.Fprintf(&sb, "BEGIN { K = %d; t = 0; x = 1; y = 2; z = 3; for (i = 0; i < %d; i++) a[i] = i; %s } ", K, 2+r.Intn(9), g.block(3, false))
	lines := 0
	if r.Intn(3) == 0 {
		lines = 1 + r.Intn(40)
		fmt.Fprintf(&sb, "{ %s } ", g.block(2, false))
		if r.Bool() {
			fmt.Fprintf(&sb, "x %% 2 == 0 { %s } ", g.block(1, false))
		}
		if r.Bool() {
			fmt.Fprintf(&sb, "y %% 3 == 0, y %% 5 == 1 { %s } ", g.block(1, false))
		}
	}
	if r.Intn(3) == 0 {
		fmt.Fprintf(&sb, "END { %s; print x, y, z, t }", g.block(2, false))
	}
	return sb.String(), lines
}

// ---------------------------------------------------------------- the search oracle

type checker struct {
	rep *hx.Report
}

func isPrefix(a, b string) bool { return strings.HasPrefix(b, a) }
func isPrefixInts(a, b []int) bool {
	if len(a) > len(b) {
		return false
	}
	for i := range a {
		if a[i] != b[i] {
			return false
		}
	}
	return true
}

func same(a, b obs) bool {
	return a.kind == b.kind && a.out == b.out && joinInts(a.recs) == joinInts(b.recs) && a.arrs == b.arrs && a.flushed == b.flushed
}

func arrVal(arrs string, arrays []string, name string, key int) (int, bool) {
	parts := strings.Split(strings.TrimSuffix(strings.TrimPrefix(arrs, "["), "]"), "][")
	for i, n := range arrays {
		if n == name && i < len(parts) {
			for _, kv := range strings.Split(parts[i], ",") {
				p := strings.SplitN(kv, ":", 2)
				if len(p) == 2 && p[0] == strconv.Itoa(key) {
					v, err := strconv.Atoi(p[1])
					return v, err == nil
				}
			}
		}
	}
	return 0, false
}

// oracle evaluates the property's equations on one program in one mode, given the Execute run e.
func (ck *checker) oracle(cc ccase, c *compiled, e, x obs) {
	rep := ck.rep
	detail := func(extra map[string]any) map[string]any {
		d := map[string]any{"program": cc.src, "mode": cc.mode, "lines": cc.lines, "kmin": cc.kmin, "mustCtx": cc.mustCtx,
			"printsTo": cc.printsTo, "execute": e.String(), "executeContext": x.String()}
		for k, v := range extra {
			d[k] = v
		}
		return d
	}
	fail := func(oracle string, extra map[string]any) {
		rep.Fail(hx.Failure{Class: cc.class + "/" + cc.mode, Oracle: oracle, Detail: detail(extra)})
	}
	rep.SearchEvals++
	if x.panicked != "" || e.panicked != "" {
		fail("no-panic", nil)
		return
	}
	if !x.flushed {
		fail("output delivered (closeAll flushed the output buffer)", nil)
	}
	cancelled := x.scriptCancelled || cc.mode == "pre" || cc.mode == "expired"
	if !cancelled {
		// never cancelled: invisible
		if !same(e, x) {
			fail("ExecuteContext with a context that is never cancelled == Execute", nil)
		}
		return
	}
	switch {
	case x.kind == "ctx":
		want := "canceled"
		if cc.mode == "expired" {
			want = "deadline"
		}
		if x.ctxWhich != want {
			fail("the error is the context's own error (Canceled / DeadlineExceeded)", map[string]any{"want": want})
		}
	case strings.HasPrefix(x.kind, "status:"):
		// finished first: must be exactly the uncancelled behaviour
		if !same(e, x) {
			fail("a run that finished before the poll == Execute", nil)
		}
		if cc.mustCtx {
			fail("after cancellation the context's error is returned (program cannot finish by itself)", nil)
		}
	default:
		fail("after cancellation no error other than the context's is returned", nil)
	}
	if !isPrefix(x.out, e.out) {
		fail("output of the cancelled run is a prefix of the uncancelled output", nil)
	}
	if !isPrefixInts(x.recs, e.recs) {
		fail("rec() calls of the cancelled run are a prefix of the uncancelled ones", nil)
	}
	// promptness
	if x.scriptCancelled {
		after := len(x.recs) - x.recsAtCancel
		if after*3 > pollEvery-1+3 {
			fail("at most ~1000 instructions after cancel(): rec() calls after cancel * 3 <= 999+3", map[string]any{"rec_calls_after": after})
		}
	} else if len(x.recs)*3 > pollEvery-1+3 {
		fail("pre-cancelled context: rec() calls * 3 <= 999+3", map[string]any{"rec_calls": len(x.recs)})
	}
	if cc.kmin > 0 && x.scriptCancelled {
		r0, ok0 := arrVal(x.arrs, c.arrays, "R", 0)
		r1, ok1 := arrVal(x.arrs, c.arrays, "R", 1)
		if ok0 && ok1 && (r0-r1-1)*cc.kmin > pollEvery-1 {
			fail("at most ~1000 instructions after cancel(): (iterations after cancel - 1) * kmin <= 999",
				map[string]any{"iterations_after": r0 - r1, "kmin": cc.kmin})
		}
		if !ok1 {
			fail("state written before cancel() is kept (R[1])", nil)
		}
	}
	if cc.printsTo >= 0 && x.scriptCancelled {
		var sb strings.Builder
		for i := 0; i <= cc.printsTo; i++ {
			sb.WriteString(strconv.Itoa(i) + "\n")
		}
		if !strings.HasPrefix(x.out, sb.String()) {
			fail("everything printed before cancel() has been delivered", map[string]any{"lines_expected_at_least": cc.printsTo + 1})
		}
	}
}

// lineReader delivers one numbered record per Read call and counts the calls: the number of
// records the interpreter has pulled from its input.
type lineReader struct{ next, limit, reads int }

func (r *lineReader) Read(p []byte) (int, error) {
	if r.next > r.limit {
		return 0, io.EOF
	}
	r.reads++
	s := strconv.Itoa(r.next) + "\n"
	r.next++
	return copy(p, s), nil
}

// main-loop promptness in records: pre-cancelled context, numbered records delivered one per
// read; how many records were consumed before the call returned
func (ck *checker) recordsOracle(class, src string, lines int) {
	rep := ck.rep
	prog, err := parser.ParseProgram([]byte(src), nil)
	if err != nil {
		rep.HarnessError("records program does not parse: %s: %v", src, err)
		return
	}
	rep.SearchEvals++
	it, _ := interp.New(prog)
	ctx, cancel := context.WithCancel(context.Background())
	cancel()
	rd := &lineReader{next: 1, limit: lines}
	var out bytes.Buffer
	_, err = it.ExecuteContext(ctx, &interp.Config{Stdin: rd, Output: &out, Error: io.Discard, Environ: []string{}})
	got := "nil"
	if err != nil {
		got = err.Error()
	}
	rep.Count(fmt.Sprintf("records-consumed-after-cancellation:%s=%d", class, rd.reads))
	if rd.reads > pollEvery+1 || !errors.Is(err, context.Canceled) {
		rep.Fail(hx.Failure{Class: class, Oracle: "records consumed by the main loop after cancellation <= 1000, then the context's error",
			Detail: map[string]any{"program": src, "mode": "pre", "lines": lines, "records_consumed_after_cancellation": rd.reads,
				"output_bytes": out.Len(), "got": got, "expected": "context canceled after at most 1000 records"}})
	}
}

// a context that expires while the program runs: the error is DeadlineExceeded (WithTimeout) or
// Canceled (cancelled from another goroutine); the run ends (watchdog: 20 s)
func (ck *checker) expiringOracle() {
	rep := ck.rep
	for _, t := range []struct{ class, src string }{
		{"expiring/tight-loop", `BEGIN { while (1) n++ }`},
		{"expiring/recursion", `function f(d) { if (d < 500) f(d + 1) } BEGIN { while (1) f(0) }`},
		{"expiring/forin", `BEGIN { for (i = 0; i < 1000; i++) a[i]; while (1) for (k in a) n++ }`},
		{"expiring/end", `END { while (1) n++ }`},
	} {
		for _, how := range []string{"timeout", "cancel-from-goroutine"} {
			prog, err := parser.ParseProgram([]byte(t.src), nil)
			if err != nil {
				rep.HarnessError("%s: %v", t.class, err)
				continue
			}
			it, _ := interp.New(prog)
			var ctx context.Context
			var cancel context.CancelFunc
			want := context.DeadlineExceeded
			if how == "timeout" {
				ctx, cancel = context.WithTimeout(context.Background(), 15*time.Millisecond)
			} else {
				ctx, cancel = context.WithCancel(context.Background())
				want = context.Canceled
				go func(c context.CancelFunc) { time.Sleep(15 * time.Millisecond); c() }(cancel)
			}
			done := make(chan error, 1)
			go func() {
				_, err := it.ExecuteContext(ctx, &interp.Config{Stdin: strings.NewReader("1\n"), Output: io.Discard, Error: io.Discard, Environ: []string{}})
				done <- err
			}()
			rep.SearchEvals++
			select {
			case err := <-done:
				if !errors.Is(err, want) {
					rep.Fail(hx.Failure{Class: t.class + "/" + how, Oracle: "a context that expires during the run: the call returns the context's error",
						Detail: map[string]any{"program": t.src, "mode": how, "lines": 1, "expected": want.Error(), "got": fmt.Sprint(err)}})
				}
			case <-time.After(watchdog):
				if hang != nil {
					hang(t.src, how, 1)
				}
			}
			cancel()
		}
	}
}

// ---------------------------------------------------------------- thorough: OS-level waits (evidence only)

func (ck *checker) runtimeEvidence() {
	rep := ck.rep
	type rt struct{ name, src string }
	for _, t := range []rt{
		// the wait ends when the child is killed (the builtin then returns an exit code, not an error);
		// the loop that follows is stopped by the next poll
		{"system-wait", `BEGIN { system("sleep 5"); while (1) n++ }`},
		{"getline-pipe-wait", `BEGIN { "sleep 5; echo x" | getline y; while (1) n++ }`},
		{"print-pipe-close-wait", `BEGIN { print "x" | "sleep 5; cat >/dev/null"; close("sleep 5; cat >/dev/null"); while (1) n++ }`},
	} {
		prog, err := parser.ParseProgram([]byte(t.src), nil)
		if err != nil {
			rep.HarnessError("%s: %v", t.name, err)
			continue
		}
		it, _ := interp.New(prog)
		ctx, cancel := context.WithCancel(context.Background())
		var out bytes.Buffer
		done := make(chan error, 1)
		t0 := time.Now()
		go func() {
			_, err := it.ExecuteContext(ctx, &interp.Config{Stdin: strings.NewReader(""), Output: &out, Error: io.Discard})
			done <- err
		}()
		time.Sleep(100 * time.Millisecond)
		cancel()
		t0 = time.Now()
		select {
		case err := <-done:
			el := time.Since(t0)
			rep.Count(fmt.Sprintf("runtime:%s:returned-after-ms<=%d", t.name, (el.Milliseconds()/100+1)*100))
			rep.Count(fmt.Sprintf("runtime:%s:returned-within-2s:ctxerr=%v", t.name, errors.Is(err, context.Canceled)))
			rep.SearchEvals++
			if !errors.Is(err, context.Canceled) || el > 2*time.Second {
				rep.Fail(hx.Failure{Class: "runtime/" + t.name, Oracle: "a wait for a child process returns the context's error within 2 s of cancellation",
					Detail: map[string]any{"program": t.src, "elapsed_ms": el.Milliseconds(), "err": fmt.Sprint(err)}})
			}
		case <-time.After(2 * time.Second):
			rep.SearchEvals++
			rep.Fail(hx.Failure{Class: "runtime/" + t.name, Oracle: "a wait for a child process returns the context's error within 2 s of cancellation",
				Detail: map[string]any{"program": t.src, "elapsed_ms": ">2000"}})
			<-done
		}
	}
	// blocked read of stdin: documented as not preemptible; measured, not judged
	pr, pw := io.Pipe()
	prog, _ := parser.ParseProgram([]byte(`{ n++ } END { print n }`), nil)
	it, _ := interp.New(prog)
	ctx, cancel := context.WithCancel(context.Background())
	done := make(chan error, 1)
	go func() {
		_, err := it.ExecuteContext(ctx, &interp.Config{Stdin: pr, Output: io.Discard, Error: io.Discard})
		done <- err
	}()
	time.Sleep(50 * time.Millisecond)
	cancel()
	select {
	case <-done:
		rep.Count("runtime:blocked-stdin:returned-within-2s")
	case <-time.After(2 * time.Second):
		rep.Count("runtime:blocked-stdin:still-blocked-after-2s (not preemptible, outside the model)")
		pw.Close()
		<-done
	}
}

// ---------------------------------------------------------------- main

func replay(path string) int {
	b, err := os.ReadFile(path)
	if err != nil {
		fmt.Println("replay:", err)
		return 2
	}
	var doc struct {
		Failure hx.Failure `json:"failure"`
	}
	if err := json.Unmarshal(b, &doc); err != nil {
		fmt.Println("replay:", err)
		return 2
	}
	d := doc.Failure.Detail
	src, _ := d["program"].(string)
	mode, _ := d["mode"].(string)
	num := func(k string) int {
		f, _ := d[k].(float64)
		return int(f)
	}
	rep := hx.NewReport("C15", 0, "replay")
	ck := &checker{rep: rep}
	hang = func(src, mode string, lines int) {
		fmt.Println("STILL FAILS: ExecuteContext still running after 20 s")
		os.Exit(1)
	}
	fmt.Printf("replay class=%s oracle=%q\nprogram: %s\nmode=%s lines=%d\n", doc.Failure.Class, doc.Failure.Oracle, src, mode, num("lines"))
	if strings.HasPrefix(doc.Failure.Class, "runtime/") {
		ck.runtimeEvidence()
	} else if strings.HasPrefix(doc.Failure.Class, "expiring/") {
		ck.expiringOracle()
	} else if strings.HasPrefix(doc.Failure.Class, "history/") {
		hp, _ := d["history_program"].(string)
		hs, _ := d["history"].(string)
		ck.historyOracle(hp, strings.Split(hs, ","))
	} else if strings.HasPrefix(doc.Failure.Class, "child") {
		cl := doc.Failure.Class
		if strings.HasPrefix(cl, "child/") { // transparency classes carry the mode as their last component
			cl = strings.TrimSuffix(cl, "/"+mode)
		}
		ck.childOracle(cl)
	} else if _, ok := d["records_consumed_after_cancellation"]; ok {
		ck.recordsOracle(doc.Failure.Class, src, num("lines"))
	} else {
		c, err := compile(src)
		if err != nil {
			fmt.Println("replay: parse:", err)
			return 2
		}
		mustCtx, _ := d["mustCtx"].(bool)
		cc := ccase{class: strings.TrimSuffix(doc.Failure.Class, "/"+mode), src: src, mode: mode, lines: num("lines"), kmin: num("kmin"), mustCtx: mustCtx, printsTo: num("printsTo")}
		x := c.run(mode, cc.lines)
		e := obs{kind: "none", out: x.out, recs: x.recs, flushed: true}
		if !strings.Contains(src, "while (1)") { // the uncancelled run exists
			e = c.run("exec", cc.lines)
		}
		fmt.Printf("Execute:        %s\nExecuteContext: %s\n", e, x)
		ck.oracle(cc, c, e, x)
	}
	for _, f := range rep.Failures {
		fmt.Printf("STILL FAILS: oracle=%q detail=%v\n", f.Oracle, f.Detail)
	}
	if len(rep.Failures) > 0 {
		return 1
	}
	fmt.Println("replay: the failure no longer reproduces")
	return 0
}

func main() {
	o := hx.ParseFlags()
	if o.Replay != "" {
		os.Exit(replay(o.Replay))
	}
	rep := hx.NewReport("C15", o.Seed, o.Tier)
	rep.Rule = "programs of the integer fragment (22 hand-written template families x cancel position K x loop bound M: tight loops, recursion depth 100..990, for-in over 200..1000 keys with nested calls, main-loop rules with patterns/ranges/next, END, pending output, secondary errors and exit after cancel()) and random nestings of loops/calls/for-in/rules with a shared tick that triggers cancel(); each in modes Execute / Background / live context / pre-cancelled; model = extracted Coq execute_all on the dumped compiled program; compared: result, flushed, ctxOps at end and at cancel(), output, rec() arguments, all global arrays; distinct = distinct (program, mode); non-trivial = the model executed at least 20 instructions"
	r := hx.NewRand(o.Seed)
	nTempl, nRand, nGen := 2, 80, 100
	if o.Tier == "thorough" {
		nTempl, nRand, nGen = 40, 3000, 4000
	}
	if o.N > 0 {
		nTempl, nRand, nGen = 1+o.N/40, o.N, o.N
	}
	ck := &checker{rep: rep}
	tStart := time.Now()
	if os.Getenv("C15_HISTORY_ONLY") != "" { // development
		ck.historyOracle("", nil)
		rep.Write(o.Out)
		return
	}
	if os.Getenv("C15_CHILD_ONLY") != "" { // development: the child-process family alone (repeated runs under load)
		ck.childOracle("")
		rep.Write(o.Out)
		return
	}
	hang = func(src, mode string, lines int) {
		rep.SearchEvals++
		rep.Fail(hx.Failure{Class: "does-not-return/" + mode, Oracle: "the call returns (within 20 s of wall time)",
			Detail: map[string]any{"program": src, "mode": mode, "lines": lines, "kmin": 0, "mustCtx": true, "printsTo": -1,
				"got": "ExecuteContext still running after 20 s", "expected": "the context's error after at most ~1000 instructions"}})
		rep.Write(o.Out)
		os.Exit(0)
	}

	var cases []ccase
	for i := 0; i < nTempl; i++ {
		K := 1 + r.Intn(2500)
		if i == 0 {
			K = 997 // the cancel lands just before a poll
		}
		M := K + 300 + r.Intn(1500)
		for _, c := range templates(K, M, r) {
			cases = append(cases, c)
			// the same program: never cancelled from outside == Execute; pre-cancelled
			if i%3 == 0 {
				p := c
				p.mode = "pre"
				cases = append(cases, p)
			}
		}
	}
	if o.Tier == "thorough" {
		c := mk("forin-10000", `BEGIN { for (i = 0; i < 10000; i++) a[i] = 1; n = 0; for (k in a) { n++; if (n == 7777) { R[1] = n; cancel() } R[0] = n } while (1) n++ }`, "live")
		c.kmin, c.mustCtx = 7, true
		cases = append(cases, c)
		c = mk("recursion-990", `function g(d) { R[0] = d; if (d == 880) { R[1] = d; cancel() } if (d < 990) g(d + 1) } BEGIN { g(0); n = 0; while (1) { n++ } }`, "live")
		c.kmin, c.mustCtx = 14, true
		cases = append(cases, c)
	}
	// boundary: pre-cancelled programs of exactly 998, 999, 1000 dispatches
	for _, n := range []int{498, 499, 500, 501} {
		// R[0]++ is two instructions: 2n instructions in all; the 1000th dispatch polls
		c := mk("boundary-pre", "BEGIN { "+strings.Repeat("R[0]++; ", n)+"}", "pre")
		c.mustCtx = 2*n >= pollEvery // the 1000th dispatch must poll
		cases = append(cases, c)
		c = mk("boundary-pre-odd", "BEGIN { x++; "+strings.Repeat("R[0]++; ", n)+"}", "pre")
		c.mustCtx = 2*n+1 >= pollEvery
		cases = append(cases, c)
	}
	for i := 0; i < nRand; i++ {
		src, lines := randomProgram(r)
		for _, mode := range []string{"live", "bg", "pre"} {
			if mode == "bg" && i%4 != 0 {
				continue
			}
			if mode == "pre" && i%2 != 0 {
				continue
			}
			c := mk("random", src, mode)
			c.lines = lines
			cases = append(cases, c)
		}
	}

	// ---- run the implementation, build the model requests ----
	type done struct {
		cc   ccase
		c    *compiled
		e, x obs
	}
	var ds []done
	var reqs []string
	cache := map[string]*compiled{}
	ecache := map[string]obs{}
	for _, cc := range cases {
		c := cache[cc.src]
		if c == nil {
			var err error
			c, err = compile(cc.src)
			if err != nil {
				rep.HarnessError("generated program does not parse: %v: %s", err, cc.src)
				continue
			}
			cache[cc.src] = c
		}
		// Execute of the same program: skipped (not needed by any equation) when the program cannot finish by itself
		ekey := cc.src + "#" + strconv.Itoa(cc.lines)
		e, ok := ecache[ekey]
		infinite := strings.Contains(cc.src, "while (1)")
		if !ok && !infinite {
			e = c.run("exec", cc.lines)
			ecache[ekey] = e
			reqs = append(reqs, fmt.Sprintf("run\t%s\t%s\t%s\t%d\t%d", c.dump, c.natives, "exec", cc.lines, cc.fuel))
			ds = append(ds, done{cc: ccase{class: cc.class, src: cc.src, mode: "exec", lines: cc.lines}, c: c, x: e})
		}
		x := c.run(cc.mode, cc.lines)
		rep.Count("class:" + cc.class)
		rep.Count("mode:" + cc.mode)
		rep.Count("result:" + strings.SplitN(x.kind, ":", 2)[0])
		if x.scriptCancelled {
			rep.Count("script-cancelled")
		}
		if !infinite {
			ck.oracle(cc, c, e, x)
		} else {
			// the uncancelled run does not exist: the prefix equations are vacuous, the others are evaluated against x itself
			ck.oracle(cc, c, obs{kind: "none", out: x.out, recs: x.recs, flushed: true}, x)
		}
		reqs = append(reqs, fmt.Sprintf("run\t%s\t%s\t%s\t%d\t%d", c.dump, c.natives, cc.mode, cc.lines, cc.fuel))
		ds = append(ds, done{cc: cc, c: c, x: x})
	}

	// ---- correspondence ----
	tModel := time.Now()
	ans, err := hx.ModelEval(o.ModelRun, reqs)
	rep.Count(fmt.Sprintf("timing: implementation runs %.1fs, model runs %.1fs", tModel.Sub(tStart).Seconds(), time.Since(tModel).Seconds()))
	if err != nil {
		rep.HarnessError("%v", err)
	} else {
		maxAfter := 0
		for i, d := range ds {
			rep.CorrEvals++
			model := ans[i]
			if strings.HasPrefix(model, "unmod") {
				rep.Unmodelled++
				rep.Count("unmodelled:" + model)
				if rep.Hist["unmodelled:"+model] <= 2 {
					rep.Sample(map[string]string{"unmodelled": model, "program": d.cc.src})
				}
				continue
			}
			j := strings.Index(model, " clock=")
			if j < 0 {
				rep.Mismatch(hx.Mismatch{Class: "corr:" + d.cc.class + "/" + d.cc.mode, Input: d.cc.src, Impl: d.x.wire(), Model: model, Note: "malformed model answer"})
				continue
			}
			var clock int
			var doneAt string
			fmt.Sscanf(model[j:], " clock=%d done=%s", &clock, &doneAt)
			if clock >= 20 {
				rep.Distinct(d.cc.src + "#" + d.cc.mode)
			}
			if t, err := strconv.Atoi(doneAt); err == nil && strings.HasPrefix(model, "res=ctx") {
				// dispatches after cancellation, computed by the model on the program the implementation ran
				if clock-t > maxAfter {
					maxAfter = clock - t
				}
				if clock-t > pollEvery-1 {
					rep.Mismatch(hx.Mismatch{Class: "corr:bound", Input: d.cc.src, Impl: "<= 999", Model: model, Note: "model executed more than checkContextOps-1 instructions after cancellation"})
				}
			}
			if i%97 == 0 {
				rep.Sample(map[string]string{"program": d.cc.src, "mode": d.cc.mode, "lines": strconv.Itoa(d.cc.lines), "implementation": d.x.wire(), "model": model})
			}
			if model[:j] != d.x.wire() {
				rep.Mismatch(hx.Mismatch{Class: "corr:" + d.cc.class + "/" + d.cc.mode, Input: fmt.Sprintf("%s [lines=%d]", d.cc.src, d.cc.lines), Impl: d.x.wire(), Model: model})
			}
		}
		rep.Count(fmt.Sprintf("max-instructions-after-cancellation(model)=%d", maxAfter))
	}

	// ---- search on generated AWK programs (implementation only) ----
	for i := 0; i < nGen; i++ {
		p := awkgen.NewProgram(r, true, 1+r.Intn(3))
		src := p.Render(awkgen.Opts{})
		c, err := compile(src)
		if err != nil {
			rep.Count("awkgen-parse-error")
			continue
		}
		lines := 6
		e := c.run("exec", lines)
		for _, mode := range []string{"bg", "live", "pre", "expired"} {
			x := c.run(mode, lines)
			ck.oracle(ccase{class: "awkgen", src: src, mode: mode, lines: lines, printsTo: -1}, c, e, x)
		}
		// cancel() as the first statement of BEGIN
		c2, err := compile("BEGIN { cancel() } " + src)
		if err == nil {
			e2 := c2.run("exec", lines)
			x2 := c2.run("live", lines)
			ck.oracle(ccase{class: "awkgen-cancel-first", src: "BEGIN { cancel() } " + src, mode: "live", lines: lines, printsTo: -1}, c2, e2, x2)
		}
		rep.Count("awkgen-programs")
	}

	// ---- main loop: records processed after cancellation ----
	for _, t := range [][2]string{
		{"rule-pattern-only", `1`},
		{"rule-print", `{ print }`},
		{"rule-counter-pattern", `{ n++ } n > 0`},
		{"rule-range", `NR == 1, NR == 0`},
		{"rule-regex", `/[0-9]/`},
		{"rule-getline", `{ getline; n++ }`},
		{"record-loop-executes-no-opcode", `{ {} }`},
		{"record-loop-executes-no-opcode", `BEGIN { x = 1 } { { } { } }`},
		{"record-loop-executes-no-opcode", `END { print NR }`},
	} {
		ck.recordsOracle(t[0], t[1], 6000)
	}

	ck.expiringOracle()
	ck.childOracle("")
	ck.historyOracle("", nil)
	if o.Tier == "thorough" {
		ck.runtimeEvidence()
	}
	rep.Write(o.Out)
}
