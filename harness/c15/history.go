// C15, histories (quick tier): one Interpreter, several calls.  Every call of a history of 2-3 calls
// mixing Execute, ExecuteContext(Background), ExecuteContext(TODO), ExecuteContext(cancellable, never
// cancelled) and ExecuteContext(cancelled before / during / after its run), in every order, must
// behave exactly as the same call on a fresh Interpreter: a call depends on its own context only
// (ExecuteContext installs checkCtx, ctx, ctxDone, ctxOps anew; Execute clears checkCtx).
// Programs initialise their variables in BEGIN, so that nothing but the context could carry over.
package main

import (
	"bufio"
	"bytes"
	"context"
	"errors"
	"fmt"
	"os"
	"strings"

	"github.com/benhoyt/goawk/interp"
	"github.com/benhoyt/goawk/parser"
	"verif/harness/hx"
)

var histKinds = []string{"exec", "bg", "todo", "live", "pre", "during", "after"}

type histProg struct {
	name, src string
	lines     int
	shell     bool
	triples   bool
	cancelAt  int // a "during" call cancels its context at this call of tick()
}

var histProgs = []histProg{
	// >= 1000 steps in BEGIN; tick() cancels the current context at its 500th call in a "during" call
	{"long-begin", `BEGIN { c = 0; for (i = 0; i < 3000; i++) { c++; tick() } print c }`, 0, false, true, 500},
	// >= 1000 steps in the record loop and END
	{"records-end", `BEGIN { n = 0; e = 0 } { n++; tick() } END { for (i = 0; i < 1500; i++) e++; print n, e }`, 1500, false, false, 500},
	// a child process: execShell hands p.ctx to exec.CommandContext when checkCtx is set
	{"system", `BEGIN { x = ""; r = system("exit 3"); tick(); print "r", r; "echo piped" | getline x; print x }`, 0, true, false, 1},
	// short program: finishes before any poll
	{"short", `BEGIN { x = 1; tick(); print x }`, 0, false, false, 1},
}

type histState struct {
	cancel func()
	kind   string
	ticks  int
}

type histObs struct{ res, out, errOut string }

func (o histObs) String() string {
	return fmt.Sprintf("result=%s out=%q error-output=%q", o.res, o.out, o.errOut)
}

func histCall(it *interp.Interpreter, hp histProg, st *histState, funcs map[string]any, kind string) (o histObs) {
	defer func() {
		if r := recover(); r != nil {
			o.res = fmt.Sprint("panic: ", r)
		}
	}()
	var buf, errb bytes.Buffer
	bw := bufio.NewWriter(&buf)
	cfg := &interp.Config{Stdin: strings.NewReader(inputLines(hp.lines)), Output: bw, Error: &errb,
		Environ: []string{"PATH", os.Getenv("PATH")}, NoExec: !hp.shell, NoFileWrites: true, NoFileReads: true, Funcs: funcs}
	st.kind, st.ticks, st.cancel = kind, 0, func() {}
	var status int
	var err error
	switch kind {
	case "exec":
		status, err = it.Execute(cfg)
	case "bg":
		status, err = it.ExecuteContext(context.Background(), cfg)
	case "todo":
		status, err = it.ExecuteContext(context.TODO(), cfg)
	default:
		ctx, cancel := context.WithCancel(context.Background())
		st.cancel = cancel
		if kind == "pre" {
			cancel()
		}
		status, err = it.ExecuteContext(ctx, cfg)
		cancel() // "after" (and tidy up for live / during)
	}
	switch {
	case err == nil:
		o.res = fmt.Sprintf("status:%d", status)
	case errors.Is(err, context.Canceled):
		o.res = "context canceled"
	default:
		o.res = "error: " + err.Error()
	}
	if bw.Buffered() != 0 {
		o.res += " (output not flushed)"
	}
	o.out, o.errOut = buf.String(), errb.String()
	return
}

func histNew(hp histProg) (*interp.Interpreter, *histState, map[string]any, error) {
	st := &histState{cancel: func() {}}
	funcs := map[string]any{"tick": func() {
		st.ticks++
		if st.kind == "during" && st.ticks == hp.cancelAt {
			st.cancel()
		}
	}}
	prog, err := parser.ParseProgram([]byte(hp.src), &parser.ParserConfig{Funcs: funcs})
	if err != nil {
		return nil, nil, nil, err
	}
	it, err := interp.New(prog)
	return it, st, funcs, err
}

// runHistory: the calls of one history on one Interpreter
func runHistory(hp histProg, kinds []string) ([]histObs, error) {
	it, st, funcs, err := histNew(hp)
	if err != nil {
		return nil, err
	}
	var res []histObs
	for _, k := range kinds {
		res = append(res, histCall(it, hp, st, funcs, k))
	}
	return res, nil
}

// historyOracle: only = nil runs everything, otherwise the one (program, history) to replay
func (ck *checker) historyOracle(onlyProg string, onlyKinds []string) {
	rep := ck.rep
	for _, hp := range histProgs {
		if onlyProg != "" && onlyProg != hp.name {
			continue
		}
		fresh := map[string]histObs{}
		for _, k := range histKinds {
			r, err := runHistory(hp, []string{k})
			if err != nil {
				rep.HarnessError("history program %s: %v", hp.name, err)
				return
			}
			fresh[k] = r[0]
		}
		var hists [][]string
		if onlyKinds != nil {
			hists = [][]string{onlyKinds}
		} else {
			for _, a := range histKinds {
				for _, b := range histKinds {
					hists = append(hists, []string{a, b})
					if hp.triples {
						for _, c := range histKinds {
							hists = append(hists, []string{a, b, c})
						}
					}
				}
			}
		}
		for _, h := range hists {
			res, _ := runHistory(hp, h)
			rep.SearchEvals++
			rep.Count("history:" + hp.name)
			for i, got := range res {
				want := fresh[h[i]]
				if got != want {
					rep.Fail(hx.Failure{Class: "history/" + hp.name + "/" + h[i] + "-after-" + strings.Join(h[:i], "+"),
						Oracle: "a call on a reused Interpreter behaves as the same call on a fresh Interpreter (it depends on its own context only)",
						Detail: map[string]any{"program": hp.src, "history_program": hp.name, "history": strings.Join(h, ","), "call_index": i, "mode": h[i],
							"lines": hp.lines, "expected": want.String(), "got": got.String(),
							"kinds": "exec=Execute bg=ExecuteContext(Background) todo=ExecuteContext(TODO) live=cancellable never cancelled pre/during/after=cancelled before / at a tick() of / after the run"}})
					break
				}
			}
		}
	}
}
