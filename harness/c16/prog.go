// Abstract programs for C16: what the resolver reads of an AWK program, a
// renderer to AWK source, and the wire encoding for the model runner.
package main

import (
	"fmt"
	"strings"

	"verif/harness/hx"
)

type Ty int

const (
	TUnknown Ty = 0
	TScalar  Ty = 1
	TArray   Ty = 2
)

// Event mirrors Model/Resolver.v event.
type Event struct {
	IsCall bool
	V      string // Use: variable
	T      Ty
	F      string // Call: function
	Args   []Arg
}

type Arg struct {
	IsVar bool
	V     string
	Es    []Event
}

func use(v string, t Ty) Event { return Event{V: v, T: t} }

// A statement of the generated programs: it knows its AWK text and its events.
// Kind: "s" scalar use of V, "a" array use of V, "l" length(V), "c" call of F.
// W is a second variable some forms need (index, loop variable, result).
type Stmt struct {
	Kind string
	Form int
	V, W string
	Tag  string
	F    string
	Args []ArgX
	// kind "h": a hole expression (HKind "var", "idx", "call") in expression position Pos
	Pos   int
	HKind string
}

// ArgX kinds: "v" bare variable, "k" constant, "x" expression using V as a scalar,
// "i" index expression V[...], "c" nested call, "l" length(V).
type ArgX struct {
	Kind string
	Form int
	V, W string
	Call *Stmt
}

const nScalarForms, nArrayForms, nLengthForms, nCallForms = 6, 9, 2, 2

func (a ArgX) text() string {
	switch a.Kind {
	case "v":
		return a.V
	case "k":
		return []string{"1", "\"s\" 1", "2+3"}[a.Form%3]
	case "x":
		switch a.Form % 4 {
		case 0:
			return a.V + " \"t\""
		case 1:
			return "(" + a.V + ")"
		case 2:
			return "-" + a.V
		default:
			return a.V + "+1"
		}
	case "i":
		if a.Form%2 == 0 {
			return a.V + "[1]"
		}
		return a.V + "[" + a.W + "]"
	case "c":
		return a.Call.callText()
	case "l":
		return "length(" + a.V + ")"
	}
	panic("arg kind " + a.Kind)
}

func (a ArgX) arg() Arg {
	switch a.Kind {
	case "v":
		return Arg{IsVar: true, V: a.V}
	case "k":
		return Arg{}
	case "x":
		return Arg{Es: []Event{use(a.V, TScalar)}}
	case "i":
		if a.Form%2 == 0 {
			return Arg{Es: []Event{use(a.V, TArray)}}
		}
		return Arg{Es: []Event{use(a.W, TScalar), use(a.V, TArray)}}
	case "c":
		return Arg{Es: []Event{a.Call.callEvent()}}
	case "l":
		return Arg{Es: []Event{use(a.V, TUnknown)}}
	}
	panic("arg kind " + a.Kind)
}

func (s *Stmt) callText() string {
	var parts []string
	for _, a := range s.Args {
		parts = append(parts, a.text())
	}
	return s.F + "(" + strings.Join(parts, ", ") + ")"
}

func (s *Stmt) callEvent() Event {
	e := Event{IsCall: true, F: s.F}
	for _, a := range s.Args {
		e.Args = append(e.Args, a.arg())
	}
	return e
}

func (s *Stmt) text() string {
	v, w := s.V, s.W
	switch s.Kind {
	case "s":
		switch s.Form % nScalarForms {
		case 0:
			return fmt.Sprintf("%s = %s \"%s\"", v, v, s.Tag)
		case 1:
			return v + "++"
		case 2:
			return v + " = 1"
		case 3:
			return "if (" + v + ") {}"
		case 4:
			return "getline " + v + " < \"/dev/null\""
		default:
			return "sub(/a/, \"b\", " + v + ")"
		}
	case "a":
		switch s.Form % nArrayForms {
		case 0:
			return fmt.Sprintf("%s[\"k\"] = %s[\"k\"] \"%s\"", v, v, s.Tag)
		case 1:
			return "delete " + v
		case 2:
			return "delete " + v + "[1]"
		case 3:
			return "split(\"a b\", " + v + ")"
		case 4:
			return "if (1 in " + v + ") {}"
		case 5:
			return "for (" + w + " in " + v + ") {}"
		case 6:
			return v + "[" + w + "] = 1"
		case 7:
			return "delete " + v + "[" + w + "]"
		default:
			return "if ((1, " + w + ") in " + v + ") {}"
		}
	case "l":
		if s.Form%nLengthForms == 0 {
			return fmt.Sprintf("%s = %s length(%s)", w, w, v)
		}
		return "length(" + v + ")"
	case "c":
		if s.Form%nCallForms == 0 {
			return s.callText()
		}
		return w + " = " + s.callText()
	case "h":
		return s.posText()
	case "o": // observe an array element in a global
		return fmt.Sprintf("O_ = O_ %s[\"k\"]", v)
	case "m": // membership test
		return fmt.Sprintf("if (\"k\" in %s) M_ = M_ \"%s\"", v, s.Tag)
	case "f": // for-in: count the keys
		return fmt.Sprintf("for (K_ in %s) N_ = N_ \"%s\"", v, s.Tag)
	case "p": // dump of a global at the end of an executable program
		if s.Form == 0 {
			return fmt.Sprintf("print \"%s\", length(%s), %s[\"k\"]", v, v, v)
		}
		return fmt.Sprintf("print \"%s\", %s", v, v)
	}
	panic("stmt kind " + s.Kind)
}

func (s *Stmt) events() []Event {
	v, w := s.V, s.W
	switch s.Kind {
	case "s":
		if s.Form%nScalarForms == 0 {
			return []Event{use(v, TScalar), use(v, TScalar)}
		}
		return []Event{use(v, TScalar)}
	case "a":
		switch s.Form % nArrayForms {
		case 0:
			return []Event{use(v, TArray), use(v, TArray)}
		case 1, 2, 3, 4:
			return []Event{use(v, TArray)}
		case 5:
			return []Event{use(w, TScalar), use(v, TArray)}
		case 6:
			return []Event{use(w, TScalar), use(v, TArray)}
		case 7:
			return []Event{use(v, TArray), use(w, TScalar)}
		default:
			return []Event{use(w, TScalar), use(v, TArray)}
		}
	case "l":
		if s.Form%nLengthForms == 0 {
			return []Event{use(w, TScalar), use(w, TScalar), use(v, TUnknown)}
		}
		return []Event{use(v, TUnknown)}
	case "c":
		if s.Form%nCallForms == 0 {
			return []Event{s.callEvent()}
		}
		return []Event{use(w, TScalar), s.callEvent()}
	case "p":
		if s.Form == 0 {
			return []Event{use(v, TUnknown), use(v, TArray)}
		}
		return []Event{use(v, TScalar)}
	case "h":
		return s.posEvents()
	case "o":
		return []Event{use("O_", TScalar), use("O_", TScalar), use(v, TArray)}
	case "m":
		return []Event{use(v, TArray), use("M_", TScalar), use("M_", TScalar)}
	case "f":
		return []Event{use("K_", TScalar), use(v, TArray), use("N_", TScalar), use("N_", TScalar)}
	}
	panic("stmt kind " + s.Kind)
}

// Item: one top-level item. Kind: "func", "begin", "action", "end".
type Item struct {
	Kind   string
	Name   string
	Params []string
	PatVar string // action: optional pattern variable ("" = no pattern)
	Pat    *Stmt  // action: optional pattern (a hole expression); Pat2: second of a range pattern
	Pat2   *Stmt
	Body   []*Stmt
}

// Native: an entry of ParserConfig.Funcs. NotFunc "" = a Go function with In
// parameters; otherwise the value is not a function: "nil", "int", "string", "slice".
type Native struct {
	Name     string
	In       int
	Variadic bool
	NotFunc  string
}

type Prog struct {
	Family  string
	Note    string
	Natives []Native
	Items   []Item
	Exec    bool // rendered with the recursion guard; can be executed
}

const guardVar = "DEPTH_"

func (it *Item) events(exec bool) []Event {
	var es []Event
	if it.Kind == "action" && it.PatVar != "" {
		es = append(es, use(it.PatVar, TScalar))
	}
	if it.Kind == "action" {
		es = append(es, patEvents(it)...)
	}
	if it.Kind == "func" && exec {
		es = append(es, use(guardVar, TScalar), use(guardVar, TScalar))
	}
	for _, s := range it.Body {
		es = append(es, s.events()...)
	}
	if it.Kind == "func" && exec {
		es = append(es, use(guardVar, TScalar))
	}
	return es
}

func (it *Item) text(exec bool) string {
	var sb strings.Builder
	switch it.Kind {
	case "func":
		fmt.Fprintf(&sb, "function %s(%s) {", it.Name, strings.Join(it.Params, ", "))
		if exec {
			fmt.Fprintf(&sb, " if (%s > 2) return; %s++;", guardVar, guardVar)
		}
	case "begin":
		sb.WriteString("BEGIN {")
	case "end":
		sb.WriteString("END {")
	case "action":
		if it.PatVar != "" {
			sb.WriteString(it.PatVar + " ")
		}
		if it.Pat != nil {
			sb.WriteString(patText(it) + " ")
		}
		sb.WriteString("{")
	}
	for _, s := range it.Body {
		sb.WriteString(" " + s.text() + ";")
	}
	if it.Kind == "func" && exec {
		fmt.Fprintf(&sb, " %s--;", guardVar)
	}
	sb.WriteString(" }")
	return sb.String()
}

func (p *Prog) Source() string {
	var lines []string
	for i := range p.Items {
		lines = append(lines, p.Items[i].text(p.Exec))
	}
	return strings.Join(lines, "\n") + "\n"
}

func (p *Prog) funcs() []*Item {
	var fs []*Item
	for i := range p.Items {
		if p.Items[i].Kind == "func" {
			fs = append(fs, &p.Items[i])
		}
	}
	return fs
}

// mainEvents: BEGIN blocks, then actions, then END blocks, each in source order.
func (p *Prog) mainEvents() []Event {
	var es []Event
	for _, k := range []string{"begin", "action", "end"} {
		for i := range p.Items {
			if p.Items[i].Kind == k {
				es = append(es, p.Items[i].events(p.Exec)...)
			}
		}
	}
	return es
}

func wireEvents(sb *strings.Builder, es []Event) {
	fmt.Fprintf(sb, " %d", len(es))
	for _, e := range es {
		if !e.IsCall {
			fmt.Fprintf(sb, " u %s %d", hx.HexS(e.V), int(e.T))
			continue
		}
		fmt.Fprintf(sb, " c %s %d", hx.HexS(e.F), len(e.Args))
		for _, a := range e.Args {
			if a.IsVar {
				fmt.Fprintf(sb, " v %s", hx.HexS(a.V))
			} else {
				sb.WriteString(" e")
				wireEvents(sb, a.Es)
			}
		}
	}
}

// Wire: the PROG part of a model request.
func (p *Prog) Wire() string {
	var sb strings.Builder
	fmt.Fprintf(&sb, "N %d", len(p.Natives))
	for _, n := range p.Natives {
		v := 0
		if n.Variadic {
			v = 1
		}
		isFunc := 1
		if n.NotFunc != "" {
			isFunc = 0
		}
		fmt.Fprintf(&sb, " %s %d %d %d", hx.HexS(n.Name), n.In, v, isFunc)
	}
	fs := p.funcs()
	fmt.Fprintf(&sb, " F %d", len(fs))
	for _, f := range fs {
		fmt.Fprintf(&sb, " %s %d", hx.HexS(f.Name), len(f.Params))
		for _, q := range f.Params {
			sb.WriteString(" " + hx.HexS(q))
		}
		wireEvents(&sb, f.events(p.Exec))
	}
	sb.WriteString(" M")
	wireEvents(&sb, p.mainEvents())
	return sb.String()
}

// ---- variants: permutations of the top-level items and consistent renamings ----

func (p *Prog) permuted(perm []int) *Prog {
	q := *p
	q.Items = make([]Item, len(p.Items))
	for i, j := range perm {
		q.Items[i] = p.Items[j]
	}
	return &q
}

func renameStmt(s *Stmt, r func(string) string) *Stmt {
	t := *s
	t.V, t.W, t.F = r(s.V), r(s.W), r(s.F)
	t.Args = nil
	for _, a := range s.Args {
		b := a
		b.V, b.W = r(a.V), r(a.W)
		if a.Call != nil {
			b.Call = renameStmt(a.Call, r)
		}
		t.Args = append(t.Args, b)
	}
	return &t
}

// renamed applies r to every user-chosen name (functions, parameters, variables).
func (p *Prog) renamed(r func(string) string) *Prog {
	q := *p
	q.Items = nil
	for _, it := range p.Items {
		jt := it
		jt.Name = r(it.Name)
		jt.PatVar = r(it.PatVar)
		if it.Pat != nil {
			jt.Pat = renameStmt(it.Pat, r)
		}
		if it.Pat2 != nil {
			jt.Pat2 = renameStmt(it.Pat2, r)
		}
		jt.Params = nil
		for _, x := range it.Params {
			jt.Params = append(jt.Params, r(x))
		}
		jt.Body = nil
		for _, s := range it.Body {
			jt.Body = append(jt.Body, renameStmt(s, r))
		}
		q.Items = append(q.Items, jt)
	}
	q.Natives = nil
	for _, n := range p.Natives {
		q.Natives = append(q.Natives, n) // native names are not renamed (r fixes them)
	}
	return &q
}
